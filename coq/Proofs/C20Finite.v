(* Finite sweeps over the translated tables (re-proved against lut.py on every run). *)
From BSE Require Import Model.Val Gen.GenLut Model.Lut Model.Elements.

(* IUPAC symbols 1..118: a hand-written specification, NOT derived from the code *)
Definition official : list string :=
 ["h";"he";"li";"be";"b";"c";"n";"o";"f";"ne";"na";"mg";"al";"si";"p";"s";"cl";"ar";"k";"ca";"sc";"ti";"v";"cr";"mn";"fe";
  "co";"ni";"cu";"zn";"ga";"ge";"as";"se";"br";"kr";"rb";"sr";"y";"zr";"nb";"mo";"tc";"ru";"rh";"pd";"ag";"cd";"in";"sn";
  "sb";"te";"i";"xe";"cs";"ba";"la";"ce";"pr";"nd";"pm";"sm";"eu";"gd";"tb";"dy";"ho";"er";"tm";"yb";"lu";"hf";"ta";"w";
  "re";"os";"ir";"pt";"au";"hg";"tl";"pb";"bi";"po";"at";"rn";"fr";"ra";"ac";"th";"pa";"u";"np";"pu";"am";"cm";"bk";"cf";
  "es";"fm";"md";"no";"lr";"rf";"db";"sg";"bh";"hs";"mt";"ds";"rg";"cn";"nh";"fl";"mc";"lv";"ts";"og"].

Definition Zs : list Z := zrange 1 118.

Definition res_eqb {A} (eqb : A -> A -> bool) (r : res A) (x : A) : bool :=
  match r with inr y => eqb y x | inl _ => false end.

Lemma Zs_spec z : (1 <= z <= 118)%Z -> In z Zs.
Proof.
  intros H. unfold Zs.
  assert (G : forall n lo, (lo <= z < lo + Z.of_nat n)%Z -> In z (zrange lo n)).
  { induction n as [|n IH]; intros lo Hlo; [lia|]. cbn [zrange].
    destruct (Z.eq_dec lo z) as [->|Hne]; [now left|]. right. apply IH. lia. }
  apply G. lia.
Qed.

(* Z -> symbol is the official symbol, and symbol -> Z (any capitalisation) brings it back *)
Definition sym_check (z : Z) : bool :=
  match nth_error official (Z.to_nat (z - 1)) with
  | None => false
  | Some s =>
    res_eqb String.eqb (element_sym_from_Z z false) s &&
    res_eqb String.eqb (element_sym_from_Z z true) (capitalize s) &&
    res_eqb Z.eqb (element_Z_from_sym s) z &&
    res_eqb Z.eqb (element_Z_from_sym (upper s)) z &&
    res_eqb Z.eqb (element_Z_from_sym (capitalize s)) z
  end.
Lemma sym_sweep : forallb sym_check Zs = true.
Proof. vm_compute. reflexivity. Qed.

Definition name_check (z : Z) : bool :=
  match element_name_from_Z z false with
  | inl _ => false
  | inr n => res_eqb Z.eqb (element_Z_from_name n) z && res_eqb Z.eqb (element_Z_from_name (upper n)) z
             && res_eqb Z.eqb (element_Z_from_name (capitalize n)) z
  end.
Lemma name_sweep : forallb name_check Zs = true.
Proof. vm_compute. reflexivity. Qed.

(* every entry of the table: looking its symbol / name up gives an entry with the same Z *)
Definition entry_check (e : entry) : bool :=
  res_eqb Z.eqb (element_Z_from_sym (e_sym e)) (e_Z e) && res_eqb Z.eqb (element_Z_from_name (e_name e)) (e_Z e).
Lemma entry_sweep : forallb entry_check data_table = true.
Proof. vm_compute. reflexivity. Qed.

(* angular momentum letters *)
Definition am_check (hij : bool) (l : Z) : bool :=
  match amint_to_char [l] hij false with
  | inr s => res_eqb list_Z_eqb (amchar_to_int s hij) [l] && res_eqb list_Z_eqb (amchar_to_int (upper s) hij) [l]
             && Nat.eqb (String.length s) 1
  | inl _ => false
  end.
Definition am_range (hij : bool) : list Z := zrange 0 (String.length (amchar_map hij)).
Lemma am_sweep : forallb (am_check false) (am_range false) && forallb (am_check true) (am_range true) = true.
Proof. vm_compute. reflexivity. Qed.
Lemma am_sizes : String.length amchar_map_hik = 25 /\ String.length amchar_map_hij = 26.
Proof. vm_compute. split; reflexivity. Qed.

Lemma amint_out_of_range hij l :
  (l < 0 \/ Z.of_nat (String.length (amchar_map hij)) <= l)%Z -> amint_to_char [l] hij false = inl EIndex.
Proof.
  intros H. unfold amint_to_char. cbn [andb]. unfold amint_chars.
  destruct (l <? 0)%Z eqn:E; [reflexivity|].
  assert (Hl : (String.length (amchar_map hij) <= Z.to_nat l)%nat) by lia.
  assert (G : forall s n, (String.length s <= n)%nat -> snth n s = None).
  { induction s as [|c s IH]; intros n Hn; [destruct n; reflexivity|]. destruct n; cbn in *; [lia|]. apply IH. lia. }
  rewrite (G _ _ Hl). reflexivity.
Qed.

(* letters are pairwise distinct in both tables, so letter -> l is well defined *)
Fixpoint nodup_chars (s : string) : bool :=
  match s with EmptyString => true | String c t => negb (sany (Ascii.eqb c) t) && nodup_chars t end.
Lemma am_letters_distinct : nodup_chars amchar_map_hik && nodup_chars amchar_map_hij = true.
Proof. vm_compute. reflexivity. Qed.

(* electron_shells_start: every count 0..118 is refused or accounted for exactly *)
Definition ess_check (n : Z) : bool :=
  match electron_shells_start n 20 with
  | inl _ => true
  | inr st => Z.eqb (covered_from 0 st) n && Nat.eqb (List.length st) 21
  end.
Lemma ess_sweep : forallb ess_check (zrange 0 119) = true.
Proof. vm_compute. reflexivity. Qed.
Definition closed_cores : list Z := [0;2;10;18;28;36;46;54;60;68;78;86;92;118]%Z.
Lemma ess_accepts_cores :
  forallb (fun n => match electron_shells_start n 20 with inr _ => true | inl _ => false end) closed_cores = true.
Proof. vm_compute. reflexivity. Qed.
Lemma ess_bounds n m : (n < 0 -> electron_shells_start n m = inl ERuntime)%Z /\
                       (n > 118 -> electron_shells_start n m = inl ENotImpl)%Z.
Proof.
  unfold electron_shells_start. split; intros H.
  - assert (E : (n <? ess_lower_bound)%Z = true) by (unfold ess_lower_bound; lia). rewrite E. reflexivity.
  - assert (E : (n <? ess_lower_bound)%Z = false) by (unfold ess_lower_bound; lia). rewrite E.
    assert (E2 : (n >? ess_upper_bound)%Z = true) by (unfold ess_upper_bound; lia). rewrite E2. reflexivity.
Qed.

(* ---------- lifting the sweeps to quantified statements ---------- *)
Lemma res_eqb_str r x : res_eqb String.eqb r x = true -> r = inr x.
Proof. destruct r as [e|y]; cbn; [discriminate|]. intros H. apply String.eqb_eq in H. now subst. Qed.
Lemma res_eqb_Z r x : res_eqb Z.eqb r x = true -> r = inr x.
Proof. destruct r as [e|y]; cbn; [discriminate|]. intros H. apply Z.eqb_eq in H. now subst. Qed.

Lemma res_eqb_zlist r x : res_eqb list_Z_eqb r x = true -> r = inr x.
Proof.
  destruct r as [e|y]; cbn; [discriminate|]. unfold list_Z_eqb.
  destruct (list_eq_dec Z.eq_dec y x); [now subst|discriminate].
Qed.

Lemma sym_Z_inverse_official_lemma :
  forall z, (1 <= z <= 118)%Z ->
    exists s, nth_error official (Z.to_nat (z - 1)) = Some s /\
      element_sym_from_Z z false = inr s /\ element_sym_from_Z z true = inr (capitalize s) /\
      element_Z_from_sym s = inr z /\ element_Z_from_sym (upper s) = inr z /\ element_Z_from_sym (capitalize s) = inr z.
Proof.
  intros z Hz. pose proof (proj1 (forallb_forall _ _) sym_sweep z (Zs_spec z Hz)) as H.
  unfold sym_check in H. destruct (nth_error official (Z.to_nat (z - 1))) as [s|]; [|discriminate].
  exists s. repeat rewrite andb_true_iff in H. destruct H as [[[[H1 H2] H3] H4] H5].
  repeat split; auto using res_eqb_str, res_eqb_Z.
Qed.

Lemma name_Z_inverse_lemma :
  forall z, (1 <= z <= 118)%Z ->
    exists n, element_name_from_Z z false = inr n /\ element_Z_from_name n = inr z /\
              element_Z_from_name (upper n) = inr z /\ element_Z_from_name (capitalize n) = inr z.
Proof.
  intros z Hz. pose proof (proj1 (forallb_forall _ _) name_sweep z (Zs_spec z Hz)) as H.
  unfold name_check in H. destruct (element_name_from_Z z false) as [e|n]; [discriminate|].
  exists n. repeat rewrite andb_true_iff in H. destruct H as [[H1 H2] H3].
  repeat split; auto using res_eqb_Z.
Qed.

Lemma table_entries_resolve_lemma :
  forall e, In e data_table -> element_Z_from_sym (e_sym e) = inr (e_Z e) /\ element_Z_from_name (e_name e) = inr (e_Z e).
Proof.
  intros e He. pose proof (proj1 (forallb_forall _ _) entry_sweep e He) as H.
  unfold entry_check in H. rewrite andb_true_iff in H. destruct H. split; auto using res_eqb_Z.
Qed.

Lemma zrange_In z lo n : (lo <= z < lo + Z.of_nat n)%Z -> In z (zrange lo n).
Proof.
  revert lo. induction n as [|n IH]; intros lo H; [lia|]. cbn [zrange].
  destruct (Z.eq_dec lo z) as [->|Hne]; [now left|]. right. apply IH. lia.
Qed.

Lemma am_inverse_lemma :
  forall hij l, (0 <= l < Z.of_nat (String.length (amchar_map hij)))%Z ->
    exists s, amint_to_char [l] hij false = inr s /\ String.length s = 1 /\
              amchar_to_int s hij = inr [l] /\ amchar_to_int (upper s) hij = inr [l].
Proof.
  intros hij l Hl. pose proof am_sweep as H. rewrite andb_true_iff in H. destruct H as [Hk Hj].
  assert (Hc : am_check hij l = true).
  { destruct hij; [apply (proj1 (forallb_forall _ _) Hj) | apply (proj1 (forallb_forall _ _) Hk)];
      unfold am_range; apply zrange_In; lia. }
  unfold am_check in Hc. destruct (amint_to_char [l] hij false) as [e|s]; [discriminate|].
  exists s. repeat rewrite andb_true_iff in Hc. destruct Hc as [[H1 H2] H3].
  apply res_eqb_zlist in H1, H2. apply Nat.eqb_eq in H3. auto.
Qed.

Lemma ess_counts_lemma :
  forall n, (0 <= n <= 118)%Z ->
    match electron_shells_start n 20 with
    | inl _ => True
    | inr st => covered_from 0 st = n /\ List.length st = 21
    end.
Proof.
  intros n Hn. assert (Hin : In n (zrange 0 119)) by (apply zrange_In; lia).
  pose proof (proj1 (forallb_forall _ _) ess_sweep n Hin) as H. unfold ess_check in H.
  destruct (electron_shells_start n 20) as [e|st]; [exact I|].
  rewrite andb_true_iff in H. destruct H as [H1 H2]. apply Z.eqb_eq in H1. apply Nat.eqb_eq in H2. auto.
Qed.

Lemma ess_accepts_cores_lemma :
  forall n, In n closed_cores -> exists st, electron_shells_start n 20 = inr st.
Proof.
  intros n Hin. pose proof (proj1 (forallb_forall _ _) ess_accepts_cores n Hin) as H. cbn beta in H.
  destruct (electron_shells_start n 20) as [e|st]; [discriminate|]. now exists st.
Qed.
