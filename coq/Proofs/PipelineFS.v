(* C02/C07/C08 through the translated option pipeline of get_basis (Gen/GenApi.v, Model/Pipeline.v), at the
   decimal-string instance.  Statements in Proofs/C08Defs.v. *)
From Coq Require Import Permutation.
From BSE Require Import Model.Val Model.Num Model.Basis Model.Manip Model.ManipS Model.Sort Model.Pipeline Gen.GenApi Gen.GenConsts.
From BSE Require Import Proofs.FSDefs Proofs.SortDefs Proofs.NumDefs Proofs.NumInstance Proofs.PruneFS Proofs.GeneralFS
     Proofs.C07Spec Proofs.C08Defs Proofs.PrunePost.

(* ====================================================================================================== *)
(* carrier-independent part                                                                                *)
(* ====================================================================================================== *)
Section Helpers.
  Variable N : Type.
  Variable is0 : N -> bool.
  Variable same : N -> N -> bool.
  Variable eqN : N -> N -> bool.
  Variables zero_lit one_lit ozero_lit : N.
  Hypothesis Hc : carrier_ok is0 same eqN zero_lit one_lit ozero_lit.

  Notation shell := (shell N).
  Notation basis := (basis N).
  Notation wf_shell := (wf_shell is0).
  Notation wf_shells := (wf_shells is0).
  Notation wf_basis := (wf_basis is0).

  Let KP : prune_shells_FS_stmt is0 same eqN := PruneFS.prune_shells_FS N is0 same eqN zero_lit one_lit ozero_lit Hc.

  (* the trivial relation: basis_rel T says "same keys, same other fields, shells present in the same elements" *)
  Definition T (_ _ : list shell) : Prop := True.

  (* ---------------- basis_rel: composition, weakening, what it says about the untouched fields ---------------- *)
  Lemma basis_rel_comp : forall (R1 R2 R3 : list shell -> list shell -> Prop),
      (forall a b c, R1 a b -> R2 b c -> R3 a c) ->
      forall b1 b2 b3 : basis, basis_rel R1 b1 b2 -> basis_rel R2 b2 b3 -> basis_rel R3 b1 b3.
  Proof.
    intros R1 R2 R3 Ht b1 b2 b3 [H1 H2] [H3 H4]. split; [congruence|].
    revert H4. generalize (belems b3).
    induction H2 as [|x y l l' [Hk Hxy] _ IH]; intros l3 H4;
      inversion H4 as [|? z ? l3' [Hk' Hyz] H4']; subst; constructor.
    - split; [congruence|]. destruct Hxy as [Hr1 Hs1], Hyz as [Hr2 Hs2]. split; [congruence|].
      destruct (eshells (snd x)), (eshells (snd y)), (eshells (snd z)); try tauto. eapply Ht; eauto.
    - apply IH; assumption.
  Qed.

  Lemma basis_rel_weaken : forall (R R' : list shell -> list shell -> Prop),
      (forall a b, R a b -> R' a b) -> forall b1 b2 : basis, basis_rel R b1 b2 -> basis_rel R' b1 b2.
  Proof.
    intros R R' Hw b1 b2 [H1 H2]. split; [exact H1|].
    induction H2 as [|x y l l' [Hk [Hr Hs]] _ IH]; constructor; [|exact IH].
    split; [exact Hk|]. split; [exact Hr|].
    destruct (eshells (snd x)), (eshells (snd y)); try tauto. apply Hw; exact Hs.
  Qed.

  Lemma basis_rel_T : forall (R : list shell -> list shell -> Prop) (b1 b2 : basis),
      basis_rel R b1 b2 -> basis_rel T b1 b2.
  Proof. intros R b1 b2. apply basis_rel_weaken. intros; exact I. Qed.

  Lemma T_trans : forall b1 b2 b3 : basis, basis_rel T b1 b2 -> basis_rel T b2 b3 -> basis_rel T b1 b3.
  Proof. apply basis_rel_comp. intros; exact I. Qed.

  Lemma T_refl : forall b : basis, basis_rel T b b.
  Proof.
    intros b. split; [reflexivity|]. induction (belems b) as [|kv l IH]; constructor; [|exact IH].
    split; [reflexivity|]. split; [reflexivity|]. destruct (eshells (snd kv)); exact I.
  Qed.

  Lemma basis_rel_shape : forall (R : list shell -> list shell -> Prop) (b1 b2 : basis),
      basis_rel R b1 b2 ->
      brest b1 = brest b2 /\ map fst (belems b1) = map fst (belems b2) /\
      Forall2 (fun kv1 kv2 => erest (snd kv1) = erest (snd kv2)) (belems b1) (belems b2).
  Proof.
    intros R b1 b2 [H1 H2]. split; [exact H1|].
    induction H2 as [|x y l l' [Hk [Hr Hs]] _ [IH1 IH2]]; [split; constructor|].
    split; [cbn; rewrite Hk, IH1; reflexivity | constructor; assumption].
  Qed.

  Lemma bForall_impl : forall (P Q : list shell -> Prop), (forall shs, P shs -> Q shs) ->
      forall b : basis, bForall P b -> bForall Q b.
  Proof.
    intros P Q HPQ b H. unfold bForall in *. eapply Forall_impl; [|exact H].
    intros kv Hkv. unfold eP in *. destruct (eshells (snd kv)); auto.
  Qed.

  (* ---------------- fused_low is kept by uncontract_general, pruning and uncontract_spdf ---------------- *)
  Lemma unc_gen_shell_am : forall (s x : shell), In x (unc_gen_shell s) -> am x = am s.
  Proof.
    intros s x. unfold unc_gen_shell.
    destruct (orb _ _).
    - intros [<-|[]]. reflexivity.
    - destruct (Nat.eqb (length (am s)) 1); [|intros []].
      intros Hx. apply in_map_iff in Hx. destruct Hx as [c [<- _]]. reflexivity.
  Qed.

  Lemma fused_low_am : forall m (s x : shell), am x = am s -> fused_low m s -> fused_low m x.
  Proof. intros m s x Ha H. unfold fused_low in *. rewrite Ha. exact H. Qed.

  Lemma unc_gen_fused_low : forall m (shs : list shell),
      Forall (fused_low m) shs -> Forall (fused_low m) (unc_gen_shells shs).
  Proof.
    intros m shs H. rewrite Forall_forall in *. intros x Hx.
    unfold unc_gen_shells in Hx. apply in_flat_map in Hx. destruct Hx as [s [Hs Hx]].
    apply (fused_low_am m s x (unc_gen_shell_am s x Hx)). apply H; exact Hs.
  Qed.

  Lemma prune_shells_fused_low : forall m (shs out : list shell),
      Forall (fused_low m) shs -> prune_shells is0 same eqN shs = inr out -> Forall (fused_low m) out.
  Proof.
    intros m shs out H Hp. unfold prune_shells, bind in Hp.
    destruct (mapM (prune_shell is0 same) shs) as [e|ps] eqn:Em; [discriminate|].
    inversion Hp; subst out; clear Hp.
    apply GeneralFS.mapM_Forall2 in Em. rewrite Forall_forall in *. intros x Hx.
    apply GeneralFS.dedupe_in in Hx. destruct Hx as [[]|Hx].
    destruct (GeneralFS.Forall2_in_r _ Em Hx) as [s [Hs Hps]].
    apply (fused_low_am m s x (prune_shell_am _ _ _ Hps)). apply H; exact Hs.
  Qed.

  Lemma unc_spdf_fused_low : forall m (shs out : list shell),
      wf_shells shs -> unc_spdf_shells m shs [] = inr out -> Forall (fused_low m) out.
  Proof.
    intros m shs out Hwf Ho.
    pose proof (@GeneralFS.unc_spdf_shape N is0 m shs out Hwf Ho) as Hs.
    eapply Forall_impl; [|exact Hs]. intros s Hsh Hl. specialize (Hsh Hl).
    destruct (am s) as [|l t]; [cbn in Hl; lia|].
    exists l. split; [left; reflexivity|]. inversion Hsh; assumption.
  Qed.

  (* ---------------- basis level: the three operations of pipeline3 with wf, fused_low and FSeq ---------------- *)
  Lemma G_prune_fused : forall m (b b' : basis),
      basis_fused_low m b -> prune_basis is0 same eqN b = inr b' -> basis_fused_low m b'.
  Proof.
    intros m b b' Hl H. unfold prune_basis in H.
    destruct (@lift_M N (Forall (fused_low m)) (Forall (fused_low m)) T (prune_shells is0 same eqN))
      with (b := b) (b' := b') as [_ HP]; [|exact Hl|exact H|exact HP].
    intros shs out Hs Ho. split; [exact I|]. eapply prune_shells_fused_low; eauto.
  Qed.

  Lemma G_ug : forall m (b b' : basis),
      wf_basis b -> basis_fused_low m b -> uncontract_general is0 same eqN b = inr b' ->
      basis_FSeq is0 same b' b /\ wf_basis b' /\ basis_fused_low m b'.
  Proof.
    intros m b b' Hwf Hl H.
    destruct (@GeneralFS.uncontract_general_FS N is0 same eqN KP b b' Hwf H) as [H1 H2].
    split; [exact H1|]. split; [exact H2|].
    unfold uncontract_general in H.
    destruct (@lift_pure N (Forall (fused_low m)) (Forall (fused_low m)) T (@unc_gen_shells N)) with (b := b)
      as [_ HP].
    - intros shs Hs. split; [exact I|]. apply unc_gen_fused_low; exact Hs.
    - exact Hl.
    - apply (G_prune_fused m _ b' HP H).
  Qed.

  Lemma G_us : forall m (b b' : basis),
      wf_basis b -> basis_fused_low m b -> uncontract_spdf m b = inr b' ->
      basis_FSeq is0 same b' b /\ wf_basis b' /\ basis_fused_low m b'.
  Proof.
    intros m b b' Hwf Hl H.
    split; [apply (@GeneralFS.uncontract_spdf_FS N is0 same m b b' Hwf H)|].
    unfold uncontract_spdf in H.
    assert (Hpre : bForall (fun shs => wf_shells shs /\ Forall (fused_low m) shs) b)
      by (apply bForall_and; assumption).
    split.
    - destruct (@lift_M N (fun shs => wf_shells shs /\ Forall (fused_low m) shs) wf_shells T
                  (fun shs => unc_spdf_shells m shs [])) with (b := b) (b' := b') as [_ HP];
        [|exact Hpre|exact H|exact HP].
      intros shs out [Hs Hf] Ho. split; [exact I|].
      apply (@GeneralFS.unc_spdf_shells_wf N is0 m shs out Hs Hf Ho).
    - destruct (@lift_M N (fun shs => wf_shells shs /\ Forall (fused_low m) shs) (Forall (fused_low m)) T
                  (fun shs => unc_spdf_shells m shs [])) with (b := b) (b' := b') as [_ HP];
        [|exact Hpre|exact H|exact HP].
      intros shs out [Hs Hf] Ho. split; [exact I|].
      apply (unc_spdf_fused_low m shs out Hs Ho).
  Qed.

  Lemma G_mg : forall (b b' : basis),
      wf_basis b -> basis_fused_low 0 b -> make_general is0 same eqN zero_lit false b = inr b' ->
      basis_FSeq is0 same b' b /\ wf_basis b'.
  Proof.
    intros b b' Hwf Hl H.
    apply (@GeneralFS.make_general_FS N is0 same eqN zero_lit one_lit ozero_lit Hc KP false b b' Hwf (fun _ => Hl) H).
  Qed.

  Lemma G_prune : forall (b b' : basis),
      wf_basis b -> prune_basis is0 same eqN b = inr b' ->
      basis_FSeq is0 same b' b /\ wf_basis b' /\ pruned_basis is0 same eqN b'.
  Proof.
    intros b b' Hwf H.
    destruct (@GeneralFS.prune_basis_FS N is0 same eqN KP b b' Hwf H) as [H1 H2].
    split; [exact H1|]. split; [exact H2|].
    apply (prune_basis_post N is0 same eqN zero_lit one_lit ozero_lit Hc b b' Hwf H).
  Qed.

  (* ---------------- "dead" shells: what uncontract_spdf leaves of a fused shell without a low member ---------------- *)
  (* (possible after remove_free_primitives has removed the s contraction of an spd shell).  prune_shell raises on
     them, so a pipeline that returns has not produced one; until the final pruning they are carried along. *)
  Definition dead (s : shell) : Prop := am s = [] /\ coefs s = [] /\ exps s <> [].
  Definition wfd (s : shell) : Prop := wf_shell s \/ dead s.

  Lemma wf_exps_ne : forall s, wf_shell s -> exps s <> [].
  Proof.
    intros s [Hr [[Hne Hnz] _]] E. unfold rect in Hr. rewrite E in Hr.
    destruct (coefs s) as [|c cs]; [congruence|].
    inversion Hr as [|? ? Hl _]; subst. inversion Hnz as [|? ? [x [Hx _]] _]; subst.
    destruct c; [destruct Hx | cbn in Hl; discriminate].
  Qed.

  Lemma wf_am_ne : forall s, wf_shell s -> am s <> [].
  Proof.
    intros s [_ [_ Ha]] E. unfold am_ok in Ha. rewrite E in Ha. cbn in Ha. lia.
  Qed.

  Lemma wfd_split : forall shs : list shell, Forall wfd shs -> wf_shells shs \/ Exists dead shs.
  Proof.
    induction shs as [|s shs IH]; intros H; [left; constructor|].
    inversion H as [|? ? Hs Ht]; subst.
    destruct Hs as [Hs|Hs]; [|right; left; exact Hs].
    destruct (IH Ht) as [IH'|IH']; [left; constructor; assumption | right; right; exact IH'].
  Qed.

  Lemma wf_wfd : forall shs : list shell, wf_shells shs -> Forall wfd shs.
  Proof. intros shs H. eapply Forall_impl; [|exact H]. intros s Hs; left; exact Hs. Qed.

  Lemma prune_dead : forall s s', dead s -> prune_shell is0 same s = inr s' -> False.
  Proof.
    intros s s' [_ [Hcs Hx]] H. unfold prune_shell in H. rewrite Hcs in H. cbn [transpose] in H.
    destruct (exps s) as [|x xs]; [congruence|]. cbn in H. discriminate.
  Qed.

  Lemma prune_shells_dead : forall shs out, Exists dead shs -> prune_shells is0 same eqN shs = inr out -> False.
  Proof.
    intros shs out Hd H. unfold prune_shells, bind in H.
    destruct (mapM (prune_shell is0 same) shs) as [e|ps] eqn:Em; [discriminate|].
    apply GeneralFS.mapM_Forall2 in Em. apply Exists_exists in Hd. destruct Hd as [s [Hs Hd]].
    destruct (GeneralFS.Forall2_in_l _ Em Hs) as [s' [_ Hp]]. apply (prune_dead s s' Hd Hp).
  Qed.

  Lemma prune_shells_wfd : forall shs out,
      Forall wfd shs -> prune_shells is0 same eqN shs = inr out -> wf_shells shs.
  Proof.
    intros shs out H Hp. destruct (wfd_split shs H) as [Hw|Hd]; [exact Hw|].
    exfalso. apply (prune_shells_dead shs out Hd Hp).
  Qed.

  Lemma unc_spdf_wfd : forall m (shs news out : list shell),
      Forall wfd shs -> Forall wfd news -> unc_spdf_shells m shs news = inr out -> Forall wfd out.
  Proof.
    intros m; induction shs as [|s t IH]; intros news out Hs Hn H; cbn [unc_spdf_shells] in H.
    - inversion H; subst; exact Hn.
    - inversion Hs as [|? ? Hs1 Hst]; subst.
      destruct (Nat.ltb 1 (length (am s))) eqn:El.
      + apply Nat.ltb_lt in El.
        assert (Hwf : wf_shell s).
        { destruct Hs1 as [Hw|[Ha _]]; [exact Hw|]. rewrite Ha in El. cbn in El. lia. }
        assert (Hlen : length (am s) = length (coefs s)).
        { destruct Hwf as [_ [_ [Ha|[_ Ha]]]]; lia. }
        destruct (@split_fused_spec N m s (coefs s) (am s) [] [] [] Hlen)
          as [ka [kc [out' [Hsp [Hlk [_ [_ [Hsub [Hout _]]]]]]]]].
        rewrite Hsp in H. cbn [bind app] in H. fold (kept_head s ka kc) in H.
        apply (IH _ _ Hst) in H; [exact H|].
        apply Forall_app; split; [|apply Forall_app; split; [exact Hn|]].
        * apply wf_wfd. apply (@kept_head_wf N is0 s ka kc Hwf El Hlk Hsub).
        * eapply Forall_impl; [|exact Hout]. intros x Hx. left. eapply single_of_wf; eauto.
      + apply (IH _ _ Hst) in H; [exact H|].
        apply Forall_app; split; [exact Hn|]. constructor; [exact Hs1|constructor].
  Qed.

  Lemma mg_shells_wfd : forall shs gs,
      Forall wfd shs -> make_general_shells zero_lit shs = inr gs -> wf_shells gs \/ Exists dead gs.
  Proof.
    intros shs gs H Hm. destruct (wfd_split shs H) as [Hw|Hd].
    - left. apply (@make_general_shells_FS N is0 same eqN zero_lit one_lit ozero_lit Hc shs gs Hw Hm).
    - right. apply Exists_exists in Hd. destruct Hd as [s0 [Hs0 [Ha0 [Hc0 Hx0]]]].
      unfold make_general_shells in Hm.
      destruct (mapM (general_shell zero_lit shs) (sorted_am shs)) as [e|gens] eqn:Em; cbn in Hm; [discriminate|].
      inversion Hm; subst gs; clear Hm.
      apply GeneralFS.mapM_Forall2 in Em.
      assert (Hin : In [] (sorted_am shs)).
      { apply sorted_am_in. exists s0. split; [exact Hs0|]. split; [|exact Ha0].
        unfold single. rewrite Ha0. reflexivity. }
      destruct (GeneralFS.Forall2_in_l _ Em Hin) as [g [Hg Hgs]].
      apply Exists_exists. exists g. split; [apply in_or_app; right; exact Hg|].
      unfold general_shell in Hgs.
      match type of Hgs with context [gen_coefs ?z ?a ?l ?n ?c ?f] =>
        destruct (gen_coefs z a l n c f) as [e|r] eqn:Er end; cbn in Hgs; [discriminate|].
      inversion Hgs; subst g; clear Hgs. unfold dead; cbn [am coefs exps].
      split; [reflexivity|]. split.
      + destruct (snd r) as [|c' l] eqn:Esr; [reflexivity|]. exfalso.
        destruct (@gen_coefs_sound N zero_lit _ _ _ _ _ _ Er c') as [s [c [pre [post [Hs [Ha [Hcs _]]]]]]];
          [rewrite Esr; left; reflexivity|].
        rewrite Forall_forall in H. destruct (H s Hs) as [Hw|[_ [Hcs0 _]]].
        * apply (wf_am_ne s Hw Ha).
        * rewrite Hcs0 in Hcs. exact Hcs.
      + destruct (exps s0) as [|x xs] eqn:Ex; [congruence|]. intro E.
        assert (Hx : In x (flat_map (fun s => if am_eqb (am s) [] then exps s else []) shs)).
        { apply in_flat_map. exists s0. split; [exact Hs0|]. rewrite Ha0. cbn. rewrite Ex. left; reflexivity. }
        rewrite E in Hx. exact Hx.
  Qed.

  (* ---------------- unit shells are well-formed ---------------- *)
  Lemma unit_shell_wf : forall s x, wf_shell s -> wf_shell (unit_shell one_lit s x).
  Proof.
    intros s x Hwf. pose proof (wf_am_ne s Hwf) as Hne. destruct Hwf as [_ [_ Ha]].
    unfold unit_shell, FSDefs.wf_shell, rect, nz_cols, am_ok. cbn [am coefs exps transpose].
    set (n := length (am s)) in *.
    split; [|split; [split|]].
    - apply Forall_forall. intros c Hcin. apply in_map_iff in Hcin. destruct Hcin as [y [<- _]]. reflexivity.
    - destruct (am s) as [|l t]; [congruence|]. unfold n. cbn. discriminate.
    - apply Forall_forall. intros c Hcin. apply in_map_iff in Hcin. destruct Hcin as [y [<- Hy]].
      apply repeat_spec in Hy. subst y. exists one_lit. split; [left; reflexivity | apply (one_not0 Hc)].
    - rewrite map_length, repeat_length. fold n. destruct (Nat.eq_dec n 1) as [E|E]; [left; exact E|right].
      split; [|reflexivity]. destruct (am s); [congruence|]. cbn in n. lia.
  Qed.

  (* a unit shell restricted to a non-empty selection of momenta is well-formed *)
  Lemma unit_shell_am_wf : forall s (ams : list Z) x, ams <> [] -> wf_shell (unit_shell_am one_lit s ams x).
  Proof.
    intros s ams x Hne.
    unfold unit_shell_am, FSDefs.wf_shell, rect, nz_cols, am_ok. cbn [am coefs exps].
    split; [|split; [split|]].
    - apply Forall_forall. intros c Hcin. apply in_map_iff in Hcin. destruct Hcin as [y [<- _]]. reflexivity.
    - destruct ams as [|l t]; [congruence|]. cbn [map]. discriminate.
    - apply Forall_forall. intros c Hcin. apply in_map_iff in Hcin. destruct Hcin as [y [<- _]].
      exists one_lit. split; [left; reflexivity | apply (one_not0 Hc)].
    - rewrite map_length. destruct ams as [|l [|l2 t]]; [congruence | left; reflexivity | right].
      split; [cbn [length]; lia | reflexivity].
  Qed.

  Lemma unc_seg_wf : forall shs : list shell, wf_shells shs -> wf_shells (unc_seg_shells same one_lit shs []).
  Proof.
    intros shs Hwf. unfold FSDefs.wf_shells in *. rewrite Forall_forall in *. intros u Hu.
    destruct (unc_seg_shells_shape N same one_lit shs u Hu) as [s [x [ams [Hs [_ [Hne [_ ->]]]]]]].
    apply unit_shell_am_wf. exact Hne.
  Qed.

  (* ---------------- basis level: the operations of pipeline5 with the weak invariant ---------------- *)
  Lemma W_rf : forall b b' : basis,
      wf_basis b -> remove_free_primitives is0 same eqN b = inr b' -> wf_basis b' /\ basis_rel T b' b.
  Proof.
    intros b b' Hwf H. unfold remove_free_primitives in H.
    destruct (@lift_pure N wf_shells wf_shells T (flat_map (rm_free_shell is0))) with (b := b) as [H1 H2].
    - intros shs Hs. split; [exact I|]. apply (rm_free_wf_all N is0 shs Hs).
    - exact Hwf.
    - destruct (@GeneralFS.prune_basis_FS N is0 same eqN KP _ b' H2 H) as [H3 H4].
      split; [exact H4|]. eapply T_trans; [eapply basis_rel_T; exact H3 | exact H1].
  Qed.

  Lemma W_useg : forall b : basis,
      wf_basis b ->
      wf_basis (uncontract_segmented same one_lit b) /\ basis_rel T (uncontract_segmented same one_lit b) b.
  Proof.
    intros b Hwf. unfold uncontract_segmented.
    destruct (@lift_pure N wf_shells wf_shells T (fun shs => unc_seg_shells same one_lit shs [])) with (b := b)
      as [H1 H2].
    - intros shs Hs. split; [exact I|]. apply unc_seg_wf; exact Hs.
    - exact Hwf.
    - split; assumption.
  Qed.

  Lemma W_ug : forall b b' : basis,
      wf_basis b -> uncontract_general is0 same eqN b = inr b' -> wf_basis b' /\ basis_rel T b' b.
  Proof.
    intros b b' Hwf H.
    destruct (@GeneralFS.uncontract_general_FS N is0 same eqN KP b b' Hwf H) as [H1 H2].
    split; [exact H2 | eapply basis_rel_T; exact H1].
  Qed.

  Lemma W_us : forall m (b b' : basis),
      bForall (Forall wfd) b -> uncontract_spdf m b = inr b' -> bForall (Forall wfd) b' /\ basis_rel T b' b.
  Proof.
    intros m b b' Hw H. unfold uncontract_spdf in H.
    destruct (@lift_M N (Forall wfd) (Forall wfd) T (fun shs => unc_spdf_shells m shs [])) with (b := b) (b' := b')
      as [H1 H2]; [|exact Hw|exact H|split; assumption].
    intros shs out Hs Ho. split; [exact I|]. apply (unc_spdf_wfd m shs [] out Hs (Forall_nil _) Ho).
  Qed.

  Lemma W_prune : forall b b' : basis,
      bForall (Forall wfd) b -> prune_basis is0 same eqN b = inr b' ->
      wf_basis b' /\ pruned_basis is0 same eqN b' /\ basis_rel T b' b.
  Proof.
    intros b b' Hw H. unfold prune_basis in H.
    destruct (@lift_M N (Forall wfd)
                (fun shs => wf_shells shs /\ Forall (pruned_shell is0 same) shs /\ no_equal_shells eqN shs)
                T (prune_shells is0 same eqN)) with (b := b) (b' := b') as [H1 H2]; [|exact Hw|exact H|].
    - intros shs out Hs Ho. split; [exact I|].
      pose proof (prune_shells_wfd shs out Hs Ho) as Hwf.
      split; [apply (KP shs out Hwf Ho)|].
      apply (prune_post N is0 same eqN zero_lit one_lit ozero_lit Hc shs out Hwf Ho).
    - split; [|split; [|exact H1]].
      + eapply bForall_impl; [|exact H2]. intros shs Hs; apply Hs.
      + eapply bForall_impl; [|exact H2]. intros shs Hs; apply Hs.
  Qed.

  Lemma W_mg : forall b b' : basis,
      bForall (Forall wfd) b -> make_general is0 same eqN zero_lit false b = inr b' ->
      wf_basis b' /\ basis_rel T b' b.
  Proof.
    intros b b' Hw H. unfold make_general in H.
    destruct (uncontract_spdf 0 b) as [e|b1] eqn:E1; cbn in H; [discriminate|].
    destruct (W_us 0 b b1 Hw E1) as [Hw1 HT1].
    destruct (mapM_elems (map_shellsM (make_general_shells zero_lit)) b1) as [e|b2] eqn:E2; cbn in H; [discriminate|].
    destruct (@lift_M N (Forall wfd) (fun gs => wf_shells gs \/ Exists dead gs) T (make_general_shells zero_lit))
      with (b := b1) (b' := b2) as [HT2 Hw2]; [|exact Hw1|exact E2|].
    { intros shs gs Hs Ho. split; [exact I|]. apply (mg_shells_wfd shs gs Hs Ho). }
    unfold prune_basis in H.
    destruct (@lift_M N (fun gs => wf_shells gs \/ Exists dead gs) wf_shells T (prune_shells is0 same eqN))
      with (b := b2) (b' := b') as [HT3 Hw3]; [|exact Hw2|exact H|].
    { intros shs out [Hs|Hd] Ho; [|exfalso; apply (prune_shells_dead shs out Hd Ho)].
      split; [exact I|]. apply (KP shs out Hs Ho). }
    split; [exact Hw3|]. eapply T_trans; [exact HT3|]. eapply T_trans; eassumption.
  Qed.
End Helpers.

Arguments G_ug {N is0 same eqN zero_lit one_lit ozero_lit} Hc m b b' _ _ _.
Arguments G_us {N is0 same} m b b' _ _ _.
Arguments G_mg {N is0 same eqN zero_lit one_lit ozero_lit} Hc b b' _ _ _.
Arguments G_prune {N is0 same eqN zero_lit one_lit ozero_lit} Hc b b' _ _.
Arguments W_rf {N is0 same eqN zero_lit one_lit ozero_lit} Hc b b' _ _.
Arguments W_useg {N is0 same eqN zero_lit one_lit ozero_lit} Hc b _.
Arguments W_ug {N is0 same eqN zero_lit one_lit ozero_lit} Hc b b' _ _.
Arguments W_us {N is0} m b b' _ _.
Arguments W_mg {N is0 same eqN zero_lit one_lit ozero_lit} Hc b b' _ _.
Arguments W_prune {N is0 same eqN zero_lit one_lit ozero_lit} Hc b b' _ _.
Arguments T_trans {N b1 b2 b3} _ _.
Arguments T_refl {N} b.
Arguments basis_rel_shape {N R b1 b2} _.
Arguments bForall_impl {N P Q} _ {b} _.
Arguments wf_wfd {N is0} shs _.

(* ====================================================================================================== *)
(* the decimal-string instance and the pipeline                                                            *)
(* ====================================================================================================== *)
Definition K : carrier_ok is0_s same_s String.eqb lit_make_general_zero lit_unc_seg_one lit_optimize_zero := num_instance.

Lemma bind_inr : forall (A B : Type) (e : res A) (k : A -> res B) r,
    (do x <- e; k x) = inr r -> exists x, e = inr x /\ k x = inr r.
Proof. intros A B e k r H. destruct e as [er|x]; cbn in H; [discriminate|]. exists x. split; [reflexivity|exact H]. Qed.

(* the pipeline of Gen/GenApi.v on the flag sets of the statements, as explicit chains of operations *)
Definition pipe3 (ug us mg : bool) (b : sbasis) : res sbasis :=
  do b1 <- (if ug then s_uncontract_general b else ok b);
  do b2 <- (if us then s_uncontract_spdf 0 b1 else ok b1);
  do b3 <- (if mg then s_make_general false b2 else ok b2);
  if orb ug (orb us mg) then s_prune_basis b3 else ok b3.

Definition pipe5 (rf useg ug us mg : bool) (b : sbasis) : res sbasis :=
  do b0 <- (if rf then s_remove_free_primitives b else ok b);
  do b1 <- (if useg then ok (s_uncontract_segmented b0) else if ug then s_uncontract_general b0 else ok b0);
  do b2 <- (if us then s_uncontract_spdf 0 b1 else ok b1);
  do b3 <- (if mg then s_make_general false b2 else ok b2);
  if orb rf (orb useg (orb ug (orb us mg))) then s_prune_basis b3 else ok b3.

Section Run.
  Local Opaque s_prune_basis s_uncontract_spdf s_uncontract_general s_uncontract_segmented s_make_general
        s_remove_free_primitives s_optimize_general.

  Ltac step_ops :=
    repeat match goal with
     | |- context [s_uncontract_general ?x] => is_var x; destruct (s_uncontract_general x); cbn
     | |- context [s_remove_free_primitives ?x] => is_var x; destruct (s_remove_free_primitives x); cbn
     | |- context [s_uncontract_spdf ?m ?x] => is_var x; destruct (s_uncontract_spdf m x); cbn
     | |- context [s_make_general ?m ?x] => is_var x; destruct (s_make_general m x); cbn
     | |- context [s_prune_basis ?x] => is_var x; destruct (s_prune_basis x); cbn
     | |- context [s_uncontract_segmented ?x] => is_var x; generalize (s_uncontract_segmented x); intro; cbn
     end.

  Lemma run3 : forall ug us mg b, run_get_basis_options (flags3 ug us mg) b = pipe3 ug us mg b.
  Proof.
    intros ug us mg b. unfold run_get_basis_options, pipe3, get_basis_pipeline.
    destruct ug, us, mg; cbn; step_ops; reflexivity.
  Qed.

  Lemma run5 : forall rf useg ug us mg b,
      run_get_basis_options (flags5 rf useg ug us mg) b = pipe5 rf useg ug us mg b.
  Proof.
    intros rf useg ug us mg b. unfold run_get_basis_options, pipe5, get_basis_pipeline.
    destruct rf, useg, ug, us, mg; cbn; step_ops; reflexivity.
  Qed.
End Run.

Notation Ts := (@T string).
Notation wfd_s := (@wfd string is0_s).

(* ---------------- pipeline3 ---------------- *)
Definition J3 (b0 b1 : sbasis) : Prop :=
  wf_basis is0_s b1 /\ basis_fused_low 0 b1 /\ basis_FSeq is0_s same_s b1 b0.

Lemma st3_ug : forall (ug : bool) b0 b1 b2, J3 b0 b1 ->
    (if ug then s_uncontract_general b1 else ok b1) = inr b2 -> J3 b0 b2.
Proof.
  intros ug b0 b1 b2 [Hw [Hl HF]] H. destruct ug; [|inversion H; subst; split; [|split]; assumption].
  destruct (G_ug K 0 b1 b2 Hw Hl H) as [H1 [H2 H3]].
  split; [exact H2|]. split; [exact H3|]. eapply basis_FSeq_trans; eassumption.
Qed.

Lemma st3_us : forall (us : bool) b0 b1 b2, J3 b0 b1 ->
    (if us then s_uncontract_spdf 0 b1 else ok b1) = inr b2 -> J3 b0 b2.
Proof.
  intros us b0 b1 b2 [Hw [Hl HF]] H. destruct us; [|inversion H; subst; split; [|split]; assumption].
  destruct (G_us (same:=same_s) 0 b1 b2 Hw Hl H) as [H1 [H2 H3]].
  split; [exact H2|]. split; [exact H3|]. eapply basis_FSeq_trans; eassumption.
Qed.

Lemma st3_mg : forall (mg : bool) b0 b1 b2, J3 b0 b1 ->
    (if mg then s_make_general false b1 else ok b1) = inr b2 ->
    wf_basis is0_s b2 /\ basis_FSeq is0_s same_s b2 b0.
Proof.
  intros mg b0 b1 b2 [Hw [Hl HF]] H. destruct mg; [|inversion H; subst; split; assumption].
  destruct (G_mg K b1 b2 Hw Hl H) as [H1 H2].
  split; [exact H2|]. eapply basis_FSeq_trans; eassumption.
Qed.

Lemma pipeline3_FS : pipeline3_FS_stmt.
Proof.
  intros ug us mg b b' Hwf Hlow H. rewrite run3 in H. unfold pipe3 in H.
  apply bind_inr in H. destruct H as [b1 [E1 H]].
  apply bind_inr in H. destruct H as [b2 [E2 H]].
  apply bind_inr in H. destruct H as [b3 [E3 H]].
  assert (J0 : J3 b b) by (split; [exact Hwf|split; [exact Hlow|apply basis_FSeq_refl]]).
  pose proof (st3_ug ug b b b1 J0 E1) as J1.
  pose proof (st3_us us b b1 b2 J1 E2) as J2.
  destruct (st3_mg mg b b2 b3 J2 E3) as [Hw3 HF3].
  destruct (orb ug (orb us mg)) eqn:Efl.
  - destruct (G_prune K b3 b' Hw3 H) as [P1 [P2 P3]].
    split; [eapply basis_FSeq_trans; eassumption|]. split; [exact P2|]. intros _. exact P3.
  - inversion H; subst b'. split; [exact HF3|]. split; [exact Hw3|]. intros; discriminate.
Qed.

(* ---------------- uncontract_segmented through the pipeline ---------------- *)
Lemma pipeline_unc_seg : pipeline_unc_seg_stmt.
Proof.
  intros b b' Hwf H. rewrite run5 in H. unfold pipe5 in H. cbn in H.
  destruct (W_useg K b Hwf) as [Hw1 _].
  set (R1 := fun (out shs : list sshell) => forall f, FSin is0_s same_s f out <-> unit_funs_of shs f).
  assert (HR1 : basis_rel R1 (s_uncontract_segmented b) b).
  { unfold s_uncontract_segmented, uncontract_segmented.
    apply (@lift_pure string (fun _ => True) (fun _ => True) R1
             (fun shs => unc_seg_shells same_s lit_unc_seg_one shs [])).
    - intros shs _. split; [|exact I]. intros f. unfold unit_funs_of.
      apply (unc_seg_shells_spec string is0_s same_s String.eqb _ _ _ K shs f).
    - unfold bForall. apply Forall_forall. intros kv _. unfold eP. destruct (eshells (snd kv)); exact I. }
  destruct (G_prune K _ b' Hw1 H) as [P1 _].
  assert (HR : basis_rel R1 b' b).
  { apply (@basis_rel_comp string (FSeq is0_s same_s) R1 R1) with (b2 := s_uncontract_segmented b);
      [|exact P1|exact HR1].
    intros a0 b0 c0 Hab Hbc f. rewrite (Hab f). apply Hbc. }
  destruct (basis_rel_shape HR) as [_ [Hk _]]. split; [exact Hk|].
  destruct HR as [_ HR]. clear Hk.
  induction HR as [|kv1 kv2 l1 l2 [_ [Hr Hs]] _ IH]; [constructor|].
  constructor; [|exact IH]. split; [exact Hr|exact Hs].
Qed.

(* ---------------- pipeline5 ---------------- *)
Definition J5 (b0 b1 : sbasis) : Prop := wf_basis is0_s b1 /\ basis_rel Ts b1 b0.
Definition J5d (b0 b1 : sbasis) : Prop := bForall (Forall wfd_s) b1 /\ basis_rel Ts b1 b0.

Lemma st5_rf : forall (rf : bool) b0 b1 b2, J5 b0 b1 ->
    (if rf then s_remove_free_primitives b1 else ok b1) = inr b2 -> J5 b0 b2.
Proof.
  intros rf b0 b1 b2 [Hw HT] H. destruct rf; [|inversion H; subst; split; assumption].
  destruct (W_rf K b1 b2 Hw H) as [H1 H2]. split; [exact H1|]. eapply T_trans; eassumption.
Qed.

Lemma st5_seg : forall (useg ug : bool) b0 b1 b2, J5 b0 b1 ->
    (if useg then ok (s_uncontract_segmented b1) else if ug then s_uncontract_general b1 else ok b1) = inr b2 ->
    J5 b0 b2.
Proof.
  intros useg ug b0 b1 b2 [Hw HT] H. destruct useg.
  - inversion H; subst b2. destruct (W_useg K b1 Hw) as [H1 H2]. split; [exact H1|]. eapply T_trans; eassumption.
  - destruct ug; [|inversion H; subst; split; assumption].
    destruct (W_ug K b1 b2 Hw H) as [H1 H2]. split; [exact H1|]. eapply T_trans; eassumption.
Qed.

Lemma J5_J5d : forall b0 b1, J5 b0 b1 -> J5d b0 b1.
Proof.
  intros b0 b1 [Hw HT]. split; [|exact HT].
  eapply bForall_impl; [|exact Hw]. intros shs Hs. apply wf_wfd; exact Hs.
Qed.

Lemma st5_us : forall (us : bool) b0 b1 b2, J5d b0 b1 ->
    (if us then s_uncontract_spdf 0 b1 else ok b1) = inr b2 -> J5d b0 b2.
Proof.
  intros us b0 b1 b2 [Hw HT] H. destruct us; [|inversion H; subst; split; assumption].
  destruct (W_us 0 b1 b2 Hw H) as [H1 H2]. split; [exact H1|]. eapply T_trans; eassumption.
Qed.

Lemma st5_mg : forall (mg : bool) b0 b1 b2, J5d b0 b1 ->
    (if mg then s_make_general false b1 else ok b1) = inr b2 -> J5d b0 b2.
Proof.
  intros mg b0 b1 b2 [Hw HT] H. destruct mg; [|inversion H; subst; split; assumption].
  destruct (W_mg K b1 b2 Hw H) as [H1 H2]. apply J5_J5d. split; [exact H1|]. eapply T_trans; eassumption.
Qed.

Lemma pipeline5_wf : pipeline5_wf_stmt.
Proof.
  intros rf useg ug us mg b b' Hwf _ H. rewrite run5 in H. unfold pipe5 in H.
  destruct (orb rf (orb useg (orb ug (orb us mg)))) eqn:Efl.
  - apply bind_inr in H. destruct H as [b0 [E0 H]].
    apply bind_inr in H. destruct H as [b1 [E1 H]].
    apply bind_inr in H. destruct H as [b2 [E2 H]].
    apply bind_inr in H. destruct H as [b3 [E3 H]].
    assert (J0 : J5 b b) by (split; [exact Hwf | apply T_refl]).
    pose proof (st5_rf rf b b b0 J0 E0) as J1.
    pose proof (st5_seg useg ug b b0 b1 J1 E1) as J2.
    pose proof (st5_us us b b1 b2 (J5_J5d b b1 J2) E2) as J3'.
    destruct (st5_mg mg b b2 b3 J3' E3) as [Hw3 HT3].
    destruct (W_prune K b3 b' Hw3 H) as [P1 [P2 P3]].
    pose proof (T_trans P3 HT3) as HT.
    destruct (basis_rel_shape HT) as [S1 [S2 S3]].
    split; [exact P1|]. split; [exact S1|]. split; [exact S2|]. split; [exact S3|]. intros _. exact P2.
  - repeat (apply orb_false_iff in Efl; destruct Efl as [? Efl]). subst. cbn in H. inversion H; subst b'.
    split; [exact Hwf|]. split; [reflexivity|]. split; [reflexivity|]. split; [|intros; discriminate].
    induction (belems b); constructor; [reflexivity|assumption].
Qed.

Print Assumptions pipeline3_FS.
Print Assumptions pipeline5_wf.
Print Assumptions pipeline_unc_seg.
