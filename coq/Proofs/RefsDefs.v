(* Statements for C09: references cover exactly the data that was returned. Definitions only. *)
From Coq Require Import Sorting.Permutation.
From BSE Require Import Model.Val Model.Basis Model.Memo Model.Compose Model.Index Model.Elements Model.Text Model.Refs.

(* every selected element is in exactly one group; no group is empty *)
Definition groups_partition_stmt : Prop :=
  forall els refs gs, NoDup (map fst els) -> compact_references els refs = inr gs ->
    Permutation (concat (map g_elements gs)) (map fst els) /\ Forall (fun g => g_elements g <> []) gs.

(* a group's information is exactly the (key-resolved) reference list of each of its elements: members of a group share
   identical reference information, and descriptions and keys are those attached to the element, in order *)
Definition group_info_stmt : Prop :=
  forall els refs gs g z el r, compact_references els refs = inr gs -> In g gs -> In z (g_elements g) ->
    assoc z els = Some el -> vfield "references" el = inr r -> resolve_info refs r = inr (g_info g).

(* key resolution: descriptions kept, keys in order, each with its entry of the reference database *)
Definition resolve_info_spec_stmt : Prop :=
  forall refs info out, resolve_info refs info = inr out ->
    exists l l', info = VList l /\ out = VList l' /\
      Forall2 (fun elref o => exists d keys data,
                 elref = VDict d /\ (do k <- vfield "reference_keys" elref; do kl <- vlist k; mapM vstr kl) = inr keys /\
                 o = VDict (remove_key "reference_keys" d ++ [("reference_data", VList data)]) /\
                 Forall2 (fun k p => exists r, assoc k refs = Some r /\ p = VList [VStr k; r]) keys data) l l'.
Definition unknown_key_refused_stmt : Prop :=
  forall refs d k pre post, assoc k refs = None ->
    exists e, resolve_info refs (VList [VDict (("reference_keys", VStrs (pre ++ k :: post)) :: d)]) = inl e.

(* renderings contain every stored field value *)
Definition field_values (ref : list (string * val)) : list string :=
  flat_map (fun kv => if String.eqb (fst kv) "_entry_type" then []
                      else match snd kv with
                           | VStr s => [s]
                           | VList l => flat_map (fun x => match x with VStr s => [s] | _ => [] end) l
                           | _ => []
                           end) ref.
Definition bib_fields_stmt : Prop :=
  forall key ref s, write_bib key ref = inr s -> infix key s = true /\ Forall (fun v => infix v s = true) (field_values ref).
Definition ris_fields_stmt : Prop :=
  forall key ref s, write_ris key ref = inr s -> infix key s = true /\ Forall (fun v => infix v s = true) (field_values ref).
Definition endnote_fields_stmt : Prop :=
  forall key ref s, write_endnote key ref = inr s -> infix key s = true /\ Forall (fun v => infix v s = true) (field_values ref).

(* the assembled output: the library block, every group's description(s) and keys, and the rendering of every cited entry *)
Definition convert_mentions_stmt : Prop :=
  forall f txt desc libs groups s, convert_references f txt desc libs groups = inr s ->
    (forall k r, In (k, r) libs -> exists t, single f txt k r = inr t /\ infix t s = true) /\
    (forall g refs k r, In g groups -> group_refs g = inr refs -> In (k, r) refs ->
        infix k s = true /\ exists r' t, sort_single_reference r = inr r' /\ infix k t = true /\ infix t s = true).

(* sort_single_reference keeps every field (only the order changes) *)
Definition sort_single_reference_perm_stmt : Prop :=
  forall r r', sort_single_reference r = inr r' -> Permutation r r'.

(* notes: returned as stored, followed by the text of exactly the references whose keys they mention (sorted) *)
Definition process_notes_spec_stmt : Prop :=
  forall notes keys txt out, process_notes notes keys txt = inr out ->
    let found := sorted_set (filter (fun k => infix k notes) keys) in
    (found = [] -> out = notes) /\
    (found <> [] -> exists block, out = notes +++ block /\
        (forall k, In k found -> exists t, assoc k txt = Some t /\ infix t block = true)) /\
    (forall k, In k found <-> In k keys /\ infix k notes = true).
