(* Statements about the ECP part of the GAMESS-US writer / reader pair and about the whole file ($DATA section + $ECP
   section): what write_gamess_us prints, read_gamess_us reads back.  Definitions only; the proofs are in
   Proofs/GamessUsEcpSpec.v.
   STATUS: everything is proved in Proofs/GamessUsEcpSpec.v: the general round-trip statement gus_all_roundtrip_stmt
   (gus_all_roundtrip), the whole-file C04 statement gus_all_no_number_lost_stmt, and the closed statements (findings,
   counterexamples, the store instance), which were also validated against the Python code on seven store basis sets and
   fourteen damaged files. *)
From BSE Require Import Model.Val Model.Text Model.Num Model.Basis Model.Manip Model.Matrix Model.Lut Model.Elements
                        Model.Nwchem Model.NwchemEcp Model.G94 Model.GamessUs Model.GamessUsEcp
                        Proofs.MatrixDefs Proofs.NwchemDefs Proofs.NwchemEcpDefs Proofs.GamessUsDefs.

(* ---------- well-formed input of the ECP part of the writer ---------- *)
Definition gus_pot_ok (p : epot) : Prop :=
  (* exactly one angular momentum, and one that has a letter in lut._amchar_map_hik (25 letters; writer and reader both
     use hij=False for the potential's own letter, so - unlike the electron shells - every such momentum comes back) *)
  (exists l, p_am p = [l] /\ (0 <= l < 25)%Z) /\
  (* r exponents: ONE digit each (ecp_entry_re has (\d), not (\d+) or an optional sign) *)
  Forall (fun r => (0 <= r <= 9)%Z) (p_rexp p) /\
  (* one gaussian exponent and one coefficient per term; exactly one coefficient column (three point places) *)
  List.length (p_gexp p) = List.length (p_rexp p) /\
  (exists c, p_coef p = [c] /\ List.length c = List.length (p_rexp p) /\ Forall floating c /\
             (* float(c) is evaluated without replace_d *)
             Forall (fun x => parse_num x <> None) c) /\
  Forall floating (p_gexp p).
(* no condition `p_rexp p <> []`: a potential without terms is written as its title line and read back *)

Definition gus_ecp_el_ok (e : Z * (Z * list epot)) : Prop :=
  let '(z, (nelec, pots)) := e in
  (1 <= z <= 120)%Z /\
  (* 'ecp_electrons': ecp_block_re wants \d+ *)
  (0 <= nelec)%Z /\
  (* at least one potential (max() of the writer) *)
  pots <> [] /\ Forall gus_pot_ok pots.
(* no condition on the momenta being distinct or contiguous: every potential carries its own letter, the `ul` / highest
   letter in the title is not used by the reader (contrast nw_ecp_ok, ecp_top_ok) *)

Definition gus_ecp_ok (ecps : list (Z * (Z * list epot))) : Prop :=
  NoDup (map fst ecps) /\ Forall gus_ecp_el_ok ecps.

(* the whole file.  FINDING: an ECP part can be read only behind an electron part (gus_ecp_only_stmt) *)
Definition gus_all_ok (els : list (Z * list sshell)) (ecps : list (Z * (Z * list epot))) : Prop :=
  gus_ok els /\ gus_ecp_ok ecps /\ (els = [] -> ecps = []).

(* ---------- what comes back ---------- *)
(* `if float(c) != 0.0`: a term whose coefficient is zero is written and NOT read back; the other numbers come back as
   the very same strings; ecp_type is not in the file, the reader says 'scalar_ecp' *)
Definition gus_kept_terms (p : epot) : list (Z * string * string) :=
  filter (fun t => negb (is0_s (snd t))) (combine (combine (p_rexp p) (p_gexp p)) (hd [] (p_coef p))).
Definition gus_expected_pot (p : epot) : epot :=
  mkEpot "scalar_ecp" (p_am p) (map (fun t => fst (fst t)) (gus_kept_terms p)) (map (fun t => snd (fst t)) (gus_kept_terms p))
         [map snd (gus_kept_terms p)].

(* the potentials in the written order (NwchemEcpDefs.ecp_written_order: sorted by momentum, the highest moved to the front;
   nw_ecp_order_stmt) *)
Definition gus_ecp_expected (ecps : list (Z * (Z * list epot))) : gus_ecp_state :=
  map (fun e => (fst e, (fst (snd e), map gus_expected_pot (ecp_written_order (snd (snd e)))))) ecps.

Definition gus_all_expected (els : list (Z * list sshell)) (ecps : list (Z * (Z * list epot))) : list (Z * gus_el) :=
  gus_assemble (gus_expected els) (gus_ecp_expected ecps).

(* ---------- the general statement (gus_all_roundtrip in Proofs/GamessUsEcpSpec.v) ---------- *)
Definition gus_all_roundtrip_stmt : Prop :=
  forall els ecps, gus_all_ok els ecps -> gus_roundtrip_all els ecps = inr (gus_all_expected els ecps).

(* the same, component by component: the electron part (gus_expected of Proofs/GamessUsDefs.v) and the ECP part *)
Definition gus_all_roundtrip_parts_stmt : Prop :=
  forall els ecps t, gus_all_ok els ecps -> gus_write_all els ecps = inr t ->
    gus_read_all_parts (splitlines t) = inr (gus_expected els, gus_ecp_expected ecps).

(* the writer does not fail on well-formed input: gus_wf (Proofs/GamessUsDefs.v: every momentum 0 .. 25) for the shells,
   gus_ecp_ok for the potentials; the condition `els = [] -> ecps = []` of gus_all_ok is a condition of the READER *)
Definition gus_all_write_total_stmt : Prop :=
  forall els ecps, gus_wf els -> gus_ecp_ok ecps -> exists t, gus_write_all els ecps = inr t.

(* C04 direction for the whole file: every number of the input - exponents and coefficients of the shells
   (NwchemDefs.nw_number_of), gaussian exponents, coefficients, r exponents and electron counts of the ECP part, the integers
   in decimal (NwchemEcpDefs.nw_ecp_number_of) - is a white-space delimited token of some line of the written text, unchanged.
   NOTHING numeric is left out: terms with a zero coefficient are written too (it is the reader that drops them,
   gus_ecp_zero_stmt).  What the writer does leave out is not a number: 'ecp_type', and for the shells region and function
   type.  The highest momentum of the header line and the term count of a title line are derived, not input. *)
Definition gus_all_no_number_lost_stmt : Prop :=
  forall els ecps t, gus_wf els -> gus_ecp_ok ecps -> gus_write_all els ecps = inr t ->
    forall x, nw_number_of els x \/ nw_ecp_number_of ecps x ->
      exists line, In line (splitlines t) /\ In x (tokens_acc line "").

(* ---------- findings and counterexamples (all proved, by computation) ---------- *)
Definition gus_p (l : Z) : epot := mkEpot "scalar_ecp" [l] [2%Z; 1%Z] ["1.5"; "0.25"] [["-10.0"; "2.5E+00"]].

(* FINDING (valid data: the 8 basis sets of the store that consist of ECPs only - LANL2DZ ECP, def2-ECP, CRENBL ECP ...).
   Without an electron part the file begins with `$ECP`; the reader partitions ALL lines at the element names, finds none,
   hands the ECP lines to _parse_electron_lines and fails: RuntimeError.  With an (even empty) element in front it works. *)
Definition gus_ecp_only_stmt : Prop :=
  gus_ecp_ok [(11%Z, (10%Z, [gus_p 1; gus_p 0]))] /\
  gus_write_all [] [(11%Z, (10%Z, [gus_p 1; gus_p 0]))] =
    inr (String.concat nl1 [""; ""; "$ECP"; "NA-ECP GEN    10    1";
                            "2     ----- p-ul potential -----"; "    -10.0             2       1.5"; "      2.5E+00         1       0.25";
                            "2     ----- s-p potential -----"; "    -10.0             2       1.5"; "      2.5E+00         1       0.25";
                            "$END"; ""]) /\
  gus_roundtrip_all [] [(11%Z, (10%Z, [gus_p 1; gus_p 0]))] = inl ERuntime /\
  gus_roundtrip_all [(1%Z, [])] [(11%Z, (10%Z, [gus_p 1; gus_p 0]))] =
    inr [(1%Z, mkGusEl (Some []) None); (11%Z, mkGusEl None (Some (10%Z, [gus_p 1; gus_p 0])))].

(* FINDING (valid data: Grimme vDZP has an f-ul potential `0.0  2  1.0` for B .. Ne, 1605 such terms in the store).
   A term with a zero coefficient is written and silently not read back; here the potential comes back without terms *)
Definition gus_ecp_zero_stmt : Prop :=
  let zp := mkEpot "scalar_ecp" [3%Z] [2%Z] ["1.0"] [["0.0"]] in
  gus_all_ok [(5%Z, [gus_s])] [(5%Z, (2%Z, [gus_p 0; zp]))] /\
  gus_roundtrip_all [(5%Z, [gus_s])] [(5%Z, (2%Z, [gus_p 0; zp]))] =
    inr [(5%Z, mkGusEl (Some [gus_s]) (Some (2%Z, [mkEpot "scalar_ecp" [3%Z] [] [] [[]]; gus_p 0])))] /\
  gus_all_expected [(5%Z, [gus_s])] [(5%Z, (2%Z, [gus_p 0; zp]))] =
    [(5%Z, mkGusEl (Some [gus_s]) (Some (2%Z, [mkEpot "scalar_ecp" [3%Z] [] [] [[]]; gus_p 0])))].

(* `0 <= r <= 9`: ecp_entry_re has a single \d for the r exponent - 10 or -1 are written and refused (not in the store:
   its r exponents are 0, 1, 2, 4).  A coefficient with a Fortran marker: ValueError, as for the shells.  A negative
   electron count: the header is not recognised, the element's ECP is silently gone.  Two coefficient columns: IndexError in
   the writer.  No potential: ValueError (max of an empty list) *)
Definition gus_ecp_conditions_stmt : Prop :=
  gus_roundtrip_all [(1%Z, [])] [(11%Z, (10%Z, [mkEpot "scalar_ecp" [0%Z] [10%Z] ["1.0"] [["1.0"]]]))] = inl ERuntime /\
  gus_roundtrip_all [(1%Z, [])] [(11%Z, (10%Z, [mkEpot "scalar_ecp" [0%Z] [(-1)%Z] ["1.0"] [["1.0"]]]))] = inl ERuntime /\
  gus_roundtrip_all [(1%Z, [])] [(11%Z, (10%Z, [mkEpot "scalar_ecp" [0%Z] [2%Z] ["1.0"] [["1.0D+00"]]]))] = inl EValue /\
  gus_roundtrip_all [(1%Z, [])] [(11%Z, (10%Z, [mkEpot "scalar_ecp" [0%Z] [2%Z] ["1.0D+00"] [["1.0"]]]))] =
    inr [(1%Z, mkGusEl (Some []) None); (11%Z, mkGusEl None (Some (10%Z, [mkEpot "scalar_ecp" [0%Z] [2%Z] ["1.0D+00"] [["1.0"]]])))] /\
  gus_roundtrip_all [(1%Z, [])] [(11%Z, ((-10)%Z, [gus_p 0]))] = inr [(1%Z, mkGusEl (Some []) None)] /\
  gus_roundtrip_all [(1%Z, [])] [(11%Z, (10%Z, [mkEpot "scalar_ecp" [0%Z] [2%Z] ["1.0"] [["1.0"]; ["2.0"]]]))] = inl EIndex /\
  gus_roundtrip_all [(1%Z, [])] [(11%Z, (10%Z, []))] = inl EValue /\
  (* the order of the potentials: the highest first, then by increasing momentum; duplicates and gaps are harmless *)
  gus_roundtrip_all [(1%Z, [])] [(11%Z, (10%Z, [gus_p 0; gus_p 3; gus_p 1; gus_p 1]))] =
    inr [(1%Z, mkGusEl (Some []) None); (11%Z, mkGusEl None (Some (10%Z, [gus_p 3; gus_p 0; gus_p 1; gus_p 1])))] /\
  (* an element in both parts keeps its place; a new one is appended *)
  gus_roundtrip_all [(11%Z, [gus_s]); (1%Z, [gus_s])] [(1%Z, (0%Z, [gus_p 0])); (3%Z, (2%Z, [gus_p 0]))] =
    inr [(11%Z, mkGusEl (Some [gus_s]) None); (1%Z, mkGusEl (Some [gus_s]) (Some (0%Z, [gus_p 0])));
         (3%Z, mkGusEl None (Some (2%Z, [gus_p 0])))].

(* the reader on hand-written ECP parts *)
Definition gus_ecp_reader_stmt : Prop :=
  gus_read_all ["HYDROGEN"; "NA-ECP GEN    10    2"; "1 ----- d-ul potential -----"; " 1.0 1 3.0"; "garbage 1";
                "1 ----- s-ul potential -----"; "1. 1 1."] =
    inr [(1%Z, mkGusEl (Some []) None); (11%Z, mkGusEl None (Some (10%Z, [mkEpot "scalar_ecp" [2%Z] [1%Z] ["3.0"] [["1.0"]]])))] /\
  gus_read_all ["HYDROGEN"; "NA-ECP GEN    10    2"; "1 ----- d-ul potential -----"; " 1.0 2 3.0"; "NA-ECP GEN    10    2"] =
    inl ERuntime /\
  gus_read_all ["HYDROGEN"; "NA-ECP GEN    10    2"; "2 ----- d-ul potential -----"; " 1.0 2 3.0"] = inl EIndex /\
  gus_read_all ["HYDROGEN"; "NA-ECP GEN    10    2"; "1 ----- j-ul potential -----"; " 1.0 2 3.0"] = inl EKey /\
  gus_read_all ["HYDROGEN"; "XX-ECP GEN    10    2"] = inl EKey.

(* ---------- a concrete instance from the store: LANL2DZ for H (electron shells only) and Na (electron shells and ECP), as
   write_gamess_us sees it; gus_exe_text is, byte for byte,
   basis_set_exchange.get_basis('lanl2dz', elements=[1, 11], fmt='gamess_us', header=False) ---------- *)
Definition gus_exe_els : list (Z * list sshell) :=
  [((1)%Z, [(mkShell "gto" "valence" [(0)%Z] ["19.2384000"; "2.8987000"; "0.6535000"] [["0.0328280"; "0.2312040"; "0.8172260"]]);
   (mkShell "gto" "valence" [(0)%Z] ["0.1776000"] [["1.0000000"]])]);
   ((11)%Z, [(mkShell "gto" "valence" [(0)%Z] ["0.4972000"; "0.0560000"] [["-0.2753574"; "1.0989969"]]);
   (mkShell "gto" "valence" [(0)%Z] ["0.0221000"] [["1.0000000"]]);
   (mkShell "gto" "valence" [(1)%Z] ["0.6697000"; "0.0636000"] [["-0.0683845"; "1.0140550"]]);
   (mkShell "gto" "valence" [(1)%Z] ["0.0204000"] [["1.0000000"]])])].
Definition gus_exe_ecps : list (Z * (Z * list epot)) :=
  [((11)%Z, ((10)%Z, [(mkEpot "scalar_ecp" [(2)%Z] [(1)%Z; (2)%Z; (2)%Z; (2)%Z; (2)%Z] ["175.5502590"; "35.0516791"; "7.9060270"; "2.3365719"; "0.7799867"] [["-10.0000000"; "-47.4902024"; "-17.2283007"; "-6.0637782"; "-0.7299393"]]);
   (mkEpot "scalar_ecp" [(0)%Z] [(0)%Z; (1)%Z; (2)%Z; (2)%Z; (2)%Z] ["243.3605846"; "41.5764759"; "13.2649167"; "3.6797165"; "0.9764209"] [["3.0000000"; "36.2847626"; "72.9304880"; "23.8401151"; "6.0123861"]]);
   (mkEpot "scalar_ecp" [(1)%Z] [(0)%Z; (1)%Z; (2)%Z; (2)%Z; (2)%Z; (2)%Z] ["1257.2650682"; "189.6248810"; "54.5247759"; "13.7449955"; "3.6813579"; "0.9461106"] [["5.0000000"; "117.4495683"; "423.3986704"; "109.3247297"; "31.3701656"; "7.1241813"]])]))].
Definition gus_exe_text : string :=
  String.concat nl1
   ["$DATA";
    "";
    "HYDROGEN";
    "S   3";
    "1        19.2384000              0.0328280";
    "2         2.8987000              0.2312040";
    "3         0.6535000              0.8172260";
    "S   1";
    "1         0.1776000              1.0000000";
    "";
    "SODIUM";
    "S   2";
    "1         0.4972000             -0.2753574";
    "2         0.0560000              1.0989969";
    "S   1";
    "1         0.0221000              1.0000000";
    "P   2";
    "1         0.6697000             -0.0683845";
    "2         0.0636000              1.0140550";
    "P   1";
    "1         0.0204000              1.0000000";
    "";
    "$END";
    "";
    "$ECP";
    "NA-ECP GEN    10    2";
    "5     ----- d-ul potential -----";
    "    -10.0000000       1     175.5502590";
    "    -47.4902024       2      35.0516791";
    "    -17.2283007       2       7.9060270";
    "     -6.0637782       2       2.3365719";
    "     -0.7299393       2       0.7799867";
    "5     ----- s-d potential -----";
    "      3.0000000       0     243.3605846";
    "     36.2847626       1      41.5764759";
    "     72.9304880       2      13.2649167";
    "     23.8401151       2       3.6797165";
    "      6.0123861       2       0.9764209";
    "6     ----- p-d potential -----";
    "      5.0000000       0    1257.2650682";
    "    117.4495683       1     189.6248810";
    "    423.3986704       2      54.5247759";
    "    109.3247297       2      13.7449955";
    "     31.3701656       2       3.6813579";
    "      7.1241813       2       0.9461106";
    "$END";
    ""].
Definition gus_exe_read : list (Z * gus_el) :=
  [((1)%Z, mkGusEl
     (Some [(mkShell "gto" "" [(0)%Z] ["19.2384000"; "2.8987000"; "0.6535000"] [["0.0328280"; "0.2312040"; "0.8172260"]]);
   (mkShell "gto" "" [(0)%Z] ["0.1776000"] [["1.0000000"]])]) (None));
   ((11)%Z, mkGusEl
     (Some [(mkShell "gto" "" [(0)%Z] ["0.4972000"; "0.0560000"] [["-0.2753574"; "1.0989969"]]);
   (mkShell "gto" "" [(0)%Z] ["0.0221000"] [["1.0000000"]]);
   (mkShell "gto" "" [(1)%Z] ["0.6697000"; "0.0636000"] [["-0.0683845"; "1.0140550"]]);
   (mkShell "gto" "" [(1)%Z] ["0.0204000"] [["1.0000000"]])])
     (Some ((10)%Z, [(mkEpot "scalar_ecp" [(2)%Z] [(1)%Z; (2)%Z; (2)%Z; (2)%Z; (2)%Z] ["175.5502590"; "35.0516791"; "7.9060270"; "2.3365719"; "0.7799867"] [["-10.0000000"; "-47.4902024"; "-17.2283007"; "-6.0637782"; "-0.7299393"]]);
   (mkEpot "scalar_ecp" [(0)%Z] [(0)%Z; (1)%Z; (2)%Z; (2)%Z; (2)%Z] ["243.3605846"; "41.5764759"; "13.2649167"; "3.6797165"; "0.9764209"] [["3.0000000"; "36.2847626"; "72.9304880"; "23.8401151"; "6.0123861"]]);
   (mkEpot "scalar_ecp" [(1)%Z] [(0)%Z; (1)%Z; (2)%Z; (2)%Z; (2)%Z; (2)%Z] ["1257.2650682"; "189.6248810"; "54.5247759"; "13.7449955"; "3.6813579"; "0.9461106"] [["5.0000000"; "117.4495683"; "423.3986704"; "109.3247297"; "31.3701656"; "7.1241813"]])])))].

Definition gus_ecp_example_stmt : Prop :=
  gus_all_ok gus_exe_els gus_exe_ecps /\
  gus_write_all gus_exe_els gus_exe_ecps = inr gus_exe_text /\
  gus_all_expected gus_exe_els gus_exe_ecps = gus_exe_read /\
  gus_roundtrip_all gus_exe_els gus_exe_ecps = inr gus_exe_read.
