(* Statements for C14: the information header can never change or corrupt the payload. Definitions only. *)
From BSE Require Import Model.Val Model.Text Model.Memo Model.Header Gen.GenWriters Gen.GenReaders.

(* a comment marker: non-empty, printable ASCII only (no white space, no line boundary byte) *)
Definition marker_ok (c : string) : Prop :=
  c <> "" /\ sall (fun ch => andb (Nat.leb 33 (nat_of_ascii ch)) (Nat.leb (nat_of_ascii ch) 126)) c = true.

(* splitting loses nothing *)
Definition splitlines_concat_stmt : Prop := forall s, String.concat "" (splitlines_keepends s) = s.

(* every line of the commented header is a line of the header with the marker in front: nothing of the header can end up
   on a line of its own without the marker, whatever line boundaries (\n \r \r\n \v \f FS GS RS NEL LS PS) it contains *)
Definition header_lines_commented_stmt : Prop :=
  forall c h, marker_ok c -> h <> "" ->
    splitlines_keepends (header_comment c h) = map (fun l => c +++ l) (splitlines_keepends h).
Definition header_empty_stmt : Prop := forall c, header_comment c "" = c.

(* the assembled text: [psi4 keyword line] ++ [commented header ++ separator] ++ body, and without a header or without a
   comment marker exactly [psi4 keyword line] ++ body *)
Definition assemble_shape_stmt : Prop :=
  forall fmt w fts body,
    let pre := if String.eqb fmt "psi4" then harm_type fts +++ nl2 else "" in
    assemble fmt w fts body None = pre +++ body /\
    (w_comment w = None -> forall h, assemble fmt w fts body (Some h) = pre +++ body) /\
    (forall c h, w_comment w = Some c ->
       assemble fmt w fts body (Some h) =
       pre +++ header_comment c h +++ (if String.eqb fmt "gaussian94lib" then g94lib_sep (header_comment c h) else nl2) +++ body).

(* reading back: lines that start (after stripping) with a character of skipchars, and blank lines, in front of the payload
   do not change what prune_lines hands to the reader *)
Definition comment_or_blank (sk : string) (l : string) : Prop :=
  strip_ws l = "" \/ first_in sk (strip_ws l) = true.
Definition prune_lines_header_stmt : Prop :=
  forall sk H L, sk <> "" -> Forall (comment_or_blank sk) H ->
    prune_lines (H ++ L) sk true true = prune_lines L sk true true.

(* a header line, commented with marker c, is a comment-or-blank line for every skipchars containing the first char of c *)
Definition commented_line_skipped_stmt : Prop :=
  forall c l sk ch rest, marker_ok c -> c = String ch rest -> sany (Ascii.eqb ch) sk = true ->
    comment_or_blank sk (c +++ l).

(* ---- finite statements over the translated tables ---- *)
Definition markers_okb (w : writer) : bool :=
  match w_comment w with
  | None => true
  | Some c => andb (negb (is_empty c)) (sall (fun ch => andb (Nat.leb 33 (nat_of_ascii ch)) (Nat.leb (nat_of_ascii ch) 126)) c)
  end.
Definition all_markers_ok_stmt : Prop := forallb (fun p => markers_okb (snd p)) writer_map = true.

(* the formats (named here by hand) whose reader skips the writer's comment marker, so that a headed text reads back as the
   bare text does *)
Definition header_safe (fmt : string) : bool :=
  match assoc fmt writer_map, assoc fmt reader_map with
  | Some w, Some r =>
    match w_comment w, r_skipchars r with
    | Some (String ch _), Some sk => sany (Ascii.eqb ch) sk
    | _, _ => false
    end
  | _, _ => false
  end.
Definition header_safe_formats : list string :=
  ["nwchem"; "gaussian94"; "turbomole"; "molcas"; "molcas_library"; "molpro"; "libmol"; "cfour"; "demon2k"; "gamess_us";
   "cp2k"; "veloxchem"].
Definition header_safe_formats_stmt : Prop := forallb header_safe header_safe_formats = true.
(* formats without a comment marker never get a header *)
Definition no_marker_formats_stmt : Prop :=
  map fst (filter (fun p => match w_comment (snd p) with None => true | Some _ => false end) writer_map) = ["qcschema"; "json"].
