(* Statements about the Molpro writer / reader pair (electron shells): what write_molpro prints, read_molpro reads back.
   Definitions only; the proofs are in Proofs/MolproSpec.v. *)
From BSE Require Import Model.Val Model.Text Model.Num Model.Basis Model.Manip Model.Matrix Model.Lut Model.Elements
                        Model.Nwchem Model.G94 Model.Molpro Proofs.MatrixDefs Proofs.NwchemDefs.

(* ---------- well-formed input of the writer (what is left after make_general / sort_basis) ---------- *)
(* `floating s` (Proofs/NwchemDefs.v) : is_floating s = true, the string matches helpers.floating_re entirely *)

(* float(x) does not raise: among the strings that match floating_re these are the ones with a digit in the mantissa and
   the exponent marker e / E (float() knows no d / D) *)
Definition float_ok (x : string) : Prop := parse_num x <> None.

Definition mpro_shell_ok (s : sshell) : Prop :=
  (* at least one primitive *)
  exps s <> [] /\
  (* ONE angular momentum (make_general has split the fused shells), and one of the eight letters s p d f g h i k the
     reader's element_shell_re knows: 0 <= l <= 7.  (The writer itself prints every l < 25.) *)
  (exists l, am s = [l] /\ (0 <= l < 8)%Z) /\
  (* every general contraction has one coefficient per primitive (there may be no contraction at all) *)
  Forall (fun c => List.length c = List.length (exps s)) (coefs s) /\
  (* every number is a string matching helpers.floating_re *)
  Forall floating (exps s) /\ Forall (Forall floating) (coefs s) /\
  (* find_range calls float() on every coefficient ... *)
  Forall (Forall float_ok) (coefs s) /\
  (* ... and needs one that is not zero in every contraction *)
  Forall (fun c => exists x, In x c /\ float_nonzero x = inr true) (coefs s).

Definition mpro_ok (harm : string) (els : list (Z * list sshell)) : Prop :=
  (harm = "spherical" \/ harm = "cartesian") /\
  (* dictionary keys: pairwise distinct atomic numbers, all of them in the table of lut.py (1 .. 120) *)
  NoDup (map fst els) /\
  Forall (fun zs => (1 <= fst zs <= 120)%Z /\
                    (* at least one shell (an element without shells leaves two comment lines only) *)
                    snd zs <> [] /\
                    Forall mpro_shell_ok (snd zs)) els.
(* no condition `els <> []`: with no element the text is the harm line, and the reader answers with no element *)

(* ---------- what comes back ---------- *)
(* find_range as a total function *)
Definition mpro_range (c : list string) : nat * nat := match find_range c with inr fl => fl | inl _ => (0, 0) end.
(* the coefficients the writer prints: c[first:last + 1] *)
Definition mpro_printed (c : list string) : list string := slice_incl (fst (mpro_range c)) (snd (mpro_range c)) c.

(* a contraction comes back with its printed part unchanged (D -> E as for every number; under mpro_ok a coefficient has no
   D) and with the string '0.0' in place of every coefficient before the first and after the last non-zero one, however
   that zero was spelt ('0.00000000' is what make_general itself pads with) *)
Definition mpro_expected_column (c : list string) : list string :=
  let '(first, last) := mpro_range c in
  repeat "0.0" first ++ map replace_D (mpro_printed c) ++ repeat "0.0" (List.length c - last - 1).

(* the function type the reader assigns: 'gto' for s and p, 'gto_spherical' above - also when the file says `cartesian` *)
Definition mpro_ftype (a : list Z) : string :=
  match a with l :: _ => if (l <? 2)%Z then "gto" else "gto_spherical" | [] => "gto" end.

(* exponents: every character kept, except that the marker D comes back as E (d stays d) *)
Definition mpro_expected_shell (s : sshell) : sshell :=
  mkShell (mpro_ftype (am s)) "" (am s) (map replace_D (exps s)) (map mpro_expected_column (coefs s)).

Definition mpro_expected (els : list (Z * list sshell)) : list (Z * list sshell) :=
  map (fun zs => (fst zs, map mpro_expected_shell (snd zs))) els.

(* ---------- statements ---------- *)
(* the writer does not fail on well-formed input *)
Definition mpro_write_total_stmt : Prop :=
  forall harm els, mpro_ok harm els -> exists t, mpro_write_electron harm els = inr t.

(* reading back what was written gives exactly the same elements, in order, with the same shells, in order: same momenta,
   same exponents (D -> E), the contractions as mpro_expected_column says, region '', function type mpro_ftype *)
Definition mpro_roundtrip_stmt : Prop :=
  forall harm els, mpro_ok harm els -> mpro_roundtrip harm els = inr (mpro_expected els).

(* what find_range answers: first <= last are positions of non-zero coefficients, everything outside first .. last is zero
   (for float(), i.e. |x| <= 2^-1075) - so the coefficients the writer leaves out are zeros *)
Definition mpro_find_range_stmt : Prop :=
  forall c first last, find_range c = inr (first, last) ->
    first <= last < List.length c /\
    (exists x, nth_error c first = Some x /\ float_nonzero x = inr true) /\
    (exists x, nth_error c last = Some x /\ float_nonzero x = inr true) /\
    forall i x, nth_error c i = Some x -> i < first \/ last < i -> float_nonzero x = inr false.

(* C04 direction.  The numbers of a line are separated by `, `: a token is delimited by white space or commas.  EVERY exponent
   of the input, and every coefficient from the first to the last non-zero one of its contraction (mpro_printed; the ones left
   out are zeros: mpro_find_range_stmt), is such a token of some line of the written text, character for character (the
   writer converts no exponent marker). *)
Definition comma_blank (s : string) : string := smap (fun c => if Ascii.eqb c "," then " "%char else c) s.
Definition mpro_printed_number (els : list (Z * list sshell)) (x : string) : Prop :=
  exists zs s, In zs els /\ In s (snd zs) /\ (In x (exps s) \/ exists c, In c (coefs s) /\ In x (mpro_printed c)).
Definition mpro_no_number_lost_stmt : Prop :=
  forall harm els t, mpro_ok harm els -> mpro_write_electron harm els = inr t ->
    forall x, mpro_printed_number els x ->
      exists line, In line (splitlines t) /\ In x (tokens_acc (comma_blank line) "").

(* ---------- which conditions of mpro_ok cannot be dropped ---------- *)
Definition mp_s : sshell := mkShell "gto" "" [0%Z] ["1.0"] [["1.0"]].
Definition mp_l (l : Z) : sshell := mkShell "gto_spherical" "" [l] ["1.0"] [["1.0"]].

(* no element at all is fine *)
Definition mpro_roundtrip_empty_stmt : Prop :=
  mpro_write_electron "spherical" [] = inr ("spherical" +++ nl1) /\ mpro_roundtrip "spherical" [] = inr [].

(* FINDING (valid basis data).  `l < 8`: the writer prints every l < 25 with the letters of lut.amint_to_char (k l m n o q r t
   ...), the reader's element_shell_re knows s p d f g h i k only.  The line of a shell with l >= 8 matches neither regular
   expression of _parse_lines, nor do its `c, ...` lines: the shell is skipped without any error.  l = 7 (k) comes back,
   l = 8 (l) is lost; an element with nothing but such shells is lost altogether; l = 25 has no letter (IndexError in the
   writer). *)
Definition mpro_high_am_stmt : Prop :=
  mpro_roundtrip "spherical" [(1%Z, [mp_s; mp_l 7])] = inr [(1%Z, [mp_s; mp_l 7])] /\
  mpro_write_electron "spherical" [(1%Z, [mp_s; mp_l 8]); (2%Z, [mp_l 9; mp_l 24])] =
    inr (String.concat nl1 ["spherical"; "basis={"; "!"; "! hydrogen             (1s,1l) -> [1s,1l]"; "s, H , 1.0"; "c, 1.1, 1.0";
                            "l, H , 1.0"; "c, 1.1, 1.0"; "!"; "! helium               (,1m,1e) -> [,1m,1e]"; "m, HE , 1.0";
                            "c, 1.1, 1.0"; "e, HE , 1.0"; "c, 1.1, 1.0"; "}"; ""]) /\
  mpro_roundtrip "spherical" [(1%Z, [mp_s; mp_l 8]); (2%Z, [mp_l 9; mp_l 24])] = inr [(1%Z, [mp_s])] /\
  Forall (fun l => mpro_roundtrip "spherical" [(1%Z, [mp_l l])] = inr []) (zrange 8 17) /\
  mpro_write_electron "spherical" [(1%Z, [mp_l 25])] = inl EIndex.

(* FINDING (valid basis data).  The function type does not survive: the reader notes `cartesian` in a local variable that
   _read_shell never sees, a cartesian d shell comes back as spherical (not a condition of mpro_ok: mpro_expected says so) *)
Definition mpro_cartesian_stmt : Prop :=
  mpro_roundtrip "cartesian" [(1%Z, [mkShell "gto_cartesian" "" [2%Z] ["1.0"] [["1.0"]]])] =
    inr [(1%Z, [mkShell "gto_spherical" "" [2%Z] ["1.0"] [["1.0"]]])].

(* the zeros outside first .. last come back as '0.0', the zeros inside (and every other number) as they were; a D in an
   exponent comes back as E, a d stays.  (About the modelled part only: in write_molpro itself make_general's prune step
   calls float() on the exponents first, so an exponent with D or d never gets as far as the printing loop.) *)
Definition mpro_zero_spelling_stmt : Prop :=
  let s := mkShell "gto" "" [0%Z] ["4.0D+00"; "3.0d0"; "2.0"; "1.0"]
                   [["0.00000000"; "1.0"; "0.00000000"; "-.5"]; ["0.5"; "0.0"; "0."; "0.00"]] in
  mpro_write_electron "spherical" [(1%Z, [s])] =
    inr (String.concat nl1 ["spherical"; "basis={"; "!"; "! hydrogen             (4s) -> [2s]"; "s, H , 4.0D+00, 3.0d0, 2.0, 1.0";
                            "c, 2.4, 1.0, 0.00000000, -.5"; "c, 1.1, 0.5"; "}"; ""]) /\
  mpro_roundtrip "spherical" [(1%Z, [s])] =
    inr [(1%Z, [mkShell "gto" "" [0%Z] ["4.0E+00"; "3.0d0"; "2.0"; "1.0"]
                        [["0.0"; "1.0"; "0.00000000"; "-.5"]; ["0.5"; "0.0"; "0.0"; "0.0"]]])].

(* "zero" is float(x) == 0: a coefficient below 2^-1075 is left out like a zero *)
Definition mpro_underflow_stmt : Prop :=
  find_range ["1.0E-400"; "1.0"] = inr (1, 1) /\ find_range ["2.5E-324"; "1.0"] = inr (0, 1) /\
  find_range ["2.4E-324"; "1.0"] = inr (1, 1) /\
  mpro_roundtrip "spherical" [(1%Z, [mkShell "gto" "" [0%Z] ["2.0"; "1.0"] [["1.0E-400"; "1.0"]]])] =
    inr [(1%Z, [mkShell "gto" "" [0%Z] ["2.0"; "1.0"] [["0.0"; "1.0"]]])].

(* `exists x, ... float_nonzero x = inr true`: a contraction of zeros stops the writer (ValueError from list.index);
   `float_ok`: so does a coefficient float() does not take - the Fortran marker D, which every reader of the library
   accepts and which is fine in an exponent of this very shell - or a lonely point *)
Definition mpro_zero_column_stmt : Prop :=
  mpro_write_electron "spherical" [(1%Z, [mkShell "gto" "" [0%Z] ["1.0"] [["0.0"]]])] = inl EValue /\
  mpro_write_electron "spherical" [(1%Z, [mkShell "gto" "" [0%Z] ["1.0D+00"] [["1.0D+00"]]])] = inl EValue /\
  mpro_write_electron "spherical" [(1%Z, [mkShell "gto" "" [0%Z] ["1.0"] [["."]]])] = inl EValue /\
  mpro_write_electron "spherical" [(1%Z, [mkShell "gto" "" [0%Z] ["1.0"] [[]]])] = inl EValue.

(* no contraction at all is printed and read back (no condition `coefs s <> []`) *)
Definition mpro_no_contraction_stmt : Prop :=
  mpro_roundtrip "spherical" [(1%Z, [mkShell "gto" "" [0%Z] ["1.0"] []])] = inr [(1%Z, [mkShell "gto" "" [0%Z] ["1.0"] []])].

(* `exps s <> []`: the line `s, H , ` matches nothing, the shell is lost silently *)
Definition mpro_noprim_stmt : Prop :=
  mpro_roundtrip "spherical" [(1%Z, [mp_s; mkShell "gto" "" [1%Z] [] []])] = inr [(1%Z, [mp_s])].

(* `am s = [l]`: a fused shell is printed as `sp, H , ...` and lost silently (this is why the writer calls make_general with
   skip_spdf=False); an empty momentum list as `, H , ...` *)
Definition mpro_fused_stmt : Prop :=
  mpro_roundtrip "spherical" [(1%Z, [mp_s; mkShell "gto" "" [0%Z; 1%Z] ["1.0"] [["1.0"]; ["1.0"]]])] = inr [(1%Z, [mp_s])] /\
  mpro_roundtrip "spherical" [(1%Z, [mp_s; mkShell "gto" "" [] ["1.0"] [["1.0"]]])] = inr [(1%Z, [mp_s])].

(* `snd zs <> []`: an element without shells leaves no trace *)
Definition mpro_noshell_stmt : Prop :=
  mpro_roundtrip "spherical" [(1%Z, [mp_s]); (2%Z, [])] = inr [(1%Z, [mp_s])].

(* `length c = length (exps s)`: a long contraction fails the reader's second assertion, a short one is padded *)
Definition mpro_ragged_stmt : Prop :=
  mpro_roundtrip "spherical" [(1%Z, [mkShell "gto" "" [0%Z] ["1.0"] [["1.0"; "2.0"]]])] = inl EAssert /\
  mpro_roundtrip "spherical" [(1%Z, [mkShell "gto" "" [0%Z] ["2.0"; "1.0"] [["1.0"]]])] =
    inr [(1%Z, [mkShell "gto" "" [0%Z] ["2.0"; "1.0"] [["1.0"; "0.0"]]])].

(* `Forall floating`: a number without a point is printed; as an exponent it makes the shell line match nothing (the shell
   is lost silently), as a coefficient it makes the `c` line match nothing (the contraction is lost silently) *)
Definition mpro_floating_stmt : Prop :=
  mpro_roundtrip "spherical" [(1%Z, [mp_s; mkShell "gto" "" [1%Z] ["10"] [["1.0"]]])] = inr [(1%Z, [mp_s])] /\
  mpro_roundtrip "spherical" [(1%Z, [mkShell "gto" "" [0%Z] ["1.0"] [["1"]; ["2.0"]]])] =
    inr [(1%Z, [mkShell "gto" "" [0%Z] ["1.0"] []])].

(* `NoDup (map fst els)` (cannot happen for a Python dictionary): the shells are merged.  `1 <= z <= 120`: KeyError *)
Definition mpro_elements_stmt : Prop :=
  mpro_roundtrip "spherical" [(1%Z, [mp_s]); (2%Z, [mp_s]); (1%Z, [mp_s])] = inr [(1%Z, [mp_s; mp_s]); (2%Z, [mp_s])] /\
  mpro_write_electron "spherical" [(0%Z, [mp_s])] = inl EKey /\
  mpro_write_electron "spherical" [(121%Z, [mp_s])] = inl EKey.

(* the regular expressions are looser than the format: hand-written lines.  The separators are optional (`s H 1.0 2.0`), the
   symbol group \w+ takes digits (`s, H1.5` has the symbol H1), the `.` between first and last is any character (`c, 123, ...`
   is first 1, last 3), two numbers may touch (`1.02.5` is 1.02 and .5), `ss, 1.0` is an s shell of sulfur; a line that matches
   nothing is skipped without a word, a shell in the last line is an IndexError *)
Definition mpro_loose_stmt : Prop :=
  mpro_read_electron ["s H 2.0 1.0"; "c 1.2 0.5 0.5"; "}"] = inr [(1%Z, [mkShell "gto" "" [0%Z] ["2.0"; "1.0"] [["0.5"; "0.5"]]])] /\
  mpro_read_electron ["s, H1.5"; "}"] = inl EKey /\
  mpro_read_electron ["s, H , 3.0, 2.0, 1.0"; "c, 123, 0.5, 0.5, 0.5"; "}"] =
    inr [(1%Z, [mkShell "gto" "" [0%Z] ["3.0"; "2.0"; "1.0"] [["0.5"; "0.5"; "0.5"]]])] /\
  mpro_read_electron ["s, H , 1.02.5"; "}"] = inr [(1%Z, [mkShell "gto" "" [0%Z] ["1.02"; ".5"] []])] /\
  mpro_read_electron ["ss, 1.0"; "}"] = inr [(16%Z, [mkShell "gto" "" [0%Z] ["1.0"] []])] /\
  mpro_read_electron ["s, H , 1.0 , , 2.0"; "c, 1.1, 1.0"; "}"] = inr [] /\
  mpro_read_electron ["s, 12 , 1.0"; "}"] = inl EOther /\
  mpro_read_electron ["s, H , 1.0"] = inl EIndex /\
  mpro_read_electron ["ECP, na, 10, 2 ;"] = inl ENotImpl.

(* ---------- a concrete instance: 6-31G for H and C as write_molpro sees it (after make_general and sort_basis: one s and one
   p shell per element, the contractions padded with '0.00000000') ---------- *)
Definition exm_H : sshell :=
  mkShell "gto" "" [0%Z] ["0.1873113696E+02"; "0.2825394365E+01"; "0.6401216923E+00"; "0.1612777588E+00"]
          [["0.3349460434E-01"; "0.2347269535E+00"; "0.8137573261E+00"; "0.00000000"];
           ["0.00000000"; "0.00000000"; "0.00000000"; "1.0000000"]].
Definition exm_Cs : sshell :=
  mkShell "gto" "" [0%Z]
          ["0.3047524880E+04"; "0.4573695180E+03"; "0.1039486850E+03"; "0.2921015530E+02"; "0.9286662960E+01";
           "0.7868272350E+01"; "0.3163926960E+01"; "0.1881288540E+01"; "0.5442492580E+00"; "0.1687144782E+00"]
          [["0.1834737132E-02"; "0.1403732281E-01"; "0.6884262226E-01"; "0.2321844432E+00"; "0.4679413484E+00";
            "0.00000000"; "0.3623119853E+00"; "0.00000000"; "0.00000000"; "0.00000000"];
           ["0.00000000"; "0.00000000"; "0.00000000"; "0.00000000"; "0.00000000"; "-0.1193324198E+00"; "0.00000000";
            "-0.1608541517E+00"; "0.1143456438E+01"; "0.00000000"];
           ["0.00000000"; "0.00000000"; "0.00000000"; "0.00000000"; "0.00000000"; "0.00000000"; "0.00000000"; "0.00000000";
            "0.00000000"; "0.1000000000E+01"]].
Definition exm_Cp : sshell :=
  mkShell "gto" "" [1%Z] ["0.7868272350E+01"; "0.1881288540E+01"; "0.5442492580E+00"; "0.1687144782E+00"]
          [["0.6899906659E-01"; "0.3164239610E+00"; "0.7443082909E+00"; "0.00000000"];
           ["0.00000000"; "0.00000000"; "0.00000000"; "0.1000000000E+01"]].
Definition exm_els : list (Z * list sshell) := [(1%Z, [exm_H]); (6%Z, [exm_Cs; exm_Cp])].

Definition exm_text : string :=
  String.concat nl1
   ["spherical";
    "basis={";
    "!";
    "! hydrogen             (4s) -> [2s]";
    "s, H , 0.1873113696E+02, 0.2825394365E+01, 0.6401216923E+00, 0.1612777588E+00";
    "c, 1.3, 0.3349460434E-01, 0.2347269535E+00, 0.8137573261E+00";
    "c, 4.4, 1.0000000";
    "!";
    "! carbon               (10s,4p) -> [3s,2p]";
    "s, C , 0.3047524880E+04, 0.4573695180E+03, 0.1039486850E+03, 0.2921015530E+02, 0.9286662960E+01, 0.7868272350E+01, 0.3163926960E+01, 0.1881288540E+01, 0.5442492580E+00, 0.1687144782E+00";
    "c, 1.7, 0.1834737132E-02, 0.1403732281E-01, 0.6884262226E-01, 0.2321844432E+00, 0.4679413484E+00, 0.00000000, 0.3623119853E+00";
    "c, 6.9, -0.1193324198E+00, 0.00000000, -0.1608541517E+00, 0.1143456438E+01";
    "c, 10.10, 0.1000000000E+01";
    "p, C , 0.7868272350E+01, 0.1881288540E+01, 0.5442492580E+00, 0.1687144782E+00";
    "c, 1.3, 0.6899906659E-01, 0.3164239610E+00, 0.7443082909E+00";
    "c, 4.4, 0.1000000000E+01";
    "}";
    ""].

Definition mpro_example_stmt : Prop :=
  mpro_ok "spherical" exm_els /\
  mpro_write_electron "spherical" exm_els = inr exm_text /\
  mpro_roundtrip "spherical" exm_els = inr (mpro_expected exm_els) /\
  (* the visible change: the padding zeros *)
  mpro_expected_shell exm_Cp =
    mkShell "gto" "" [1%Z] ["0.7868272350E+01"; "0.1881288540E+01"; "0.5442492580E+00"; "0.1687144782E+00"]
            [["0.6899906659E-01"; "0.3164239610E+00"; "0.7443082909E+00"; "0.0"]; ["0.0"; "0.0"; "0.0"; "0.1000000000E+01"]] /\
  nth_error (coefs (mpro_expected_shell exm_Cs)) 1 =
    Some ["0.0"; "0.0"; "0.0"; "0.0"; "0.0"; "-0.1193324198E+00"; "0.00000000"; "-0.1608541517E+00"; "0.1143456438E+01"; "0.0"].
