(* Proofs of the statements of Proofs/Demon2kEcpDefs.v: the whole deMon2k file (electron part + ECP part) written by
   write_demon2k is read back by read_demon2k with the potential of highest momentum renumbered to (number of potentials - 1);
   exactly when the momenta are 0 .. n-1. *)
From BSE Require Import Model.Val Model.Text Model.Basis Model.Manip Model.Matrix Gen.GenLut Model.Lut Model.Elements
                        Model.Nwchem Model.NwchemEcp Model.Turbomole Model.Demon2k Model.Demon2kEcp
                        Proofs.MatrixDefs Proofs.NwchemDefs Proofs.NwchemEcpDefs Proofs.C20Finite
                        Proofs.Demon2kDefs Proofs.Demon2kEcpDefs.
From BSE Require Proofs.ElementsSpec.
From BSE Require Import Proofs.HeaderSpec Proofs.PruneFS Proofs.MatrixSpec Proofs.NwchemSpec Proofs.NwchemEcpSpec
                        Proofs.Demon2kSpec.
Require Import Coq.Sorting.Permutation Coq.Sorting.Sorted Coq.ZArith.ZArith Coq.micromega.Lia.

(* ================================================================== *)
(* 1. the lines the writer prints                                      *)
(* ================================================================== *)
Definition drow (row : list cell) : string :=
  match write_row row d2k_ecp_point_places true "" with inr l => l | inl _ => "" end.

Lemma drow_facts : forall t, trip_ok t ->
  write_row (cellrow t) d2k_ecp_point_places true "" = inr (drow (cellrow t)) /\
  good_line (drow (cellrow t)) /\ tokens_acc (drow (cellrow t)) "" = tokrow t.
Proof.
  intros t Ht. destruct (cellrow_ok t Ht) as [Hok Hasc].
  destruct (write_row_total (cellrow t) d2k_ecp_point_places true "" Hok) as [line Hl].
  { destruct t as [[x y] z]. cbn. lia. }
  unfold drow. rewrite Hl. split; [reflexivity|]. split.
  - apply (write_row_chars nobd eq_refl (cellrow t) d2k_ecp_point_places true "" line); [|reflexivity|exact Hl].
    rewrite Forall_forall in *. intros c Hc. apply cell_nobd; [apply Hok | apply Hasc]; exact Hc.
  - rewrite (write_row_tokens_gen _ _ _ _ _ Hok (fun _ => eq_refl) Hl). destruct t as [[x y] z]. reflexivity.
Qed.

Definition dprows (p : epot) : list string := map drow (map cellrow (ptrip p)).
Definition d_pot_lines (sym : string) (mx : Z) (p : epot) : list string := pot_head sym mx p :: dprows p.
Definition d_ecp_el_lines (e : Z * (Z * list epot)) : list string :=
  nelec_line (symz (fst e)) (fst (snd e)) ::
  flat_map (d_pot_lines (symz (fst e)) (el_mx e)) (ecp_written_order (snd (snd e))).
Definition d_ecp_all_lines (ecps : list (Z * (Z * list epot))) : list string :=
  "" :: "" :: "ECP" :: flat_map d_ecp_el_lines ecps ++ ["END"].

Lemma gen_parts : forall e, d2k_ecp_el_gen e ->
  (1 <= fst e <= 118)%Z /\ (0 <= fst (snd e))%Z /\ snd (snd e) <> [] /\ Forall ecp_pot_ok (snd (snd e)) /\
  Forall d2k_pot_ok (snd (snd e)) /\ NoDup (map pot_l (snd (snd e))).
Proof.
  intros [z [n pots]] H. unfold d2k_ecp_el_gen in H. destruct H as [Hz [Hn [Hne [Hok [Hnd _]]]]]. cbn [fst snd].
  split; [exact Hz|]. split; [exact Hn|]. split; [exact Hne|]. split; [|split; [exact Hok | exact Hnd]].
  rewrite Forall_forall in *. intros p Hp. apply (Hok p Hp).
Qed.

Lemma write_pot_lines_d : forall sym mx p, ecp_pot_ok p -> d2k_write_pot sym mx p = inr (unlines (d_pot_lines sym mx p)).
Proof.
  intros sym mx p Hp. destruct (pot_facts p Hp) as [Ecols [_ [Hg [Hc [Fg [Fc [Hts _]]]]]]].
  destruct (pot_am_facts p Hp) as [A1 [A2 _]].
  unfold d2k_write_pot. rewrite A1, A2. unfold bind. rewrite Ecols.
  assert (Hleft : leftpad_check [map CInt (p_rexp p); map CStr (p_gexp p); map CStr (pcoef p)] d2k_ecp_point_places = inr tt).
  { unfold d2k_ecp_point_places. cbn [leftpad_check].
    destruct (mapM_find_point (map CInt (p_rexp p))) as [l1 ->].
    { rewrite Forall_forall. intros c Hc'. apply in_map_iff in Hc'. destruct Hc' as [x [<- _]]. exact I. }
    destruct (mapM_find_point (map CStr (p_gexp p))) as [l2 ->]; [apply floats_cells, Fg|].
    destruct (mapM_find_point (map CStr (pcoef p))) as [l3 ->]; [apply floats_cells, Fc|]. reflexivity. }
  rewrite Hleft.
  assert (Hw : write_matrix [map CInt (p_rexp p); map CStr (p_gexp p); map CStr (pcoef p)] d2k_ecp_point_places false
               = inr (unlines (dprows p))).
  { unfold write_matrix, transpose_cells. rewrite transpose_trip. fold (ptrip p).
    rewrite (mapM_map_ok _ _ _ drow (map cellrow (ptrip p))); [reflexivity|].
    intros row Hrow. apply in_map_iff in Hrow. destruct Hrow as [t [<- Ht]]. apply drow_facts, Hts, Ht. }
  rewrite Hw. unfold ok, d_pot_lines, pot_head, ul_line, am_line1. rewrite unlines_cons.
  destruct (Z.eqb (pot_l p) mx); rewrite !sapp_assoc; reflexivity.
Qed.

Lemma write_ecp_element_lines_d : forall e, d2k_ecp_el_gen e -> d2k_write_ecp_element e = inr (unlines (d_ecp_el_lines e)).
Proof.
  intros e He. destruct (gen_parts e He) as [Hz [Hn [Hne [Hok [_ Hnd]]]]]. destruct e as [z [n pots]]. cbn [fst snd] in *.
  destruct (sym_facts z Hz) as [Es _].
  destruct (written_order_ok pots Hne Hok Hnd) as [Eo [Hoo _]].
  unfold d2k_write_ecp_element. rewrite Es. unfold bind. rewrite (max_am_ok pots Hne Hok), Eo.
  rewrite (mapM_map_ok _ _ _ (fun p => unlines (d_pot_lines (symz z) (zmax (map pot_l pots)) p))).
  - unfold ok, d_ecp_el_lines, el_mx, nelec_line. cbn [fst snd]. rewrite unlines_cons, unlines_flat_map, !sapp_assoc. reflexivity.
  - intros p Hp. apply write_pot_lines_d. rewrite Forall_forall in Hoo. apply Hoo, Hp.
Qed.

Lemma write_ecp_lines_d : forall ecps, d2k_ecp_gen ecps -> d2k_write_ecp ecps = inr (unlines (d_ecp_all_lines ecps)).
Proof.
  intros ecps [Hne [_ Hel]]. unfold d2k_write_ecp. destruct ecps as [|e0 ecps0]; [congruence|].
  rewrite (mapM_map_ok _ _ d2k_write_ecp_element (fun e => unlines (d_ecp_el_lines e))).
  - unfold bind, ok, d_ecp_all_lines. rewrite !unlines_cons, unlines_app, unlines_flat_map. reflexivity.
  - intros e Hin. apply write_ecp_element_lines_d. rewrite Forall_forall in Hel. apply Hel, Hin.
Qed.

Lemma d_pot_lines_good : forall z mx p, (1 <= z <= 118)%Z -> ecp_pot_ok p -> Forall good_line (d_pot_lines (symz z) mx p).
Proof.
  intros z mx p Hz Hp. destruct (pot_facts p Hp) as [_ [_ [_ [_ [_ [_ [Hts _]]]]]]].
  pose proof (pot_lines_good z mx p Hz Hp) as G. inversion G as [|? ? G1 _]; subst.
  unfold d_pot_lines. constructor; [exact G1|].
  unfold dprows. rewrite Forall_forall. intros l Hl. apply in_map_iff in Hl. destruct Hl as [row [<- Hrow]].
  apply in_map_iff in Hrow. destruct Hrow as [t [<- Ht]]. apply drow_facts, Hts, Ht.
Qed.

Lemma d_ecp_el_lines_good : forall e, d2k_ecp_el_gen e -> Forall good_line (d_ecp_el_lines e).
Proof.
  intros e He. destruct (gen_parts e He) as [Hz [Hn [Hne [Hok [_ Hnd]]]]]. destruct e as [z [n pots]]. cbn [fst snd] in *.
  destruct (written_order_ok pots Hne Hok Hnd) as [_ [Hoo _]].
  unfold d_ecp_el_lines. cbn [fst snd]. constructor; [apply nelec_line_good, Hz|].
  rewrite Forall_forall in *. intros l Hl. apply in_flat_map in Hl. destruct Hl as [p [Hp Hl]].
  pose proof (d_pot_lines_good z (el_mx (z, (n, pots))) p Hz (Hoo p Hp)) as G. rewrite Forall_forall in G. apply G, Hl.
Qed.

Lemma d_ecp_all_lines_good : forall ecps, d2k_ecp_gen ecps -> Forall good_line (d_ecp_all_lines ecps).
Proof.
  intros ecps [_ [_ Hel]]. unfold d_ecp_all_lines. repeat (constructor; [reflexivity|]).
  apply Forall_app. split; [|repeat constructor].
  rewrite Forall_forall in *. intros l Hl. apply in_flat_map in Hl. destruct Hl as [e [He Hl]].
  pose proof (d_ecp_el_lines_good e (Hel e He)) as G. rewrite Forall_forall in G. apply G, Hl.
Qed.

Lemma write_all_lines_d : forall sph bsname els ecps, d2k_all_gen bsname els ecps ->
  d2k_write_all sph bsname els ecps = inr (unlines (d_all_lines sph bsname els ++ d_ecp_all_lines ecps)).
Proof.
  intros sph bsname els ecps [H1 H2]. unfold d2k_write_all.
  rewrite (write_electron_lines sph bsname els H1), (write_ecp_lines_d ecps H2). unfold bind, ok. now rewrite unlines_app.
Qed.

Lemma d2k_all_write_total : d2k_all_write_total_stmt.
Proof. intros sph bsname els ecps H. eexists. apply write_all_lines_d, H. Qed.

(* ---------- d2k_ecp_no_number_lost ---------- *)
Lemma d2k_ecp_no_number_lost : d2k_ecp_no_number_lost_stmt.
Proof.
  intros ecps t H E x [e [He Hx]]. rewrite (write_ecp_lines_d ecps H) in E. inversion E; subst t.
  rewrite (splitlines_unlines _ (d_ecp_all_lines_good ecps H)).
  destruct H as [_ [_ Hel]]. rewrite Forall_forall in Hel. destruct (gen_parts e (Hel e He)) as [Hz [Hn [Hne [Hpok [_ Hnd]]]]].
  destruct e as [z [n pots]]. cbn [fst snd] in *.
  assert (Hsub : forall line, In line (d_ecp_el_lines (z, (n, pots))) -> In line (d_ecp_all_lines ecps)).
  { intros line Hl. unfold d_ecp_all_lines. do 3 right. apply in_or_app. left. apply in_flat_map. eexists. split; [exact He | exact Hl]. }
  destruct Hx as [->|[p [Hp Hx]]].
  - exists (nelec_line (symz z) n). split; [apply Hsub; now left | apply nelec_tokens].
  - destruct (written_order_ok pots Hne Hpok Hnd) as [_ [_ Hperm]].
    rewrite Forall_forall in Hpok. pose proof (Hpok p Hp) as Hpp.
    destruct (pot_facts p Hpp) as [_ [Ec [Hg [Hc [_ [_ [Hts _]]]]]]].
    destruct (trip_proj _ _ _ Hg Hc) as [P1 [P2 P3]]. fold (ptrip p) in P1, P2, P3.
    assert (Ht : exists tr, In tr (ptrip p) /\ In x (tokrow tr)).
    { destruct Hx as [Hx|[[c [Hcin Hx]]|[r [Hr ->]]]].
      - rewrite <- P2 in Hx. apply in_map_iff in Hx. destruct Hx as [[[a b] c] [<- Hin]]. eexists. split; [exact Hin|]. right. now left.
      - rewrite Ec in Hcin. destruct Hcin as [<-|[]]. rewrite <- P3 in Hx. apply in_map_iff in Hx.
        destruct Hx as [[[a b] c] [<- Hin]]. eexists. split; [exact Hin|]. right. right. now left.
      - rewrite <- P1 in Hr. apply in_map_iff in Hr. destruct Hr as [[[a b] c] [<- Hin]]. eexists. split; [exact Hin|]. now left. }
    destruct Ht as [tr [Htr Hxt]]. exists (drow (cellrow tr)). destruct (drow_facts tr (Hts tr Htr)) as [_ [_ Htok]].
    split; [|rewrite Htok; exact Hxt].
    apply Hsub. unfold d_ecp_el_lines. cbn [fst snd]. right. apply in_flat_map. exists p.
    split; [apply (Permutation_in _ Hperm), Hp|]. unfold d_pot_lines, dprows. right. apply in_map, in_map, Htr.
Qed.

(* ================================================================== *)
(* 2. the lines after prune_lines, and what the regular expressions say about them *)
(* ================================================================== *)
Definition d_pot_blk (sym : string) (mx : Z) (p : epot) : list string := pot_head sym mx p :: map strip_ws (dprows p).
Definition d_ecp_el_pruned (e : Z * (Z * list epot)) : list string :=
  nelec_line (symz (fst e)) (fst (snd e)) ::
  concat (map (d_pot_blk (symz (fst e)) (el_mx e)) (ecp_written_order (snd (snd e)))).

Lemma drow_data : forall t, trip_ok t -> data_line (strip_ws (drow (cellrow t))).
Proof.
  intros t Ht. destruct (drow_facts t Ht) as [_ [_ Htok]]. destruct t as [[x y] z]. cbn [tokrow] in Htok.
  destruct (tokens_first _ _ _ Htok) as [c [t' [y' [E [El Hc]]]]].
  destruct (strip_first _ c y' El Hc) as [r Er]. destruct (int_first x) as [c0 [t0 [E0 Hc0]]].
  rewrite E0 in E. inversion E; subst c0 t0. destruct (intc_data c Hc0) as [H1 H2].
  exists c, r. repeat split; assumption.
Qed.

Lemma dprows_data : forall p, ecp_pot_ok p -> Forall (fun r => data_line (strip_ws r)) (dprows p).
Proof.
  intros p Hp. destruct (pot_facts p Hp) as [_ [_ [_ [_ [_ [_ [Hts _]]]]]]].
  unfold dprows. rewrite Forall_forall. intros l Hl. apply in_map_iff in Hl. destruct Hl as [row [<- Hrow]].
  apply in_map_iff in Hrow. destruct Hrow as [t [<- Ht]]. apply drow_data, Hts, Ht.
Qed.

Lemma prune1_pot_d : forall z mx p, (1 <= z <= 118)%Z -> ecp_pot_ok p ->
  prune1 (d_pot_lines (symz z) mx p) = d_pot_blk (symz z) mx p.
Proof.
  intros z mx p Hz Hp. unfold d_pot_lines, d_pot_blk. rewrite prune1_cons, (prune1_data _ (dprows_data p Hp)).
  destruct (pot_head_facts z mx p Hz Hp) as [_ [_ ->]]. reflexivity.
Qed.

Lemma prune1_ecp_el_d : forall e, d2k_ecp_el_gen e -> prune1 (d_ecp_el_lines e) = d_ecp_el_pruned e.
Proof.
  intros e He. destruct (gen_parts e He) as [Hz [Hn [Hne [Hok [_ Hnd]]]]]. destruct e as [z [n pots]]. cbn [fst snd] in *.
  destruct (written_order_ok pots Hne Hok Hnd) as [_ [Hoo _]].
  unfold d_ecp_el_lines, d_ecp_el_pruned. cbn [fst snd]. rewrite prune1_cons, prune1_flat_map.
  destruct (nelec_line_facts z n Hz) as [_ [_ ->]]. cbn [app]. f_equal. rewrite <- flat_map_concat_map.
  apply flat_map_ext_in. intros p Hp. apply prune1_pot_d; [exact Hz|]. rewrite Forall_forall in Hoo. apply Hoo, Hp.
Qed.

Lemma prune1_ecp_all_d : forall ecps, d2k_ecp_gen ecps ->
  prune1 (d_ecp_all_lines ecps) = "ECP" :: flat_map d_ecp_el_pruned ecps ++ ["END"].
Proof.
  intros ecps [_ [_ Hel]]. unfold d_ecp_all_lines.
  change ("" :: "" :: "ECP" :: flat_map d_ecp_el_lines ecps ++ ["END"])
    with (["";"";"ECP"] ++ flat_map d_ecp_el_lines ecps ++ ["END"]).
  rewrite !prune1_app, prune1_flat_map.
  change (prune1 ["";"";"ECP"]) with ["ECP"]. change (prune1 ["END"]) with ["END"]. cbn [app]. do 2 f_equal.
  apply flat_map_ext_in. intros e He. apply prune1_ecp_el_d. rewrite Forall_forall in Hel. apply Hel, He.
Qed.

(* ---- tokens ---- *)
Lemma tokens_two : forall a b, tok_ok a -> tok_ok b -> tokens_acc (a +++ " " +++ b) "" = [a; b].
Proof.
  intros a b Ha Hb. change (a +++ " " +++ b) with (a +++ sp 1 +++ b). rewrite (tokens_snoc 0 b Hb).
  change a with (sp 0 +++ a) at 1. now rewrite (tokens_sp_word 0 a Ha).
Qed.
Lemma tokens_three : forall a b c, tok_ok a -> tok_ok b -> tok_ok c -> tokens_acc (a +++ " " +++ b +++ " " +++ c) "" = [a; b; c].
Proof.
  intros a b c Ha Hb Hc.
  assert (E : a +++ " " +++ b +++ " " +++ c = (a +++ " " +++ b) +++ sp 1 +++ c) by (rewrite !sapp_assoc; reflexivity).
  rewrite E, (tokens_snoc 0 c Hc), (tokens_two a b Ha Hb). reflexivity.
Qed.

Lemma sym_tok : forall z, (1 <= z <= 118)%Z -> tok_ok (symz z) /\ sall is_alpha (symz z) = true.
Proof. intros z Hz. destruct (sym_facts z Hz) as [_ [Hne [Hs _]]]. split; [now apply alpha_word_tok | exact Hs]. Qed.

Lemma nelec_tokens3 : forall z n, (1 <= z <= 118)%Z ->
  tokens_acc (nelec_line (symz z) n) "" = [symz z; "nelec"; Z_to_string n].
Proof.
  intros z n Hz. unfold nelec_line. change (symz z +++ " nelec " +++ Z_to_string n) with (symz z +++ " " +++ "nelec" +++ " " +++ Z_to_string n).
  apply tokens_three; [apply (sym_tok z Hz) | split; [discriminate | reflexivity] | apply int_tok].
Qed.

Definition head_name (mx : Z) (p : epot) : string := if Z.eqb (pot_l p) mx then "ul" else upper (amch_of (p_am p)).
Lemma head_name_facts : forall mx p, ecp_pot_ok p -> tok_ok (head_name mx p) /\ sall is_alpha (head_name mx p) = true.
Proof.
  intros mx p Hp. destruct (pot_am_facts p Hp) as [_ [_ [A2 [A3 _]]]]. unfold head_name.
  destruct (Z.eqb (pot_l p) mx); [split; [split; [discriminate | reflexivity] | reflexivity]|].
  split; [now apply alpha_word_tok | exact A2].
Qed.
Lemma pot_head_eq : forall sym mx p, pot_head sym mx p = sym +++ " " +++ head_name mx p.
Proof. intros sym mx p. unfold pot_head, head_name, ul_line, am_line1. destruct (Z.eqb (pot_l p) mx); reflexivity. Qed.
Lemma head_tokens : forall z mx p, (1 <= z <= 118)%Z -> ecp_pot_ok p ->
  tokens_acc (pot_head (symz z) mx p) "" = [symz z; head_name mx p].
Proof. intros z mx p Hz Hp. rewrite pot_head_eq. apply tokens_two; [apply (sym_tok z Hz) | apply (head_name_facts mx p Hp)]. Qed.

Lemma row_tokens : forall t, trip_ok t -> tokens_acc (strip_ws (drow (cellrow t))) "" = tokrow t.
Proof. intros t Ht. rewrite tokens_strip. apply (drow_facts t Ht). Qed.

(* ---- lines that begin with an element symbol and a blank ---- *)
Lemma alpha_sp_not_orbital : forall w r, w <> "" -> sall is_alpha w = true -> is_orbital (w +++ String " " r) = false.
Proof.
  intros [|c [|c2 w]] r Hne Hw; [congruence| |].
  - unfold is_orbital, match_orbital. cbn [String.append]. all_chars c; reflexivity.
  - cbn [sall] in Hw. apply andb_true_iff in Hw. destruct Hw as [_ Hw]. apply andb_true_iff in Hw. destruct Hw as [Hc2 _].
    unfold is_orbital, match_orbital. cbn [String.append]. all_chars c; try reflexivity.
    all_chars c2; try reflexivity; discriminate Hc2.
Qed.

Lemma sym_starts : forall z r, (1 <= z <= 118)%Z -> starts_nonspace (symz z +++ r) = true.
Proof.
  intros z r Hz. destruct (sym_facts z Hz) as [_ [Hne [Hs _]]]. destruct (symz z) as [|c s]; [congruence|].
  cbn [sall] in Hs. apply andb_true_iff in Hs. destruct Hs as [Hc _]. cbn [String.append starts_nonspace].
  now rewrite (alpha_not_space c Hc).
Qed.

Lemma floating_not_decimal : forall g, is_floating g = true -> isdecimal g = false.
Proof.
  intros g Hg. destruct (floating_is_cell g Hg) as [_ [_ Hp]].
  assert (G : forall s, sany (Ascii.eqb ".") s = true -> sall is_digit s = false).
  { induction s as [|c s IH]; intros H; [discriminate|]. cbn [sany] in H. cbn [sall]. apply orb_true_iff in H. destruct H as [H|H].
    - apply Ascii.eqb_eq in H. subst c. reflexivity.
    - rewrite (IH H). apply andb_false_r. }
  unfold isdecimal. destruct g; [reflexivity | apply G, Hp].
Qed.

Lemma ecp_start_tokens : forall l, is_ecp_start l = true -> tokens_acc l "" = ["ECP"].
Proof. intros l H. unfold is_ecp_start in H. apply String.eqb_eq in H. rewrite <- tokens_strip, H. reflexivity. Qed.
Lemma not_start_by_tokens : forall l, List.length (tokens_acc l "") <> 1 -> is_ecp_start l = false.
Proof. intros l H. destruct (is_ecp_start l) eqn:E; [|reflexivity]. rewrite (ecp_start_tokens l E) in H. cbn in H. congruence. Qed.

(* the three kinds of lines of the ECP part *)
Record ecp_line_facts (l : string) : Prop := {
  elf_orb : is_orbital l = false; elf_shell : is_shell l = false; elf_start : is_ecp_start l = false }.

Lemma nelec_line_class : forall z n, (1 <= z <= 118)%Z -> (0 <= n)%Z ->
  ecp_line_facts (nelec_line (symz z) n) /\ match_ecp_entry (nelec_line (symz z) n) = Some (symz z, n).
Proof.
  intros z n Hz Hn. destruct (sym_tok z Hz) as [Ht Ha]. destruct (sym_facts z Hz) as [_ [Hne _]].
  pose proof (nelec_tokens3 z n Hz) as Tk. split; [constructor|].
  - unfold nelec_line. apply alpha_sp_not_orbital; assumption.
  - unfold is_shell, match_shell. rewrite Tk, (ElementsSpec.isdecimal_word _ Ha). reflexivity.
  - apply not_start_by_tokens. rewrite Tk. discriminate.
  - unfold match_ecp_entry. unfold nelec_line at 1. rewrite (sym_starts z _ Hz). cbn [negb]. rewrite Tk, Ha.
    destruct (nonneg_string n Hn) as [D V]. destruct (decimal_is_integer _ D) as [_ [_ ->]]. cbn [andb String.eqb]. now rewrite V.
Qed.

Lemma head_line_class : forall z mx p, (1 <= z <= 118)%Z -> ecp_pot_ok p ->
  ecp_line_facts (pot_head (symz z) mx p) /\ is_ecp_entry (pot_head (symz z) mx p) = false /\
  match_ecp_shell (pot_head (symz z) mx p) = Some (symz z, head_name mx p).
Proof.
  intros z mx p Hz Hp. destruct (sym_tok z Hz) as [Ht Ha]. destruct (sym_facts z Hz) as [_ [Hne _]].
  destruct (head_name_facts mx p Hp) as [_ Hh]. pose proof (head_tokens z mx p Hz Hp) as Tk. split; [constructor|split].
  - rewrite pot_head_eq. apply alpha_sp_not_orbital; assumption.
  - unfold is_shell, match_shell. now rewrite Tk.
  - apply not_start_by_tokens. rewrite Tk. discriminate.
  - unfold is_ecp_entry, match_ecp_entry. rewrite Tk. destruct (negb _); reflexivity.
  - unfold match_ecp_shell. rewrite Tk. rewrite pot_head_eq at 1. rewrite (sym_starts z _ Hz). cbn [negb]. now rewrite Ha, Hh.
Qed.

Lemma row_line_class : forall t, trip_ok t -> (0 <= fst (fst t))%Z ->
  let l := strip_ws (drow (cellrow t)) in
  ecp_line_facts l /\ is_ecp_entry l = false /\ match_ecp_shell l = None /\ match_ecp_data l = Some t.
Proof.
  intros t Ht Hr l. pose proof (row_tokens t Ht) as Tk. fold l in Tk. destruct t as [[x y] z]. destruct Ht as [Hy Hz]. cbn [fst snd tokrow] in *.
  destruct (nonneg_string x Hr) as [D V]. destruct (decimal_is_integer _ D) as [_ [_ Ed]].
  split; [constructor|split; [|split]].
  - apply data_not_orbital. apply (drow_data (x, y, z)). split; assumption.
  - unfold is_shell, match_shell. rewrite Tk, Ed, (floating_not_decimal y Hy). reflexivity.
  - apply not_start_by_tokens. rewrite Tk. discriminate.
  - unfold is_ecp_entry, match_ecp_entry. rewrite Tk. destruct (negb _); [reflexivity|].
    destruct D as [Dne Dd]. destruct (Z_to_string x) as [|c s]; [congruence|]. cbn [sall] in Dd |- *.
    apply andb_true_iff in Dd. destruct Dd as [Dc _]. now rewrite (digit_not_alpha c Dc).
  - unfold match_ecp_shell. rewrite Tk. destruct (negb _); reflexivity.
  - unfold match_ecp_data. rewrite Tk, Ed, Hy, Hz, V. reflexivity.
Qed.

(* ================================================================== *)
(* 3. one element of the ECP part                                      *)
(* ================================================================== *)
Definition amb (mx : Z) (p : epot) : amblock := (head_name mx p, ptrip p).

Lemma am_rows : forall sym ts rest blocks a acc, (forall t, In t ts -> trip_ok t /\ (0 <= fst (fst t))%Z) ->
  d2k_am_loop sym (map strip_ws (map drow (map cellrow ts)) ++ rest) blocks (Some (a, acc)) =
  d2k_am_loop sym rest blocks (Some (a, acc ++ ts)).
Proof.
  intros sym; induction ts as [|t ts IH]; intros rest blocks a acc H; [now rewrite app_nil_r|].
  destruct (H t (or_introl eq_refl)) as [Ht Hr]. destruct (row_line_class t Ht Hr) as [_ [_ [E1 E2]]].
  cbn [map app d2k_am_loop]. rewrite E1, E2. rewrite IH by (intros t' Ht'; apply H; now right).
  rewrite <- app_assoc. reflexivity.
Qed.

Lemma pot_rows_ok : forall p, d2k_pot_ok p -> forall t, In t (ptrip p) -> trip_ok t /\ (0 <= fst (fst t))%Z.
Proof.
  intros p [Hp Hr] t Ht. destruct (pot_facts p Hp) as [_ [_ [_ [_ [_ [_ [Hts _]]]]]]]. split; [apply Hts, Ht|].
  destruct t as [[x y] z]. destruct (trip_in _ _ _ _ _ _ Ht) as [Hx _]. rewrite Forall_forall in Hr. apply Hr, Hx.
Qed.

Lemma am_pots : forall z mx pots extra blocks cur, (1 <= z <= 118)%Z -> Forall d2k_pot_ok pots ->
  (extra = [] \/ extra = ["END"]) ->
  d2k_am_loop (symz z) (concat (map (d_pot_blk (symz z) mx) pots) ++ extra) blocks cur =
  inr (flush_block blocks cur ++ map (amb mx) pots).
Proof.
  intros z mx; induction pots as [|p pots IH]; intros extra blocks cur Hz H Hex.
  - cbn [map concat app]. rewrite app_nil_r. destruct Hex as [->| ->]; reflexivity.
  - inversion H as [|? ? Hp Hps]; subst. destruct (head_line_class z mx p Hz (proj1 Hp)) as [_ [_ Es]].
    cbn [map concat]. unfold d_pot_blk at 1. cbn [app d2k_am_loop]. rewrite Es, String.eqb_refl. cbn [negb].
    rewrite <- app_assoc. unfold dprows. rewrite (am_rows _ _ _ _ _ _ (pot_rows_ok p Hp)). cbn [app].
    rewrite (IH extra _ _ Hz Hps Hex). cbn [flush_block map]. unfold amb at 2. rewrite <- app_assoc. reflexivity.
Qed.

(* ---- the momenta of the blocks ---- *)
Lemma sorted_range : forall l lo, StronglySorted Z.lt l ->
  Forall (fun x => (lo <= x < lo + Z.of_nat (List.length l))%Z) l -> l = zrange lo (List.length l).
Proof.
  induction l as [|x t IH]; intros lo Hs Hb; [reflexivity|].
  inversion Hs as [|? ? Hst Hlt]; subst. inversion Hb as [|? ? Hx Hbt]; subst. cbn [List.length zrange] in *.
  assert (Ht : t = zrange (lo + 1) (List.length t)).
  { apply IH; [exact Hst|]. rewrite Forall_forall in *. intros y Hy. specialize (Hlt y Hy). specialize (Hbt y Hy). lia. }
  destruct (Z.eq_dec x lo) as [->|Hne]; [now rewrite <- Ht|].
  exfalso. destruct t as [|y t'].
  - cbn in Hx. lia.
  - cbn [List.length zrange] in Ht. injection Ht as Ey _. rewrite Forall_forall in Hlt. specialize (Hlt y (or_introl eq_refl)). lia.
Qed.

Lemma sorted_map_l : forall l, StronglySorted lt_l l -> StronglySorted Z.lt (map pot_l l).
Proof.
  induction l as [|p l IH]; intros H; [constructor|]. inversion H as [|? ? Hs Hf]; subst. cbn [map]. constructor; [now apply IH|].
  rewrite Forall_forall in *. intros y Hy. apply in_map_iff in Hy. destruct Hy as [q [<- Hq]]. apply (Hf q Hq).
Qed.

Lemma lower_upper_char : forall c, lower_char (upper_char c) = lower_char c.
Proof. intros c. all_chars c; reflexivity. Qed.

Lemma block_am_letter : forall n k mx p, ecp_pot_ok p -> pot_l p = Z.of_nat k -> Z.eqb (pot_l p) mx = false ->
  d2k_block_am n (S k) (head_name mx p) = inr (Z.of_nat k).
Proof.
  intros n k mx p Hp Hk Hmx. destruct (pot_am_facts p Hp) as [A1 [_ [_ [_ [_ A6]]]]].
  destruct (pot_ok_single p Hp) as [Hs _]. unfold single_am in Hs. rewrite Hs, Hk in A1.
  unfold d2k_block_am, head_name. rewrite Hmx, A1. unfold bind. rewrite Hs, Hk in A6 |- *.
  destruct (amch_of [Z.of_nat k]) as [|c [|c2 r]]; cbn in A6; try discriminate.
  unfold upper, lower. cbn [smap]. rewrite lower_upper_char, String.eqb_refl. reflexivity.
Qed.

Lemma read_pot_fields : forall p, ecp_pot_ok p ->
  map (fun x : Z * string * string => fst (fst x)) (ptrip p) = p_rexp p /\
  map (fun x : Z * string * string => snd (fst x)) (ptrip p) = p_gexp p /\ [map snd (ptrip p)] = p_coef p.
Proof.
  intros p Hp. destruct (pot_facts p Hp) as [_ [Ec [Hg [Hc _]]]]. destruct (trip_proj _ _ _ Hg Hc) as [P1 [P2 P3]].
  fold (ptrip p) in P1, P2, P3. rewrite P1, P2, P3, Ec. repeat split; reflexivity.
Qed.

Lemma block_pots_rest : forall n mx rest k, Forall ecp_pot_ok rest -> map pot_l rest = zrange (Z.of_nat k) (List.length rest) ->
  Forall (fun p => Z.eqb (pot_l p) mx = false) rest ->
  d2k_block_pots n (S k) (map (amb mx) rest) = inr (map (d2k_read_pot mx n) rest).
Proof.
  intros n mx; induction rest as [|p rest IH]; intros k Hok Hl Hmx; [reflexivity|].
  inversion Hok as [|? ? Hp Hps]; subst. inversion Hmx as [|? ? Hm Hms]; subst.
  cbn [map List.length zrange] in Hl. inversion Hl as [[Hk Hrest]].
  cbn [map d2k_block_pots]. unfold amb at 1. rewrite (block_am_letter n k mx p Hp Hk Hm). unfold bind at 1.
  assert (Hrest' : map pot_l rest = zrange (Z.of_nat (S k)) (List.length rest)) by (rewrite Hrest; f_equal; lia).
  rewrite (IH (S k) Hps Hrest' Hms). unfold bind, ok.
  destruct (read_pot_fields p Hp) as [F1 [F2 F3]]. rewrite F1, F2, F3. unfold d2k_read_pot. rewrite Hm.
  destruct (pot_ok_single p Hp) as [Hs _]. unfold single_am in Hs. rewrite Hs, Hk. reflexivity.
Qed.

(* the written order under d2k_lower_ok: the highest first, then 0, 1, ..., n-2 *)
Lemma lower_order : forall pots, pots <> [] -> Forall ecp_pot_ok pots -> d2k_lower_ok (map pot_l pots) ->
  exists top rest, ecp_written_order pots = top :: rest /\ pot_l top = zmax (map pot_l pots) /\
    List.length pots = S (List.length rest) /\ Forall ecp_pot_ok (top :: rest) /\
    map pot_l rest = zrange 0 (List.length rest) /\
    Forall (fun p => Z.eqb (pot_l p) (zmax (map pot_l pots)) = false) rest.
Proof.
  intros pots Hne Hok [Hnd Hlow]. destruct (order_facts pots Hne Hok Hnd) as [top [rest [E [P [M [Hss L]]]]]].
  exists top, rest. unfold ecp_written_order. rewrite E. split; [reflexivity|]. split; [exact M|].
  pose proof (Permutation_length P) as PL. cbn [List.length] in PL. split; [exact PL|].
  split; [apply (Permutation_Forall P), Hok|].
  assert (Hneq : Forall (fun p => Z.eqb (pot_l p) (zmax (map pot_l pots)) = false) rest).
  { rewrite Forall_forall in *. intros p Hp. specialize (L p Hp). unfold lt_l in L. apply Z.eqb_neq. lia. }
  split; [|exact Hneq].
  rewrite <- (map_length pot_l rest). apply (sorted_range (map pot_l rest) 0); [apply sorted_map_l, Hss|].
  rewrite Forall_forall in *. intros x Hx. apply in_map_iff in Hx. destruct Hx as [p [<- Hp]].
  assert (Hin : In (pot_l p) (map pot_l pots)).
  { apply in_map. apply (Permutation_in _ (Permutation_sym P)). now right. }
  specialize (Hneq p Hp). apply Z.eqb_neq in Hneq. destruct (Hlow _ Hin) as [Hm|Hr]; [congruence|].
  rewrite !map_length in *. lia.
Qed.

Definition el_rel (e : Z * (Z * list epot)) (x : list string) : Prop :=
  exists extra, x = d_ecp_el_pruned e ++ extra /\ (extra = [] \/ extra = ["END"]).

Lemma parse_ecp_element_d : forall e x d, d2k_ecp_el_gen e -> el_rel e x -> ~ In (fst e) (map fst d) ->
  d2k_parse_ecp_element x d = inr (d ++ [d2k_ecp_read_el e]).
Proof.
  intros e x d He [extra [-> Hex]] Hd. destruct (gen_parts e He) as [Hz [Hn [Hne [Hok [Hdok _]]]]].
  assert (Hlow : d2k_lower_ok (map pot_l (snd (snd e)))).
  { destruct e as [z [n pots]]. unfold d2k_ecp_el_gen in He. cbn [fst snd]. apply He. }
  destruct e as [z [n pots]]. cbn [fst snd] in *.
  destruct (lower_order pots Hne Hok Hlow) as [top [rest [Eo [Mt [Len [Hoo [Hr Hm]]]]]]].
  destruct (nelec_line_class z n Hz Hn) as [_ Ee]. destruct (sym_facts z Hz) as [_ [_ [_ Esz]]].
  assert (Hdoo : Forall d2k_pot_ok (top :: rest)).
  { destruct (written_order_ok pots Hne Hok (proj1 Hlow)) as [_ [_ P]]. rewrite Eo in P. apply (Permutation_Forall P), Hdok. }
  unfold d_ecp_el_pruned, d2k_ecp_read_el, el_mx. cbn [fst snd]. rewrite Eo. cbn [app]. unfold d2k_parse_ecp_element.
  rewrite Ee.
  assert (E3 : Nat.ltb (List.length (nelec_line (symz z) n :: concat (map (d_pot_blk (symz z) (zmax (map pot_l pots))) (top :: rest)) ++ extra)) 3 = false).
  { apply Nat.ltb_ge. cbn [map concat List.length]. unfold d_pot_blk at 1. cbn [app List.length]. rewrite !app_length, map_length.
    unfold dprows. rewrite !map_length. inversion Hoo as [|? ? Htop _]; subst.
    destruct (pot_facts top Htop) as [_ [_ [_ [_ [_ [_ [_ Hnt]]]]]]]. destruct (ptrip top); [congruence|]. cbn [List.length]. lia. }
  rewrite E3, Esz. unfold bind at 1. rewrite (existsb_Z_notin z _ Hd).
  rewrite (am_pots z _ (top :: rest) extra [] None Hz Hdoo Hex). unfold bind at 1. cbn [flush_block app].
  rewrite map_length. cbn [map List.length d2k_block_pots]. unfold amb at 1. unfold head_name at 1. rewrite Mt, Z.eqb_refl.
  cbn [d2k_block_am String.eqb Ascii.eqb Bool.eqb]. unfold bind at 1.
  inversion Hoo as [|? ? Htop Hrest]; subst.
  rewrite (block_pots_rest _ _ rest 0 Hrest Hr Hm). unfold bind, ok.
  destruct (read_pot_fields top Htop) as [F1 [F2 F3]]. rewrite F1, F2, F3. unfold d2k_read_pot at 2. rewrite Mt, Z.eqb_refl, Len.
  reflexivity.
Qed.

(* ================================================================== *)
(* 4. the ECP part of the pruned file                                  *)
(* ================================================================== *)
Lemma pot_blk_facts : forall z mx p, (1 <= z <= 118)%Z -> d2k_pot_ok p ->
  Forall (fun l => ecp_line_facts l /\ is_ecp_entry l = false) (d_pot_blk (symz z) mx p).
Proof.
  intros z mx p Hz Hp. unfold d_pot_blk. constructor.
  - destruct (head_line_class z mx p Hz (proj1 Hp)) as [A [B _]]. now split.
  - unfold dprows. rewrite Forall_forall. intros l Hl. apply in_map_iff in Hl. destruct Hl as [r [<- Hr]].
    apply in_map_iff in Hr. destruct Hr as [row [<- Hrow]]. apply in_map_iff in Hrow. destruct Hrow as [t [<- Ht]].
    destruct (pot_rows_ok p Hp t Ht) as [T1 T2]. destruct (row_line_class t T1 T2) as [A [B _]]. now split.
Qed.

Lemma el_pruned_facts : forall e, d2k_ecp_el_gen e ->
  exists body, d_ecp_el_pruned e = nelec_line (symz (fst e)) (fst (snd e)) :: body /\
    Forall (fun l => ecp_line_facts l /\ is_ecp_entry l = false) body /\ 2 <= List.length body.
Proof.
  intros e He. destruct (gen_parts e He) as [Hz [Hn [Hne [Hok [Hdok Hnd]]]]]. destruct e as [z [n pots]]. cbn [fst snd] in *.
  destruct (written_order_ok pots Hne Hok Hnd) as [_ [_ P]].
  pose proof (Permutation_Forall P Hdok) as Hdoo.
  eexists. split; [reflexivity|]. unfold el_mx. cbn [fst snd]. split.
  - apply concat_Forall. rewrite Forall_forall in *. intros b Hb. apply in_map_iff in Hb. destruct Hb as [p [<- Hp]].
    apply pot_blk_facts; [exact Hz | apply Hdoo, Hp].
  - destruct (ecp_written_order pots) as [|top rest] eqn:Eo.
    { apply Permutation_sym, Permutation_nil in P. congruence. }
    inversion Hdoo as [|? ? Htop _]; subst. cbn [map concat]. unfold d_pot_blk at 1. cbn [app List.length].
    rewrite app_length, map_length. unfold dprows. rewrite !map_length.
    destruct (pot_facts top (proj1 Htop)) as [_ [_ [_ [_ [_ [_ [_ Hnt]]]]]]]. destruct (ptrip top); [congruence|]. cbn [List.length]. lia.
Qed.

Definition end_facts : ecp_line_facts "END" /\ is_ecp_entry "END" = false.
Proof. split; [constructor|]; reflexivity. Qed.

Lemma el_shape : forall e x, d2k_ecp_el_gen e -> el_rel e x -> block_shape (fun l => ok (is_ecp_entry l)) x.
Proof.
  intros e x He [extra [-> Hex]]. destruct (gen_parts e He) as [Hz [Hn _]].
  destruct (el_pruned_facts e He) as [body [Eb [Hb _]]]. destruct (nelec_line_class _ _ Hz Hn) as [_ Ee].
  rewrite Eb. exists (nelec_line (symz (fst e)) (fst (snd e))), (body ++ extra). split; [reflexivity|]. split.
  - unfold is_ecp_entry. now rewrite Ee.
  - apply Forall_app. split.
    + rewrite Forall_forall in *. intros l Hl. unfold ok. now rewrite (proj2 (Hb l Hl)).
    + destruct Hex as [->| ->]; repeat constructor.
Qed.

Lemma ecp_elements_d : forall ecps xs d, Forall d2k_ecp_el_gen ecps -> Forall2 el_rel ecps xs -> NoDup (map fst ecps) ->
  (forall z, In z (map fst ecps) -> ~ In z (map fst d)) ->
  d2k_parse_ecp_elements xs d = inr (d ++ d2k_ecp_read ecps).
Proof.
  intros ecps xs d Hel F; revert d Hel; induction F as [|e x ecps xs Hex F IH]; intros d Hel Hnd Hdis.
  - cbn. now rewrite app_nil_r.
  - inversion Hel as [|? ? H1 H2]; subst. cbn [map] in Hnd. inversion Hnd as [|? ? Hnotin Hnd']; subst.
    cbn [d2k_parse_ecp_elements]. rewrite (parse_ecp_element_d e x d H1 Hex); [|apply Hdis; now left]. unfold bind.
    rewrite IH; [| exact H2 | exact Hnd' |].
    + unfold d2k_ecp_read. cbn [map]. rewrite <- app_assoc. reflexivity.
    + intros z Hz. rewrite map_app, in_app_iff. unfold d2k_ecp_read_el at 1. cbn [map In fst]. intros [Hin|[Heq|[]]].
      * apply (Hdis z); [now right | exact Hin].
      * subst z. apply Hnotin, Hz.
Qed.

Definition ecp_body (ecps : list (Z * (Z * list epot))) : list string := flat_map d_ecp_el_pruned ecps ++ ["END"].

Lemma extend_last_rel : forall (ecps : list (Z * (Z * list epot))),
  Forall2 el_rel ecps (extend_last (map d_ecp_el_pruned ecps) ["END"]).
Proof.
  induction ecps as [|e ecps IH]; [constructor|]. destruct ecps as [|e2 ecps].
  - cbn. constructor; [|constructor]. exists ["END"]. split; [reflexivity | now right].
  - change (extend_last (map d_ecp_el_pruned (e :: e2 :: ecps)) ["END"])
      with (d_ecp_el_pruned e :: extend_last (map d_ecp_el_pruned (e2 :: ecps)) ["END"]).
    constructor; [|exact IH]. exists []. split; [now rewrite app_nil_r | now left].
Qed.

(* _parse_ecp_lines on the part that begins with the ECP line *)
Lemma parse_ecp_section : forall ecps, d2k_ecp_gen ecps ->
  d2k_parse_ecp_lines ("ECP" :: ecp_body ecps) [] = inr (d2k_ecp_read ecps).
Proof.
  intros ecps [Hne [Hnd Hel]]. pose proof (extend_last_rel ecps) as F.
  assert (Hsh : Forall (block_shape (fun l => ok (is_ecp_entry l))) (extend_last (map d_ecp_el_pruned ecps) ["END"])).
  { clear Hnd Hne. induction F as [|e x ecps' xs Hex F IH]; [constructor|]. inversion Hel; subst.
    constructor; [now apply (el_shape e x) | now apply IH]. }
  unfold ecp_body. rewrite flat_map_concat_map, <- concat_extend_last by (intros E; apply map_eq_nil in E; congruence).
  unfold d2k_parse_ecp_lines, partition_lines.
  change ("ECP" :: concat (extend_last (map d_ecp_el_pruned ecps) ["END"]))
    with (["ECP"] ++ concat (extend_last (map d_ecp_el_pruned ecps) ["END"])).
  rewrite (part_skip _ true ["ECP"] _ [] []) by (repeat constructor).
  rewrite (part_blocks _ _ _ _ Hsh). cbn [flush app]. unfold bind.
  cbn [existsb List.length Nat.ltb Nat.leb orb].
  rewrite existsb_false by (intros b Hb; rewrite Forall_forall in Hsh; apply (block_shape_len _ b (Hsh b Hb))).
  cbn [andb negb Nat.eqb]. unfold ok.
  cbn [d2k_parse_ecp_elements d2k_parse_ecp_element]. change (match_ecp_entry "ECP") with (@None (string * Z)). cbv iota.
  unfold bind at 1. unfold ok at 1.
  rewrite (ecp_elements_d ecps _ [] Hel F Hnd); [reflexivity|]. intros z _ [].
Qed.

(* _parse_ecp_lines on the electron part: nothing *)
Lemma parse_ecp_electron : forall bsname els d, d2k_ok bsname els ->
  d2k_parse_ecp_lines (flat_map (d_sec bsname) els) d = inr d.
Proof.
  intros bsname els d H. pose proof (secs_inner bsname els H) as Hin. destruct (secs_nonempty bsname els H) as [l0 [rest [E _]]].
  unfold d2k_parse_ecp_lines, partition_lines. rewrite part_nomatch.
  2:{ rewrite E. discriminate. }
  2:{ rewrite Forall_forall in *. intros l Hl. unfold ok. now rewrite (proj1 (proj2 (Hin l Hl))). }
  rewrite E. unfold bind. cbn [existsb List.length Nat.ltb Nat.leb orb andb negb Nat.eqb]. unfold ok.
  cbn [d2k_parse_ecp_elements d2k_parse_ecp_element]. unfold bind, ok.
  assert (E0 : is_ecp_entry l0 = false).
  { rewrite Forall_forall in Hin. apply (Hin l0). rewrite E. now left. }
  unfold is_ecp_entry in E0. destruct (match_ecp_entry l0); [discriminate | reflexivity].
Qed.

Lemma ecp_body_facts : forall ecps, d2k_ecp_gen ecps ->
  Forall ecp_line_facts (ecp_body ecps) /\ exists l1 l2 rest, ecp_body ecps = l1 :: l2 :: rest.
Proof.
  intros ecps [Hne [_ Hel]]. unfold ecp_body. split.
  - apply Forall_app. split; [|constructor; [apply end_facts | constructor]].
    rewrite Forall_forall in *. intros l Hl. apply in_flat_map in Hl. destruct Hl as [e [He Hl]].
    destruct (gen_parts e (Hel e He)) as [Hz [Hn _]].
    destruct (el_pruned_facts e (Hel e He)) as [body [Eb [Hb _]]]. rewrite Eb in Hl. destruct Hl as [<-|Hl].
    + apply (nelec_line_class _ _ Hz Hn).
    + rewrite Forall_forall in Hb. apply (Hb l Hl).
  - destruct ecps as [|e ecps]; [congruence|]. inversion Hel as [|? ? He _]; subst.
    destruct (el_pruned_facts e He) as [body [Eb [_ Hlen]]]. cbn [flat_map]. rewrite Eb.
    destruct body as [|b1 body]; [cbn in Hlen; lia|]. cbn [app]. eexists _, _, _. reflexivity.
Qed.

(* the partition at the single ECP line *)
Lemma part_one_match : forall cond A h B, A <> [] -> Forall (fun l => cond l = inr false) A -> cond h = inr true ->
  Forall (fun l => cond l = inr false) B -> part_go cond true (A ++ h :: B) [] [] = inr [A; h :: B].
Proof.
  intros cond A h B Hne HA Hh HB. rewrite (part_skip cond true A (h :: B) [] [] HA). cbn [app].
  rewrite (part_go_match _ _ _ _ _ _ Hh). rewrite <- (app_nil_r B) at 1. rewrite (part_skip cond true B [] [h] _ HB).
  cbn [part_go flush app]. destruct A; [congruence | reflexivity].
Qed.

(* ================================================================== *)
(* 5. the whole file                                                   *)
(* ================================================================== *)
Lemma expected_keys_d : forall els, map fst (d2k_expected els) = map fst els.
Proof. intros els. unfold d2k_expected. rewrite map_map. reflexivity. Qed.
Lemma ecp_read_keys : forall ecps, map fst (d2k_ecp_read ecps) = map fst ecps.
Proof. intros ecps. unfold d2k_ecp_read. rewrite map_map. reflexivity. Qed.

Lemma read_all_parts_lines : forall sph bsname els ecps, d2k_all_gen bsname els ecps ->
  d2k_read_all_parts (d_all_lines sph bsname els ++ d_ecp_all_lines ecps) =
    inr (d2k_all_order els ecps, d2k_expected els, d2k_ecp_read ecps).
Proof.
  intros sph bsname els ecps [H1 H2]. destruct (ecp_body_facts ecps H2) as [Hbf [b1 [b2 [brest Eb]]]].
  unfold d2k_read_all_parts. fold (prune1 (d_all_lines sph bsname els ++ d_ecp_all_lines ecps)).
  rewrite (prune1_all sph bsname els _ H1), (prune1_ecp_all_d ecps H2). fold (ecp_body ecps).
  destruct (secs_nonempty bsname els H1) as [l0 [rest [E Hlen]]].
  destruct (flat_map (d_sec bsname) els ++ "ECP" :: ecp_body ecps) as [|x y] eqn:EL; [rewrite E in EL; discriminate|].
  rewrite <- EL. clear EL x y.
  assert (HT : Forall tail_line ("ECP" :: ecp_body ecps)).
  { constructor; [split; reflexivity|]. rewrite Forall_forall in *. intros l Hl. destruct (Hbf l Hl). now split. }
  rewrite (read_orbitals_tail bsname els _ H1 HT). unfold bind at 1.
  unfold partition_lines. rewrite part_one_match.
  2:{ rewrite E. discriminate. }
  2:{ pose proof (secs_inner bsname els H1) as Hin. rewrite Forall_forall in *. intros l Hl. unfold ok. now rewrite (proj1 (Hin l Hl)). }
  2:{ reflexivity. }
  2:{ rewrite Forall_forall in *. intros l Hl. unfold ok. now rewrite (elf_start l (Hbf l Hl)). }
  assert (E3 : existsb (fun b : list string => Nat.ltb (List.length b) 3) [flat_map (d_sec bsname) els; "ECP" :: ecp_body ecps] = false).
  { cbn [existsb]. rewrite E, Eb. cbn [List.length]. destruct rest as [|r1 [|r2 rest']]; cbn in Hlen; try lia. reflexivity. }
  assert (El : last (flat_map (d_sec bsname) els ++ "ECP" :: ecp_body ecps) "" = "END").
  { unfold ecp_body. change ("ECP" :: flat_map d_ecp_el_pruned ecps ++ ["END"]) with (("ECP" :: flat_map d_ecp_el_pruned ecps) ++ ["END"]).
    rewrite app_assoc. apply last_last. }
  unfold bind. rewrite E3. cbn [andb negb Nat.eqb]. unfold ok.
  cbn [d2k_ecp_sections]. unfold bind. rewrite (parse_ecp_electron bsname els [] H1), (parse_ecp_section ecps H2).
  unfold d2k_end_check. rewrite El. cbn [String.eqb Ascii.eqb Bool.eqb]. unfold ok.
  rewrite expected_keys_d, ecp_read_keys. reflexivity.
Qed.

Lemma inr_inj : forall (A B : Type) (x y : B), @inr A B x = inr y -> x = y.
Proof. intros A B x y H. congruence. Qed.

Lemma d2k_all_roundtrip_parts : d2k_all_roundtrip_parts_stmt.
Proof.
  intros sph bsname els ecps t H E. rewrite (write_all_lines_d sph bsname els ecps H) in E. apply inr_inj in E. subst t.
  rewrite splitlines_unlines.
  - apply read_all_parts_lines, H.
  - apply Forall_app. split; [apply d_all_lines_good, H | apply d_ecp_all_lines_good, H].
Qed.

Lemma d2k_all_roundtrip_gen : d2k_all_roundtrip_gen_stmt.
Proof.
  intros sph bsname els ecps H. destruct (d2k_all_write_total sph bsname els ecps H) as [t Et].
  unfold d2k_roundtrip_all, d2k_read_all. rewrite Et. unfold bind at 1.
  rewrite (d2k_all_roundtrip_parts sph bsname els ecps t H Et). reflexivity.
Qed.

(* ================================================================== *)
(* 6. contiguous momenta: nothing is renumbered                        *)
(* ================================================================== *)
Lemma contiguous_max : forall ls, ls <> [] -> d2k_contiguous ls -> zmax ls = (Z.of_nat (List.length ls) - 1)%Z.
Proof.
  intros ls Hne [Hnd Hb]. destruct (zmax_facts ls Hne) as [Zin Zge].
  assert (Hincl : incl (zrange 0 (List.length ls)) ls).
  { apply NoDup_length_incl; [exact Hnd | rewrite zrange_length; lia|].
    intros x Hx. apply zrange_In. rewrite Forall_forall in Hb. specialize (Hb x Hx). lia. }
  assert (Hn : (0 < Z.of_nat (List.length ls))%Z) by (destruct ls; [congruence | cbn [List.length]; lia]).
  assert (Hlast : In (Z.of_nat (List.length ls) - 1)%Z ls) by (apply Hincl, zrange_In; lia).
  rewrite Forall_forall in Hb. specialize (Hb _ Zin). specialize (Zge _ Hlast). lia.
Qed.

Lemma d2k_ecp_read_contiguous : d2k_ecp_read_contiguous_stmt.
Proof.
  intros ecps H. unfold d2k_ecp_read, d2k_ecp_expected. apply map_ext_in. intros e He.
  rewrite Forall_forall in H. destruct (H e He) as [Hg Hc]. destruct (gen_parts e Hg) as [_ [_ [Hne [Hok [_ Hnd]]]]].
  unfold d2k_ecp_read_el. do 2 f_equal. destruct e as [z [n pots]]. cbn [fst snd] in *.
  destruct (written_order_ok pots Hne Hok Hnd) as [_ [Hoo _]].
  assert (Hls : map pot_l pots <> []) by (destruct pots; [congruence | discriminate]).
  pose proof (contiguous_max _ Hls Hc) as Hmax. rewrite map_length in Hmax.
  apply map_ext_in. intros p Hp. rewrite Forall_forall in Hoo. destruct (pot_ok_single p (Hoo p Hp)) as [Hs _].
  unfold d2k_read_pot, d2k_expected_pot. destruct (Z.eqb_spec (pot_l p) (zmax (map pot_l pots))) as [Eq|Eq]; [|reflexivity].
  unfold single_am in Hs. rewrite Hs, Eq, Hmax. reflexivity.
Qed.

Lemma all_ok_gen : forall bsname els ecps, d2k_all_ok bsname els ecps -> d2k_all_gen bsname els ecps.
Proof.
  intros bsname els ecps [H1 [Hne [Hnd Hel]]]. split; [exact H1|]. split; [exact Hne|]. split; [exact Hnd|].
  rewrite Forall_forall in *. intros e He. apply (Hel e He).
Qed.

Lemma d2k_all_roundtrip_exact : d2k_all_roundtrip_stmt.
Proof.
  intros sph bsname els ecps H. rewrite (d2k_all_roundtrip_gen sph bsname els ecps (all_ok_gen _ _ _ H)).
  unfold d2k_all_read, d2k_all_expected. destruct H as [_ [_ [_ Hel]]]. now rewrite (d2k_ecp_read_contiguous ecps Hel).
Qed.

Lemma zrange_NoDup : forall n lo, NoDup (zrange lo n).
Proof.
  induction n as [|n IH]; intros lo; [constructor|]. cbn [zrange]. constructor; [|apply IH].
  intros Hin. apply zrange_In_inv in Hin. lia.
Qed.

Lemma d2k_contiguous_perm : d2k_contiguous_perm_stmt.
Proof.
  intros ls lmax P. split.
  - apply (Permutation_NoDup (Permutation_sym P)), zrange_NoDup.
  - rewrite Forall_forall. intros x Hx. pose proof (zrange_In_inv _ _ _ (Permutation_in _ P Hx)) as Hr.
    rewrite (Permutation_length P), zrange_length. lia.
Qed.

(* ---------- no ECP at all ---------- *)
Lemma match_nonempty : forall (A B : Type) (L : list A) (a b : B), L <> [] -> match L with [] => a | _ :: _ => b end = b.
Proof. intros A B [|x L] a b H; [congruence | reflexivity]. Qed.

Lemma d2k_all_noecp : d2k_all_noecp_stmt.
Proof.
  intros sph bsname els H. unfold d2k_roundtrip_all, d2k_write_all. rewrite (write_electron_lines sph bsname els H).
  unfold bind at 1. cbn [d2k_write_ecp]. unfold bind at 1. unfold ok at 1 2. unfold bind at 1. rewrite sapp_nil_r.
  rewrite (splitlines_unlines _ (d_all_lines_good sph bsname els H)).
  unfold d2k_read_all, d2k_read_all_parts. fold (prune1 (d_all_lines sph bsname els)).
  rewrite <- (app_nil_r (d_all_lines sph bsname els)), (prune1_all sph bsname els [] H).
  change (prune1 []) with (@nil string). rewrite app_nil_r.
  destruct (secs_nonempty bsname els H) as [l0 [rest [E Hlen]]].
  rewrite (match_nonempty _ _ (flat_map (d_sec bsname) els)) by (rewrite E; discriminate).
  rewrite <- (app_nil_r (flat_map (d_sec bsname) els)) at 1. rewrite (read_orbitals_tail bsname els [] H (Forall_nil _)).
  pose proof (secs_inner bsname els H) as Hin.
  unfold partition_lines. rewrite part_nomatch.
  2:{ rewrite E. discriminate. }
  2:{ rewrite Forall_forall in *. intros l Hl. unfold ok. now rewrite (proj1 (Hin l Hl)). }
  assert (E3 : Nat.ltb (List.length (flat_map (d_sec bsname) els)) 3 = false).
  { apply Nat.ltb_ge. rewrite E. cbn [List.length]. lia. }
  unfold bind. cbn [existsb]. rewrite E3. cbn [orb andb negb Nat.eqb]. unfold ok. cbn [d2k_ecp_sections]. unfold bind.
  rewrite (parse_ecp_electron bsname els [] H). unfold d2k_end_check.
  assert (Hl : In (last (flat_map (d_sec bsname) els) "") (flat_map (d_sec bsname) els)) by (apply last_in; rewrite E; discriminate).
  rewrite Forall_forall in Hin. destruct (Hin _ Hl) as [_ [_ Hne]].
  destruct (String.eqb_spec (last (flat_map (d_sec bsname) els) "") "END") as [Eq|Eq]; [congruence | reflexivity].
Qed.

(* ================================================================== *)
(* 7. the conditions that cannot be dropped, and a concrete instance   *)
(* ================================================================== *)
Lemma cxa_ok : d2k_ok "x" cxa_els.
Proof. unfold d2k_ok, cxa_els, cx_s. solve_ok. Qed.

Lemma gap_gen : forall ls, ls <> [] -> Forall (fun l => (0 <= l < 25)%Z) ls -> d2k_lower_ok ls -> d2k_ecp_gen (gap_ecp ls).
Proof.
  intros ls Hne Hr Hl. unfold d2k_ecp_gen, gap_ecp. split; [discriminate|]. split; [repeat constructor; intros []|].
  constructor; [|constructor]. unfold d2k_ecp_el_gen. split; [lia|]. split; [lia|].
  split; [destruct ls; [congruence | discriminate]|]. split.
  - rewrite Forall_forall in *. intros p Hp. apply in_map_iff in Hp. destruct Hp as [l [<- Hlin]]. split.
    + apply gap_pot_ok, Hr, Hlin.
    + cbn. repeat constructor. lia.
  - now rewrite gap_pots_l.
Qed.

Lemma d2k_ecp_gap_counterexample : d2k_ecp_gap_counterexample_stmt.
Proof.
  split; [|split; [|split]].
  - split; [exact cxa_ok|]. apply gap_gen; [discriminate | repeat constructor; lia|].
    split; [repeat constructor; cbn [In]; intuition discriminate|]. repeat constructor; cbn; lia.
  - intros [_ H]. inversion H as [|? ? _ H1]; subst. inversion H1 as [|? ? _ H2]; subst. inversion H2 as [|? ? H3 _]; subst. cbn in H3. lia.
  - vm_compute. reflexivity.
  - vm_compute. reflexivity.
Qed.

Lemma d2k_ecp_single : d2k_ecp_single_stmt.
Proof.
  split; [|split; vm_compute; reflexivity].
  split; [exact cxa_ok|]. apply gap_gen; [discriminate | repeat constructor; lia|].
  split; [repeat constructor; intros []|]. repeat constructor.
Qed.

Lemma d2k_ecp_gap_below : d2k_ecp_gap_below_stmt.
Proof.
  split; [|vm_compute; reflexivity].
  intros [_ H]. inversion H as [|? ? _ H1]; subst. inversion H1 as [|? ? H2 _]; subst. cbn in H2. destruct H2 as [H2|H2]; [discriminate | lia].
Qed.

Lemma d2k_ecp_dup : d2k_ecp_dup_stmt.
Proof. vm_compute. reflexivity. Qed.
Lemma d2k_ecp_only : d2k_ecp_only_stmt.
Proof. vm_compute. reflexivity. Qed.
Lemma d2k_ecp_negr : d2k_ecp_negr_stmt.
Proof. vm_compute. reflexivity. Qed.
Lemma d2k_ecp_noterm : d2k_ecp_noterm_stmt.
Proof. vm_compute. reflexivity. Qed.
Lemma d2k_ecp_nopot : d2k_ecp_nopot_stmt.
Proof. vm_compute. reflexivity. Qed.
Lemma d2k_ecp_twocols : d2k_ecp_twocols_stmt.
Proof. vm_compute. reflexivity. Qed.
Lemma d2k_ecp_marker : d2k_ecp_marker_stmt.
Proof. vm_compute. reflexivity. Qed.

Ltac solve_pot :=
  split; [unfold ecp_pot_ok; cbn [p_am p_rexp p_gexp p_coef];
          split; [eexists; split; [reflexivity | lia]|]; split; [discriminate|]; split; [reflexivity|];
          split; [eexists; split; reflexivity|]; split; repeat constructor
         | cbn [p_rexp]; repeat constructor; lia].

Example d2k_ecp_example : d2k_ecp_example_stmt.
Proof.
  assert (Hok : d2k_all_ok "LANL2DZ" exa_els exa_ecps).
  { split; [unfold d2k_ok, exa_els; solve_ok|].
    unfold d2k_ecp_ok, exa_ecps. split; [discriminate|]. split; [repeat constructor; intros []|].
    constructor; [|constructor]. split.
    - unfold d2k_ecp_el_gen. split; [lia|]. split; [lia|]. split; [discriminate|]. split.
      + constructor; [solve_pot|]. constructor; [solve_pot|]. constructor; [solve_pot | constructor].
      + split; [repeat constructor; cbn [In]; intuition discriminate|]. cbn. repeat constructor; lia.
    - cbn [fst snd]. split; [repeat constructor; cbn [In]; intuition discriminate|]. cbn. repeat constructor; lia. }
  split; [exact Hok|]. split; [vm_compute; reflexivity|]. split; [vm_compute; reflexivity|].
  rewrite (d2k_all_roundtrip_exact false "LANL2DZ" exa_els exa_ecps Hok). f_equal; vm_compute; reflexivity.
Qed.

Print Assumptions d2k_all_write_total.
Print Assumptions d2k_all_roundtrip_gen.
Print Assumptions d2k_all_roundtrip_parts.
Print Assumptions d2k_ecp_read_contiguous.
Print Assumptions d2k_all_roundtrip_exact.
Print Assumptions d2k_contiguous_perm.
Print Assumptions d2k_ecp_no_number_lost.
Print Assumptions d2k_all_noecp.
Print Assumptions d2k_ecp_gap_counterexample.
Print Assumptions d2k_ecp_single.
Print Assumptions d2k_ecp_gap_below.
Print Assumptions d2k_ecp_dup.
Print Assumptions d2k_ecp_only.
Print Assumptions d2k_ecp_negr.
Print Assumptions d2k_ecp_noterm.
Print Assumptions d2k_ecp_nopot.
Print Assumptions d2k_ecp_twocols.
Print Assumptions d2k_ecp_marker.
Print Assumptions d2k_ecp_example.
