(* C05: basis names and element selection of get_basis_plain.  Proofs only; statements in ComposeDefs.v. *)
From BSE Require Import Model.Val Model.Elements Model.Compose Model.Index Gen.GenApi Proofs.ComposeDefs Proofs.ComposeSpec.

Lemma name_case_insensitive : name_case_insensitive_stmt.
Proof. intros n1 n2 H. unfold transform_basis_name. rewrite H. reflexivity. Qed.

Lemma name_spelling : name_spelling_stmt.
Proof.
  intros d n1 n2 ver sel H. unfold get_basis_plain. rewrite (name_case_insensitive _ _ H). reflexivity.
Qed.

Lemma unknown_name : unknown_name_stmt.
Proof.
  intros d m name ver sel Hm Hn. unfold get_basis_plain. rewrite Hm. cbn [bind ok]. cbv zeta.
  rewrite vfield_dict, Hn. reflexivity.
Qed.

(* ---------- get_basis_plain = common prefix ; selection ---------- *)
Definition gb_prefix (d : datadir) (name : string) (ver : version_arg) : res (list (string * val)) :=
  do index <- match assoc "METADATA.json" d with Some v => ok v | None => fail EOther end;
  let tr := transform_basis_name name in
  do entry <- vfield tr index;
  do version <- match ver with
                | VerNone => do v <- vfield "latest_version" entry; vstr v
                | VerStr s => ok s
                end;
  do versions <- vfield "versions" entry;
  do vinfo <- vfield version versions;
  do relpath <- (do r <- vfield "file_relpath" vinfo; vstr r);
  do b <- compose_table_basis d relpath;
  do bd <- vdict b;
  do disp <- vfield "display_name" entry;
  ok (assoc_set "name" disp bd).

Definition gb_select (bd1 : list (string * val)) (elements : option elsel) : res val :=
  match elements with
  | None => ok (VDict bd1)
  | Some sel =>
    do zs <- expand_elements sel;
    match zs with
    | [] => ok (VDict bd1)
    | _ =>
      let want := map Z_to_string zs in
      do els <- (do e <- vfield "elements" (VDict bd1); vdict e);
      if forallb (fun z => existsb (String.eqb z) (map fst els)) want then
        let sub := filter (fun kv => existsb (String.eqb (fst kv)) want) els in
        do ft <- whole_basis_types sub;
        ok (VDict (assoc_set "function_types" (VStrs ft) (assoc_set "elements" (VDict sub) bd1)))
      else fail EKey
    end
  end.

Lemma gb_eq : forall d name ver el,
  get_basis_plain d name ver el = do bd1 <- gb_prefix d name ver; gb_select bd1 el.
Proof.
  intros d name ver el. unfold get_basis_plain, gb_prefix. cbv zeta.
  repeat (match goal with |- bind ?e _ = _ => destruct e; cbn [bind]; [reflexivity|] end).
  reflexivity.
Qed.

Lemma wbt_filter : forall els ft0 (p : string * val -> bool), whole_basis_types els = inr ft0 ->
  exists ft, whole_basis_types (filter p els) = inr ft.
Proof.
  intros els ft0 p H. unfold whole_basis_types in *. inv_bind H.
  destruct (mapM_filter_ok _ _ _ p _ _ E) as [l2 Hl2]. rewrite Hl2. cbn [bind]. eexists; reflexivity.
Qed.

(* select_spec as stated is false when the metadata file of the table overrides "elements" with entries that are
   not well-formed elements: e.g. metadata "elements": {"1": 0} and selection 1 give
   get_basis_plain .. (Some sel) = inl EType (whole_basis_types fails on the selected sub-dictionary), which is neither
   branch of the statement.  Condition added: the function types of the full result's elements are computable
   (it holds whenever the metadata file has no "elements" key, since compose_table_basis computed them). *)
Lemma select_spec_partial :
  forall d name ver sel zs full fd els ft0,
    get_basis_plain d name ver None = inr full -> full = VDict fd -> assoc "elements" fd = Some (VDict els) ->
    whole_basis_types els = inr ft0 ->
    expand_elements sel = inr zs ->
    match zs with
    | [] => get_basis_plain d name ver (Some sel) = inr full
    | _ =>
      let want := map Z_to_string zs in
      if forallb (fun z => existsb (String.eqb z) (map fst els)) want then
        exists ft, whole_basis_types (filter (fun kv => existsb (String.eqb (fst kv)) want) els) = inr ft /\
          get_basis_plain d name ver (Some sel) =
            inr (VDict (assoc_set "function_types" (VStrs ft)
                          (assoc_set "elements" (VDict (filter (fun kv => existsb (String.eqb (fst kv)) want) els)) fd)))
      else get_basis_plain d name ver (Some sel) = inl EKey
    end.
Proof.
  intros d name ver sel zs full fd els ft0 Hfull -> Hels Hwbt Hexp.
  rewrite gb_eq in Hfull. rewrite gb_eq.
  destruct (gb_prefix d name ver) as [e|bd1]; [discriminate|]. cbn [bind gb_select] in Hfull |- *.
  apply ok_inj in Hfull. inversion Hfull; subst bd1; clear Hfull.
  rewrite Hexp. cbn [bind].
  destruct zs as [|z zs]; [reflexivity|]. cbv zeta.
  rewrite vfield_dict, Hels. cbn [bind ok vdict].
  destruct (forallb _ (map Z_to_string (z :: zs))); [|reflexivity].
  destruct (wbt_filter _ _ (fun kv => existsb (String.eqb (fst kv)) (map Z_to_string (z :: zs))) Hwbt) as [ft Hft].
  exists ft. split; [exact Hft|]. rewrite Hft. reflexivity.
Qed.


(* the added hypothesis of select_spec_partial holds whenever no metadata file overrides "elements" *)
Lemma gb_prefix_inv : forall d name ver bd1, gb_prefix d name ver = inr bd1 ->
  exists relpath bd disp, compose_table_basis d relpath = inr (VDict bd) /\ bd1 = assoc_set "name" disp bd.
Proof.
  intros d name ver bd1 H. unfold gb_prefix in H. cbv zeta in H.
  inv_bind H. inv_bind H. inv_bind H. inv_bind H. inv_bind H. inv_bind H. rename x4 into relpath.
  inv_bind H. rename x4 into b, E5 into Hb. inv_bind H. apply vdict_inr in E5; subst b.
  inv_bind H. apply ok_inj in H. eauto.
Qed.

Lemma full_elements_types : forall d name ver fd els,
  get_basis_plain d name ver None = inr (VDict fd) -> assoc "elements" fd = Some (VDict els) ->
  (forall relpath md, read_json_basis d (meta_path relpath) = inr (VDict md) -> assoc "elements" md = None) ->
  exists ft0, whole_basis_types els = inr ft0.
Proof.
  intros d name ver fd els H Hels Hmeta. rewrite gb_eq in H.
  destruct (gb_prefix d name ver) as [e|bd1] eqn:Hp; [discriminate|]. cbn [bind gb_select] in H.
  apply ok_inj in H. inversion H; subst bd1; clear H.
  apply gb_prefix_inv in Hp. destruct Hp as (relpath & bd & disp & Hc & ->).
  rewrite assoc_set_other in Hels by discriminate.
  apply compose_table_inv in Hc.
  destruct Hc as (top & tels & els' & version & ftypes & md & _ & _ & _ & _ & Hft & Hmd & Hb).
  inversion Hb; subst bd; clear Hb.
  rewrite assoc_set_other in Hels by discriminate. rewrite dict_update_none in Hels by (eapply Hmeta; eauto).
  rewrite !assoc_set_other in Hels by discriminate. rewrite assoc_set_same in Hels.
  inversion Hels; subst els'. eauto.
Qed.

Lemma existsb_same : forall A (p : A -> bool) l1 l2, (forall x, In x l1 <-> In x l2) -> existsb p l1 = existsb p l2.
Proof.
  intros A p l1 l2 H. apply eq_true_iff_eq. rewrite !existsb_exists.
  split; intros (x & Hx & Hp); exists x; split; try assumption; apply H; assumption.
Qed.

Lemma forallb_same : forall A (p : A -> bool) l1 l2, (forall x, In x l1 <-> In x l2) -> forallb p l1 = forallb p l2.
Proof.
  intros A p l1 l2 H. apply eq_true_iff_eq. rewrite !forallb_forall.
  split; intros Hp x Hx; apply Hp; apply H; assumption.
Qed.

Lemma same_map : forall A B (f : A -> B) l1 l2, (forall x, In x l1 <-> In x l2) ->
  forall y, In y (map f l1) <-> In y (map f l2).
Proof.
  intros A B f l1 l2 H y. rewrite !in_map_iff.
  split; intros (x & Hx & Hin); exists x; split; try assumption; apply H; assumption.
Qed.

Lemma select_ext : select_ext_stmt.
Proof.
  intros d name ver s1 s2 z1 z2 H1 H2 Hn1 Hn2 Hsame.
  rewrite !gb_eq. destruct (gb_prefix d name ver) as [e|bd1]; [reflexivity|]. cbn [bind gb_select].
  rewrite H1, H2. cbn [bind].
  destruct z1 as [|a z1]; [congruence|]. destruct z2 as [|b z2]; [congruence|]. cbv zeta.
  destruct (do e <- vfield "elements" (VDict bd1); vdict e) as [e|els]; [reflexivity|]. cbn [bind].
  pose proof (same_map _ _ Z_to_string _ _ Hsame) as Hw.
  rewrite (forallb_same _ _ _ _ Hw).
  rewrite (filter_ext _ _ (fun kv => existsb_same _ (String.eqb (fst kv)) _ _ Hw)).
  reflexivity.
Qed.

Print Assumptions name_case_insensitive.
Print Assumptions select_spec_partial.
Print Assumptions full_elements_types.
Print Assumptions select_ext.
Print Assumptions name_spelling.
Print Assumptions unknown_name.
