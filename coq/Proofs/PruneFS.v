(* prune_shell / prune_shells keep the function set (statements in Proofs/FSDefs.v). *)
From BSE Require Import Model.Val Model.Basis Model.Manip Proofs.FSDefs.

Section PruneFS.
  Variable N : Type.
  Variable is0 : N -> bool.
  Variable same : N -> N -> bool.
  Variable eqN : N -> N -> bool.
  Variables zero_lit one_lit ozero_lit : N.
  Hypothesis Hc : carrier_ok is0 same eqN zero_lit one_lit ozero_lit.

  Notation d := zero_lit.

  (* ---------------- generic list facts ---------------- *)
  Lemma nth_map_in : forall (A B : Type) (f : A -> B) l i da db,
      i < length l -> nth i (map f l) db = f (nth i l da).
  Proof.
    intros A B f l i da db Hi.
    rewrite nth_indep with (d' := f da); [apply map_nth | rewrite map_length; exact Hi].
  Qed.

  Lemma combine_map_r : forall (A B C : Type) (f : B -> C) (xs : list A) l,
      combine xs (map f l) = map (fun p => (fst p, f (snd p))) (combine xs l).
  Proof.
    intros A B C f xs; induction xs as [|x xs IH]; intros [|b l]; cbn; try reflexivity.
    rewrite IH; reflexivity.
  Qed.

  Lemma combine_fst_snd : forall (A B : Type) (l : list (A * B)),
      combine (map fst l) (map snd l) = l.
  Proof.
    intros A B l; induction l as [|[a b] l IH]; cbn; [reflexivity | rewrite IH; reflexivity].
  Qed.

  Lemma in_combine_ex : forall (A B : Type) (xs : list A) (c : list B) x,
      length xs = length c -> In x c -> exists e, In (e, x) (combine xs c).
  Proof.
    intros A B xs; induction xs as [|a xs IH]; intros [|b c] x Hl Hin; cbn in *; try contradiction; try discriminate.
    destruct Hin as [Hx | Hin].
    - subst; exists a; left; reflexivity.
    - destruct (IH c x) as [e He]; [lia | exact Hin | exists e; right; exact He].
  Qed.

  Lemma Forall2_of_nth : forall (A B : Type) (R : A -> B -> Prop) da db l1 l2,
      length l1 = length l2 ->
      (forall j, j < length l1 -> R (nth j l1 da) (nth j l2 db)) -> Forall2 R l1 l2.
  Proof.
    intros A B R da db l1; induction l1 as [|a l1 IH]; intros [|b l2] Hl H; cbn in *; try discriminate.
    - constructor.
    - constructor.
      + apply (H 0); lia.
      + apply IH; [lia | intros j Hj; apply (H (S j)); lia].
  Qed.

  Lemma mapM_nth : forall (A B : Type) (f : A -> res B) l r da db,
      mapM f l = inr r ->
      length r = length l /\ forall j, j < length l -> f (nth j l da) = inr (nth j r db).
  Proof.
    intros A B f l; induction l as [|a l IH]; intros r da db H; cbn in H.
    - inversion H; subst; split; [reflexivity | cbn; intros; lia].
    - unfold bind in H. destruct (f a) as [e|b] eqn:Ea; [discriminate|].
      destruct (mapM f l) as [e|bs] eqn:El; [discriminate|].
      inversion H; subst; clear H.
      destruct (IH bs da db eq_refl) as [IHl IHn].
      split; [cbn; rewrite IHl; reflexivity|].
      intros [|j] Hj; cbn in *; [exact Ea | apply IHn; lia].
  Qed.

  Lemma mapM_Forall2 : forall (A B : Type) (f : A -> res B) l r,
      mapM f l = inr r -> Forall2 (fun a b => f a = inr b) l r.
  Proof.
    intros A B f l; induction l as [|a l IH]; intros r H; cbn in H.
    - inversion H; constructor.
    - unfold bind in H. destruct (f a) as [e|b] eqn:Ea; [discriminate|].
      destruct (mapM f l) as [e|bs] eqn:El; [discriminate|].
      inversion H; subst; constructor; [exact Ea | apply IH; reflexivity].
  Qed.

  (* ---------------- transpose ---------------- *)
  Lemma zipcons_spec : forall (r : list N) (t : list (list N)),
      length r = length t ->
      length (zipcons r t) = length t /\
      forall j, j < length t -> nth j (zipcons r t) [] = nth j r d :: nth j t [].
  Proof.
    induction r as [|x r IH]; intros [|row t] Hl; cbn in *; try discriminate.
    - split; [reflexivity | intros; lia].
    - destruct (IH t) as [IHl IHn]; [lia|].
      split; [rewrite IHl; reflexivity|].
      intros [|j] Hj; [reflexivity | apply IHn; lia].
  Qed.

  Lemma transpose_spec : forall k (M : list (list N)),
      M <> [] -> Forall (fun r => length r = k) M ->
      length (transpose M) = k /\
      forall j, j < k -> nth j (transpose M) [] = map (fun r => nth j r d) M.
  Proof.
    intros k M; induction M as [|r M IH]; intros Hne HF; [congruence|].
    inversion HF as [|? ? Hr HF']; subst.
    destruct M as [|r2 M].
    - cbn [transpose]. split; [apply map_length|].
      intros j Hj. cbn [map]. apply (nth_map_in _ _ (fun x => [x]) r j d []); exact Hj.
    - change (transpose (r :: r2 :: M)) with (zipcons r (transpose (r2 :: M))).
      destruct IH as [IHl IHn]; [discriminate | exact HF' |].
      destruct (zipcons_spec r (transpose (r2 :: M))) as [Zl Zn]; [congruence|].
      split; [congruence|].
      intros j Hj. rewrite Zn by lia. rewrite IHn by lia. reflexivity.
  Qed.

  (* column j of a rectangular matrix, read off its transpose *)
  Lemma transpose_col : forall n (cs : list (list N)) j,
      Forall (fun c => length c = n) cs -> j < length cs ->
      nth j cs [] = map (fun r => nth j r d) (transpose cs).
  Proof.
    intros n cs j HF Hj.
    assert (Hne : cs <> []) by (destruct cs; [cbn in Hj; lia | discriminate]).
    destruct (transpose_spec n cs Hne HF) as [Tl Tn].
    assert (Hcl : length (nth j cs []) = n).
    { rewrite Forall_forall in HF. apply HF. apply nth_In; exact Hj. }
    apply nth_ext with (d := d) (d' := d).
    - rewrite map_length; congruence.
    - intros i Hi. rewrite Hcl in Hi.
      rewrite (nth_map_in _ _ (fun r => nth j r d) (transpose cs) i [] d) by lia.
      rewrite Tn by exact Hi.
      rewrite (nth_map_in _ _ (fun r => nth i r d) cs j [] d) by exact Hj.
      reflexivity.
  Qed.


  (* ---------------- rows tagged with their exponent; groups of tagged rows ---------------- *)
  Definition prow := (N * list N)%type.
  Definition tgroup := (N * list prow)%type.
  Definition untag (g : tgroup) : group N := (fst g, map snd (snd g)).

  Fixpoint tadd (p : prow) (gs : list tgroup) : list tgroup :=
    match gs with
    | [] => [(fst p, [p])]
    | (e, mem) :: t => if same (fst p) e then (e, mem ++ [p]) :: t else (e, mem) :: tadd p t
    end.

  Lemma tadd_untag : forall p gs,
      map untag (tadd p gs) = add_group same (fst p) (snd p) (map untag gs).
  Proof.
    intros p gs; induction gs as [|[e mem] gs IH]; cbn; [reflexivity|].
    destruct (same (fst p) e); cbn.
    - unfold untag at 1; cbn. rewrite map_app. reflexivity.
    - rewrite IH. reflexivity.
  Qed.

  Lemma tfold_untag : forall P acc,
      map untag (fold_left (fun gs p => tadd p gs) P acc) =
      fold_left (fun gs p => add_group same (fst p) (snd p) gs) P (map untag acc).
  Proof.
    induction P as [|p P IH]; intros acc; cbn; [reflexivity|].
    rewrite IH, tadd_untag. reflexivity.
  Qed.

  Definition tbuild (P : list prow) : list tgroup := fold_left (fun gs p => tadd p gs) P [].

  Lemma tbuild_untag : forall P, build_groups same P = map untag (tbuild P).
  Proof. intros P. unfold build_groups, tbuild. rewrite tfold_untag. reflexivity. Qed.

  Lemma tadd_members : forall p gs q,
      In q (flat_map snd (tadd p gs)) <-> q = p \/ In q (flat_map snd gs).
  Proof.
    intros p gs q; induction gs as [|[e mem] gs IH]; cbn.
    - intuition.
    - destruct (same (fst p) e); cbn.
      + rewrite !in_app_iff. cbn. intuition.
      + rewrite !in_app_iff, IH. intuition.
  Qed.

  Definition good (g : tgroup) : Prop :=
    snd g <> [] /\ forall q, In q (snd g) -> same (fst q) (fst g) = true.

  Lemma tadd_good : forall p gs, Forall good gs -> Forall good (tadd p gs).
  Proof.
    intros p gs; induction gs as [|[e mem] gs IH]; intros HF; cbn.
    - constructor; [|constructor]. split; cbn; [discriminate|].
      intros q [Hq|[]]; subst. apply (same_refl Hc).
    - inversion HF as [|? ? [Hg1 Hg2] HF']; subst; cbn in *.
      destruct (same (fst p) e) eqn:Es.
      + constructor; [|exact HF']. split; cbn.
        * destruct mem; discriminate.
        * intros q Hq. apply in_app_iff in Hq. destruct Hq as [Hq|[Hq|[]]]; [apply Hg2; exact Hq | subst; exact Es].
      + constructor; [split; assumption | apply IH; exact HF'].
  Qed.

  Lemma tfold_members : forall P acc q,
      In q (flat_map snd (fold_left (fun gs p => tadd p gs) P acc)) <-> In q P \/ In q (flat_map snd acc).
  Proof.
    induction P as [|p P IH]; intros acc q; cbn; [intuition|].
    rewrite IH, tadd_members. intuition.
  Qed.

  Lemma tfold_good : forall P acc,
      Forall good acc -> Forall good (fold_left (fun gs p => tadd p gs) P acc).
  Proof.
    induction P as [|p P IH]; intros acc HF; cbn; [exact HF|].
    apply IH, tadd_good, HF.
  Qed.

  Lemma tbuild_members : forall P q, In q P <-> exists g, In g (tbuild P) /\ In q (snd g).
  Proof.
    intros P q. unfold tbuild.
    rewrite <- in_flat_map. rewrite tfold_members. cbn. intuition.
  Qed.

  Lemma tbuild_good : forall P, Forall good (tbuild P).
  Proof. intros P. apply tfold_good. constructor. Qed.

  (* ---------------- merging one column of one group ---------------- *)
  Lemma merge_col_spec : forall g v,
      merge_col is0 g = inr v ->
      (forall x, In x g -> is0 x = false -> x = v) /\ In v g.
  Proof.
    intros g v H. unfold merge_col in H.
    destruct (nonzeros is0 g) as [|x [|y l]] eqn:En.
    - destruct g as [|x g]; [discriminate|]. inversion H; subst. split; [|left; reflexivity].
      intros y Hy Hy0.
      assert (Hin : In y (nonzeros is0 (v :: g))).
      { unfold nonzeros. apply filter_In. split; [exact Hy | rewrite Hy0; reflexivity]. }
      rewrite En in Hin. contradiction.
    - inversion H; subst.
      assert (Hv : In v (nonzeros is0 g)) by (rewrite En; left; reflexivity).
      unfold nonzeros in Hv. apply filter_In in Hv. split; [|apply Hv].
      intros y Hy Hy0.
      assert (Hin : In y (nonzeros is0 g)).
      { unfold nonzeros. apply filter_In. split; [exact Hy | rewrite Hy0; reflexivity]. }
      rewrite En in Hin. destruct Hin as [Hin|[]]. congruence.
    - discriminate.
  Qed.

  Lemma merge_col_single : forall x, merge_col is0 [x] = inr x.
  Proof. intros x. unfold merge_col, nonzeros. cbn. destruct (is0 x); reflexivity. Qed.

  Definition gcol (j : nat) (mem : list prow) : list N := map (fun p => nth j (snd p) d) mem.

  Lemma group_col : forall j mem v,
      merge_col is0 (gcol j mem) = inr v ->
      (forall p, In p mem -> is0 (nth j (snd p) d) = false -> nth j (snd p) d = v) /\
      (exists p, In p mem /\ nth j (snd p) d = v).
  Proof.
    intros j mem v H. destruct (merge_col_spec _ _ H) as [H1 H2]. split.
    - intros p Hp Hp0. apply H1; [|exact Hp0]. unfold gcol.
      apply (in_map (fun p => nth j (snd p) d)); exact Hp.
    - unfold gcol in H2. apply in_map_iff in H2. destruct H2 as [p [Hp1 Hp2]]. exists p; split; assumption.
  Qed.

  Lemma merge_group_spec : forall k (g : tgroup) r,
      snd g <> [] -> (forall p, In p (snd g) -> length (snd p) = k) ->
      merge_group is0 (untag g) = inr r ->
      exists newrow, length newrow = k /\
        r = (if all0 is0 newrow then None else Some (fst g, newrow)) /\
        forall j, j < k -> merge_col is0 (gcol j (snd g)) = inr (nth j newrow d).
  Proof.
    intros k [e mem] r Hne Hlen H. unfold untag in H. cbn [fst snd] in *.
    destruct mem as [|p1 [|p2 mem]]; [congruence | |].
    - cbn in H. exists (snd p1). split; [apply Hlen; left; reflexivity|]. split.
      + destruct (all0 is0 (snd p1)); inversion H; reflexivity.
      + intros j Hj. cbn. apply merge_col_single.
    - set (rows := map snd (p1 :: p2 :: mem)) in *.
      assert (Hr : merge_group is0 (e, rows) =
                   (do newrow <- mapM (merge_col is0) (transpose rows);
                    if all0 is0 newrow then ok None else ok (Some (e, newrow)))) by reflexivity.
      rewrite Hr in H. clear Hr. unfold bind in H.
      destruct (mapM (merge_col is0) (transpose rows)) as [er|newrow] eqn:Em; [discriminate|].
      assert (Hrne : rows <> []) by (unfold rows; cbn; discriminate).
      assert (HrF : Forall (fun r => length r = k) rows).
      { apply Forall_forall. intros x Hx. unfold rows in Hx. apply in_map_iff in Hx.
        destruct Hx as [p [Hp1 Hp2]]. subst x. apply Hlen; exact Hp2. }
      destruct (transpose_spec k rows Hrne HrF) as [Tl Tn].
      destruct (mapM_nth _ _ (merge_col is0) (transpose rows) newrow [] d Em) as [Ml Mn].
      exists newrow. split; [congruence|]. split.
      + destruct (all0 is0 newrow); inversion H; reflexivity.
      + intros j Hj. rewrite <- Mn by lia. rewrite Tn by exact Hj.
        unfold rows, gcol. rewrite map_map. reflexivity.
  Qed.

  Lemma merge_groups_spec : forall gs K,
      merge_groups is0 gs = inr K ->
      (forall g, In g gs -> exists r, merge_group is0 g = inr r /\ forall pr, r = Some pr -> In pr K) /\
      (forall pr, In pr K -> exists g, In g gs /\ merge_group is0 g = inr (Some pr)).
  Proof.
    induction gs as [|g gs IH]; intros K H; cbn in H.
    - inversion H; subst. split; [intros g [] | intros pr []].
    - unfold bind in H. destruct (merge_group is0 g) as [e|r] eqn:Eg; [discriminate|].
      destruct (merge_groups is0 gs) as [e|rest] eqn:Er; [discriminate|].
      inversion H; subst; clear H.
      destruct (IH rest eq_refl) as [IH1 IH2]. split.
      + intros g' [Hg|Hg].
        * subst g'. exists r. split; [exact Eg|]. intros pr Hpr; subst r. left; reflexivity.
        * destruct (IH1 g' Hg) as [r' [Hr1 Hr2]]. exists r'. split; [exact Hr1|].
          intros pr Hpr. specialize (Hr2 pr Hpr). destruct r; [right|]; exact Hr2.
      + intros pr Hpr. destruct r as [p0|].
        * destruct Hpr as [Hpr|Hpr].
          -- subst p0. exists g. split; [left; reflexivity | exact Eg].
          -- destruct (IH2 pr Hpr) as [g' [Hg1 Hg2]]. exists g'. split; [right; exact Hg1 | exact Hg2].
        * destruct (IH2 pr Hpr) as [g' [Hg1 Hg2]]. exists g'. split; [right; exact Hg1 | exact Hg2].
  Qed.

  (* ---------------- the kept rows versus the input rows, column by column ---------------- *)
  Definition col (j : nat) (P : list prow) : list (N * N) := map (fun p => (fst p, nth j (snd p) d)) P.

  Lemma kept_char : forall k P K,
      (forall p, In p P -> length (snd p) = k) ->
      merge_groups is0 (build_groups same P) = inr K ->
      (forall tg, In tg (tbuild P) -> exists newrow, length newrow = k /\
          (forall j, j < k -> merge_col is0 (gcol j (snd tg)) = inr (nth j newrow d)) /\
          (all0 is0 newrow = false -> In (fst tg, newrow) K)) /\
      (forall pr, In pr K -> exists tg, In tg (tbuild P) /\ fst pr = fst tg /\ length (snd pr) = k /\
          all0 is0 (snd pr) = false /\
          forall j, j < k -> merge_col is0 (gcol j (snd tg)) = inr (nth j (snd pr) d)).
  Proof.
    intros k P K Hlen H. rewrite tbuild_untag in H.
    destruct (merge_groups_spec _ _ H) as [S1 S2].
    assert (Hg : forall tg, In tg (tbuild P) ->
                 snd tg <> [] /\ forall p, In p (snd tg) -> length (snd p) = k).
    { intros tg Htg. split.
      - pose proof (tbuild_good P) as G. rewrite Forall_forall in G. apply (G tg Htg).
      - intros p Hp. apply Hlen. apply tbuild_members. exists tg. split; assumption. }
    split.
    - intros tg Htg. destruct (Hg tg Htg) as [Hne Hl].
      destruct (S1 (untag tg)) as [r [Hr1 Hr2]]; [apply in_map; exact Htg|].
      destruct (merge_group_spec k tg r Hne Hl Hr1) as [newrow [Nl [Nr Nj]]].
      exists newrow. split; [exact Nl|]. split; [exact Nj|].
      intros Ha. rewrite Ha in Nr. apply Hr2. exact Nr.
    - intros pr Hpr. destruct (S2 pr Hpr) as [g [Hg1 Hg2]].
      apply in_map_iff in Hg1. destruct Hg1 as [tg [Htg1 Htg2]]. subst g.
      destruct (Hg tg Htg2) as [Hne Hl].
      destruct (merge_group_spec k tg (Some pr) Hne Hl Hg2) as [newrow [Nl [Nr Nj]]].
      exists tg. destruct (all0 is0 newrow) eqn:Ea; [discriminate|].
      inversion Nr; subst pr; cbn [fst snd]. repeat split; assumption.
  Qed.

  Lemma all0_nth : forall row j, all0 is0 row = true -> j < length row -> is0 (nth j row d) = true.
  Proof.
    intros row j Ha Hj. unfold all0 in Ha. rewrite forallb_forall in Ha. apply Ha. apply nth_In; exact Hj.
  Qed.

  Lemma prune_core : forall k P K,
      (forall p, In p P -> length (snd p) = k) ->
      merge_groups is0 (build_groups same P) = inr K ->
      (forall pr, In pr K -> length (snd pr) = k) /\
      forall j p, j < k -> is0 (snd p) = false -> (InS same p (col j K) <-> InS same p (col j P)).
  Proof.
    intros k P K Hlen H. destruct (kept_char k P K Hlen H) as [C1 C2].
    pose proof (tbuild_good P) as G. rewrite Forall_forall in G.
    split.
    - intros pr Hpr. destruct (C2 pr Hpr) as [tg [_ [_ [Hl _]]]]. exact Hl.
    - intros j p Hj Hp0. split.
      + intros [q [Hq [Hs1 Hs2]]]. unfold col in Hq. apply in_map_iff in Hq.
        destruct Hq as [pr [Hq Hpr]]. subst q. cbn [fst snd] in *.
        destruct (C2 pr Hpr) as [tg [Htg [Hfst [Hl [Ha Hm]]]]].
        destruct (group_col j (snd tg) _ (Hm j Hj)) as [_ [p' [Hp'1 Hp'2]]].
        exists (fst p', nth j (snd p') d). split; [|split].
        * unfold col. apply (in_map (fun p => (fst p, nth j (snd p) d))).
          apply tbuild_members. exists tg. split; assumption.
        * cbn [fst]. apply (same_trans Hc) with (b := fst pr); [exact Hs1|].
          rewrite Hfst. apply (same_sym Hc). apply (G tg Htg). exact Hp'1.
        * cbn [snd]. rewrite Hp'2. exact Hs2.
      + intros [q [Hq [Hs1 Hs2]]]. unfold col in Hq. apply in_map_iff in Hq.
        destruct Hq as [p0 [Hq Hp0in]]. subst q. cbn [fst snd] in *.
        apply tbuild_members in Hp0in. destruct Hp0in as [tg [Htg Hmem]].
        destruct (C1 tg Htg) as [newrow [Nl [Nm Nk]]].
        assert (Hnz : is0 (nth j (snd p0) d) = false).
        { rewrite <- (is0_same Hc _ _ Hs2). exact Hp0. }
        destruct (group_col j (snd tg) _ (Nm j Hj)) as [Hall _].
        pose proof (Hall p0 Hmem Hnz) as Heq.
        assert (Ha : all0 is0 newrow = false).
        { destruct (all0 is0 newrow) eqn:Ea; [|reflexivity].
          pose proof (all0_nth newrow j Ea) as Hz. rewrite Nl in Hz. specialize (Hz Hj).
          congruence. }
        exists (fst tg, nth j newrow d). split; [|split].
        * unfold col. apply (in_map (fun p => (fst p, nth j (snd p) d)) K (fst tg, newrow)). apply Nk; exact Ha.
        * cbn [fst]. apply (same_trans Hc) with (b := fst p0); [exact Hs1|]. apply (G tg Htg). exact Hmem.
        * cbn [snd]. rewrite <- Heq. exact Hs2.
  Qed.

  (* ---------------- shell level ---------------- *)
  Lemma pair_rows_spec : forall xs ct (r : list prow), pair_rows xs ct = inr r -> r = combine xs ct.
  Proof.
    induction xs as [|x xs IH]; intros ct r H; cbn in H.
    - inversion H; reflexivity.
    - destruct ct as [|row ct]; [discriminate|]. unfold bind in H.
      destruct (pair_rows xs ct) as [e|r'] eqn:E; [discriminate|].
      inversion H; subst. cbn. rewrite (IH ct r' E). reflexivity.
  Qed.

  Lemma combine_map_map : forall (A B C : Type) (f : A -> B) (g : A -> C) l,
      combine (map f l) (map g l) = map (fun x => (f x, g x)) l.
  Proof. intros A B C f g l; induction l as [|a l IH]; cbn; [reflexivity | rewrite IH; reflexivity]. Qed.

  Definition colrel (e' c' e c : list N) : Prop :=
    forall p, is0 (snd p) = false -> (InS same p (combine e' c') <-> InS same p (combine e c)).

  Lemma InS_self : forall p l, In p l -> InS same p l.
  Proof. intros p l Hp. exists p. split; [exact Hp|]. split; apply (same_refl Hc). Qed.

  Lemma prune_shell_strong : forall s s',
      rect s -> has_nonzero is0 s -> prune_shell is0 same s = inr s' ->
      rect s' /\ am s' = am s /\ ftype s' = ftype s /\ length (coefs s') = length (coefs s) /\
      Forall2 (fun c' c => colrel (exps s') c' (exps s) c) (coefs s') (coefs s).
  Proof.
    intros s s' Hrect [c0 [x0 [Hc0 [Hx0 Hx0nz]]]] H.
    unfold prune_shell, bind in H.
    destruct (pair_rows (exps s) (transpose (coefs s))) as [e|P] eqn:Ep; [discriminate|].
    destruct (merge_groups is0 (build_groups same P)) as [e|K] eqn:Em; [discriminate|].
    inversion H; subst s'; clear H. cbn [ftype region am exps coefs].
    apply pair_rows_spec in Ep.
    unfold rect in Hrect.
    set (n := length (exps s)) in *. set (k := length (coefs s)) in *.
    set (ct := transpose (coefs s)) in *.
    assert (Hne : coefs s <> []) by (intro E; rewrite E in Hc0; contradiction).
    destruct (transpose_spec n (coefs s) Hne Hrect) as [Tl Tn]. fold ct in Tl, Tn.
    assert (Hctlen : forall r, In r ct -> length r = k).
    { intros r Hr. destruct (In_nth ct r [] Hr) as [i [Hi Hnth]]. rewrite <- Hnth.
      rewrite Tn by lia. apply map_length. }
    assert (HPlen : forall p, In p P -> length (snd p) = k).
    { intros [e r] Hp. subst P. apply in_combine_r in Hp. apply Hctlen; exact Hp. }
    destruct (prune_core k P K HPlen Em) as [HKlen Hequiv].
    assert (Hin : forall j, j < k -> combine (exps s) (nth j (coefs s) []) = col j P).
    { intros j Hj. rewrite (transpose_col n (coefs s) j Hrect Hj). fold ct.
      rewrite combine_map_r. subst P. reflexivity. }
    (* at least one row survives *)
    assert (HKne : K <> []).
    { destruct (In_nth (coefs s) c0 [] Hc0) as [j0 [Hj0 Hnth0]]. fold k in Hj0.
      assert (Hc0len : length (exps s) = length c0).
      { rewrite Forall_forall in Hrect. rewrite (Hrect c0 Hc0). reflexivity. }
      destruct (in_combine_ex _ _ (exps s) c0 x0 Hc0len Hx0) as [e0 He0].
      rewrite <- Hnth0 in He0. rewrite (Hin j0 Hj0) in He0.
      apply InS_self in He0. apply (Hequiv j0 (e0, x0) Hj0 Hx0nz) in He0.
      destruct He0 as [q [Hq _]]. intro E. rewrite E in Hq. exact Hq. }
    set (rows' := map snd K).
    assert (Hr'ne : rows' <> []).
    { unfold rows'. destruct K; [congruence | discriminate]. }
    assert (Hr'F : Forall (fun r => length r = k) rows').
    { apply Forall_forall. intros r Hr. unfold rows' in Hr. apply in_map_iff in Hr.
      destruct Hr as [pr [Hpr1 Hpr2]]. subst r. apply HKlen; exact Hpr2. }
    destruct (transpose_spec k rows' Hr'ne Hr'F) as [T'l T'n].
    assert (Hout : forall j, j < k -> combine (map fst K) (nth j (transpose rows') []) = col j K).
    { intros j Hj. rewrite T'n by exact Hj. unfold rows'. rewrite map_map.
      rewrite combine_map_map. reflexivity. }
    split; [|split; [reflexivity | split; [reflexivity | split; [exact T'l|]]]].
    - unfold rect. cbn [exps coefs]. apply Forall_forall. intros c Hcin.
      destruct (In_nth _ c [] Hcin) as [j [Hj Hnth]]. rewrite T'l in Hj.
      rewrite <- Hnth, T'n by exact Hj. unfold rows'. rewrite !map_length. reflexivity.
    - apply Forall2_of_nth with (da := []) (db := []); [exact T'l|].
      intros j Hj. rewrite T'l in Hj. unfold colrel. intros p Hp.
      rewrite (Hout j Hj), (Hin j Hj). apply Hequiv; assumption.
  Qed.

  (* ---------------- from columns to function sets ---------------- *)
  Lemma feq_sym : forall f g, feq is0 same f g -> feq is0 same g f.
  Proof.
    intros f g [H1 H2]. split; [symmetry; exact H1|].
    intros p Hp. symmetry. apply H2; exact Hp.
  Qed.

  Lemma feq_trans : forall f g h, feq is0 same f g -> feq is0 same g h -> feq is0 same f h.
  Proof.
    intros f g h [H1 H2] [H3 H4]. split; [congruence|].
    intros p Hp. rewrite (H2 p Hp). apply H4; exact Hp.
  Qed.

  Lemma zip_am_rel : forall e' e cs' cs,
      Forall2 (fun c' c => colrel e' c' e c) cs' cs ->
      forall ams, Forall2 (feq is0 same) (zip_am ams cs' e') (zip_am ams cs e).
  Proof.
    intros e' e cs' cs HF; induction HF as [|c' c cs' cs Hcc HF IH]; intros [|l ams]; cbn; try constructor.
    - split; [reflexivity | exact Hcc].
    - apply IH.
  Qed.

  Lemma cfuns_rel : forall a b : shell N,
      am a = am b ->
      Forall2 (fun c' c => colrel (exps a) c' (exps b) c) (coefs a) (coefs b) ->
      Forall2 (feq is0 same) (shell_cfuns a) (shell_cfuns b).
  Proof.
    intros a b Ham HF. unfold shell_cfuns. rewrite Ham.
    destruct (am b) as [|l [|l2 t]].
    - apply zip_am_rel; exact HF.
    - induction HF as [|c' c cs' cs Hcc HF IH]; cbn; constructor; [|exact IH].
      split; [reflexivity | exact Hcc].
    - apply zip_am_rel; exact HF.
  Qed.

  Lemma Forall2_in_l : forall (A B : Type) (R : A -> B -> Prop) l1 l2 a,
      Forall2 R l1 l2 -> In a l1 -> exists b, In b l2 /\ R a b.
  Proof.
    intros A B R l1 l2 a HF; induction HF as [|x y l1 l2 Hxy HF IH]; intros Hin; [contradiction|].
    destruct Hin as [Hin|Hin].
    - subst. exists y. split; [left; reflexivity | exact Hxy].
    - destruct (IH Hin) as [b [Hb1 Hb2]]. exists b. split; [right; exact Hb1 | exact Hb2].
  Qed.

  Lemma Forall2_in_r : forall (A B : Type) (R : A -> B -> Prop) l1 l2 b,
      Forall2 R l1 l2 -> In b l2 -> exists a, In a l1 /\ R a b.
  Proof.
    intros A B R l1 l2 b HF; induction HF as [|x y l1 l2 Hxy HF IH]; intros Hin; [contradiction|].
    destruct Hin as [Hin|Hin].
    - subst. exists x. split; [left; reflexivity | exact Hxy].
    - destruct (IH Hin) as [a [Ha1 Ha2]]. exists a. split; [right; exact Ha1 | exact Ha2].
  Qed.

  Definition cfrel (a b : shell N) : Prop := Forall2 (feq is0 same) (shell_cfuns a) (shell_cfuns b).

  Lemma FSeq_Forall2 : forall ps shs, Forall2 cfrel ps shs -> FSeq is0 same ps shs.
  Proof.
    intros ps shs HF f. unfold FSin, shells_cfuns. split.
    - intros [g [Hg Hfg]]. apply in_flat_map in Hg. destruct Hg as [a [Ha Hga]].
      destruct (Forall2_in_l _ _ _ _ _ a HF Ha) as [b [Hb Hab]].
      destruct (Forall2_in_l _ _ _ _ _ g Hab Hga) as [h [Hh Hgh]].
      exists h. split; [apply in_flat_map; exists b; split; assumption|].
      apply feq_trans with (g := g); assumption.
    - intros [h [Hh Hfh]]. apply in_flat_map in Hh. destruct Hh as [b [Hb Hhb]].
      destruct (Forall2_in_r _ _ _ _ _ b HF Hb) as [a [Ha Hab]].
      destruct (Forall2_in_r _ _ _ _ _ h Hab Hhb) as [g [Hg Hgh]].
      exists g. split; [apply in_flat_map; exists a; split; assumption|].
      apply feq_trans with (g := h); [exact Hfh | apply feq_sym; exact Hgh].
  Qed.

  Lemma prune_shell_FS : prune_shell_FS_stmt is0 same.
  Proof.
    intros s s' Hrect Hnz _ H.
    destruct (prune_shell_strong s s' Hrect Hnz H) as [R' [Ham [Hft [Hlen HF]]]].
    split; [|repeat split; assumption].
    apply FSeq_Forall2. constructor; [|constructor].
    apply cfuns_rel; assumption.
  Qed.

  (* ---------------- totality on pairwise distinct exponents ---------------- *)
  Fixpoint PW (xs : list N) : Prop :=
    match xs with
    | [] => True
    | x :: t => (forall y, In y t -> same y x = false) /\ PW t
    end.

  Lemma distinct_PW : forall xs,
      (forall i j x y, nth_error xs i = Some x -> nth_error xs j = Some y -> i <> j -> same x y = false) ->
      PW xs.
  Proof.
    induction xs as [|x xs IH]; intros H; cbn; [exact I|]. split.
    - intros y Hy. apply In_nth_error in Hy. destruct Hy as [m Hm].
      apply (H (S m) 0 y x); [exact Hm | reflexivity | lia].
    - apply IH. intros i j a b Ha Hb Hij. apply (H (S i) (S j) a b); [exact Ha | exact Hb | lia].
  Qed.

  Lemma add_group_fresh : forall x row (gs : list (group N)),
      (forall g, In g gs -> same x (fst g) = false) ->
      add_group same x row gs = gs ++ [(x, [row])].
  Proof.
    intros x row gs; induction gs as [|[e rows] gs IH]; intros H; cbn; [reflexivity|].
    pose proof (H (e, rows) (or_introl eq_refl)) as He. cbn [fst] in He. rewrite He. rewrite IH; [reflexivity|].
    intros g Hg. apply H. right; exact Hg.
  Qed.

  Definition single (p : prow) : group N := (fst p, [snd p]).

  Lemma build_distinct : forall (P : list prow) (acc : list (group N)),
      PW (map fst P) ->
      (forall p g, In p P -> In g acc -> same (fst p) (fst g) = false) ->
      fold_left (fun gs p => add_group same (fst p) (snd p) gs) P acc = acc ++ map single P.
  Proof.
    induction P as [|p P IH]; intros acc Hpw Hacc; cbn [fold_left map].
    - rewrite app_nil_r. reflexivity.
    - cbn in Hpw. destruct Hpw as [Hhd Hpw].
      rewrite add_group_fresh by (intros g Hg; apply Hacc; [left; reflexivity | exact Hg]).
      rewrite IH; [rewrite <- app_assoc; reflexivity | exact Hpw |].
      intros q g Hq Hg. apply in_app_iff in Hg. destruct Hg as [Hg|[Hg|[]]].
      + apply Hacc; [right; exact Hq | exact Hg].
      + subst g. cbn [fst]. apply Hhd. apply in_map; exact Hq.
  Qed.

  Lemma merge_singles_ok : forall P : list prow, exists K, merge_groups is0 (map single P) = inr K.
  Proof.
    induction P as [|p P [K IH]]; cbn [map merge_groups].
    - eexists; reflexivity.
    - unfold single at 1. cbn [merge_group]. rewrite IH.
      destruct (all0 is0 (snd p)); cbn; eexists; reflexivity.
  Qed.

  Lemma pair_rows_ok : forall xs (ct : list (list N)),
      length xs <= length ct -> pair_rows xs ct = inr (combine xs ct).
  Proof.
    induction xs as [|x xs IH]; intros [|row ct] Hl; cbn in *; try reflexivity; try lia.
    rewrite IH by lia. reflexivity.
  Qed.

  Lemma map_fst_combine : forall (A B : Type) (xs : list A) (l : list B),
      length xs <= length l -> map fst (combine xs l) = xs.
  Proof.
    intros A B xs; induction xs as [|x xs IH]; intros [|b l] Hl; cbn in *; try reflexivity; try lia.
    rewrite IH by lia. reflexivity.
  Qed.

  Lemma prune_shell_total : prune_shell_total_stmt is0 same.
  Proof.
    intros s Hrect Hne Hd.
    destruct (transpose_spec (length (exps s)) (coefs s) Hne Hrect) as [Tl _].
    unfold prune_shell.
    rewrite pair_rows_ok by lia. cbn [bind].
    unfold build_groups. rewrite build_distinct.
    - cbn [app]. destruct (merge_singles_ok (combine (exps s) (transpose (coefs s)))) as [K HK].
      rewrite HK. eexists; reflexivity.
    - rewrite map_fst_combine by lia. apply distinct_PW. exact Hd.
    - intros p g _ [].
  Qed.

  (* ---------------- prune_shells ---------------- *)
  Lemma colrel_nz : forall e' c' e c,
      colrel e' c' e c -> length e = length c ->
      (exists x, In x c /\ is0 x = false) -> exists x, In x c' /\ is0 x = false.
  Proof.
    intros e' c' e c Hrel Hl [x [Hx Hx0]].
    destruct (in_combine_ex _ _ e c x Hl Hx) as [ex Hex].
    apply InS_self in Hex. apply (Hrel (ex, x) Hx0) in Hex.
    destruct Hex as [[qe qx] [Hq [_ Hs]]]. cbn [fst snd] in *.
    exists qx. split; [apply in_combine_r in Hq; exact Hq|].
    rewrite <- (is0_same Hc _ _ Hs). exact Hx0.
  Qed.

  Lemma nz_cols_has_nonzero : forall s : shell N, nz_cols is0 s -> has_nonzero is0 s.
  Proof.
    intros s [Hne HF]. destruct (coefs s) as [|c cs] eqn:E; [congruence|].
    inversion HF as [|? ? [x [Hx Hx0]] _]; subst.
    exists c, x. rewrite E. split; [left; reflexivity | split; assumption].
  Qed.

  Lemma prune_shell_wf : forall s s',
      wf_shell is0 s -> prune_shell is0 same s = inr s' -> cfrel s' s /\ wf_shell is0 s'.
  Proof.
    intros s s' [Hrect [Hnz Hamok]] H.
    destruct (prune_shell_strong s s' Hrect (nz_cols_has_nonzero s Hnz) H) as [R' [Ham [Hft [Hlen HF]]]].
    split; [apply cfuns_rel; assumption|].
    split; [exact R'|]. split.
    - destruct Hnz as [Hne HFnz]. split.
      + intro E. rewrite E in Hlen. destruct (coefs s); [congruence | discriminate].
      + unfold rect in Hrect. clear Hlen Hne R'.
        induction HF as [|c' c cs' cs Hcc HF IH]; [constructor|].
        inversion Hrect; subst. inversion HFnz; subst.
        constructor; [|apply IH; assumption].
        apply (colrel_nz _ _ _ _ Hcc); [symmetry; assumption | assumption].
    - unfold am_ok in *. rewrite Ham, Hlen. exact Hamok.
  Qed.

  Lemma list_eqb_sound : forall (A : Type) (eqb : A -> A -> bool),
      (forall x y, eqb x y = true -> x = y) -> forall a b, list_eqb eqb a b = true -> a = b.
  Proof.
    intros A eqb Hs; induction a as [|x a IH]; intros [|y b] H; cbn in H; try discriminate; [reflexivity|].
    apply andb_true_iff in H. destruct H as [H1 H2].
    rewrite (Hs x y H1), (IH b H2). reflexivity.
  Qed.

  Lemma shell_eqb_sound : forall a b : shell N, shell_eqb eqN a b = true -> a = b.
  Proof.
    intros [f1 r1 a1 e1 c1] [f2 r2 a2 e2 c2] H. unfold shell_eqb in H. cbn in H.
    repeat (apply andb_true_iff in H; destruct H as [H ?]).
    apply String.eqb_eq in H.
    match goal with X : String.eqb _ _ = true |- _ => apply String.eqb_eq in X end.
    repeat match goal with
           | X : list_eqb Z.eqb _ _ = true |- _ => apply (list_eqb_sound _ Z.eqb) in X; [|intros; apply Z.eqb_eq; assumption]
           | X : list_eqb eqN _ _ = true |- _ => apply (list_eqb_sound _ eqN (eqN_eq Hc)) in X
           | X : list_eqb (list_eqb eqN) _ _ = true |- _ =>
             apply (list_eqb_sound _ (list_eqb eqN) (list_eqb_sound _ eqN (eqN_eq Hc))) in X
           end.
    subst. reflexivity.
  Qed.

  Lemma dedupe_in : forall shs acc s,
      In s (dedupe_shells eqN shs acc) <-> In s acc \/ In s shs.
  Proof.
    induction shs as [|s0 shs IH]; intros acc s; cbn [dedupe_shells].
    - cbn. intuition.
    - destruct (existsb (shell_eqb eqN s0) acc) eqn:Ex.
      + rewrite IH. apply existsb_exists in Ex. destruct Ex as [x [Hx1 Hx2]].
        apply shell_eqb_sound in Hx2. subst x. cbn. intuition. subst. left; assumption.
      + rewrite IH. rewrite in_app_iff. cbn. intuition.
  Qed.

  Lemma FSeq_same_members : forall a b : list (shell N),
      (forall s, In s a <-> In s b) -> FSeq is0 same a b.
  Proof.
    intros a b H f. unfold FSin, shells_cfuns.
    split; intros [g [Hg Hfg]]; exists g; (split; [|exact Hfg]);
      apply in_flat_map in Hg; destruct Hg as [s [Hs Hgs]]; apply in_flat_map; exists s;
      (split; [apply H; exact Hs | exact Hgs]).
  Qed.

  Lemma prune_shells_FS : prune_shells_FS_stmt is0 same eqN.
  Proof.
    intros shs out Hwf H. unfold prune_shells, bind in H.
    destruct (mapM (prune_shell is0 same) shs) as [e|ps] eqn:Em; [discriminate|].
    inversion H; subst out; clear H.
    apply mapM_Forall2 in Em.
    assert (Hps : Forall2 cfrel ps shs /\ Forall (wf_shell is0) ps).
    { unfold wf_shells in Hwf. induction Em as [|s s' shs ps Hss Em IH].
      - split; constructor.
      - inversion Hwf as [|? ? Hwfs Hwft]; subst.
        destruct (prune_shell_wf s s' Hwfs Hss) as [Pa Pb].
        destruct (IH Hwft) as [IH1 IH2]. split; constructor; assumption. }
    destruct Hps as [Hrel Hpswf].
    assert (Hmem : forall s, In s (dedupe_shells eqN ps []) <-> In s ps).
    { intros s. rewrite dedupe_in. cbn. intuition. }
    split.
    - intros f. rewrite (FSeq_same_members _ _ Hmem f). apply FSeq_Forall2; exact Hrel.
    - unfold wf_shells. apply Forall_forall. intros s Hs. apply Hmem in Hs.
      rewrite Forall_forall in Hpswf. apply Hpswf; exact Hs.
  Qed.
End PruneFS.

Print Assumptions prune_shell_FS.
Print Assumptions prune_shell_total.
Print Assumptions prune_shells_FS.
