(* C13: proofs of the statements of AuxDefs.v (logic of AutoAux / AutoABS over exact fractions). *)
From Coq Require Import Sorting.Permutation.
From BSE Require Import Model.Val Gen.GenConsts Model.Aux Proofs.AuxDefs.

(* ====================================================================== *)
(* fractions                                                               *)
(* ====================================================================== *)
Lemma fmul_assoc : forall a b c, fmul (fmul a b) c = fmul a (fmul b c).
Proof. intros [a1 a2] [b1 b2] [c1 c2]. unfold fmul; cbn [fst snd]. f_equal; ring. Qed.

Lemma fmul_pos : forall a b, fpos a -> fpos b -> fpos (fmul a b).
Proof. intros [a1 a2] [b1 b2] [Ha1 Ha2] [Hb1 Hb2]. unfold fpos, fmul in *; cbn [fst snd] in *. split; lia. Qed.

Lemma fleb_fle : forall a b, fleb a b = true <-> fle a b.
Proof. intros a b. unfold fleb, fle. apply Z.leb_le. Qed.

Lemma fleb_false_flt : forall a b, fleb a b = false -> flt_ b a.
Proof. intros a b H. unfold fleb in H. unfold flt_. apply Z.leb_gt in H. lia. Qed.

Lemma fpow_fst : forall r n, fst (fpow r n) = (fst r ^ Z.of_nat n)%Z.
Proof.
  intros r n. induction n as [|n IH]; [reflexivity|].
  cbn [fpow]. unfold fmul at 1. cbn [fst]. rewrite IH, Nat2Z.inj_succ, Z.pow_succ_r by lia. reflexivity.
Qed.
Lemma fpow_snd : forall r n, snd (fpow r n) = (snd r ^ Z.of_nat n)%Z.
Proof.
  intros r n. induction n as [|n IH]; [reflexivity|].
  cbn [fpow]. unfold fmul at 1. cbn [snd]. rewrite IH, Nat2Z.inj_succ, Z.pow_succ_r by lia. reflexivity.
Qed.

(* ====================================================================== *)
(* ladder                                                                  *)
(* ====================================================================== *)
Lemma ladder_nonempty : forall fuel start bound ratio l, ladder fuel start bound ratio = Some l -> l <> [].
Proof.
  intros [|f] start bound ratio l H; cbn [ladder] in H; [discriminate|].
  destruct (fleb bound start); [inversion H; discriminate|].
  destruct (ladder f (fmul start ratio) bound ratio); inversion H; discriminate.
Qed.

Lemma ladder_spec : ladder_spec_stmt.
Proof.
  unfold ladder_spec_stmt.
  induction fuel as [|f IH]; intros start bound ratio l Hs Hb Hr H; cbn [ladder] in H; [discriminate|].
  destruct (fleb bound start) eqn:Eb.
  - inversion H; subst l; clear H. split; [discriminate|]. split; [|split].
    + intros [|i] x Hx; cbn in Hx.
      * inversion Hx; subst x. unfold feq_, fmul; cbn [fpow fst snd]. ring.
      * destruct i; discriminate.
    + intros x Hx. cbn in Hx. subst x. apply fleb_fle. exact Eb.
    + intros i x Hx Hi. cbn in Hi. lia.
  - destruct (ladder f (fmul start ratio) bound ratio) as [r|] eqn:El; [|discriminate].
    inversion H; subst l; clear H.
    pose proof (ladder_nonempty _ _ _ _ _ El) as Hne.
    destruct (IH _ _ _ _ (fmul_pos _ _ Hs Hr) Hb Hr El) as (_ & I2 & I3 & I4).
    split; [discriminate|]. split; [|split].
    + intros [|i] x Hx; cbn [nth_error] in Hx.
      * inversion Hx; subst x. unfold feq_, fmul; cbn [fpow fst snd]. ring.
      * specialize (I2 _ _ Hx). cbn [fpow]. rewrite <- fmul_assoc. exact I2.
    + intros x Hx. apply (I3 x). rewrite <- Hx.
      destruct r as [|y r']; [congruence|]. cbn [last].
      clear. revert y. induction r' as [|z r'' IHr]; intros y; [reflexivity|]. cbn [last]. apply IHr.
    + intros [|i] x Hx Hi; cbn [nth_error] in Hx.
      * inversion Hx; subst x. apply fleb_false_flt. exact Eb.
      * apply (I4 i x Hx). cbn [List.length] in Hi. lia.
Qed.

Lemma ladder_fuel_monotone : ladder_fuel_monotone_stmt.
Proof.
  unfold ladder_fuel_monotone_stmt.
  induction fuel as [|f IH]; intros start bound ratio l H; [discriminate|].
  cbn [ladder] in H. change (ladder (S (S f)) start bound ratio) with
    (if fleb bound start then Some [start]
     else match ladder (S f) (fmul start ratio) bound ratio with Some r => Some (start :: r) | None => None end).
  destruct (fleb bound start); [exact H|].
  destruct (ladder f (fmul start ratio) bound ratio) as [r|] eqn:El; [|discriminate].
  rewrite (IH _ _ _ _ El). exact H.
Qed.

(* reaching the bound after n multiplications is enough *)
Lemma ladder_reaches : forall n start bound ratio,
  fle bound (fmul start (fpow ratio n)) -> exists l, ladder (S n) start bound ratio = Some l.
Proof.
  induction n as [|n IH]; intros start bound ratio H.
  - cbn [ladder]. assert (E : fleb bound start = true).
    { apply fleb_fle. unfold fle, fmul in *. cbn [fpow fst snd] in H. lia. }
    rewrite E. eauto.
  - change (ladder (S (S n)) start bound ratio) with
      (if fleb bound start then Some [start]
       else match ladder (S n) (fmul start ratio) bound ratio with Some r => Some (start :: r) | None => None end).
    destruct (fleb bound start); [eauto|].
    cbn [fpow] in H. rewrite <- fmul_assoc in H. destruct (IH _ _ _ H) as [l Hl]. rewrite Hl. eauto.
Qed.

(* Bernoulli in integers: with p > q > 0, p^n * q >= q^n * (q + n) *)
Lemma bernoulli_Z : forall p q n, (0 < q)%Z -> (q < p)%Z ->
  (q ^ Z.of_nat n * (q + Z.of_nat n) <= p ^ Z.of_nat n * q)%Z.
Proof.
  intros p q n Hq Hp. induction n as [|n IH].
  - change (Z.of_nat 0) with 0%Z. rewrite !Z.pow_0_r. lia.
  - rewrite Nat2Z.inj_succ, !Z.pow_succ_r by lia.
    set (P := (p ^ Z.of_nat n)%Z) in *. set (Q := (q ^ Z.of_nat n)%Z) in *. set (k := Z.of_nat n) in *.
    assert (HQ : (0 < Q)%Z) by (apply Z.pow_pos_nonneg; lia).
    assert (Hk : (0 <= k)%Z) by lia.
    (* p * (P*q) >= (q+1) * Q*(q+k) >= q*Q*(q+k+1) *)
    assert (H1 : ((q + 1) * (Q * (q + k)) <= p * (P * q))%Z).
    { apply Z.mul_le_mono_nonneg; nia. }
    assert (H2 : (q * Q * (q + Z.succ k) <= (q + 1) * (Q * (q + k)))%Z) by nia.
    lia.
Qed.

Lemma ladder_terminates : ladder_terminates_stmt.
Proof.
  unfold ladder_terminates_stmt.
  intros [a b] [c d] [p q] [Ha Hb] [Hc Hd] [Hp Hq] Hlt. cbn [fst snd] in *.
  unfold flt_ in Hlt. cbn [fst snd] in Hlt.
  set (n := Z.to_nat (c * b * q)).
  exists (S n). apply ladder_reaches.
  unfold fle, fmul. cbn [fst snd]. rewrite fpow_fst, fpow_snd. cbn [fst snd].
  pose proof (bernoulli_Z p q n Hq ltac:(lia)) as HB.
  assert (Hn : Z.of_nat n = (c * b * q)%Z) by (unfold n; rewrite Z2Nat.id; nia).
  set (P := (p ^ Z.of_nat n)%Z) in *. set (Q := (q ^ Z.of_nat n)%Z) in *.
  assert (HQ : (0 < Q)%Z) by (apply Z.pow_pos_nonneg; lia).
  assert (HP : (0 < P)%Z) by (apply Z.pow_pos_nonneg; lia).
  rewrite Hn in HB.
  (* Q * (q + c b q) <= P q  ==>  Q * c * b <= P *)
  assert (H1 : (Q * (c * b) <= P)%Z).
  { assert (Q * (1 + c * b) * q <= P * q)%Z by nia. nia. }
  (* goal: c * (b * Q) <= a * P * d *)
  assert (Had : (1 <= a * d)%Z) by nia.
  assert (H2 : (P * 1 <= P * (a * d))%Z) by (apply Z.mul_le_mono_nonneg_l; lia).
  replace (a * P * d)%Z with (P * (a * d))%Z by ring.
  replace (c * (b * Q))%Z with (Q * (c * b))%Z by ring. lia.
Qed.

(* ====================================================================== *)
(* thresholds and tables                                                   *)
(* ====================================================================== *)
Lemma zrange_In' z lo n : (lo <= z < lo + Z.of_nat n)%Z -> In z (zrange lo n).
Proof.
  revert lo. induction n as [|n IH]; intros lo H; [lia|]. cbn [zrange].
  destruct (Z.eq_dec lo z) as [->|Hne]; [now left|]. right. apply IH. lia.
Qed.

Definition thr_check (z : Z) : bool :=
  Z.eqb (by_thresholds autoaux_lval_init autoaux_lval_steps z) (autoaux_lval_spec z) &&
  Z.eqb (by_thresholds autoaux_linc_init autoaux_linc_steps z) (autoaux_linc_spec z) &&
  Z.eqb (by_thresholds autoabs_lval_init autoabs_lval_steps z) (autoabs_lval_spec z).
Lemma thr_sweep : forallb thr_check (zrange 1 118) = true.
Proof. vm_compute. reflexivity. Qed.

Lemma thresholds : thresholds_stmt.
Proof.
  unfold thresholds_stmt. intros z Hz.
  assert (Hin : In z (zrange 1 118)) by (apply zrange_In'; lia).
  pose proof (proj1 (forallb_forall _ _) thr_sweep z Hin) as H. unfold thr_check in H.
  rewrite !andb_true_iff in H. destruct H as [[H1 H2] H3].
  apply Z.eqb_eq in H1, H2, H3. auto.
Qed.

Lemma tables : tables_stmt.
Proof. unfold tables_stmt. repeat split; reflexivity. Qed.

(* ====================================================================== *)
(* autoaux_element                                                         *)
(* ====================================================================== *)
Lemma mapM_fst_id : forall (B : Type) (f : nat -> res (nat * B)) l out,
  (forall a b, f a = inr b -> fst b = a) -> mapM f l = inr out -> map fst out = l.
Proof.
  intros B f. induction l as [|a t IH]; intros out Hf H; cbn [mapM] in H.
  - inversion H; reflexivity.
  - destruct (f a) as [e|b] eqn:Ea; cbn [bind] in H; [discriminate|].
    destruct (mapM f t) as [e|bs] eqn:Et; cbn [bind] in H; [discriminate|].
    inversion H; subst out. cbn [map]. f_equal; [apply Hf; exact Ea|apply IH; auto].
Qed.

Lemma autoaux_caps : autoaux_caps_stmt.
Proof.
  unfold autoaux_caps_stmt. intros fuel z lmax amin aprim aeff out H. cbv zeta.
  unfold autoaux_element in H.
  destruct (couple lmax amin aprim aeff) as [e|[[a_min a_prim] a_eff]]; cbn [bind] in H; [discriminate|].
  cbv zeta in H. eapply mapM_fst_id; [|exact H].
  intros a b Hab. cbv beta in Hab.
  repeat match type of Hab with
         | bind ?x _ = inr _ => destruct x as [?e|?v]; cbn [bind] in Hab; [discriminate|]
         end.
  destruct (ladder _ _ _ _); [|discriminate]. inversion Hab; reflexivity.
Qed.

(* ====================================================================== *)
(* AutoABS                                                                 *)
(* ====================================================================== *)
Lemma abs_groups_cap : abs_groups_cap_stmt.
Proof.
  unfold abs_groups_cap_stmt.
  induction fuel as [|f IH]; intros fsam lmax_aux cands m g H; cbn [abs_groups] in H; [destruct H|].
  destruct (rev (sort_cands cands)) as [|c rest]; [destruct H|].
  destruct (take_group fsam (fst c) rest) as [g0 remaining].
  destruct H as [H|H].
  - subst g. cbn [snd]. apply Nat.le_min_r.
  - eapply IH; exact H.
Qed.

Lemma insert_cand_perm : forall c l, Permutation (insert_cand c l) (c :: l).
Proof.
  intros c. induction l as [|d t IH]; cbn [insert_cand]; [reflexivity|].
  destruct (fleb (fst d) (fst c)); [|reflexivity].
  rewrite IH. apply perm_swap.
Qed.

Lemma sort_cands_perm : forall l, Permutation (sort_cands l) l.
Proof.
  unfold sort_cands.
  assert (G : forall l acc, Permutation (fold_left (fun acc c => insert_cand c acc) l acc) (acc ++ l)).
  { induction l as [|c t IH]; intros acc; cbn [fold_left]; [rewrite app_nil_r; reflexivity|].
    rewrite IH. rewrite insert_cand_perm. cbn [app]. apply Permutation_middle. }
  intros l. rewrite G. reflexivity.
Qed.

Lemma take_group_split : forall fsam first desc g r, take_group fsam first desc = (g, r) -> desc = g ++ r.
Proof.
  intros fsam first. induction desc as [|c t IH]; intros g r H; cbn [take_group] in H.
  - inversion H; reflexivity.
  - destruct (fltb first (fmul fsam (fst c))).
    + destruct (take_group fsam first t) as [g' r'] eqn:E. inversion H; subst g r.
      cbn [app]. f_equal. apply IH. reflexivity.
    + inversion H; reflexivity.
Qed.

Lemma abs_groups_partition_gen : forall fuel fsam lmax_aux cands m, List.length cands < fuel ->
  Permutation (concat (map fst (abs_groups fuel fsam lmax_aux cands m))) cands.
Proof.
  induction fuel as [|f IH]; intros fsam lmax_aux cands m Hlen; [lia|].
  cbn [abs_groups].
  pose proof (sort_cands_perm cands) as Hs.
  assert (Hr : Permutation (rev (sort_cands cands)) cands).
  { rewrite <- Hs at 2. symmetry. apply Permutation_rev. }
  destruct (rev (sort_cands cands)) as [|c rest].
  - apply Permutation_nil in Hr. subst cands. reflexivity.
  - destruct (take_group fsam (fst c) rest) as [g remaining] eqn:Et.
    apply take_group_split in Et.
    cbn [map fst concat].
    assert (Hl : List.length (rev remaining) < f).
    { apply Permutation_length in Hr. cbn [List.length] in Hr. rewrite rev_length.
      subst rest. rewrite app_length in Hr. lia. }
    rewrite (IH fsam lmax_aux (rev remaining) _ Hl).
    rewrite <- Hr. cbn [app]. constructor. subst rest.
    apply Permutation_app_head. symmetry. apply Permutation_rev.
Qed.

Lemma abs_groups_partition : abs_groups_partition_stmt.
Proof.
  unfold abs_groups_partition_stmt. intros fsam lmax_aux cands m.
  apply abs_groups_partition_gen. lia.
Qed.

Print Assumptions ladder_spec.
Print Assumptions ladder_fuel_monotone.
Print Assumptions ladder_terminates.
Print Assumptions thresholds.
Print Assumptions tables.
Print Assumptions autoaux_caps.
Print Assumptions abs_groups_cap.
Print Assumptions abs_groups_partition.
