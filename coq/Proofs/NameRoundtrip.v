(* transform_basis_name / basis_name_from_filename as a law, beyond the shipped index: for every name whose
   lower-case form has no underscore and no '*' directly followed by "sl", file name -> name undoes
   name -> file name.  (Without the second condition the law is false: Properties/C20.v
   name_filename_roundtrip_general_refuted.)  Any length; replace is the fuelled model of str.replace. *)
From BSE Require Import Model.Val Model.Elements.
From Coq Require Import Lia.

Fixpoint good (s : string) : bool :=
  match s with
  | EmptyString => true
  | String a t => negb (Ascii.eqb "_" a) && negb (Ascii.eqb "*" a && str_prefix "sl" t) && good t
  end.

Fixpoint sub1 (c : ascii) (new s : string) : string :=
  match s with
  | EmptyString => EmptyString
  | String a t => if Ascii.eqb c a then new +++ sub1 c new t else String a (sub1 c new t)
  end.

Lemma replace1 c new : forall fuel s, String.length s < fuel -> replace_fuel fuel (String c "") new s = sub1 c new s.
Proof.
  induction fuel as [|f IH]; intros s H; [lia|]. destruct s as [|a t]; cbn [replace_fuel sub1]; [reflexivity|].
  cbn [str_prefix]. rewrite Bool.andb_true_r. cbn [String.length] in H.
  destruct (Ascii.eqb c a); cbn [String.length drop_chars]; f_equal; apply IH; lia.
Qed.

Fixpoint F (s : string) : string :=
  match s with
  | EmptyString => EmptyString
  | String a t => if Ascii.eqb "/" a then "_sl_" +++ F t else if Ascii.eqb "*" a then "_st_" +++ F t else String a (F t)
  end.
Definition G (s : string) : string := sub1 "*" "_st_" s.

Lemma F_ok s : sub1 "*" "_st_" (sub1 "/" "_sl_" s) = F s.
Proof.
  induction s as [|a t IH]; [reflexivity|]. cbn [sub1 F]. destruct (Ascii.eqb "/" a) eqn:E1.
  - change ("_sl_" +++ sub1 "/" "_sl_" t) with (String "_" (String "s" (String "l" (String "_" (sub1 "/" "_sl_" t))))).
    cbn [sub1]. change (Ascii.eqb "*" "_") with false. change (Ascii.eqb "*" "s") with false.
    change (Ascii.eqb "*" "l") with false. cbn iota. rewrite IH. reflexivity.
  - cbn [sub1]. destruct (Ascii.eqb "*" a); rewrite IH; reflexivity.
Qed.

Lemma lower_char_idem c : lower_char (lower_char c) = lower_char c.
Proof. destruct c as [[] [] [] [] [] [] [] []]; reflexivity. Qed.
Lemma lower_char_slash c : Ascii.eqb "/" (lower_char c) = Ascii.eqb "/" c.
Proof. destruct c as [[] [] [] [] [] [] [] []]; reflexivity. Qed.
Lemma lower_char_star c : Ascii.eqb "*" (lower_char c) = Ascii.eqb "*" c.
Proof. destruct c as [[] [] [] [] [] [] [] []]; reflexivity. Qed.

Lemma lower_idem s : lower (lower s) = lower s.
Proof. unfold lower. induction s as [|a t IH]; cbn [smap]; [reflexivity|]. rewrite lower_char_idem, IH. reflexivity. Qed.

Lemma lower_F s : lower (F s) = F (lower s).
Proof.
  unfold lower. induction s as [|a t IH]; cbn [smap F]; [reflexivity|].
  rewrite lower_char_slash, lower_char_star.
  destruct (Ascii.eqb "/" a); [|destruct (Ascii.eqb "*" a)].
  - change ("_sl_" +++ F t) with (String "_" (String "s" (String "l" (String "_" (F t))))). cbn [smap]. rewrite IH. reflexivity.
  - change ("_st_" +++ F t) with (String "_" (String "s" (String "t" (String "_" (F t))))). cbn [smap]. rewrite IH. reflexivity.
  - cbn [smap]. rewrite IH. reflexivity.
Qed.

(* "sl_" cannot open F t unless t itself opens with "sl" *)
Lemma sl_prefix t : str_prefix "sl" t = false -> str_prefix "sl_" (F t) = false.
Proof.
  destruct t as [|b t']; [reflexivity|]. cbn [F].
  destruct (Ascii.eqb "/" b) eqn:E1; [reflexivity|]. destruct (Ascii.eqb "*" b) eqn:E2; [reflexivity|].
  cbn [str_prefix]. destruct (Ascii.eqb "s" b); [|reflexivity]. cbn [andb].
  destruct t' as [|c t'']; [reflexivity|]. cbn [F].
  destruct (Ascii.eqb "/" c) eqn:E3; [reflexivity|]. destruct (Ascii.eqb "*" c) eqn:E4; [reflexivity|].
  cbn [str_prefix]. destruct (Ascii.eqb "l" c); [|reflexivity]. cbn [andb]. intros H. discriminate H.
Qed.

Lemma back_sl : forall s, good s = true -> forall fuel, String.length (F s) < fuel ->
  replace_fuel fuel "_sl_" "/" (F s) = G s.
Proof.
  induction s as [|a t IH]; intros Hg fuel Hf.
  - destruct fuel; reflexivity.
  - cbn [good] in Hg. apply Bool.andb_true_iff in Hg. destruct Hg as [Hg Hgt].
    apply Bool.andb_true_iff in Hg. destruct Hg as [Hu Hs].
    apply Bool.negb_true_iff in Hu. apply Bool.negb_true_iff in Hs.
    unfold G. cbn [F sub1]. cbn [F] in Hf. destruct (Ascii.eqb "/" a) eqn:E1.
    + apply Ascii.eqb_eq in E1. subst a. change (Ascii.eqb "*" "/") with false. cbn iota.
      change ("_sl_" +++ F t) with (String "_" (String "s" (String "l" (String "_" (F t))))) in *.
      cbn [String.length] in Hf. destruct fuel as [|f]; [lia|]. cbn [replace_fuel].
      change (str_prefix "_sl_" (String "_" (String "s" (String "l" (String "_" (F t)))))) with true. cbn iota.
      cbn [String.length drop_chars]. change ("/" +++ ?x) with (String "/" x).
      f_equal. apply (IH Hgt). lia.
    + destruct (Ascii.eqb "*" a) eqn:E2.
      * cbn [andb] in Hs.
        change ("_st_" +++ F t) with (String "_" (String "s" (String "t" (String "_" (F t))))) in *.
        change ("_st_" +++ sub1 "*" "_st_" t) with (String "_" (String "s" (String "t" (String "_" (G t))))).
        cbn [String.length] in Hf.
        destruct fuel as [|[|[|[|f]]]]; try lia.
        cbn [replace_fuel]. cbn [str_prefix]. 
        change (Ascii.eqb "_" "_") with true. change (Ascii.eqb "s" "s") with true.
        change (Ascii.eqb "l" "t") with false. change (Ascii.eqb "_" "s") with false. change (Ascii.eqb "_" "t") with false.
        cbn [andb]. fold (str_prefix "sl_" (F t)).
        rewrite (sl_prefix t Hs). do 4 f_equal. apply (IH Hgt). lia.
      * cbn [String.length] in Hf. destruct fuel as [|f]; [lia|]. cbn [replace_fuel str_prefix]. rewrite Hu. cbn [andb].
        f_equal. apply (IH Hgt). lia.
Qed.

Lemma back_st : forall s, good s = true -> forall fuel, String.length (G s) < fuel ->
  replace_fuel fuel "_st_" "*" (G s) = s.
Proof.
  unfold G. induction s as [|a t IH]; intros Hg fuel Hf.
  - destruct fuel; reflexivity.
  - cbn [good] in Hg. apply Bool.andb_true_iff in Hg. destruct Hg as [Hg Hgt].
    apply Bool.andb_true_iff in Hg. destruct Hg as [Hu _]. apply Bool.negb_true_iff in Hu.
    cbn [sub1] in *. destruct (Ascii.eqb "*" a) eqn:E2.
    + apply Ascii.eqb_eq in E2. subst a.
      change ("_st_" +++ sub1 "*" "_st_" t) with (String "_" (String "s" (String "t" (String "_" (sub1 "*" "_st_" t))))) in *.
      cbn [String.length] in Hf. destruct fuel as [|f]; [lia|]. cbn [replace_fuel].
      change (str_prefix "_st_" (String "_" (String "s" (String "t" (String "_" (sub1 "*" "_st_" t)))))) with true. cbn iota.
      cbn [String.length drop_chars]. change ("*" +++ ?x) with (String "*" x).
      f_equal. apply (IH Hgt). lia.
    + cbn [String.length] in Hf. destruct fuel as [|f]; [lia|]. cbn [replace_fuel str_prefix]. rewrite Hu. cbn [andb].
      f_equal. apply (IH Hgt). lia.
Qed.

Lemma good_lower_noop s : lower (lower s) = lower s.
Proof. apply lower_idem. Qed.

Lemma name_roundtrip_lemma :
  forall n, good (lower n) = true -> basis_name_from_filename (transform_basis_name n) = lower n.
Proof.
  intros n Hg. unfold basis_name_from_filename, transform_basis_name.
  set (s := lower n) in *.
  assert (H1 : replace "/" "_sl_" s = sub1 "/" "_sl_" s) by (unfold replace; apply replace1; lia).
  rewrite H1.
  assert (H2 : replace "*" "_st_" (sub1 "/" "_sl_" s) = F s)
    by (unfold replace; rewrite replace1 by lia; apply F_ok).
  rewrite H2. rewrite lower_F. unfold s at 1. rewrite lower_idem. fold s.
  unfold replace at 2. rewrite (back_sl s Hg) by lia.
  unfold replace. apply (back_st s Hg). lia.
Qed.

(* hence distinct (lower-cased) names never share a file name *)
Lemma filename_injective_lemma :
  forall n m, good (lower n) = true -> good (lower m) = true ->
    transform_basis_name n = transform_basis_name m -> lower n = lower m.
Proof.
  intros n m Hn Hm H. rewrite <- (name_roundtrip_lemma n Hn), <- (name_roundtrip_lemma m Hm), H. reflexivity.
Qed.
