(* Proofs of the statements of Proofs/OrcaDefs.v: the ORCA writer is total on well-formed input and every number of the
   input is a white-space delimited token of some line of the written text (orca_write_total, orca_no_number_lost,
   orca_ecp_no_number_lost); then the counterexamples and the store instances, by computation.
   Sections 1 - 3 are a small toolkit for writers WITHOUT a reader (any matrix of cells, any point places; element names,
   symbols and momentum letters); Proofs/PqsSpec.v and Proofs/GamessUkSpec.v use it too. *)
From BSE Require Import Model.Val Model.Text Model.Num Model.Basis Model.Manip Model.Matrix Gen.GenLut Model.Lut
                        Model.Elements Model.Nwchem Model.NwchemEcp Model.G94 Model.GamessUs Model.Orca
                        Proofs.MatrixDefs Proofs.NwchemDefs Proofs.NwchemEcpDefs Proofs.OrcaDefs Proofs.C20Finite.
From Coq Require Import NArith Nnat Znat Lia Permutation.
From BSE Require Import Proofs.HeaderSpec Proofs.PruneFS Proofs.MatrixSpec Proofs.NwchemSpec Proofs.NwchemEcpSpec
                        Proofs.GamessUsSpec.

(* ================================================================== *)
(* 1. any matrix of printable cells                                    *)
(* ================================================================== *)
(* the lines printing.write_matrix(mat, pps) prints *)
Definition wm_rows (mat : list (list cell)) (pps : list Z) : list string :=
  match mapM (fun row => write_row row pps true "") (transpose mat) with inr r => r | inl _ => [] end.

Definition cells_ok (mat : list (list cell)) : Prop := Forall (Forall cell_ok) mat /\ Forall (Forall cell_ascii) mat.

Lemma fchar_nobd : forall c, fchar c = true -> nobd c = true.
Proof. intros c H. apply nobd_of_ascii; [apply fchar_not_space, H | apply fchar_ascii, H]. Qed.

Lemma Z_to_string_good : forall z, good_line (Z_to_string z).
Proof. intros z. exact (sall_impl fchar nobd _ fchar_nobd (Z_to_string_chars z)). Qed.

Lemma cint_ok : forall z, cell_ok (CInt z) /\ cell_ascii (CInt z).
Proof.
  intros z. split; [exact I|]. unfold cell_ascii. cbn [cell_str].
  exact (sall_impl fchar _ _ fchar_ascii (Z_to_string_chars z)).
Qed.

Lemma cints_ok : forall l, Forall cell_ok (map CInt l) /\ Forall cell_ascii (map CInt l).
Proof.
  intros l. rewrite !Forall_forall. split; intros c Hc; apply in_map_iff in Hc; destruct Hc as [z [<- _]]; apply cint_ok.
Qed.

Lemma cells_ok_cons : forall col mat, Forall cell_ok col /\ Forall cell_ascii col -> cells_ok mat -> cells_ok (col :: mat).
Proof. intros col mat [A B] [C D]. split; constructor; assumption. Qed.

Lemma cells_ok_app : forall a b, cells_ok a -> cells_ok b -> cells_ok (a ++ b).
Proof. intros a b [A B] [C D]. split; apply Forall_app; split; assumption. Qed.

Lemma cells_ok_nil : cells_ok [].
Proof. split; constructor. Qed.

Lemma cells_ok_floats : forall cs, Forall (Forall floating) cs -> cells_ok (map (map CStr) cs).
Proof.
  intros cs H. unfold floating in H. split; rewrite Forall_forall in *; intros col Hcol; apply in_map_iff in Hcol;
    destruct Hcol as [c [<- Hc]]; apply floats_cells, H, Hc.
Qed.

Lemma leftpad_ok : forall mat pps, Forall (Forall cell_ok) mat -> List.length mat <= List.length pps ->
  leftpad_check mat pps = inr tt.
Proof.
  induction mat as [|c mat IH]; intros pps H Hl; [reflexivity|].
  inversion H as [|? ? Hc Hm]; subst. destruct pps as [|pp ppt]; [cbn in Hl; lia|].
  cbn [leftpad_check]. destruct (mapM_find_point c Hc) as [l ->]. unfold bind. apply IH; [exact Hm | cbn in Hl; lia].
Qed.

Lemma wm_facts : forall mat pps, cells_ok mat -> List.length mat <= List.length pps ->
  write_matrix mat pps false = inr (unlines (wm_rows mat pps)) /\
  Forall good_line (wm_rows mat pps) /\
  Forall2 (fun crow line => tokens_acc line "" = map cell_str crow) (transpose mat) (wm_rows mat pps).
Proof.
  intros mat pps [Hok Hasc] Hlen.
  destruct (mapM_total _ _ (fun row => write_row row pps true "") (transpose mat)) as [rows Hrows].
  { pose proof (transpose_Forall _ _ mat Hok) as H1. pose proof (transpose_rowlen _ mat) as H2.
    rewrite Forall_forall in *. intros row Hin. apply write_row_total; [apply H1, Hin|]. rewrite (H2 _ Hin). exact Hlen. }
  assert (Er : wm_rows mat pps = rows) by (unfold wm_rows; rewrite Hrows; reflexivity).
  rewrite Er. pose proof (mapM_Forall2 _ _ _ _ _ Hrows) as F2.
  split; [unfold write_matrix, transpose_cells; rewrite Hrows; reflexivity|]. split.
  - pose proof (Forall_and _ _ _ _ (transpose_Forall _ _ mat Hok) (transpose_Forall _ _ mat Hasc)) as HT.
    refine (Forall2_Forall_r _ _ _ _ _ _ _ _ HT F2). intros row line [H1 H2] Hwr. cbv beta in Hwr.
    apply (write_row_chars nobd eq_refl row pps true "" line); [|reflexivity|exact Hwr].
    rewrite Forall_forall in *. intros c Hcin. apply cell_nobd; [apply H1 | apply H2]; exact Hcin.
  - refine (Forall2_impl_l _ _ _ _ _ _ _ _ (transpose_Forall _ _ mat Hok) F2).
    intros row line Hrow Hw. cbv beta in Hw. exact (write_row_tokens_gen row pps true "" line Hrow (fun _ => eq_refl) Hw).
Qed.

(* every entry of a rectangular matrix is in some row of its transpose *)
Lemma transpose_has_gen : forall (A : Type) (d : A) (M : list (list A)) k c x,
  Forall (fun r => List.length r = k) M -> In c M -> In x c -> exists row, In row (transpose M) /\ In x row.
Proof.
  intros A d M k c x HF Hc Hx.
  assert (Hne : M <> []) by (intros E; rewrite E in Hc; destruct Hc).
  destruct (transpose_spec A d k M Hne HF) as [Tl Tn].
  destruct (In_nth c x d Hx) as [i [Hi Ei]].
  assert (Hck : List.length c = k) by (rewrite Forall_forall in HF; apply HF, Hc).
  exists (nth i (transpose M) []). split; [apply nth_In; lia|].
  rewrite Tn by lia. apply in_map_iff. exists c. split; [exact Ei | exact Hc].
Qed.

(* THE token lemma: every cell of a rectangular matrix of printable cells is a token of one of the printed lines *)
Lemma wm_token : forall mat pps n col c, cells_ok mat -> List.length mat <= List.length pps ->
  Forall (fun r => List.length r = n) mat -> In col mat -> In c col ->
  exists line, In line (wm_rows mat pps) /\ In (cell_str c) (tokens_acc line "").
Proof.
  intros mat pps n col c Hok Hlen HF Hcol Hc.
  destruct (wm_facts mat pps Hok Hlen) as [_ [_ F2]].
  destruct (transpose_has_gen cell (CInt 0) mat n col c HF Hcol Hc) as [row [Hrow Hcr]].
  destruct (Forall2_In_l _ _ _ _ _ row F2 Hrow) as [line [Hline Htok]].
  exists line. split; [exact Hline|]. rewrite Htok. apply in_map, Hcr.
Qed.

(* the same for a string cell / an integer cell of a column *)
Lemma wm_token_str : forall mat pps n l x, cells_ok mat -> List.length mat <= List.length pps ->
  Forall (fun r => List.length r = n) mat -> In (map CStr l) mat -> In x l ->
  exists line, In line (wm_rows mat pps) /\ In x (tokens_acc line "").
Proof.
  intros mat pps n l x Hok Hlen HF Hcol Hx.
  exact (wm_token mat pps n (map CStr l) (CStr x) Hok Hlen HF Hcol (in_map CStr l x Hx)).
Qed.
Lemma wm_token_int : forall mat pps n l z, cells_ok mat -> List.length mat <= List.length pps ->
  Forall (fun r => List.length r = n) mat -> In (map CInt l) mat -> In z l ->
  exists line, In line (wm_rows mat pps) /\ In (Z_to_string z) (tokens_acc line "").
Proof.
  intros mat pps n l z Hok Hlen HF Hcol Hz.
  exact (wm_token mat pps n (map CInt l) (CInt z) Hok Hlen HF Hcol (in_map CInt l z Hz)).
Qed.

(* leftpad_check + write_matrix, as the writers call them *)
Lemma wm_write : forall mat pps, cells_ok mat -> List.length mat <= List.length pps ->
  leftpad_check mat pps = inr tt /\ write_matrix mat pps false = inr (unlines (wm_rows mat pps)).
Proof.
  intros mat pps Hok Hlen. split; [apply leftpad_ok; [apply Hok | exact Hlen] | apply wm_facts; assumption].
Qed.

Lemma wm_good : forall mat pps, cells_ok mat -> List.length mat <= List.length pps -> Forall good_line (wm_rows mat pps).
Proof. intros mat pps Hok Hlen. apply wm_facts; assumption. Qed.

(* ================================================================== *)
(* 2. element names and symbols, momentum letters (finite facts)       *)
(* ================================================================== *)
Definition nsym (z : Z) : string := match element_sym_from_Z z true with inr s => s | inl _ => "" end.
Definition lsym (z : Z) : string := match element_sym_from_Z z false with inr s => s | inl _ => "" end.
Definition el_check (z : Z) : bool :=
  match element_name_from_Z z false, element_sym_from_Z z true, element_sym_from_Z z false with
  | inr n, inr s, inr u => sall nobd (upper n) && sall nobd s && sall nobd (upper u)
  | _, _, _ => false
  end.
Lemma el_sweep : forallb el_check (zrange 1 120) = true.
Proof. vm_compute. reflexivity. Qed.

Lemma el_facts : forall z, (1 <= z <= 120)%Z ->
  element_name_from_Z z false = inr (lname z) /\ element_sym_from_Z z true = inr (nsym z) /\
  element_sym_from_Z z false = inr (lsym z) /\
  good_line (upper (lname z)) /\ good_line (nsym z) /\ good_line (upper (lsym z)).
Proof.
  intros z Hz. assert (Hin : In z (zrange 1 120)) by (apply zrange_In; lia).
  pose proof (proj1 (forallb_forall _ _) el_sweep z Hin) as H. unfold el_check in H. unfold lname, nsym, lsym, good_line.
  destruct (element_name_from_Z z false) as [e|n]; [discriminate|].
  destruct (element_sym_from_Z z true) as [e|s]; [discriminate|].
  destruct (element_sym_from_Z z false) as [e|u]; [discriminate|].
  rewrite !andb_true_iff in H. destruct H as [[H1 H2] H3]. repeat split; assumption.
Qed.

(* the letters of a table *)
Definition letters_check (m : string) (n : nat) : bool :=
  forallb (fun l => match snth (Z.to_nat l) m with Some c => is_alpha c | None => false end) (zrange 0 n).
Lemma letters_hij : letters_check amchar_map_hij 26 = true.
Proof. vm_compute. reflexivity. Qed.
Lemma letters_hik : letters_check amchar_map_hik 25 = true.
Proof. vm_compute. reflexivity. Qed.

Lemma amint_chars_good : forall m n a, letters_check m n = true -> Forall (fun l => (0 <= l < Z.of_nat n)%Z) a ->
  exists s, amint_chars m a = inr s /\ sall is_alpha s = true.
Proof.
  intros m n a Hm; induction a as [|l a IH]; intros H; [exists ""; split; reflexivity|].
  inversion H as [|? ? Hl Ha]; subst. destruct (IH Ha) as [s [Es Hs]].
  assert (Hin : In l (zrange 0 n)) by (apply zrange_In; lia).
  pose proof (proj1 (forallb_forall _ _) Hm l Hin) as Hc. cbv beta in Hc.
  cbn [amint_chars]. destruct (Z.ltb_spec l 0) as [Hneg|_]; [lia|].
  destruct (snth (Z.to_nat l) m) as [c|]; [|discriminate]. rewrite Es. unfold bind, ok.
  exists (String c s). split; [reflexivity|]. cbn [sall]. now rewrite Hc, Hs.
Qed.

Definition amch (hij use_L : bool) (a : list Z) : string :=
  match amint_to_char a hij use_L with inr c => c | inl _ => "" end.
Definition am_bound (hij : bool) : Z := if hij then 26%Z else 25%Z.

Lemma sall_alpha_upper : forall s, sall is_alpha s = true -> sall is_alpha (upper s) = true.
Proof.
  induction s as [|c s IH]; [reflexivity|]. cbn [sall upper smap]. intros H. apply andb_true_iff in H. destruct H as [Hc Hs].
  fold (upper s). now rewrite (alpha_upper c Hc), (IH Hs).
Qed.

Lemma amch_facts : forall hij use_L a, Forall (fun l => (0 <= l < am_bound hij)%Z) a ->
  amint_to_char a hij use_L = inr (amch hij use_L a) /\ sall is_alpha (amch hij use_L a) = true /\
  good_line (amch hij use_L a) /\ good_line (upper (amch hij use_L a)).
Proof.
  intros hij use_L a H.
  assert (E : exists s, amint_to_char a hij use_L = inr s /\ sall is_alpha s = true).
  { unfold amint_to_char. destruct (use_L && list_Z_eqb a [0%Z; 1%Z])%bool; [exists "l"; split; reflexivity|].
    destruct hij; cbn [amchar_map am_bound] in *.
    - apply (amint_chars_good _ 26 a letters_hij). exact H.
    - apply (amint_chars_good _ 25 a letters_hik). exact H. }
  destruct E as [s [Es Hs]]. unfold amch. rewrite Es. split; [reflexivity|]. split; [exact Hs|]. unfold good_line. split.
  - exact (sall_impl is_alpha nobd _ alpha_nobd Hs).
  - exact (sall_impl is_alpha nobd _ alpha_nobd (sall_alpha_upper s Hs)).
Qed.

(* ================================================================== *)
(* 3. small facts about lines and tokens                               *)
(* ================================================================== *)
Lemma good_app : forall a b, good_line a -> good_line b -> good_line (a +++ b).
Proof. intros a b Ha Hb. unfold good_line in *. now rewrite sall_app, Ha, Hb. Qed.

Lemma nat_str_good : forall n, good_line (nat_str n).
Proof. exact nat_str_nobd. Qed.

(* `prefix` + at least one blank + an integer: the integer is a token *)
Lemma tokens_last_int : forall pre k z, In (Z_to_string z) (tokens_acc (pre +++ sp (S k) +++ Z_to_string z) "").
Proof. intros pre k z. rewrite (tokens_snoc k _ (int_tok z)). apply in_or_app. right. now left. Qed.

Lemma Forall_perm : forall (A : Type) (P : A -> Prop) l l', Permutation l l' -> Forall P l -> Forall P l'.
Proof.
  intros A P l l' Hp H. rewrite Forall_forall in *. intros x Hx. apply H, (Permutation_in _ (Permutation_sym Hp)), Hx.
Qed.

(* max([x['angular_momentum'][0] for x in pots]) *)
Lemma max_am_gen : forall pots, pots <> [] -> Forall (fun p => p_am p <> []) pots ->
  ecp_max_am pots = inr (zmax (map pot_l pots)) /\ exists p, In p pots /\ pot_l p = zmax (map pot_l pots).
Proof.
  intros pots Hne H. unfold ecp_max_am.
  rewrite (mapM_map_ok _ _ am_first pot_l).
  - unfold bind. destruct pots as [|p pots]; [congruence|]. cbn [map]. split; [reflexivity|].
    destruct (zmax_facts (map pot_l (p :: pots))) as [Zin _]; [discriminate|].
    apply in_map_iff in Zin. destruct Zin as [q [Eq Hq]]. exists q. split; [exact Hq | exact Eq].
  - intros p Hp. rewrite Forall_forall in H. specialize (H p Hp). unfold am_first, pot_l. destruct (p_am p); [congruence | reflexivity].
Qed.

(* ================================================================== *)
(* 4. the electron part (write_gamess_us_electron_basis) for ANY shell *)
(* ================================================================== *)
Definition opps (s : sshell) : list Z := gus_point_places (List.length (coefs s) + 2).
Definition ohdr (s : sshell) : string := upper (amch true true (am s)) +++ "   " +++ nat_str (List.length (exps s)).
Definition oshell_lines (s : sshell) : list string := ohdr s :: wm_rows (gus_cols s) (opps s).
Definition oel_lines (zs : Z * list sshell) : list string := "" :: upper (lname (fst zs)) :: flat_map oshell_lines (snd zs).
Definition obody (els : list (Z * list sshell)) : list string := "$DATA" :: flat_map oel_lines els ++ [""].
Definition oel_ok (zs : Z * list sshell) : Prop := (1 <= fst zs <= 120)%Z /\ Forall orca_shell_ok (snd zs).

Lemma gus_cols_ok : forall s, orca_shell_ok s ->
  cells_ok (gus_cols s) /\ List.length (gus_cols s) <= List.length (opps s) /\
  Forall (fun r => List.length r = List.length (exps s)) (gus_cols s).
Proof.
  intros s [_ [HcF [He Hc]]]. unfold gus_cols, opps, gus_point_places. split; [|split].
  - apply cells_ok_cons; [apply cints_ok|]. apply cells_ok_cons; [apply floats_cells, He|]. apply cells_ok_floats, Hc.
  - cbn [List.length]. rewrite !map_length, zrange_length. lia.
  - constructor; [rewrite map_length; apply zrange_length|]. constructor; [apply map_length|].
    rewrite Forall_forall in *. intros r Hr. apply in_map_iff in Hr. destruct Hr as [c [<- Hcin]]. rewrite map_length. apply HcF, Hcin.
Qed.

Lemma ohdr_good : forall s, orca_shell_ok s -> good_line (ohdr s).
Proof.
  intros s [Ha _]. destruct (amch_facts true true (am s) Ha) as [_ [_ [_ Hu]]].
  unfold ohdr. apply good_app; [exact Hu|]. apply good_app; [reflexivity | apply nat_str_good].
Qed.

Lemma oshell_write : forall s, orca_shell_ok s ->
  gus_write_shell s = inr (unlines (oshell_lines s)) /\ Forall good_line (oshell_lines s).
Proof.
  intros s Hs. destruct (gus_cols_ok s Hs) as [Hok [Hlen _]]. destruct (wm_write _ _ Hok Hlen) as [E1 E2].
  pose proof Hs as [Ha _]. destruct (amch_facts true true (am s) Ha) as [Ea _]. split.
  - unfold gus_write_shell. rewrite Ea. unfold bind. fold (opps s). rewrite E1, E2.
    unfold oshell_lines, ohdr, ok. rewrite unlines_cons, !sapp_assoc. reflexivity.
  - constructor; [apply ohdr_good, Hs | apply wm_good; assumption].
Qed.

Lemma oel_write : forall zs, oel_ok zs -> gus_write_element zs = inr (unlines (oel_lines zs)) /\ Forall good_line (oel_lines zs).
Proof.
  intros [z shs] [Hz Hshs]. cbn [fst snd] in *. destruct (el_facts z Hz) as [En [_ [_ [Gn _]]]]. split.
  - unfold gus_write_element. rewrite En. unfold bind.
    rewrite (mapM_map_ok _ _ gus_write_shell (fun s => unlines (oshell_lines s))).
    + unfold oel_lines, ok. cbn [fst snd]. rewrite !unlines_cons, unlines_flat_map. reflexivity.
    + intros s Hin. apply oshell_write. rewrite Forall_forall in Hshs. apply Hshs, Hin.
  - unfold oel_lines. cbn [fst snd]. constructor; [reflexivity|]. constructor; [exact Gn|].
    rewrite Forall_forall in *. intros l Hl. apply in_flat_map in Hl. destruct Hl as [s [Hs Hl]].
    destruct (oshell_write s (Hshs s Hs)) as [_ G]. rewrite Forall_forall in G. apply G, Hl.
Qed.

(* the electron part: nothing, or complete lines followed by `$END` without a newline *)
Definition oel_rows (els : list (Z * list sshell)) : list string := match els with [] => [] | _ => obody els end.
Definition oel_last (els : list (Z * list sshell)) : string := match els with [] => "" | _ => "$END" end.

Lemma oelectron_write : forall els, Forall oel_ok els ->
  gus_write_electron els = inr (unlines (oel_rows els) +++ oel_last els) /\ Forall good_line (oel_rows els).
Proof.
  intros els H. destruct els as [|zs els]; [split; [reflexivity | constructor]|].
  set (L := zs :: els) in *. split.
  - assert (E : gus_write_electron L =
                (do parts <- mapM gus_write_element L; ok ("$DATA" +++ nl1 +++ String.concat "" parts +++ nl1 +++ "$END")))
      by reflexivity.
    rewrite E. rewrite (mapM_map_ok _ _ gus_write_element (fun zs => unlines (oel_lines zs))).
    + unfold bind, ok. change (oel_rows L) with (obody L). change (oel_last L) with "$END". unfold obody.
      rewrite unlines_cons, unlines_app, unlines_flat_map, !sapp_assoc. reflexivity.
    + intros e He. apply oel_write. rewrite Forall_forall in H. apply H, He.
  - change (oel_rows L) with (obody L). unfold obody. constructor; [reflexivity|]. apply Forall_app. split; [|repeat constructor].
    rewrite Forall_forall in *. intros l Hl. apply in_flat_map in Hl. destruct Hl as [e [He Hl]].
    destruct (oel_write e (H e He)) as [_ G]. rewrite Forall_forall in G. apply G, Hl.
Qed.

(* every number of a shell is a token of one of its lines *)
Lemma oshell_token : forall s x, orca_shell_ok s -> (In x (exps s) \/ exists c, In c (coefs s) /\ In x c) ->
  exists line, In line (oshell_lines s) /\ In x (tokens_acc line "").
Proof.
  intros s x Hs Hx. destruct (gus_cols_ok s Hs) as [Hok [Hlen HF]].
  assert (Hcol : exists l, In (map CStr l) (gus_cols s) /\ In x l).
  { unfold gus_cols. destruct Hx as [Hx|[c [Hc Hx]]].
    - exists (exps s). split; [right; now left | exact Hx].
    - exists c. split; [right; right; apply in_map, Hc | exact Hx]. }
  destruct Hcol as [l [Hl Hxl]].
  destruct (wm_token_str _ _ _ l x Hok Hlen HF Hl Hxl) as [line [Hline Htok]].
  exists line. split; [right; exact Hline | exact Htok].
Qed.

Lemma oel_rows_token : forall els x, Forall oel_ok els -> nw_number_of els x ->
  exists line, In line (oel_rows els) /\ In x (tokens_acc line "").
Proof.
  intros els x H [zs [s [Hzs [Hs Hx]]]]. rewrite Forall_forall in H. destruct (H zs Hzs) as [_ Hshs].
  rewrite Forall_forall in Hshs. destruct (oshell_token s x (Hshs s Hs) Hx) as [line [Hline Htok]].
  exists line. split; [|exact Htok]. destruct els as [|e els]; [destruct Hzs|]. cbn [oel_rows]. unfold obody.
  right. apply in_or_app. left. apply in_flat_map. exists zs. split; [exact Hzs|]. unfold oel_lines. right. right.
  apply in_flat_map. exists s. split; assumption.
Qed.

(* ================================================================== *)
(* 5. the ECP part (write_orca_ecp_basis)                              *)
(* ================================================================== *)
Definition opot_hdr (p : epot) : string := "  " +++ amch false false (p_am p) +++ " " +++ nat_str (List.length (p_rexp p)).
Definition opot_lines (p : epot) : list string := opot_hdr p :: wm_rows (orca_ecp_cols p) orca_ecp_point_places.
Definition oecp_mx (e : Z * (Z * list epot)) : Z := zmax (map pot_l (snd (snd e))).
Definition oecp_ncore (e : Z * (Z * list epot)) : string := "  N_core " +++ Z_to_string (fst (snd e)).
(* the lines of one element between the two newlines and `end` *)
Definition oecp_lines (e : Z * (Z * list epot)) : list string :=
  ("NewECP " +++ upper (lsym (fst e))) :: oecp_ncore e :: ("  lmax " +++ amch true false [oecp_mx e]) ::
  flat_map opot_lines (ecp_sorted (snd (snd e))).

Lemma orca_cols_ok : forall p, orca_pot_ok p ->
  cells_ok (orca_ecp_cols p) /\ List.length (orca_ecp_cols p) <= List.length orca_ecp_point_places /\
  Forall (fun r => List.length r = List.length (p_rexp p)) (orca_ecp_cols p).
Proof.
  intros p [_ [_ [Hg [Hn [HcF [Hgf Hcf]]]]]]. unfold orca_ecp_cols, orca_ecp_point_places. split; [|split].
  - apply cells_ok_cons; [apply cints_ok|]. apply cells_ok_cons; [apply floats_cells, Hgf|].
    apply cells_ok_app; [apply cells_ok_floats, Hcf|]. apply cells_ok_cons; [apply cints_ok | apply cells_ok_nil].
  - cbn [List.length]. rewrite app_length, map_length. cbn [List.length]. lia.
  - constructor; [rewrite map_length; apply zrange_length|]. constructor; [rewrite map_length; exact Hg|].
    apply Forall_app. split; [|constructor; [apply map_length | constructor]].
    rewrite Forall_forall in *. intros r Hr. apply in_map_iff in Hr. destruct Hr as [c [<- Hcin]]. rewrite map_length. apply HcF, Hcin.
Qed.

Lemma opot_write : forall p, orca_pot_ok p ->
  orca_write_pot p = inr (unlines (opot_lines p)) /\ Forall good_line (opot_lines p).
Proof.
  intros p Hp. destruct (orca_cols_ok p Hp) as [Hok [Hlen _]]. destruct (wm_write _ _ Hok Hlen) as [E1 E2].
  pose proof Hp as [_ [Ha _]]. destruct (amch_facts false false (p_am p) Ha) as [Ea [_ [Ga _]]]. split.
  - unfold orca_write_pot. rewrite Ea. unfold bind. rewrite E1, E2.
    unfold opot_lines, opot_hdr, ok. rewrite unlines_cons, !sapp_assoc. reflexivity.
  - constructor; [|apply wm_good; assumption]. unfold opot_hdr.
    apply good_app; [reflexivity|]. apply good_app; [exact Ga|]. apply good_app; [reflexivity | apply nat_str_good].
Qed.

Lemma oecp_mx_range : forall e, orca_ecp_el_ok e -> (0 <= oecp_mx e < 25)%Z /\ ecp_max_am (snd (snd e)) = inr (oecp_mx e).
Proof.
  intros [z [n pots]] [_ [Hne Hp]]. cbn [fst snd] in *. unfold oecp_mx. cbn [fst snd].
  assert (Ham : Forall (fun p => p_am p <> []) pots) by (rewrite Forall_forall in *; intros p Hin; apply (Hp p Hin)).
  destruct (max_am_gen pots Hne Ham) as [E [q [Hq Eq]]]. split; [|exact E]. rewrite <- Eq.
  rewrite Forall_forall in Hp. destruct (Hp q Hq) as [Hqne [Hqa _]]. unfold pot_l. destruct (p_am q) as [|a r]; [congruence|].
  inversion Hqa; subst. cbn [hd]. assumption.
Qed.

Lemma oecp_el_write : forall e, orca_ecp_el_ok e ->
  orca_write_ecp_element e = inr (nl1 +++ nl1 +++ unlines (oecp_lines e) +++ "end") /\ Forall good_line (oecp_lines e).
Proof.
  intros e He. destruct (oecp_mx_range e He) as [Hmx Emx]. destruct e as [z [n pots]]. destruct He as [Hz [Hne Hp]].
  cbn [fst snd] in *. destruct (el_facts z Hz) as [_ [_ [Es [_ [_ Gs]]]]].
  assert (Hmxl : Forall (fun l => (0 <= l < am_bound true)%Z) [oecp_mx (z, (n, pots))]) by (constructor; [cbn [am_bound]; lia | constructor]).
  destruct (amch_facts true false _ Hmxl) as [Ec [_ [Gc _]]].
  pose proof (Forall_perm _ _ _ _ (sorted_perm pots) Hp) as Hsp. split.
  - unfold orca_write_ecp_element. rewrite Es. unfold bind. rewrite Emx, Ec.
    rewrite (mapM_map_ok _ _ orca_write_pot (fun p => unlines (opot_lines p))).
    + unfold oecp_lines, oecp_ncore, ok. cbn [fst snd]. rewrite !unlines_cons, unlines_flat_map, !sapp_assoc. reflexivity.
    + intros p Hin. apply opot_write. rewrite Forall_forall in Hsp. apply Hsp, Hin.
  - unfold oecp_lines, oecp_ncore. cbn [fst snd].
    constructor; [apply good_app; [reflexivity | exact Gs]|].
    constructor; [apply good_app; [reflexivity | apply Z_to_string_good]|].
    constructor; [apply good_app; [reflexivity | exact Gc]|].
    rewrite Forall_forall in *. intros l Hl. apply in_flat_map in Hl. destruct Hl as [p [Hpin Hl]].
    destruct (opot_write p (Hsp p Hpin)) as [_ G]. rewrite Forall_forall in G. apply G, Hl.
Qed.

(* the text behind a pending line p (a line that has not got its newline yet): complete lines and the new pending line *)
Fixpoint otail (p : string) (ecps : list (Z * (Z * list epot))) : list string * string :=
  match ecps with
  | [] => ([], p)
  | e :: r => let t := otail "end" r in (p :: "" :: oecp_lines e ++ fst t, snd t)
  end.

Lemma otail_write : forall ecps p, Forall orca_ecp_el_ok ecps ->
  exists parts, mapM orca_write_ecp_element ecps = inr parts /\
                p +++ String.concat "" parts = unlines (fst (otail p ecps)) +++ snd (otail p ecps).
Proof.
  induction ecps as [|e ecps IH]; intros p H.
  - exists []. split; [reflexivity|]. cbn. now rewrite sapp_nil_r.
  - inversion H as [|? ? He Hr]; subst. destruct (oecp_el_write e He) as [Ee _].
    destruct (IH "end" Hr) as [parts [Ep Et]]. eexists. split; [cbn [mapM]; rewrite Ee; unfold bind; rewrite Ep; reflexivity|].
    cbn [otail fst snd]. rewrite concat_cons, !unlines_cons, unlines_app, !sapp_assoc. cbn [String.append].
    rewrite <- Et. reflexivity.
Qed.

Lemma otail_last : forall ecps p, snd (otail p ecps) = match ecps with [] => p | _ => "end" end.
Proof.
  induction ecps as [|e ecps IH]; intros p; [reflexivity|]. cbn [otail snd]. rewrite IH. destruct ecps; reflexivity.
Qed.

Lemma otail_good : forall ecps p, Forall orca_ecp_el_ok ecps -> good_line p -> Forall good_line (fst (otail p ecps)).
Proof.
  induction ecps as [|e ecps IH]; intros p H Hp; [constructor|].
  inversion H as [|? ? He Hr]; subst. cbn [otail fst]. constructor; [exact Hp|]. constructor; [reflexivity|].
  apply Forall_app. split; [apply oecp_el_write, He | apply IH; [exact Hr | reflexivity]].
Qed.

Lemma otail_in : forall ecps p e l, In e ecps -> In l (oecp_lines e) -> In l (fst (otail p ecps)).
Proof.
  induction ecps as [|e0 ecps IH]; intros p e l He Hl; [destruct He|]. cbn [otail fst]. right. right.
  apply in_or_app. destruct He as [->|He]; [left; exact Hl | right; apply (IH "end" e l He Hl)].
Qed.

(* ================================================================== *)
(* 6. the whole file                                                   *)
(* ================================================================== *)
Definition orca_rows (els : list (Z * list sshell)) (ecps : list (Z * (Z * list epot))) : list string :=
  oel_rows els ++ fst (otail (oel_last els) ecps).
Definition orca_last (els : list (Z * list sshell)) (ecps : list (Z * (Z * list epot))) : string :=
  snd (otail (oel_last els) ecps).

Lemma orca_text : forall els ecps, orca_ok els ecps ->
  orca_write_all els ecps = inr (unlines (orca_rows els ecps) +++ orca_last els ecps) /\
  Forall good_line (orca_rows els ecps) /\ good_line (orca_last els ecps).
Proof.
  intros els ecps [H1 H2]. destruct (oelectron_write els H1) as [Ee Ge].
  destruct (otail_write ecps (oel_last els) H2) as [parts [Ep Et]].
  assert (Gl : good_line (oel_last els)) by (destruct els; reflexivity).
  split; [|split].
  - unfold orca_write_all, orca_write_ecp. rewrite Ee. unfold bind at 1. rewrite Ep. unfold bind, ok.
    unfold orca_rows, orca_last. rewrite unlines_app, !sapp_assoc, Et. reflexivity.
  - apply Forall_app. split; [exact Ge | apply otail_good; assumption].
  - unfold orca_last. rewrite otail_last. destruct ecps; [exact Gl | reflexivity].
Qed.

Lemma orca_written_lines : forall els ecps t, orca_ok els ecps -> orca_write_all els ecps = inr t ->
  (els <> [] \/ ecps <> []) -> splitlines t = orca_rows els ecps ++ [orca_last els ecps].
Proof.
  intros els ecps t H E Hne. destruct (orca_text els ecps H) as [Et [G1 G2]]. rewrite Et in E. inversion E; subst t.
  apply splitlines_unlines_last; [exact G1 | exact G2|]. unfold orca_last. rewrite otail_last.
  destruct ecps as [|e ecps]; [|discriminate]. destruct els as [|zs els]; [destruct Hne; congruence | discriminate].
Qed.

(* ---------- orca_write_total ---------- *)
Lemma orca_write_total : orca_write_total_stmt.
Proof. intros els ecps H. eexists. apply (orca_text els ecps H). Qed.

(* ---------- orca_no_number_lost ---------- *)
Lemma orca_no_number_lost : orca_no_number_lost_stmt.
Proof.
  intros els ecps t H E x Hx.
  assert (Hne : els <> []) by (destruct Hx as [zs [_ [Hzs _]]]; intros ->; destruct Hzs).
  rewrite (orca_written_lines els ecps t H E (or_introl Hne)).
  destruct (oel_rows_token els x (proj1 H) Hx) as [line [Hl Ht]].
  exists line. split; [|exact Ht]. apply in_or_app. left. unfold orca_rows. apply in_or_app. left. exact Hl.
Qed.

(* ---------- orca_ecp_no_number_lost ---------- *)
Lemma opot_token : forall p x, orca_pot_ok p ->
  (In x (p_gexp p) \/ (exists c, In c (p_coef p) /\ In x c) \/ exists r, In r (p_rexp p) /\ x = Z_to_string r) ->
  exists line, In line (opot_lines p) /\ In x (tokens_acc line "").
Proof.
  intros p x Hp Hx. destruct (orca_cols_ok p Hp) as [Hok [Hlen HF]].
  assert (Hl : exists line, In line (wm_rows (orca_ecp_cols p) orca_ecp_point_places) /\ In x (tokens_acc line "")).
  { destruct Hx as [Hx|[[c [Hc Hx]]|[r [Hr ->]]]].
    - apply (wm_token_str _ _ _ (p_gexp p) x Hok Hlen HF); [|exact Hx]. unfold orca_ecp_cols. right. now left.
    - apply (wm_token_str _ _ _ c x Hok Hlen HF); [|exact Hx]. unfold orca_ecp_cols. right. right.
      apply in_or_app. left. apply in_map, Hc.
    - apply (wm_token_int _ _ _ (p_rexp p) r Hok Hlen HF); [|exact Hr]. unfold orca_ecp_cols. right. right.
      apply in_or_app. right. now left. }
  destruct Hl as [line [Hline Htok]]. exists line. split; [right; exact Hline | exact Htok].
Qed.

Lemma orca_ecp_no_number_lost : orca_ecp_no_number_lost_stmt.
Proof.
  intros els ecps t H E x [e [He Hx]].
  assert (Hne : ecps <> []) by (intros ->; destruct He).
  rewrite (orca_written_lines els ecps t H E (or_intror Hne)).
  destruct H as [_ H2]. rewrite Forall_forall in H2. pose proof (H2 e He) as Hok.
  assert (Hl : exists line, In line (oecp_lines e) /\ In x (tokens_acc line "")).
  { destruct Hx as [->|[p [Hp Hx]]].
    - exists (oecp_ncore e). split; [right; now left|]. unfold oecp_ncore.
      change ("  N_core " +++ Z_to_string (fst (snd e))) with ("  N_core" +++ sp 1 +++ Z_to_string (fst (snd e))).
      apply tokens_last_int.
    - destruct Hok as [_ [_ Hpok]]. rewrite Forall_forall in Hpok.
      destruct (opot_token p x (Hpok p Hp) Hx) as [line [Hline Htok]]. exists line. split; [|exact Htok].
      unfold oecp_lines. right. right. right. apply in_flat_map. exists p. split; [|exact Hline].
      apply (Permutation_in _ (sorted_perm (snd (snd e)))), Hp. }
  destruct Hl as [line [Hline Htok]]. exists line. split; [|exact Htok].
  apply in_or_app. left. unfold orca_rows. apply in_or_app. right. apply (otail_in ecps _ e line He Hline).
Qed.

(* ================================================================== *)
(* 7. the closed statements: counterexamples and the store instances (by computation) *)
(* ================================================================== *)
Ltac floats := repeat constructor.
Ltac zrange_ok := repeat (constructor; [lia|]); constructor.
Ltac oshell_ok := split; [zrange_ok | split; [repeat constructor | split; floats]].
Ltac opot_ok :=
  split; [discriminate | split; [zrange_ok | split; [reflexivity | split; [cbn; lia | split; [repeat constructor | split; floats]]]]].
Ltac oecp_el_ok := split; [cbn; lia | split; [discriminate | cbn [snd]; repeat (constructor; [opot_ok|]); constructor]].
Ltac orca_ok_tac :=
  split; [repeat (constructor; [split; [cbn; lia | cbn [snd]; repeat (constructor; [oshell_ok|]); constructor]|]); constructor
         | repeat (constructor; [oecp_el_ok|]); constructor].

Lemma orca_ragged : orca_ragged_stmt.
Proof. vm_compute. reflexivity. Qed.
Lemma orca_conditions : orca_conditions_stmt.
Proof. repeat split; vm_compute; reflexivity. Qed.
Lemma orca_not_needed : orca_not_needed_stmt.
Proof. repeat split; vm_compute; reflexivity. Qed.
Lemma orca_ecp_columns : orca_ecp_columns_stmt.
Proof. repeat split; vm_compute; reflexivity. Qed.
Lemma orca_ecp_lengths : orca_ecp_lengths_stmt.
Proof. repeat split; vm_compute; reflexivity. Qed.
Lemma orca_ecp_conditions : orca_ecp_conditions_stmt.
Proof. repeat split; vm_compute; reflexivity. Qed.
Lemma orca_ecp_letters : orca_ecp_letters_stmt.
Proof. split; [orca_ok_tac | split; vm_compute; reflexivity]. Qed.
Lemma orca_two_ecps : orca_two_ecps_stmt.
Proof. vm_compute. reflexivity. Qed.
Lemma orca_example : orca_example_stmt.
Proof.
  split; [unfold orca_ex_els, orca_ex_ecps; orca_ok_tac|]. split; [vm_compute; reflexivity|].
  split; [unfold orca_sp_els, orca_sp_ecps; orca_ok_tac | vm_compute; reflexivity].
Qed.

Print Assumptions orca_write_total.
Print Assumptions orca_no_number_lost.
Print Assumptions orca_ecp_no_number_lost.
Print Assumptions orca_ragged.
Print Assumptions orca_conditions.
Print Assumptions orca_not_needed.
Print Assumptions orca_ecp_columns.
Print Assumptions orca_ecp_lengths.
Print Assumptions orca_ecp_conditions.
Print Assumptions orca_ecp_letters.
Print Assumptions orca_two_ecps.
Print Assumptions orca_example.
