(* Proofs of the C12 statements (Proofs/AugmentDefs.v): geometric augmentation and the calendar truncation. *)
From Coq Require Import Sorting.Permutation Sorting.Sorted Lia ZArith.
From BSE Require Import Model.Val Model.Num Model.Basis Model.Manip Model.ManipS Model.Sort Model.Augment Gen.GenConsts.
From BSE Require Import Proofs.AugmentDefs.

(* ------------------------------------------------------------------------------------------------ *)
(* exact decimals: dec_compare seen from any common lower exponent *)

Local Open Scope Z_scope.

Lemma p10_pos : forall n, 0 <= n -> 0 < 10 ^ n.
Proof. intros n Hn. apply Z.pow_pos_nonneg; lia. Qed.

Definition key (k : Z) (a : Z * Z) : Z := fst a * 10 ^ (snd a - k).

Lemma compare_scale : forall x y p, 0 < p -> (x * p ?= y * p) = (x ?= y).
Proof. intros x y p Hp. symmetry. apply Zmult_compare_compat_r. lia. Qed.

Lemma dec_compare_key : forall k a b, k <= snd a -> k <= snd b ->
  dec_compare a b = (key k a ?= key k b).
Proof.
  intros k [m1 e1] [m2 e2] Ha Hb. unfold dec_compare, key, pow10. cbn [fst snd] in *.
  set (e := Z.min e1 e2).
  replace (e1 - k) with ((e1 - e) + (e - k)) by lia.
  replace (e2 - k) with ((e2 - e) + (e - k)) by lia.
  rewrite !Z.pow_add_r by (unfold e; lia).
  rewrite !Z.mul_assoc.
  symmetry. apply compare_scale. apply p10_pos. unfold e; lia.
Qed.

(* the fraction of a decimal *)
Lemma frac_of_key : forall v k, k <= snd v -> k <= 0 ->
  0 < snd (frac_of v) /\ key k v * snd (frac_of v) = fst (frac_of v) * 10 ^ (- k).
Proof.
  intros [m e] k Hk H0. unfold frac_of, key, pow10. cbn [fst snd] in *.
  destruct (e >=? 0) eqn:E; cbn [fst snd].
  - apply Z.geb_le in E. split; [lia|].
    replace (e - k) with (e + (- k)) by lia. rewrite Z.pow_add_r by lia. ring.
  - assert (He : e < 0) by (destruct (Z.geb_spec e 0); [discriminate | lia]).
    split; [apply p10_pos; lia|].
    replace (- k) with ((e - k) + (- e)) by lia. rewrite Z.pow_add_r by lia. ring.
Qed.

Lemma frac_of_pos : forall v, 0 < snd (frac_of v).
Proof.
  intros v. destruct (frac_of_key v (Z.min (snd v) 0)) as [H _]; [lia | lia | exact H].
Qed.

Lemma frac_of_num_pos : forall v, dpos v -> 0 < fst (frac_of v).
Proof.
  intros [m e] H. unfold dpos in H. unfold frac_of, pow10. cbn [fst snd] in *.
  destruct (e >=? 0) eqn:E; cbn [fst snd]; [|exact H].
  apply Z.geb_le in E. apply Z.mul_pos_pos; [exact H | apply p10_pos; lia].
Qed.

Lemma dec_compare_frac : forall a b,
  dec_compare a b = (fst (frac_of a) * snd (frac_of b) ?= fst (frac_of b) * snd (frac_of a)).
Proof.
  intros a b.
  set (k := Z.min (Z.min (snd a) (snd b)) 0).
  rewrite (dec_compare_key k) by (unfold k; lia).
  destruct (frac_of_key a k) as [Hda Ha]; [unfold k; lia | unfold k; lia |].
  destruct (frac_of_key b k) as [Hdb Hb]; [unfold k; lia | unfold k; lia |].
  assert (HP : 0 < 10 ^ (- k)) by (apply p10_pos; unfold k; lia).
  rewrite <- (compare_scale (key k a) (key k b) (snd (frac_of a) * snd (frac_of b))) by (apply Z.mul_pos_pos; assumption).
  rewrite <- (compare_scale (fst (frac_of a) * snd (frac_of b)) (fst (frac_of b) * snd (frac_of a)) (10 ^ (- k))) by exact HP.
  f_equal.
  - rewrite Z.mul_assoc, Ha. ring.
  - replace (key k b * (snd (frac_of a) * snd (frac_of b))) with (key k b * snd (frac_of b) * snd (frac_of a)) by ring.
    rewrite Hb. ring.
Qed.

Lemma dlt_frac : forall a b, dlt a b <-> flt (frac_of a) (frac_of b).
Proof.
  intros a b. unfold dlt, flt. rewrite dec_compare_frac. apply Z.compare_lt_iff.
Qed.

(* ------------------------------------------------------------------------------------------------ *)
(* the new exponents *)

Lemma aug_value_eq : forall x y i,
  aug_value x y i =
  (fst (frac_of x) * (fst (frac_of x) * snd (frac_of y)) ^ Z.of_nat i,
   snd (frac_of x) * (snd (frac_of x) * fst (frac_of y)) ^ Z.of_nat i).
Proof.
  intros x y i. unfold aug_value. destruct (frac_of x) as [xn xd]. destruct (frac_of y) as [yn yd]. reflexivity.
Qed.

Lemma aug_value_den : aug_value_den_stmt.
Proof.
  intros x y i Hx Hy. rewrite aug_value_eq. unfold fpos_den. cbn [fst snd].
  pose proof (frac_of_pos x) as Hxd. pose proof (frac_of_pos y) as Hyd.
  pose proof (frac_of_num_pos _ Hx) as Hxn. pose proof (frac_of_num_pos _ Hy) as Hyn.
  split; apply Z.mul_pos_pos; try assumption; apply Z.pow_pos_nonneg; try lia; apply Z.mul_pos_pos; assumption.
Qed.

(* 0 < a < b -> a^(i+1) b^i < a^i b^(i+1) and a^(i+1) < b^(i+1) *)
Lemma pow_lt_succ : forall a b i, 0 < a -> a < b -> 0 <= i -> a ^ (i + 1) < b ^ (i + 1).
Proof. intros a b i Ha Hab Hi. apply Z.pow_lt_mono_l; lia. Qed.

Lemma geo_step : forall a b i, 0 < a -> a < b -> 0 <= i ->
  a ^ (i + 1) * b ^ i < a ^ i * b ^ (i + 1).
Proof.
  intros a b i Ha Hab Hi. rewrite !Z.pow_add_r, !Z.pow_1_r by lia.
  assert (Hpa : 0 < a ^ i) by (apply Z.pow_pos_nonneg; lia).
  assert (Hpb : 0 < b ^ i) by (apply Z.pow_pos_nonneg; lia).
  generalize dependent (a ^ i). generalize dependent (b ^ i). intros pb Hpb pa Hpa.
  replace (pa * a * pb) with (pa * pb * a) by ring.
  replace (pa * (pb * b)) with (pa * pb * b) by ring.
  apply Z.mul_lt_mono_pos_l; [apply Z.mul_pos_pos; assumption | exact Hab].
Qed.

Lemma aug_outside_diffuse : aug_outside_diffuse_stmt.
Proof.
  intros x y i Hx Hy Hlt. apply dlt_frac in Hlt. rewrite !aug_value_eq. unfold flt in *. cbn [fst snd].
  pose proof (frac_of_pos x) as Hxd. pose proof (frac_of_pos y) as Hyd.
  pose proof (frac_of_num_pos _ Hx) as Hxn. pose proof (frac_of_num_pos _ Hy) as Hyn.
  destruct (frac_of x) as [xn xd]. destruct (frac_of y) as [yn yd]. cbn [fst snd] in *.
  rewrite Nat2Z.inj_succ. unfold Z.succ.
  set (a := xn * yd). set (b := xd * yn).
  assert (Ha : 0 < a) by (apply Z.mul_pos_pos; assumption).
  assert (Hab : a < b) by (unfold a, b; lia).
  assert (Hi : 0 <= Z.of_nat i) by lia.
  pose proof (geo_step _ _ _ Ha Hab Hi) as H1. pose proof (pow_lt_succ _ _ _ Ha Hab Hi) as H2.
  generalize dependent (a ^ (Z.of_nat i + 1)). generalize dependent (b ^ (Z.of_nat i + 1)).
  generalize dependent (a ^ Z.of_nat i). generalize dependent (b ^ Z.of_nat i).
  intros pb pa qb qa H1 H2.
  assert (Hxx : 0 < xn * xd) by (apply Z.mul_pos_pos; assumption).
  split.
  - replace (xn * qa * (xd * pb)) with (xn * xd * (qa * pb)) by ring.
    replace (xn * pa * (xd * qb)) with (xn * xd * (pa * qb)) by ring.
    apply Z.mul_lt_mono_pos_l; assumption.
  - replace (xn * qa * xd) with (xn * xd * qa) by ring.
    replace (xn * (xd * qb)) with (xn * xd * qb) by ring.
    apply Z.mul_lt_mono_pos_l; assumption.
Qed.

Lemma aug_outside_steep : aug_outside_steep_stmt.
Proof.
  intros x y i Hx Hy Hlt. apply dlt_frac in Hlt. rewrite !aug_value_eq. unfold flt in *. cbn [fst snd].
  pose proof (frac_of_pos x) as Hxd. pose proof (frac_of_pos y) as Hyd.
  pose proof (frac_of_num_pos _ Hx) as Hxn. pose proof (frac_of_num_pos _ Hy) as Hyn.
  destruct (frac_of x) as [xn xd]. destruct (frac_of y) as [yn yd]. cbn [fst snd] in *.
  rewrite Nat2Z.inj_succ. unfold Z.succ.
  set (a := xn * yd). set (b := xd * yn).
  assert (Hb : 0 < b) by (apply Z.mul_pos_pos; assumption).
  assert (Hba : b < a) by (unfold a, b; lia).
  assert (Hi : 0 <= Z.of_nat i) by lia.
  pose proof (geo_step _ _ _ Hb Hba Hi) as H1. pose proof (pow_lt_succ _ _ _ Hb Hba Hi) as H2.
  generalize dependent (a ^ (Z.of_nat i + 1)). generalize dependent (b ^ (Z.of_nat i + 1)).
  generalize dependent (a ^ Z.of_nat i). generalize dependent (b ^ Z.of_nat i).
  intros pb pa qb qa H1 H2.
  assert (Hxx : 0 < xn * xd) by (apply Z.mul_pos_pos; assumption).
  split.
  - replace (xn * pa * (xd * qb)) with (xn * xd * (qb * pa)) by ring.
    replace (xn * qa * (xd * pb)) with (xn * xd * (pb * qa)) by ring.
    apply Z.mul_lt_mono_pos_l; assumption.
  - replace (xn * (xd * qb)) with (xn * xd * qb) by ring.
    replace (xn * qa * xd) with (xn * xd * qa) by ring.
    apply Z.mul_lt_mono_pos_l; assumption.
Qed.

Lemma aug_value_zero : aug_value_zero_stmt.
Proof.
  intros x y Hx Hy. rewrite aug_value_eq. unfold flt. cbn [fst snd Z.of_nat].
  rewrite !Z.pow_0_r. split; lia.
Qed.

Lemma dec_compare_antisym : forall a b, dec_compare b a = CompOpp (dec_compare a b).
Proof.
  intros a b. set (k := Z.min (snd a) (snd b)).
  rewrite (dec_compare_key k a b), (dec_compare_key k b a) by (unfold k; lia).
  apply Z.compare_antisym.
Qed.

Local Close Scope Z_scope.

(* ------------------------------------------------------------------------------------------------ *)
(* monadic plumbing *)

Lemma bind_inr : forall A B (x : res A) (f : A -> res B) b, bind x f = inr b -> exists a, x = inr a /\ f a = inr b.
Proof. intros A B [e|a] f b H; cbn in H; [discriminate | eauto]. Qed.

Lemma mapM_F2 : forall A B (f : A -> res B) l l',
  mapM f l = inr l' -> Forall2 (fun a b => f a = inr b) l l'.
Proof.
  induction l as [|a t IH]; intros l' H; cbn in H.
  - inversion H; constructor.
  - apply bind_inr in H. destruct H as (b & Hb & H). apply bind_inr in H. destruct H as (bs & Hbs & H).
    inversion H; subst. constructor; auto.
Qed.

Lemma F2_impl : forall A B (P Q : A -> B -> Prop) l l',
  (forall a b, P a b -> Q a b) -> Forall2 P l l' -> Forall2 Q l l'.
Proof. intros A B P Q l l' HPQ H. induction H; constructor; auto. Qed.

(* ------------------------------------------------------------------------------------------------ *)
(* sorted_exponents *)

Definition ltR (p q : (Z * Z) * nat) : Prop :=
  dec_compare (fst p) (fst q) = Lt \/ (dec_compare (fst p) (fst q) = Eq /\ snd p < snd q).

Lemma ltR_trans : forall p q r, ltR p q -> ltR q r -> ltR p r.
Proof.
  intros [a i] [b j] [c l]. unfold ltR. cbn [fst snd].
  set (k := Z.min (snd a) (Z.min (snd b) (snd c))).
  rewrite (dec_compare_key k a b), (dec_compare_key k b c), (dec_compare_key k a c) by (unfold k; lia).
  rewrite !Z.compare_lt_iff, !Z.compare_eq_iff. lia.
Qed.

Lemma insert_asc_perm : forall p l, Permutation (insert_asc p l) (p :: l).
Proof.
  intros p l. induction l as [|q t IH]; cbn [insert_asc]; [reflexivity|].
  destruct (dec_compare (fst p) (fst q)); [destruct (Nat.ltb (snd p) (snd q))| |]; try reflexivity;
    (rewrite IH; apply perm_swap).
Qed.

Lemma insert_asc_sorted : forall p l, StronglySorted ltR l -> Forall (fun q => snd q <> snd p) l ->
  StronglySorted ltR (insert_asc p l).
Proof.
  intros p l. induction l as [|q t IH]; intros Hs Hd; cbn [insert_asc].
  - constructor; constructor.
  - inversion Hs as [|q' t' Hst Hqt]; subst. inversion Hd as [|q' t' Hqp Hdt]; subst.
    assert (Hhead : ltR p q -> StronglySorted ltR (p :: q :: t)).
    { intros Hpq. constructor; [exact Hs|]. constructor; [exact Hpq|].
      eapply Forall_impl; [|exact Hqt]. intros z Hz. eapply ltR_trans; eassumption. }
    assert (Htail : ltR q p -> StronglySorted ltR (q :: insert_asc p t)).
    { intros Hqp'. constructor; [apply IH; assumption|].
      eapply Permutation_Forall; [symmetry; apply insert_asc_perm|]. constructor; assumption. }
    destruct (dec_compare (fst p) (fst q)) eqn:E.
    + destruct (Nat.ltb (snd p) (snd q)) eqn:L.
      * apply Hhead. right. split; [exact E|]. apply Nat.ltb_lt. exact L.
      * apply Htail. right. split; [rewrite dec_compare_antisym, E; reflexivity|].
        apply Nat.ltb_ge in L. lia.
    + apply Hhead. left. exact E.
    + apply Htail. left. rewrite dec_compare_antisym, E. reflexivity.
Qed.

Lemma fold_insert_sorted : forall e acc, StronglySorted ltR acc -> NoDup (map snd (acc ++ e)) ->
  StronglySorted ltR (fold_left (fun a p => insert_asc p a) e acc) /\
  Permutation (fold_left (fun a p => insert_asc p a) e acc) (acc ++ e).
Proof.
  induction e as [|p e IH]; intros acc Hs Hn; cbn [fold_left].
  - rewrite app_nil_r. split; [exact Hs | reflexivity].
  - assert (Hperm : Permutation (insert_asc p acc ++ e) (acc ++ p :: e)).
    { rewrite insert_asc_perm. cbn [app]. apply Permutation_middle. }
    destruct (IH (insert_asc p acc)) as [H1 H2].
    + apply insert_asc_sorted; [exact Hs|].
      rewrite map_app in Hn. cbn [map] in Hn. apply NoDup_remove_2 in Hn.
      apply Forall_forall. intros q Hq Heq. apply Hn. apply in_or_app. left. rewrite <- Heq.
      apply in_map. exact Hq.
    + eapply Permutation_NoDup; [|exact Hn]. apply Permutation_map. symmetry. exact Hperm.
    + split; [exact H1|]. rewrite H2. exact Hperm.
Qed.

Lemma enum_vals_snd : forall xs i e, enum_vals i xs = inr e -> map snd e = seq i (List.length xs).
Proof.
  induction xs as [|x t IH]; intros i e H; cbn [enum_vals] in H.
  - inversion H; reflexivity.
  - destruct (parse_num x) as [v|]; [|discriminate].
    apply bind_inr in H. destruct H as (r & Hr & H). inversion H; subst.
    cbn [map snd List.length seq]. f_equal. apply IH. exact Hr.
Qed.

Lemma sorted_exponents_spec : sorted_exponents_spec_stmt.
Proof.
  intros xs se H. unfold sorted_exponents in H. apply bind_inr in H. destruct H as (e & He & H).
  inversion H as [Hse]. clear H.
  destruct (fold_insert_sorted e []) as [H1 H2].
  - constructor.
  - cbn [app]. rewrite (enum_vals_snd _ _ _ He). apply seq_NoDup.
  - subst se. split; [exists e; split; [exact He | exact H2] | exact H1].
Qed.

(* ------------------------------------------------------------------------------------------------ *)
(* free primitives *)

Lemma free_primitives_spec : free_primitives_spec_stmt.
Proof.
  intros cs k Hlen. unfold free_primitives.
  set (singles := filter (is_single_column is0_s) cs).
  assert (Hin : forall c, In c singles <-> In c cs /\ is_single_column is0_s c = true)
    by (intros c; apply filter_In).
  clearbody singles. split.
  - intros H. destruct singles as [|c0 t]; [destruct H|].
    apply filter_In in H. destruct H as [_ H]. apply existsb_exists in H. destruct H as (c & Hc & H).
    destruct (nth_error c k) as [x|] eqn:En; [|discriminate].
    apply Hin in Hc. destruct Hc as [Hc1 Hc2]. exists c, x.
    repeat split; try assumption. apply Bool.negb_true_iff in H. exact H.
  - intros (c & x & Hc & Hs & Hn & H0).
    assert (Hcs : In c singles) by (apply Hin; auto).
    destruct singles as [|c0 t] eqn:Es; [destruct Hcs|].
    apply filter_In. split.
    + apply in_seq. split; [lia|]. cbn [plus].
      assert (Hc0 : In c0 cs) by (apply Hin; left; reflexivity).
      rewrite Forall_forall in Hlen. rewrite (Hlen _ Hc0), <- (Hlen _ Hc).
      apply nth_error_Some. rewrite Hn. discriminate.
    + apply existsb_exists. exists c. split; [exact Hcs|]. rewrite Hn, H0. reflexivity.
Qed.

(* ------------------------------------------------------------------------------------------------ *)
(* augment_shell *)

Lemma existsb_eqb_In : forall n l, existsb (Nat.eqb n) l = true -> In n l.
Proof.
  intros n l H. apply existsb_exists in H. destruct H as (m & Hm & He). apply Nat.eqb_eq in He. subst. exact Hm.
Qed.

Lemma augment_shell_spec : augment_shell_spec_stmt.
Proof.
  intros nadd steep s out H. unfold augment_shell in H. apply bind_inr in H. destruct H as (se & Hse & H).
  destruct (Nat.ltb (List.length se) 2); [inversion H; left; reflexivity|].
  destruct (if steep then rev se else se) as [|[rv ri] [|[nv ni] rest]] eqn:Ep;
    try (inversion H; left; reflexivity).
  destruct (dec_compare rv nv) eqn:Ec; [discriminate| |];
    (match type of H with context [if ?c then _ else _] => destruct c eqn:Ea end;
     [|inversion H; left; reflexivity]);
    apply Bool.andb_true_iff in Ea; destruct Ea as [Ea1 Ea2];
    apply existsb_eqb_In in Ea1; apply existsb_eqb_In in Ea2;
    right; exists se, rv, ri, nv, ni, rest; inversion H; subst;
    (repeat split; try assumption; try reflexivity); rewrite Ec; discriminate.
Qed.

Lemma augment_shell_count : augment_shell_count_stmt.
Proof.
  intros nadd steep s out H. apply augment_shell_spec in H.
  destruct H as [H | (se & rv & ri & nv & ni & rest & _ & _ & _ & _ & _ & H)]; subst out.
  - left. reflexivity.
  - right. rewrite map_length, seq_length. reflexivity.
Qed.

Lemma augment_equal_outer_refused : augment_equal_outer_refused_stmt.
Proof.
  intros nadd steep s se rv ri nv ni rest Hse Hp He. unfold augment_shell. rewrite Hse. cbn [bind].
  assert (Hl : Nat.ltb (List.length se) 2 = false).
  { apply Nat.ltb_ge. destruct steep.
    - rewrite <- rev_length, Hp. cbn [List.length]. lia.
    - rewrite Hp. cbn [List.length]. lia. }
  rewrite Hl, Hp, He. reflexivity.
Qed.

(* ------------------------------------------------------------------------------------------------ *)
(* truhlar_calendarize *)

Lemma remove_primitive_spec : remove_primitive_spec_stmt.
Proof.
  intros s i. unfold remove_primitive. cbn [exps am coefs].
  split; [reflexivity|]. split; [reflexivity|].
  intros g. rewrite filter_In, in_map_iff. split.
  - intros [(g0 & Heq & Hin) He]. exists g0. subst g. auto.
  - intros (g0 & Hin & Heq & He). split; [exists g0; auto | exact He].
Qed.

Lemma element_remove_diffuse_spec : element_remove_diffuse_spec_stmt.
Proof.
  intros shs n out mx H Hmx k. unfold element_remove_diffuse in H. rewrite Hmx in H. cbn [bind] in H.
  cbv zeta in H. fold k in H. apply mapM_F2 in H.
  eapply F2_impl; [|exact H]. cbv beta. intros s o Hso.
  destruct (am s) as [|l [|l' t]]; try discriminate.
  exists l. split; [reflexivity|].
  destruct ((l <=? mx)%Z && ((mx - k <? l)%Z && (0 <=? l)%Z))%bool.
  - apply bind_inr in Hso. destruct Hso as (se & Hse & Hso).
    destruct se as [|[v i] rest]; [discriminate|].
    inversion Hso; subst. exists ((v, i) :: rest), v, i, rest. auto.
  - inversion Hso; reflexivity.
Qed.

Lemma truhlar_refuses : truhlar_refuses_stmt.
Proof.
  intros month b off g mx Hoff Hg Hmx Hgt. unfold truhlar_calendarize.
  rewrite Hoff. cbn [bind]. rewrite Hg. cbn [bind]. rewrite Hmx. cbn [bind].
  assert (E : (Z.of_nat off >? mx)%Z = true) by (rewrite Z.gtb_ltb; apply Z.ltb_lt; lia).
  rewrite E. reflexivity.
Qed.

Lemma truhlar_unknown_month : truhlar_unknown_month_stmt.
Proof.
  intros month b H. unfold truhlar_calendarize, month_offset. rewrite H. reflexivity.
Qed.

Lemma month_offsets : month_offsets_stmt.
Proof. vm_compute. reflexivity. Qed.

Print Assumptions sorted_exponents_spec.
Print Assumptions free_primitives_spec.
Print Assumptions aug_value_den.
Print Assumptions aug_outside_diffuse.
Print Assumptions aug_outside_steep.
Print Assumptions aug_value_zero.
Print Assumptions augment_shell_spec.
Print Assumptions augment_shell_count.
Print Assumptions augment_equal_outer_refused.
Print Assumptions remove_primitive_spec.
Print Assumptions element_remove_diffuse_spec.
Print Assumptions truhlar_refuses.
Print Assumptions truhlar_unknown_month.
Print Assumptions month_offsets.
