(* Statements about the ORCA writer (write_orca; there is no reader): the writer is total on well-formed input and every
   number of the input is a white-space delimited token of some line of the written text (C04).
   Definitions only; the proofs are in Proofs/OrcaSpec.v. *)
From BSE Require Import Model.Val Model.Text Model.Num Model.Basis Model.Manip Model.Matrix Model.Lut Model.Elements
                        Model.Nwchem Model.NwchemEcp Model.G94 Model.GamessUs Model.Orca
                        Proofs.MatrixDefs Proofs.NwchemDefs Proofs.NwchemEcpDefs.

(* ---------- well-formed input of the writer (what is left after uncontract_general / uncontract_spdf(1) / sort_basis) ---------- *)
(* `floating s` (Proofs/NwchemDefs.v) : is_floating s = true, the string matches helpers.floating_re entirely (this implies:
   non-empty, no white space, a decimal point, bytes < 128 only) *)
Definition orca_shell_ok (s : sshell) : Prop :=
  (* every angular momentum has a letter in lut._amchar_map_hij (26 letters); any number of momenta: the fused sp shell
     ([0; 1], printed as L) and longer fusions are fine *)
  Forall (fun l => (0 <= l < 26)%Z) (am s) /\
  (* any number of coefficient columns (0, 1, 2 for sp ...), each with one coefficient per primitive *)
  Forall (fun c => List.length c = List.length (exps s)) (coefs s) /\
  (* every number matches helpers.floating_re *)
  Forall floating (exps s) /\ Forall (Forall floating) (coefs s).
(* NOT needed: am s <> [], exps s <> [], coefs s <> [], one column per momentum, anything about function type or region *)

Definition orca_pot_ok (p : epot) : Prop :=
  (* at least one angular momentum (the writer takes am[0]), each with a letter in lut._amchar_map_hik (25 letters: the
     potential's own letter is made with hij=False) *)
  p_am p <> [] /\ Forall (fun l => (0 <= l < 25)%Z) (p_am p) /\
  (* one gaussian exponent per r exponent (r exponents are integers by their type: ANY integer) *)
  List.length (p_gexp p) = List.length (p_rexp p) /\
  (* at most ONE coefficient column (four point places: index, gaussian exponent, coefficient, r exponent), as long as
     the others *)
  List.length (p_coef p) <= 1 /\ Forall (fun c => List.length c = List.length (p_rexp p)) (p_coef p) /\
  Forall floating (p_gexp p) /\ Forall (Forall floating) (p_coef p).

Definition orca_ecp_el_ok (e : Z * (Z * list epot)) : Prop :=
  (* an atomic number of the table of lut.py (1 .. 120); at least one potential (max() of the writer) *)
  (1 <= fst e <= 120)%Z /\ snd (snd e) <> [] /\ Forall orca_pot_ok (snd (snd e)).
(* NOT needed: anything about 'ecp_electrons' (any integer is printed with str()), distinct or contiguous momenta *)

Definition orca_ok (els : list (Z * list sshell)) (ecps : list (Z * (Z * list epot))) : Prop :=
  Forall (fun zs => (1 <= fst zs <= 120)%Z /\ Forall orca_shell_ok (snd zs)) els /\
  Forall orca_ecp_el_ok ecps.
(* NOT needed: distinct keys, els <> [], an element having shells at all, any relation between els and ecps *)

(* ---------- statements ---------- *)
(* the writer does not fail on well-formed input *)
Definition orca_write_total_stmt : Prop :=
  forall els ecps, orca_ok els ecps -> exists t, orca_write_all els ecps = inr t.

(* C04, electron part: every exponent and every coefficient of the input - unchanged, the writer converts no exponent marker
   and leaves out nothing - is a white-space delimited token of some line of the written text.
   nw_number_of (Proofs/NwchemDefs.v): x is an exponent or a coefficient of some shell of some element of els *)
Definition orca_no_number_lost_stmt : Prop :=
  forall els ecps t, orca_ok els ecps -> orca_write_all els ecps = inr t ->
    forall x, nw_number_of els x -> exists line, In line (splitlines t) /\ In x (tokens_acc line "").

(* C04, ECP part: every gaussian exponent and every coefficient, unchanged, and the decimal form of every r exponent and of
   every electron count is a white-space delimited token of some line (nw_ecp_number_of, Proofs/NwchemEcpDefs.v) *)
Definition orca_ecp_no_number_lost_stmt : Prop :=
  forall els ecps t, orca_ok els ecps -> orca_write_all els ecps = inr t ->
    forall x, nw_ecp_number_of ecps x -> exists line, In line (splitlines t) /\ In x (tokens_acc line "").

(* ---------- which conditions of orca_ok cannot be dropped ---------- *)
Definition orca_h (ex : list string) (co : list (list string)) : list (Z * list sshell) := [(1%Z, [mkShell "gto" "" [0%Z] ex co])].
Definition orca_p1 (l : Z) : epot := mkEpot "scalar_ecp" [l] [2%Z] ["1.0"] [["0.5"]].
Definition orca_na (pots : list epot) : list (Z * (Z * list epot)) := [(11%Z, (10%Z, pots))].

(* `length c = length (exps s)`: zip() in write_matrix cuts every column to the shortest one - the header says 2
   primitives, one line is written, the exponent 2.0 is LOST without any error (not valid data) *)
Definition orca_ragged_stmt : Prop :=
  orca_write_all (orca_h ["1.0"; "2.0"] [["0.5"]]) [] =
    inr (String.concat nl1 ["$DATA"; ""; "HYDROGEN"; "S   2"; "1         1.0                    0.5"; ""; "$END"]).

(* `0 <= l < 26`: l = 25 is the last momentum with a letter (E); `1 <= z <= 120`; `Forall floating`: a number without a
   decimal point stops the writer (ValueError in _find_point) *)
Definition orca_conditions_stmt : Prop :=
  orca_write_all [(1%Z, [mkShell "gto" "" [25%Z] ["1.0"] [["0.5"]]])] [] =
    inr (String.concat nl1 ["$DATA"; ""; "HYDROGEN"; "E   1"; "1         1.0                    0.5"; ""; "$END"]) /\
  orca_write_all [(1%Z, [mkShell "gto" "" [26%Z] ["1.0"] [["0.5"]]])] [] = inl EIndex /\
  orca_write_all [(1%Z, [mkShell "gto" "" [(-1)%Z] ["1.0"] [["0.5"]]])] [] = inl EIndex /\
  orca_write_all [(0%Z, [mkShell "gto" "" [0%Z] ["1.0"] [["0.5"]]])] [] = inl EKey /\
  orca_write_all [(121%Z, [mkShell "gto" "" [0%Z] ["1.0"] [["0.5"]]])] [] = inl EKey /\
  orca_write_all (orca_h ["10"] [["0.5"]]) [] = inl EValue /\
  orca_write_all (orca_h ["1.0"] [["5"]]) [] = inl EValue.

(* conditions that are NOT needed: no momentum, no coefficient column, no primitive, an element without shells, nothing *)
Definition orca_not_needed_stmt : Prop :=
  orca_write_all [(1%Z, [mkShell "gto" "" [] ["1.0"] []; mkShell "gto" "" [0%Z] [] [[]]]); (2%Z, [])] [] =
    inr (String.concat nl1 ["$DATA"; ""; "HYDROGEN"; "   1"; "1         1.0"; "S   0"; ""; "HELIUM"; ""; "$END"]) /\
  orca_write_all [] [] = inr "".

(* FINDING (valid for the schema and the validator, not in the store): `length (p_coef p) <= 1` - a potential with two
   coefficient columns stops the writer with an IndexError (point_places = [4, 12, 27, 36] has no fifth entry).
   No column at all is written without coefficients. *)
Definition orca_ecp_columns_stmt : Prop :=
  orca_write_all [] (orca_na [mkEpot "scalar_ecp" [0%Z] [2%Z] ["1.0"] [["0.5"]; ["0.25"]]]) = inl EIndex /\
  orca_write_all [] (orca_na [mkEpot "scalar_ecp" [0%Z] [2%Z] ["1.0"] []]) =
    inr (String.concat nl1 [""; ""; "NewECP NA"; "  N_core 10"; "  lmax s"; "  s 1"; "   1      1.0             2"; "end"]).

(* the list lengths: the title says len(r_exponents), zip() cuts every column to the shortest - a surplus gaussian
   exponent / coefficient, or a surplus r exponent, is LOST without an error (not valid data) *)
Definition orca_ecp_lengths_stmt : Prop :=
  orca_write_all [] (orca_na [mkEpot "scalar_ecp" [0%Z] [2%Z] ["1.0"; "3.0"] [["0.5"; "0.25"]]]) =
    inr (String.concat nl1 [""; ""; "NewECP NA"; "  N_core 10"; "  lmax s"; "  s 1"; "   1      1.0            0.5       2"; "end"]) /\
  orca_write_all [] (orca_na [mkEpot "scalar_ecp" [0%Z] [2%Z; 1%Z] ["1.0"] [["0.5"]]]) =
    inr (String.concat nl1 [""; ""; "NewECP NA"; "  N_core 10"; "  lmax s"; "  s 2"; "   1      1.0            0.5       2"; "end"]).

(* `snd (snd e) <> []`: ValueError of max(); `p_am p <> []`: IndexError of am[0]; `0 <= l < 25`: the momentum 24 is the
   last one with a letter for a potential (e), 25 has none - although an electron SHELL with l = 25 is written *)
Definition orca_ecp_conditions_stmt : Prop :=
  orca_write_all [] (orca_na []) = inl EValue /\
  orca_write_all [] (orca_na [mkEpot "scalar_ecp" [] [2%Z] ["1.0"] [["0.5"]]]) = inl EIndex /\
  orca_write_all [] (orca_na [orca_p1 24]) =
    inr (String.concat nl1 [""; ""; "NewECP NA"; "  N_core 10"; "  lmax c"; "  e 1"; "   1      1.0            0.5       2"; "end"]) /\
  orca_write_all [] (orca_na [orca_p1 25]) = inl EIndex /\
  orca_write_all [] [(0%Z, (10%Z, [orca_p1 0]))] = inl EKey /\
  orca_write_all [] (orca_na [mkEpot "scalar_ecp" [0%Z] [2%Z] ["10"] [["0.5"]]]) = inl EValue.

(* OBSERVATION (looks like a defect; no such ECP in the store): the two letters of one block come from different tables.
   `lmax` is made with hij=True, the title of each potential with hij=False: from l = 7 on they disagree - the block
   below says `lmax j` and calls the same potential `k`.  (The electron shells use hij=True: a shell with l = 7 is J.)
   Not conditions: a negative electron count, negative / many-digit r exponents, any exponent marker, unsorted input
   (the potentials are printed lowest momentum first, the elements in the given order) *)
Definition orca_ecp_letters_stmt : Prop :=
  orca_ok [] [(11%Z, ((-10)%Z, [orca_p1 7; orca_p1 0; mkEpot "scalar_ecp" [1%Z] [(-1)%Z; 12%Z] ["1.0e1"; ".5D-3"] [["-0.5E+00"; "0."]]]))] /\
  orca_write_all [] [(11%Z, ((-10)%Z, [orca_p1 7; orca_p1 0; mkEpot "scalar_ecp" [1%Z] [(-1)%Z; 12%Z] ["1.0e1"; ".5D-3"] [["-0.5E+00"; "0."]]]))] =
    inr (String.concat nl1 [""; ""; "NewECP NA"; "  N_core -10"; "  lmax j";
                            "  s 1"; "   1      1.0            0.5       2";
                            "  p 2"; "   1      1.0e1         -0.5E+00   -1"; "   2       .5D-3         0.        12";
                            "  k 1"; "   1      1.0            0.5       2"; "end"]) /\
  orca_write_all [(1%Z, [mkShell "gto_spherical" "" [7%Z] ["1.0"] [["0.5"]]])] [] =
    inr (String.concat nl1 ["$DATA"; ""; "HYDROGEN"; "J   1"; "1         1.0                    0.5"; ""; "$END"]).

(* the whole file: `$END` and `end` are NOT followed by a newline; the next ECP block begins with two newlines *)
Definition orca_two_ecps_stmt : Prop :=
  orca_write_all (orca_h ["1.0"] [["0.5"]]) [(3%Z, (2%Z, [orca_p1 0])); (11%Z, (10%Z, [orca_p1 0]))] =
    inr (String.concat nl1 ["$DATA"; ""; "HYDROGEN"; "S   1"; "1         1.0                    0.5"; ""; "$END"; "";
                            "NewECP LI"; "  N_core 2"; "  lmax s"; "  s 1"; "   1      1.0            0.5       2"; "end"; "";
                            "NewECP NA"; "  N_core 10"; "  lmax s"; "  s 1"; "   1      1.0            0.5       2"; "end"]).

(* ---------- concrete instances from the store ---------- *)
(* LANL2DZ for H (electron shells only) and Na (electron shells and ECP) as write_orca sees it; orca_ex_text is, byte for
   byte, basis_set_exchange.get_basis('lanl2dz', elements=[1, 11], fmt='orca', header=False) *)
Definition orca_ex_els : list (Z * list sshell) :=
  [((1)%Z, [(mkShell "gto" "valence" [(0)%Z] ["19.2384000"; "2.8987000"; "0.6535000"] [["0.0328280"; "0.2312040"; "0.8172260"]]);
     (mkShell "gto" "valence" [(0)%Z] ["0.1776000"] [["1.0000000"]])]);
   ((11)%Z, [(mkShell "gto" "valence" [(0)%Z] ["0.4972000"; "0.0560000"] [["-0.2753574"; "1.0989969"]]);
     (mkShell "gto" "valence" [(0)%Z] ["0.0221000"] [["1.0000000"]]);
     (mkShell "gto" "valence" [(1)%Z] ["0.6697000"; "0.0636000"] [["-0.0683845"; "1.0140550"]]);
     (mkShell "gto" "valence" [(1)%Z] ["0.0204000"] [["1.0000000"]])])].
Definition orca_ex_ecps : list (Z * (Z * list epot)) :=
  [((11)%Z, ((10)%Z, [(mkEpot "scalar_ecp" [(2)%Z] [(1)%Z; (2)%Z; (2)%Z; (2)%Z; (2)%Z] ["175.5502590"; "35.0516791"; "7.9060270"; "2.3365719"; "0.7799867"] [["-10.0000000"; "-47.4902024"; "-17.2283007"; "-6.0637782"; "-0.7299393"]]);
     (mkEpot "scalar_ecp" [(0)%Z] [(0)%Z; (1)%Z; (2)%Z; (2)%Z; (2)%Z] ["243.3605846"; "41.5764759"; "13.2649167"; "3.6797165"; "0.9764209"] [["3.0000000"; "36.2847626"; "72.9304880"; "23.8401151"; "6.0123861"]]);
     (mkEpot "scalar_ecp" [(1)%Z] [(0)%Z; (1)%Z; (2)%Z; (2)%Z; (2)%Z; (2)%Z] ["1257.2650682"; "189.6248810"; "54.5247759"; "13.7449955"; "3.6813579"; "0.9461106"] [["5.0000000"; "117.4495683"; "423.3986704"; "109.3247297"; "31.3701656"; "7.1241813"]])]))].
Definition orca_ex_text : string :=
  String.concat nl1
   ["$DATA";
    "";
    "HYDROGEN";
    "S   3";
    "1        19.2384000              0.0328280";
    "2         2.8987000              0.2312040";
    "3         0.6535000              0.8172260";
    "S   1";
    "1         0.1776000              1.0000000";
    "";
    "SODIUM";
    "S   2";
    "1         0.4972000             -0.2753574";
    "2         0.0560000              1.0989969";
    "S   1";
    "1         0.0221000              1.0000000";
    "P   2";
    "1         0.6697000             -0.0683845";
    "2         0.0636000              1.0140550";
    "P   1";
    "1         0.0204000              1.0000000";
    "";
    "$END";
    "";
    "NewECP NA";
    "  N_core 10";
    "  lmax d";
    "  s 5";
    "   1    243.3605846      3.0000000 0";
    "   2     41.5764759     36.2847626 1";
    "   3     13.2649167     72.9304880 2";
    "   4      3.6797165     23.8401151 2";
    "   5      0.9764209      6.0123861 2";
    "  p 6";
    "   1   1257.2650682      5.0000000 0";
    "   2    189.6248810    117.4495683 1";
    "   3     54.5247759    423.3986704 2";
    "   4     13.7449955    109.3247297 2";
    "   5      3.6813579     31.3701656 2";
    "   6      0.9461106      7.1241813 2";
    "  d 5";
    "   1    175.5502590    -10.0000000 1";
    "   2     35.0516791    -47.4902024 2";
    "   3      7.9060270    -17.2283007 2";
    "   4      2.3365719     -6.0637782 2";
    "   5      0.7799867     -0.7299393 2";
    "end"].

(* 6-31G for C as write_orca sees it (the sp shells stay fused and are labelled L; numbers with an exponent marker);
   byte for byte basis_set_exchange.get_basis('6-31g', elements=[6], fmt='orca', header=False) *)
Definition orca_sp_els : list (Z * list sshell) :=
  [((6)%Z, [(mkShell "gto" "valence" [(0)%Z] ["0.3047524880E+04"; "0.4573695180E+03"; "0.1039486850E+03"; "0.2921015530E+02"; "0.9286662960E+01"; "0.3163926960E+01"] [["0.1834737132E-02"; "0.1403732281E-01"; "0.6884262226E-01"; "0.2321844432E+00"; "0.4679413484E+00"; "0.3623119853E+00"]]);
     (mkShell "gto" "valence" [(0)%Z; (1)%Z] ["0.7868272350E+01"; "0.1881288540E+01"; "0.5442492580E+00"] [["-0.1193324198E+00"; "-0.1608541517E+00"; "0.1143456438E+01"]; ["0.6899906659E-01"; "0.3164239610E+00"; "0.7443082909E+00"]]);
     (mkShell "gto" "valence" [(0)%Z; (1)%Z] ["0.1687144782E+00"] [["0.1000000000E+01"]; ["0.1000000000E+01"]])])].
Definition orca_sp_ecps : list (Z * (Z * list epot)) :=
  [].
Definition orca_sp_text : string :=
  String.concat nl1
   ["$DATA";
    "";
    "CARBON";
    "S   6";
    "1         0.3047524880E+04       0.1834737132E-02";
    "2         0.4573695180E+03       0.1403732281E-01";
    "3         0.1039486850E+03       0.6884262226E-01";
    "4         0.2921015530E+02       0.2321844432E+00";
    "5         0.9286662960E+01       0.4679413484E+00";
    "6         0.3163926960E+01       0.3623119853E+00";
    "L   3";
    "1         0.7868272350E+01      -0.1193324198E+00       0.6899906659E-01";
    "2         0.1881288540E+01      -0.1608541517E+00       0.3164239610E+00";
    "3         0.5442492580E+00       0.1143456438E+01       0.7443082909E+00";
    "L   1";
    "1         0.1687144782E+00       0.1000000000E+01       0.1000000000E+01";
    "";
    "$END"].

Definition orca_example_stmt : Prop :=
  orca_ok orca_ex_els orca_ex_ecps /\
  orca_write_all orca_ex_els orca_ex_ecps = inr orca_ex_text /\
  orca_ok orca_sp_els orca_sp_ecps /\
  orca_write_all orca_sp_els orca_sp_ecps = inr orca_sp_text.
