(* Proofs of the statements of Proofs/CrystalWDefs.v.  The written text is shown to be the lines all_lines (each without a line
   boundary inside), and every number is found as a token of its line: the electron numbers in a row of write_matrix
   (mat_facts of Proofs/MolcasSpec.v, plus the marker conversion), the ECP numbers in a `g c r` line. *)
From BSE Require Import Model.Val Model.Text Model.Num Model.Basis Model.Manip Model.Matrix Gen.GenLut Model.Lut
                        Model.Elements Model.Nwchem Model.NwchemEcp Model.Molcas Model.CrystalW
                        Proofs.MatrixDefs Proofs.NwchemDefs Proofs.MolcasDefs Proofs.CrystalWDefs.
From Coq Require Import NArith Nnat Znat.
From BSE Require Import Proofs.HeaderSpec Proofs.PruneFS Proofs.MatrixSpec Proofs.NwchemSpec Proofs.NwchemEcpSpec
                        Proofs.TurbomoleSpec Proofs.G94Spec Proofs.GamessUsSpec Proofs.MolcasSpec.

(* ================================================================== *)
(* 1. small helpers                                                    *)
(* ================================================================== *)
Lemma fl_good : forall x, floating x -> good_line x.
Proof. intros x H. apply (cell_nobd (CStr x)); [exact (floating_is_cell x H) | exact (floating_ascii x H)]. Qed.

Lemma fl_tok : forall x, floating x -> tok_ok x.
Proof. intros x H. exact (cell_ok_tok (CStr x) (floating_is_cell x H)). Qed.

Lemma Zs_tok : forall z, tok_ok (Z_to_string z).
Proof. intros z. exact (cell_ok_tok (CInt z) I). Qed.

Lemma tokens_word_sp : forall w rest, tok_ok w -> tokens_acc (w +++ String " " rest) "" = w :: tokens_acc rest "".
Proof.
  intros w rest [Hne Hs]. rewrite (tokens_word w _ "" Hs), sapp_nil_r. cbn [tokens_acc]. change (is_space " ") with true. cbv iota.
  destruct (srev w) as [|a r] eqn:E.
  - exfalso. apply Hne. rewrite <- (srev_involutive w), E. reflexivity.
  - rewrite <- E, srev_involutive. reflexivity.
Qed.

Lemma tokens_one : forall w, tok_ok w -> tokens_acc w "" = [w].
Proof. intros w H. exact (tokens_sp_word 0 w H). Qed.

(* ================================================================== *)
(* 2. the table of a shell with convert_exp=True                       *)
(* ================================================================== *)
Definition crows_of (M : list (list string)) (pps : list Z) : list string := map d_convert (rows_of_mat M pps).

Lemma mat_facts_conv : forall M pps, Forall (Forall floating) M -> List.length M <= List.length pps ->
  leftpad_check (map (map CStr) M) pps = inr tt /\
  write_matrix (map (map CStr) M) pps true = inr (unlines (crows_of M pps)) /\
  Forall good_line (crows_of M pps) /\
  Forall2 (fun srow line => tokens_acc line "" = map d_convert srow) (transpose M) (crows_of M pps).
Proof.
  intros M pps HM Hlen. destruct (mat_facts M pps HM Hlen) as [A1 [A2 [A3 A4]]].
  split; [exact A1|]. split; [|split].
  - unfold write_matrix in *.
    destruct (mapM (fun row => write_row row pps true "") (transpose_cells (map (map CStr) M))) as [e|rows]; [discriminate A2|].
    unfold bind, ok in *. inversion A2 as [Hrows]. f_equal.
    unfold d_convert at 1. rewrite Hrows. unfold unlines, crows_of, d_convert. apply smap_lines. reflexivity.
  - unfold crows_of. rewrite Forall_forall in *. intros r Hr. apply in_map_iff in Hr. destruct Hr as [r0 [<- Hr0]].
    unfold good_line, d_convert. rewrite sall_smap. apply (sall_impl nobd); [exact nobd_dconv | apply A3, Hr0].
  - unfold crows_of. apply (Forall2_map_r_impl _ _ _ _ _ _ _ _ A4). intros srow line Ht. cbv beta in *.
    change (tokens_acc (smap dconv_c line) (smap dconv_c "") = map (smap dconv_c) srow).
    rewrite (tokens_smap dconv_c dconv_c_space line ""), Ht. reflexivity.
Qed.

(* ================================================================== *)
(* 3. the lines of a shell                                             *)
(* ================================================================== *)
Definition latv (s : sshell) : Z := match crystal_lat (am s) with inr l => l | inl _ => 0%Z end.
Definition sh_desc (s : sshell) : string :=
  "0 " +++ Z_to_string (latv s) +++ " " +++ nat_str (List.length (exps s)) +++ " 0 1.0".
Definition sh_mat (s : sshell) : list (list string) := exps s :: coefs s.
Definition sh_pps (s : sshell) : list Z := nw_point_places (S (List.length (coefs s))).
Definition csh_lines (s : sshell) : list string := sh_desc s :: crows_of (sh_mat s) (sh_pps s).

Lemma shell_mat_facts : forall s, crystal_shell_ok s ->
  leftpad_check (map (map CStr) (sh_mat s)) (sh_pps s) = inr tt /\
  write_matrix (map (map CStr) (sh_mat s)) (sh_pps s) true = inr (unlines (crows_of (sh_mat s) (sh_pps s))) /\
  Forall good_line (crows_of (sh_mat s) (sh_pps s)) /\
  Forall2 (fun srow line => tokens_acc line "" = map d_convert srow) (transpose (sh_mat s)) (crows_of (sh_mat s) (sh_pps s)).
Proof.
  intros s [_ [_ [He Hc]]]. apply mat_facts_conv.
  - constructor; assumption.
  - unfold sh_mat, sh_pps. rewrite pps_length. cbn [List.length]. lia.
Qed.

Lemma lat_ok : forall s, crystal_shell_ok s -> crystal_lat (am s) = inr (latv s).
Proof.
  intros s [[[l Hl]|Hl] _]; unfold latv; rewrite Hl; reflexivity.
Qed.

Lemma write_shell_lines_c : forall s, crystal_shell_ok s -> crystal_write_shell s = inr (unlines (csh_lines s)).
Proof.
  intros s Hs. destruct (shell_mat_facts s Hs) as [A1 [A2 _]].
  unfold crystal_write_shell. rewrite (lat_ok s Hs). unfold bind.
  change (map CStr (exps s) :: map (map CStr) (coefs s)) with (map (map CStr) (sh_mat s)). fold (sh_pps s).
  rewrite A1, A2. unfold ok, csh_lines, sh_desc. rewrite unlines_cons, !sapp_assoc. reflexivity.
Qed.

Lemma csh_lines_good : forall s, crystal_shell_ok s -> Forall good_line (csh_lines s).
Proof.
  intros s Hs. destruct (shell_mat_facts s Hs) as [_ [_ [G _]]]. unfold csh_lines. constructor; [|exact G].
  unfold sh_desc. apply (good_app "0 "); [reflexivity|]. apply good_app; [apply Z_to_string_good|].
  apply (good_app " "); [reflexivity|]. apply good_app; [apply nat_str_nobd | reflexivity].
Qed.

(* ================================================================== *)
(* 4. the lines of the INPUT block                                     *)
(* ================================================================== *)
Definition term_line (t : string * string * Z) : string :=
  fst (fst t) +++ " " +++ snd (fst t) +++ " " +++ Z_to_string (snd t).
Definition pot_terms (p : epot) : list (string * string * Z) :=
  match p_coef p with c0 :: _ => combine (combine (p_gexp p) c0) (p_rexp p) | [] => [] end.
Definition pot_lines (p : epot) : list string := map term_line (pot_terms p).
Definition am_sel (a : Z) (p : epot) : bool := list_Z_eqb (p_am p) [a].
Definition block (pots : list epot) (a : Z) : list string := flat_map pot_lines (filter (am_sel a) pots).
Definition blocks (pots : list epot) : list (list string) := map (block pots) [0; 1; 2; 3; 4]%Z.
Definition input_line (zeff : Z) (pots : list epot) : string :=
  Z_to_string zeff +++ " 0 " +++ sjoin " " (map (fun b => nat_str (List.length b)) (blocks pots)).
Definition ecp_lines (z : Z) (e : Z * list epot) : list string :=
  "INPUT" :: input_line (z - fst e) (snd e) :: concat (blocks (snd e)).

Lemma crystal_terms_ok : forall g c r, List.length c = List.length g -> List.length r = List.length g ->
  crystal_terms g c r = inr (map term_line (combine (combine g c) r)).
Proof.
  induction g as [|gi g IH]; intros c r Hc Hr; [reflexivity|].
  destruct c as [|ci c]; [discriminate|]. destruct r as [|ri r]; [discriminate|].
  cbn [crystal_terms]. rewrite (IH c r); [|cbn in Hc; lia | cbn in Hr; lia]. reflexivity.
Qed.

Lemma pot_terms_ok : forall p, crystal_pot_ok p -> crystal_pot_terms p = inr (pot_lines p).
Proof.
  intros p [_ [[c0 [Ec Hl]] [Hr _]]]. unfold crystal_pot_terms, pot_lines, pot_terms. rewrite Ec.
  apply crystal_terms_ok; assumption.
Qed.

Lemma am_block_ok : forall pots a, Forall crystal_pot_ok pots -> crystal_am_block pots a = inr (block pots a).
Proof.
  intros pots a H. unfold crystal_am_block. fold (am_sel a).
  rewrite (mapM_map_ok _ _ crystal_pot_terms pot_lines).
  - unfold bind, ok, block. rewrite flat_map_concat_map. reflexivity.
  - intros p Hp. apply filter_In in Hp. destruct Hp as [Hp _]. rewrite Forall_forall in H. apply pot_terms_ok, H, Hp.
Qed.

Definition pot_a (p : epot) : Z := hd 0%Z (p_am p).

Lemma max_am_ok_c : forall pots, pots <> [] -> Forall crystal_pot_ok pots ->
  ecp_max_am pots = inr (zmax (map pot_a pots)) /\ (zmax (map pot_a pots) <= 4)%Z.
Proof.
  intros pots Hne H. split.
  - unfold ecp_max_am. rewrite (mapM_map_ok _ _ am_first pot_a pots).
    + unfold bind. destruct pots; [congruence | reflexivity].
    + intros p Hp. rewrite Forall_forall in H. destruct (H p Hp) as [[a [Ea _]] _]. unfold am_first, pot_a. rewrite Ea. reflexivity.
  - destruct (zmax_facts (map pot_a pots)) as [Hin _]; [destruct pots; [congruence | discriminate]|].
    apply in_map_iff in Hin. destruct Hin as [p [Ep Hp]]. rewrite Forall_forall in H.
    destruct (H p Hp) as [[a [Ea Ha]] _]. rewrite <- Ep. unfold pot_a. rewrite Ea. cbn [hd]. lia.
Qed.

Lemma write_ecp_lines : forall z nelec pots, pots <> [] -> Forall crystal_pot_ok pots ->
  crystal_write_ecp z (nelec, pots) = inr (unlines (ecp_lines z (nelec, pots))).
Proof.
  intros z nelec pots Hne H. destruct (max_am_ok_c pots Hne H) as [Em Hm].
  unfold crystal_write_ecp. rewrite Em. unfold bind.
  assert (E4 : (4 <? zmax (map pot_a pots))%Z = false) by lia. rewrite E4.
  rewrite (mapM_map_ok _ _ (crystal_am_block pots) (block pots)); [|intros a _; apply am_block_ok, H].
  fold (blocks pots). unfold ok, ecp_lines, input_line. cbn [fst snd]. rewrite !unlines_cons. unfold unlines.
  rewrite !sapp_assoc. reflexivity.
Qed.

Lemma term_line_good : forall p t, crystal_pot_ok p -> In t (pot_terms p) -> good_line (term_line t) /\
  tokens_acc (term_line t) "" = [fst (fst t); snd (fst t); Z_to_string (snd t)].
Proof.
  intros p [[g c] r] [_ [[c0 [Ec _]] [_ [Hg Hc]]]] Hin. unfold pot_terms in Hin. rewrite Ec in Hin.
  pose proof (in_combine_l _ _ _ _ Hin) as H1. pose proof (in_combine_l _ _ _ _ H1) as Hgi. pose proof (in_combine_r _ _ _ _ H1) as Hci.
  rewrite Forall_forall in Hg. specialize (Hg g Hgi).
  rewrite Ec in Hc. inversion Hc as [|? ? Hc0 _]; subst. rewrite Forall_forall in Hc0. specialize (Hc0 c Hci).
  unfold term_line. cbn [fst snd]. split.
  - apply good_app; [apply fl_good, Hg|]. apply (good_app " "); [reflexivity|]. apply good_app; [apply fl_good, Hc0|].
    apply (good_app " "); [reflexivity | apply Z_to_string_good].
  - change (g +++ " " +++ c +++ " " +++ Z_to_string r) with (g +++ String " " (c +++ String " " (Z_to_string r))).
    rewrite (tokens_word_sp g _ (fl_tok g Hg)), (tokens_word_sp c _ (fl_tok c Hc0)), (tokens_one _ (Zs_tok r)). reflexivity.
Qed.

Lemma block_in : forall pots p l, In p pots -> crystal_pot_ok p -> In l (pot_lines p) -> In l (concat (blocks pots)).
Proof.
  intros pots p l Hp [[a [Ea Ha]] _] Hl. apply in_concat. exists (block pots a). split.
  - unfold blocks. apply in_map. cbn [In]. lia.
  - unfold block. apply in_flat_map. exists p. split; [|exact Hl]. apply filter_In. split; [exact Hp|].
    unfold am_sel. rewrite Ea. unfold list_Z_eqb. destruct (list_eq_dec Z.eq_dec [a] [a]); [reflexivity | congruence].
Qed.

Lemma blocks_good : forall pots, Forall crystal_pot_ok pots -> Forall good_line (concat (blocks pots)).
Proof.
  intros pots H. rewrite Forall_forall. intros l Hl. apply in_concat in Hl. destruct Hl as [b [Hb Hl]].
  unfold blocks in Hb. apply in_map_iff in Hb. destruct Hb as [a [<- _]]. unfold block in Hl. apply in_flat_map in Hl.
  destruct Hl as [p [Hp Hl]]. apply filter_In in Hp. destruct Hp as [Hp _]. unfold pot_lines in Hl. apply in_map_iff in Hl.
  destruct Hl as [t [<- Ht]]. rewrite Forall_forall in H. apply (term_line_good p t (H p Hp) Ht).
Qed.

Lemma input_line_good : forall zeff pots, good_line (input_line zeff pots).
Proof.
  intros zeff pots. unfold input_line. apply good_app; [apply Z_to_string_good|]. apply (good_app " 0 "); [reflexivity|].
  apply sjoin_good. rewrite Forall_forall. intros x Hx. apply in_map_iff in Hx. destruct Hx as [b [<- _]]. apply nat_str_nobd.
Qed.

Lemma input_line_tokens : forall zeff pots, exists r, tokens_acc (input_line zeff pots) "" = Z_to_string zeff :: "0" :: r.
Proof.
  intros zeff pots. unfold input_line. eexists.
  change (Z_to_string zeff +++ " 0 " +++ ?X) with (Z_to_string zeff +++ String " " ("0" +++ String " " X)).
  rewrite (tokens_word_sp _ _ (Zs_tok zeff)). rewrite (tokens_word_sp "0"); [reflexivity|]. split; [discriminate | reflexivity].
Qed.

(* ================================================================== *)
(* 5. the lines of an element and of the file                          *)
(* ================================================================== *)
Definition el_t := (Z * (option (list sshell) * option (Z * list epot)))%type.
Definition nat_of (e : el_t) : Z := match snd (snd e) with Some _ => (fst e + 200)%Z | None => fst e end.
Definition shs_of (e : el_t) : list sshell := match fst (snd e) with Some shs => shs | None => [] end.
Definition head_line (e : el_t) : string := Z_to_string (nat_of e) +++ " " +++ nat_str (List.length (shs_of e)).
Definition cel_lines (e : el_t) : list string :=
  head_line e :: match snd (snd e) with Some ep => ecp_lines (fst e) ep | None => [] end ++ flat_map csh_lines (shs_of e).
Definition all_lines (els : list el_t) : list string := flat_map cel_lines els ++ ["99 0"].

Lemma write_element_lines_c : forall e, crystal_el_ok e -> crystal_write_element e = inr (unlines (cel_lines e)).
Proof.
  intros [z [d ecp]] [Hz [[shs [Ed Hshs]] Hecp]]. cbn [fst snd] in *. subst d.
  unfold crystal_write_element. assert (E99 : (99 <=? z)%Z = false) by lia. rewrite E99.
  assert (Hbody : mapM crystal_write_shell shs = inr (map (fun s => unlines (csh_lines s)) shs)).
  { apply mapM_map_ok. intros s Hs. apply write_shell_lines_c. rewrite Forall_forall in Hshs. apply Hshs, Hs. }
  destruct ecp as [[nelec pots]|].
  - destruct Hecp as [Hne Hp]. rewrite (write_ecp_lines z nelec pots Hne Hp). unfold bind. rewrite Hbody.
    unfold ok, cel_lines, head_line, nat_of, shs_of. cbn [fst snd]. rewrite unlines_cons, unlines_app, unlines_flat_map, !sapp_assoc.
    reflexivity.
  - unfold bind, ok. rewrite Hbody. unfold cel_lines, head_line, nat_of, shs_of. cbn [fst snd app].
    rewrite unlines_cons, unlines_flat_map, !sapp_assoc. reflexivity.
Qed.

Lemma write_lines_c : forall els, crystal_ok els -> crystal_write_all els = inr (unlines (all_lines els)).
Proof.
  intros els H. unfold crystal_write_all.
  rewrite (mapM_map_ok _ _ _ (fun e => unlines (cel_lines e)) els).
  - unfold bind, ok, all_lines. rewrite unlines_app, unlines_flat_map. reflexivity.
  - intros e Hin. apply write_element_lines_c. unfold crystal_ok in H. rewrite Forall_forall in H. apply H, Hin.
Qed.

(* ---------- crystal_write_total ---------- *)
Lemma crystal_write_total : crystal_write_total_stmt.
Proof. intros els H. eexists. apply write_lines_c, H. Qed.

Lemma cel_lines_good : forall e, crystal_el_ok e -> Forall good_line (cel_lines e).
Proof.
  intros [z [d ecp]] [Hz [[shs [Ed Hshs]] Hecp]]. cbn [fst snd] in *. subst d. unfold cel_lines, shs_of. cbn [fst snd].
  constructor.
  - unfold head_line. apply good_app; [apply Z_to_string_good|]. apply (good_app " "); [reflexivity | apply nat_str_nobd].
  - apply Forall_app. split.
    + destruct ecp as [[nelec pots]|]; [|constructor]. destruct Hecp as [_ Hp]. unfold ecp_lines. cbn [fst snd].
      constructor; [reflexivity|]. constructor; [apply input_line_good | apply blocks_good, Hp].
    + apply flat_map_Forall. intros s Hs. rewrite Forall_forall in Hshs. apply csh_lines_good, Hshs, Hs.
Qed.

Lemma all_lines_good_c : forall els, crystal_ok els -> Forall good_line (all_lines els).
Proof.
  intros els H. unfold all_lines. apply Forall_app. split; [|repeat constructor].
  apply flat_map_Forall. intros e Hin. unfold crystal_ok in H. rewrite Forall_forall in H. apply cel_lines_good, H, Hin.
Qed.

Lemma written_lines_c : forall els t, crystal_ok els -> crystal_write_all els = inr t -> splitlines t = all_lines els.
Proof.
  intros els t H E. rewrite (write_lines_c els H) in E. inversion E; subst. apply splitlines_unlines, all_lines_good_c, H.
Qed.

Lemma in_all_lines : forall els e l, In e els -> In l (cel_lines e) -> In l (all_lines els).
Proof. intros els e l He Hl. unfold all_lines. apply in_or_app. left. apply in_flat_map. exists e. split; assumption. Qed.

(* ---------- crystal_no_number_lost ---------- *)
Lemma crystal_no_number_lost : crystal_no_number_lost_stmt.
Proof.
  intros els t H E x [e [shs [s [He [Hsome [Hs Hx]]]]]].
  rewrite (written_lines_c els t H E).
  unfold crystal_ok in H. rewrite Forall_forall in H. destruct (H e He) as [_ [[shs' [Ed Hshs]] _]].
  rewrite Hsome in Ed. inversion Ed; subst shs'. rewrite Forall_forall in Hshs. pose proof (Hshs s Hs) as Hok.
  destruct (shell_mat_facts s Hok) as [_ [_ [_ F2]]].
  destruct Hok as [_ [HcF _]].
  assert (HF : Forall (fun r => List.length r = List.length (exps s)) (sh_mat s)) by (constructor; [reflexivity | exact HcF]).
  assert (Hcol : exists c, In c (sh_mat s) /\ In x c).
  { destruct Hx as [Hx|[c [Hc Hx]]]; [exists (exps s); split; [now left | exact Hx] | exists c; split; [now right | exact Hx]]. }
  destruct Hcol as [c [Hc Hxc]].
  destruct (transpose_has _ _ c x HF Hc Hxc) as [row [Hrow Hxr]].
  destruct (Forall2_In_l _ _ _ _ _ row F2 Hrow) as [line [Hline Htok]].
  exists line. split; [|rewrite Htok; apply in_map; exact Hxr].
  apply (in_all_lines els e line He). unfold cel_lines. right. apply in_or_app. right. unfold shs_of. rewrite Hsome.
  apply in_flat_map. exists s. split; [exact Hs|]. right. exact Hline.
Qed.

(* ---------- crystal_ecp_no_number_lost ---------- *)
Lemma combine3_l : forall (g c : list string) (r : list Z) x, List.length c = List.length g -> List.length r = List.length g ->
  In x g -> exists t, In t (combine (combine g c) r) /\ fst (fst t) = x.
Proof.
  induction g as [|gi g IH]; intros c r x Hc Hr Hx; [destruct Hx|].
  destruct c as [|ci c]; [discriminate|]. destruct r as [|ri r]; [discriminate|]. cbn [combine].
  destruct Hx as [<-|Hx]; [exists (gi, ci, ri); split; [now left | reflexivity]|].
  destruct (IH c r x) as [t [Ht Hf]]; [cbn in Hc; lia | cbn in Hr; lia | exact Hx|]. exists t. split; [now right | exact Hf].
Qed.
Lemma combine3_m : forall (g c : list string) (r : list Z) x, List.length c = List.length g -> List.length r = List.length g ->
  In x c -> exists t, In t (combine (combine g c) r) /\ snd (fst t) = x.
Proof.
  induction g as [|gi g IH]; intros c r x Hc Hr Hx; [destruct c; [destruct Hx | discriminate]|].
  destruct c as [|ci c]; [discriminate|]. destruct r as [|ri r]; [discriminate|]. cbn [combine].
  destruct Hx as [<-|Hx]; [exists (gi, ci, ri); split; [now left | reflexivity]|].
  destruct (IH c r x) as [t [Ht Hf]]; [cbn in Hc; lia | cbn in Hr; lia | exact Hx|]. exists t. split; [now right | exact Hf].
Qed.
Lemma combine3_r : forall (g c : list string) (r : list Z) x, List.length c = List.length g -> List.length r = List.length g ->
  In x r -> exists t, In t (combine (combine g c) r) /\ snd t = x.
Proof.
  induction g as [|gi g IH]; intros c r x Hc Hr Hx; [destruct r; [destruct Hx | discriminate]|].
  destruct c as [|ci c]; [discriminate|]. destruct r as [|ri r]; [discriminate|]. cbn [combine].
  destruct Hx as [<-|Hx]; [exists (gi, ci, ri); split; [now left | reflexivity]|].
  destruct (IH c r x) as [t [Ht Hf]]; [cbn in Hc; lia | cbn in Hr; lia | exact Hx|]. exists t. split; [now right | exact Hf].
Qed.

(* a term of a potential of an element is a line of the text *)
Lemma term_in_text : forall els e nelec pots p t, crystal_ok els -> In e els -> snd (snd e) = Some (nelec, pots) -> In p pots ->
  In t (pot_terms p) ->
  crystal_pot_ok p /\ In (term_line t) (all_lines els) /\
  tokens_acc (term_line t) "" = [fst (fst t); snd (fst t); Z_to_string (snd t)].
Proof.
  intros els e nelec pots p t H He Hecp Hp Ht.
  unfold crystal_ok in H. rewrite Forall_forall in H. destruct (H e He) as [_ [_ Hpots]]. rewrite Hecp in Hpots.
  destruct Hpots as [_ Hpots]. rewrite Forall_forall in Hpots. pose proof (Hpots p Hp) as Hok.
  split; [exact Hok|]. split; [|apply (term_line_good p t Hok Ht)].
  apply (in_all_lines els e _ He). unfold cel_lines. right. apply in_or_app. left. rewrite Hecp. unfold ecp_lines. cbn [fst snd].
  right. right. apply (block_in pots p _ Hp Hok). unfold pot_lines. apply in_map, Ht.
Qed.

Lemma crystal_ecp_no_number_lost : crystal_ecp_no_number_lost_stmt.
Proof.
  intros els t H E. rewrite (written_lines_c els t H E). split; [|split].
  - intros x [e [nelec [pots [p [He [Hecp [Hp Hx]]]]]]].
    assert (Hok : crystal_pot_ok p).
    { unfold crystal_ok in H. rewrite Forall_forall in H. destruct (H e He) as [_ [_ Hpots]]. rewrite Hecp in Hpots.
      destruct Hpots as [_ Hpots]. rewrite Forall_forall in Hpots. apply Hpots, Hp. }
    destruct Hok as [_ [[c0 [Ec Hl]] [Hr _]]].
    assert (Ht : exists tm, In tm (pot_terms p) /\ (fst (fst tm) = x \/ snd (fst tm) = x)).
    { unfold pot_terms. rewrite Ec. destruct Hx as [Hx|[c [Hc Hx]]].
      - destruct (combine3_l (p_gexp p) c0 (p_rexp p) x Hl Hr Hx) as [tm [A B]]. exists tm. split; [exact A | now left].
      - rewrite Ec in Hc. destruct Hc as [<-|[]].
        destruct (combine3_m (p_gexp p) c0 (p_rexp p) x Hl Hr Hx) as [tm [A B]]. exists tm. split; [exact A | now right]. }
    destruct Ht as [tm [Htm Hsel]].
    destruct (term_in_text els e nelec pots p tm H He Hecp Hp Htm) as [_ [Hin Htok]].
    exists (term_line tm). split; [exact Hin|]. rewrite Htok. destruct Hsel as [<-|<-]; [now left | right; now left].
  - intros n [e [nelec [pots [p [He [Hecp [Hp Hn]]]]]]].
    assert (Hok : crystal_pot_ok p).
    { unfold crystal_ok in H. rewrite Forall_forall in H. destruct (H e He) as [_ [_ Hpots]]. rewrite Hecp in Hpots.
      destruct Hpots as [_ Hpots]. rewrite Forall_forall in Hpots. apply Hpots, Hp. }
    destruct Hok as [_ [[c0 [Ec Hl]] [Hr _]]].
    destruct (combine3_r (p_gexp p) c0 (p_rexp p) n Hl Hr Hn) as [tm [A B]].
    assert (Htm : In tm (pot_terms p)) by (unfold pot_terms; rewrite Ec; exact A).
    destruct (term_in_text els e nelec pots p tm H He Hecp Hp Htm) as [_ [Hin Htok]].
    exists (term_line tm). split; [exact Hin|]. rewrite Htok, B. right. right. now left.
  - intros e nelec pots He Hecp. split.
    + exists (head_line e). eexists. split; [apply (in_all_lines els e _ He); now left|].
      unfold head_line, nat_of. rewrite Hecp.
      change (Z_to_string (fst e + 200) +++ " " +++ ?X) with (Z_to_string (fst e + 200) +++ String " " X).
      rewrite (tokens_word_sp _ _ (Zs_tok _)). reflexivity.
    + destruct (input_line_tokens (fst e - nelec) pots) as [r Hr]. exists (input_line (fst e - nelec) pots), r. split; [|exact Hr].
      apply (in_all_lines els e _ He). unfold cel_lines. right. apply in_or_app. left. rewrite Hecp. unfold ecp_lines. cbn [fst snd].
      right. now left.
Qed.

(* ================================================================== *)
(* 6. Z >= 99                                                          *)
(* ================================================================== *)
Lemma high_element : forall e, (99 <= fst e)%Z -> crystal_write_element e = inr "".
Proof. intros [z [d ecp]] H. cbn [fst] in H. unfold crystal_write_element. assert (E : (99 <=? z)%Z = true) by lia. now rewrite E. Qed.

Lemma mapM_high : forall lo hi, Forall (fun e => (99 <= fst e)%Z) hi ->
  mapM crystal_write_element (lo ++ hi) =
  match mapM crystal_write_element lo with inl e => inl e | inr parts => inr (parts ++ map (fun _ => "") hi) end.
Proof.
  induction lo as [|a lo IH]; intros hi H.
  - cbn [app mapM]. unfold ok. induction hi as [|h hi IHh]; [reflexivity|]. inversion H as [|? ? Hh Hhi]; subst.
    cbn [mapM]. rewrite (high_element h Hh). unfold bind. rewrite (IHh Hhi). reflexivity.
  - cbn [app mapM]. destruct (crystal_write_element a) as [e|b]; [reflexivity|]. unfold bind. rewrite (IH hi H).
    destruct (mapM crystal_write_element lo); reflexivity.
Qed.

Lemma concat_empties : forall (A : Type) (l : list A) parts,
  String.concat "" (parts ++ map (fun _ => "") l) = String.concat "" parts.
Proof.
  intros A l parts. rewrite concat_app_s. induction l as [|x l IH]; [apply sapp_nil_r|].
  cbn [map]. change (String.concat "" ("" :: map (fun _ : A => "") l)) with (String.concat "" ([""] ++ map (fun _ : A => "") l)).
  rewrite concat_app_s. exact IH.
Qed.

Lemma crystal_high_z : crystal_high_z_stmt.
Proof.
  split; [|split].
  - intros els H. unfold crystal_write_all. rewrite <- (app_nil_l els), (mapM_high [] els H). cbn [mapM]. unfold ok, bind.
    rewrite concat_empties. reflexivity.
  - intros lo hi H. unfold crystal_write_all. rewrite (mapM_high lo hi H).
    destruct (mapM crystal_write_element lo) as [e|parts]; [reflexivity|]. unfold bind, ok. rewrite concat_empties. reflexivity.
  - vm_compute. reflexivity.
Qed.

(* ================================================================== *)
(* 7. closed statements                                                *)
(* ================================================================== *)
Lemma crystal_ecp_only : crystal_ecp_only_stmt.
Proof. vm_compute. reflexivity. Qed.
Lemma crystal_h_projector : crystal_h_projector_stmt.
Proof. vm_compute. reflexivity. Qed.
Lemma crystal_ecp_text : crystal_ecp_text_stmt.
Proof. vm_compute. reflexivity. Qed.
Lemma crystal_shell_types : crystal_shell_types_stmt.
Proof. repeat split; vm_compute; reflexivity. Qed.
Lemma crystal_pots : crystal_pots_stmt.
Proof. repeat split; vm_compute; reflexivity. Qed.
Lemma crystal_floating : crystal_floating_stmt.
Proof. vm_compute. reflexivity. Qed.
Lemma crystal_empty : crystal_empty_stmt.
Proof. split; vm_compute; reflexivity. Qed.

Ltac fl_all := repeat (constructor; try reflexivity).
Lemma crystal_example : crystal_example_stmt.
Proof.
  split.
  - unfold crystal_ok, crystal_ex_els.
    repeat (apply Forall_cons || apply Forall_nil); unfold crystal_el_ok; cbn [fst snd]; (split; [lia|]); split.
    + eexists. split; [reflexivity|]. repeat (apply Forall_cons || apply Forall_nil); unfold crystal_shell_ok; cbn [am exps coefs];
        (split; [left; eexists; reflexivity|]); (split; [fl_all|]); split; fl_all.
    + exact I.
    + eexists. split; [reflexivity|]. repeat (apply Forall_cons || apply Forall_nil); unfold crystal_shell_ok; cbn [am exps coefs];
        (split; [left; eexists; reflexivity|]); (split; [fl_all|]); split; fl_all.
    + split; [discriminate|]. repeat (apply Forall_cons || apply Forall_nil); unfold crystal_pot_ok; cbn [p_am p_coef p_gexp p_rexp];
        (split; [eexists; split; [reflexivity | lia]|]); (split; [eexists; split; reflexivity|]); (split; [reflexivity|]); split; fl_all.
  - vm_compute. reflexivity.
Qed.

Print Assumptions crystal_write_total.
Print Assumptions crystal_no_number_lost.
Print Assumptions crystal_ecp_no_number_lost.
Print Assumptions crystal_high_z.
Print Assumptions crystal_ecp_only.
Print Assumptions crystal_h_projector.
Print Assumptions crystal_ecp_text.
Print Assumptions crystal_shell_types.
Print Assumptions crystal_pots.
Print Assumptions crystal_floating.
Print Assumptions crystal_empty.
Print Assumptions crystal_example.
