(* Statements about the `ricdwrap` writer (write_ricdwrap; the format has NO reader, so everything is about the written text).
   Definitions only; the proofs are in Proofs/RicdwrapSpec.v. *)
From BSE Require Import Model.Val Model.Text Model.Basis Model.Manip Model.Matrix Model.Lut Model.Elements Model.Nwchem
                        Model.Molcas Model.Ricdwrap Proofs.MatrixDefs Proofs.NwchemDefs Proofs.MolcasDefs.

(* ---------- well-formed input of the writer (what is left after make_general / sort_basis) ---------- *)
(* mc_shell_wf (Proofs/MolcasDefs.v; the shell printer is the one of write_molcas): a non-empty list of momenta 0 <= l < 25
   (the 25 letters of lut.amint_to_char), at least one primitive, at least one general contraction, every contraction with one
   coefficient per primitive, every number a string matching helpers.floating_re (non-empty, no white space, a decimal point,
   ASCII). *)
Definition ricdwrap_ok (els : list (Z * option (list sshell))) : Prop :=
  Forall (fun zd =>
            (* an element of lut's table: 1 .. 120 (Uue and Ubn included) *)
            (1 <= fst zd <= 120)%Z /\
            match snd zd with
            | None => True                    (* no key 'electron_shells' (ECP-only element): fine, a block without shells *)
            | Some shs => shs <> [] /\        (* misc.max_am: max() of an empty list is a ValueError *)
                          Forall mc_shell_wf shs
            end) els.
(* NO condition on the keys being distinct, NO condition `els <> []` (the header alone is written) *)

(* x is an exponent or a coefficient of some shell of some element *)
Definition ricdwrap_number_of (els : list (Z * option (list sshell))) (x : string) : Prop :=
  exists zd shs s, In zd els /\ snd zd = Some shs /\ In s shs /\ (In x (exps s) \/ exists c, In c (coefs s) /\ In x c).

(* ---------- statements ---------- *)
(* the writer does not fail on well-formed input, whatever the iteration order of the set of cartesian letters *)
Definition ricdwrap_write_total_stmt : Prop :=
  forall sord els, ricdwrap_ok els -> exists t, ricdwrap_write_all sord els = inr t.

(* C04: every exponent and every coefficient of the input - the zeros that make_general pads with included - is a white-space
   delimited token of some line of the written text, character for character (no exponent-marker conversion, no rounding).
   sord_ok (Proofs/MolcasDefs.v): iterating the set of cartesian letters yields elements of the set. *)
Definition ricdwrap_no_number_lost_stmt : Prop :=
  forall sord els t, sord_ok sord -> ricdwrap_ok els -> ricdwrap_write_all sord els = inr t ->
    forall x, ricdwrap_number_of els x -> exists line, In line (splitlines t) /\ In x (tokens_acc line "").

(* ---------- ECP: FINDING ---------- *)
(* There is no ricdwrap_ecp_no_number_lost: write_ricdwrap never looks at 'ecp_potentials' / 'ecp_electrons' (this is why
   ricdwrap_write_all has no ECP argument at all).  For a basis with an ECP the text carries NONE of the ECP numbers, and the
   charge line is the full atomic number (source: "should be z - number of ecp electrons").  Closed instance: sodium with the
   valence shells of LANL2DZ (ecp_electrons = 10 in the store): the charge line says 11.00, and no line has a token `10`;
   an element that has nothing but an ECP (def2-ECP, Rb) is written as an empty block. *)
Definition ricdwrap_na : list (Z * option (list sshell)) :=
  [(11%Z, Some [mkShell "gto" "" [0%Z] ["0.4972000"; "0.0560000"; "0.0221000"]
                        [["-0.2753574"; "1.0989969"; "0.0000000"]; ["0.0000000"; "0.0000000"; "1.0000000"]];
                mkShell "gto" "" [1%Z] ["0.6697000"; "0.0636000"; "0.0204000"]
                        [["-0.0683845"; "1.0140550"; "0.0000000"]; ["0.0000000"; "0.0000000"; "1.0000000"]]])].
Definition ricdwrap_ecp_ignored_stmt : Prop :=
  (exists t, ricdwrap_write_all (fun l => l) ricdwrap_na = inr t /\
             In "     11.00   1" (splitlines t) /\
             forallb (fun line => negb (existsb (String.eqb "10") (tokens_acc line ""))) (splitlines t) = true) /\
  ricdwrap_write_all (fun l => l) [(37%Z, None)] =
    inr (ricdwrap_header +++
         String.concat nl1 ["Basis set"; "* RUBIDIUM  "; " Rb    / inline"; "Rb 0.0 0.0 360.0"; "End of basis set"; ""; ""]).

(* ---------- which conditions of ricdwrap_ok cannot be dropped (about the modelled part, i.e. after the normalisation) ---------- *)
Definition rw_s : sshell := mkShell "gto" "" [0%Z] ["1.0"] [["1.0"]].
(* no element: the header alone *)
Definition ricdwrap_empty_stmt : Prop := ricdwrap_write_all (fun l => l) [] = inr ricdwrap_header.
(* `shs <> []`: the key is there but the list is empty: ValueError (max of an empty list) *)
Definition ricdwrap_noshell_stmt : Prop := ricdwrap_write_all (fun l => l) [(1%Z, Some [])] = inl EValue.
(* the element table: 0 and 121 are a KeyError *)
Definition ricdwrap_elements_stmt : Prop :=
  ricdwrap_write_all (fun l => l) [(0%Z, Some [rw_s])] = inl EKey /\
  ricdwrap_write_all (fun l => l) [(121%Z, Some [rw_s])] = inl EKey.
(* momenta: 25 has no letter (IndexError), no momentum at all is a ValueError in max_am *)
Definition ricdwrap_am_stmt : Prop :=
  ricdwrap_write_all (fun l => l) [(1%Z, Some [mkShell "gto" "" [25%Z] ["1.0"] [["1.0"]]])] = inl EIndex /\
  ricdwrap_write_all (fun l => l) [(1%Z, Some [mkShell "gto" "" [] ["1.0"] [["1.0"]]])] = inl EValue.
(* a number without a decimal point: ValueError in _find_point *)
Definition ricdwrap_floating_stmt : Prop :=
  ricdwrap_write_all (fun l => l) [(1%Z, Some [mkShell "gto" "" [0%Z] ["1"] [["1.0"]]])] = inl EValue.
(* contractions of different lengths: zip() cuts the table to the shortest column, the coefficient 2.0 is lost silently *)
Definition ricdwrap_ragged_stmt : Prop :=
  exists t, ricdwrap_write_all (fun l => l) [(1%Z, Some [mkShell "gto" "" [0%Z] ["4.0"; "3.0"] [["1.0"; "2.0"]; ["5.0"]]])] = inr t /\
            forallb (fun line => negb (existsb (String.eqb "2.0") (tokens_acc line ""))) (splitlines t) = true.

(* ---------- a concrete instance: 6-31G* for H and C as write_ricdwrap sees it (after make_general and sort_basis);
   the expected text is what basis_set_exchange.get_basis('6-31g*', elements=[1,6], fmt='ricdwrap', header=False) returns ---------- *)
Definition ricdwrap_ex_els : list (Z * option (list sshell)) :=
  [((1)%Z, (Some [(mkShell "gto" "" [(0)%Z] ["0.1873113696E+02"; "0.2825394365E+01"; "0.6401216923E+00"; "0.1612777588E+00"] [["0.3349460434E-01"; "0.2347269535E+00"; "0.8137573261E+00"; "0.00000000"]; ["0.00000000"; "0.00000000"; "0.00000000"; "1.0000000"]])]));
   ((6)%Z, (Some [(mkShell "gto" "" [(0)%Z] ["0.3047524880E+04"; "0.4573695180E+03"; "0.1039486850E+03"; "0.2921015530E+02"; "0.9286662960E+01"; "0.7868272350E+01"; "0.3163926960E+01"; "0.1881288540E+01"; "0.5442492580E+00"; "0.1687144782E+00"] [["0.1834737132E-02"; "0.1403732281E-01"; "0.6884262226E-01"; "0.2321844432E+00"; "0.4679413484E+00"; "0.00000000"; "0.3623119853E+00"; "0.00000000"; "0.00000000"; "0.00000000"]; ["0.00000000"; "0.00000000"; "0.00000000"; "0.00000000"; "0.00000000"; "-0.1193324198E+00"; "0.00000000"; "-0.1608541517E+00"; "0.1143456438E+01"; "0.00000000"]; ["0.00000000"; "0.00000000"; "0.00000000"; "0.00000000"; "0.00000000"; "0.00000000"; "0.00000000"; "0.00000000"; "0.00000000"; "0.1000000000E+01"]]);
      (mkShell "gto" "" [(1)%Z] ["0.7868272350E+01"; "0.1881288540E+01"; "0.5442492580E+00"; "0.1687144782E+00"] [["0.6899906659E-01"; "0.3164239610E+00"; "0.7443082909E+00"; "0.00000000"]; ["0.00000000"; "0.00000000"; "0.00000000"; "0.1000000000E+01"]]);
      (mkShell "gto_cartesian" "" [(2)%Z] ["0.8000000000E+00"] [["1.0000000"]])]))].
Definition ricdwrap_ex_text : string :=
  String.concat nl1
   ["";
    "&GATEWAY";
    "  ricd";
    "  accd";
    "  cdthreshold=1.0d-4";
    "Basis set";
    "* HYDROGEN  (4s) -> [2s]";
    " H    / inline";
    "      1.00   0";
    "* S-type functions";
    "     4    2";
    "               0.1873113696E+02";
    "               0.2825394365E+01";
    "               0.6401216923E+00";
    "               0.1612777588E+00";
    "      0.3349460434E-01       0.00000000";
    "      0.2347269535E+00       0.00000000";
    "      0.8137573261E+00       0.00000000";
    "      0.00000000             1.0000000";
    "H 0.0 0.0 0.0";
    "End of basis set";
    "";
    "Basis set";
    "* CARBON  (10s,4p,1d) -> [3s,2p,1d]";
    " C    / inline";
    "      6.00   2";
    "* S-type functions";
    "    10    3";
    "               0.3047524880E+04";
    "               0.4573695180E+03";
    "               0.1039486850E+03";
    "               0.2921015530E+02";
    "               0.9286662960E+01";
    "               0.7868272350E+01";
    "               0.3163926960E+01";
    "               0.1881288540E+01";
    "               0.5442492580E+00";
    "               0.1687144782E+00";
    "      0.1834737132E-02       0.00000000             0.00000000";
    "      0.1403732281E-01       0.00000000             0.00000000";
    "      0.6884262226E-01       0.00000000             0.00000000";
    "      0.2321844432E+00       0.00000000             0.00000000";
    "      0.4679413484E+00       0.00000000             0.00000000";
    "      0.00000000            -0.1193324198E+00       0.00000000";
    "      0.3623119853E+00       0.00000000             0.00000000";
    "      0.00000000            -0.1608541517E+00       0.00000000";
    "      0.00000000             0.1143456438E+01       0.00000000";
    "      0.00000000             0.00000000             0.1000000000E+01";
    "* P-type functions";
    "     4    2";
    "               0.7868272350E+01";
    "               0.1881288540E+01";
    "               0.5442492580E+00";
    "               0.1687144782E+00";
    "      0.6899906659E-01       0.00000000";
    "      0.3164239610E+00       0.00000000";
    "      0.7443082909E+00       0.00000000";
    "      0.00000000             0.1000000000E+01";
    "* D-type functions";
    "     1    1";
    "               0.8000000000E+00";
    "      1.0000000";
    "C 0.0 0.0 50.0";
    "cartesian d";
    "End of basis set";
    "";
    ""].

Definition ricdwrap_example_stmt : Prop :=
  ricdwrap_ok ricdwrap_ex_els /\ ricdwrap_write_all (fun l => l) ricdwrap_ex_els = inr ricdwrap_ex_text.
