(* Proofs of the statements of Proofs/NwchemDefs.v: the NWChem electron section written by write_nwchem is read back by
   read_nwchem exactly (up to the exponent marker, the region and the function type, see nw_expected). *)
From BSE Require Import Model.Val Model.Text Model.Basis Model.Manip Model.Matrix Gen.GenLut Model.Lut Model.Elements
                        Model.Nwchem Proofs.MatrixDefs Proofs.NwchemDefs Proofs.C20Finite.
From BSE Require Proofs.ElementsSpec.
From BSE Require Import Proofs.HeaderSpec Proofs.PruneFS Proofs.MatrixSpec.

(* ================================================================== *)
(* 1. generic helpers                                                  *)
(* ================================================================== *)
Lemma mapM_map_ok : forall (A B : Type) (f : A -> res B) (g : A -> B) l,
  (forall x, In x l -> f x = inr (g x)) -> mapM f l = inr (map g l).
Proof.
  intros A B f g; induction l as [|a l IH]; intros H; [reflexivity|].
  cbn [mapM map]. rewrite (H a (or_introl eq_refl)). unfold bind. rewrite IH; [reflexivity|].
  intros x Hx. apply H. right. exact Hx.
Qed.

Lemma filter_id : forall (A : Type) (p : A -> bool) l, Forall (fun x => p x = true) l -> filter p l = l.
Proof.
  intros A p; induction l as [|a l IH]; intros H; [reflexivity|]. inversion H as [|? ? Ha Hl]; subst.
  cbn [filter]. rewrite Ha, (IH Hl). reflexivity.
Qed.

Lemma Forall2_In_l : forall (A B : Type) (R : A -> B -> Prop) l r a,
  Forall2 R l r -> In a l -> exists b, In b r /\ R a b.
Proof.
  intros A B R l r a F; induction F as [|x y l r Hxy F IH]; intros Hin; [destruct Hin|].
  destruct Hin as [->|Hin].
  - exists y. split; [now left | exact Hxy].
  - destruct (IH Hin) as [b [Hb Rb]]. exists b. split; [now right | exact Rb].
Qed.

Lemma Forall2_len : forall (A B : Type) (R : A -> B -> Prop) l r, Forall2 R l r -> List.length l = List.length r.
Proof. intros A B R l r F; induction F; cbn; congruence. Qed.

Lemma sall_srev : forall p s, sall p (srev s) = sall p s.
Proof.
  intros p; induction s as [|c s IH]; [reflexivity|].
  rewrite srev_cons, sall_app, IH. cbn [sall]. rewrite andb_true_r. apply andb_comm.
Qed.

Lemma srev_ne : forall s, s <> "" -> srev s <> "".
Proof. intros s H E. apply H. rewrite <- (srev_involutive s), E. reflexivity. Qed.

Lemma alpha_nobd : forall c, is_alpha c = true -> nobd c = true.
Proof. intros c H. all_chars c; try reflexivity; discriminate H. Qed.
Lemma alpha_not_space : forall c, is_alpha c = true -> is_space c = false.
Proof. intros c H. all_chars c; try reflexivity; discriminate H. Qed.
Lemma alpha_upper : forall c, is_alpha c = true -> is_alpha (upper_char c) = true.
Proof. intros c H. all_chars c; try reflexivity; discriminate H. Qed.
Lemma digit_nobd : forall k, k < 10 -> nobd (digit_char k) = true.
Proof. intros k H. do 10 (destruct k as [|k]; [reflexivity|]). lia. Qed.

(* ================================================================== *)
(* 2. a text made of complete lines                                    *)
(* ================================================================== *)
Definition unlines (rows : list string) : string := String.concat "" (map (fun r => r +++ nl1) rows).
Definition good_line (r : string) : Prop := sall nobd r = true.

Lemma concat_app_s : forall a b, String.concat "" (a ++ b) = String.concat "" a +++ String.concat "" b.
Proof.
  induction a as [|x a IH]; intros b; [reflexivity|].
  change ((x :: a) ++ b) with (x :: (a ++ b)). rewrite !concat_cons, IH, sapp_assoc. reflexivity.
Qed.

Lemma unlines_app : forall a b, unlines (a ++ b) = unlines a +++ unlines b.
Proof. intros a b. unfold unlines. rewrite map_app. apply concat_app_s. Qed.

Lemma unlines_cons : forall x a, unlines (x :: a) = x +++ nl1 +++ unlines a.
Proof. intros x a. unfold unlines. cbn [map]. rewrite concat_cons, sapp_assoc. reflexivity. Qed.

Lemma unlines_flat_map : forall (A : Type) (f : A -> list string) l,
  String.concat "" (map (fun x => unlines (f x)) l) = unlines (flat_map f l).
Proof.
  intros A f; induction l as [|a l IH]; [reflexivity|].
  cbn [map flat_map]. rewrite concat_cons, unlines_app, IH. reflexivity.
Qed.

Lemma splitlines_unlines : forall rows, Forall good_line rows -> splitlines (unlines rows) = rows.
Proof. exact splitlines_rows. Qed.

(* ================================================================== *)
(* 3. finite facts about the tables of lut.py                          *)
(* ================================================================== *)
(* for every l in 0..24: l has a letter, the letter is an ASCII letter, and its upper-case form is mapped back to l *)
Definition am_letter_check (l : Z) : bool :=
  match snth (Z.to_nat l) amchar_map_hik with
  | Some c => is_alpha c &&
              match sindex (lower_char (upper_char c)) amchar_map_hik with
              | Some i => Z.eqb (Z.of_nat i) l
              | None => false
              end
  | None => false
  end.
Lemma am_letter_sweep : forallb am_letter_check (zrange 0 25) = true.
Proof. vm_compute. reflexivity. Qed.

Lemma am_letter : forall l, (0 <= l < 25)%Z ->
  exists c, snth (Z.to_nat l) amchar_map_hik = Some c /\ is_alpha c = true /\
            exists i, sindex (lower_char (upper_char c)) amchar_map_hik = Some i /\ Z.of_nat i = l.
Proof.
  intros l Hl. assert (Hin : In l (zrange 0 25)) by (apply zrange_In; lia).
  pose proof (proj1 (forallb_forall _ _) am_letter_sweep l Hin) as H. unfold am_letter_check in H.
  destruct (snth (Z.to_nat l) amchar_map_hik) as [c|]; [|discriminate]. exists c.
  apply andb_true_iff in H. destruct H as [H1 H2].
  destruct (sindex (lower_char (upper_char c)) amchar_map_hik) as [i|]; [|discriminate].
  split; [reflexivity|]. split; [exact H1|]. exists i. split; [reflexivity | now apply Z.eqb_eq].
Qed.

Definition am_ok (a : list Z) : Prop := Forall (fun l => (0 <= l < 25)%Z) a.
Definition amch_of (a : list Z) : string := match amint_to_char a false false with inr c => c | inl _ => "" end.

(* the letters of an angular momentum list: there are as many as momenta, upper-casing keeps them letters, and
   amchar_to_int brings the list back *)
Lemma amint_chars_ok : forall a, am_ok a ->
  exists ch, amint_chars amchar_map_hik a = inr ch /\ sall is_alpha (upper ch) = true /\
             (a <> [] -> ch <> "") /\ amchar_ints amchar_map_hik (lower (upper ch)) = inr a.
Proof.
  induction a as [|l a IH]; intros H.
  - exists "". split; [reflexivity|]. split; [reflexivity|]. split; [intros C; congruence | reflexivity].
  - inversion H as [|? ? Hl Ha]; subst. destruct (IH Ha) as [r [E1 [E2 [_ E4]]]].
    destruct (am_letter l Hl) as [c [Ec [Hc [i [Ei Hi]]]]].
    exists (String c r). cbn [amint_chars].
    assert (En : (l <? 0)%Z = false) by lia. rewrite En, Ec, E1. unfold bind, ok.
    split; [reflexivity|]. split; [|split].
    + unfold upper in *. cbn [smap sall]. rewrite (alpha_upper c Hc), E2. reflexivity.
    + intros _. discriminate.
    + unfold upper, lower in *. cbn [smap amchar_ints]. rewrite Ei, E4. unfold bind, ok. now rewrite Hi.
Qed.

Lemma amch_facts : forall a, am_ok a -> a <> [] ->
  amint_to_char a false false = inr (amch_of a) /\ sall is_alpha (upper (amch_of a)) = true /\
  upper (amch_of a) <> "" /\ amchar_to_int (upper (amch_of a)) false = inr a.
Proof.
  intros a Ha Hne. destruct (amint_chars_ok a Ha) as [ch [E1 [E2 [E3 E4]]]].
  assert (E : amint_to_char a false false = inr ch) by exact E1.
  unfold amch_of. rewrite E. repeat split; [exact E2 | | exact E4].
  specialize (E3 Hne). destruct ch; [congruence | discriminate].
Qed.

(* element symbols 1..118 (sym_props of Proofs/ElementsSpec.v is a vm_compute sweep over Gen/GenLut.v) *)
Definition symz := ElementsSpec.symz.
Lemma sym_facts : forall z, (1 <= z <= 118)%Z ->
  element_sym_from_Z z true = inr (symz z) /\ symz z <> "" /\ sall is_alpha (symz z) = true /\
  element_Z_from_sym (symz z) = inr z.
Proof. exact ElementsSpec.sym_props. Qed.

(* ================================================================== *)
(* 4. the lines the writer prints                                      *)
(* ================================================================== *)
Definition mat_of (s : sshell) : list (list cell) := map CStr (exps s) :: map (map CStr) (coefs s).
Definition pps_of (s : sshell) : list Z := nw_point_places (S (List.length (coefs s))).
Definition rows_of (s : sshell) : list string :=
  match mapM (fun row => write_row row (pps_of s) true "") (transpose (mat_of s)) with inr r => r | inl _ => [] end.
Definition am_line (sym : string) (s : sshell) : string := sym +++ "    " +++ upper (amch_of (am s)).
Definition sh_lines (sym : string) (s : sshell) : list string := am_line sym s :: rows_of s.
Definition cs_of (shs : list sshell) : string :=
  match contraction_string (Some (map nw_cshell shs)) false with inr c => c | inl _ => "" end.
Definition comment_line (shs : list sshell) : string := "#BASIS SET: " +++ cs_of shs.
Definition el_lines (zs : Z * list sshell) : list string :=
  comment_line (snd zs) :: flat_map (sh_lines (symz (fst zs))) (snd zs).
Definition header (harm : string) : string := "BASIS ""ao basis"" " +++ upper harm +++ " PRINT".
Definition all_lines (harm : string) (els : list (Z * list sshell)) : list string :=
  header harm :: flat_map el_lines els ++ ["END"].

Lemma zrange_length : forall n lo, List.length (zrange lo n) = n.
Proof. induction n as [|n IH]; intros lo; [reflexivity|]. cbn [zrange List.length]. now rewrite IH. Qed.
Lemma pps_length : forall n, List.length (nw_point_places n) = n.
Proof. intros n. unfold nw_point_places. rewrite map_length. apply zrange_length. Qed.

Definition el_ok (zs : Z * list sshell) : Prop :=
  (1 <= fst zs <= 118)%Z /\ snd zs <> [] /\ Forall nw_shell_ok (snd zs).

(* ---- the matrix rows of a shell ---- *)
Lemma rows_facts : forall s, nw_shell_ok s ->
  write_matrix (mat_of s) (pps_of s) false = inr (unlines (rows_of s)) /\
  Forall good_line (rows_of s) /\
  Forall2 (fun srow line => tokens_acc line "" = srow) (transpose (exps s :: coefs s)) (rows_of s) /\
  List.length (rows_of s) = List.length (exps s) /\
  parse_primitive_matrix (rows_of s) = inr (map (norm false) (exps s), map (map (norm false)) (coefs s)).
Proof.
  intros s [Hex [_ [_ [Hcne [HcF [_ [He Hc]]]]]]]. unfold floating in *.
  assert (Hcells : Forall (Forall cell_ok) (mat_of s) /\ Forall (Forall cell_ascii) (mat_of s)).
  { unfold mat_of. destruct (floats_cells (exps s) He) as [A1 A2]. split; (constructor; [assumption|]);
      rewrite Forall_forall in *; intros col Hcol; apply in_map_iff in Hcol; destruct Hcol as [c [<- Hin]];
      apply floats_cells, Hc, Hin. }
  destruct Hcells as [Hok Hasc].
  assert (Hlen : List.length (mat_of s) <= List.length (pps_of s)).
  { unfold mat_of, pps_of. rewrite pps_length. cbn [List.length]. rewrite map_length. lia. }
  destruct (mapM_total _ _ (fun row => write_row row (pps_of s) true "") (transpose (mat_of s))) as [rows Hrows].
  { pose proof (transpose_Forall _ _ (mat_of s) Hok) as H1. pose proof (transpose_rowlen _ (mat_of s)) as H2.
    rewrite Forall_forall in *. intros row Hin. apply write_row_total; [apply H1, Hin|]. rewrite (H2 _ Hin). exact Hlen. }
  assert (Er : rows_of s = rows) by (unfold rows_of; rewrite Hrows; reflexivity).
  rewrite Er.
  assert (Hw : write_matrix (mat_of s) (pps_of s) false = inr (unlines rows)).
  { unfold write_matrix, transpose_cells. rewrite Hrows. reflexivity. }
  pose proof (mapM_Forall2 _ _ _ _ _ Hrows) as F2.
  assert (Hgood : Forall good_line rows).
  { pose proof (Forall_and _ _ _ _ (transpose_Forall _ _ (mat_of s) Hok) (transpose_Forall _ _ (mat_of s) Hasc)) as HT.
    refine (Forall2_Forall_r _ _ _ _ _ _ _ _ HT F2). intros row line [H1 H2] Hwr. cbv beta in Hwr.
    apply (write_row_chars nobd eq_refl row (pps_of s) true "" line); [|reflexivity|exact Hwr].
    rewrite Forall_forall in *. intros c Hcin. apply cell_nobd; [apply H1 | apply H2]; exact Hcin. }
  assert (F2' : Forall2 (fun srow line => tokens_acc line "" = srow) (transpose (exps s :: coefs s)) rows).
  { unfold mat_of in F2. change (map CStr (exps s) :: map (map CStr) (coefs s)) with (map (map CStr) (exps s :: coefs s)) in F2.
    rewrite transpose_map in F2. apply Forall2_map_l in F2.
    assert (HTf : Forall (Forall (fun x => is_floating x = true)) (transpose (exps s :: coefs s))).
    { apply transpose_Forall. constructor; assumption. }
    refine (Forall2_impl_l _ _ _ _ _ _ _ _ HTf F2). intros srow line Hsrow Hwr. cbv beta in Hwr.
    destruct (floats_cells srow Hsrow) as [Hrow _].
    apply (write_row_tokens_gen _ (pps_of s) true "" line Hrow (fun _ => eq_refl)) in Hwr.
    rewrite Hwr. cbn [tokens_acc app]. rewrite map_map. cbn [cell_str]. apply map_id. }
  assert (Hn : List.length (exps s) <> 0) by (destruct (exps s); [congruence | discriminate]).
  split; [exact Hw|]. split; [exact Hgood|]. split; [exact F2'|]. split.
  - rewrite <- (Forall2_len _ _ _ _ _ F2').
    assert (HF : Forall (fun r => List.length r = List.length (exps s)) (exps s :: coefs s)) by (constructor; [reflexivity | exact HcF]).
    destruct (transpose_spec string "" (List.length (exps s)) (exps s :: coefs s)) as [Tl _]; [discriminate | exact HF | exact Tl].
  - rewrite <- (splitlines_unlines rows Hgood).
    apply (matrix_roundtrip (exps s) (coefs s) (pps_of s) false (unlines rows) (List.length (exps s)));
      try assumption; try reflexivity.
    unfold pps_of. rewrite pps_length. lia.
Qed.

(* ---- the comment line: misc.contraction_string ---- *)
Definition cm_ok (m : list (Z * (nat * nat))) : Prop := Forall (fun e => (0 <= fst e < 25)%Z) m.

Lemma cmap_add_ok : forall a np nc m, (0 <= a < 25)%Z -> cm_ok m -> cm_ok (cmap_add a np nc m).
Proof.
  intros a np nc; induction m as [|[a' [p c]] m IH]; intros Ha Hm; cbn [cmap_add].
  - constructor; [exact Ha | constructor].
  - inversion Hm as [|? ? H1 H2]; subst. destruct (a' =? a)%Z; constructor; try assumption. now apply IH.
Qed.

Lemma cmap_fold_ok : forall np nc ams m, am_ok ams -> cm_ok m ->
  cm_ok (fold_left (fun m am => cmap_add am np nc m) ams m).
Proof.
  intros np nc; induction ams as [|a ams IH]; intros m Ha Hm; [exact Hm|].
  inversion Ha; subst. cbn [fold_left]. apply IH; [assumption|]. now apply cmap_add_ok.
Qed.

Lemma cmap_ok : forall shs m, Forall (fun sh : cshell => am_ok (fst (fst sh))) shs -> cm_ok m ->
  cm_ok (fold_left cmap_shell shs m).
Proof.
  induction shs as [|[[ams np] ng] shs IH]; intros m H Hm; [exact Hm|].
  inversion H as [|? ? H1 H2]; subst. cbn [fold_left]. apply IH; [exact H2|].
  unfold cmap_shell. apply cmap_fold_ok; [exact H1 | exact Hm].
Qed.

Lemma insert_by_key_ok : forall x l, (0 <= fst x < 25)%Z -> cm_ok l -> cm_ok (insert_by_key x l).
Proof.
  intros x; induction l as [|y l IH]; intros Hx Hl; cbn [insert_by_key].
  - constructor; [exact Hx | constructor].
  - inversion Hl; subst. destruct (fst x <=? fst y)%Z; constructor; try assumption. now apply IH.
Qed.

Lemma sort_cmap_ok : forall m, cm_ok m -> cm_ok (sort_cmap m).
Proof.
  unfold sort_cmap. induction m as [|x m IH]; intros H; [constructor|].
  inversion H; subst. cbn [fold_right]. apply insert_by_key_ok; [assumption | now apply IH].
Qed.

Lemma nat_str_nobd : forall n, sall nobd (nat_str n) = true.
Proof. intros n. unfold nat_str, N_to_string. apply pdf_chars; [exact digit_nobd | reflexivity]. Qed.

Lemma am_single_char : forall l, (0 <= l < 25)%Z ->
  exists ch, amint_to_char [l] false false = inr ch /\ sall nobd ch = true.
Proof.
  intros l Hl. destruct (am_letter l Hl) as [c [Ec [Hc _]]].
  exists (String c ""). unfold amint_to_char. cbn [andb amchar_map amint_chars].
  assert (En : (l <? 0)%Z = false) by lia. rewrite En, Ec. split; [reflexivity|].
  cbn [sall]. now rewrite (alpha_nobd c Hc).
Qed.

Lemma cstr_parts_ok : forall m prim cont, cm_ok m -> sall nobd prim = true -> sall nobd cont = true ->
  exists p c, cstr_parts false m prim cont = inr (p, c) /\ sall nobd p = true /\ sall nobd c = true.
Proof.
  induction m as [|[a [np nc]] m IH]; intros prim cont Hm Hp Hc.
  - exists prim, cont. repeat split; assumption.
  - inversion Hm as [|? ? Ha Hm']; subst. cbn [fst] in Ha.
    destruct (am_single_char a Ha) as [ch [Ech Hch]].
    cbn [cstr_parts]. rewrite Ech. unfold bind.
    apply IH; [exact Hm' | |]; rewrite !sall_app, ?Hp, ?Hc, Hch, nat_str_nobd;
      destruct (negb (a =? 0)%Z && negb false); reflexivity.
Qed.

Lemma cs_facts : forall shs, Forall nw_shell_ok shs ->
  contraction_string (Some (map nw_cshell shs)) false = inr (cs_of shs) /\ good_line (comment_line shs).
Proof.
  intros shs H.
  assert (Hm : cm_ok (sort_cmap (cmap (map nw_cshell shs)))).
  { apply sort_cmap_ok. unfold cmap. apply cmap_ok; [|constructor].
    rewrite Forall_forall in *. intros sh Hin. apply in_map_iff in Hin. destruct Hin as [s [<- Hs]].
    unfold nw_cshell. cbn [fst]. destruct (H s Hs) as [_ [_ [Ha _]]]. exact Ha. }
  destruct (cstr_parts_ok _ "" "" Hm eq_refl eq_refl) as [p [c [E [Hp Hc]]]].
  assert (Ec : contraction_string (Some (map nw_cshell shs)) false = inr ("(" +++ p +++ ") -> [" +++ c +++ "]")).
  { unfold contraction_string. rewrite E. reflexivity. }
  unfold comment_line, cs_of, good_line. rewrite Ec. split; [reflexivity|].
  rewrite !sall_app, Hp, Hc. reflexivity.
Qed.

(* ---- header ---- *)
Definition harm_ok (harm : string) : Prop := harm = "spherical" \/ harm = "cartesian".
Lemma header_good : forall harm, harm_ok harm -> good_line (header harm).
Proof. intros harm [->| ->]; reflexivity. Qed.

(* ---- shell, element, file ---- *)
Lemma am_line_good : forall z s, (1 <= z <= 118)%Z -> nw_shell_ok s -> good_line (am_line (symz z) s).
Proof.
  intros z s Hz [_ [Hne [Ha _]]]. destruct (sym_facts z Hz) as [_ [_ [Hs _]]].
  destruct (amch_facts (am s) Ha Hne) as [_ [Hu _]].
  unfold am_line, good_line. rewrite !sall_app, (sall_impl is_alpha nobd _ alpha_nobd Hs), (sall_impl is_alpha nobd _ alpha_nobd Hu).
  reflexivity.
Qed.

Lemma write_shell_lines : forall sym s, nw_shell_ok s -> nw_write_shell sym s = inr (unlines (sh_lines sym s)).
Proof.
  intros sym s Hs. destruct (rows_facts s Hs) as [Hw _]. destruct Hs as [_ [Hne [Ha _]]].
  destruct (amch_facts (am s) Ha Hne) as [E _].
  unfold nw_write_shell. rewrite E. unfold bind. fold (mat_of s). fold (pps_of s). rewrite Hw.
  unfold sh_lines, am_line, ok. rewrite unlines_cons, !sapp_assoc. reflexivity.
Qed.

Lemma write_element_lines : forall zs, el_ok zs -> nw_write_element zs = inr (unlines (el_lines zs)).
Proof.
  intros [z shs] [Hz [_ Hshs]]. cbn [fst snd] in *. destruct (sym_facts z Hz) as [Es _].
  destruct (cs_facts shs Hshs) as [Ec _].
  unfold nw_write_element. rewrite Es. unfold bind. rewrite Ec.
  rewrite (mapM_map_ok _ _ (nw_write_shell (symz z)) (fun s => unlines (sh_lines (symz z) s))).
  - unfold el_lines, comment_line, ok. cbn [fst snd]. rewrite unlines_cons, unlines_flat_map, !sapp_assoc. reflexivity.
  - intros s Hin. apply write_shell_lines. rewrite Forall_forall in Hshs. apply Hshs, Hin.
Qed.

Lemma nw_ok_els : forall harm els, nw_ok harm els -> Forall el_ok els.
Proof. intros harm els [_ [_ [_ H]]]. exact H. Qed.

Lemma write_electron_lines : forall harm els, nw_ok harm els ->
  nw_write_electron harm els = inr (unlines (all_lines harm els)).
Proof.
  intros harm els H. pose proof (nw_ok_els harm els H) as Hel. destruct H as [_ [Hne _]].
  unfold nw_write_electron. destruct els as [|e0 els0]; [congruence|].
  rewrite (mapM_map_ok _ _ nw_write_element (fun zs => unlines (el_lines zs))).
  - unfold bind, ok, all_lines, header. rewrite unlines_cons, unlines_app, unlines_flat_map, !sapp_assoc. reflexivity.
  - intros zs Hin. apply write_element_lines. rewrite Forall_forall in Hel. apply Hel, Hin.
Qed.

Lemma all_lines_good : forall harm els, nw_ok harm els -> Forall good_line (all_lines harm els).
Proof.
  intros harm els H. pose proof (nw_ok_els harm els H) as Hel. destruct H as [Hh _].
  unfold all_lines. constructor; [apply header_good, Hh|]. apply Forall_app. split; [|repeat constructor].
  rewrite Forall_forall in *. intros l Hin. apply in_flat_map in Hin. destruct Hin as [[z shs] [Hzs Hl]].
  destruct (Hel _ Hzs) as [Hz [_ Hshs]]. cbn [fst snd] in *. unfold el_lines in Hl. cbn [fst snd] in Hl.
  destruct Hl as [<-|Hl]; [apply cs_facts, Hshs|].
  apply in_flat_map in Hl. destruct Hl as [s [Hs Hl]]. rewrite Forall_forall in Hshs. specialize (Hshs s Hs).
  destruct Hl as [<-|Hl]; [apply am_line_good; assumption|].
  destruct (rows_facts s Hshs) as [_ [Hg _]]. rewrite Forall_forall in Hg. apply Hg, Hl.
Qed.

(* ---------- nw_write_total ---------- *)
Lemma nw_write_total : nw_write_total_stmt.
Proof. intros harm els H. eexists. apply write_electron_lines, H. Qed.

Lemma written_lines : forall harm els t, nw_ok harm els -> nw_write_electron harm els = inr t ->
  splitlines t = all_lines harm els.
Proof.
  intros harm els t H E. rewrite (write_electron_lines harm els H) in E. inversion E; subst.
  apply splitlines_unlines, all_lines_good, H.
Qed.

(* ---------- nw_no_number_lost ---------- *)
Lemma transpose_has : forall (M : list (list string)) k c x,
  Forall (fun r => List.length r = k) M -> In c M -> In x c -> exists row, In row (transpose M) /\ In x row.
Proof.
  intros M k c x HF Hc Hx.
  assert (Hne : M <> []) by (intros E; rewrite E in Hc; destruct Hc).
  destruct (transpose_spec string "" k M Hne HF) as [Tl Tn].
  destruct (In_nth c x "" Hx) as [i [Hi Ei]].
  assert (Hck : List.length c = k) by (rewrite Forall_forall in HF; apply HF, Hc).
  exists (nth i (transpose M) []). split; [apply nth_In; lia|].
  rewrite Tn by lia. apply in_map_iff. exists c. split; [exact Ei | exact Hc].
Qed.

Lemma nw_no_number_lost : nw_no_number_lost_stmt.
Proof.
  intros harm els t H E x [zs [s [Hzs [Hs Hx]]]].
  rewrite (written_lines harm els t H E).
  pose proof (nw_ok_els harm els H) as Hel. rewrite Forall_forall in Hel. destruct (Hel zs Hzs) as [_ [_ Hshs]].
  rewrite Forall_forall in Hshs. pose proof (Hshs s Hs) as Hok.
  destruct (rows_facts s Hok) as [_ [_ [F2 _]]].
  destruct Hok as [_ [_ [_ [_ [HcF _]]]]].
  assert (HF : Forall (fun r => List.length r = List.length (exps s)) (exps s :: coefs s)) by (constructor; [reflexivity | exact HcF]).
  assert (Hcol : exists c, In c (exps s :: coefs s) /\ In x c).
  { destruct Hx as [Hx|[c [Hc Hx]]]; [exists (exps s); split; [now left | exact Hx] | exists c; split; [now right | exact Hx]]. }
  destruct Hcol as [c [Hc Hxc]].
  destruct (transpose_has _ _ c x HF Hc Hxc) as [row [Hrow Hxr]].
  destruct (Forall2_In_l _ _ _ _ _ row F2 Hrow) as [line [Hline Htok]].
  exists line. split; [|rewrite Htok; exact Hxr].
  unfold all_lines. right. apply in_or_app. left. apply in_flat_map. exists zs. split; [exact Hzs|].
  unfold el_lines. right. apply in_flat_map. exists s. split; [exact Hs|]. right. exact Hline.
Qed.

(* ================================================================== *)
(* 5. prune_lines(lines, '#') on the written lines                      *)
(* ================================================================== *)
Definition prune1 (L : list string) : list string := prune_lines L "#" true true.

Lemma prune1_unfold : forall L,
  prune1 L = filter (fun l => negb (is_empty l)) (filter (fun l => orb (is_empty l) (negb (first_in "#" l))) (map strip_ws L)).
Proof. reflexivity. Qed.

Lemma prune1_app : forall a b, prune1 (a ++ b) = prune1 a ++ prune1 b.
Proof. intros a b. rewrite !prune1_unfold, map_app, !filter_app. reflexivity. Qed.

Lemma prune1_cons : forall x a, prune1 (x :: a) = prune1 [x] ++ prune1 a.
Proof. intros x a. change (x :: a) with ([x] ++ a). apply prune1_app. Qed.

Lemma prune1_flat_map : forall (A : Type) (f : A -> list string) l,
  prune1 (flat_map f l) = flat_map (fun x => prune1 (f x)) l.
Proof.
  intros A f; induction l as [|a l IH]; [reflexivity|]. cbn [flat_map]. now rewrite prune1_app, IH.
Qed.

Lemma prune1_keep : forall c r, strip_ws (String c r) = String c r -> Ascii.eqb c "#" = false ->
  prune1 [String c r] = [String c r].
Proof.
  intros c r Hs Hc. rewrite prune1_unfold. cbn [map]. rewrite Hs. cbn [filter is_empty first_in sany orb negb].
  rewrite Hc. reflexivity.
Qed.

Lemma prune1_comment : forall X, prune1 [String "#" X] = [].
Proof.
  intros X. rewrite prune1_unfold. cbn [map]. destruct (strip_ws_head "#" X eq_refl) as [Z ->]. reflexivity.
Qed.

(* strip() leaves a line alone that begins and ends with a word *)
Lemma lstrip_word : forall w r, tok_ok w -> lstrip_ws (w +++ r) = w +++ r.
Proof.
  intros [|c w] r [Hne Hs]; [congruence|]. cbn [sany] in Hs. apply orb_false_iff in Hs. destruct Hs as [Hc _].
  cbn [String.append lstrip_ws]. now rewrite Hc.
Qed.

Lemma tok_ok_srev : forall w, tok_ok w -> tok_ok (srev w).
Proof.
  intros w [Hne Hs]. split; [now apply srev_ne|].
  apply sany_false_sall in Hs. rewrite <- sall_srev in Hs.
  apply (sall_sany_false (fun c => negb (is_space c))); [|exact Hs]. intros c Hc. now apply negb_true_iff.
Qed.

Lemma strip_words : forall a m b, tok_ok a -> tok_ok b -> strip_ws (a +++ m +++ b) = a +++ m +++ b.
Proof.
  intros a m b Ha Hb. unfold strip_ws. rewrite (lstrip_word a _ Ha), !srev_app.
  rewrite sapp_assoc, (lstrip_word (srev b) _ (tok_ok_srev b Hb)).
  rewrite <- sapp_assoc, <- !srev_app, srev_involutive. reflexivity.
Qed.

Lemma alpha_word_tok : forall w, w <> "" -> sall is_alpha w = true -> tok_ok w.
Proof.
  intros w Hne Hw. split; [exact Hne|]. apply (sall_sany_false is_alpha); [exact alpha_not_space | exact Hw].
Qed.

(* the first character of a line and its first token *)
Lemma tok_head : forall s cur, cur <> "" -> exists w ts, tokens_acc s cur = (srev cur +++ w) :: ts.
Proof.
  induction s as [|c s IH]; intros cur Hcur.
  - exists "", []. cbn [tokens_acc]. destruct cur; [congruence|]. now rewrite sapp_nil_r.
  - cbn [tokens_acc]. destruct (is_space c).
    + destruct cur as [|a cur]; [congruence|]. exists "". eexists. rewrite sapp_nil_r. reflexivity.
    + destruct (IH (String c cur)) as [w [ts E]]; [discriminate|]. rewrite E, srev_cons, sapp_assoc.
      exists (String c w), ts. reflexivity.
Qed.

Lemma tokens_first : forall s t ts, tokens_acc s "" = t :: ts ->
  exists c t' y, t = String c t' /\ lstrip_ws s = String c y /\ is_space c = false.
Proof.
  induction s as [|c s IH]; intros t ts H; [discriminate|].
  cbn [tokens_acc] in H. cbn [lstrip_ws]. destruct (is_space c) eqn:Ec.
  - apply (IH t ts H).
  - destruct (tok_head s (String c "")) as [w [ts' E]]; [discriminate|]. rewrite E in H.
    inversion H; subst. exists c, w, s. repeat split. exact Ec.
Qed.

Lemma strip_first : forall s c y, lstrip_ws s = String c y -> is_space c = false -> exists r, strip_ws s = String c r.
Proof.
  intros s c y E Hc. destruct (strip_ws_head c y Hc) as [Z EZ]. exists Z. rewrite <- EZ.
  unfold strip_ws. rewrite E. cbn [lstrip_ws]. rewrite Hc. reflexivity.
Qed.

Lemma floating_first : forall c t, is_floating (String c t) = true -> is_alpha c = false /\ Ascii.eqb c "#" = false.
Proof.
  intros c t H. all_chars c; try (split; reflexivity); exfalso; cbn in H; discriminate H.
Qed.

(* a printed matrix row after strip(): not empty, begins with a sign, a digit or the point; same tokens *)
Definition data_line (l : string) : Prop :=
  exists c r, l = String c r /\ is_alpha c = false /\ Ascii.eqb c "#" = false /\ is_space c = false.

Lemma row_strip : forall row e cs, tokens_acc row "" = e :: cs -> is_floating e = true -> data_line (strip_ws row).
Proof.
  intros row e cs Ht He. destruct (tokens_first row e cs Ht) as [c [t' [y [-> [El Hc]]]]].
  destruct (strip_first row c y El Hc) as [r Er]. destruct (floating_first c t' He) as [H1 H2].
  exists c, r. repeat split; assumption.
Qed.

Lemma pline_strip : forall l, pline (strip_ws l) = pline l.
Proof.
  intros l. unfold pline, split_ws.
  pose proof (tokens_read false (strip_ws l)) as H1. pose proof (tokens_read false l) as H2. cbn [conv_text] in H1, H2.
  rewrite H1, tokens_strip, <- H2. reflexivity.
Qed.

Lemma mapM_map_ext : forall (A B C : Type) (f : B -> res C) (g : A -> B) (h : A -> res C) l,
  (forall x, f (g x) = h x) -> mapM f (map g l) = mapM h l.
Proof.
  intros A B C f g h; induction l as [|a l IH]; intros H; [reflexivity|]. cbn [map mapM]. now rewrite H, IH.
Qed.

Lemma ppm_strip : forall rows, parse_primitive_matrix (map strip_ws rows) = parse_primitive_matrix rows.
Proof.
  intros rows. rewrite !parse_primitive_matrix_unfold.
  rewrite (mapM_map_ext _ _ _ pline strip_ws pline rows pline_strip). reflexivity.
Qed.

Lemma prune1_data : forall rows, Forall (fun r => data_line (strip_ws r)) rows -> prune1 rows = map strip_ws rows.
Proof.
  induction rows as [|r rows IH]; intros H; [reflexivity|]. inversion H as [|? ? [c [x [E [_ [Hh _]]]]] Hr]; subst.
  rewrite prune1_cons, (IH Hr). cbn [map]. rewrite prune1_unfold. cbn [map]. rewrite E.
  cbn [filter is_empty first_in sany orb negb]. rewrite Hh. reflexivity.
Qed.

(* ---- the pruned file ---- *)
Definition blk (sym : string) (s : sshell) : list string := am_line sym s :: map strip_ws (rows_of s).
Definition el_blocks (zs : Z * list sshell) : list (list string) := map (blk (symz (fst zs))) (snd zs).
Definition all_blocks (els : list (Z * list sshell)) : list (list string) := flat_map el_blocks els.

Lemma rows_data : forall s, nw_shell_ok s -> Forall (fun r => data_line (strip_ws r)) (rows_of s).
Proof.
  intros s Hs. destruct (rows_facts s Hs) as [_ [_ [F2 _]]].
  destruct Hs as [Hex [_ [_ [Hcne [HcF [_ [He Hc]]]]]]]. unfold floating in *.
  assert (HT : Forall (Forall (fun x => is_floating x = true)) (transpose (exps s :: coefs s))).
  { apply transpose_Forall. constructor; assumption. }
  assert (HL : Forall (fun r => List.length r = List.length (exps s :: coefs s)) (transpose (exps s :: coefs s)))
    by apply transpose_rowlen.
  pose proof (Forall_and _ _ _ _ HT HL) as HTL.
  refine (Forall2_Forall_r _ _ _ _ _ _ _ _ HTL F2). intros srow line [Hf Hl] Ht. cbv beta in Ht.
  destruct srow as [|e cs]; [cbn in Hl; discriminate|]. inversion Hf; subst.
  apply (row_strip line e cs); assumption.
Qed.

Lemma am_line_strip : forall z s, (1 <= z <= 118)%Z -> nw_shell_ok s ->
  strip_ws (am_line (symz z) s) = am_line (symz z) s /\
  exists c r, am_line (symz z) s = String c r /\ is_alpha c = true.
Proof.
  intros z s Hz [_ [Hne [Ha _]]]. destruct (sym_facts z Hz) as [_ [Hsne [Hs _]]].
  destruct (amch_facts (am s) Ha Hne) as [_ [Hu [Hune _]]].
  split.
  - unfold am_line. apply strip_words; apply alpha_word_tok; assumption.
  - unfold am_line. destruct (symz z) as [|c r] eqn:E; [congruence|]. cbn [sall] in Hs.
    apply andb_true_iff in Hs. destruct Hs as [Hc _]. exists c. eexists. split; [reflexivity | exact Hc].
Qed.

Lemma alpha_not_hash : forall c, is_alpha c = true -> Ascii.eqb c "#" = false.
Proof. intros c H. all_chars c; try reflexivity; discriminate H. Qed.

Lemma prune1_shell : forall z s, (1 <= z <= 118)%Z -> nw_shell_ok s -> prune1 (sh_lines (symz z) s) = blk (symz z) s.
Proof.
  intros z s Hz Hs. unfold sh_lines, blk. rewrite prune1_cons, (prune1_data _ (rows_data s Hs)).
  destruct (am_line_strip z s Hz Hs) as [E [c [r [El Hc]]]]. rewrite El in *.
  rewrite (prune1_keep c r E (alpha_not_hash c Hc)). reflexivity.
Qed.

Lemma flat_map_ext_in : forall (A B : Type) (f g : A -> list B) l, (forall x, In x l -> f x = g x) -> flat_map f l = flat_map g l.
Proof.
  intros A B f g; induction l as [|a l IH]; intros H; [reflexivity|]. cbn [flat_map].
  rewrite (H a (or_introl eq_refl)), IH; [reflexivity|]. intros x Hx. apply H. now right.
Qed.

Lemma prune1_element : forall zs, el_ok zs -> prune1 (el_lines zs) = concat (el_blocks zs).
Proof.
  intros [z shs] [Hz [_ Hshs]]. cbn [fst snd] in *. unfold el_lines, el_blocks, comment_line. cbn [fst snd].
  rewrite prune1_cons. change ("#BASIS SET: " +++ cs_of shs) with (String "#" ("BASIS SET: " +++ cs_of shs)).
  rewrite prune1_comment, prune1_flat_map. cbn [app]. rewrite <- flat_map_concat_map.
  apply flat_map_ext_in. intros s Hin. apply prune1_shell; [exact Hz|]. rewrite Forall_forall in Hshs. apply Hshs, Hin.
Qed.

Lemma concat_flat_map : forall (A B : Type) (f : A -> list (list B)) l,
  concat (flat_map f l) = flat_map (fun x => concat (f x)) l.
Proof. intros A B f; induction l as [|a l IH]; [reflexivity|]. cbn [flat_map]. now rewrite concat_app, IH. Qed.

Lemma header_prune : forall harm, harm_ok harm -> prune1 [header harm] = [header harm].
Proof. intros harm [->| ->]; reflexivity. Qed.

Lemma pruned_lines : forall harm els, nw_ok harm els ->
  prune1 (all_lines harm els) = header harm :: concat (all_blocks els) ++ ["END"].
Proof.
  intros harm els H. pose proof (nw_ok_els harm els H) as Hel. destruct H as [Hh _].
  unfold all_lines. rewrite prune1_cons, prune1_app, (header_prune harm Hh), prune1_flat_map.
  unfold all_blocks. rewrite concat_flat_map.
  rewrite (flat_map_ext_in _ _ (fun x => prune1 (el_lines x)) (fun x => concat (el_blocks x)) els).
  - reflexivity.
  - intros zs Hin. apply prune1_element. rewrite Forall_forall in Hel. apply Hel, Hin.
Qed.

(* ================================================================== *)
(* 6. partition_lines                                                  *)
(* ================================================================== *)
Definition flush (cur : list string) (all : list (list string)) : list (list string) :=
  match cur with [] => all | _ => all ++ [cur] end.

Lemma part_go_nil : forall cond inc cur all, part_go cond inc [] cur all = inr (flush cur all).
Proof. reflexivity. Qed.
Lemma part_go_match : forall cond inc l t cur all, cond l = inr true ->
  part_go cond inc (l :: t) cur all = part_go cond inc t (if inc then [l] else []) (flush cur all).
Proof. intros cond inc l t cur all H. cbn [part_go]. rewrite H. reflexivity. Qed.

Lemma part_skip : forall cond inc r rest cur all, Forall (fun l => cond l = inr false) r ->
  part_go cond inc (r ++ rest) cur all = part_go cond inc rest (cur ++ r) all.
Proof.
  intros cond inc; induction r as [|l r IH]; intros rest cur all H.
  - now rewrite app_nil_r.
  - inversion H as [|? ? Hl Hr]; subst. cbn [app part_go]. rewrite Hl. unfold bind.
    rewrite (IH rest (cur ++ [l]) all Hr), <- app_assoc. reflexivity.
Qed.

Definition block_shape (cond : string -> res bool) (b : list string) : Prop :=
  exists h r, b = h :: r /\ cond h = inr true /\ Forall (fun l => cond l = inr false) r.

Lemma part_blocks : forall cond bs cur all, Forall (block_shape cond) bs ->
  part_go cond true (concat bs) cur all = inr (flush cur all ++ bs).
Proof.
  intros cond; induction bs as [|b bs IH]; intros cur all H.
  - cbn [concat]. rewrite part_go_nil, app_nil_r. reflexivity.
  - inversion H as [|? ? [h [r [-> [Hh Hr]]]] Hbs]; subst. cbn [concat].
    change ((h :: r) ++ concat bs) with (h :: (r ++ concat bs)).
    rewrite (part_go_match _ _ _ _ _ _ Hh), (part_skip _ _ _ _ _ _ Hr), (IH _ _ Hbs).
    cbn [app flush]. rewrite <- app_assoc. reflexivity.
Qed.

(* ---- 'end' lines ---- *)
Lemma lower_alpha : forall c, is_alpha (lower_char c) = true -> is_alpha c = true.
Proof. intros c H. all_chars c; try reflexivity; discriminate H. Qed.

Lemma end_alpha : forall l, is_end_line l = true -> sall is_alpha l = true.
Proof.
  intros l H. unfold is_end_line in H. apply String.eqb_eq in H.
  assert (E : sall is_alpha (lower l) = true) by (rewrite H; reflexivity).
  unfold lower in E. rewrite sall_smap in E. exact (sall_impl _ _ l lower_alpha E).
Qed.

Lemma not_end : forall l, sall is_alpha l = false -> is_end_line l = false.
Proof. intros l H. destruct (is_end_line l) eqn:E; [|reflexivity]. apply end_alpha in E. congruence. Qed.

Lemma data_not_end : forall l, data_line l -> is_end_line l = false.
Proof. intros l [c [r [-> [Hc _]]]]. apply not_end. cbn [sall]. now rewrite Hc. Qed.

Lemma data_not_alpha : forall l, data_line l -> starts_alpha l = inr false.
Proof. intros l [c [r [-> [Hc _]]]]. cbn [starts_alpha]. now rewrite Hc. Qed.

Lemma am_line_not_end : forall sym s, is_end_line (am_line sym s) = false.
Proof.
  intros sym s. apply not_end. unfold am_line. rewrite sall_app. cbn [String.append sall].
  change (is_alpha " ") with false. cbn [andb]. apply andb_false_r.
Qed.

Lemma header_facts : forall harm, harm_ok harm ->
  is_end_line (header harm) = false /\ str_prefix "basis" (lower (header harm)) = true /\
  (if infix "spherical" (lower (header harm)) then "spherical" else "cartesian") = harm.
Proof. intros harm [->| ->]; repeat split; reflexivity. Qed.

(* ---- the shell blocks ---- *)
Definition shell_block (b : list string) : Prop :=
  block_shape starts_alpha b /\ 2 <= List.length b /\ Forall (fun l => is_end_line l = false) b.

Lemma blk_shape : forall z s, (1 <= z <= 118)%Z -> nw_shell_ok s -> shell_block (blk (symz z) s).
Proof.
  intros z s Hz Hs. pose proof (rows_data s Hs) as Hd. destruct (rows_facts s Hs) as [_ [_ [_ [Hlen _]]]].
  destruct (am_line_strip z s Hz Hs) as [_ [c [r [El Hc]]]].
  assert (Hex : List.length (exps s) <> 0) by (destruct Hs as [Hex _]; destruct (exps s); [congruence | discriminate]).
  unfold shell_block, blk. split; [|split].
  - exists (am_line (symz z) s), (map strip_ws (rows_of s)). split; [reflexivity|]. split.
    + rewrite El. cbn [starts_alpha]. now rewrite Hc.
    + rewrite Forall_forall in *. intros l Hin. apply in_map_iff in Hin. destruct Hin as [row [<- Hrow]].
      apply data_not_alpha, Hd, Hrow.
  - cbn [List.length]. rewrite map_length. lia.
  - constructor; [apply am_line_not_end|].
    rewrite Forall_forall in *. intros l Hin. apply in_map_iff in Hin. destruct Hin as [row [<- Hrow]].
    apply data_not_end, Hd, Hrow.
Qed.

Lemma all_blocks_shape : forall els, Forall el_ok els -> Forall shell_block (all_blocks els).
Proof.
  intros els Hel. rewrite Forall_forall in *. intros b Hb. unfold all_blocks in Hb.
  apply in_flat_map in Hb. destruct Hb as [[z shs] [Hzs Hb]]. unfold el_blocks in Hb. cbn [fst snd] in Hb.
  apply in_map_iff in Hb. destruct Hb as [s [<- Hs]]. destruct (Hel _ Hzs) as [Hz [_ Hshs]]. cbn [fst snd] in *.
  rewrite Forall_forall in Hshs. apply blk_shape; [exact Hz | apply Hshs, Hs].
Qed.

Lemma concat_Forall : forall (A : Type) (P : A -> Prop) bs, Forall (Forall P) bs -> Forall P (concat bs).
Proof.
  intros A P; induction bs as [|b bs IH]; intros H; [constructor|]. inversion H; subst.
  cbn [concat]. apply Forall_app. split; [assumption | now apply IH].
Qed.

(* the partition of the shell lines: exactly the blocks, all of them accepted *)
Lemma partition_shells : forall bs, Forall shell_block bs ->
  partition_lines (concat bs) starts_alpha true 2 0 0 = inr bs.
Proof.
  intros bs H. unfold partition_lines.
  rewrite (part_blocks starts_alpha bs [] []).
  - cbn [flush app]. unfold bind. rewrite existsb_false; [reflexivity|].
    intros b Hb. rewrite Forall_forall in H. destruct (H b Hb) as [_ [Hl _]]. apply Nat.ltb_ge. exact Hl.
  - rewrite Forall_forall in *. intros b Hb. apply H, Hb.
Qed.

(* the partition at the 'end' line: one section *)
Lemma partition_end : forall X, X <> [] -> Forall (fun l => is_end_line l = false) X ->
  partition_lines (X ++ ["END"]) (fun x => ok (is_end_line x)) false 1 1 2 = inr [X].
Proof.
  intros X Hne HX. unfold partition_lines.
  rewrite (part_skip (fun x => ok (is_end_line x)) false X ["END"] [] []).
  - cbn [app]. rewrite part_go_match by reflexivity. rewrite part_go_nil. cbn [flush].
    destruct X as [|x X']; [congruence|]. reflexivity.
  - rewrite Forall_forall in *. intros l Hl. unfold ok. now rewrite (HX l Hl).
Qed.

(* ================================================================== *)
(* 7. one shell block                                                  *)
(* ================================================================== *)
Lemma span_alpha_word_sp : forall a r, sall is_alpha a = true -> span_alpha (a +++ String " " r) = (a, String " " r).
Proof.
  induction a as [|c a IH]; intros r H; [reflexivity|].
  cbn [sall] in H. apply andb_true_iff in H. destruct H as [Hc Ha].
  cbn [String.append span_alpha]. rewrite Hc, (IH r Ha). reflexivity.
Qed.

Lemma span_alpha_word : forall a, sall is_alpha a = true -> span_alpha a = (a, "").
Proof.
  induction a as [|c a IH]; intros H; [reflexivity|].
  cbn [sall] in H. apply andb_true_iff in H. destruct H as [Hc Ha].
  cbn [span_alpha]. rewrite Hc, (IH Ha). reflexivity.
Qed.

Lemma parse_am_line_ok : forall a b, a <> "" -> b <> "" -> sall is_alpha a = true -> sall is_alpha b = true ->
  parse_am_line (a +++ "    " +++ b) = inr (a, b).
Proof.
  intros a b Ha Hb Sa Sb. unfold parse_am_line, match_am_line.
  change (a +++ "    " +++ b) with (a +++ String " " ("   " +++ b)).
  rewrite (span_alpha_word_sp a _ Sa). destruct a as [|ca a']; [congruence|].
  change (is_space " ") with true. cbv iota.
  assert (El : lstrip_ws (String " " ("   " +++ b)) = b).
  { cbn [String.append lstrip_ws]. change (is_space " ") with true. cbv iota.
    destruct b as [|cb b']; [congruence|]. cbn [sall] in Sb. apply andb_true_iff in Sb. destruct Sb as [Hc _].
    cbn [lstrip_ws]. now rewrite (alpha_not_space cb Hc). }
  rewrite El, (span_alpha_word b Sb). destruct b as [|cb b']; [congruence|]. reflexivity.
Qed.

Lemma ftype_ok : forall harm a, a <> [] -> function_type_from_am a "gto" harm = inr (nw_ftype harm a).
Proof. intros harm [|x a] H; [congruence|]. reflexivity. Qed.

Lemma parse_block : forall harm z s d, (1 <= z <= 118)%Z -> nw_shell_ok s ->
  nw_parse_shell_block harm (blk (symz z) s) d = inr (append_shell z (nw_expected_shell harm s) d).
Proof.
  intros harm z s d Hz Hs. destruct (rows_facts s Hs) as [_ [_ [_ [_ Hp]]]].
  destruct Hs as [_ [Hne [Ha [_ [_ [Hfused _]]]]]].
  destruct (sym_facts z Hz) as [_ [Hsne [Hsa Hsz]]].
  destruct (amch_facts (am s) Ha Hne) as [_ [Hu [Hune Hback]]].
  unfold nw_parse_shell_block, blk, am_line.
  rewrite (parse_am_line_ok _ _ Hsne Hune Hsa Hu). unfold bind.
  rewrite Hback, Hsz, (ftype_ok harm (am s) Hne).
  unfold parse_primitive_matrix_ngen. rewrite ppm_strip, Hp. unfold bind. cbn [snd].
  unfold nw_expected_shell.
  destruct (Nat.ltb 1 (List.length (am s))) eqn:E; [|reflexivity].
  apply Nat.ltb_lt in E. rewrite map_length, (Hfused E), Nat.eqb_refl. reflexivity.
Qed.

(* ================================================================== *)
(* 8. the loop over the blocks: create_element_data + append            *)
(* ================================================================== *)
Lemma append_shell_new : forall z sh d, ~ In z (map fst d) -> append_shell z sh d = d ++ [(z, [sh])].
Proof.
  intros z sh; induction d as [|[z' l] d IH]; intros H; [reflexivity|].
  cbn [append_shell map fst In] in *. destruct (Z.eqb_spec z z') as [->|Hne]; [exfalso; apply H; now left|].
  cbn [app]. rewrite IH; [reflexivity|]. intros Hin. apply H. now right.
Qed.

Lemma append_shell_last : forall z sh l d, ~ In z (map fst d) ->
  append_shell z sh (d ++ [(z, l)]) = d ++ [(z, l ++ [sh])].
Proof.
  intros z sh l; induction d as [|[z' l'] d IH]; intros H.
  - cbn [app append_shell]. now rewrite Z.eqb_refl.
  - cbn [append_shell map fst In app] in *. destruct (Z.eqb_spec z z') as [->|Hne]; [exfalso; apply H; now left|].
    rewrite IH; [reflexivity|]. intros Hin. apply H. now right.
Qed.

Lemma blocks_app : forall harm b1 b2 d,
  nw_parse_shell_blocks harm (b1 ++ b2) d = (do d' <- nw_parse_shell_blocks harm b1 d; nw_parse_shell_blocks harm b2 d').
Proof.
  intros harm; induction b1 as [|b b1 IH]; intros b2 d; [reflexivity|].
  cbn [app nw_parse_shell_blocks]. destruct (nw_parse_shell_block harm b d) as [e|d1]; [reflexivity|]. unfold bind at 1 3.
  apply IH.
Qed.

(* the further shells of the element that is the last key *)
Lemma element_rest : forall harm z shs d l, (1 <= z <= 118)%Z -> Forall nw_shell_ok shs -> ~ In z (map fst d) ->
  nw_parse_shell_blocks harm (map (blk (symz z)) shs) (d ++ [(z, l)]) =
  inr (d ++ [(z, l ++ map (nw_expected_shell harm) shs)]).
Proof.
  intros harm z; induction shs as [|s shs IH]; intros d l Hz Hs Hd.
  - cbn [map nw_parse_shell_blocks]. now rewrite app_nil_r.
  - inversion Hs as [|? ? H1 H2]; subst. cbn [map nw_parse_shell_blocks].
    rewrite (parse_block harm z s _ Hz H1). unfold bind. rewrite (append_shell_last z _ l d Hd).
    rewrite (IH d _ Hz H2 Hd), <- app_assoc. reflexivity.
Qed.

Lemma element_blocks : forall harm zs d, el_ok zs -> ~ In (fst zs) (map fst d) ->
  nw_parse_shell_blocks harm (el_blocks zs) d = inr (d ++ [(fst zs, map (nw_expected_shell harm) (snd zs))]).
Proof.
  intros harm [z shs] d [Hz [Hne Hs]] Hd. cbn [fst snd] in *. unfold el_blocks. cbn [fst snd].
  destruct shs as [|s shs]; [congruence|]. inversion Hs as [|? ? H1 H2]; subst.
  cbn [map nw_parse_shell_blocks]. rewrite (parse_block harm z s d Hz H1). unfold bind.
  rewrite (append_shell_new z _ d Hd). exact (element_rest harm z shs d [nw_expected_shell harm s] Hz H2 Hd).
Qed.

Lemma all_blocks_parse : forall harm els d, Forall el_ok els -> NoDup (map fst els) ->
  (forall z, In z (map fst els) -> ~ In z (map fst d)) ->
  nw_parse_shell_blocks harm (all_blocks els) d = inr (d ++ nw_expected els harm).
Proof.
  intros harm; induction els as [|zs els IH]; intros d Hel Hnd Hdis.
  - cbn. now rewrite app_nil_r.
  - inversion Hel as [|? ? H1 H2]; subst. cbn [map] in Hnd. inversion Hnd as [|? ? Hnotin Hnd']; subst.
    unfold all_blocks. cbn [flat_map]. fold (all_blocks els). rewrite blocks_app.
    rewrite (element_blocks harm zs d H1); [|apply Hdis; now left]. unfold bind.
    rewrite IH; [| exact H2 | exact Hnd' |].
    + unfold nw_expected. cbn [map]. rewrite <- app_assoc. reflexivity.
    + intros z Hz. rewrite map_app, in_app_iff. cbn [map In]. intros [Hin|[Heq|[]]].
      * apply (Hdis z); [now right | exact Hin].
      * subst z. apply Hnotin, Hz.
Qed.

(* ================================================================== *)
(* 9. the round trip                                                   *)
(* ================================================================== *)
Lemma read_all_lines : forall harm els, nw_ok harm els ->
  nw_read_electron (all_lines harm els) = inr (nw_expected els harm).
Proof.
  intros harm els H. pose proof (nw_ok_els harm els H) as Hel. pose proof (all_blocks_shape els Hel) as Hsh.
  pose proof (pruned_lines harm els H) as Hp. destruct H as [Hh [_ [Hnd _]]].
  destruct (header_facts harm Hh) as [Hend [Hbasis Htype]].
  assert (Hbody : Forall (fun l => is_end_line l = false) (concat (all_blocks els))).
  { apply concat_Forall. rewrite Forall_forall in *. intros b Hb. destruct (Hsh b Hb) as [_ [_ Hb3]]. exact Hb3. }
  unfold nw_read_electron. fold (prune1 (all_lines harm els)). rewrite Hp.
  change (header harm :: concat (all_blocks els) ++ ["END"]) with ((header harm :: concat (all_blocks els)) ++ ["END"]).
  rewrite partition_end; [|discriminate | constructor; assumption]. unfold bind.
  cbn [nw_sections]. rewrite Hbasis.
  unfold nw_parse_electron_lines. rewrite filter_id.
  2:{ constructor; [now rewrite Hend|]. rewrite Forall_forall in *. intros l Hl. now rewrite (Hbody l Hl). }
  rewrite Hbasis. cbn [negb]. rewrite Htype, (partition_shells _ Hsh). unfold bind.
  rewrite (all_blocks_parse harm els [] Hel Hnd); [reflexivity|]. intros z _ [].
Qed.

Lemma nw_roundtrip_exact : nw_roundtrip_stmt.
Proof.
  intros harm els H. unfold nw_roundtrip. rewrite (write_electron_lines harm els H). unfold bind.
  rewrite (splitlines_unlines _ (all_lines_good harm els H)). apply read_all_lines, H.
Qed.

(* ================================================================== *)
(* 10. the hypotheses of nw_ok that cannot be dropped, and a concrete instance *)
(* ================================================================== *)
Lemma nw_roundtrip_empty : nw_roundtrip_empty_stmt.
Proof. vm_compute. reflexivity. Qed.
Lemma nw_roundtrip_noshell : nw_roundtrip_noshell_stmt.
Proof. vm_compute. reflexivity. Qed.
Lemma nw_roundtrip_fused : nw_roundtrip_fused_stmt.
Proof. vm_compute. reflexivity. Qed.

Example nw_example : nw_example_stmt.
Proof.
  split; [|split; [|split]]; try (vm_compute; reflexivity).
  unfold nw_ok, ex_els. split; [now left|]. split; [discriminate|]. split.
  - cbn [map fst]. repeat constructor; cbn [In]; intros H; repeat (destruct H as [H|H]; [discriminate H|]); exact H.
  - repeat constructor; cbn; try lia; try discriminate; try reflexivity.
Qed.

Print Assumptions nw_write_total.
Print Assumptions nw_roundtrip_exact.
Print Assumptions nw_no_number_lost.
Print Assumptions nw_roundtrip_empty.
Print Assumptions nw_roundtrip_noshell.
Print Assumptions nw_roundtrip_fused.
Print Assumptions nw_example.
