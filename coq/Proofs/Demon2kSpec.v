(* Proofs of the statements of Proofs/Demon2kDefs.v: the electron part written by write_demon2k is never read back by
   read_demon2k as it stands (no END line); with the END line it is read back exactly (up to the exponent marker, the
   region and the function type, see d2k_expected).  The central lemma (read_orbitals_tail) is stated for an arbitrary tail
   of lines after the electron part, for use by Proofs/Demon2kEcpSpec.v. *)
From BSE Require Import Model.Val Model.Text Model.Basis Model.Manip Model.Matrix Gen.GenLut Model.Lut Model.Elements
                        Model.Nwchem Model.Turbomole Model.Demon2k Proofs.MatrixDefs Proofs.NwchemDefs Proofs.C20Finite
                        Proofs.Demon2kDefs.
From BSE Require Proofs.ElementsSpec.
From BSE Require Import Proofs.HeaderSpec Proofs.PruneFS Proofs.MatrixSpec Proofs.NwchemSpec Proofs.NwchemEcpSpec.

(* ================================================================== *)
(* 1. generic helpers                                                  *)
(* ================================================================== *)
Lemma digit_nobd_c : forall c, is_digit c = true -> nobd c = true.
Proof. intros c H. all_chars c; try reflexivity; discriminate H. Qed.
Lemma digit_not_space : forall c, is_digit c = true -> is_space c = false.
Proof. intros c H. all_chars c; try reflexivity; discriminate H. Qed.
Lemma digit_not_alpha : forall c, is_digit c = true -> is_alpha c = false.
Proof. intros c H. all_chars c; try reflexivity; discriminate H. Qed.
Lemma digit_not_hash : forall c, is_digit c = true -> Ascii.eqb c "#" = false.
Proof. intros c H. all_chars c; try reflexivity; discriminate H. Qed.
Lemma digit_not_underscore : forall c, is_digit c = true -> Ascii.eqb c "_" = false.
Proof. intros c H. all_chars c; try reflexivity; discriminate H. Qed.
Lemma namechar_nobd : forall c, is_name_char c = true -> nobd c = true.
Proof. intros c H. all_chars c; try reflexivity; discriminate H. Qed.
Lemma namechar_not_space : forall c, is_name_char c = true -> is_space c = false.
Proof. intros c H. all_chars c; try reflexivity; discriminate H. Qed.
Lemma digit_namechar : forall c, is_digit c = true -> is_name_char c = true.
Proof. intros c H. all_chars c; try reflexivity; discriminate H. Qed.
Lemma alpha_namechar : forall c, is_alpha c = true -> is_name_char c = true.
Proof. intros c H. all_chars c; try reflexivity; discriminate H. Qed.

Lemma decimal_tok : forall s, decimal s -> tok_ok s.
Proof. intros s [Hne Hd]. split; [exact Hne|]. apply (sall_sany_false is_digit); [exact digit_not_space | exact Hd]. Qed.
Lemma decimal_nobd : forall s, decimal s -> sall nobd s = true.
Proof. intros s [_ Hd]. exact (sall_impl _ _ s digit_nobd_c Hd). Qed.
Lemma nat_str_decimal : forall n, decimal (nat_str n).
Proof. intros n. unfold nat_str. apply N_to_string_decimal. Qed.
Lemma nat_str_value : forall n, digits_val (nat_str n) 0 = Z.of_nat n.
Proof. intros n. unfold nat_str. rewrite N_to_string_val. lia. Qed.

Lemma upper_alpha : forall s, sall is_alpha s = true -> sall is_alpha (upper s) = true.
Proof. intros s H. unfold upper. rewrite sall_smap. exact (sall_impl _ _ s alpha_upper H). Qed.
Lemma upper_ne : forall s, s <> "" -> upper s <> "".
Proof. intros [|c s] H; [congruence | discriminate]. Qed.

(* the last block takes the lines that follow *)
Fixpoint extend_last (bs : list (list string)) (tail : list string) : list (list string) :=
  match bs with
  | [] => []
  | [b] => [b ++ tail]
  | b :: t => b :: extend_last t tail
  end.

Lemma concat_extend_last : forall bs tail, bs <> [] -> concat (extend_last bs tail) = concat bs ++ tail.
Proof.
  induction bs as [|b bs IH]; intros tail H; [congruence|].
  destruct bs as [|b2 bs].
  - cbn. now rewrite !app_nil_r.
  - change (extend_last (b :: b2 :: bs) tail) with (b :: extend_last (b2 :: bs) tail).
    cbn [concat]. rewrite IH by discriminate. cbn [concat]. now rewrite app_assoc.
Qed.

Lemma extend_last_length : forall bs tail, List.length (extend_last bs tail) = List.length bs.
Proof.
  induction bs as [|b bs IH]; intros tail; [reflexivity|]. destruct bs as [|b2 bs]; [reflexivity|].
  change (extend_last (b :: b2 :: bs) tail) with (b :: extend_last (b2 :: bs) tail). cbn [List.length]. now rewrite IH.
Qed.

Lemma extend_last_F2 : forall (A : Type) (f : A -> list string) (P : string -> Prop) l tail, Forall P tail ->
  Forall2 (fun a b => exists extra, b = f a ++ extra /\ Forall P extra) l (extend_last (map f l) tail).
Proof.
  intros A f P l tail HT; induction l as [|a l IH]; [constructor|].
  destruct l as [|a2 l].
  - cbn. constructor; [|constructor]. exists tail. split; [reflexivity | exact HT].
  - change (extend_last (map f (a :: a2 :: l)) tail) with (f a :: extend_last (map f (a2 :: l)) tail).
    constructor; [|exact IH]. exists []. split; [now rewrite app_nil_r | constructor].
Qed.

(* ================================================================== *)
(* 2. finite facts about the tables of lut.py                          *)
(* ================================================================== *)
Definition namez (z : Z) : string := match element_name_from_Z z false with inr n => upper n | inl _ => "" end.
Definition name_good (z : Z) : bool :=
  match element_name_from_Z z false with
  | inr n => negb (is_empty (upper n)) && sall is_alpha (upper n) && res_eqb Z.eqb (element_Z_from_name (upper n)) z
  | inl _ => false
  end.
Lemma name_good_sweep : forallb name_good Zs = true.
Proof. vm_compute. reflexivity. Qed.

Lemma name_facts : forall z, (1 <= z <= 118)%Z ->
  element_name_from_Z z false = inr (match element_name_from_Z z false with inr n => n | inl _ => "" end) /\
  namez z <> "" /\ sall is_alpha (namez z) = true /\ element_Z_from_name (namez z) = inr z.
Proof.
  intros z Hz. pose proof (proj1 (forallb_forall _ _) name_good_sweep z (Zs_spec z Hz)) as H.
  unfold name_good, namez in *. destruct (element_name_from_Z z false) as [e|n]; [discriminate|].
  repeat rewrite andb_true_iff in H. destruct H as [[H1 H2] H3].
  split; [reflexivity|]. split; [|split; [exact H2 | now apply res_eqb_Z]].
  intros E. rewrite E in H1. discriminate.
Qed.

(* electron_shells_start: 21 entries, none negative, whenever it answers *)
Definition ess_good (n : Z) : bool :=
  match electron_shells_start n 20 with
  | inl _ => true
  | inr st => forallb (fun x => (0 <=? x)%Z) st && Nat.eqb (List.length st) 21
  end.
Lemma ess_good_sweep : forallb ess_good (zrange 0 119) = true.
Proof. vm_compute. reflexivity. Qed.

Definition stz (n : Z) : list Z := match electron_shells_start n 20 with inr st => st | inl _ => [] end.
Lemma ess_facts : forall n, d2k_nelec_ok n ->
  electron_shells_start n 20 = inr (stz n) /\ List.length (stz n) = 21 /\ Forall (fun x => (0 <= x)%Z) (stz n).
Proof.
  intros n [st E]. unfold stz. rewrite E. split; [reflexivity|].
  assert (Hn : (0 <= n <= 118)%Z).
  { destruct (ess_bounds n 20) as [B1 B2]. destruct (Z_lt_ge_dec n 0) as [L|L]; [rewrite (B1 L) in E; discriminate|].
    destruct (Z_gt_le_dec n 118) as [G|G]; [rewrite (B2 G) in E; discriminate|]. lia. }
  assert (Hin : In n (zrange 0 119)) by (apply zrange_In; lia).
  pose proof (proj1 (forallb_forall _ _) ess_good_sweep n Hin) as H. unfold ess_good in H. rewrite E in H.
  apply andb_true_iff in H. destruct H as [H1 H2]. split; [now apply Nat.eqb_eq|].
  rewrite Forall_forall. intros x Hx. apply (proj1 (forallb_forall _ _) H1) in Hx. lia.
Qed.

Definition nelec_check (n : Z) : bool :=
  Bool.eqb (match electron_shells_start n 20 with inr _ => true | inl _ => false end)
           (existsb (Z.eqb n) d2k_nelec_values).
Lemma nelec_sweep : forallb nelec_check (zrange 0 119) = true.
Proof. vm_compute. reflexivity. Qed.

Lemma d2k_nelec_values_exact : d2k_nelec_values_stmt.
Proof.
  intros n. unfold d2k_nelec_ok.
  destruct (Z_lt_ge_dec n 0) as [L|L].
  { split; [intros [st E]; rewrite (proj1 (ess_bounds n 20) L) in E; discriminate|].
    intros Hin. exfalso. unfold d2k_nelec_values in Hin. cbn [In] in Hin. lia. }
  destruct (Z_gt_le_dec n 118) as [G|G].
  { split; [intros [st E]; rewrite (proj2 (ess_bounds n 20) G) in E; discriminate|].
    intros Hin. exfalso. unfold d2k_nelec_values in Hin. cbn [In] in Hin. lia. }
  assert (Hin : In n (zrange 0 119)) by (apply zrange_In; lia).
  pose proof (proj1 (forallb_forall _ _) nelec_sweep n Hin) as H. unfold nelec_check in H. apply Bool.eqb_prop in H.
  split.
  - intros [st E]. rewrite E in H. symmetry in H. apply existsb_exists in H. destruct H as [x [Hx Ex]].
    apply Z.eqb_eq in Ex. now subst.
  - intros Hv. assert (Ex : existsb (Z.eqb n) d2k_nelec_values = true).
    { apply existsb_exists. exists n. split; [exact Hv | apply Z.eqb_refl]. }
    rewrite Ex in H. destruct (electron_shells_start n 20) as [e|st]; [discriminate | now exists st].
Qed.

(* ================================================================== *)
(* 3. the lines the writer prints                                      *)
(* ================================================================== *)
Definition am0 (s : sshell) : Z := hd 0%Z (am s).
Definition hdr_line (pqn : Z) (s : sshell) : string :=
  "    " +++ Z_to_string pqn +++ "    " +++ Z_to_string (am0 s) +++ "    " +++ nat_str (List.length (exps s)).
(* shells_start is threaded through the shells *)
Fixpoint d_blocks (st : list Z) (shs : list sshell) : list (list string) :=
  match shs with
  | [] => []
  | s :: t => let k := Z.to_nat (am0 s) in (hdr_line (nth k st 0%Z) s :: rows_of s) :: d_blocks (list_incr st k) t
  end.
Definition o_line (bsname : string) (z : Z) : string :=
  "O-" +++ namez z +++ " " +++ upper (symz z) +++ " (" +++ bsname +++ ")".
Definition n_line (shs : list sshell) : string := "    " +++ nat_str (List.length shs).
Definition d_comment (shs : list sshell) : string := "# " +++ cs_of shs.
Definition d_body (e : Z * (Z * list sshell)) : list string :=
  n_line (snd (snd e)) :: concat (d_blocks (stz (fst (snd e))) (snd (snd e))).
Definition d_el_lines (bsname : string) (e : Z * (Z * list sshell)) : list string :=
  o_line bsname (fst e) :: d_comment (snd (snd e)) :: d_body e.
Definition d_head (sph : bool) : list string :=
  ["# This basis set uses " +++ (if sph then "spherical" else "cartesian") +++ " components"; ""].
Definition d_all_lines (sph : bool) (bsname : string) (els : list (Z * (Z * list sshell))) : list string :=
  d_head sph ++ flat_map (d_el_lines bsname) els.

Lemma d2k_shell_nw : forall s, d2k_shell_ok s -> nw_shell_ok s.
Proof.
  intros s [Hex [[a [Ea Ha]] [[c [Ec Hc]] [He Hco]]]]. unfold nw_shell_ok. rewrite Ea, Ec.
  split; [exact Hex|]. split; [discriminate|]. split; [constructor; [lia | constructor]|].
  split; [discriminate|]. split; [constructor; [exact Hc | constructor]|].
  split; [cbn; lia|]. split; [exact He|]. rewrite Ec in Hco. exact Hco.
Qed.

Lemma list_incr_length : forall l k, List.length (list_incr l k) = List.length l.
Proof. induction l as [|x l IH]; intros k; [reflexivity|]. destruct k; cbn [list_incr List.length]; [reflexivity | now rewrite IH]. Qed.
Lemma list_incr_nonneg : forall l k, Forall (fun x => (0 <= x)%Z) l -> Forall (fun x => (0 <= x)%Z) (list_incr l k).
Proof.
  induction l as [|x l IH]; intros k H; [constructor|]. inversion H; subst.
  destruct k; cbn [list_incr]; constructor; try assumption; [lia | now apply IH].
Qed.

Lemma py_index_ok : forall l a, (0 <= a < Z.of_nat (List.length l))%Z -> py_index l a = inr (Z.to_nat a).
Proof.
  intros l a H. unfold py_index. assert (E1 : (0 <=? a)%Z = true) by lia.
  assert (E2 : (a <? Z.of_nat (List.length l))%Z = true) by lia. rewrite E1, E2. reflexivity.
Qed.

Lemma write_shell_lines : forall st s, d2k_shell_ok s -> List.length st = 21 ->
  d2k_write_shell st s =
    inr (unlines (hdr_line (nth (Z.to_nat (am0 s)) st 0%Z) s :: rows_of s), list_incr st (Z.to_nat (am0 s))).
Proof.
  intros st s Hs Hst. destruct (rows_facts s (d2k_shell_nw s Hs)) as [Hw _].
  destruct Hs as [_ [[a [Ea Ha]] _]]. unfold d2k_write_shell, am0. rewrite Ea. cbn [hd].
  rewrite py_index_ok by (rewrite Hst; lia). unfold bind. fold (mat_of s). fold (pps_of s). rewrite Hw.
  unfold ok, hdr_line, am0. rewrite Ea. cbn [hd]. rewrite unlines_cons, !sapp_assoc. reflexivity.
Qed.

Lemma write_shells_lines : forall shs st, Forall d2k_shell_ok shs -> List.length st = 21 ->
  d2k_write_shells st shs = inr (unlines (concat (d_blocks st shs))).
Proof.
  induction shs as [|s shs IH]; intros st H Hst; [reflexivity|]. inversion H as [|? ? H1 H2]; subst.
  cbn [d2k_write_shells d_blocks concat]. rewrite (write_shell_lines st s H1 Hst). unfold bind. cbn [fst snd].
  rewrite (IH _ H2) by (now rewrite list_incr_length). unfold ok. rewrite (unlines_app (_ :: _)). reflexivity.
Qed.

Lemma d2k_els : forall bsname els, d2k_ok bsname els -> Forall d2k_el_ok els.
Proof. intros bsname els [_ [_ [_ H]]]. exact H. Qed.

Lemma d_cs_facts : forall shs, Forall d2k_shell_ok shs ->
  contraction_string (Some (map nw_cshell shs)) false = inr (cs_of shs) /\ good_line (comment_line shs).
Proof.
  intros shs H. apply cs_facts. rewrite Forall_forall in *. intros s Hs. apply d2k_shell_nw, H, Hs.
Qed.

Lemma write_element_lines : forall bsname e, d2k_el_ok e ->
  d2k_write_element bsname e = inr (unlines (d_el_lines bsname e)).
Proof.
  intros bsname [z [ne shs]] [Hz [Hne [_ Hshs]]]. cbn [fst snd] in *.
  destruct (sym_facts z Hz) as [Es _]. destruct (name_facts z Hz) as [En _].
  destruct (d_cs_facts shs Hshs) as [Ec _]. destruct (ess_facts ne Hne) as [Est [Hlen _]].
  unfold d2k_write_element. rewrite Es. unfold bind. rewrite En, Ec, Est, (write_shells_lines shs _ Hshs Hlen).
  unfold ok, d_el_lines, d_body, o_line, d_comment, n_line, namez. cbn [fst snd]. rewrite En.
  rewrite !unlines_cons, !sapp_assoc. reflexivity.
Qed.

Lemma write_electron_lines : forall sph bsname els, d2k_ok bsname els ->
  d2k_write_electron sph bsname els = inr (unlines (d_all_lines sph bsname els)).
Proof.
  intros sph bsname els H. pose proof (d2k_els bsname els H) as Hel.
  unfold d2k_write_electron.
  rewrite (mapM_map_ok _ _ (d2k_write_element bsname) (fun e => unlines (d_el_lines bsname e))).
  - unfold bind, ok, d_all_lines, d_head, d2k_header. rewrite unlines_app, unlines_flat_map.
    rewrite !unlines_cons, !sapp_assoc. destruct sph; reflexivity.
  - intros e Hin. apply write_element_lines. rewrite Forall_forall in Hel. apply Hel, Hin.
Qed.

Lemma d2k_write_total : d2k_write_total_stmt.
Proof. intros sph bsname els H. eexists. apply write_electron_lines, H. Qed.

(* ---- the header line of a shell ---- *)
Lemma hdr_assoc : forall p s,
  hdr_line p s = ((sp 4 +++ Z_to_string p) +++ sp 4 +++ Z_to_string (am0 s)) +++ sp 4 +++ nat_str (List.length (exps s)).
Proof. intros p s. unfold hdr_line. rewrite !sapp_assoc. reflexivity. Qed.

Lemma hdr_tokens : forall p s, (0 <= p)%Z -> (0 <= am0 s)%Z ->
  tokens_acc (hdr_line p s) "" = [Z_to_string p; Z_to_string (am0 s); nat_str (List.length (exps s))].
Proof.
  intros p s Hp Ha. rewrite hdr_assoc.
  rewrite (tokens_snoc 3 _ (decimal_tok _ (nat_str_decimal _))).
  rewrite (tokens_snoc 3 _ (decimal_tok _ (proj1 (nonneg_string _ Ha)))).
  rewrite (tokens_sp_word 4 _ (decimal_tok _ (proj1 (nonneg_string _ Hp)))). reflexivity.
Qed.

Lemma hdr_match : forall p s, (0 <= p)%Z -> (0 <= am0 s)%Z ->
  match_shell (hdr_line p s) = Some (p, am0 s, Z.of_nat (List.length (exps s))).
Proof.
  intros p s Hp Ha. unfold match_shell. rewrite (hdr_tokens p s Hp Ha).
  destruct (nonneg_string p Hp) as [D1 V1]. destruct (nonneg_string (am0 s) Ha) as [D2 V2].
  destruct (decimal_is_integer _ D1) as [_ [_ ->]]. destruct (decimal_is_integer _ D2) as [_ [_ ->]].
  destruct (decimal_is_integer _ (nat_str_decimal (List.length (exps s)))) as [_ [_ ->]].
  cbn [andb]. rewrite V1, V2, nat_str_value. reflexivity.
Qed.

Lemma hdr_good : forall p s, (0 <= p)%Z -> (0 <= am0 s)%Z -> good_line (hdr_line p s).
Proof.
  intros p s Hp Ha. unfold good_line, hdr_line. rewrite !sall_app.
  rewrite (decimal_nobd _ (proj1 (nonneg_string _ Hp))), (decimal_nobd _ (proj1 (nonneg_string _ Ha))),
          (decimal_nobd _ (nat_str_decimal _)). reflexivity.
Qed.

Lemma n_line_good : forall shs, good_line (n_line shs).
Proof. intros shs. unfold good_line, n_line. rewrite sall_app, (decimal_nobd _ (nat_str_decimal _)). reflexivity. Qed.

Lemma name_chars : forall s, basis_name_ok s = true -> sall is_name_char s = true /\ s <> "".
Proof.
  intros s H. split; [|intros ->; discriminate H]. unfold basis_name_ok in H.
  induction s as [|c s IH]; [discriminate|]. cbn [skip_digits] in H. destruct (is_digit c) eqn:Ed.
  - cbn [sall]. rewrite (digit_namechar c Ed). apply IH, H.
  - apply andb_true_iff in H. destruct H as [Hc Ht]. cbn [sall]. now rewrite (alpha_namechar c Hc), Ht.
Qed.

Lemma o_line_good : forall bsname z, basis_name_ok bsname = true -> (1 <= z <= 118)%Z -> good_line (o_line bsname z).
Proof.
  intros bsname z Hn Hz. destruct (name_facts z Hz) as [_ [_ [Ha _]]]. destruct (sym_facts z Hz) as [_ [_ [Hs _]]].
  destruct (name_chars bsname Hn) as [Hc _].
  unfold good_line, o_line. rewrite !sall_app.
  rewrite (sall_impl _ _ _ alpha_nobd Ha), (sall_impl _ _ _ alpha_nobd (upper_alpha _ Hs)), (sall_impl _ _ _ namechar_nobd Hc).
  reflexivity.
Qed.

Definition st_ok (st : list Z) : Prop := List.length st = 21 /\ Forall (fun x => (0 <= x)%Z) st.
Lemma st_ok_incr : forall st k, st_ok st -> st_ok (list_incr st k).
Proof. intros st k [H1 H2]. split; [now rewrite list_incr_length | now apply list_incr_nonneg]. Qed.
Lemma st_ok_nth : forall st k, st_ok st -> (0 <= nth k st 0)%Z.
Proof.
  intros st k [_ H]. destruct (Nat.lt_ge_cases k (List.length st)) as [L|L].
  - rewrite Forall_forall in H. apply H, nth_In, L.
  - rewrite nth_overflow by exact L. lia.
Qed.
Lemma am0_nonneg : forall s, d2k_shell_ok s -> (0 <= am0 s <= 20)%Z /\ am s = [am0 s].
Proof. intros s [_ [[a [Ea Ha]] _]]. unfold am0. rewrite Ea. cbn [hd]. split; [exact Ha | reflexivity]. Qed.

Lemma d_blocks_good : forall shs st, Forall d2k_shell_ok shs -> st_ok st -> Forall good_line (concat (d_blocks st shs)).
Proof.
  induction shs as [|s shs IH]; intros st H Hst; [constructor|]. inversion H as [|? ? H1 H2]; subst.
  cbn [d_blocks concat]. apply Forall_app. split; [|apply IH; [exact H2 | now apply st_ok_incr]].
  constructor.
  - apply hdr_good; [now apply st_ok_nth | apply (am0_nonneg s H1)].
  - apply (rows_facts s (d2k_shell_nw s H1)).
Qed.

Lemma d_all_lines_good : forall sph bsname els, d2k_ok bsname els -> Forall good_line (d_all_lines sph bsname els).
Proof.
  intros sph bsname els H. pose proof (d2k_els bsname els H) as Hel. destruct H as [Hn _].
  unfold d_all_lines. apply Forall_app. split; [destruct sph; repeat constructor|].
  rewrite Forall_forall in *. intros l Hin. apply in_flat_map in Hin. destruct Hin as [[z [ne shs]] [He Hl]].
  destruct (Hel _ He) as [Hz [Hne [_ Hshs]]]. cbn [fst snd] in *. unfold d_el_lines, d_body in Hl. cbn [fst snd] in Hl.
  destruct Hl as [<-|[<-|[<-|Hl]]].
  - now apply o_line_good.
  - apply (d_cs_facts shs Hshs).
  - apply n_line_good.
  - destruct (ess_facts ne Hne) as [_ [L1 L2]].
    pose proof (d_blocks_good shs (stz ne) Hshs (conj L1 L2)) as G. rewrite Forall_forall in G. apply G, Hl.
Qed.

Lemma written_lines : forall sph bsname els t, d2k_ok bsname els -> d2k_write_electron sph bsname els = inr t ->
  splitlines t = d_all_lines sph bsname els.
Proof.
  intros sph bsname els t H E. rewrite (write_electron_lines sph bsname els H) in E. inversion E; subst.
  apply splitlines_unlines, d_all_lines_good, H.
Qed.

(* ---------- d2k_no_number_lost ---------- *)
Lemma rows_in_blocks : forall shs st s line, In s shs -> In line (rows_of s) -> In line (concat (d_blocks st shs)).
Proof.
  induction shs as [|s0 shs IH]; intros st s line Hs Hl; [destruct Hs|].
  cbn [d_blocks concat]. apply in_or_app. destruct Hs as [->|Hs].
  - left. right. exact Hl.
  - right. apply (IH _ s line Hs Hl).
Qed.

Lemma d2k_no_number_lost : d2k_no_number_lost_stmt.
Proof.
  intros sph bsname els t H E x [e [s [He [Hs Hx]]]].
  rewrite (written_lines sph bsname els t H E).
  pose proof (d2k_els bsname els H) as Hel. rewrite Forall_forall in Hel. destruct (Hel e He) as [_ [_ [_ Hshs]]].
  rewrite Forall_forall in Hshs. pose proof (d2k_shell_nw s (Hshs s Hs)) as Hok.
  destruct (rows_facts s Hok) as [_ [_ [F2 _]]].
  destruct Hok as [_ [_ [_ [_ [HcF _]]]]].
  assert (HF : Forall (fun r => List.length r = List.length (exps s)) (exps s :: coefs s)) by (constructor; [reflexivity | exact HcF]).
  assert (Hcol : exists c, In c (exps s :: coefs s) /\ In x c).
  { destruct Hx as [Hx|[c [Hc Hx]]]; [exists (exps s); split; [now left | exact Hx] | exists c; split; [now right | exact Hx]]. }
  destruct Hcol as [c [Hc Hxc]].
  destruct (transpose_has _ _ c x HF Hc Hxc) as [row [Hrow Hxr]].
  destruct (Forall2_In_l _ _ _ _ _ row F2 Hrow) as [line [Hline Htok]].
  exists line. split; [|rewrite Htok; exact Hxr].
  unfold d_all_lines. apply in_or_app. right. apply in_flat_map. exists e. split; [exact He|].
  unfold d_el_lines, d_body. right. right. right. apply (rows_in_blocks _ _ s line Hs Hline).
Qed.

(* ================================================================== *)
(* 4. prune_lines(lines, '#') on the written lines                      *)
(* ================================================================== *)
(* a line whose first token begins with a digit is a data line after strip() *)
Lemma digit_row_strip : forall row e cs, tokens_acc row "" = e :: cs -> decimal e -> data_line (strip_ws row).
Proof.
  intros row e cs Ht [Hne Hd]. destruct (tokens_first row e cs Ht) as [c [t' [y [-> [El Hc]]]]].
  destruct (strip_first row c y El Hc) as [r Er]. cbn [sall] in Hd. apply andb_true_iff in Hd. destruct Hd as [Hdc _].
  exists c, r. repeat split; [exact Er | now apply digit_not_alpha | now apply digit_not_hash | exact Hc].
Qed.

Lemma n_line_tokens : forall shs, tokens_acc (n_line shs) "" = [nat_str (List.length shs)].
Proof. intros shs. unfold n_line. apply (tokens_sp_word 4), decimal_tok, nat_str_decimal. Qed.

Lemma d_blocks_data : forall shs st, Forall d2k_shell_ok shs -> st_ok st ->
  Forall (fun r => data_line (strip_ws r)) (concat (d_blocks st shs)).
Proof.
  induction shs as [|s shs IH]; intros st H Hst; [constructor|]. inversion H as [|? ? H1 H2]; subst.
  cbn [d_blocks concat]. apply Forall_app. split; [|apply IH; [exact H2 | now apply st_ok_incr]].
  constructor.
  - destruct (am0_nonneg s H1) as [Ha _].
    apply (digit_row_strip _ _ _ (hdr_tokens _ s (st_ok_nth st _ Hst) (proj1 Ha))).
    apply (nonneg_string _ (st_ok_nth st _ Hst)).
  - apply rows_data, d2k_shell_nw, H1.
Qed.

Lemma d_body_data : forall e, d2k_el_ok e -> Forall (fun r => data_line (strip_ws r)) (d_body e).
Proof.
  intros [z [ne shs]] [_ [Hne [_ Hshs]]]. cbn [fst snd] in *. unfold d_body. cbn [fst snd]. constructor.
  - apply (digit_row_strip _ _ _ (n_line_tokens shs)), nat_str_decimal.
  - destruct (ess_facts ne Hne) as [_ [L1 L2]]. apply (d_blocks_data shs _ Hshs (conj L1 L2)).
Qed.

Lemma o_line_strip : forall bsname z, basis_name_ok bsname = true -> (1 <= z <= 118)%Z ->
  strip_ws (o_line bsname z) = o_line bsname z.
Proof.
  intros bsname z Hn Hz. destruct (name_facts z Hz) as [_ [Hne [Ha _]]]. destruct (name_chars bsname Hn) as [Hc _].
  unfold o_line.
  assert (E : "O-" +++ namez z +++ " " +++ upper (symz z) +++ " (" +++ bsname +++ ")" =
              ("O-" +++ namez z) +++ (" " +++ upper (symz z) +++ " ") +++ ("(" +++ bsname +++ ")")).
  { rewrite !sapp_assoc. reflexivity. }
  rewrite E. apply strip_words.
  - split; [discriminate|]. rewrite sany_app. cbn [sany]. change (is_space "O") with false. change (is_space "-") with false.
    cbn [orb]. apply (sall_sany_false is_alpha); [exact alpha_not_space | exact Ha].
  - split; [discriminate|]. cbn [String.append sany]. change (is_space "(") with false. cbn [orb].
    rewrite sany_app. cbn [sany]. change (is_space ")") with false. rewrite !orb_false_r.
    apply (sall_sany_false is_name_char); [exact namechar_not_space | exact Hc].
Qed.

(* the pruned section of an element *)
Definition d_sec (bsname : string) (e : Z * (Z * list sshell)) : list string :=
  o_line bsname (fst e) :: map strip_ws (d_body e).

Lemma prune1_el : forall bsname e, basis_name_ok bsname = true -> d2k_el_ok e ->
  prune1 (d_el_lines bsname e) = d_sec bsname e.
Proof.
  intros bsname e Hn He. pose proof (d_body_data e He) as Hd. destruct He as [Hz _].
  unfold d_el_lines, d_sec. rewrite prune1_cons. rewrite (prune1_cons (d_comment _)).
  unfold d_comment. change ("# " +++ cs_of (snd (snd e))) with (String "#" (" " +++ cs_of (snd (snd e)))).
  rewrite prune1_comment, (prune1_data _ Hd). cbn [app].
  pose proof (o_line_strip bsname (fst e) Hn Hz) as Es.
  change (o_line bsname (fst e)) with (String "O" ("-" +++ namez (fst e) +++ " " +++ upper (symz (fst e)) +++ " (" +++ bsname +++ ")")) in *.
  rewrite (prune1_keep _ _ Es eq_refl). reflexivity.
Qed.

Lemma prune1_all : forall sph bsname els tail, d2k_ok bsname els ->
  prune1 (d_all_lines sph bsname els ++ tail) = flat_map (d_sec bsname) els ++ prune1 tail.
Proof.
  intros sph bsname els tail H. pose proof (d2k_els bsname els H) as Hel. destruct H as [Hn _].
  unfold d_all_lines. rewrite !prune1_app, prune1_flat_map.
  assert (Eh : prune1 (d_head sph) = []) by (destruct sph; reflexivity). rewrite Eh. cbn [app]. f_equal.
  apply flat_map_ext_in. intros e Hin. apply prune1_el; [exact Hn|]. rewrite Forall_forall in Hel. apply Hel, Hin.
Qed.

(* ================================================================== *)
(* 5. the reader on the pruned lines                                   *)
(* ================================================================== *)
(* what may follow the electron part: lines that start neither an element section nor a shell *)
Definition tail_line (l : string) : Prop := is_orbital l = false /\ is_shell l = false.

Lemma data_not_orbital : forall l, data_line l -> is_orbital l = false.
Proof.
  intros l [c [r [-> [Hc _]]]]. unfold is_orbital, match_orbital. all_chars c; try reflexivity; discriminate Hc.
Qed.

Lemma match_shell_strip : forall l, match_shell (strip_ws l) = match_shell l.
Proof. intros l. unfold match_shell. now rewrite tokens_strip. Qed.
Lemma is_shell_strip : forall l, is_shell (strip_ws l) = is_shell l.
Proof. intros l. unfold is_shell. now rewrite match_shell_strip. Qed.

Lemma rows_not_shell : forall s, d2k_shell_ok s -> Forall (fun r => is_shell (strip_ws r) = false) (rows_of s).
Proof.
  intros s Hs. pose proof (d2k_shell_nw s Hs) as Hn. destruct (rows_facts s Hn) as [_ [_ [F2 _]]].
  destruct Hs as [_ [_ [[c [Ec _]] _]]].
  assert (HL : Forall (fun r => List.length r = List.length (exps s :: coefs s)) (transpose (exps s :: coefs s)))
    by apply transpose_rowlen.
  refine (Forall2_Forall_r _ _ _ _ _ _ _ _ HL F2). intros srow line Hl Ht. cbv beta in Ht.
  rewrite is_shell_strip. unfold is_shell, match_shell. rewrite Ht. rewrite Ec in Hl. cbn [List.length] in Hl.
  destruct srow as [|a [|b [|c0 [|d r]]]]; try reflexivity; cbn in Hl; discriminate.
Qed.

Lemma rows_not_orbital : forall s, d2k_shell_ok s -> Forall (fun r => is_orbital (strip_ws r) = false) (rows_of s).
Proof.
  intros s Hs. pose proof (rows_data s (d2k_shell_nw s Hs)) as H. rewrite Forall_forall in *.
  intros r Hr. apply data_not_orbital, H, Hr.
Qed.

(* ---- one shell block ---- *)
Definition blk_rel (s : sshell) (x : list string) : Prop :=
  exists p extra, (0 <= p)%Z /\ x = map strip_ws (hdr_line p s :: rows_of s) ++ extra /\ Forall tail_line extra.

Lemma firstn_exact : forall (A : Type) (l r : list A), firstn (List.length l) (l ++ r) = l.
Proof. intros A l r. rewrite firstn_app, Nat.sub_diag, firstn_all. cbn [firstn]. apply app_nil_r. Qed.

Lemma parse_block_d : forall s x, d2k_shell_ok s -> blk_rel s x ->
  d2k_parse_shell_block x = inr (Some (d2k_expected_shell s)).
Proof.
  intros s x Hs [p [extra [Hp [-> _]]]]. pose proof (d2k_shell_nw s Hs) as Hn.
  destruct (rows_facts s Hn) as [_ [_ [_ [Hlen Hpm]]]]. destruct (am0_nonneg s Hs) as [Ha Eam].
  destruct Hs as [_ [_ [[c [Ec Hc]] _]]].
  cbn [map app]. unfold d2k_parse_shell_block. rewrite match_shell_strip, (hdr_match p s Hp (proj1 Ha)).
  rewrite Nat2Z.id.
  assert (El : List.length (exps s) = List.length (map strip_ws (rows_of s))) by (now rewrite map_length).
  rewrite El at 1. rewrite firstn_exact.
  unfold parse_primitive_matrix_np. rewrite ppm_strip, Hpm. unfold bind.
  rewrite map_length, Z.eqb_refl. cbn [negb]. rewrite Ec. cbn [map]. rewrite map_length, Hc, Z.eqb_refl. cbn [negb List.length Nat.eqb].
  unfold d2k_expected_shell, nw_expected_shell. rewrite Eam, Ec. reflexivity.
Qed.

Lemma blk_shape_d : forall s x, d2k_shell_ok s -> blk_rel s x -> block_shape (fun l => ok (is_shell l)) x.
Proof.
  intros s x Hs [p [extra [Hp [-> Hex]]]]. destruct (am0_nonneg s Hs) as [Ha _].
  exists (strip_ws (hdr_line p s)), (map strip_ws (rows_of s) ++ extra). split; [reflexivity|]. split.
  - unfold is_shell. rewrite match_shell_strip, (hdr_match p s Hp (proj1 Ha)). reflexivity.
  - apply Forall_app. split.
    + pose proof (rows_not_shell s Hs) as H. rewrite Forall_forall in *. intros l Hl. apply in_map_iff in Hl.
      destruct Hl as [r [<- Hr]]. unfold ok. now rewrite (H r Hr).
    + rewrite Forall_forall in *. intros l Hl. unfold ok. now rewrite (proj2 (Hex l Hl)).
Qed.

Lemma d_blocks_F2 : forall shs st, Forall d2k_shell_ok shs -> st_ok st ->
  Forall2 (fun s b => exists p, (0 <= p)%Z /\ b = hdr_line p s :: rows_of s) shs (d_blocks st shs).
Proof.
  induction shs as [|s shs IH]; intros st H Hst; [constructor|]. inversion H as [|? ? H1 H2]; subst.
  cbn [d_blocks]. constructor; [|apply IH; [exact H2 | now apply st_ok_incr]].
  exists (nth (Z.to_nat (am0 s)) st 0%Z). split; [apply (st_ok_nth st _ Hst) | reflexivity].
Qed.

Lemma Forall2_compose : forall (A B C : Type) (R1 : A -> B -> Prop) (R2 : B -> C -> Prop) l m r,
  Forall2 R1 l m -> Forall2 R2 m r -> Forall2 (fun a c => exists b, R1 a b /\ R2 b c) l r.
Proof.
  intros A B C R1 R2 l m r F1; revert r; induction F1 as [|a b l m Hab F1 IH]; intros r F2; inversion F2; subst; constructor.
  - exists b. split; assumption.
  - now apply IH.
Qed.

Lemma Forall2_impl : forall (A B : Type) (R R' : A -> B -> Prop) l r,
  (forall a b, R a b -> R' a b) -> Forall2 R l r -> Forall2 R' l r.
Proof. intros A B R R' l r H F; induction F; constructor; auto. Qed.

Lemma ext_blocks_rel : forall shs st extra, Forall d2k_shell_ok shs -> st_ok st -> Forall tail_line extra ->
  Forall2 blk_rel shs (extend_last (map (map strip_ws) (d_blocks st shs)) extra).
Proof.
  intros shs st extra H Hst Hex.
  pose proof (Forall2_compose _ _ _ _ _ _ _ _ (d_blocks_F2 shs st H Hst)
               (extend_last_F2 _ (map strip_ws) tail_line (d_blocks st shs) extra Hex)) as F.
  refine (Forall2_impl _ _ _ _ _ _ _ F). intros s x [b [[p [Hp ->]] [ex [-> Hx]]]]. exists p, ex. repeat split; assumption.
Qed.

Lemma parse_blocks_d : forall shs xs, Forall d2k_shell_ok shs -> Forall2 blk_rel shs xs ->
  d2k_parse_shell_blocks xs = inr (map d2k_expected_shell shs).
Proof.
  intros shs xs H F; induction F as [|s x shs xs Hsx F IH]; [reflexivity|]. inversion H as [|? ? H1 H2]; subst.
  cbn [d2k_parse_shell_blocks map]. rewrite (parse_block_d s x H1 Hsx). unfold bind. rewrite (IH H2). reflexivity.
Qed.

Lemma blocks_shape_d : forall shs xs, Forall d2k_shell_ok shs -> Forall2 blk_rel shs xs ->
  Forall (block_shape (fun l => ok (is_shell l))) xs.
Proof.
  intros shs xs H F; induction F as [|s x shs xs Hsx F IH]; [constructor|]. inversion H as [|? ? H1 H2]; subst.
  constructor; [apply (blk_shape_d s x H1 Hsx) | apply IH, H2].
Qed.

Lemma d_blocks_ne : forall shs st, shs <> [] -> d_blocks st shs <> [].
Proof. intros [|s shs] st H; [congruence | discriminate]. Qed.

Lemma block_shape_len : forall cond b, block_shape cond b -> Nat.ltb (List.length b) 1 = false.
Proof. intros cond b [h [r [-> _]]]. reflexivity. Qed.

(* the shell lines of a section (with what follows the section's last shell) are partitioned into the blocks *)
Lemma partition_shells_d : forall shs st extra, shs <> [] -> Forall d2k_shell_ok shs -> st_ok st -> Forall tail_line extra ->
  partition_lines (map strip_ws (concat (d_blocks st shs)) ++ extra) (fun l => ok (is_shell l)) true 1 0 0 =
    inr (extend_last (map (map strip_ws) (d_blocks st shs)) extra).
Proof.
  intros shs st extra Hne H Hst Hex.
  pose proof (blocks_shape_d shs _ H (ext_blocks_rel shs st extra H Hst Hex)) as Hsh.
  rewrite concat_map, <- concat_extend_last.
  2:{ intros E. apply map_eq_nil in E. exact (d_blocks_ne shs st Hne E). }
  unfold partition_lines. rewrite (part_blocks _ _ [] [] Hsh). cbn [flush app]. unfold bind.
  rewrite existsb_false; [reflexivity|]. intros b Hb. rewrite Forall_forall in Hsh. apply (block_shape_len _ b (Hsh b Hb)).
Qed.

(* ---- int() of the shell count ---- *)
Lemma int_body_digits : forall s, sall is_digit s = true -> int_body_ok s true = true /\ drop_underscores s = s.
Proof.
  induction s as [|c s IH]; intros H; [split; reflexivity|]. cbn [sall] in H. apply andb_true_iff in H. destruct H as [Hc Hs].
  destruct (IH Hs) as [I1 I2]. cbn [int_body_ok drop_underscores]. rewrite Hc, (digit_not_underscore c Hc), I1, I2. split; reflexivity.
Qed.

Lemma py_int_decimal : forall s, decimal s -> py_int s = inr (digits_val s 0).
Proof.
  intros [|c s] [Hne Hd]; [congruence|]. cbn [sall] in Hd. apply andb_true_iff in Hd. destruct Hd as [Hc Hs].
  destruct (int_body_digits s Hs) as [I1 I2].
  assert (E : py_int (String c s) = (if int_body_ok (String c s) false
                                     then ok (digits_val (drop_underscores (String c s)) 0) else fail EValue)).
  { unfold py_int. all_chars c; try reflexivity; discriminate Hc. }
  rewrite E. cbn [int_body_ok drop_underscores]. rewrite Hc, (digit_not_underscore c Hc), I1, I2. reflexivity.
Qed.

(* ---- the element line ---- *)
Lemma orb_word : forall w r, w <> "" -> sall is_alpha w = true ->
  orb_tail OAfterBlank (w +++ String " " r) = orb_tail OAfterBlank r.
Proof.
  intros w r Hne Hw.
  assert (G : forall v, sall is_alpha v = true -> orb_tail OWord (v +++ String " " r) = orb_tail OAfterBlank r).
  { induction v as [|c v IH]; intros Hv; [reflexivity|]. cbn [sall] in Hv. apply andb_true_iff in Hv. destruct Hv as [Hc Hv].
    cbn [String.append orb_tail]. rewrite Hc. apply IH, Hv. }
  destruct w as [|c w]; [congruence|]. cbn [sall] in Hw. apply andb_true_iff in Hw. destruct Hw as [Hc Hw].
  cbn [String.append orb_tail]. rewrite Hc. apply G, Hw.
Qed.

Lemma name_close_ok : forall n, basis_name_ok n = true -> name_close (n +++ ")") = true.
Proof.
  intros n H. unfold name_close. rewrite srev_app. change (srev ")") with ")". cbn [String.append lstrip_ws].
  change (is_space ")") with false. cbv iota. now rewrite srev_involutive.
Qed.

Lemma o_line_match : forall bsname z, basis_name_ok bsname = true -> (1 <= z <= 118)%Z ->
  match_orbital (o_line bsname z) = Some (namez z).
Proof.
  intros bsname z Hn Hz. destruct (name_facts z Hz) as [_ [Hne [Ha _]]]. destruct (sym_facts z Hz) as [_ [Hsne [Hs _]]].
  unfold o_line, match_orbital. cbn [String.append].
  change (namez z +++ String " " (upper (symz z) +++ String " " (String "(" (bsname +++ ")"))))
    with (namez z +++ String " " (upper (symz z) +++ " (" +++ bsname +++ ")")).
  rewrite (span_alpha_word_sp _ _ Ha). destruct (namez z) as [|c0 n0] eqn:En; [congruence|].
  cbn [orb_tail]. change (Ascii.eqb " " " ") with true. cbv iota.
  change (upper (symz z) +++ " (" +++ bsname +++ ")") with (upper (symz z) +++ String " " ("(" +++ bsname +++ ")")).
  rewrite (orb_word _ _ (upper_ne _ Hsne) (upper_alpha _ Hs)).
  cbn [String.append orb_tail]. change (is_alpha "(") with false. change (Ascii.eqb "(" "(") with true. cbv iota.
  now rewrite (name_close_ok bsname Hn).
Qed.

(* ---- one element section ---- *)
Definition sec_rel (bsname : string) (e : Z * (Z * list sshell)) (x : list string) : Prop :=
  exists extra, x = d_sec bsname e ++ extra /\ Forall tail_line extra.

Lemma d_blocks_length : forall shs st, List.length (d_blocks st shs) = List.length shs.
Proof. induction shs as [|s shs IH]; intros st; [reflexivity|]. cbn [d_blocks List.length]. now rewrite IH. Qed.

Lemma existsb_Z_notin : forall z l, ~ In z l -> existsb (Z.eqb z) l = false.
Proof.
  intros z l H. apply existsb_false. intros x Hx. apply Z.eqb_neq. intros ->. exact (H Hx).
Qed.

Lemma parse_section : forall bsname e x d, basis_name_ok bsname = true -> d2k_el_ok e -> sec_rel bsname e x ->
  ~ In (fst e) (map fst d) ->
  d2k_parse_electron_lines x d = inr (d ++ [(fst e, map d2k_expected_shell (snd (snd e)))]).
Proof.
  intros bsname [z [ne shs]] x d Hn [Hz [Hne [Hshne Hshs]]] [extra [-> Hex]] Hd. cbn [fst snd] in *.
  destruct (name_facts z Hz) as [_ [_ [_ Ez]]]. destruct (ess_facts ne Hne) as [_ [L1 L2]].
  unfold d_sec, d_body. cbn [fst snd map app]. unfold d2k_parse_electron_lines.
  rewrite (o_line_match bsname z Hn Hz), Ez. unfold bind at 1.
  unfold tm_create_electron_shells. rewrite (existsb_Z_notin z _ Hd). unfold bind at 1. unfold ok at 1.
  rewrite tokens_strip, n_line_tokens, (py_int_decimal _ (nat_str_decimal _)), nat_str_value. unfold bind at 1.
  rewrite (partition_shells_d shs (stz ne) extra Hshne Hshs (conj L1 L2) Hex). unfold bind at 1.
  rewrite extend_last_length, map_length, d_blocks_length, Z.eqb_refl. cbn [negb].
  rewrite (parse_blocks_d shs _ Hshs (ext_blocks_rel shs (stz ne) extra Hshs (conj L1 L2) Hex)). reflexivity.
Qed.

Lemma sections_d : forall bsname els xs d, basis_name_ok bsname = true -> Forall d2k_el_ok els ->
  Forall2 (sec_rel bsname) els xs -> NoDup (map fst els) -> (forall z, In z (map fst els) -> ~ In z (map fst d)) ->
  d2k_sections xs d = inr (d ++ d2k_expected els).
Proof.
  intros bsname els xs d Hn Hel F; revert d Hel; induction F as [|e x els xs Hex F IH]; intros d Hel Hnd Hdis.
  - cbn. now rewrite app_nil_r.
  - inversion Hel as [|? ? H1 H2]; subst. cbn [map] in Hnd. inversion Hnd as [|? ? Hnotin Hnd']; subst.
    cbn [d2k_sections]. rewrite (parse_section bsname e x d Hn H1 Hex); [|apply Hdis; now left]. unfold bind.
    rewrite IH; [| exact H2 | exact Hnd' |].
    + unfold d2k_expected. cbn [map]. rewrite <- app_assoc. reflexivity.
    + intros z Hz. rewrite map_app, in_app_iff. cbn [map In fst]. intros [Hin|[Heq|[]]].
      * apply (Hdis z); [now right | exact Hin].
      * subst z. apply Hnotin, Hz.
Qed.

Lemma sec_len : forall bsname e, d2k_el_ok e -> 3 <= List.length (d_sec bsname e).
Proof.
  intros bsname [z [ne shs]] [_ [_ [Hshne _]]]. cbn [fst snd] in *. unfold d_sec, d_body. cbn [fst snd map List.length].
  destruct shs as [|s shs]; [congruence|]. cbn [d_blocks concat app map List.length]. lia.
Qed.

Lemma sec_shape : forall bsname e x, basis_name_ok bsname = true -> d2k_el_ok e -> sec_rel bsname e x ->
  block_shape (fun l => ok (is_orbital l)) x /\ Nat.ltb (List.length x) 3 = false.
Proof.
  intros bsname e x Hn He [extra [-> Hex]]. pose proof (sec_len bsname e He) as Hl. pose proof (d_body_data e He) as Hd.
  destruct He as [Hz _]. split.
  - exists (o_line bsname (fst e)), (map strip_ws (d_body e) ++ extra). split; [reflexivity|]. split.
    + unfold is_orbital. now rewrite (o_line_match bsname _ Hn Hz).
    + apply Forall_app. split.
      * rewrite Forall_forall in *. intros l Hin. apply in_map_iff in Hin. destruct Hin as [r [<- Hr]].
        unfold ok. now rewrite (data_not_orbital _ (Hd r Hr)).
      * rewrite Forall_forall in *. intros l Hin. unfold ok. now rewrite (proj1 (Hex l Hin)).
  - apply Nat.ltb_ge. rewrite app_length. lia.
Qed.

(* the central lemma: the orbital half of read_demon2k on the pruned electron part followed by any lines that start neither
   an element section nor a shell *)
Lemma read_orbitals_tail : forall bsname els tail, d2k_ok bsname els -> Forall tail_line tail ->
  d2k_read_orbitals (flat_map (d_sec bsname) els ++ tail) = inr (d2k_expected els).
Proof.
  intros bsname els tail H HT. pose proof (d2k_els bsname els H) as Hel. destruct H as [Hn [Hne [Hnd _]]].
  pose proof (extend_last_F2 _ (d_sec bsname) tail_line els tail HT) as F.
  assert (F' : Forall2 (sec_rel bsname) els (extend_last (map (d_sec bsname) els) tail)) by exact F.
  assert (Hsh : Forall (fun x => block_shape (fun l => ok (is_orbital l)) x /\ Nat.ltb (List.length x) 3 = false)
                       (extend_last (map (d_sec bsname) els) tail)).
  { clear F Hnd Hne. induction F' as [|e x els' xs Hex F' IH]; [constructor|]. inversion Hel; subst.
    constructor; [now apply (sec_shape bsname e x) | now apply IH]. }
  rewrite flat_map_concat_map, <- concat_extend_last by (intros E; apply map_eq_nil in E; congruence).
  unfold d2k_read_orbitals, partition_lines.
  rewrite (part_blocks _ (extend_last (map (d_sec bsname) els) tail) [] []).
  2:{ rewrite Forall_forall in *. intros x Hx. apply (Hsh x Hx). }
  cbn [flush app]. unfold bind. rewrite existsb_false.
  2:{ intros x Hx. rewrite Forall_forall in Hsh. apply (Hsh x Hx). }
  cbn [andb negb Nat.eqb]. unfold ok.
  rewrite (sections_d bsname els _ [] Hn Hel F' Hnd); [reflexivity|]. intros z _ [].
Qed.

(* ================================================================== *)
(* 6. the rest of read_demon2k                                         *)
(* ================================================================== *)
Definition inner_line (l : string) : Prop := is_ecp_start l = false /\ is_ecp_entry l = false /\ l <> "END".

Lemma tokens_head_char : forall c r, is_space c = false -> exists w ts, tokens_acc (String c r) "" = String c w :: ts.
Proof.
  intros c r Hc. cbn [tokens_acc]. rewrite Hc. destruct (tok_head r (String c "")) as [w [ts E]]; [discriminate|].
  exists w, ts. exact E.
Qed.

Lemma data_inner : forall l, data_line l -> inner_line l.
Proof.
  intros l [c [r [-> [Ha [_ Hs]]]]]. split; [|split].
  - unfold is_ecp_start. destruct (strip_first (String c r) c r) as [r' Er]; [cbn [lstrip_ws]; now rewrite Hs | exact Hs|].
    rewrite Er. cbn [String.eqb]. all_chars c; try reflexivity; discriminate Ha.
  - unfold is_ecp_entry, match_ecp_entry. cbn [starts_nonspace]. rewrite Hs. cbn [negb].
    destruct (tokens_head_char c r Hs) as [w [ts ->]]. destruct ts as [|b [|c0 [|d ts]]]; try reflexivity.
    cbn [sall]. rewrite Ha. reflexivity.
  - intros E. inversion E; subst. discriminate Ha.
Qed.

Lemma o_line_inner : forall bsname z, basis_name_ok bsname = true -> (1 <= z <= 118)%Z -> inner_line (o_line bsname z).
Proof.
  intros bsname z Hn Hz. split; [|split].
  - unfold is_ecp_start. rewrite (o_line_strip bsname z Hn Hz). reflexivity.
  - unfold is_ecp_entry, match_ecp_entry, o_line. cbn [String.append starts_nonspace]. change (is_space "O") with false. cbn [negb].
    cbn [tokens_acc]. change (is_space "O") with false. change (is_space "-") with false. cbv iota.
    match goal with |- context [tokens_acc ?rest "-O"] => destruct (tok_head rest "-O") as [w [ts ->]]; [discriminate|] end.
    destruct ts as [|b [|c0 [|d ts]]]; reflexivity.
  - discriminate.
Qed.

Lemma secs_inner : forall bsname els, d2k_ok bsname els -> Forall inner_line (flat_map (d_sec bsname) els).
Proof.
  intros bsname els H. pose proof (d2k_els bsname els H) as Hel. destruct H as [Hn _].
  rewrite Forall_forall in *. intros l Hin. apply in_flat_map in Hin. destruct Hin as [e [He Hl]].
  pose proof (d_body_data e (Hel e He)) as Hd. destruct (Hel e He) as [Hz _].
  unfold d_sec in Hl. destruct Hl as [<-|Hl]; [now apply o_line_inner|].
  apply in_map_iff in Hl. destruct Hl as [r [<- Hr]]. rewrite Forall_forall in Hd. apply data_inner, Hd, Hr.
Qed.

Lemma part_nomatch : forall cond L, L <> [] -> Forall (fun l => cond l = inr false) L ->
  part_go cond true L [] [] = inr [L].
Proof.
  intros cond L Hne H. rewrite <- (app_nil_r L) at 1. rewrite (part_skip cond true L [] [] [] H).
  cbn [app part_go]. destruct L; [congruence | reflexivity].
Qed.

Lemma secs_nonempty : forall bsname els, d2k_ok bsname els ->
  exists l0 rest, flat_map (d_sec bsname) els = l0 :: rest /\ 2 <= List.length rest.
Proof.
  intros bsname els H. pose proof (d2k_els bsname els H) as Hel. destruct H as [_ [Hne _]].
  destruct els as [|e els]; [congruence|]. inversion Hel as [|? ? He _]; subst.
  pose proof (sec_len bsname e He) as Hl. cbn [flat_map].
  destruct (d_sec bsname e) as [|l0 r] eqn:E; [cbn in Hl; lia|]. exists l0, (r ++ flat_map (d_sec bsname) els).
  split; [reflexivity|]. cbn [List.length] in Hl. rewrite app_length. lia.
Qed.

(* read_demon2k after prune_lines, on the electron part followed by `tail_ok` lines *)
Lemma read_pruned : forall bsname els tail, d2k_ok bsname els -> Forall tail_line tail -> Forall (fun l => is_ecp_start l = false /\ is_ecp_entry l = false) tail ->
  let L := flat_map (d_sec bsname) els ++ tail in
  (do d <- d2k_read_orbitals L;
   do _ <- partition_lines L (fun l => ok (is_ecp_start l)) true 3 0 0;
   if existsb is_ecp_entry L then fail ENotImpl else
   do _ <- d2k_end_check L; ok d) =
  (if String.eqb (last L "") "END" then inr (d2k_expected els) else inl ERuntime).
Proof.
  intros bsname els tail H HT HT2 L. unfold L. rewrite (read_orbitals_tail bsname els tail H HT). unfold bind at 1.
  pose proof (secs_inner bsname els H) as Hin.
  assert (HL : Forall (fun l => is_ecp_start l = false /\ is_ecp_entry l = false) (flat_map (d_sec bsname) els ++ tail)).
  { apply Forall_app. split; [|exact HT2]. rewrite Forall_forall in *. intros l Hl. destruct (Hin l Hl) as [A [B _]]. now split. }
  destruct (secs_nonempty bsname els H) as [l0 [rest [E Hlen]]].
  unfold partition_lines. rewrite part_nomatch.
  2:{ rewrite E. discriminate. }
  2:{ rewrite Forall_forall in *. intros l Hl. unfold ok. now rewrite (proj1 (HL l Hl)). }
  assert (E3 : Nat.ltb (List.length (flat_map (d_sec bsname) els ++ tail)) 3 = false).
  { apply Nat.ltb_ge. rewrite E. cbn [app List.length]. rewrite app_length. lia. }
  unfold bind. cbn [existsb]. rewrite E3. cbn [orb andb negb Nat.eqb]. unfold ok.
  rewrite existsb_false by (intros l Hl; rewrite Forall_forall in HL; apply (HL l Hl)).
  unfold d2k_end_check. destruct (String.eqb _ "END"); reflexivity.
Qed.

Lemma d2k_read_lines : forall sph bsname els tail, d2k_ok bsname els ->
  Forall tail_line (prune1 tail) -> Forall (fun l => is_ecp_start l = false /\ is_ecp_entry l = false) (prune1 tail) ->
  d2k_read_electron (d_all_lines sph bsname els ++ tail) =
  (if String.eqb (last (flat_map (d_sec bsname) els ++ prune1 tail) "") "END" then inr (d2k_expected els) else inl ERuntime).
Proof.
  intros sph bsname els tail H HT HT2. unfold d2k_read_electron.
  fold (prune1 (d_all_lines sph bsname els ++ tail)). rewrite (prune1_all sph bsname els tail H).
  destruct (secs_nonempty bsname els H) as [l0 [rest [E _]]].
  destruct (flat_map (d_sec bsname) els ++ prune1 tail) as [|x y] eqn:EL; [rewrite E in EL; discriminate|].
  rewrite <- EL. exact (read_pruned bsname els (prune1 tail) H HT HT2).
Qed.

(* ---------- the round trips ---------- *)
Lemma d2k_roundtrip_partial : d2k_roundtrip_partial_stmt.
Proof.
  intros sph bsname els H. unfold d2k_roundtrip_end. rewrite (write_electron_lines sph bsname els H). unfold bind.
  assert (E : unlines (d_all_lines sph bsname els) +++ "END" +++ nl1 = unlines (d_all_lines sph bsname els ++ ["END"])).
  { rewrite unlines_app. reflexivity. }
  rewrite E, splitlines_unlines.
  2:{ apply Forall_app. split; [apply d_all_lines_good, H | repeat constructor]. }
  rewrite (d2k_read_lines sph bsname els ["END"] H); [| repeat constructor | repeat constructor].
  change (prune1 ["END"]) with ["END"]. rewrite last_last. reflexivity.
Qed.

Lemma last_in : forall (L : list string), L <> [] -> In (last L "") L.
Proof.
  induction L as [|x L IH]; intros H; [congruence|]. destruct L as [|y L]; [now left|].
  right. apply IH. discriminate.
Qed.

Lemma d2k_roundtrip_noend : d2k_roundtrip_noend_stmt.
Proof.
  intros sph bsname els H. unfold d2k_roundtrip. rewrite (write_electron_lines sph bsname els H). unfold bind.
  rewrite (splitlines_unlines _ (d_all_lines_good sph bsname els H)).
  rewrite <- (app_nil_r (d_all_lines sph bsname els)).
  rewrite (d2k_read_lines sph bsname els [] H); [| constructor | constructor].
  change (prune1 []) with (@nil string). rewrite app_nil_r.
  destruct (secs_nonempty bsname els H) as [l0 [rest [E _]]].
  assert (Hin : In (last (flat_map (d_sec bsname) els) "") (flat_map (d_sec bsname) els)) by (apply last_in; rewrite E; discriminate).
  pose proof (secs_inner bsname els H) as Hi. rewrite Forall_forall in Hi. destruct (Hi _ Hin) as [_ [_ Hne]].
  destruct (String.eqb_spec (last (flat_map (d_sec bsname) els) "") "END") as [Eq|Eq]; [congruence | reflexivity].
Qed.

(* a witness of well-formedness, for the refutation and the example *)
Ltac solve_ok :=
  repeat match goal with
  | |- (_ <= _ <= _)%Z => lia
  | |- (_ <= _)%Z => lia
  | |- _ /\ _ => split
  | |- Forall _ [] => constructor
  | |- Forall _ (_ :: _) => constructor
  | |- exists a, [?x] = [a] /\ _ => exists x
  | |- d2k_shell_ok _ => unfold d2k_shell_ok; cbn [exps am coefs]
  | |- d2k_el_ok _ => unfold d2k_el_ok; cbn [fst snd]
  | |- floating _ => reflexivity
  | |- d2k_nelec_ok _ => apply d2k_nelec_values_exact; cbn; tauto
  | |- NoDup _ => cbn [map fst]; repeat constructor; cbn [In]; intuition discriminate
  | |- _ <> _ => discriminate
  | |- (_ <= _ <= _)%Z => lia
  | |- _ = _ => reflexivity
  end.

Lemma cx_ok : d2k_ok "x" [(1%Z, (0%Z, [cx_s]))].
Proof. unfold d2k_ok, cx_s. solve_ok. Qed.

Lemma d2k_roundtrip_false : d2k_roundtrip_false_stmt.
Proof.
  intros Hall. pose proof (Hall true "x" _ cx_ok) as H1. rewrite (d2k_roundtrip_noend true "x" _ cx_ok) in H1. discriminate.
Qed.

(* ================================================================== *)
(* 7. the conditions that cannot be dropped, and a concrete instance   *)
(* ================================================================== *)
Lemma d2k_roundtrip_name : d2k_roundtrip_name_stmt.
Proof. repeat split; vm_compute; reflexivity. Qed.
Lemma d2k_roundtrip_cartesian : d2k_roundtrip_cartesian_stmt.
Proof. vm_compute. reflexivity. Qed.
Lemma d2k_write_am21 : d2k_write_am21_stmt.
Proof. split; [vm_compute; reflexivity|]. eexists. vm_compute. reflexivity. Qed.
Lemma d2k_write_nelec : d2k_write_nelec_stmt.
Proof.
  split; [vm_compute; reflexivity|]. intros H. apply d2k_nelec_values_exact in H. cbn in H. intuition discriminate.
Qed.
Lemma d2k_roundtrip_empty : d2k_roundtrip_empty_stmt.
Proof. vm_compute. reflexivity. Qed.
Lemma d2k_roundtrip_noshell : d2k_roundtrip_noshell_stmt.
Proof. split; vm_compute; reflexivity. Qed.
Lemma d2k_roundtrip_general : d2k_roundtrip_general_stmt.
Proof. split; vm_compute; reflexivity. Qed.

Example d2k_example : d2k_example_stmt.
Proof.
  assert (Hok : d2k_ok "cc-pVDZ" exd_els) by (unfold d2k_ok, exd_els; solve_ok).
  split; [exact Hok|]. split; [vm_compute; reflexivity|].
  split; [apply d2k_roundtrip_noend, Hok|]. split; [apply d2k_roundtrip_partial, Hok|]. vm_compute. reflexivity.
Qed.

Print Assumptions d2k_write_total.
Print Assumptions d2k_roundtrip_noend.
Print Assumptions d2k_roundtrip_false.
Print Assumptions d2k_roundtrip_partial.
Print Assumptions d2k_nelec_values_exact.
Print Assumptions d2k_no_number_lost.
Print Assumptions d2k_roundtrip_name.
Print Assumptions d2k_roundtrip_cartesian.
Print Assumptions d2k_write_am21.
Print Assumptions d2k_write_nelec.
Print Assumptions d2k_roundtrip_empty.
Print Assumptions d2k_roundtrip_noshell.
Print Assumptions d2k_roundtrip_general.
Print Assumptions d2k_example.
