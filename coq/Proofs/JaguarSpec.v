(* Proofs of the statements of Proofs/JaguarDefs.v: write_jaguar is total on well-formed input, every number of the
   electron part is in the text, every number of the ECP part is in the text when every ECP element has electron shells -
   and the ECP of an element without electron shells is not written at all. *)
From BSE Require Import Model.Val Model.Text Model.Basis Model.Manip Model.Matrix Gen.GenLut Model.Lut Model.Elements
                        Model.Nwchem Model.NwchemEcp Model.Jaguar Proofs.MatrixDefs Proofs.NwchemDefs Proofs.JaguarDefs.
From BSE Require Import Proofs.HeaderSpec Proofs.PruneFS Proofs.MatrixSpec Proofs.NwchemSpec Proofs.NwchemEcpSpec
                        Proofs.JagfamLib.
Require Import Coq.Sorting.Permutation.

(* ================================================================== *)
(* 1. one shell                                                        *)
(* ================================================================== *)
Lemma jag_shell_total : forall s, jag_shell_ok s -> exists t, jag_write_shell s = inr t.
Proof.
  intros s [Ha [Hl [He Hc]]]. destruct (amchar_total_hij _ Ha) as [ch Ech].
  destruct (shell_mat_total (exps s) (coefs s) (nw_point_places (S (List.length (coefs s)))) true He Hc Hl) as [L [m Em]].
  { rewrite pps_length. lia. }
  unfold jag_write_shell, jag_shell_cols. fold (shell_mat (exps s) (coefs s)). rewrite Ech. unfold bind. rewrite L, Em.
  eexists. reflexivity.
Qed.

Lemma jag_shell_toks : forall s t, jag_shell_ok s -> jag_write_shell s = inr t ->
  nl_ended t /\ forall x, shell_number (exps s) (coefs s) x -> has_tok t (d_convert x).
Proof.
  intros s t [Ha [Hl [He Hc]]] H. unfold jag_write_shell, jag_shell_cols, bind in H. fold (shell_mat (exps s) (coefs s)) in H.
  destruct (amint_to_char (am s) true false) as [e|ch]; [discriminate|].
  destruct (leftpad_check _ _) as [e|u]; [discriminate|].
  destruct (write_matrix _ _ true) as [e|m] eqn:Em; [discriminate|]. apply ok_inj in H; subst t.
  assert (E : upper ch +++ " 0 " +++ nat_str (List.length (exps s)) +++ nl1 +++ m =
              (upper ch +++ " 0 " +++ nat_str (List.length (exps s))) +++ nl1 +++ m) by (now rewrite !sapp_assoc).
  rewrite E. split.
  - apply nl_ended_line_then, (wm_nl_ended _ _ _ _ Em).
  - intros x Hx. apply has_tok_after_line. exact (shell_mat_tok _ _ _ true m He Hc Hl Em x Hx).
Qed.

(* ================================================================== *)
(* 2. one potential                                                    *)
(* ================================================================== *)
Lemma jag_pot_shape : forall p, jag_pot_ok p -> pot_shape p.
Proof. intros p [_ [_ H]]. exact H. Qed.

Lemma jag_pot_total : forall mx mxch p, jag_pot_ok p -> exists t, jag_write_pot mx mxch p = inr t.
Proof.
  intros mx mxch p Hp. pose proof (jag_pot_shape p Hp) as Hs. destruct Hp as [Hne [Ha _]].
  destruct (amchar_total_hik _ Ha) as [ch Ech].
  destruct (ecp_cols_total p jag_ecp_point_places true Hs eq_refl) as [L [m Em]].
  unfold jag_write_pot. rewrite Ech. unfold bind, am_first. destruct (p_am p) as [|a0 r]; [congruence|].
  unfold ok. rewrite L, Em. eexists. reflexivity.
Qed.

Lemma jag_pot_toks : forall mx mxch p t, jag_pot_ok p -> jag_write_pot mx mxch p = inr t ->
  nl_ended t /\ (forall x, shell_number (p_gexp p) (p_coef p) x -> has_tok t (d_convert x)) /\
  (forall n, In n (p_rexp p) -> has_tok t (Z_to_string n)).
Proof.
  intros mx mxch p t Hp H. pose proof (jag_pot_shape p Hp) as Hs. unfold jag_write_pot, bind in H.
  destruct (amint_to_char (p_am p) false false) as [e|ch]; [discriminate|].
  destruct (am_first p) as [e|a0]; [discriminate|].
  destruct (leftpad_check _ _) as [e|u]; [discriminate|].
  destruct (write_matrix _ _ true) as [e|m] eqn:Em; [discriminate|]. apply ok_inj in H; subst t.
  destruct (ecp_cols_tok p _ true m Hs Em) as [T1 T2].
  assert (E : exists hdr, (if (a0 =? mx)%Z then upper ch +++ "_AND_UP" +++ nl1 else upper ch +++ "-" +++ upper mxch +++ nl1) +++ m =
                          hdr +++ nl1 +++ m).
  { destruct (a0 =? mx)%Z; [exists (upper ch +++ "_AND_UP") | exists (upper ch +++ "-" +++ upper mxch)]; now rewrite !sapp_assoc. }
  destruct E as [hdr ->]. split; [apply nl_ended_line_then, (wm_nl_ended _ _ _ _ Em)|]. split.
  - intros x Hx. apply has_tok_after_line, (T1 x Hx).
  - intros n Hn. apply has_tok_after_line, T2, Hn.
Qed.

(* ================================================================== *)
(* 3. the ECP of one element                                           *)
(* ================================================================== *)
Lemma pots_am_ne : forall pots, Forall jag_pot_ok pots -> Forall (fun p => p_am p <> []) pots.
Proof. intros pots H. rewrite Forall_forall in *. intros p Hp. apply (H p Hp). Qed.

Lemma jag_ecp_total : forall sym nelec pots, pots <> [] -> Forall jag_pot_ok pots ->
  exists t, jag_write_ecp sym (nelec, pots) = inr t.
Proof.
  intros sym nelec pots Hne Hok. destruct (ecp_max_am_facts pots Hne (pots_am_ne pots Hok)) as [mx [Emx [p [Hp [r Er]]]]].
  assert (Hmx : (0 <= mx < 25)%Z).
  { rewrite Forall_forall in Hok. destruct (Hok p Hp) as [_ [Ha _]]. rewrite Er in Ha. inversion Ha; assumption. }
  destruct (amchar_total_hik [mx]) as [mxch Emxch]; [constructor; [exact Hmx | constructor]|].
  destruct (ecp_order_total pots Hne) as [l El]. pose proof (ecp_order_perm pots l El) as P.
  destruct (mapM_total_in _ _ (jag_write_pot mx mxch) l) as [body Eb].
  { intros q Hq. apply jag_pot_total. rewrite Forall_forall in Hok. apply Hok. apply (Permutation_in _ (Permutation_sym P) Hq). }
  unfold jag_write_ecp. rewrite Emx. unfold bind. rewrite Emxch, El, Eb. eexists. reflexivity.
Qed.

Lemma jag_ecp_toks : forall sym nelec pots t, sall nobd sym = true -> Forall jag_pot_ok pots ->
  jag_write_ecp sym (nelec, pots) = inr t ->
  nl_ended t /\ has_tok t (Z_to_string nelec) /\ forall p, In p pots -> pot_toks t p.
Proof.
  intros sym nelec pots t Hsym Hok H. unfold jag_write_ecp, bind in H.
  destruct (ecp_max_am pots) as [e|mx]; [discriminate|].
  destruct (amint_to_char [mx] false false) as [e|mxch]; [discriminate|].
  destruct (ecp_order pots) as [e|l] eqn:El; [discriminate|]. pose proof (ecp_order_perm pots l El) as P.
  destruct (mapM (jag_write_pot mx mxch) l) as [e|body] eqn:Eb; [discriminate|]. apply ok_inj in H; subst t.
  assert (Hl : forall q, In q l -> jag_pot_ok q).
  { intros q Hq. rewrite Forall_forall in Hok. apply Hok, (Permutation_in _ (Permutation_sym P) Hq). }
  assert (Hbody : Forall nl_ended body).
  { apply (mapM_all _ _ _ _ _ _ Eb). intros q b Hq Hb. apply (jag_pot_toks mx mxch q b (Hl q Hq) Hb). }
  set (line := (sym +++ " " +++ Z_to_string mx) +++ sp 1 +++ Z_to_string nelec).
  assert (E : "**" +++ nl1 +++ sym +++ " " +++ Z_to_string mx +++ " " +++ Z_to_string nelec +++ nl1 +++ String.concat "" body =
              "**" +++ nl1 +++ line +++ nl1 +++ String.concat "" body).
  { unfold line. change (sp 1) with " ". now rewrite !sapp_assoc. }
  rewrite E. clear E. split; [|split].
  - apply nl_ended_line_then, nl_ended_line_then, nl_ended_concat, Hbody.
  - apply has_tok_after_line, has_tok_in_line.
    + unfold line. rewrite !sall_app, Hsym, !Zstr_nobd. reflexivity.
    + unfold line. apply last_tok, Zstr_tok.
  - intros p Hp. apply (Permutation_in _ P) in Hp. destruct (mapM_In _ _ _ _ _ p Eb Hp) as [b [Hb Hin]].
    destruct (jag_pot_toks mx mxch p b (Hl p Hp) Hb) as [_ [T1 T2]]. split.
    + intros x Hx. apply has_tok_after_line, has_tok_after_line, (has_tok_concat body b); [exact Hbody | exact Hin | apply T1, Hx].
    + intros n Hn. apply has_tok_after_line, has_tok_after_line, (has_tok_concat body b); [exact Hbody | exact Hin | apply T2, Hn].
Qed.

(* ================================================================== *)
(* 4. one element                                                      *)
(* ================================================================== *)
Definition jag_el_ok (zs : Z * list sshell) : Prop := (1 <= fst zs <= 120)%Z /\ Forall jag_shell_ok (snd zs).
Definition jag_ecp_ok (e : Z * (Z * list epot)) : Prop := snd (snd e) <> [] /\ Forall jag_pot_ok (snd (snd e)).

Lemma jag_element_total : forall ecps zs, jag_el_ok zs -> Forall jag_ecp_ok ecps -> exists t, jag_write_element ecps zs = inr t.
Proof.
  intros ecps [z shs] [Hz Hshs] Hecps. cbn [fst snd] in *. destruct (sym120 z Hz) as [Es _].
  destruct (mapM_total_in _ _ jag_write_shell shs) as [body Eb].
  { intros s Hs. apply jag_shell_total. rewrite Forall_forall in Hshs. apply Hshs, Hs. }
  unfold jag_write_element. rewrite Es. unfold bind. rewrite Eb.
  destruct (assocZ z ecps) as [[nelec pots]|] eqn:Ea.
  - apply assocZ_In in Ea. rewrite Forall_forall in Hecps. destruct (Hecps _ Ea) as [Hne Hok]. cbn [fst snd] in *.
    destruct (jag_ecp_total (symz z) nelec pots Hne Hok) as [t Et]. rewrite Et. eexists. reflexivity.
  - eexists. reflexivity.
Qed.

Lemma jag_element_toks : forall ecps z shs t, jag_el_ok (z, shs) -> Forall jag_ecp_ok ecps ->
  jag_write_element ecps (z, shs) = inr t ->
  nl_ended t /\
  (forall s x, In s shs -> shell_number (exps s) (coefs s) x -> has_tok t (d_convert x)) /\
  (forall nelec pots, assocZ z ecps = Some (nelec, pots) ->
     has_tok t (Z_to_string nelec) /\ forall p, In p pots -> pot_toks t p).
Proof.
  intros ecps z shs t [Hz Hshs] Hecps H. cbn [fst snd] in *. destruct (sym120 z Hz) as [Es [Hnb _]].
  unfold jag_write_element, bind in H. rewrite Es in H.
  destruct (mapM jag_write_shell shs) as [e|body] eqn:Eb; [discriminate|].
  assert (Hbody : Forall nl_ended body).
  { apply (mapM_all _ _ _ _ _ _ Eb). intros s b Hs Hb. rewrite Forall_forall in Hshs. apply (jag_shell_toks s b (Hshs s Hs) Hb). }
  assert (Hstars : nl_ended ("****" +++ nl1)) by apply nl_ended_line.
  destruct (assocZ z ecps) as [[nelec pots]|] eqn:Ea.
  - destruct (jag_write_ecp (symz z) (nelec, pots)) as [e|ecp] eqn:Ee; [discriminate|]. apply ok_inj in H; subst t.
    pose proof (assocZ_In _ _ _ _ Ea) as Hin. rewrite Forall_forall in Hecps. destruct (Hecps _ Hin) as [Hne Hok]. cbn [fst snd] in *.
    destruct (jag_ecp_toks (symz z) nelec pots ecp Hnb Hok Ee) as [N1 [N2 N3]].
    split; [|split].
    + apply nl_ended_line_then, nl_ended_app; [apply nl_ended_concat, Hbody | apply nl_ended_app; assumption].
    + intros s x Hs Hx. destruct (mapM_In _ _ _ _ _ s Eb Hs) as [b [Hb Hbin]]. rewrite Forall_forall in Hshs.
      apply has_tok_after_line, has_tok_l; [apply nl_ended_concat, Hbody|].
      apply (has_tok_concat body b); [exact Hbody | exact Hbin | apply (jag_shell_toks s b (Hshs s Hs) Hb), Hx].
    + intros nelec' pots' E. inversion E; subst nelec' pots'. split.
      * apply has_tok_after_line, has_tok_r; [apply nl_ended_concat, Hbody|]. apply has_tok_l; assumption.
      * intros p Hp. destruct (N3 p Hp) as [T1 T2]. split.
        -- intros x Hx. apply has_tok_after_line, has_tok_r; [apply nl_ended_concat, Hbody|]. apply has_tok_l; [assumption | apply T1, Hx].
        -- intros n Hn. apply has_tok_after_line, has_tok_r; [apply nl_ended_concat, Hbody|]. apply has_tok_l; [assumption | apply T2, Hn].
  - apply ok_inj in H; subst t. split; [|split].
    + apply nl_ended_line_then, nl_ended_app; [apply nl_ended_concat, Hbody | exact Hstars].
    + intros s x Hs Hx. destruct (mapM_In _ _ _ _ _ s Eb Hs) as [b [Hb Hbin]]. rewrite Forall_forall in Hshs.
      apply has_tok_after_line, has_tok_l; [apply nl_ended_concat, Hbody|].
      apply (has_tok_concat body b); [exact Hbody | exact Hbin | apply (jag_shell_toks s b (Hshs s Hs) Hb), Hx].
    + intros nelec pots E. discriminate E.
Qed.

(* ================================================================== *)
(* 5. the whole text                                                   *)
(* ================================================================== *)
Lemma jag_ok_parts : forall els ecps, jag_ok els ecps -> Forall jag_el_ok els /\ NoDup (map fst ecps) /\ Forall jag_ecp_ok ecps.
Proof. intros els ecps H. exact H. Qed.

Lemma jag_write_total : jag_write_total_stmt.
Proof.
  intros name types els ecps H. destruct (jag_ok_parts els ecps H) as [Hels [_ Hecps]].
  destruct (mapM_total_in _ _ (jag_write_element ecps) els) as [parts Ep].
  { intros zs Hzs. rewrite Forall_forall in Hels. apply jag_element_total; [apply Hels, Hzs | exact Hecps]. }
  unfold jag_write_all. rewrite Ep. eexists. reflexivity.
Qed.

(* what the text is made of *)
Lemma jag_all_parts : forall name types els ecps t, jag_ok els ecps -> jag_write_all name types els ecps = inr t ->
  exists hdr parts, t = hdr +++ nl1 +++ String.concat "" parts /\ Forall nl_ended parts /\
    forall z shs, In (z, shs) els -> exists b, In b parts /\ jag_write_element ecps (z, shs) = inr b.
Proof.
  intros name types els ecps t H Ht. destruct (jag_ok_parts els ecps H) as [Hels [_ Hecps]].
  unfold jag_write_all, bind in Ht. destruct (mapM (jag_write_element ecps) els) as [e|parts] eqn:Ep; [discriminate|].
  apply ok_inj in Ht; subst t.
  exists ("BASIS " +++ name +++ " " +++ jag_harm_type types +++ match ecps with [] => "" | _ => " ECP" end), parts.
  split; [now rewrite !sapp_assoc|]. split.
  - apply (mapM_all _ _ _ _ _ _ Ep). intros [z shs] b Hzs Hb. rewrite Forall_forall in Hels.
    apply (jag_element_toks ecps z shs b (Hels _ Hzs) Hecps Hb).
  - intros z shs Hin. destruct (mapM_In _ _ _ _ _ (z, shs) Ep Hin) as [b [Hb Hbin]]. exists b. split; assumption.
Qed.

Lemma jag_no_number_lost : jag_no_number_lost_stmt.
Proof.
  intros name types els ecps t H Ht x [[z shs] [s [Hzs [Hs Hx]]]]. cbn [snd] in Hs.
  destruct (jag_ok_parts els ecps H) as [Hels [_ Hecps]].
  destruct (jag_all_parts name types els ecps t H Ht) as [hdr [parts [-> [Hnl Hparts]]]].
  destruct (Hparts z shs Hzs) as [b [Hbin Hb]]. rewrite Forall_forall in Hels.
  destruct (jag_element_toks ecps z shs b (Hels _ Hzs) Hecps Hb) as [_ [T _]].
  apply has_tok_after_line, (has_tok_concat parts b); [exact Hnl | exact Hbin | exact (T s x Hs Hx)].
Qed.

Lemma jag_ecp_no_number_lost : jag_ecp_no_number_lost_stmt.
Proof.
  intros name types els ecps t H Hcov Ht.
  destruct (jag_ok_parts els ecps H) as [Hels [Hnd Hecps]].
  destruct (jag_all_parts name types els ecps t H Ht) as [hdr [parts [-> [Hnl Hparts]]]].
  (* the piece of the element of an ECP entry *)
  assert (Hkey : forall z nelec pots, In (z, (nelec, pots)) ecps ->
            has_tok (hdr +++ nl1 +++ String.concat "" parts) (Z_to_string nelec) /\
            forall p, In p pots -> pot_toks (hdr +++ nl1 +++ String.concat "" parts) p).
  { intros z nelec pots Hin. assert (Hz : In z (map fst els)) by (apply Hcov; apply (in_map fst) in Hin; exact Hin).
    apply in_map_iff in Hz. destruct Hz as [[z' shs] [Ez Hzs]]. cbn [fst] in Ez. subst z'.
    destruct (Hparts z shs Hzs) as [b [Hbin Hb]]. rewrite Forall_forall in Hels.
    destruct (jag_element_toks ecps z shs b (Hels _ Hzs) Hecps Hb) as [_ [_ T]].
    destruct (T nelec pots (assocZ_NoDup _ _ _ _ Hnd Hin)) as [T1 T2]. split.
    - apply has_tok_after_line, (has_tok_concat parts b); assumption.
    - intros p Hp. destruct (T2 p Hp) as [U1 U2]. split.
      + intros x Hx. apply has_tok_after_line, (has_tok_concat parts b); [exact Hnl | exact Hbin | apply U1, Hx].
      + intros n Hn. apply has_tok_after_line, (has_tok_concat parts b); [exact Hnl | exact Hbin | apply U2, Hn]. }
  split.
  - intros x [[z [nelec pots]] [p [He [Hp Hx]]]]. cbn [snd] in Hp.
    destruct (Hkey z nelec pots He) as [_ T]. apply (T p Hp). exact Hx.
  - intros n [[z [nelec pots]] [He Hn]]. cbn [fst snd] in Hn. destruct (Hkey z nelec pots He) as [T1 T2].
    destruct Hn as [->|[p [Hp Hn]]]; [exact T1 | apply (T2 p Hp), Hn].
Qed.

(* ================================================================== *)
(* 6. the finding: ECP-only elements                                   *)
(* ================================================================== *)
Lemma mapM_ext_in : forall (A B : Type) (f g : A -> res B) l, (forall a, In a l -> f a = g a) -> mapM f l = mapM g l.
Proof.
  intros A B f g; induction l as [|a l IH]; intros H; [reflexivity|]. cbn [mapM].
  rewrite (H a (or_introl eq_refl)), IH; [reflexivity|]. intros b Hb. apply H. now right.
Qed.

Lemma jag_ecp_uncovered_ignored : jag_ecp_uncovered_ignored_stmt.
Proof.
  intros name types els ecps ecps' Hemp Hsame. unfold jag_write_all.
  assert (E1 : match ecps with [] => "" | _ => " ECP" end = match ecps' with [] => "" | _ => " ECP" end).
  { destruct ecps as [|e l], ecps' as [|e' l']; try reflexivity.
    - destruct Hemp as [H _]. specialize (H eq_refl). discriminate H.
    - destruct Hemp as [_ H]. specialize (H eq_refl). discriminate H. }
  rewrite E1. rewrite (mapM_ext_in _ _ (jag_write_element ecps) (jag_write_element ecps') els); [reflexivity|].
  intros [z shs] Hin. unfold jag_write_element. rewrite (Hsame z); [reflexivity|]. apply (in_map fst) in Hin. exact Hin.
Qed.

Lemma jag_ecp_only_lost : jag_ecp_only_lost_stmt.
Proof.
  intros name types ecps Hne. unfold jag_write_all. cbn [mapM]. unfold bind, ok. destruct ecps; [congruence|].
  cbn [String.concat]. now rewrite sapp_nil_r.
Qed.

Lemma jag_ecp_only_example : jag_ecp_only_example_stmt.
Proof.
  cbv zeta. split; [|split; [vm_compute; reflexivity|]].
  - split; [|split].
    + repeat constructor; cbn; try lia.
    + repeat constructor. cbn. intros [].
    + constructor; [|constructor]. cbn [snd]. split; [discriminate|].
      repeat constructor; cbn; try lia; try discriminate.
  - split; [vm_compute; reflexivity|]. split; [vm_compute; reflexivity|]. split; [vm_compute; reflexivity|].
    split; [vm_compute; reflexivity|]. split; [vm_compute; reflexivity|]. split; [|vm_compute; reflexivity].
    intros H. destruct (H 28%Z) as [line [Hl Ht]].
    + eexists. split; [left; reflexivity|]. left. reflexivity.
    + vm_compute in Hl. repeat (destruct Hl as [<-|Hl]; [vm_compute in Ht; repeat (destruct Ht as [Ht|Ht]; [discriminate Ht|]); exact Ht|]).
      exact Hl.
Qed.

(* ================================================================== *)
(* 7. the conditions of jag_ok, the store instances                    *)
(* ================================================================== *)
Lemma jag_ecp_coef_columns : jag_ecp_coef_columns_stmt.
Proof. repeat split; vm_compute; reflexivity. Qed.
Lemma jag_lengths : jag_lengths_stmt.
Proof. repeat split; vm_compute; reflexivity. Qed.
Lemma jag_am : jag_am_stmt.
Proof. repeat split; vm_compute; reflexivity. Qed.
Lemma jag_floating : jag_floating_stmt.
Proof. repeat split; vm_compute; reflexivity. Qed.
Lemma jag_elements : jag_elements_stmt.
Proof. repeat split; vm_compute; reflexivity. Qed.

Ltac floats := repeat (constructor; try (vm_compute; reflexivity)).

Lemma jag_example : jag_example_stmt.
Proof.
  split; [|split; [|vm_compute; reflexivity]].
  - split; [|split].
    + repeat (constructor; [split; [cbn; lia|]|]); repeat (constructor; [repeat split; floats; cbn; try lia|]); constructor.
    + repeat constructor. cbn. intros [].
    + constructor; [|constructor]. cbn [snd]. split; [discriminate|].
      repeat (constructor; [repeat split; floats; cbn; try lia; try discriminate|]). constructor.
  - intros z Hz. cbn in Hz. destruct Hz as [<-|[]]. cbn. right. now left.
Qed.

Lemma jag_example_ecp_only : jag_example_ecp_only_stmt.
Proof. intros ecp. rewrite jag_ecp_only_lost by discriminate. reflexivity. Qed.

Print Assumptions jag_write_total.
Print Assumptions jag_no_number_lost.
Print Assumptions jag_ecp_no_number_lost.
Print Assumptions jag_ecp_uncovered_ignored.
Print Assumptions jag_ecp_only_lost.
Print Assumptions jag_ecp_only_example.
Print Assumptions jag_ecp_coef_columns.
Print Assumptions jag_lengths.
Print Assumptions jag_am.
Print Assumptions jag_floating.
Print Assumptions jag_elements.
Print Assumptions jag_example.
Print Assumptions jag_example_ecp_only.
