(* Shared lemmas for the writer-only formats (Jaguar, FHI-aims, BDF): the lines of a text that is put together from pieces
   each of which ends with a newline are the lines of the pieces - for ANY content of the pieces (no condition on the
   characters: str.splitlines never looks behind a '\n'); a printed matrix carries every cell as a token of a line. *)
From BSE Require Import Model.Val Model.Text Model.Basis Model.Manip Model.Matrix Gen.GenLut Model.Lut Model.Elements
                        Model.Nwchem Model.NwchemEcp Proofs.MatrixDefs Proofs.NwchemDefs.
From BSE Require Import Proofs.HeaderSpec Proofs.PruneFS Proofs.MatrixSpec Proofs.NwchemSpec Proofs.NwchemEcpSpec.
From BSE Require Proofs.G94Spec.
Require Import Coq.Sorting.Permutation.

(* ================================================================== *)
(* 1. splitlines of a concatenation                                    *)
(* ================================================================== *)
Lemma bl_ext : forall c a b, boundary_len (String c ((a +++ nl1) +++ b)) = boundary_len (String c (a +++ nl1)).
Proof.
  intros c a b. destruct a as [|d [|e a]]; unfold boundary_len; cbn [String.append nl1].
  - destruct (beq c 13); [reflexivity|].
    destruct (beq c 10 || (beq c 11 || (beq c 12 || (beq c 28 || (beq c 29 || beq c 30))))); [reflexivity|].
    destruct (beq c 194); [reflexivity|]. destruct (beq c 226); [|reflexivity]. destruct b; reflexivity.
  - reflexivity.
  - reflexivity.
Qed.

Lemma bl_2_inv : forall c t, boundary_len (String c t) = 2 -> exists d t', t = String d t'.
Proof.
  intros c t H. destruct t as [|d t']; [|eauto]. exfalso. unfold boundary_len in H.
  destruct (beq c 13); [discriminate|].
  destruct (beq c 10 || (beq c 11 || (beq c 12 || (beq c 28 || (beq c 29 || beq c 30))))); [discriminate|].
  destruct (beq c 194); [discriminate|]. destruct (beq c 226); discriminate.
Qed.

Lemma bl_3_inv : forall c t, boundary_len (String c t) = 3 ->
  exists d e t', t = String d (String e t') /\ beq d 128 = true /\ (beq e 168 || beq e 169) = true.
Proof.
  intros c t H. unfold boundary_len in H.
  destruct (beq c 13). { destruct t as [|d t']; [discriminate|]. destruct (beq d 10); discriminate. }
  destruct (beq c 10 || (beq c 11 || (beq c 12 || (beq c 28 || (beq c 29 || beq c 30))))); [discriminate|].
  destruct (beq c 194). { destruct t as [|d t']; [discriminate|]. destruct (beq d 133); discriminate. }
  destruct (beq c 226); [|discriminate].
  destruct t as [|d [|e t']]; try discriminate.
  destruct (beq d 128) eqn:Ed; [|discriminate]. destruct (beq e 168 || beq e 169) eqn:Ee; [|discriminate].
  exists d, e, t'. repeat split; assumption.
Qed.

Lemma bl_le_3 : forall s, boundary_len s <= 3.
Proof.
  intros [|c t]; [cbn; lia|]. unfold boundary_len.
  destruct (beq c 13). { destruct t as [|d t']; [lia|]. destruct (beq d 10); lia. }
  destruct (beq c 10 || (beq c 11 || (beq c 12 || (beq c 28 || (beq c 29 || beq c 30))))); [lia|].
  destruct (beq c 194). { destruct t as [|d t']; [lia|]. destruct (beq d 133); lia. }
  destruct (beq c 226); [|lia]. destruct t as [|d [|e t']]; try lia.
  destruct (beq d 128 && (beq e 168 || beq e 169)); lia.
Qed.

Lemma spl_app_nl : forall n a b cur body, String.length a <= n ->
  spl false ((a +++ nl1) +++ b) cur 0 body = spl false (a +++ nl1) cur 0 body ++ spl false b "" 0 "".
Proof.
  induction n as [n IH] using lt_wf_ind. intros a b cur body Hn.
  destruct a as [|c a].
  - reflexivity.
  - cbn [String.append]. cbn [spl]. rewrite bl_ext.
    pose proof (bl_le_3 (String c (a +++ nl1))) as Hle.
    destruct (boundary_len (String c (a +++ nl1))) as [|[|[|[|k]]]] eqn:Ek; [| | | |lia].
    + cbn [String.length] in Hn. apply (IH (String.length a)); lia.
    + cbn [String.length] in Hn. rewrite (IH (String.length a)) by lia. reflexivity.
    + destruct (bl_2_inv _ _ Ek) as [d [t' Et]]. destruct a as [|d' a].
      * cbn [String.append nl1] in *. reflexivity.
      * cbn [String.append]. cbn [spl]. cbn [String.length] in Hn. rewrite (IH (String.length a)) by lia. reflexivity.
    + destruct (bl_3_inv _ _ Ek) as [d [e [t' [Et [Ed Ee]]]]]. destruct a as [|d' [|e' a]].
      * cbn [String.append nl1] in Et. inversion Et.
      * cbn [String.append nl1] in Et. inversion Et; subst. discriminate Ee.
      * cbn [String.append]. cbn [spl]. cbn [String.length] in Hn. rewrite (IH (String.length a)) by lia. reflexivity.
Qed.

(* a piece: empty, or ending with a newline *)
Definition nl_ended (s : string) : Prop := s = "" \/ exists a, s = a +++ nl1.

Lemma splitlines_app_nl : forall a b, nl_ended a -> splitlines (a +++ b) = splitlines a ++ splitlines b.
Proof.
  intros a b [->|[a0 ->]]; [reflexivity|]. unfold splitlines. apply (spl_app_nl (String.length a0)). lia.
Qed.

Lemma nl_ended_nil : nl_ended "".
Proof. now left. Qed.
Lemma nl_ended_line : forall a, nl_ended (a +++ nl1).
Proof. intros a. right. now exists a. Qed.
Lemma nl_ended_app : forall a b, nl_ended a -> nl_ended b -> nl_ended (a +++ b).
Proof.
  intros a b Ha [->|[b0 ->]]; [now rewrite sapp_nil_r|]. right. exists (a +++ b0). now rewrite sapp_assoc.
Qed.
(* whatever stands in front of a complete line *)
Lemma nl_ended_pre : forall a b, nl_ended (b +++ nl1) -> nl_ended (a +++ b +++ nl1).
Proof. intros a b _. right. exists (a +++ b). now rewrite sapp_assoc. Qed.
Lemma nl_ended_concat : forall l, Forall nl_ended l -> nl_ended (String.concat "" l).
Proof.
  induction l as [|x l IH]; intros H; [apply nl_ended_nil|]. inversion H; subst. rewrite concat_cons.
  apply nl_ended_app; [assumption | apply IH; assumption].
Qed.

(* x is a white-space delimited token of some line of the text *)
Definition has_tok (t x : string) : Prop := exists line, In line (splitlines t) /\ In x (tokens_acc line "").

Lemma has_tok_l : forall a b x, nl_ended a -> has_tok a x -> has_tok (a +++ b) x.
Proof.
  intros a b x Ha [line [Hl Hx]]. exists line. split; [|exact Hx]. rewrite (splitlines_app_nl a b Ha). apply in_or_app. now left.
Qed.
Lemma has_tok_r : forall a b x, nl_ended a -> has_tok b x -> has_tok (a +++ b) x.
Proof.
  intros a b x Ha [line [Hl Hx]]. exists line. split; [|exact Hx]. rewrite (splitlines_app_nl a b Ha). apply in_or_app. now right.
Qed.
Lemma has_tok_concat : forall l p x, Forall nl_ended l -> In p l -> has_tok p x -> has_tok (String.concat "" l) x.
Proof.
  induction l as [|y l IH]; intros p x H Hin Hp; [destruct Hin|]. inversion H; subst. rewrite concat_cons.
  destruct Hin as [->|Hin]; [apply has_tok_l; assumption|]. apply has_tok_r; [assumption|]. apply (IH p); assumption.
Qed.

(* one complete line without a line boundary inside *)
Lemma has_tok_line : forall l x, sall nobd l = true -> In x (tokens_acc l "") -> has_tok (l +++ nl1) x.
Proof.
  intros l x Hl Hx. exists l. split; [|exact Hx]. unfold nl1, splitlines.
  rewrite (spl_line l "" "" "" Hl), sapp_nil_r, srev_involutive. now left.
Qed.

(* ================================================================== *)
(* 2. mapM                                                             *)
(* ================================================================== *)
Lemma mapM_In : forall (A B : Type) (f : A -> res B) l out a,
  mapM f l = inr out -> In a l -> exists b, f a = inr b /\ In b out.
Proof.
  intros A B f l out a H Hin. pose proof (mapM_Forall2 _ _ _ _ _ H) as F2.
  destruct (Forall2_In_l _ _ _ _ _ a F2 Hin) as [b [Hb Hf]]. exists b. split; assumption.
Qed.

Lemma mapM_all : forall (A B : Type) (f : A -> res B) (P : B -> Prop) l out,
  mapM f l = inr out -> (forall a b, In a l -> f a = inr b -> P b) -> Forall P out.
Proof.
  intros A B f P l out H HP. pose proof (mapM_Forall2 _ _ _ _ _ H) as F2. clear H.
  induction F2 as [|a b l out Hab F2 IH]; constructor.
  - apply (HP a b); [now left | exact Hab].
  - apply IH. intros a' b' Hin. apply HP. now right.
Qed.

Lemma mapM_total_in : forall (A B : Type) (f : A -> res B) l,
  (forall a, In a l -> exists b, f a = inr b) -> exists out, mapM f l = inr out.
Proof.
  intros A B f l H. apply mapM_total. rewrite Forall_forall. exact H.
Qed.

(* ================================================================== *)
(* 3. what printing.write_matrix prints                                *)
(* ================================================================== *)
Lemma unlines_nl_ended : forall rows, nl_ended (String.concat "" (map (fun r => r +++ nl1) rows)).
Proof.
  intros rows. apply nl_ended_concat. rewrite Forall_forall. intros p Hp. apply in_map_iff in Hp.
  destruct Hp as [r [<- _]]. apply nl_ended_line.
Qed.

Lemma dconv_nl_ended : forall s, nl_ended s -> nl_ended (d_convert s).
Proof.
  intros s [->|[a ->]]; [now left|]. right. exists (d_convert a). unfold d_convert. rewrite smap_app. reflexivity.
Qed.

Lemma wm_nl_ended : forall mat pps conv text, write_matrix mat pps conv = inr text -> nl_ended text.
Proof.
  intros mat pps conv text H. unfold write_matrix in H.
  destruct (mapM (fun row => write_row row pps true "") (transpose_cells mat)) as [e|rows]; [discriminate|].
  unfold bind, ok in H. inversion H; subst. destruct conv; [apply dconv_nl_ended|]; apply unlines_nl_ended.
Qed.

Lemma tokens_dconv_l : forall line, tokens_acc (d_convert line) "" = map d_convert (tokens_acc line "").
Proof.
  intros line. unfold d_convert. fold dconv_c.
  change (tokens_acc (smap dconv_c line) "") with (tokens_acc (smap dconv_c line) (smap dconv_c "")).
  apply (tokens_smap dconv_c dconv_c_space).
Qed.

Lemma tokens_conv : forall conv line, tokens_acc (conv_text conv line) "" = map (conv_text conv) (tokens_acc line "").
Proof. intros [|] line; cbn [conv_text]; [apply tokens_dconv_l | now rewrite map_id]. Qed.

(* every cell of every column (all columns have the same length) is a token of a line of the printed matrix *)
Lemma wm_cell_tok : forall mat pps conv text n,
  Forall (Forall cell_ok) mat -> Forall (Forall cell_ascii) mat -> Forall (fun col => List.length col = n) mat ->
  write_matrix mat pps conv = inr text ->
  forall col c, In col mat -> In c col -> has_tok text (conv_text conv (cell_str c)).
Proof.
  intros mat pps conv text n Hok Hasc Hn H col c Hcol Hc.
  destruct (write_matrix_lines mat pps conv text Hok Hasc H) as [rows [F2 Es]].
  assert (HF : Forall (fun r => List.length r = n) (map (map cell_str) mat)).
  { rewrite Forall_forall in *. intros r Hr. apply in_map_iff in Hr. destruct Hr as [r0 [<- Hr0]]. rewrite map_length. apply Hn, Hr0. }
  destruct (transpose_has (map (map cell_str) mat) n (map cell_str col) (cell_str c) HF (in_map _ _ _ Hcol) (in_map _ _ _ Hc))
    as [srow [Hsrow Hx]].
  rewrite transpose_map in Hsrow. apply in_map_iff in Hsrow. destruct Hsrow as [row [<- Hrow]].
  destruct (Forall2_In_l _ _ _ _ _ row F2 Hrow) as [line [Hline Hw]]. cbv beta in Hw.
  assert (Hrok : Forall cell_ok row).
  { pose proof (transpose_Forall _ _ mat Hok) as HT. rewrite Forall_forall in HT. apply HT, Hrow. }
  pose proof (write_row_tokens_gen row pps true "" line Hrok (fun _ => eq_refl) Hw) as Ht. cbn [tokens_acc app] in Ht.
  exists (conv_text conv line). split.
  - rewrite Es. apply in_map, Hline.
  - rewrite tokens_conv, Ht. apply in_map, Hx.
Qed.

Lemma wm_total : forall mat pps conv n,
  Forall (Forall cell_ok) mat -> Forall (fun col => List.length col = n) mat -> List.length mat <= List.length pps ->
  exists text, write_matrix mat pps conv = inr text.
Proof.
  intros mat pps conv n Hok Hn Hl. destruct mat as [|c0 mat]; [eexists; reflexivity|].
  apply (write_matrix_total (c0 :: mat) pps n conv); [split; [discriminate | exact Hn] | exact Hok | exact Hl].
Qed.

Lemma leftpad_total : forall cols pps, List.length cols <= List.length pps -> Forall (Forall cell_ok) cols ->
  leftpad_check cols pps = inr tt.
Proof.
  induction cols as [|c cols IH]; intros pps Hl H; [reflexivity|].
  destruct pps as [|p pps]; [cbn in Hl; lia|]. inversion H as [|? ? Hc Hcs]; subst.
  cbn [leftpad_check]. destruct (mapM_find_point c Hc) as [l ->]. unfold bind. apply IH; [cbn in Hl; lia | exact Hcs].
Qed.

(* the cells of the numbers *)
Lemma int_cells : forall l, Forall cell_ok (map CInt l) /\ Forall cell_ascii (map CInt l).
Proof.
  intros l. rewrite !Forall_forall. split; intros c Hc; apply in_map_iff in Hc; destruct Hc as [z [<- _]]; [exact I|].
  unfold cell_ascii. cbn [cell_str]. apply (sall_impl fchar); [exact fchar_ascii | apply Z_to_string_chars].
Qed.

Lemma float_cols : forall cs, Forall (Forall floating) cs ->
  Forall (Forall cell_ok) (map (map CStr) cs) /\ Forall (Forall cell_ascii) (map (map CStr) cs).
Proof.
  intros cs H. rewrite !Forall_forall in *. split; intros col Hcol; apply in_map_iff in Hcol; destruct Hcol as [c [<- Hc]];
    apply floats_cells, H, Hc.
Qed.

(* str(int): one token, no line boundary *)
Lemma Zstr_nobd : forall z, sall nobd (Z_to_string z) = true.
Proof.
  intros z. apply (sall_impl fchar); [|apply Z_to_string_chars].
  intros c Hc. apply nobd_of_ascii; [apply fchar_not_space, Hc | apply fchar_ascii, Hc].
Qed.
Lemma Zstr_tok : forall z, tok_ok (Z_to_string z).
Proof.
  intros z. split; [apply Z_to_string_ne|]. apply (sall_sany_false fchar); [exact fchar_not_space | apply Z_to_string_chars].
Qed.
Lemma floating_nobd : forall s, floating s -> sall nobd s = true.
Proof.
  intros s H. apply (sall_impl fchar); [|apply floating_chars, H].
  intros c Hc. apply nobd_of_ascii; [apply fchar_not_space, Hc | apply fchar_ascii, Hc].
Qed.
Lemma floating_tok : forall s, floating s -> tok_ok s.
Proof. intros s H. destruct (floating_is_cell s H) as [H1 [H2 _]]. split; assumption. Qed.

(* the last word of a line `... <blanks> w` *)
Lemma last_tok : forall pre n w, tok_ok w -> In w (tokens_acc (pre +++ sp (S n) +++ w) "").
Proof. intros pre n w Hw. rewrite (tokens_snoc n w Hw pre ""). apply in_or_app. right. now left. Qed.

(* ================================================================== *)
(* 4. the order in which the potentials are printed                    *)
(* ================================================================== *)
Lemma ecp_order_perm : forall pots l, ecp_order pots = inr l -> Permutation pots l.
Proof.
  intros pots l H. unfold ecp_order, ecp_rotate in H. destruct (rev (ecp_sorted pots)) as [|x r] eqn:Er; [discriminate|].
  unfold ok in H. inversion H; subst.
  assert (Es : ecp_sorted pots = rev r ++ [x]) by (rewrite <- (rev_involutive (ecp_sorted pots)), Er; reflexivity).
  eapply Permutation_trans; [apply NwchemEcpSpec.sorted_perm|]. rewrite Es. apply Permutation_sym, Permutation_cons_append.
Qed.

Lemma ecp_order_total : forall pots, pots <> [] -> exists l, ecp_order pots = inr l.
Proof.
  intros pots Hne. unfold ecp_order, ecp_rotate. destruct (rev (ecp_sorted pots)) as [|x r] eqn:Er; [|eexists; reflexivity].
  exfalso. apply Hne. assert (E : ecp_sorted pots = []) by (rewrite <- (rev_involutive (ecp_sorted pots)), Er; reflexivity).
  pose proof (NwchemEcpSpec.sorted_perm pots) as P. rewrite E in P. apply Permutation_sym, Permutation_nil in P. exact P.
Qed.

(* zmax of a non-empty list is one of its members *)
Lemma zmax_in : forall l, l <> [] -> In (zmax l) l.
Proof. intros l H. apply NwchemEcpSpec.zmax_facts, H. Qed.

(* ================================================================== *)
(* 5. the two kinds of matrices the writers print                      *)
(* ================================================================== *)
Lemma Zstr_dconv : forall z, d_convert (Z_to_string z) = Z_to_string z.
Proof.
  intros z. unfold d_convert. apply (smap_id_on intc); [|apply Z_to_string_intc].
  intros c Hc. all_chars c; try reflexivity; discriminate Hc.
Qed.
Lemma Zstr_conv : forall conv z, conv_text conv (Z_to_string z) = Z_to_string z.
Proof. intros [|] z; [apply Zstr_dconv | reflexivity]. Qed.

(* x is an exponent or a coefficient *)
Definition shell_number (exps : list string) (coefs : list (list string)) (x : string) : Prop :=
  In x exps \/ exists c, In c coefs /\ In x c.

Definition shell_mat (exps : list string) (coefs : list (list string)) : list (list cell) :=
  map CStr exps :: map (map CStr) coefs.

Lemma shell_mat_cells : forall exps coefs,
  Forall floating exps -> Forall (Forall floating) coefs -> Forall (fun c => List.length c = List.length exps) coefs ->
  Forall (Forall cell_ok) (shell_mat exps coefs) /\ Forall (Forall cell_ascii) (shell_mat exps coefs) /\
  Forall (fun col => List.length col = List.length exps) (shell_mat exps coefs).
Proof.
  intros exps coefs He Hc Hl. unfold shell_mat. destruct (floats_cells exps He) as [A1 A2]. destruct (float_cols coefs Hc) as [B1 B2].
  split; [constructor; assumption|]. split; [constructor; assumption|].
  constructor; [apply map_length|]. rewrite Forall_forall in *. intros col Hcol. apply in_map_iff in Hcol.
  destruct Hcol as [c [<- Hin]]. rewrite map_length. apply Hl, Hin.
Qed.

Lemma shell_mat_total : forall exps coefs pps conv,
  Forall floating exps -> Forall (Forall floating) coefs -> Forall (fun c => List.length c = List.length exps) coefs ->
  S (List.length coefs) <= List.length pps ->
  leftpad_check (shell_mat exps coefs) pps = inr tt /\ exists text, write_matrix (shell_mat exps coefs) pps conv = inr text.
Proof.
  intros exps coefs pps conv He Hc Hl Hp. destruct (shell_mat_cells exps coefs He Hc Hl) as [A [_ C]].
  assert (Hlen : List.length (shell_mat exps coefs) <= List.length pps) by (unfold shell_mat; cbn [List.length]; rewrite map_length; lia).
  split; [apply leftpad_total; assumption | apply (wm_total _ _ _ (List.length exps)); assumption].
Qed.

Lemma shell_mat_tok : forall exps coefs pps conv text,
  Forall floating exps -> Forall (Forall floating) coefs -> Forall (fun c => List.length c = List.length exps) coefs ->
  write_matrix (shell_mat exps coefs) pps conv = inr text ->
  forall x, shell_number exps coefs x -> has_tok text (conv_text conv x).
Proof.
  intros exps coefs pps conv text He Hc Hl H x Hx. destruct (shell_mat_cells exps coefs He Hc Hl) as [A [B C]].
  destruct Hx as [Hx|[c [Hcin Hx]]].
  - apply (wm_cell_tok _ _ _ _ _ A B C H (map CStr exps) (CStr x)); [now left | apply in_map, Hx].
  - apply (wm_cell_tok _ _ _ _ _ A B C H (map CStr c) (CStr x)); [right; apply in_map, Hcin | apply in_map, Hx].
Qed.

(* the three (or two) columns of a potential: Model.NwchemEcp.ecp_cols *)
Definition pot_shape (p : epot) : Prop :=
  List.length (p_gexp p) = List.length (p_rexp p) /\
  List.length (p_coef p) <= 1 /\ Forall (fun c => List.length c = List.length (p_rexp p)) (p_coef p) /\
  Forall floating (p_gexp p) /\ Forall (Forall floating) (p_coef p).

Lemma ecp_cols_cells : forall p, pot_shape p ->
  Forall (Forall cell_ok) (ecp_cols p) /\ Forall (Forall cell_ascii) (ecp_cols p) /\
  Forall (fun col => List.length col = List.length (p_rexp p)) (ecp_cols p) /\ List.length (ecp_cols p) <= 3.
Proof.
  intros p [Hg [Hn [Hl [Fg Fc]]]]. unfold ecp_cols. destruct (int_cells (p_rexp p)) as [I1 I2].
  destruct (floats_cells (p_gexp p) Fg) as [G1 G2]. destruct (float_cols (p_coef p) Fc) as [C1 C2].
  split; [constructor; [assumption | constructor; assumption]|]. split; [constructor; [assumption | constructor; assumption]|].
  split.
  - constructor; [apply map_length|]. constructor; [rewrite map_length; exact Hg|].
    rewrite Forall_forall in *. intros col Hcol. apply in_map_iff in Hcol. destruct Hcol as [c [<- Hin]]. rewrite map_length. apply Hl, Hin.
  - cbn [List.length]. rewrite map_length. lia.
Qed.

Lemma ecp_cols_total : forall p pps conv, pot_shape p -> List.length pps = 3 ->
  leftpad_check (ecp_cols p) pps = inr tt /\ exists text, write_matrix (ecp_cols p) pps conv = inr text.
Proof.
  intros p pps conv Hp Hpp. destruct (ecp_cols_cells p Hp) as [A [_ [C D]]].
  split; [apply leftpad_total; [lia | exact A] | apply (wm_total _ _ _ (List.length (p_rexp p))); [exact A | exact C | lia]].
Qed.

Lemma ecp_cols_tok : forall p pps conv text, pot_shape p -> write_matrix (ecp_cols p) pps conv = inr text ->
  (forall x, shell_number (p_gexp p) (p_coef p) x -> has_tok text (conv_text conv x)) /\
  (forall n, In n (p_rexp p) -> has_tok text (Z_to_string n)).
Proof.
  intros p pps conv text Hp H. destruct (ecp_cols_cells p Hp) as [A [B [C _]]]. split.
  - intros x [Hx|[c [Hc Hx]]].
    + apply (wm_cell_tok _ _ _ _ _ A B C H (map CStr (p_gexp p)) (CStr x)); [right; now left | apply in_map, Hx].
    + apply (wm_cell_tok _ _ _ _ _ A B C H (map CStr c) (CStr x)); [right; right; apply in_map, Hc | apply in_map, Hx].
  - intros n Hn. rewrite <- (Zstr_conv conv n).
    apply (wm_cell_tok _ _ _ _ _ A B C H (map CInt (p_rexp p)) (CInt n)); [now left | apply in_map, Hn].
Qed.

(* the numbers of a potential are tokens of t (convert_exp=True) *)
Definition pot_toks (t : string) (p : epot) : Prop :=
  (forall x, shell_number (p_gexp p) (p_coef p) x -> has_tok t (d_convert x)) /\
  (forall n, In n (p_rexp p) -> has_tok t (Z_to_string n)).

(* the letters of angular momenta *)
Lemma amchar_total_hij : forall a, Forall (fun l => (0 <= l < 26)%Z) a -> exists ch, amint_to_char a true false = inr ch.
Proof. intros a Ha. destruct (G94Spec.amint_chars_ok94 a Ha) as [ch [E _]]. exists ch. exact E. Qed.
Lemma amchar_total_hik : forall a, Forall (fun l => (0 <= l < 25)%Z) a -> exists ch, amint_to_char a false false = inr ch.
Proof. intros a Ha. destruct (amint_chars_ok a Ha) as [ch [E _]]. exists ch. exact E. Qed.

(* max([x['angular_momentum'][0] for x in pots]) *)
Lemma ecp_max_am_facts : forall pots, pots <> [] -> Forall (fun p => p_am p <> []) pots ->
  exists mx, ecp_max_am pots = inr mx /\ exists p, In p pots /\ exists r, p_am p = mx :: r.
Proof.
  intros pots Hne Ham. unfold ecp_max_am.
  assert (Hm : mapM am_first pots = inr (map (fun p => hd 0%Z (p_am p)) pots)).
  { apply mapM_map_ok. intros p Hp. rewrite Forall_forall in Ham. specialize (Ham p Hp). unfold am_first.
    destruct (p_am p); [congruence | reflexivity]. }
  rewrite Hm. unfold bind. destruct pots as [|p0 pots]; [congruence|]. cbn [map]. eexists. split; [reflexivity|].
  assert (Hin : In (zmax (hd 0%Z (p_am p0) :: map (fun p => hd 0%Z (p_am p)) pots)) (map (fun p => hd 0%Z (p_am p)) (p0 :: pots))).
  { apply zmax_in. discriminate. }
  apply in_map_iff in Hin. destruct Hin as [p [E Hp]]. exists p. split; [exact Hp|].
  rewrite Forall_forall in Ham. specialize (Ham p Hp). destruct (p_am p) as [|a r]; [congruence|]. exists r. cbn [hd] in E. now rewrite E.
Qed.

(* ================================================================== *)
(* 6. a line followed by more text; association lists                  *)
(* ================================================================== *)
Lemma nl_ended_line_then : forall hdr m, nl_ended m -> nl_ended (hdr +++ nl1 +++ m).
Proof. intros hdr m H. rewrite <- sapp_assoc. apply nl_ended_app; [apply nl_ended_line | exact H]. Qed.
Lemma has_tok_after_line : forall hdr m x, has_tok m x -> has_tok (hdr +++ nl1 +++ m) x.
Proof. intros hdr m x H. rewrite <- sapp_assoc. apply has_tok_r; [apply nl_ended_line | exact H]. Qed.
Lemma has_tok_in_line : forall hdr m x, sall nobd hdr = true -> In x (tokens_acc hdr "") -> has_tok (hdr +++ nl1 +++ m) x.
Proof. intros hdr m x H1 H2. rewrite <- sapp_assoc. apply has_tok_l; [apply nl_ended_line | apply has_tok_line; assumption]. Qed.

Lemma assocZ_In : forall (V : Type) z (v : V) l, assocZ z l = Some v -> In (z, v) l.
Proof.
  intros V z v; induction l as [|[k w] l IH]; intros H; [discriminate|]. cbn [assocZ] in H.
  destruct (Z.eqb_spec z k) as [->|Hne]; [inversion H; now left | right; apply IH, H].
Qed.
Lemma assocZ_NoDup : forall (V : Type) z (v : V) l, NoDup (map fst l) -> In (z, v) l -> assocZ z l = Some v.
Proof.
  intros V z v; induction l as [|[k w] l IH]; intros Hnd Hin; [destruct Hin|]. cbn [map fst] in Hnd. inversion Hnd as [|? ? Hk Hnd']; subst.
  cbn [assocZ]. destruct Hin as [E|Hin].
  - inversion E; subst. now rewrite Z.eqb_refl.
  - destruct (Z.eqb_spec z k) as [->|Hne]; [|apply IH; assumption].
    exfalso. apply Hk. apply (in_map fst) in Hin. exact Hin.
Qed.
Lemma assocZ_None : forall (V : Type) z (l : list (Z * V)), ~ In z (map fst l) -> assocZ z l = None.
Proof.
  intros V z; induction l as [|[k w] l IH]; intros H; [reflexivity|]. cbn [assocZ]. cbn [map fst In] in H.
  destruct (Z.eqb_spec z k) as [->|Hne]; [exfalso; apply H; now left | apply IH; intros C; apply H; now right].
Qed.
Lemma assocZ_Some_key : forall (V : Type) z (l : list (Z * V)), In z (map fst l) -> exists v, assocZ z l = Some v.
Proof.
  intros V z; induction l as [|[k w] l IH]; intros H; [destruct H|]. cbn [assocZ]. cbn [map fst In] in H.
  destruct (Z.eqb_spec z k) as [->|Hne]; [eexists; reflexivity|]. destruct H as [E|H]; [congruence | apply IH, H].
Qed.

(* the symbols of the elements 1 .. 120 *)
Lemma sym120 : forall z, (1 <= z <= 120)%Z ->
  element_sym_from_Z z true = inr (symz z) /\ sall nobd (symz z) = true /\ tok_ok (symz z).
Proof.
  intros z Hz. destruct (G94Spec.sym_facts94 z Hz) as [E [Hne [Ha _]]]. split; [exact E|].
  split; [exact (sall_impl is_alpha nobd _ alpha_nobd Ha) | apply alpha_word_tok; assumption].
Qed.

(* the value of a successful computation (without touching its shape) *)
Lemma ok_inj : forall (A : Type) (a b : A), @ok A a = inr b -> a = b.
Proof. intros A a b H. unfold ok in H. congruence. Qed.
