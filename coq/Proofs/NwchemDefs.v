(* Statements about the NWChem writer / reader pair (electron shells): what write_nwchem prints, read_nwchem reads back.
   Definitions only; the proofs are in Proofs/NwchemSpec.v. *)
From BSE Require Import Model.Val Model.Text Model.Basis Model.Manip Model.Matrix Model.Lut Model.Elements Model.Nwchem
                        Proofs.MatrixDefs.

(* ---------- well-formed input of the writer (what is left after uncontract_spdf / sort_basis) ---------- *)
Definition floating (s : string) : Prop := is_floating s = true.

Definition nw_shell_ok (s : sshell) : Prop :=
  (* at least one primitive *)
  exps s <> [] /\
  (* a non-empty list of angular momenta that have a letter in lut._amchar_map_hik (25 letters) *)
  am s <> [] /\ Forall (fun l => (0 <= l < 25)%Z) (am s) /\
  (* at least one general contraction, every one with one coefficient per primitive *)
  coefs s <> [] /\ Forall (fun c => List.length c = List.length (exps s)) (coefs s) /\
  (* a fused shell (sp, spd, ...) has exactly one contraction per angular momentum *)
  (1 < List.length (am s) -> List.length (coefs s) = List.length (am s)) /\
  (* every number is a string matching helpers.floating_re (this implies: non-empty, no white space, a decimal point,
     bytes < 128 only - lemmas floating_is_cell, floating_ascii of Proofs/MatrixSpec.v) *)
  Forall floating (exps s) /\ Forall (Forall floating) (coefs s).

Definition nw_ok (harm : string) (els : list (Z * list sshell)) : Prop :=
  (harm = "spherical" \/ harm = "cartesian") /\
  (* at least one element (nothing at all is written otherwise, and the reader refuses an empty file) *)
  els <> [] /\
  (* dictionary keys: pairwise distinct atomic numbers, all of them in the periodic table *)
  NoDup (map fst els) /\
  Forall (fun zs => (1 <= fst zs <= 118)%Z /\
                    (* at least one shell (an element without shells leaves no trace in the file) *)
                    snd zs <> [] /\
                    Forall nw_shell_ok (snd zs)) els.

(* ---------- what comes back ---------- *)
(* the function type the reader assigns: lut.function_type_from_am(am, 'gto', harm) *)
Definition nw_ftype (harm : string) (a : list Z) : string :=
  match function_type_from_am a "gto" harm with inr f => f | inl _ => "" end.

(* same normalisation as in matrix_roundtrip_stmt (conv = false): every digit, sign and point kept, d/D -> e/E *)
Definition nw_expected_shell (harm : string) (s : sshell) : sshell :=
  mkShell (nw_ftype harm (am s)) "" (am s) (map (norm false) (exps s)) (map (map (norm false)) (coefs s)).

Definition nw_expected (els : list (Z * list sshell)) (harm : string) : list (Z * list sshell) :=
  map (fun zs => (fst zs, map (nw_expected_shell harm) (snd zs))) els.

(* ---------- statements ---------- *)
(* the writer does not fail on well-formed input *)
Definition nw_write_total_stmt : Prop :=
  forall harm els, nw_ok harm els -> exists t, nw_write_electron harm els = inr t.

(* reading back what was written gives exactly the same elements, in order, with the same shells, in order *)
Definition nw_roundtrip_stmt : Prop :=
  forall harm els, nw_ok harm els -> nw_roundtrip els harm = inr (nw_expected els harm).

(* C04 direction: every exponent and every coefficient of the input is a white-space delimited token of some line of
   the written text *)
Definition nw_number_of (els : list (Z * list sshell)) (x : string) : Prop :=
  exists zs s, In zs els /\ In s (snd zs) /\ (In x (exps s) \/ exists c, In c (coefs s) /\ In x c).
Definition nw_no_number_lost_stmt : Prop :=
  forall harm els t, nw_ok harm els -> nw_write_electron harm els = inr t ->
    forall x, nw_number_of els x -> exists line, In line (splitlines t) /\ In x (tokens_acc line "").

(* the hypotheses `els <> []` and `snd zs <> []` of nw_ok cannot be dropped *)
Definition nw_roundtrip_empty_stmt : Prop := nw_roundtrip [] "spherical" = inl ERuntime.
Definition nw_roundtrip_noshell_stmt : Prop :=
  let h := mkShell "gto" "" [0%Z] ["1.0"] [["1.0"]] in
  nw_roundtrip [(1%Z, [h]); (2%Z, [])] "spherical" = inr [(1%Z, [h])].

(* neither can the condition on fused shells: the writer (after its normalisation calls, i.e. the modelled part) prints
   such a shell, the reader's ngen check refuses it *)
Definition nw_roundtrip_fused_stmt : Prop :=
  nw_roundtrip [(1%Z, [mkShell "gto" "" [0%Z; 1%Z] ["1.0"] [["1.0"]]])] "spherical" = inl ERuntime.

(* ---------- a concrete instance: 6-31G for H and C as write_nwchem sees it (sp shells kept fused) plus a general
   contraction with a Fortran exponent marker ---------- *)
Definition ex_H1 : sshell :=
  mkShell "gto" "valence" [0%Z] ["0.1873113696E+02"; "0.2825394365E+01"; "0.6401216923E+00"]
          [["0.3349460434E-01"; "0.2347269535E+00"; "0.8137573261E+00"]].
Definition ex_H2 : sshell := mkShell "gto" "valence" [0%Z] ["0.1612777588E+00"] [["1.0000000"]].
Definition ex_C1 : sshell :=
  mkShell "gto" "valence" [0%Z]
          ["0.3047524880E+04"; "0.4573695180E+03"; "0.1039486850E+03"; "0.2921015530E+02"; "0.9286662960E+01"; "0.3163926960E+01"]
          [["0.1834737132E-02"; "0.1403732281E-01"; "0.6884262226E-01"; "0.2321844432E+00"; "0.4679413484E+00"; "0.3623119853E+00"]].
Definition ex_C2 : sshell :=
  mkShell "gto" "valence" [0%Z; 1%Z] ["0.7868272350E+01"; "0.1881288540E+01"; "0.5442492580E+00"]
          [["-0.1193324198E+00"; "-0.1608541517E+00"; "0.1143456438E+01"];
           ["0.6899906659E-01"; "0.3164239610E+00"; "0.7443082909E+00"]].
Definition ex_C3 : sshell :=
  mkShell "gto" "valence" [0%Z; 1%Z] ["0.1687144782E+00"] [["0.1000000000E+01"]; ["0.1000000000E+01"]].
(* a d shell with two general contractions, one number written with D *)
Definition ex_C4 : sshell :=
  mkShell "gto_spherical" "polarization" [2%Z] ["0.8000000D+00"; "0.2"] [["1.0000000"; "0.0"]; ["0.0"; "1.0000000"]].
Definition ex_els : list (Z * list sshell) := [(1%Z, [ex_H1; ex_H2]); (6%Z, [ex_C1; ex_C2; ex_C3; ex_C4])].

Definition ex_text : string :=
  String.concat nl1
   ["BASIS ""ao basis"" SPHERICAL PRINT";
    "#BASIS SET: (4s) -> [2s]";
    "H    S";
    "      0.1873113696E+02       0.3349460434E-01";
    "      0.2825394365E+01       0.2347269535E+00";
    "      0.6401216923E+00       0.8137573261E+00";
    "H    S";
    "      0.1612777588E+00       1.0000000";
    "#BASIS SET: (10s,4p,2d) -> [3s,2p,2d]";
    "C    S";
    "      0.3047524880E+04       0.1834737132E-02";
    "      0.4573695180E+03       0.1403732281E-01";
    "      0.1039486850E+03       0.6884262226E-01";
    "      0.2921015530E+02       0.2321844432E+00";
    "      0.9286662960E+01       0.4679413484E+00";
    "      0.3163926960E+01       0.3623119853E+00";
    "C    SP";
    "      0.7868272350E+01      -0.1193324198E+00       0.6899906659E-01";
    "      0.1881288540E+01      -0.1608541517E+00       0.3164239610E+00";
    "      0.5442492580E+00       0.1143456438E+01       0.7443082909E+00";
    "C    SP";
    "      0.1687144782E+00       0.1000000000E+01       0.1000000000E+01";
    "C    D";
    "      0.8000000D+00          1.0000000              0.0";
    "      0.2                    0.0                    1.0000000";
    "END";
    ""].

Definition nw_example_stmt : Prop :=
  nw_ok "spherical" ex_els /\
  nw_write_electron "spherical" ex_els = inr ex_text /\
  nw_roundtrip ex_els "spherical" = inr (nw_expected ex_els "spherical") /\
  (* the only visible change: the Fortran marker, the function type and the region *)
  nw_expected_shell "spherical" ex_C4 =
    mkShell "gto_spherical" "" [2%Z] ["0.8000000E+00"; "0.2"] [["1.0000000"; "0.0"]; ["0.0"; "1.0000000"]].
