(* Statements about the ECP part of the Gaussian94 writer / reader pair and about the whole file (electron blocks + ECP
   blocks): what write_g94 prints, read_g94 reads back.  Definitions only; the proofs are in Proofs/G94EcpSpec.v. *)
From BSE Require Import Model.Val Model.Text Model.Basis Model.Manip Model.Matrix Model.Lut Model.Elements Model.Nwchem
                        Model.G94 Model.G94Ecp Proofs.MatrixDefs Proofs.NwchemDefs Proofs.G94Defs.

(* ---------- well-formed input of the ECP part of the writer ---------- *)
(* `floating s` (Proofs/NwchemDefs.v) : is_floating s = true, the string matches helpers.floating_re entirely *)
Definition g94_pot_ok (p : gpot) : Prop :=
  (* at least one term (the reader refuses a count line `  0`) *)
  p_rexp p <> [] /\
  (* one gaussian exponent per r exponent (r exponents are integers by their type, ANY integer, negative ones too) *)
  List.length (p_gexp p) = List.length (p_rexp p) /\
  (* exactly ONE row of coefficients (the format has three columns; write_matrix has three point places), as long as the
     other two columns *)
  List.length (p_coef p) = 1 /\
  Forall (fun c => List.length c = List.length (p_rexp p)) (p_coef p) /\
  (* every number is a string matching helpers.floating_re *)
  Forall floating (p_gexp p) /\ Forall (Forall floating) (p_coef p).

(* [[n]; [0]; [1]; ...; [n - 1]] : helpers.potential_am_list(n), one momentum per potential *)
Definition canon_ams (n : nat) : list (list Z) := map (fun a => [Z.of_nat a]) (potential_am_list n).

Definition g94_ecp_el_ok (zp : Z * gecp) : Prop :=
  (* an atomic number of the table of lut.py *)
  (1 <= fst zp <= 120)%Z /\
  (* 'ecp_electrons' is printed with str() and read with \d+ : not negative (0 is fine) *)
  (0 <= fst (snd zp))%Z /\
  (* at least one potential, and no more than there are letters in lut._amchar_map_hij *)
  snd (snd zp) <> [] /\ List.length (snd (snd zp)) <= 26 /\
  (* ONE momentum per potential; the momenta are 0 .. L, each exactly once, where L + 1 is the number of potentials; they
     come in the order [L, 0, 1, ..., L - 1] (the order sort_basis, which the writer calls first, establishes; the writer
     sorts once more: see g94_ecp_order_stmt for any other order).  The reader does not look at the title lines: it takes
     L from the `-ECP` line and assigns potential_am_list(L) to the blocks in the order in which they come. *)
  map p_am (snd (snd zp)) = canon_ams (List.length (snd (snd zp)) - 1) /\
  Forall g94_pot_ok (snd (snd zp)).

Definition g94_ecp_ok (ecps : list (Z * gecp)) : Prop :=
  (* dictionary keys: pairwise distinct *)
  NoDup (map fst ecps) /\ Forall g94_ecp_el_ok ecps.
(* no condition `ecps <> []`: nothing is written for no element, and the reader accepts an empty file *)

(* ---------- what comes back ---------- *)
(* the reader always says 'scalar_ecp'; numbers as in g94_expected_shell (MatrixDefs.norm true = replace_d o d_convert: the
   exponent markers e / E / D come back as E, d as e, nothing else changes); r exponents and momenta unchanged *)
Definition g94_expected_pot (p : gpot) : gpot :=
  mkGpot "scalar_ecp" (p_am p) (p_rexp p) (map (MatrixDefs.norm true) (p_gexp p)) (map (map (MatrixDefs.norm true)) (p_coef p)).
Definition g94_expected_ecp (e : gecp) : gecp := (fst e, map g94_expected_pot (snd e)).

(* the ECP part alone: one dictionary entry per element, without 'electron_shells' *)
Definition g94_ecp_expected (ecps : list (Z * gecp)) : list (Z * gel) :=
  map (fun zp => (fst zp, (None, Some (g94_expected_ecp (snd zp))))) ecps.

(* the whole file: the elements that have electron shells come first (the writer prints all electron blocks first), in
   their order, each with its ECP if it has one; then the elements that have an ECP only, in their order *)
Definition has_key {V} (z : Z) (l : list (Z * V)) : bool := existsb (Z.eqb z) (map fst l).
Definition g94_all_expected (els : list (Z * list sshell)) (ecps : list (Z * gecp)) : list (Z * gel) :=
  map (fun zs => (fst zs, (Some (map g94_expected_shell (snd zs)), option_map g94_expected_ecp (assocZ (fst zs) ecps)))) els ++
  map (fun zp => (fst zp, (None, Some (g94_expected_ecp (snd zp))))) (filter (fun zp => negb (has_key (fst zp) els)) ecps).

(* ---------- statements ---------- *)
(* the writer does not fail on well-formed input *)
Definition g94_ecp_write_total_stmt : Prop :=
  forall ecps, g94_ecp_ok ecps -> exists t, g94_write_ecp ecps = inr t.

(* reading back the ECP part gives exactly the same elements, in order, with the same potentials, in order *)
Definition g94_ecp_roundtrip_stmt : Prop :=
  forall ecps, g94_ecp_ok ecps -> g94_roundtrip_ecp ecps = inr (g94_ecp_expected ecps).

(* the whole file: electron part under g94_ok, ECP part under g94_ecp_ok, no condition relating the two lists (an element
   may have shells only, an ECP only, or both) *)
Definition g94_all_roundtrip_stmt : Prop :=
  forall els ecps, g94_ok els -> g94_ecp_ok ecps -> g94_roundtrip_all els ecps = inr (g94_all_expected els ecps).

(* the order of the potentials in the input does not matter to the writer as long as its own ordering
   (sorted by momentum, last to the front) has the momenta [L, 0, ..., L - 1]: what comes back is that ordering *)
Definition g94_ecp_order_stmt : Prop :=
  forall ecps,
    g94_ecp_ok (map (fun zp => (fst zp, (fst (snd zp), g94_ecp_order (snd (snd zp))))) ecps) ->
    g94_roundtrip_ecp ecps =
      inr (g94_ecp_expected (map (fun zp => (fst zp, (fst (snd zp), g94_ecp_order (snd (snd zp))))) ecps)).
(* and the order required by g94_ecp_ok is a fixed point of the writer's ordering *)
Definition g94_ecp_order_canon_stmt : Prop :=
  forall pots, pots <> [] -> map p_am pots = canon_ams (List.length pots - 1) -> g94_ecp_order pots = pots.

(* C04 direction: every gaussian exponent and every coefficient, with e/E replaced by D (Model.Matrix.d_convert), and the
   decimal form of every r exponent and of every electron count is a white-space delimited token of some line *)
Definition ecp_number_of (ecps : list (Z * gecp)) (x : string) : Prop :=
  exists zp p, In zp ecps /\ In p (snd (snd zp)) /\ (In x (p_gexp p) \/ exists c, In c (p_coef p) /\ In x c).
Definition ecp_int_of (ecps : list (Z * gecp)) (n : Z) : Prop :=
  exists zp, In zp ecps /\ (n = fst (snd zp) \/ exists p, In p (snd (snd zp)) /\ In n (p_rexp p)).
Definition g94_ecp_no_number_lost_stmt : Prop :=
  forall ecps t, g94_ecp_ok ecps -> g94_write_ecp ecps = inr t ->
    (forall x, ecp_number_of ecps x -> exists line, In line (splitlines t) /\ In (d_convert x) (tokens_acc line "")) /\
    (forall n, ecp_int_of ecps n -> exists line, In line (splitlines t) /\ In (Z_to_string n) (tokens_acc line "")).

(* ---------- which conditions of g94_ecp_ok cannot be dropped ---------- *)
(* a potential with one term *)
Definition pot1 (a : Z) : gpot := mkGpot "scalar_ecp" [a] [2%Z] ["1.0"] [["0.5"]].
Definition ecp1 (pots : list gpot) : list (Z * gecp) := [(11%Z, (10%Z, pots))].

Definition g94_ecp_roundtrip_empty_stmt : Prop := g94_roundtrip_ecp [] = inr [] /\ g94_roundtrip_all [] [] = inr [].

(* THE MOMENTA.  Known finding of the testing side: "the gaussian94 text of an ECP with non-contiguous momenta cannot be
   read back (RuntimeError)".  In the model: momenta {0, 2, 3} (valid for validator._validate_ecp_potentials: one momentum
   per potential, no duplicates) are written with the header `NA-ECP     3     10` and three blocks; the reader wants
   potential_am_list(3) = four blocks: RuntimeError.  Likewise {1} alone. *)
Definition g94_ecp_noncontiguous_stmt : Prop :=
  g94_write_ecp (ecp1 [pot1 3; pot1 0; pot1 2]) =
    inr (String.concat nl1 [""; "NA     0"; "NA-ECP     3     10";
                            "f potential"; "  1"; "2      1.0                    0.5";
                            "s-f potential"; "  1"; "2      1.0                    0.5";
                            "d-f potential"; "  1"; "2      1.0                    0.5"; ""]) /\
  g94_roundtrip_ecp (ecp1 [pot1 3; pot1 0; pot1 2]) = inl ERuntime /\
  g94_roundtrip_ecp (ecp1 [pot1 1]) = inl ERuntime.

(* a duplicated momentum that makes up for a missing one (refused by the validator) is NOT an error in the pair: {2, 2, 1}
   comes back as {2, 0, 1} - the title lines `d potential`, `p-d potential`, `d potential` are not read *)
Definition g94_ecp_duplicate_stmt : Prop :=
  g94_roundtrip_ecp (ecp1 [pot1 2; pot1 2; pot1 1]) =
    inr [(11%Z, (None, Some (10%Z, [pot1 2; pot1 0; pot1 1])))].

(* a fused momentum (refused by the validator): title `sp-d potential`, comes back as the momentum its place stands for *)
Definition g94_ecp_fused_stmt : Prop :=
  g94_roundtrip_ecp (ecp1 [pot1 2; mkGpot "scalar_ecp" [0%Z; 1%Z] [2%Z] ["1.0"] [["0.5"]]; pot1 1]) =
    inr [(11%Z, (None, Some (10%Z, [pot1 2; pot1 0; pot1 1])))].

(* the momenta in another order: same text as for the order [2, 0, 1], which is what comes back *)
Definition g94_ecp_unsorted_stmt : Prop :=
  g94_write_ecp (ecp1 [pot1 0; pot1 1; pot1 2]) = g94_write_ecp (ecp1 [pot1 2; pot1 0; pot1 1]) /\
  g94_roundtrip_ecp (ecp1 [pot1 0; pot1 1; pot1 2]) = inr [(11%Z, (None, Some (10%Z, [pot1 2; pot1 0; pot1 1])))].

(* `length pots <= 26`: momentum 25 has a letter (e), 26 has none (IndexError in amint_to_char); no potential at all is a
   ValueError of max() in this part of the writer (sort_basis, called before, raises IndexError already) *)
Definition g94_ecp_am_bound_stmt : Prop :=
  g94_roundtrip_ecp (ecp1 (pot1 25 :: map (fun a => pot1 (Z.of_nat a)) (seq 0 25))) =
    inr [(11%Z, (None, Some (10%Z, pot1 25 :: map (fun a => pot1 (Z.of_nat a)) (seq 0 25))))] /\
  g94_write_ecp (ecp1 (pot1 26 :: map (fun a => pot1 (Z.of_nat a)) (seq 0 26))) = inl EIndex /\
  g94_write_ecp (ecp1 [mkGpot "scalar_ecp" [] [2%Z] ["1.0"] [["0.5"]]]) = inl EIndex /\
  g94_write_ecp (ecp1 []) = inl EValue.

(* `length (p_coef p) = 1`: two rows of coefficients are valid for the schema and for the validator; the writer stops with
   an IndexError (point_places = [0, 9, 32] has no fourth entry).  No row: the lines have two numbers, RuntimeError *)
Definition g94_ecp_coef_rows_stmt : Prop :=
  g94_write_ecp (ecp1 [mkGpot "scalar_ecp" [0%Z] [2%Z] ["1.0"] [["0.5"]; ["0.25"]]]) = inl EIndex /\
  g94_roundtrip_ecp (ecp1 [mkGpot "scalar_ecp" [0%Z] [2%Z] ["1.0"] []]) = inl ERuntime.

(* the list lengths: the count line says len(r_exponents), zip() in write_matrix cuts every column to the shortest one.
   Fewer r exponents than numbers: the surplus numbers are LOST without an error; more: RuntimeError; none: RuntimeError *)
Definition g94_ecp_lengths_stmt : Prop :=
  g94_roundtrip_ecp (ecp1 [mkGpot "scalar_ecp" [0%Z] [2%Z] ["1.0"; "3.0"] [["0.5"; "0.25"]]]) =
    inr [(11%Z, (None, Some (10%Z, [pot1 0])))] /\
  g94_roundtrip_ecp (ecp1 [mkGpot "scalar_ecp" [0%Z] [2%Z; 2%Z] ["1.0"] [["0.5"]]]) = inl ERuntime /\
  g94_roundtrip_ecp (ecp1 [mkGpot "scalar_ecp" [0%Z] [2%Z; 2%Z] ["1.0"; "3.0"] [["0.5"]]]) = inl ERuntime /\
  g94_roundtrip_ecp (ecp1 [mkGpot "scalar_ecp" [0%Z] [] [] [[]]]) = inl ERuntime.

(* `Forall floating`: a number without a decimal point stops the writer (ValueError in _find_point), one with a point that
   is not a floating point literal is printed and refused by the reader *)
Definition g94_ecp_floating_stmt : Prop :=
  g94_write_ecp (ecp1 [mkGpot "scalar_ecp" [0%Z] [2%Z] ["10"] [["0.5"]]]) = inl EValue /\
  g94_write_ecp (ecp1 [mkGpot "scalar_ecp" [0%Z] [2%Z] ["1.0"] [["5"]]]) = inl EValue /\
  g94_roundtrip_ecp (ecp1 [mkGpot "scalar_ecp" [0%Z] [2%Z] ["1.0x"] [["0.5"]]]) = inl ERuntime.

(* r exponents: any integer survives, a negative one too; exponent markers are normalised, everything else is kept *)
Definition g94_ecp_numbers_stmt : Prop :=
  g94_roundtrip_ecp (ecp1 [mkGpot "scalar_ecp" [0%Z] [(-1)%Z; 0%Z; 12%Z] ["1.0e1"; ".5D-3"; "+7.d+0"] [["-0.5E+00"; "0."; "-.0"]]]) =
    inr [(11%Z, (None, Some (10%Z,
          [mkGpot "scalar_ecp" [0%Z] [(-1)%Z; 0%Z; 12%Z] ["1.0E1"; ".5E-3"; "+7.e+0"] [["-0.5E+00"; "0."; "-.0"]]])))].

(* `0 <= ecp_electrons`: -3 is printed as `NA-ECP     0     -3`, which ecp_am_nelec_re does not match; 0 (refused by the
   schema, minimum 1) survives *)
Definition g94_ecp_electrons_stmt : Prop :=
  g94_roundtrip_ecp [(11%Z, ((-3)%Z, [pot1 0]))] = inl ERuntime /\
  g94_roundtrip_ecp [(11%Z, (0%Z, [pot1 0]))] = inr [(11%Z, (None, Some (0%Z, [pot1 0])))].

(* the elements: no symbol for 0 and 121 (KeyError); the same element twice (cannot happen for a dictionary): the second
   ECP section is refused by create_element_data *)
Definition g94_ecp_elements_stmt : Prop :=
  g94_write_ecp [(0%Z, (10%Z, [pot1 0]))] = inl EKey /\
  g94_write_ecp [(121%Z, (10%Z, [pot1 0]))] = inl EKey /\
  g94_roundtrip_ecp [(11%Z, (10%Z, [pot1 0])); (11%Z, (10%Z, [pot1 0]))] = inl ERuntime.

(* the type does NOT survive: 'spinorbit_ecp' (valid for the schema) comes back as 'scalar_ecp' (not a condition of
   g94_ecp_ok: g94_expected_pot says so) *)
Definition g94_ecp_type_stmt : Prop :=
  g94_roundtrip_ecp (ecp1 [mkGpot "spinorbit_ecp" [0%Z] [2%Z] ["1.0"] [["0.5"]]]) = inr [(11%Z, (None, Some (10%Z, [pot1 0])))].

(* the whole file: an element with shells only (H), one with both (Na), one with an ECP only (K), ECPs given in the order
   K, Na: the entries come back in the order H, Na, K *)
Definition g94_all_mixed_stmt : Prop :=
  g94_write_all [(1%Z, [g94_h]); (11%Z, [g94_h])] [(19%Z, (18%Z, [pot1 0])); (11%Z, (10%Z, [pot1 0]))] =
    inr (String.concat nl1 ["H     0"; "S    1   1.00"; "      1.0                    1.0"; "****";
                            "Na     0"; "S    1   1.00"; "      1.0                    1.0"; "****";
                            "";
                            "K     0"; "K-ECP     0     18"; "s potential"; "  1"; "2      1.0                    0.5";
                            "NA     0"; "NA-ECP     0     10"; "s potential"; "  1"; "2      1.0                    0.5"; ""]) /\
  g94_roundtrip_all [(1%Z, [g94_h]); (11%Z, [g94_h])] [(19%Z, (18%Z, [pot1 0])); (11%Z, (10%Z, [pot1 0]))] =
    inr [(1%Z, (Some [g94_h], None)); (11%Z, (Some [g94_h], Some (10%Z, [pot1 0]))); (19%Z, (None, Some (18%Z, [pot1 0])))].

(* hand-written files: what makes a section an ECP section is its FOURTH line being an integer.  An electron section whose
   fourth line is an integer is taken for an ECP; the element line of an ECP section may lack the ` 0`; a leading dash is
   not removed there (it is for electron sections); title lines are free text, even an integer *)
Definition g94_ecp_handwritten_stmt : Prop :=
  g94_read_all ["na"; "x 0 10"; "whatever"; "+1"; "+2 1. -.5d0"] =
    inr [(11%Z, (None, Some (10%Z, [mkGpot "scalar_ecp" [0%Z] [2%Z] ["1."] [["-.5e0"]]])))] /\
  g94_read_all ["NA 0"; "NA-ECP 0 10"; "3"; "1"; "2 1.0 0.5"] = inr [(11%Z, (None, Some (10%Z, [pot1 0])))] /\
  g94_read_all ["-NA 0"; "NA-ECP 0 10"; "s potential"; "1"; "2 1.0 0.5"] = inl EKey /\
  g94_read_all ["H 0"; "S 1 1.0"; "1.0 1.0"; "5"; "****"] = inl ERuntime /\
  g94_read_all ["NA 0"; "NA-ECP 0 10"; "s potential"; "2"; "2 1.0 0.5"] = inl ERuntime /\
  g94_read_all ["NA 0"; "NA-ECP 0 10"; "s potential"; "1"; "2"; "2 1.0 0.5"] = inl EIndex.

(* ---------- a concrete instance: LANL2DZ for Na as write_g94 sees it ---------- *)
Definition exNa_els : list (Z * list sshell) :=
  [(11%Z, [mkShell "gto" "valence" [0%Z] ["0.4972000"; "0.0560000"] [["-0.2753574"; "1.0989969"]];
           mkShell "gto" "valence" [0%Z] ["0.0221000"] [["1.0000000"]];
           mkShell "gto" "valence" [1%Z] ["0.6697000"; "0.0636000"] [["-0.0683845"; "1.0140550"]];
           mkShell "gto" "valence" [1%Z] ["0.0204000"] [["1.0000000"]]])].
Definition exNa_ecps : list (Z * gecp) :=
  [(11%Z, (10%Z,
     [mkGpot "scalar_ecp" [2%Z] [1%Z; 2%Z; 2%Z; 2%Z; 2%Z]
             ["175.5502590"; "35.0516791"; "7.9060270"; "2.3365719"; "0.7799867"]
             [["-10.0000000"; "-47.4902024"; "-17.2283007"; "-6.0637782"; "-0.7299393"]];
      mkGpot "scalar_ecp" [0%Z] [0%Z; 1%Z; 2%Z; 2%Z; 2%Z]
             ["243.3605846"; "41.5764759"; "13.2649167"; "3.6797165"; "0.9764209"]
             [["3.0000000"; "36.2847626"; "72.9304880"; "23.8401151"; "6.0123861"]];
      mkGpot "scalar_ecp" [1%Z] [0%Z; 1%Z; 2%Z; 2%Z; 2%Z; 2%Z]
             ["1257.2650682"; "189.6248810"; "54.5247759"; "13.7449955"; "3.6813579"; "0.9461106"]
             [["5.0000000"; "117.4495683"; "423.3986704"; "109.3247297"; "31.3701656"; "7.1241813"]]]))].
(* basis_set_exchange.get_basis('lanl2dz', elements=[11], fmt='gaussian94', header=False), byte for byte *)
Definition exNa_text : string :=
  String.concat nl1
   ["Na     0";
    "S    2   1.00";
    "      0.4972000             -0.2753574";
    "      0.0560000              1.0989969";
    "S    1   1.00";
    "      0.0221000              1.0000000";
    "P    2   1.00";
    "      0.6697000             -0.0683845";
    "      0.0636000              1.0140550";
    "P    1   1.00";
    "      0.0204000              1.0000000";
    "****";
    "";
    "NA     0";
    "NA-ECP     2     10";
    "d potential";
    "  5";
    "1    175.5502590            -10.0000000";
    "2     35.0516791            -47.4902024";
    "2      7.9060270            -17.2283007";
    "2      2.3365719             -6.0637782";
    "2      0.7799867             -0.7299393";
    "s-d potential";
    "  5";
    "0    243.3605846              3.0000000";
    "1     41.5764759             36.2847626";
    "2     13.2649167             72.9304880";
    "2      3.6797165             23.8401151";
    "2      0.9764209              6.0123861";
    "p-d potential";
    "  6";
    "0   1257.2650682              5.0000000";
    "1    189.6248810            117.4495683";
    "2     54.5247759            423.3986704";
    "2     13.7449955            109.3247297";
    "2      3.6813579             31.3701656";
    "2      0.9461106              7.1241813";
    ""].

Definition g94_ecp_example_stmt : Prop :=
  g94_ok exNa_els /\ g94_ecp_ok exNa_ecps /\
  g94_write_all exNa_els exNa_ecps = inr exNa_text /\
  g94_roundtrip_all exNa_els exNa_ecps = inr (g94_all_expected exNa_els exNa_ecps) /\
  (* nothing changes in the ECP (no exponent markers in these numbers); the shells lose their region *)
  g94_all_expected exNa_els exNa_ecps =
    [(11%Z, (Some (map (fun s => mkShell (ftype s) "" (am s) (exps s) (coefs s)) (snd (hd (0%Z, []) exNa_els))),
             Some (snd (hd (0%Z, (0%Z, [])) exNa_ecps))))].
