(* Proofs of the statements of Proofs/G94EcpDefs.v: the ECP blocks written by write_g94 are read back by read_g94 exactly
   (up to the exponent marker and the ecp_type, see g94_expected_pot), alone and together with the electron blocks. *)
From BSE Require Import Model.Val Model.Text Model.Num Model.Basis Model.Manip Model.Matrix Gen.GenLut Model.Lut
                        Model.Elements Model.Sort Model.Nwchem Model.G94 Model.G94Ecp Proofs.MatrixDefs Proofs.NwchemDefs
                        Proofs.G94Defs Proofs.G94EcpDefs Proofs.C20Finite.
From BSE Require Proofs.ElementsSpec.
From Coq Require Import NArith Nnat Znat Permutation.
From BSE Require Import Proofs.HeaderSpec Proofs.PruneFS Proofs.MatrixSpec Proofs.NwchemSpec Proofs.G94Spec.

Notation Zs := Z_to_string.

(* ================================================================== *)
(* 1. finite facts about the tables of lut.py                          *)
(* ================================================================== *)
(* the symbol the ECP part prints: lut.element_sym_from_Z(z).upper() *)
Definition usym (z : Z) : string := match element_sym_from_Z z false with inr s => upper s | inl _ => "" end.
Definition usym_check (z : Z) : bool :=
  match element_sym_from_Z z false with
  | inr s => negb (is_empty (upper s)) && sall is_alpha (upper s) && Nat.leb (String.length (upper s)) 3 &&
             res_eqb Z.eqb (element_Z_from_sym (upper s)) z
  | inl _ => false
  end.
Lemma usym_sweep : forallb usym_check (zrange 1 120) = true.
Proof. vm_compute. reflexivity. Qed.

Lemma usym_facts : forall z, (1 <= z <= 120)%Z ->
  element_sym_from_Z z false = inr (match element_sym_from_Z z false with inr s => s | inl _ => "" end) /\
  usym z <> "" /\ sall is_alpha (usym z) = true /\ String.length (usym z) <= 3 /\ element_Z_from_sym (usym z) = inr z.
Proof.
  intros z Hz. assert (Hin : In z (zrange 1 120)) by (apply zrange_In; lia).
  pose proof (proj1 (forallb_forall _ _) usym_sweep z Hin) as H. unfold usym_check in H. unfold usym.
  destruct (element_sym_from_Z z false) as [e|s]; [discriminate|].
  rewrite !andb_true_iff in H. destruct H as [[[H1 H2] H3] H4].
  split; [reflexivity|]. split; [intros E; rewrite E in H1; discriminate H1|]. split; [exact H2|].
  split; [now apply Nat.leb_le | now apply res_eqb_Z].
Qed.

(* the title line of the potential with momentum a when the highest momentum is L *)
Definition amch1 (a : Z) : string := amch94 [a].
Definition title94 (a L : Z) : string :=
  if Z.eqb a L then amch1 a +++ " potential" else amch1 a +++ "-" +++ amch1 L +++ " potential".
Definition title_check (a L : Z) : bool :=
  let t := title94 a L in
  res_eqb String.eqb (amint_to_char [a] true false) (amch1 a) &&
  String.eqb (strip_ws t) t && negb (is_empty t) && negb (first_in "!" t) && negb (is_element_line t) &&
  negb (is_integer t) && sall nobd t.
Lemma title_sweep : forallb (fun a => forallb (title_check a) (zrange 0 26)) (zrange 0 26) = true.
Proof. vm_compute. reflexivity. Qed.

Lemma title_facts : forall a L, (0 <= a < 26)%Z -> (0 <= L < 26)%Z ->
  amint_to_char [a] true false = inr (amch1 a) /\
  strip_ws (title94 a L) = title94 a L /\ title94 a L <> "" /\ first_in "!" (title94 a L) = false /\
  is_element_line (title94 a L) = false /\ is_integer (title94 a L) = false /\ good_line (title94 a L).
Proof.
  intros a L Ha HL.
  assert (Hina : In a (zrange 0 26)) by (apply zrange_In; lia).
  assert (HinL : In L (zrange 0 26)) by (apply zrange_In; lia).
  pose proof (proj1 (forallb_forall _ _) title_sweep a Hina) as H1. cbv beta in H1.
  pose proof (proj1 (forallb_forall _ _) H1 L HinL) as H. unfold title_check in H. cbv zeta in H.
  rewrite !andb_true_iff in H. destruct H as [[[[[[A B] C] D] E] F] G].
  split; [now apply res_eqb_str|]. split; [now apply String.eqb_eq|].
  split; [intros X; rewrite X in C; discriminate C|].
  split; [now apply negb_true_iff|]. split; [now apply negb_true_iff|]. split; [now apply negb_true_iff | exact G].
Qed.

(* ================================================================== *)
(* 2. str(int) and int(str)                                            *)
(* ================================================================== *)
Lemma Zs_shape : forall z, Zs z = (if (z <? 0)%Z then "-" else "") +++ nat_str (Z.abs_nat z).
Proof.
  intros [|p|p]; unfold Z_to_string, nat_str; cbn [Z.ltb Z.compare String.append Z.abs_nat].
  - reflexivity.
  - now rewrite positive_nat_N.
  - now rewrite positive_nat_N.
Qed.

Lemma digits_head : forall n, exists d ds, nat_str n = String d ds /\ is_digit d = true /\ sall is_digit ds = true.
Proof.
  intros n. pose proof (nat_str_digits n) as H. pose proof (nat_str_ne n) as Hne.
  destruct (nat_str n) as [|d ds]; [congruence|]. cbn [sall] in H. apply andb_true_iff in H. destruct H as [H1 H2].
  exists d, ds. repeat split; assumption.
Qed.

Lemma skip_digits_all : forall s, sall is_digit s = true -> skip_digits s = "".
Proof. induction s as [|c s IH]; intros H; [reflexivity|]. cbn [sall] in H. apply andb_true_iff in H. destruct H as [Hc Hs].
  cbn [skip_digits]. rewrite Hc. apply IH, Hs. Qed.

Lemma digit_not_sign : forall c, is_digit c = true -> (Ascii.eqb c "-" || Ascii.eqb c "+") = false.
Proof. intros c H. all_chars c; try reflexivity; discriminate H. Qed.

Lemma is_integer_Zs : forall z, is_integer (Zs z) = true.
Proof.
  intros z. rewrite Zs_shape. destruct (digits_head (Z.abs_nat z)) as [d [ds [E [Hd Hds]]]]. rewrite E.
  unfold is_integer. destruct (z <? 0)%Z; cbn [String.append skip_sign Ascii.eqb Bool.eqb orb].
  - rewrite Hd, (skip_digits_all _ Hds). reflexivity.
  - rewrite (digit_not_sign d Hd), Hd, (skip_digits_all _ Hds). reflexivity.
Qed.

(* the conversion of Model.Matrix.parse_ecp_table, and int_of_str *)
Definition ecp_int (s : string) : Z :=
  match skip_sign s, s with
  | d, String "-" _ => (- digits_val d 0)%Z
  | d, _ => digits_val d 0
  end.

Lemma digit_first_plain : forall d ds, is_digit d = true ->
  ecp_int (String d ds) = digits_val (String d ds) 0 /\ int_of_str (String d ds) = digits_val (String d ds) 0.
Proof. intros d ds H. all_chars d; try discriminate H; split; reflexivity. Qed.

Lemma Zs_val : forall z, ecp_int (Zs z) = z /\ int_of_str (Zs z) = z.
Proof.
  intros z. rewrite Zs_shape. pose proof (nat_str_val (Z.abs_nat z)) as Hv.
  destruct (digits_head (Z.abs_nat z)) as [d [ds [E [Hd Hds]]]].
  destruct (z <? 0)%Z eqn:Ez; cbn [String.append].
  - unfold ecp_int, int_of_str. cbn [skip_sign Ascii.eqb Bool.eqb orb]. rewrite Hv. split; lia.
  - rewrite E in *. destruct (digit_first_plain d ds Hd) as [H1 H2]. rewrite H1, H2, Hv. split; lia.
Qed.

Lemma Zs_nonneg : forall z, (0 <= z)%Z -> Zs z = nat_str (Z.to_nat z).
Proof.
  intros z Hz. rewrite Zs_shape. assert (E : (z <? 0)%Z = false) by lia. rewrite E. cbn [String.append].
  f_equal. lia.
Qed.

(* no exponent marker in it: the reader's replace_d and the writer's d_convert leave it alone *)
Definition plainc (c : ascii) : bool := is_digit c || Ascii.eqb c "-".
Lemma plain_norm_c : forall c, plainc c = true -> dconv_c c = c /\ repl_c c = c.
Proof. intros c H. all_chars c; try discriminate H; split; reflexivity. Qed.
Lemma smap_id_on : forall (f : ascii -> ascii) (p : ascii -> bool) s, (forall c, p c = true -> f c = c) -> sall p s = true -> smap f s = s.
Proof.
  intros f p; induction s as [|c s IH]; intros Hf H; [reflexivity|]. cbn [sall] in H. apply andb_true_iff in H.
  destruct H as [Hc Hs]. cbn [smap]. now rewrite (Hf c Hc), (IH Hf Hs).
Qed.
Lemma Zs_plain : forall z, sall plainc (Zs z) = true.
Proof.
  intros z. rewrite Zs_shape, sall_app.
  assert (H : sall plainc (nat_str (Z.abs_nat z)) = true).
  { apply (sall_impl is_digit); [|apply nat_str_digits]. intros c Hc. unfold plainc. now rewrite Hc. }
  rewrite H. destruct (z <? 0)%Z; reflexivity.
Qed.
Lemma Zs_dconv : forall z, d_convert (Zs z) = Zs z.
Proof. intros z. unfold d_convert. fold dconv_c. apply (smap_id_on dconv_c plainc); [intros c H; apply plain_norm_c, H | apply Zs_plain]. Qed.
Lemma Zs_norm : forall z, MatrixDefs.norm true (Zs z) = Zs z.
Proof.
  intros z. unfold MatrixDefs.norm. rewrite Zs_dconv. unfold replace_d. fold repl_c.
  apply (smap_id_on repl_c plainc); [intros c H; apply plain_norm_c, H | apply Zs_plain].
Qed.

Lemma Zs_tok : forall z, tok_ok (Zs z).
Proof. intros z. exact (cell_ok_tok (CInt z) I). Qed.

(* a line that begins with str(int): not an element line, not a comment *)
Lemma Zs_line_head : forall z rest,
  is_element_line (Zs z +++ rest) = false /\ first_in "!" (Zs z +++ rest) = false /\ Zs z +++ rest <> "".
Proof.
  intros z rest. rewrite Zs_shape. destruct (digits_head (Z.abs_nat z)) as [d [ds [E [Hd _]]]]. rewrite E.
  destruct (z <? 0)%Z; cbn [String.append].
  - split; [|split; [reflexivity | discriminate]]. all_chars d; try discriminate Hd; reflexivity.
  - split; [|split; [|discriminate]]; all_chars d; try discriminate Hd; reflexivity.
Qed.

(* a line that matches integer_only_re is a single token *)
Lemma skip_digits_nil_all : forall s, skip_digits s = "" -> sall is_digit s = true.
Proof.
  induction s as [|c s IH]; intros H; [reflexivity|]. cbn [skip_digits] in H. cbn [sall].
  destruct (is_digit c); [cbn [andb]; apply IH, H | discriminate H].
Qed.
Lemma sign_not_space : forall c, (Ascii.eqb c "-" || Ascii.eqb c "+") = true -> is_space c = false.
Proof. intros c H. all_chars c; try reflexivity; discriminate H. Qed.
Lemma integer_one_token : forall s, is_integer s = true -> tokens_acc s "" = [s].
Proof.
  intros s H. assert (Ht : tok_ok s).
  { unfold is_integer in H. destruct s as [|c t]; [discriminate H|]. split; [discriminate|].
    cbn [skip_sign] in H. cbn [sany]. destruct (Ascii.eqb c "-" || Ascii.eqb c "+") eqn:Es.
    - rewrite (sign_not_space c Es). cbn [orb]. destruct t as [|c2 t2]; [discriminate H|].
      apply andb_true_iff in H. destruct H as [H1 H2].
      destruct (skip_digits t2) eqn:E2; [|discriminate H2]. cbn [sany]. rewrite (digit_not_space c2 H1). cbn [orb].
      apply (sall_sany_false is_digit); [exact digit_not_space | now apply skip_digits_nil_all].
    - apply andb_true_iff in H. destruct H as [H1 H2]. rewrite (digit_not_space c H1). cbn [orb].
      destruct (skip_digits t) eqn:E2; [|discriminate H2].
      apply (sall_sany_false is_digit); [exact digit_not_space | now apply skip_digits_nil_all]. }
  exact (tokens_sp_word 0 s Ht).
Qed.
Lemma three_tokens_not_integer : forall s a b c, tokens_acc s "" = [a; b; c] -> is_integer s = false.
Proof.
  intros s a b c H. destruct (is_integer s) eqn:E; [|reflexivity]. rewrite (integer_one_token s E) in H. discriminate H.
Qed.

(* ================================================================== *)
(* 3. the rows of a potential                                          *)
(* ================================================================== *)
Fixpoint zip3 (R : list Z) (G C : list string) : list (Z * string * string) :=
  match R, G, C with
  | r :: R', g :: G', c :: C' => (r, g, c) :: zip3 R' G' C'
  | _, _, _ => []
  end.
Definition row_cells (t : Z * string * string) : list cell := [CInt (fst (fst t)); CStr (snd (fst t)); CStr (snd t)].
Definition erow (t : Z * string * string) : string :=
  match write_row (row_cells t) ecp_point_places true "" with inr l => l | inl _ => "" end.
Definition row_ok (t : Z * string * string) : Prop := floating (snd (fst t)) /\ floating (snd t).

Lemma transpose3 : forall R G C, List.length G = List.length R -> List.length C = List.length R ->
  transpose [map CInt R; map CStr G; map CStr C] = map row_cells (zip3 R G C).
Proof.
  intros R G C HG HC. cbn [transpose]. revert G C HG HC.
  induction R as [|r R IH]; intros [|g G] [|c C] HG HC; cbn in HG, HC; try discriminate; [reflexivity|].
  cbn [map zipcons zip3]. rewrite IH by lia. reflexivity.
Qed.

Lemma zip3_ok : forall R G C, Forall floating G -> Forall floating C -> Forall row_ok (zip3 R G C).
Proof.
  induction R as [|r R IH]; intros [|g G] [|c C] HG HC; cbn [zip3]; try constructor.
  - inversion HG; inversion HC; subst. split; assumption.
  - inversion HG; inversion HC; subst. apply IH; assumption.
Qed.

Lemma zip3_length : forall R G C, List.length G = List.length R -> List.length C = List.length R ->
  List.length (zip3 R G C) = List.length R.
Proof.
  induction R as [|r R IH]; intros [|g G] [|c C] HG HC; cbn in HG, HC; try discriminate; [reflexivity|].
  cbn [zip3 List.length]. rewrite IH by lia. reflexivity.
Qed.

Lemma zip3_proj : forall R G C, List.length G = List.length R -> List.length C = List.length R ->
  map (fun t => fst (fst t)) (zip3 R G C) = R /\ map (fun t => snd (fst t)) (zip3 R G C) = G /\ map snd (zip3 R G C) = C.
Proof.
  induction R as [|r R IH]; intros [|g G] [|c C] HG HC; cbn in HG, HC; try discriminate; [repeat split|].
  destruct (IH G C) as [A [B D]]; try lia. cbn [zip3 map fst snd]. rewrite A, B, D. repeat split.
Qed.

Lemma row_cells_ok : forall t, row_ok t -> Forall cell_ok (row_cells t) /\ Forall cell_ascii (row_cells t).
Proof.
  intros [[r g] c] [Hg Hc]. cbn [fst snd] in *. unfold row_cells. cbn [fst snd]. split.
  - repeat constructor; apply floating_is_cell; assumption.
  - repeat constructor; unfold cell_ascii; cbn [cell_str].
    + apply (sall_impl fchar); [exact fchar_ascii | apply Z_to_string_chars].
    + apply floating_ascii, Hg.
    + apply floating_ascii, Hc.
Qed.

Lemma erow_facts : forall t, row_ok t ->
  write_row (row_cells t) ecp_point_places true "" = inr (erow t) /\
  tokens_acc (erow t) "" = [Zs (fst (fst t)); snd (fst t); snd t] /\
  good_line (d_convert (erow t)).
Proof.
  intros t Ht. destruct (row_cells_ok t Ht) as [Hok Hasc].
  destruct (write_row_total (row_cells t) ecp_point_places true "" Hok) as [out Hout]; [cbn; lia|].
  assert (E : erow t = out) by (unfold erow; rewrite Hout; reflexivity). rewrite E.
  split; [exact Hout|]. split.
  - rewrite (write_row_tokens_gen _ _ _ _ _ Hok (fun _ => eq_refl) Hout). reflexivity.
  - unfold good_line, d_convert. fold dconv_c. rewrite sall_smap. apply (sall_impl nobd); [exact nobd_dconv|].
    apply (write_row_chars nobd eq_refl (row_cells t) ecp_point_places true "" out); [|reflexivity|exact Hout].
    rewrite Forall_forall in *. intros c Hc. apply cell_nobd; [apply Hok | apply Hasc]; exact Hc.
Qed.

(* the printed rows (with the D conversion) *)
Definition drow (t : Z * string * string) : string := d_convert (erow t).

Lemma tokens_dconv : forall line, tokens_acc (d_convert line) "" = map d_convert (tokens_acc line "").
Proof.
  intros line. unfold d_convert. fold dconv_c.
  change (tokens_acc (smap dconv_c line) "") with (tokens_acc (smap dconv_c line) (smap dconv_c "")).
  apply (tokens_smap dconv_c dconv_c_space).
Qed.

Lemma drow_tokens : forall t, row_ok t ->
  tokens_acc (drow t) "" = [Zs (fst (fst t)); d_convert (snd (fst t)); d_convert (snd t)].
Proof.
  intros t Ht. destruct (erow_facts t Ht) as [_ [Htok _]]. unfold drow. rewrite tokens_dconv, Htok. cbn [map].
  now rewrite Zs_dconv.
Qed.

(* the row after prune_lines: strip() *)
Definition srow (t : Z * string * string) : string := strip_ws (drow t).

Lemma srow_facts : forall t, row_ok t ->
  tokens_acc (srow t) "" = [Zs (fst (fst t)); d_convert (snd (fst t)); d_convert (snd t)] /\
  is_element_line (srow t) = false /\ first_in "!" (srow t) = false /\ srow t <> "" /\ is_integer (srow t) = false.
Proof.
  intros t Ht. pose proof (drow_tokens t Ht) as Htok.
  assert (Hs : tokens_acc (srow t) "" = [Zs (fst (fst t)); d_convert (snd (fst t)); d_convert (snd t)])
    by (unfold srow; rewrite tokens_strip; exact Htok).
  destruct (strip_tok_prefix _ _ _ Htok) as [rest Er]. fold (srow t) in Er.
  destruct (Zs_line_head (fst (fst t)) rest) as [H1 [H2 H3]]. rewrite <- Er in H1, H2, H3.
  split; [exact Hs|]. split; [exact H1|]. split; [exact H2|]. split; [exact H3|].
  exact (three_tokens_not_integer _ _ _ _ Hs).
Qed.

(* what the per-line function of parse_ecp_table makes of it *)
Definition eline (l : string) : res (string * string * string) :=
  match split_ws (replace_d (strip_ws l)) with
  | [a; b; c] => ok (a, b, c)
  | _ => fail ERuntime
  end.

Lemma eline_srow : forall t, row_ok t ->
  eline (srow t) = inr (Zs (fst (fst t)), MatrixDefs.norm true (snd (fst t)), MatrixDefs.norm true (snd t)).
Proof.
  intros t Ht. destruct (srow_facts t Ht) as [Htok _]. unfold eline, split_ws.
  unfold replace_d. fold repl_c.
  change (tokens_acc (smap repl_c (strip_ws (srow t))) "") with (tokens_acc (smap repl_c (strip_ws (srow t))) (smap repl_c "")).
  rewrite (tokens_smap repl_c repl_c_space), tokens_strip, Htok. cbn [map].
  assert (Hn : forall x, smap repl_c (d_convert x) = MatrixDefs.norm true x) by reflexivity.
  rewrite !Hn. pose proof (Zs_norm (fst (fst t))) as Hz. unfold MatrixDefs.norm in Hz. rewrite Zs_dconv in Hz.
  unfold replace_d in Hz. fold repl_c in Hz. rewrite Hz. reflexivity.
Qed.

Lemma parse_ecp_table_unfold : forall lines,
  parse_ecp_table lines =
  (do rows <- mapM eline lines;
   let r := map (fun x => fst (fst x)) rows in
   let g := map (fun x => snd (fst x)) rows in
   let c := map snd rows in
   if negb (forallb is_integer r) then fail ERuntime else
   if negb (forallb is_floating g) then fail ERuntime else
   if negb (forallb is_floating c) then fail ERuntime else
   ok (map ecp_int r, g, [c])).
Proof. reflexivity. Qed.

Lemma forallb_map_true : forall (A B : Type) (p : B -> bool) (f : A -> B) l, (forall x, In x l -> p (f x) = true) -> forallb p (map f l) = true.
Proof. intros A B p f l H. apply forallb_forall. intros y Hy. apply in_map_iff in Hy. destruct Hy as [x [<- Hx]]. apply H, Hx. Qed.

Lemma parse_table_rows : forall R G C, List.length G = List.length R -> List.length C = List.length R ->
  Forall floating G -> Forall floating C ->
  parse_ecp_table (map srow (zip3 R G C)) = inr (R, map (MatrixDefs.norm true) G, [map (MatrixDefs.norm true) C]).
Proof.
  intros R G C HG HC FG FC. rewrite parse_ecp_table_unfold.
  pose proof (zip3_ok R G C FG FC) as Hok.
  rewrite (mapM_map_ok2 _ _ _ eline srow
             (fun t => (Zs (fst (fst t)), MatrixDefs.norm true (snd (fst t)), MatrixDefs.norm true (snd t))) (zip3 R G C)).
  2:{ intros t Ht. apply eline_srow. rewrite Forall_forall in Hok. apply Hok, Ht. }
  unfold bind. cbv zeta. rewrite !map_map. cbn [fst snd].
  destruct (zip3_proj R G C HG HC) as [PR [PG PC]].
  assert (E1 : map (fun x => Zs (fst (fst x))) (zip3 R G C) = map Zs R) by (rewrite <- PR at 2; now rewrite map_map).
  assert (E2 : map (fun x => MatrixDefs.norm true (snd (fst x))) (zip3 R G C) = map (MatrixDefs.norm true) G)
    by (rewrite <- PG at 2; now rewrite map_map).
  assert (E3 : map (fun x => MatrixDefs.norm true (snd x)) (zip3 R G C) = map (MatrixDefs.norm true) C)
    by (rewrite <- PC at 2; now rewrite map_map).
  rewrite E1, E2, E3.
  rewrite (forallb_map_true _ _ is_integer Zs R) by (intros; apply is_integer_Zs). cbn [negb].
  rewrite (forallb_map_true _ _ is_floating (MatrixDefs.norm true) G).
  2:{ intros x Hx. rewrite is_floating_norm. rewrite Forall_forall in FG. apply FG, Hx. }
  rewrite (forallb_map_true _ _ is_floating (MatrixDefs.norm true) C).
  2:{ intros x Hx. rewrite is_floating_norm. rewrite Forall_forall in FC. apply FC, Hx. }
  cbn [negb].
  assert (E4 : map (fun x : Z * string * string => ecp_int (Zs (fst (fst x)))) (zip3 R G C) = R).
  { rewrite <- PR at 2. apply map_ext. intros x. apply Zs_val. }
  rewrite E4. reflexivity.
Qed.

(* ================================================================== *)
(* 4. the lines the ECP part of the writer prints                      *)
(* ================================================================== *)
Definition pcoef (p : gpot) : list string := hd [] (p_coef p).
Definition ptrip (p : gpot) : list (Z * string * string) := zip3 (p_rexp p) (p_gexp p) (pcoef p).
Definition prows (p : gpot) : list string := map drow (ptrip p).
Definition count_line (p : gpot) : string := "  " +++ nat_str (List.length (p_rexp p)).
Definition pam (p : gpot) : Z := hd 0%Z (p_am p).
Definition pot_lines94 (L : Z) (p : gpot) : list string := title94 (pam p) L :: count_line p :: prows p.
Definition pmat (p : gpot) : list (list cell) := map CInt (p_rexp p) :: map CStr (p_gexp p) :: map (map CStr) (p_coef p).

Lemma pot_ok_coef : forall p, g94_pot_ok p ->
  p_coef p = [pcoef p] /\ List.length (pcoef p) = List.length (p_rexp p) /\ Forall floating (pcoef p).
Proof.
  intros p [_ [_ [H1 [H2 [_ H3]]]]]. unfold pcoef. destruct (p_coef p) as [|c [|c2 t]]; cbn in H1; try discriminate.
  cbn [hd]. inversion H2; inversion H3; subst. repeat split; assumption.
Qed.

Lemma ptrip_ok : forall p, g94_pot_ok p -> Forall row_ok (ptrip p) /\ List.length (ptrip p) = List.length (p_rexp p).
Proof.
  intros p Hp. destruct (pot_ok_coef p Hp) as [_ [Hl Hf]]. destruct Hp as [_ [Hg [_ [_ [Fg _]]]]].
  split; [apply zip3_ok; assumption | apply zip3_length; assumption].
Qed.

Lemma mapM_find_point : forall col, Forall cell_ok col -> exists l, mapM find_point col = inr l.
Proof. intros col H. apply mapM_total. rewrite Forall_forall in *. intros c Hc. apply find_point_ok, H, Hc. Qed.

Lemma floats_cells_ok : forall l, Forall floating l -> Forall cell_ok (map CStr l).
Proof. intros l H. exact (proj1 (floats_cells l H)). Qed.

Lemma write_matrix_pot : forall p, g94_pot_ok p ->
  matrix_precheck (pmat p) ecp_point_places = inr tt /\
  write_matrix (pmat p) ecp_point_places true = inr (unlines (prows p)).
Proof.
  intros p Hp. destruct (pot_ok_coef p Hp) as [Ec [Hl Hf]]. destruct (ptrip_ok p Hp) as [Hrows _].
  destruct Hp as [_ [Hg [_ [_ [Fg _]]]]]. unfold pmat. rewrite Ec. cbn [map]. split.
  - cbn [matrix_precheck ecp_point_places].
    destruct (mapM_find_point (map CInt (p_rexp p))) as [l1 E1].
    { rewrite Forall_forall. intros c Hc. apply in_map_iff in Hc. destruct Hc as [z [<- _]]. exact I. }
    destruct (mapM_find_point _ (floats_cells_ok _ Fg)) as [l2 E2].
    destruct (mapM_find_point _ (floats_cells_ok _ Hf)) as [l3 E3].
    rewrite E1, E2, E3. reflexivity.
  - unfold write_matrix, transpose_cells. rewrite (transpose3 _ _ _ Hg Hl). fold (ptrip p).
    rewrite (mapM_map_ok2 _ _ _ (fun row => write_row row ecp_point_places true "") row_cells erow (ptrip p)).
    2:{ intros t Ht. rewrite Forall_forall in Hrows. apply (erow_facts t (Hrows t Ht)). }
    unfold bind, ok. f_equal. unfold d_convert at 1. rewrite smap_lines by reflexivity.
    unfold unlines, prows, drow. rewrite !map_map. reflexivity.
Qed.

Lemma write_pot_lines : forall L p, g94_pot_ok p -> p_am p = [pam p] -> (0 <= pam p < 26)%Z -> (0 <= L < 26)%Z ->
  g94_write_pot L (amch1 L) p = inr (unlines (pot_lines94 L p)).
Proof.
  intros L p Hp Ham Ha HL. destruct (write_matrix_pot p Hp) as [Hpre Hw].
  destruct (title_facts (pam p) L Ha HL) as [Eam _].
  unfold g94_write_pot, am_first. rewrite Ham. rewrite Eam. unfold bind at 1 2. unfold ok at 1.
  fold (pmat p). rewrite Hpre, Hw. unfold bind, ok. f_equal.
  unfold pot_lines94, count_line, title94. rewrite !unlines_cons.
  destruct (pam p =? L)%Z; rewrite !sapp_assoc; reflexivity.
Qed.

(* ---- the momenta ---- *)
Definition Lof (pots : list gpot) : Z := Z.of_nat (List.length pots - 1).

Lemma ams_of_list : forall pots l, map p_am pots = map (fun a => [Z.of_nat a]) l ->
  map pam pots = map Z.of_nat l /\ Forall (fun p => p_am p = [pam p]) pots.
Proof.
  induction pots as [|p pots IH]; intros [|a l] H; cbn [map] in H; try discriminate; [split; [reflexivity | constructor]|].
  inversion H as [[H1 H2]]. destruct (IH l H2) as [A B].
  assert (Ep : pam p = Z.of_nat a) by (unfold pam; rewrite H1; reflexivity).
  split; [cbn [map]; now rewrite A, Ep|]. constructor; [|exact B]. now rewrite Ep.
Qed.

Lemma canon_facts : forall pots, pots <> [] -> map p_am pots = canon_ams (List.length pots - 1) ->
  map pam pots = Lof pots :: map Z.of_nat (seq 0 (List.length pots - 1)) /\
  Forall (fun p => p_am p = [pam p] /\ (0 <= pam p <= Lof pots)%Z) pots.
Proof.
  intros pots Hne H. unfold canon_ams, potential_am_list in H. destruct (ams_of_list pots _ H) as [A B].
  split; [exact A|]. rewrite Forall_forall in *. intros p Hp. split; [apply B, Hp|].
  assert (Hin : In (pam p) (map pam pots)) by (apply in_map, Hp). rewrite A in Hin. unfold Lof.
  destruct Hin as [<-|Hin]; [lia|]. apply in_map_iff in Hin. destruct Hin as [a [<- Ha]]. apply in_seq in Ha. lia.
Qed.

Lemma fold_max_init : forall l init, Forall (fun x => (x <= init)%Z) l -> fold_left Z.max l init = init.
Proof.
  induction l as [|x l IH]; intros init H; [reflexivity|]. inversion H; subst. cbn [fold_left].
  rewrite Z.max_l by assumption. apply IH. assumption.
Qed.

Lemma zmax_canon : forall n, zmax (Z.of_nat n :: map Z.of_nat (seq 0 n)) = Z.of_nat n.
Proof.
  intros n. unfold zmax. cbn [hd fold_left]. rewrite Z.max_id. apply fold_max_init.
  rewrite Forall_forall. intros x Hx. apply in_map_iff in Hx. destruct Hx as [a [<- Ha]]. apply in_seq in Ha. lia.
Qed.

(* ---- the writer's ordering of the potentials ---- *)
Lemma zlist_leb_single : forall a b, zlist_leb [a] [b] = (a <=? b)%Z.
Proof.
  intros a b. cbn [zlist_leb]. destruct (a <? b)%Z eqn:E1; [symmetry; apply Z.leb_le; lia|].
  destruct (b <? a)%Z eqn:E2; [symmetry; apply Z.leb_gt; lia | symmetry; apply Z.leb_le; lia].
Qed.

Lemma sort_ascending : forall l s, map p_am l = map (fun a => [Z.of_nat a]) (seq s (List.length l)) -> sort_gpots l = l.
Proof.
  induction l as [|x t IH]; intros s H; [reflexivity|]. cbn [List.length seq map] in H. injection H as Hx Ht.
  cbn [sort_gpots]. rewrite (IH (S s) Ht). destruct t as [|q t']; [reflexivity|].
  cbn [List.length seq map] in Ht. injection Ht as Hq _. cbn [insert_gpot]. rewrite Hx, Hq, zlist_leb_single.
  match goal with |- context [(?a <=? ?b)%Z] => replace (a <=? b)%Z with true by (symmetry; apply Z.leb_le; lia) end.
  reflexivity.
Qed.

Lemma insert_highest : forall x n l s, p_am x = [Z.of_nat n] ->
  map p_am l = map (fun a => [Z.of_nat a]) (seq s (List.length l)) -> s + List.length l <= n -> insert_gpot x l = l ++ [x].
Proof.
  intros x n; induction l as [|q t IH]; intros s Hx H Hn; [reflexivity|].
  cbn [List.length seq map] in H. injection H as Hq Ht. cbn [List.length] in Hn.
  cbn [insert_gpot app]. rewrite Hx, Hq, zlist_leb_single.
  match goal with |- context [(?a <=? ?b)%Z] => replace (a <=? b)%Z with false by (symmetry; apply Z.leb_gt; lia) end.
  f_equal. apply (IH (S s) Hx Ht). lia.
Qed.

Lemma g94_ecp_order_canon : g94_ecp_order_canon_stmt.
Proof.
  intros pots Hne H. destruct pots as [|x rest]; [congruence|]. cbn [List.length] in H.
  replace (S (List.length rest) - 1) with (List.length rest) in H by lia.
  unfold canon_ams, potential_am_list in H. cbn [map] in H. injection H as Hx Hr.
  unfold g94_ecp_order. cbn [sort_gpots]. rewrite (sort_ascending rest 0 Hr).
  rewrite (insert_highest x (List.length rest) rest 0 Hx Hr) by lia.
  rewrite rev_app_distr. cbn [rev app]. now rewrite rev_involutive.
Qed.

(* ---- one element ---- *)
Definition ecp_hdr1 (z : Z) : string := usym z +++ "     0".
Definition ecp_hdr2 (z L n : Z) : string := usym z +++ "-ECP     " +++ Zs L +++ "     " +++ Zs n.
Definition ecp_el_lines (zp : Z * gecp) : list string :=
  ecp_hdr1 (fst zp) :: ecp_hdr2 (fst zp) (Lof (snd (snd zp))) (fst (snd zp)) ::
  flat_map (pot_lines94 (Lof (snd (snd zp)))) (snd (snd zp)).

Lemma el_ok_pots : forall zp, g94_ecp_el_ok zp ->
  (0 <= Lof (snd (snd zp)) < 26)%Z /\
  Forall (fun p => g94_pot_ok p /\ p_am p = [pam p] /\ (0 <= pam p <= Lof (snd (snd zp)))%Z) (snd (snd zp)).
Proof.
  intros [z [n pots]] [_ [_ [Hne [Hlen [Ham Hp]]]]]. cbn [fst snd] in *.
  destruct (canon_facts pots Hne Ham) as [_ B]. split; [unfold Lof; lia|].
  rewrite Forall_forall in *. intros p Hin. split; [apply Hp, Hin | apply B, Hin].
Qed.

Lemma write_ecp_element_lines : forall zp, g94_ecp_el_ok zp -> g94_write_ecp_element zp = inr (unlines (ecp_el_lines zp)).
Proof.
  intros zp H. destruct (el_ok_pots zp H) as [HL Hpots]. destruct zp as [z [n pots]].
  destruct H as [Hz [_ [Hne [_ [Ham _]]]]]. cbn [fst snd] in *.
  destruct (usym_facts z Hz) as [Es _]. destruct (canon_facts pots Hne Ham) as [A B].
  unfold g94_write_ecp_element. rewrite Es. unfold bind at 1.
  rewrite (mapM_map_ok _ _ am_first pam pots).
  2:{ intros p Hp. rewrite Forall_forall in B. destruct (B p Hp) as [E _]. unfold am_first. rewrite E. reflexivity. }
  unfold bind at 1. rewrite A. pose proof (zmax_canon (List.length pots - 1)) as Hm. fold (Lof pots) in Hm. rewrite Hm.
  destruct (title_facts (Lof pots) (Lof pots) HL HL) as [EL _]. rewrite EL. unfold bind at 1.
  rewrite (g94_ecp_order_canon pots Hne Ham).
  rewrite (mapM_map_ok _ _ (g94_write_pot (Lof pots) (amch1 (Lof pots))) (fun p => unlines (pot_lines94 (Lof pots) p)) pots).
  2:{ intros p Hp. rewrite Forall_forall in Hpots. destruct (Hpots p Hp) as [H1 [H2 H3]]. apply write_pot_lines; try assumption; lia. }
  unfold bind, ok. f_equal. unfold ecp_el_lines, ecp_hdr1, ecp_hdr2. cbn [fst snd].
  rewrite !unlines_cons, unlines_flat_map. unfold usym. rewrite Es. rewrite !sapp_assoc. reflexivity.
Qed.

(* ---- the whole ECP part, the whole file ---- *)
Definition ecp_all_lines (ecps : list (Z * gecp)) : list string :=
  match ecps with [] => [] | _ => "" :: flat_map ecp_el_lines ecps end.

Lemma write_ecp_lines : forall ecps, g94_ecp_ok ecps -> g94_write_ecp ecps = inr (unlines (ecp_all_lines ecps)).
Proof.
  intros ecps [_ H]. unfold g94_write_ecp, ecp_all_lines. destruct ecps as [|zp ecps]; [reflexivity|].
  rewrite (mapM_map_ok _ _ g94_write_ecp_element (fun zp => unlines (ecp_el_lines zp))).
  - unfold bind, ok. rewrite unlines_flat_map, unlines_cons. reflexivity.
  - intros x Hx. apply write_ecp_element_lines. rewrite Forall_forall in H. apply H, Hx.
Qed.

Lemma write_all_lines : forall els ecps, g94_ok els -> g94_ecp_ok ecps ->
  g94_write_all els ecps = inr (unlines (all_lines94 els ++ ecp_all_lines ecps)).
Proof.
  intros els ecps H1 H2. unfold g94_write_all. rewrite (write_electron_lines94 els H1), (write_ecp_lines ecps H2).
  unfold bind, ok. now rewrite unlines_app.
Qed.

Lemma Zs_good : forall z, good_line (Zs z).
Proof.
  intros z. apply (cell_nobd (CInt z) I). unfold cell_ascii. cbn [cell_str].
  apply (sall_impl fchar); [exact fchar_ascii | apply Z_to_string_chars].
Qed.

Lemma usym_good : forall z, (1 <= z <= 120)%Z -> good_line (usym z).
Proof. intros z Hz. destruct (usym_facts z Hz) as [_ [_ [Hs _]]]. exact (sall_impl is_alpha nobd _ alpha_nobd Hs). Qed.

Lemma ecp_el_lines_good : forall zp, g94_ecp_el_ok zp -> Forall good_line (ecp_el_lines zp).
Proof.
  intros zp H. destruct (el_ok_pots zp H) as [HL Hpots]. destruct H as [Hz _].
  unfold ecp_el_lines. constructor; [|constructor].
  - unfold ecp_hdr1, good_line. rewrite sall_app. unfold good_line in *. rewrite (usym_good _ Hz). reflexivity.
  - unfold ecp_hdr2, good_line. rewrite !sall_app. pose proof (usym_good _ Hz) as G1.
    pose proof (Zs_good (Lof (snd (snd zp)))) as G2. pose proof (Zs_good (fst (snd zp))) as G3. unfold good_line in *.
    rewrite G1, G2, G3. reflexivity.
  - rewrite Forall_forall in *. intros l Hl. apply in_flat_map in Hl. destruct Hl as [p [Hp Hl]].
    destruct (Hpots p Hp) as [Hok [_ Hr]]. destruct Hl as [<-|[<-|Hl]].
    + apply title_facts; lia.
    + unfold count_line, good_line. rewrite sall_app, (nat_str_nobd _). reflexivity.
    + unfold prows in Hl. apply in_map_iff in Hl. destruct Hl as [t [<- Ht]].
      destruct (ptrip_ok p Hok) as [Hrows _]. rewrite Forall_forall in Hrows. apply (erow_facts t (Hrows t Ht)).
Qed.

Lemma ecp_all_lines_good : forall ecps, g94_ecp_ok ecps -> Forall good_line (ecp_all_lines ecps).
Proof.
  intros ecps [_ H]. unfold ecp_all_lines. destruct ecps as [|zp0 ecps]; [constructor|]. constructor; [reflexivity|].
  rewrite Forall_forall in *. intros l Hl. apply in_flat_map in Hl. destruct Hl as [zp [Hzp Hl]].
  pose proof (ecp_el_lines_good zp (H zp Hzp)) as G. rewrite Forall_forall in G. apply G, Hl.
Qed.

Lemma g94_ecp_write_total : g94_ecp_write_total_stmt.
Proof. intros ecps H. eexists. apply write_ecp_lines, H. Qed.

(* ================================================================== *)
(* 5. prune_lines(lines, '!') on the written ECP lines                  *)
(* ================================================================== *)
Definition pot_blk (L : Z) (p : gpot) : list string :=
  title94 (pam p) L :: nat_str (List.length (p_rexp p)) :: map srow (ptrip p).
Definition ecp_sec (zp : Z * gecp) : list string :=
  ecp_hdr1 (fst zp) :: ecp_hdr2 (fst zp) (Lof (snd (snd zp))) (fst (snd zp)) ::
  flat_map (pot_blk (Lof (snd (snd zp)))) (snd (snd zp)).

Lemma prune2_one : forall l, strip_ws l <> "" -> first_in "!" (strip_ws l) = false -> prune2 [l] = [strip_ws l].
Proof.
  intros l Hne Hb. rewrite prune2_unfold. cbn [map]. destruct (strip_ws l) as [|c r]; [congruence|].
  cbn [filter is_empty orb]. rewrite Hb. reflexivity.
Qed.

Lemma strip_sp_word : forall k w, tok_ok w -> strip_ws (sp k +++ w) = w.
Proof.
  intros k w Hw. unfold strip_ws. rewrite lstrip_sp. rewrite <- (sapp_nil_r w) at 1. rewrite (lstrip_word w "" Hw), sapp_nil_r.
  rewrite <- (sapp_nil_r (srev w)). rewrite (lstrip_word (srev w) "" (tok_ok_srev w Hw)), sapp_nil_r. apply srev_involutive.
Qed.

Lemma count_line_strip : forall p, strip_ws (count_line p) = nat_str (List.length (p_rexp p)).
Proof. intros p. unfold count_line. exact (strip_sp_word 2 _ (nat_str_tok _)). Qed.

Lemma digit_line_facts : forall d X, is_digit d = true ->
  is_element_line (String d X) = false /\ first_in "!" (String d X) = false.
Proof. intros d X H. all_chars d; try discriminate H; split; reflexivity. Qed.

Lemma nat_str_line : forall n, is_element_line (nat_str n) = false /\ first_in "!" (nat_str n) = false /\ nat_str n <> "".
Proof.
  intros n. destruct (digits_head n) as [d [ds [E [Hd _]]]]. rewrite E. destruct (digit_line_facts d ds Hd) as [A B].
  repeat split; [exact A | exact B | discriminate].
Qed.

Lemma prune2_pot : forall L p, g94_pot_ok p -> (0 <= pam p < 26)%Z -> (0 <= L < 26)%Z ->
  prune2 (pot_lines94 L p) = pot_blk L p.
Proof.
  intros L p Hp Ha HL. destruct (title_facts (pam p) L Ha HL) as [_ [Hs [Hne [Hb _]]]].
  unfold pot_lines94, pot_blk. rewrite prune2_cons, (prune2_cons (count_line p)).
  rewrite (prune2_one (title94 (pam p) L)) by (rewrite Hs; assumption). rewrite Hs.
  destruct (nat_str_line (List.length (p_rexp p))) as [_ [N2 N3]].
  rewrite (prune2_one (count_line p)) by (rewrite count_line_strip; assumption). rewrite count_line_strip.
  cbn [app]. f_equal. f_equal. unfold prows. destruct (ptrip_ok p Hp) as [Hrows _].
  induction (ptrip p) as [|t ts IH]; [reflexivity|]. inversion Hrows as [|? ? Ht Hts]; subst.
  cbn [map]. rewrite prune2_cons, (IH Hts). destruct (srow_facts t Ht) as [_ [_ [S2 [S3 _]]]].
  fold (srow t) in *. rewrite (prune2_one (drow t)); [reflexivity | exact S3 | exact S2].
Qed.

Lemma usym_head : forall z, (1 <= z <= 120)%Z -> exists c r, usym z = String c r /\ is_alpha c = true.
Proof. intros z Hz. destruct (usym_facts z Hz) as [_ [Hne [Hs _]]]. exact (alpha_head _ Hne Hs). Qed.

Lemma usym_tok : forall z, (1 <= z <= 120)%Z -> tok_ok (usym z).
Proof. intros z Hz. destruct (usym_facts z Hz) as [_ [Hne [Hs _]]]. now apply alpha_word_tok. Qed.

Lemma alpha_first_not_bang : forall c r, is_alpha c = true -> first_in "!" (String c r) = false.
Proof. intros c r H. cbn [first_in sany]. rewrite (proj1 (alpha_not_bang c H)). reflexivity. Qed.

Lemma hdr1_facts : forall z, (1 <= z <= 120)%Z ->
  strip_ws (ecp_hdr1 z) = ecp_hdr1 z /\ first_in "!" (ecp_hdr1 z) = false /\ ecp_hdr1 z <> "".
Proof.
  intros z Hz. destruct (usym_head z Hz) as [c [r [E Hc]]]. unfold ecp_hdr1. split; [|split].
  - change (usym z +++ "     0") with (usym z +++ "     " +++ "0").
    apply strip_words; [apply usym_tok, Hz | split; [discriminate | reflexivity]].
  - rewrite E. apply alpha_first_not_bang, Hc.
  - rewrite E. discriminate.
Qed.

Lemma hdr2_facts : forall z L n, (1 <= z <= 120)%Z ->
  strip_ws (ecp_hdr2 z L n) = ecp_hdr2 z L n /\ first_in "!" (ecp_hdr2 z L n) = false /\ ecp_hdr2 z L n <> "".
Proof.
  intros z L n Hz. destruct (usym_head z Hz) as [c [r [E Hc]]]. unfold ecp_hdr2. split; [|split].
  - assert (Ea : usym z +++ "-ECP     " +++ Zs L +++ "     " +++ Zs n = usym z +++ ("-ECP     " +++ Zs L +++ "     ") +++ Zs n)
      by (now rewrite !sapp_assoc).
    rewrite Ea. apply strip_words; [apply usym_tok, Hz | apply Zs_tok].
  - rewrite E. apply alpha_first_not_bang, Hc.
  - rewrite E. discriminate.
Qed.

Lemma prune2_ecp_element : forall zp, g94_ecp_el_ok zp -> prune2 (ecp_el_lines zp) = ecp_sec zp.
Proof.
  intros zp H. destruct (el_ok_pots zp H) as [HL Hpots]. destruct H as [Hz _].
  unfold ecp_el_lines, ecp_sec. rewrite prune2_cons, (prune2_cons (ecp_hdr2 _ _ _)), prune2_flat_map.
  destruct (hdr1_facts (fst zp) Hz) as [A1 [A2 A3]].
  destruct (hdr2_facts (fst zp) (Lof (snd (snd zp))) (fst (snd zp)) Hz) as [B1 [B2 B3]].
  rewrite (prune2_one (ecp_hdr1 _)) by (rewrite A1; assumption). rewrite A1.
  rewrite (prune2_one (ecp_hdr2 _ _ _)) by (rewrite B1; assumption). rewrite B1.
  cbn [app]. f_equal. f_equal. apply flat_map_ext_in. intros p Hp. rewrite Forall_forall in Hpots.
  destruct (Hpots p Hp) as [H1 [_ H3]]. apply prune2_pot; [assumption | lia | assumption].
Qed.

Lemma pruned_ecp_lines : forall ecps, g94_ecp_ok ecps -> prune2 (ecp_all_lines ecps) = flat_map ecp_sec ecps.
Proof.
  intros ecps [_ H]. unfold ecp_all_lines. destruct ecps as [|zp0 ecps]; [reflexivity|].
  rewrite prune2_cons. change (prune2 [""]) with (@nil string). cbn [app]. rewrite prune2_flat_map.
  apply flat_map_ext_in. intros zp Hzp. apply prune2_ecp_element. rewrite Forall_forall in H. apply H, Hzp.
Qed.

(* ================================================================== *)
(* 6. the partition into element sections                              *)
(* ================================================================== *)
Lemma span_alpha_word_c : forall a c r, sall is_alpha a = true -> is_alpha c = false ->
  span_alpha (a +++ String c r) = (a, String c r).
Proof.
  induction a as [|x a IH]; intros c r Ha Hc.
  - cbn [String.append span_alpha]. now rewrite Hc.
  - cbn [sall] in Ha. apply andb_true_iff in Ha. destruct Ha as [Hx Ha].
    cbn [String.append span_alpha]. rewrite Hx, (IH c r Ha Hc). reflexivity.
Qed.

Lemma hdr1_matches : forall z, (1 <= z <= 120)%Z -> is_element_line (ecp_hdr1 z) = true.
Proof.
  intros z Hz. destruct (usym_facts z Hz) as [_ [Hne [Hs [Hl _]]]]. unfold ecp_hdr1.
  change (usym z +++ "     0") with (usym z +++ String " " "    0"). rewrite (element_line_word _ _ Hne Hs).
  apply Nat.leb_le in Hl. rewrite Hl. reflexivity.
Qed.

Lemma element_line_word_dash : forall a X, a <> "" -> sall is_alpha a = true -> is_element_line (a +++ String "-" (String "E" X)) = false.
Proof.
  intros a X Hne Ha. destruct (alpha_head a Hne Ha) as [c [r [E Hc]]].
  rewrite is_element_line_unfold. rewrite E at 1. cbn [String.append].
  rewrite (undash_keep c _ (proj2 (alpha_not_bang c Hc))).
  change (String c (r +++ String "-" (String "E" X))) with (String c r +++ String "-" (String "E" X)). rewrite <- E.
  rewrite (span_alpha_word_c a "-" _ Ha eq_refl).
  destruct (Nat.leb 1 (String.length a) && Nat.leb (String.length a) 3); reflexivity.
Qed.

Lemma hdr2_not_element : forall z L n, (1 <= z <= 120)%Z -> is_element_line (ecp_hdr2 z L n) = false.
Proof.
  intros z L n Hz. destruct (usym_facts z Hz) as [_ [Hne [Hs _]]]. unfold ecp_hdr2.
  exact (element_line_word_dash (usym z) _ Hne Hs).
Qed.

Lemma pot_blk_lines : forall L p l, g94_pot_ok p -> (0 <= pam p < 26)%Z -> (0 <= L < 26)%Z -> In l (pot_blk L p) ->
  is_element_line l = false.
Proof.
  intros L p l Hp Ha HL [<-|[<-|Hin]].
  - apply title_facts; assumption.
  - apply nat_str_line.
  - apply in_map_iff in Hin. destruct Hin as [t [<- Ht]]. destruct (ptrip_ok p Hp) as [Hrows _].
    rewrite Forall_forall in Hrows. apply (srow_facts t (Hrows t Ht)).
Qed.

Lemma ecp_sec_shape : forall zp, g94_ecp_el_ok zp -> block_shape el_cond (ecp_sec zp) /\ 4 <= List.length (ecp_sec zp).
Proof.
  intros zp H. destruct (el_ok_pots zp H) as [HL Hpots]. pose proof H as [Hz [_ [Hne _]]]. split.
  - eexists _, _. split; [reflexivity|]. split.
    + unfold el_cond, ok. now rewrite (hdr1_matches _ Hz).
    + constructor; [unfold el_cond, ok; now rewrite (hdr2_not_element _ _ _ Hz)|].
      rewrite Forall_forall in *. intros l Hl. apply in_flat_map in Hl. destruct Hl as [p [Hp Hl]].
      destruct (Hpots p Hp) as [H1 [_ H3]]. unfold el_cond, ok.
      rewrite (pot_blk_lines (Lof (snd (snd zp))) p l H1); [reflexivity | lia | assumption | assumption].
  - unfold ecp_sec. destruct (snd (snd zp)) as [|p pots]; [congruence|]. cbn [flat_map pot_blk app List.length]. lia.
Qed.

Definition all_secs (els : list (Z * list sshell)) (ecps : list (Z * gecp)) : list (list string) :=
  map sec94 els ++ map ecp_sec ecps.

Lemma partition_all_sections : forall els ecps, Forall el_ok94 els -> Forall g94_ecp_el_ok ecps ->
  partition_lines (concat (all_secs els ecps)) el_cond true 3 0 0 = inr (all_secs els ecps).
Proof.
  intros els ecps H1 H2.
  assert (Hsh : forall b, In b (all_secs els ecps) -> block_shape el_cond b /\ 3 <= List.length b).
  { intros b Hb. apply in_app_or in Hb. rewrite Forall_forall in *. destruct Hb as [Hb|Hb]; apply in_map_iff in Hb.
    - destruct Hb as [zs [<- Hzs]]. apply (sec94_shape zs (H1 zs Hzs)).
    - destruct Hb as [zp [<- Hzp]]. destruct (ecp_sec_shape zp (H2 zp Hzp)) as [A B]. split; [exact A | lia]. }
  unfold partition_lines. rewrite (part_blocks el_cond (all_secs els ecps) [] []).
  - cbn [flush app]. unfold bind. rewrite existsb_false; [reflexivity|].
    intros b Hb. apply Nat.ltb_ge. apply (Hsh b Hb).
  - rewrite Forall_forall. intros b Hb. apply (Hsh b Hb).
Qed.

(* ================================================================== *)
(* 7. one ECP section                                                  *)
(* ================================================================== *)
(* ---- the element line and the `-ECP` line ---- *)
Lemma tokens_hdr1 : forall z, (1 <= z <= 120)%Z -> tokens_acc (ecp_hdr1 z) "" = [usym z; "0"].
Proof.
  intros z Hz. destruct (usym_tok z Hz) as [Hne Hsp].
  unfold ecp_hdr1. rewrite (tokens_word (usym z) "     0" "" Hsp), sapp_nil_r.
  destruct (srev (usym z)) as [|a r] eqn:E; [exfalso; apply Hne; rewrite <- (srev_involutive (usym z)), E; reflexivity|].
  change (tokens_acc "     0" (String a r)) with (srev (String a r) :: ["0"]). rewrite <- E, srev_involutive. reflexivity.
Qed.

Lemma span_nonspace_word : forall w r, sany is_space w = false -> span_nonspace (w +++ String " " r) = (w, String " " r).
Proof.
  induction w as [|c w IH]; intros r H; [reflexivity|].
  cbn [sany] in H. apply orb_false_iff in H. destruct H as [Hc Hw].
  cbn [String.append span_nonspace]. rewrite Hc, (IH r Hw). reflexivity.
Qed.

Lemma span_digit_word : forall a, sall is_digit a = true -> span_digit a = (a, "").
Proof.
  induction a as [|c a IH]; intros H; [reflexivity|]. cbn [sall] in H. apply andb_true_iff in H. destruct H as [Hc Ha].
  cbn [span_digit]. rewrite Hc, (IH Ha). reflexivity.
Qed.

Lemma hdr2_match : forall z l n, (1 <= z <= 120)%Z ->
  match_ecp_am_nelec (usym z +++ "-ECP     " +++ nat_str l +++ "     " +++ nat_str n) = Some (nat_str l, nat_str n).
Proof.
  intros z l n Hz. destruct (usym_tok z Hz) as [Hne Hsp].
  assert (E : usym z +++ "-ECP     " +++ nat_str l +++ "     " +++ nat_str n =
              (usym z +++ "-ECP") +++ String " " (sp 4 +++ nat_str l +++ String " " (sp 4 +++ nat_str n))).
  { rewrite !sapp_assoc. reflexivity. }
  rewrite E. unfold match_ecp_am_nelec. rewrite span_nonspace_word by (rewrite sany_app, Hsp; reflexivity).
  destruct (usym z +++ "-ECP") as [|c0 w0] eqn:Ew; [destruct (usym z); [congruence | discriminate Ew]|].
  cbn [lstrip_ws]. change (is_space " ") with true. cbv iota.
  rewrite lstrip_sp, (lstrip_word _ _ (nat_str_tok l)), (span_digit_word_sp _ _ (nat_str_digits l)).
  destruct (nat_str l) as [|d1 r1] eqn:E1; [exfalso; exact (nat_str_ne _ E1)|].
  change (is_space " ") with true. cbv iota. cbn [lstrip_ws]. change (is_space " ") with true. cbv iota.
  rewrite lstrip_sp. rewrite <- (sapp_nil_r (nat_str n)). rewrite (lstrip_word _ _ (nat_str_tok n)), sapp_nil_r.
  rewrite (span_digit_word _ (nat_str_digits n)).
  destruct (nat_str n) as [|d2 r2] eqn:E2; [exfalso; exact (nat_str_ne _ E2)|]. reflexivity.
Qed.

(* ---- partition_lines(before=1) ---- *)
Lemma lastn1_snoc : forall (X : list string) t, lastn 1 (X ++ [t]) = [t].
Proof.
  intros X t. unfold lastn. rewrite app_length. cbn [List.length]. replace (List.length X + 1 - 1) with (List.length X) by lia.
  rewrite skipn_app, skipn_all, Nat.sub_diag. reflexivity.
Qed.
Lemma droplast1_snoc : forall (X : list string) t, droplast 1 (X ++ [t]) = X.
Proof.
  intros X t. unfold droplast. rewrite app_length. cbn [List.length]. replace (List.length X + 1 - 1) with (List.length X) by lia.
  rewrite firstn_app, firstn_all, Nat.sub_diag. cbn [firstn]. apply app_nil_r.
Qed.

Definition tb_block (tb : string * list string) : list string := fst tb :: snd tb.
Fixpoint mk_raw (B : list string) (more : list (string * list string)) : list (list string) :=
  match more with
  | [] => [B]
  | tb :: m => (B ++ [fst tb]) :: mk_raw (snd tb) m
  end.

Lemma steal_raw : forall more X t B,
  steal_before 1 (X ++ [t]) (mk_raw B more) = X :: map tb_block ((t, B) :: more).
Proof.
  induction more as [|[t' B'] m IH]; intros X t B.
  - cbn [mk_raw steal_before map]. rewrite lastn1_snoc, droplast1_snoc. reflexivity.
  - cbn [mk_raw steal_before fst snd]. rewrite lastn1_snoc, droplast1_snoc.
    change ([t] ++ B ++ [t']) with ((t :: B) ++ [t']). rewrite (IH (t :: B) t' B'). reflexivity.
Qed.

Lemma raw_concat : forall more t B, t :: concat (mk_raw B more) = concat (map tb_block ((t, B) :: more)).
Proof.
  induction more as [|[t' B'] m IH]; intros t B.
  - cbn. now rewrite !app_nil_r.
  - cbn [mk_raw concat map fst snd]. rewrite <- app_assoc. cbn [app]. rewrite (IH t' B'). reflexivity.
Qed.

Definition body_ok (cond : string -> res bool) (B : list string) : Prop :=
  exists h r, B = h :: r /\ cond h = inr true /\ Forall (fun l => cond l = inr false) r.

Lemma raw_shape : forall cond more B, body_ok cond B ->
  Forall (fun tb => cond (fst tb) = inr false /\ body_ok cond (snd tb)) more ->
  Forall (block_shape cond) (mk_raw B more).
Proof.
  intros cond; induction more as [|[t' B'] m IH]; intros B [h [r [-> [Hh Hr]]]] Hm.
  - constructor; [|constructor]. exists h, r. repeat split; assumption.
  - inversion Hm as [|? ? [Ht' HB'] Hm']; subst. cbn [fst snd] in *. cbn [mk_raw fst snd]. constructor.
    + exists h, (r ++ [t']). split; [reflexivity|]. split; [exact Hh|]. apply Forall_app. split; [exact Hr | now constructor].
    + apply IH; assumption.
Qed.

Lemma partition_before_blocks : forall cond t B more, cond t = inr false -> body_ok cond B ->
  Forall (fun tb => cond (fst tb) = inr false /\ body_ok cond (snd tb)) more ->
  partition_lines_before (concat (map tb_block ((t, B) :: more))) cond 1 1 = inr (map tb_block ((t, B) :: more)).
Proof.
  intros cond t B more Ht HB Hm. rewrite <- raw_concat. unfold partition_lines_before.
  cbn [part_go]. rewrite Ht. unfold bind at 1. cbn [app].
  rewrite (part_blocks cond (mk_raw B more) [t] [] (raw_shape cond more B HB Hm)). cbn [flush app]. unfold bind.
  destruct (mk_raw B more) as [|b bs] eqn:Er; [destruct more as [|[? ?] ?]; discriminate Er|]. rewrite <- Er.
  cbn [List.length Nat.eqb negb]. change [t] with ([] ++ [t]). rewrite steal_raw.
  rewrite existsb_false; [reflexivity|]. intros b0 Hb0. apply in_map_iff in Hb0. destruct Hb0 as [tb [<- _]]. reflexivity.
Qed.

(* ---- one potential ---- *)
Definition tb_of (L : Z) (p : gpot) : string * list string :=
  (title94 (pam p) L, nat_str (List.length (p_rexp p)) :: map srow (ptrip p)).

Lemma pot_blk_tb : forall L p, pot_blk L p = tb_block (tb_of L p).
Proof. reflexivity. Qed.

Definition int_cond (x : string) : res bool := ok (is_integer x).

Lemma nat_str_Zs : forall n, nat_str n = Zs (Z.of_nat n).
Proof. intros n. rewrite Zs_nonneg by lia. now rewrite Nat2Z.id. Qed.

Lemma tb_of_ok : forall L p, g94_pot_ok p -> (0 <= pam p < 26)%Z -> (0 <= L < 26)%Z ->
  int_cond (fst (tb_of L p)) = inr false /\ body_ok int_cond (snd (tb_of L p)).
Proof.
  intros L p Hp Ha HL. destruct (title_facts (pam p) L Ha HL) as [_ [_ [_ [_ [_ [Hi _]]]]]].
  unfold tb_of, int_cond, ok. cbn [fst snd]. split; [now rewrite Hi|].
  eexists _, _. split; [reflexivity|]. split; [rewrite nat_str_Zs, is_integer_Zs; reflexivity|].
  destruct (ptrip_ok p Hp) as [Hrows _]. rewrite Forall_forall in *. intros l Hl. apply in_map_iff in Hl.
  destruct Hl as [t [<- Ht]]. destruct (srow_facts t (Hrows t Ht)) as [_ [_ [_ [_ S5]]]]. now rewrite S5.
Qed.

Definition read_pot (p : gpot) : gpot :=
  mkGpot "scalar_ecp" [] (p_rexp p) (map (MatrixDefs.norm true) (p_gexp p)) (map (map (MatrixDefs.norm true)) (p_coef p)).

Lemma parse_pot_blk : forall L p, g94_pot_ok p -> g94_parse_pot_block (pot_blk L p) = inr (read_pot p).
Proof.
  intros L p Hp. destruct (pot_ok_coef p Hp) as [Ec [Hl Hf]]. destruct (ptrip_ok p Hp) as [_ Hlen].
  pose proof Hp as [Hne [Hg [_ [_ [Fg _]]]]].
  unfold g94_parse_pot_block, pot_blk. cbn [nth_error]. rewrite nat_str_Zs, is_integer_Zs. cbn [negb].
  rewrite (proj2 (Zs_val _)).
  assert (Hpos : (Z.of_nat (List.length (p_rexp p)) <=? 0)%Z = false).
  { apply Z.leb_gt. destruct (p_rexp p); [congruence | cbn [List.length]; lia]. }
  rewrite Hpos. cbn [List.length]. rewrite map_length, Hlen.
  assert (Hq : (Z.of_nat (S (S (List.length (p_rexp p)))) =? Z.of_nat (List.length (p_rexp p)) + 2)%Z = true) by (apply Z.eqb_eq; lia).
  rewrite Hq. cbn [negb skipn]. unfold ptrip. rewrite (parse_table_rows _ _ _ Hg Hl Fg Hf). unfold bind, ok, read_pot.
  rewrite Ec. reflexivity.
Qed.

(* ---- the angular momenta ---- *)
Lemma assign_canon : forall pots l, map p_am pots = map (fun a => [Z.of_nat a]) l ->
  assign_am l (map read_pot pots) = map g94_expected_pot pots.
Proof.
  induction pots as [|p pots IH]; intros [|a l] H; cbn [map] in H; try discriminate; [reflexivity|].
  injection H as H1 H2. cbn [map assign_am]. rewrite (IH l H2). f_equal.
  unfold g94_expected_pot, read_pot. cbn [p_type p_rexp p_gexp p_coef]. now rewrite H1.
Qed.

(* ---- the section ---- *)
Lemma partition_pots : forall L pots, pots <> [] -> (0 <= L < 26)%Z ->
  Forall (fun p => g94_pot_ok p /\ (0 <= pam p < 26)%Z) pots ->
  partition_lines_before (flat_map (pot_blk L) pots) int_cond 1 1 = inr (map (pot_blk L) pots).
Proof.
  intros L pots Hne HL H. destruct pots as [|p0 pots']; [congruence|]. rewrite flat_map_concat_map.
  assert (Htb : Forall (fun tb => int_cond (fst tb) = inr false /\ body_ok int_cond (snd tb)) (map (tb_of L) (p0 :: pots'))).
  { rewrite Forall_forall in *. intros tb Htb. apply in_map_iff in Htb. destruct Htb as [p [<- Hp]].
    destruct (H p Hp) as [H1 H2]. apply tb_of_ok; assumption. }
  cbn [map] in Htb. inversion Htb as [|? ? [Ht0 HB0] Hm]; subst.
  assert (E : map (pot_blk L) (p0 :: pots') =
    map tb_block ((title94 (pam p0) L, nat_str (List.length (p_rexp p0)) :: map srow (ptrip p0)) :: map (tb_of L) pots'))
    by (cbn [map]; rewrite map_map; reflexivity).
  rewrite E. apply partition_before_blocks; assumption.
Qed.

Lemma parse_ecp_section : forall zp d, g94_ecp_el_ok zp -> has_ecp (fst zp) d = false ->
  g94_parse_ecp_lines (ecp_sec zp) d = inr (set_ecp (fst zp) (g94_expected_ecp (snd zp)) d).
Proof.
  intros zp d H Hd. destruct (el_ok_pots zp H) as [HL Hpots]. destruct zp as [z [n pots]].
  destruct H as [Hz [Hn [Hne [Hlen [Ham _]]]]]. cbn [fst snd] in *.
  destruct (usym_facts z Hz) as [_ [_ [_ [_ Hback]]]].
  unfold g94_parse_ecp_lines, ecp_sec. cbn [fst snd]. rewrite (tokens_hdr1 z Hz), Hback. unfold bind at 1. rewrite Hd.
  unfold ecp_hdr2. rewrite (Zs_nonneg (Lof pots)) by lia. rewrite (Zs_nonneg n Hn). rewrite (hdr2_match z _ _ Hz).
  rewrite !nat_str_val, !Z2Nat.id by lia.
  change (fun x : string => ok (is_integer x)) with int_cond.
  rewrite (partition_pots (Lof pots) pots Hne HL).
  2:{ rewrite Forall_forall in *. intros p Hp. destruct (Hpots p Hp) as [H1 [_ H3]]. split; [assumption | lia]. }
  unfold bind at 1.
  rewrite (mapM_map_ok2 _ _ _ g94_parse_pot_block (pot_blk (Lof pots)) read_pot pots).
  2:{ intros p Hp. apply parse_pot_blk. rewrite Forall_forall in Hpots. apply (Hpots p Hp). }
  unfold bind. rewrite map_length.
  assert (Hq : (Lof pots + 1 =? Z.of_nat (List.length pots))%Z = true) by (apply Z.eqb_eq; unfold Lof; destruct pots; [congruence | cbn [List.length]; lia]).
  rewrite Hq. cbn [negb]. unfold ok. f_equal. f_equal. unfold g94_expected_ecp. cbn [fst snd]. f_equal.
  apply assign_canon. unfold Lof. rewrite Nat2Z.id. exact Ham.
Qed.

Lemma ecp_guess : forall zp, g94_ecp_el_ok zp ->
  match nth_error (ecp_sec zp) 3 with Some l3 => is_integer l3 | None => false end = true.
Proof.
  intros zp [_ [_ [Hne _]]]. unfold ecp_sec. destruct (snd (snd zp)) as [|p pots]; [congruence|].
  cbn [flat_map pot_blk app nth_error]. rewrite nat_str_Zs. apply is_integer_Zs.
Qed.

(* ================================================================== *)
(* 8. the loop over the element sections                               *)
(* ================================================================== *)
(* bs_data after the electron sections of els *)
Definition eld (els : list (Z * list sshell)) : list (Z * gel) :=
  map (fun zs => (fst zs, (Some (map g94_expected_shell (snd zs)), @None gecp))) els.

Lemma el_proj_eld : forall els, el_proj (eld els) = g94_expected els.
Proof. induction els as [|zs els IH]; [reflexivity|]. unfold el_proj, eld in *. cbn [map flat_map fst snd app]. now rewrite IH. Qed.

Lemma eld_keys : forall els, map fst (eld els) = map fst els.
Proof. intros els. unfold eld. rewrite map_map. reflexivity. Qed.

Lemma expected_keys : forall els, map fst (g94_expected els) = map fst els.
Proof. intros els. unfold g94_expected. rewrite map_map. reflexivity. Qed.

Lemma set_shells_new : forall z shs d, ~ In z (map fst d) -> set_shells z shs d = d ++ [(z, (Some shs, None))].
Proof.
  intros z shs; induction d as [|[z' [s e]] d IH]; intros H; [reflexivity|]. cbn [map fst In] in H.
  cbn [set_shells app]. destruct (Z.eqb_spec z z') as [->|Hne]; [exfalso; apply H; now left|].
  rewrite IH; [reflexivity|]. intros Hin. apply H. now right.
Qed.

Lemma last_opt_snoc : forall (A : Type) (l : list A) x, last_opt (l ++ [x]) = Some x.
Proof. intros A l x. unfold last_opt. rewrite rev_app_distr. reflexivity. Qed.

Lemma electron_section_all : forall zs done, el_ok94 zs -> ~ In (fst zs) (map fst done) ->
  g94_parse_electron_lines_all (sec94 zs) (eld done) = inr (eld (done ++ [zs])).
Proof.
  intros zs done H Hd. unfold g94_parse_electron_lines_all. rewrite el_proj_eld.
  rewrite (parse_section94 zs (g94_expected done) H) by (now rewrite expected_keys). unfold bind.
  rewrite last_opt_snoc. rewrite set_shells_new by (now rewrite eld_keys).
  unfold eld, ok. rewrite map_app. reflexivity.
Qed.

Lemma electron_sections_all : forall els done rest, Forall el_ok94 els -> NoDup (map fst (done ++ els)) ->
  g94_sections_all (map sec94 els ++ rest) (eld done) = g94_sections_all rest (eld (done ++ els)).
Proof.
  induction els as [|zs els IH]; intros done rest Hel Hnd.
  - cbn [map app]. now rewrite app_nil_r.
  - inversion Hel as [|? ? H1 H2]; subst. cbn [map app g94_sections_all]. rewrite (not_ecp_guess zs H1).
    rewrite (electron_section_all zs done H1).
    + unfold bind. rewrite (IH (done ++ [zs]) rest H2); rewrite <- app_assoc; [reflexivity | exact Hnd].
    + rewrite map_app in Hnd. cbn [map] in Hnd. apply NoDup_remove_2 in Hnd. intros Hin. apply Hnd. apply in_or_app. now left.
Qed.

(* ---- the ECP sections ---- *)
Definition ecp_fold (ecps : list (Z * gecp)) (d : list (Z * gel)) : list (Z * gel) :=
  fold_left (fun d zp => set_ecp (fst zp) (g94_expected_ecp (snd zp)) d) ecps d.

Lemma has_ecp_set : forall z z' e d, has_ecp z (set_ecp z' e d) = if Z.eqb z z' then true else has_ecp z d.
Proof.
  intros z z' e; induction d as [|[z0 [s e0]] d IH].
  - cbn [set_ecp has_ecp]. destruct (Z.eqb z z'); reflexivity.
  - cbn [set_ecp]. destruct (Z.eqb_spec z' z0) as [->|Hne]; cbn [has_ecp].
    + destruct (Z.eqb z z0); reflexivity.
    + rewrite IH. destruct (Z.eqb_spec z z0) as [->|Hne2]; [|reflexivity].
      destruct (Z.eqb_spec z0 z') as [E|_]; [congruence | reflexivity].
Qed.

Lemma has_ecp_eld : forall z els, has_ecp z (eld els) = false.
Proof. intros z; induction els as [|zs els IH]; [reflexivity|]. cbn [eld map has_ecp]. destruct (Z.eqb z (fst zs)); [reflexivity | exact IH]. Qed.

Lemma ecp_sections_all : forall ecps d, Forall g94_ecp_el_ok ecps -> NoDup (map fst ecps) ->
  (forall z, In z (map fst ecps) -> has_ecp z d = false) ->
  g94_sections_all (map ecp_sec ecps) d = inr (ecp_fold ecps d).
Proof.
  induction ecps as [|zp ecps IH]; intros d Hok Hnd Hd; [reflexivity|].
  inversion Hok as [|? ? H1 H2]; subst. cbn [map] in Hnd. inversion Hnd as [|? ? Hnotin Hnd']; subst.
  cbn [map g94_sections_all]. rewrite (ecp_guess zp H1).
  rewrite (parse_ecp_section zp d H1) by (apply Hd; now left). unfold bind. cbn [ecp_fold fold_left].
  apply IH; [exact H2 | exact Hnd' |]. intros z Hz. rewrite has_ecp_set.
  destruct (Z.eqb_spec z (fst zp)) as [->|_]; [contradiction|]. apply Hd. now right.
Qed.

(* ---- the dictionary that comes out, explicitly ---- *)
Definition form (els : list (Z * list sshell)) (done : list (Z * gecp)) : list (Z * gel) :=
  map (fun zs => (fst zs, (Some (map g94_expected_shell (snd zs)), option_map g94_expected_ecp (assocZ (fst zs) done)))) els ++
  map (fun zp => (fst zp, (@None (list sshell), Some (g94_expected_ecp (snd zp))))) (filter (fun zp => negb (has_key (fst zp) els)) done).

Lemma assocZ_snoc_other : forall (V : Type) k z (v : V) done, k <> z -> assocZ k (done ++ [(z, v)]) = assocZ k done.
Proof.
  intros V k z v; induction done as [|[k' v'] done IH]; intros H; cbn [app assocZ].
  - destruct (Z.eqb_spec k z); [congruence | reflexivity].
  - destruct (Z.eqb k k'); [reflexivity | apply IH, H].
Qed.
Lemma assocZ_snoc_new : forall (V : Type) z (v : V) done, ~ In z (map fst done) -> assocZ z (done ++ [(z, v)]) = Some v.
Proof.
  intros V z v; induction done as [|[k' v'] done IH]; intros H; cbn [app assocZ].
  - now rewrite Z.eqb_refl.
  - cbn [map fst In] in H. destruct (Z.eqb_spec z k') as [->|Hne]; [exfalso; apply H; now left|]. apply IH. tauto.
Qed.

Lemma has_key_In : forall (V : Type) z (l : list (Z * V)), has_key z l = true <-> In z (map fst l).
Proof.
  intros V z l. unfold has_key. rewrite existsb_exists. split.
  - intros [x [Hx E]]. apply Z.eqb_eq in E. now subst.
  - intros H. exists z. split; [exact H | apply Z.eqb_refl].
Qed.

Lemma set_ecp_new : forall z e d, ~ In z (map fst d) -> set_ecp z e d = d ++ [(z, (None, Some e))].
Proof.
  intros z e; induction d as [|[z' [s e']] d IH]; intros H; [reflexivity|]. cbn [map fst In] in H.
  cbn [set_ecp app]. destruct (Z.eqb_spec z z') as [->|Hne]; [exfalso; apply H; now left|].
  rewrite IH; [reflexivity|]. tauto.
Qed.

Lemma set_ecp_app : forall z e l1 l2, In z (map fst l1) -> set_ecp z e (l1 ++ l2) = set_ecp z e l1 ++ l2.
Proof.
  intros z e; induction l1 as [|[z' [s e']] l1 IH]; intros l2 H; [destruct H|]. cbn [map fst In] in H.
  cbn [app set_ecp]. destruct (Z.eqb_spec z z') as [->|Hne]; [reflexivity|].
  cbn [app]. rewrite IH; [reflexivity|]. destruct H; [congruence | assumption].
Qed.

(* the entry of an element that has shells gets the ECP *)
Lemma set_ecp_els : forall z e0 done els, NoDup (map fst els) -> In z (map fst els) -> ~ In z (map fst done) ->
  set_ecp z (g94_expected_ecp e0)
    (map (fun zs => (fst zs, (Some (map g94_expected_shell (snd zs)), option_map g94_expected_ecp (assocZ (fst zs) done)))) els) =
  map (fun zs => (fst zs, (Some (map g94_expected_shell (snd zs)), option_map g94_expected_ecp (assocZ (fst zs) (done ++ [(z, e0)]))))) els.
Proof.
  intros z e0 done; induction els as [|zs els IH]; intros Hnd Hin Hd; [destruct Hin|].
  cbn [map] in Hnd. inversion Hnd as [|? ? Hnotin Hnd']; subst. cbn [map set_ecp].
  destruct (Z.eqb_spec z (fst zs)) as [E|Hne].
  - subst z. rewrite (assocZ_snoc_new _ _ e0 done Hd). cbn [option_map]. f_equal.
    apply map_ext_in. intros zs' Hzs'. rewrite assocZ_snoc_other; [reflexivity|].
    intros E. apply Hnotin. rewrite <- E. apply in_map, Hzs'.
  - rewrite (assocZ_snoc_other _ (fst zs) z e0 done) by congruence. f_equal.
    apply IH; [exact Hnd' | | exact Hd]. cbn [map In] in Hin. destruct Hin; [congruence | assumption].
Qed.

Lemma form_step : forall els done zp, NoDup (map fst els) -> ~ In (fst zp) (map fst done) ->
  set_ecp (fst zp) (g94_expected_ecp (snd zp)) (form els done) = form els (done ++ [zp]).
Proof.
  intros els done [z e0] Hnd Hd. cbn [fst snd] in *. unfold form. rewrite filter_app. cbn [filter fst].
  destruct (has_key z els) eqn:Ek.
  - cbn [negb]. rewrite app_nil_r. apply has_key_In in Ek.
    rewrite set_ecp_app by (rewrite map_map; exact Ek). rewrite (set_ecp_els z e0 done els Hnd Ek Hd). reflexivity.
  - cbn [negb]. assert (Hnk : ~ In z (map fst els)) by (intros H; apply has_key_In in H; congruence).
    rewrite set_ecp_new.
    + rewrite map_app. cbn [map fst snd]. rewrite <- app_assoc. f_equal.
      apply map_ext_in. intros zs Hzs. rewrite assocZ_snoc_other; [reflexivity|].
      intros E. apply Hnk. rewrite <- E. apply in_map, Hzs.
    + rewrite map_app, !map_map. cbn [fst]. intros Hin. apply in_app_or in Hin. destruct Hin as [Hin|Hin]; [exact (Hnk Hin)|].
      apply Hd. apply in_map_iff in Hin. destruct Hin as [zp [E Hzp]]. apply filter_In in Hzp. rewrite <- E. apply in_map, Hzp.
Qed.

Lemma ecp_fold_form : forall ecps els done, NoDup (map fst els) -> NoDup (map fst (done ++ ecps)) ->
  ecp_fold ecps (form els done) = form els (done ++ ecps).
Proof.
  induction ecps as [|zp ecps IH]; intros els done H1 H2; [now rewrite app_nil_r|].
  cbn [ecp_fold fold_left]. rewrite form_step; [| exact H1 |].
  - change (fold_left _ ecps (form els (done ++ [zp]))) with (ecp_fold ecps (form els (done ++ [zp]))).
    assert (Ea : (done ++ [zp]) ++ ecps = done ++ zp :: ecps) by (now rewrite <- app_assoc).
    rewrite IH; [now rewrite Ea | exact H1 | now rewrite Ea].
  - rewrite map_app in H2. cbn [map] in H2. apply NoDup_remove_2 in H2. intros Hin. apply H2. apply in_or_app. now left.
Qed.

Lemma form_nil : forall els, form els [] = eld els.
Proof. intros els. unfold form, eld. cbn [filter map assocZ option_map]. now rewrite app_nil_r. Qed.

(* ================================================================== *)
(* 9. the round trips                                                  *)
(* ================================================================== *)
Lemma concat_nil_secs : forall els ecps, concat (all_secs els ecps) = [] -> els = [] /\ ecps = [].
Proof.
  intros [|zs els] [|zp ecps] H; try (split; reflexivity); exfalso; unfold all_secs, sec94, ecp_sec in H;
    cbn [map app concat] in H; discriminate H.
Qed.

Lemma read_all_lines : forall els ecps, g94_ok els -> g94_ecp_ok ecps ->
  g94_read_all (all_lines94 els ++ ecp_all_lines ecps) = inr (g94_all_expected els ecps).
Proof.
  intros els ecps H1 H2. pose proof (g94_ok_els els H1) as Hel. destruct H1 as [Hnd1 H1']. pose proof H2 as [Hnd2 Hec].
  unfold g94_read_all. fold (prune2 (all_lines94 els ++ ecp_all_lines ecps)).
  rewrite prune2_app, (pruned_lines94 els (conj Hnd1 H1')), (pruned_ecp_lines ecps H2).
  assert (Ec : concat (map sec94 els) ++ flat_map ecp_sec ecps = concat (all_secs els ecps))
    by (unfold all_secs; now rewrite concat_app, flat_map_concat_map).
  rewrite Ec. destruct (concat (all_secs els ecps)) as [|l L] eqn:E.
  - apply concat_nil_secs in E. destruct E; subst. reflexivity.
  - rewrite <- E. fold el_cond. rewrite (partition_all_sections els ecps Hel Hec). unfold bind, all_secs.
    change (@nil (Z * gel)) with (eld []). rewrite (electron_sections_all els [] _ Hel Hnd1). cbn [app].
    rewrite (ecp_sections_all ecps (eld els) Hec Hnd2) by (intros z _; apply has_ecp_eld).
    rewrite <- form_nil. rewrite (ecp_fold_form ecps els [] Hnd1 Hnd2). reflexivity.
Qed.

Lemma g94_all_roundtrip : g94_all_roundtrip_stmt.
Proof.
  intros els ecps H1 H2. unfold g94_roundtrip_all. rewrite (write_all_lines els ecps H1 H2). unfold bind.
  rewrite splitlines_unlines.
  - apply read_all_lines; assumption.
  - apply Forall_app. split; [apply all_lines_good94, H1 | apply ecp_all_lines_good, H2].
Qed.

Lemma g94_ok_nil : g94_ok [].
Proof. split; constructor. Qed.

Lemma expected_ecp_only : forall ecps, g94_all_expected [] ecps = g94_ecp_expected ecps.
Proof.
  intros ecps. unfold g94_all_expected, g94_ecp_expected. cbn [map app]. rewrite filter_id; [reflexivity|].
  rewrite Forall_forall. intros zp _. reflexivity.
Qed.

Lemma g94_ecp_roundtrip : g94_ecp_roundtrip_stmt.
Proof.
  intros ecps H. unfold g94_roundtrip_ecp. rewrite (write_ecp_lines ecps H). unfold bind.
  rewrite (splitlines_unlines _ (ecp_all_lines_good ecps H)).
  pose proof (read_all_lines [] ecps g94_ok_nil H) as R. cbn [all_lines94 flat_map app] in R. rewrite R.
  now rewrite expected_ecp_only.
Qed.

(* ---------- g94_ecp_no_number_lost ---------- *)
Lemma written_ecp_lines : forall ecps t, g94_ecp_ok ecps -> g94_write_ecp ecps = inr t -> splitlines t = ecp_all_lines ecps.
Proof.
  intros ecps t H E. rewrite (write_ecp_lines ecps H) in E. inversion E; subst.
  apply splitlines_unlines, ecp_all_lines_good, H.
Qed.

Lemma in_ecp_all_lines : forall ecps zp l, In zp ecps -> In l (ecp_el_lines zp) -> In l (ecp_all_lines ecps).
Proof.
  intros ecps zp l Hzp Hl. unfold ecp_all_lines. destruct ecps as [|zp0 ecps]; [destruct Hzp|].
  right. apply in_flat_map. exists zp. split; assumption.
Qed.

Lemma tokens_hdr2_last : forall z L n, In (Zs n) (tokens_acc (ecp_hdr2 z L n) "").
Proof.
  intros z L n. unfold ecp_hdr2.
  assert (E : usym z +++ "-ECP     " +++ Zs L +++ "     " +++ Zs n = (usym z +++ "-ECP     " +++ Zs L) +++ sp 5 +++ Zs n)
    by (now rewrite !sapp_assoc).
  rewrite E, (tokens_snoc 4 (Zs n) (Zs_tok n)). apply in_or_app. right. now left.
Qed.

Lemma g94_ecp_no_number_lost : g94_ecp_no_number_lost_stmt.
Proof.
  intros ecps t H E. rewrite (written_ecp_lines ecps t H E). pose proof H as [_ Hec]. rewrite Forall_forall in Hec.
  assert (Hrow : forall zp p tr, In zp ecps -> In p (snd (snd zp)) -> In tr (ptrip p) ->
            In (drow tr) (ecp_all_lines ecps) /\
            tokens_acc (drow tr) "" = [Zs (fst (fst tr)); d_convert (snd (fst tr)); d_convert (snd tr)]).
  { intros zp p tr Hzp Hp Htr. destruct (el_ok_pots zp (Hec zp Hzp)) as [_ Hpots]. rewrite Forall_forall in Hpots.
    destruct (Hpots p Hp) as [Hok _]. destruct (ptrip_ok p Hok) as [Hrows _]. rewrite Forall_forall in Hrows. split.
    - apply (in_ecp_all_lines ecps zp _ Hzp). unfold ecp_el_lines. right. right. apply in_flat_map. exists p.
      split; [exact Hp|]. unfold pot_lines94. right. right. unfold prows. apply in_map, Htr.
    - apply drow_tokens, Hrows, Htr. }
  assert (Hproj : forall zp p, In zp ecps -> In p (snd (snd zp)) ->
            map (fun t => fst (fst t)) (ptrip p) = p_rexp p /\ map (fun t => snd (fst t)) (ptrip p) = p_gexp p /\
            map snd (ptrip p) = pcoef p /\ p_coef p = [pcoef p]).
  { intros zp p Hzp Hp. destruct (el_ok_pots zp (Hec zp Hzp)) as [_ Hpots]. rewrite Forall_forall in Hpots.
    destruct (Hpots p Hp) as [Hok _]. destruct (pot_ok_coef p Hok) as [Ec [Hl _]]. destruct Hok as [_ [Hg _]].
    destruct (zip3_proj _ _ _ Hg Hl) as [A [B C]]. repeat split; assumption. }
  split.
  - intros x [zp [p [Hzp [Hp Hx]]]]. destruct (Hproj zp p Hzp Hp) as [_ [PG [PC Ec]]].
    assert (Htr : exists tr, In tr (ptrip p) /\ (x = snd (fst tr) \/ x = snd tr)).
    { destruct Hx as [Hx|[c [Hc Hx]]].
      - rewrite <- PG in Hx. apply in_map_iff in Hx. destruct Hx as [tr [<- Htr]]. exists tr. split; [exact Htr | now left].
      - rewrite Ec in Hc. destruct Hc as [<-|[]]. rewrite <- PC in Hx. apply in_map_iff in Hx. destruct Hx as [tr [<- Htr]].
        exists tr. split; [exact Htr | now right]. }
    destruct Htr as [tr [Htr Hx']]. destruct (Hrow zp p tr Hzp Hp Htr) as [Hl Ht]. exists (drow tr). split; [exact Hl|].
    rewrite Ht. destruct Hx' as [->| ->]; cbn [In]; tauto.
  - intros n [zp [Hzp [->|[p [Hp Hn]]]]].
    + exists (ecp_hdr2 (fst zp) (Lof (snd (snd zp))) (fst (snd zp))). split; [|apply tokens_hdr2_last].
      apply (in_ecp_all_lines ecps zp _ Hzp). unfold ecp_el_lines. right. now left.
    + destruct (Hproj zp p Hzp Hp) as [PR _]. rewrite <- PR in Hn. apply in_map_iff in Hn. destruct Hn as [tr [<- Htr]].
      destruct (Hrow zp p tr Hzp Hp Htr) as [Hl Ht]. exists (drow tr). split; [exact Hl|]. rewrite Ht. now left.
Qed.

(* ================================================================== *)
(* 10. the potentials in any order                                     *)
(* ================================================================== *)
Lemma insert_gpot_perm : forall x l, Permutation (insert_gpot x l) (x :: l).
Proof.
  intros x; induction l as [|q t IH]; [apply Permutation_refl|]. cbn [insert_gpot].
  destruct (zlist_leb (p_am x) (p_am q)); [apply Permutation_refl|].
  apply Permutation_trans with (q :: x :: t); [now apply perm_skip | apply perm_swap].
Qed.

Lemma sort_gpots_perm : forall l, Permutation (sort_gpots l) l.
Proof.
  induction l as [|x t IH]; [apply Permutation_refl|]. cbn [sort_gpots].
  apply Permutation_trans with (x :: sort_gpots t); [apply insert_gpot_perm | now apply perm_skip].
Qed.

Lemma ecp_order_perm : forall pots, Permutation (g94_ecp_order pots) pots.
Proof.
  intros pots. unfold g94_ecp_order. pose proof (sort_gpots_perm pots) as HP.
  destruct (rev (sort_gpots pots)) as [|lastp r] eqn:E.
  - assert (Es : sort_gpots pots = []) by (rewrite <- (rev_involutive (sort_gpots pots)), E; reflexivity).
    now rewrite Es in HP.
  - assert (Es : sort_gpots pots = rev r ++ [lastp]) by (rewrite <- (rev_involutive (sort_gpots pots)), E; reflexivity).
    rewrite Es in HP. apply Permutation_trans with (rev r ++ [lastp]); [apply Permutation_cons_append | exact HP].
Qed.

Lemma zmax_is : forall l M, Forall (fun x => (x <= M)%Z) l -> In M l -> zmax l = M.
Proof.
  intros l M Hle Hin. unfold zmax.
  assert (G : forall l init, Forall (fun x => (x <= M)%Z) l -> (init <= M)%Z -> (In M l \/ init = M) -> fold_left Z.max l init = M).
  { clear. induction l as [|x l IH]; intros init Hle Hi H.
    - destruct H as [[]|H]; exact H.
    - inversion Hle; subst. cbn [fold_left]. apply IH; [assumption | lia |].
      destruct H as [[-> | H] | ->]; [right; lia | now left | right; lia]. }
  destruct l as [|x l]; [destruct Hin|]. cbn [hd]. inversion Hle; subst. apply G; [exact Hle | assumption | now left].
Qed.

Definition norm_order (zp : Z * gecp) : Z * gecp := (fst zp, (fst (snd zp), g94_ecp_order (snd (snd zp)))).

Lemma write_element_order : forall zp, g94_ecp_el_ok (norm_order zp) -> g94_write_ecp_element (norm_order zp) = g94_write_ecp_element zp.
Proof.
  intros [z [n pots]] H. unfold norm_order in *. cbn [fst snd] in *.
  pose proof H as [_ [_ [Hne [_ [Ham _]]]]]. cbn [fst snd] in *.
  pose proof (ecp_order_perm pots) as HP. set (opots := g94_ecp_order pots) in *.
  destruct (canon_facts opots Hne Ham) as [A B].
  assert (Bp : Forall (fun p => p_am p = [pam p] /\ (0 <= pam p <= Lof opots)%Z) pots) by (exact (Permutation_Forall HP B)).
  assert (Eo : g94_ecp_order opots = opots) by (apply g94_ecp_order_canon; assumption).
  assert (F1 : forall l, Forall (fun p => p_am p = [pam p] /\ (0 <= pam p <= Lof opots)%Z) l -> mapM am_first l = inr (map pam l)).
  { intros l Hl. apply mapM_map_ok. intros p Hp. rewrite Forall_forall in Hl. destruct (Hl p Hp) as [E _].
    unfold am_first. rewrite E. reflexivity. }
  assert (Z1 : forall l, Permutation opots l -> zmax (map pam l) = Lof opots).
  { intros l Hl. apply zmax_is.
    - rewrite Forall_forall. intros x Hx. apply in_map_iff in Hx. destruct Hx as [p [<- Hp]].
      pose proof (Permutation_Forall Hl B) as Bl. rewrite Forall_forall in Bl. apply (Bl p Hp).
    - apply (Permutation_in _ (Permutation_map pam Hl)). rewrite A. now left. }
  unfold g94_write_ecp_element. destruct (element_sym_from_Z z false) as [e|sym0]; [reflexivity|]. cbn [bind].
  rewrite (F1 opots B), (F1 pots Bp). cbn [bind].
  rewrite (Z1 opots (Permutation_refl _)), (Z1 pots HP). rewrite Eo. fold opots.
  destruct opots as [|o1 os]; [congruence|]. destruct pots as [|p1 ps]; [apply Permutation_sym, Permutation_nil in HP; discriminate HP|].
  reflexivity.
Qed.

Lemma mapM_map_ext_in : forall (A B : Type) (f : A -> res B) (g : A -> A) l,
  (forall x, In x l -> f (g x) = f x) -> mapM f (map g l) = mapM f l.
Proof.
  intros A B f g; induction l as [|a l IH]; intros H; [reflexivity|]. cbn [map mapM].
  rewrite (H a (or_introl eq_refl)), IH; [reflexivity|]. intros x Hx. apply H. now right.
Qed.

Lemma g94_ecp_order_thm : g94_ecp_order_stmt.
Proof.
  intros ecps H. fold norm_order in *. rewrite <- (g94_ecp_roundtrip _ H). unfold g94_roundtrip_ecp. f_equal.
  unfold g94_write_ecp. destruct ecps as [|zp ecps]; [reflexivity|].
  change (map norm_order (zp :: ecps)) with (norm_order zp :: map norm_order ecps). cbv iota.
  change (norm_order zp :: map norm_order ecps) with (map norm_order (zp :: ecps)).
  rewrite mapM_map_ext_in; [reflexivity|]. intros x Hx. apply write_element_order.
  destruct H as [_ H]. rewrite Forall_forall in H. apply H. apply in_map, Hx.
Qed.

(* ================================================================== *)
(* 11. the hypotheses that cannot be dropped, hand-written files, a concrete instance *)
(* ================================================================== *)
Lemma g94_ecp_roundtrip_empty : g94_ecp_roundtrip_empty_stmt.
Proof. split; vm_compute; reflexivity. Qed.
Lemma g94_ecp_noncontiguous : g94_ecp_noncontiguous_stmt.
Proof. repeat split; vm_compute; reflexivity. Qed.
Lemma g94_ecp_duplicate : g94_ecp_duplicate_stmt.
Proof. vm_compute; reflexivity. Qed.
Lemma g94_ecp_fused : g94_ecp_fused_stmt.
Proof. vm_compute; reflexivity. Qed.
Lemma g94_ecp_unsorted : g94_ecp_unsorted_stmt.
Proof. split; vm_compute; reflexivity. Qed.
Lemma g94_ecp_am_bound : g94_ecp_am_bound_stmt.
Proof. repeat split; vm_compute; reflexivity. Qed.
Lemma g94_ecp_coef_rows : g94_ecp_coef_rows_stmt.
Proof. repeat split; vm_compute; reflexivity. Qed.
Lemma g94_ecp_lengths : g94_ecp_lengths_stmt.
Proof. repeat split; vm_compute; reflexivity. Qed.
Lemma g94_ecp_floating : g94_ecp_floating_stmt.
Proof. repeat split; vm_compute; reflexivity. Qed.
Lemma g94_ecp_numbers : g94_ecp_numbers_stmt.
Proof. vm_compute; reflexivity. Qed.
Lemma g94_ecp_electrons : g94_ecp_electrons_stmt.
Proof. repeat split; vm_compute; reflexivity. Qed.
Lemma g94_ecp_elements : g94_ecp_elements_stmt.
Proof. repeat split; vm_compute; reflexivity. Qed.
Lemma g94_ecp_type : g94_ecp_type_stmt.
Proof. vm_compute; reflexivity. Qed.
Lemma g94_all_mixed : g94_all_mixed_stmt.
Proof. split; vm_compute; reflexivity. Qed.
Lemma g94_ecp_handwritten : g94_ecp_handwritten_stmt.
Proof. repeat split; vm_compute; reflexivity. Qed.

Example g94_ecp_example : g94_ecp_example_stmt.
Proof.
  split; [|split; [|split; [|split]]]; try (vm_compute; reflexivity).
  - unfold g94_ok, exNa_els. split.
    + cbn [map fst]. repeat constructor. intros [].
    + repeat constructor; cbn; try lia; try discriminate; try reflexivity.
  - unfold g94_ecp_ok, exNa_ecps. split.
    + cbn [map fst]. repeat constructor. intros [].
    + repeat constructor; cbn; try lia; try discriminate; try reflexivity.
Qed.

Print Assumptions g94_ecp_write_total.
Print Assumptions g94_ecp_roundtrip.
Print Assumptions g94_all_roundtrip.
Print Assumptions g94_ecp_order_thm.
Print Assumptions g94_ecp_order_canon.
Print Assumptions g94_ecp_no_number_lost.
Print Assumptions g94_ecp_roundtrip_empty.
Print Assumptions g94_ecp_noncontiguous.
Print Assumptions g94_ecp_duplicate.
Print Assumptions g94_ecp_fused.
Print Assumptions g94_ecp_unsorted.
Print Assumptions g94_ecp_am_bound.
Print Assumptions g94_ecp_coef_rows.
Print Assumptions g94_ecp_lengths.
Print Assumptions g94_ecp_floating.
Print Assumptions g94_ecp_numbers.
Print Assumptions g94_ecp_electrons.
Print Assumptions g94_ecp_elements.
Print Assumptions g94_ecp_type.
Print Assumptions g94_all_mixed.
Print Assumptions g94_ecp_handwritten.
Print Assumptions g94_ecp_example.
