(* Statements about the three writers of writers/g94.py that have no reader: write_g94lib ('gaussian94lib'), write_xtron
   ('xtron') and write_psi4 ('psi4'), modelled in Model/G94Family.v.  There is nothing to read the text back with, so the
   property is about the text alone (C04): the writer is total on well-formed input, and every exponent / coefficient /
   ECP gaussian exponent / ECP coefficient (with e/E replaced by D, as printing.write_matrix(convert_exp=True) does it:
   Model.Matrix.d_convert) and every ECP r-exponent / electron count (in decimal, str(int)) is a white-space delimited
   token of some line of the text.  Definitions only; the proofs are in Proofs/G94FamilySpec.v. *)
From BSE Require Import Model.Val Model.Text Model.Basis Model.Manip Model.Matrix Model.Lut Model.Elements Model.Nwchem
                        Model.G94 Model.G94Ecp Model.G94Family Proofs.MatrixDefs Proofs.NwchemDefs Proofs.G94Defs
                        Proofs.G94EcpDefs.

(* ---------- well-formed input (what the writer itself needs; much less than g94_ok / g94_ecp_ok, which describe what the
   READER of gaussian94 can take back) ---------- *)
(* `floating s` (Proofs/NwchemDefs.v) : is_floating s = true, the string matches helpers.floating_re entirely *)
Definition g94f_shell_ok (s : sshell) : Prop :=
  (* every angular momentum has a letter in lut._amchar_map_hij (26 letters); the list may be empty, may be fused, and
     for psi4 the letter is looked up also when `L=<l>` is printed instead *)
  Forall (fun l => (0 <= l < 26)%Z) (am s) /\
  (* every column of coefficients is as long as the column of exponents (zip() in write_matrix cuts every column to the
     shortest one: see g94f_ragged_stmt); any number of columns, also none; any number of primitives, also none *)
  Forall (fun c => List.length c = List.length (exps s)) (coefs s) /\
  (* every number is a string matching helpers.floating_re (this implies: non-empty, no white space, a decimal point,
     bytes < 128 only - lemmas floating_is_cell, floating_ascii of Proofs/MatrixSpec.v) *)
  Forall floating (exps s) /\ Forall (Forall floating) (coefs s).

Definition g94f_ok (els : list (Z * list sshell)) : Prop :=
  (* an atomic number of the table of lut.py (1 .. 120); any number of shells, also none; the keys need not be distinct *)
  Forall (fun zs => (1 <= fst zs <= 120)%Z /\ Forall g94f_shell_ok (snd zs)) els.

Definition g94f_pot_ok (p : gpot) : Prop :=
  (* a non-empty list of momenta (am[0] is used) that all have a letter; more than one (refused by the validator) is fine *)
  p_am p <> [] /\ Forall (fun l => (0 <= l < 26)%Z) (p_am p) /\
  (* the three columns have the same length (zip() again: see g94f_ecp_lengths_stmt); no term at all is fine *)
  List.length (p_gexp p) = List.length (p_rexp p) /\
  Forall (fun c => List.length c = List.length (p_rexp p)) (p_coef p) /\
  (* AT MOST one row of coefficients: point_places = [0, 9, 32] has no place for a fourth column.  The schema and the
     validator allow any number of rows: see g94f_ecp_coef_rows_stmt *)
  List.length (p_coef p) <= 1 /\
  (* r exponents are integers by their type (ANY integer); the other numbers match helpers.floating_re *)
  Forall floating (p_gexp p) /\ Forall (Forall floating) (p_coef p).

Definition g94f_ecp_ok (ecps : list (Z * gecp)) : Prop :=
  (* atomic number in the table; ANY integer as electron count; at least one potential (max() of an empty list raises);
     NO condition on which momenta occur or in which order (gaps, duplicates, any order: see g94f_ecp_anyorder_stmt) *)
  Forall (fun zp => (1 <= fst zp <= 120)%Z /\ snd (snd zp) <> [] /\ Forall g94f_pot_ok (snd (snd zp))) ecps.
(* no condition relating els and ecps: an element may have shells only, an ECP only, or both.  An element that has NEITHER key
   is in neither list: nothing is written for it, and it has no number that could be lost. *)

(* ---------- statements, for any setting of the three flags of _write_g94_common ---------- *)
Definition g94f_write_total_stmt : Prop :=
  forall h p sl els ecps, g94f_ok els -> g94f_ecp_ok ecps -> exists t, g94f_write_common h p sl els ecps = inr t.

(* nw_number_of (Proofs/NwchemDefs.v): x is an exponent or a coefficient of some shell of some element of els *)
Definition num_token (t x : string) : Prop := exists line, In line (splitlines t) /\ In x (tokens_acc line "").

Definition g94f_no_number_lost_stmt : Prop :=
  forall h p sl els ecps t, g94f_ok els -> g94f_ecp_ok ecps -> g94f_write_common h p sl els ecps = inr t ->
    forall x, nw_number_of els x -> num_token t (d_convert x).

(* ecp_number_of / ecp_int_of (Proofs/G94EcpDefs.v): x is a gaussian exponent or a coefficient of some potential; n is the
   electron count of some element or an r exponent of some potential *)
Definition g94f_ecp_no_number_lost_stmt : Prop :=
  forall h p sl els ecps t, g94f_ok els -> g94f_ecp_ok ecps -> g94f_write_common h p sl els ecps = inr t ->
    (forall x, ecp_number_of ecps x -> num_token t (d_convert x)) /\
    (forall n, ecp_int_of ecps n -> num_token t (Z_to_string n)).

(* ---------- the same for each of the three writer functions ---------- *)
Definition g94lib_write_total_stmt : Prop :=
  forall els ecps, g94f_ok els -> g94f_ecp_ok ecps -> exists t, g94lib_write_all els ecps = inr t.
Definition g94lib_no_number_lost_stmt : Prop :=
  forall els ecps t, g94f_ok els -> g94f_ecp_ok ecps -> g94lib_write_all els ecps = inr t ->
    forall x, nw_number_of els x -> num_token t (d_convert x).
Definition g94lib_ecp_no_number_lost_stmt : Prop :=
  forall els ecps t, g94f_ok els -> g94f_ecp_ok ecps -> g94lib_write_all els ecps = inr t ->
    (forall x, ecp_number_of ecps x -> num_token t (d_convert x)) /\
    (forall n, ecp_int_of ecps n -> num_token t (Z_to_string n)).

Definition xtron_write_total_stmt : Prop :=
  forall els ecps, g94f_ok els -> g94f_ecp_ok ecps -> exists t, xtron_write_all els ecps = inr t.
Definition xtron_no_number_lost_stmt : Prop :=
  forall els ecps t, g94f_ok els -> g94f_ecp_ok ecps -> xtron_write_all els ecps = inr t ->
    forall x, nw_number_of els x -> num_token t (d_convert x).
Definition xtron_ecp_no_number_lost_stmt : Prop :=
  forall els ecps t, g94f_ok els -> g94f_ecp_ok ecps -> xtron_write_all els ecps = inr t ->
    (forall x, ecp_number_of ecps x -> num_token t (d_convert x)) /\
    (forall n, ecp_int_of ecps n -> num_token t (Z_to_string n)).

Definition psi4_write_total_stmt : Prop :=
  forall els ecps, g94f_ok els -> g94f_ecp_ok ecps -> exists t, psi4_write_all els ecps = inr t.
Definition psi4_no_number_lost_stmt : Prop :=
  forall els ecps t, g94f_ok els -> g94f_ecp_ok ecps -> psi4_write_all els ecps = inr t ->
    forall x, nw_number_of els x -> num_token t (d_convert x).
Definition psi4_ecp_no_number_lost_stmt : Prop :=
  forall els ecps t, g94f_ok els -> g94f_ecp_ok ecps -> psi4_write_all els ecps = inr t ->
    (forall x, ecp_number_of ecps x -> num_token t (d_convert x)) /\
    (forall n, ecp_int_of ecps n -> num_token t (Z_to_string n)).

(* ---------- which conditions cannot be dropped ---------- *)
(* decidable form of num_token, for closed texts *)
Definition has_token (t x : string) : bool :=
  existsb (fun line => existsb (String.eqb x) (tokens_acc line "")) (splitlines t).
Definition has_token_spec_stmt : Prop := forall t x, has_token t x = true <-> num_token t x.

Definition fam_sh (a : list Z) (e : list string) (c : list (list string)) : sshell := mkShell "gto" "" a e c.

(* nothing at all: the empty text; for psi4 the line of asterisks alone *)
Definition g94f_empty_stmt : Prop :=
  g94lib_write_all [] [] = inr "" /\ xtron_write_all [] [] = inr "" /\ psi4_write_all [] [] = inr ("****" +++ nl1).

(* what the flags do: the dash (electron blocks ONLY, the ECP block of the system library form has none), ` c` for a shell
   whose function type is exactly 'gto_cartesian', `L=<l>` from l = 7 on for a shell with one momentum (the only fused
   shells that are left after uncontract_spdf(basis, 1) are sp shells).  The three texts are what the Python functions
   return for this dictionary. *)
Definition g94f_flags_stmt : Prop :=
  let els := [(1%Z, [mkShell "gto" "" [0%Z; 1%Z] ["1.0"] [["1.0"]; ["2.0"]]; mkShell "gto_cartesian" "" [6%Z] ["1.5e-1"] [["1."]];
                     mkShell "gto_spherical" "" [7%Z] ["1.0"] [["1.0"]]; mkShell "gto" "" [10%Z] ["1.0"] [["1.0"]]])] in
  let ecps := [(11%Z, (10%Z, [pot1 0]))] in
  g94lib_write_all els ecps =
    inr (String.concat nl1 ["-H     0"; "SP   1   1.00"; "      1.0                    1.0                    2.0";
                            "I    1   1.00"; "      1.5D-1                 1.";
                            "J    1   1.00"; "      1.0                    1.0"; "M    1   1.00"; "      1.0                    1.0"; "****"; "";
                            "NA     0"; "NA-ECP     0     10"; "s potential"; "  1"; "2      1.0                    0.5"; ""]) /\
  xtron_write_all els ecps =
    inr (String.concat nl1 ["H     0"; "SP   1   1.00"; "      1.0                    1.0                    2.0";
                            "I    1   1.00 c"; "      1.5D-1                 1.";
                            "J    1   1.00"; "      1.0                    1.0"; "M    1   1.00"; "      1.0                    1.0"; "****"; "";
                            "NA     0"; "NA-ECP     0     10"; "s potential"; "  1"; "2      1.0                    0.5"; ""]) /\
  psi4_write_all els ecps =
    inr (String.concat nl1 ["****"; "H     0"; "SP   1   1.00"; "      1.0                    1.0                    2.0";
                            "I    1   1.00"; "      1.5D-1                 1.";
                            "L=7  1   1.00"; "      1.0                    1.0"; "L=10 1   1.00"; "      1.0                    1.0"; "****"; "";
                            "NA     0"; "NA-ECP     0     10"; "s potential"; "  1"; "2      1.0                    0.5"; ""]).

(* `0 <= l < 26`: l = 25 has a letter, l = 26 has none - IndexError in lut.amint_to_char, for psi4 as well although it
   would print `L=26`; a negative momentum likewise *)
Definition g94f_am_bound_stmt : Prop :=
  g94lib_write_all [(1%Z, [fam_sh [25%Z] ["1.0"] [["1.0"]]])] [] =
    inr (String.concat nl1 ["-H     0"; "E    1   1.00"; "      1.0                    1.0"; "****"; ""]) /\
  g94lib_write_all [(1%Z, [fam_sh [26%Z] ["1.0"] [["1.0"]]])] [] = inl EIndex /\
  xtron_write_all [(1%Z, [fam_sh [26%Z] ["1.0"] [["1.0"]]])] [] = inl EIndex /\
  psi4_write_all [(1%Z, [fam_sh [26%Z] ["1.0"] [["1.0"]]])] [] = inl EIndex /\
  psi4_write_all [(1%Z, [fam_sh [(-1)%Z] ["1.0"] [["1.0"]]])] [] = inl EIndex.

(* the column lengths: a column of coefficients that is LONGER than the column of exponents is cut without an error - the
   coefficient 3.0 is in none of the three texts.  This is a fact about the modelled part, needed for the theorems; in the
   Python functions the normalisation calls in front of it (manip.uncontract_general -> prune_shell, zip() there) have cut
   the column already, so that such a shell never reaches this part - the Python functions print no 3.0 either, and raise
   nothing.  The other direction, fewer coefficients than exponents, is an IndexError in the normalisation calls. *)
Definition g94f_ragged_stmt : Prop :=
  let els := [(1%Z, [fam_sh [0%Z] ["1.0"] [["1.0"; "3.0"]]])] in
  g94lib_write_all els [] = inr (String.concat nl1 ["-H     0"; "S    1   1.00"; "      1.0                    1.0"; "****"; ""]) /\
  (forall t, g94lib_write_all els [] = inr t \/ xtron_write_all els [] = inr t \/ psi4_write_all els [] = inr t ->
             has_token t "3.0" = false) /\
  (exists t, xtron_write_all els [] = inr t) /\ (exists t, psi4_write_all els [] = inr t).

(* `Forall floating`: a number without a decimal point stops the writer (ValueError in _find_point) *)
Definition g94f_floating_stmt : Prop :=
  g94lib_write_all [(1%Z, [fam_sh [0%Z] ["10"] [["1.0"]]])] [] = inl EValue /\
  xtron_write_all [(1%Z, [fam_sh [0%Z] ["1.0"] [["1"]]])] [] = inl EValue /\
  psi4_write_all [(1%Z, [fam_sh [0%Z] ["1.0"] [["1."]]; fam_sh [1%Z] ["1e0"] [["1.0"]]])] [] = inl EValue.

(* `1 <= z <= 120`: no symbol - KeyError *)
Definition g94f_elements_stmt : Prop :=
  g94lib_write_all [(0%Z, [fam_sh [0%Z] ["1.0"] [["1.0"]]])] [] = inl EKey /\
  xtron_write_all [(121%Z, [fam_sh [0%Z] ["1.0"] [["1.0"]]])] [] = inl EKey /\
  psi4_write_all [] [(0%Z, (10%Z, [pot1 0]))] = inl EKey /\
  (exists t, g94lib_write_all [(120%Z, [fam_sh [0%Z] ["1.0"] [["1.0"]]])] [(120%Z, (10%Z, [pot1 0]))] = inr t).

(* what is NOT a condition: an element without shells *)
Definition g94f_degenerate_stmt : Prop :=
  g94lib_write_all [(1%Z, []); (2%Z, [])] [] = inr (String.concat nl1 ["-H     0"; "****"; "-He     0"; "****"; ""]).

(* THE MOMENTA of the ECP: any set, in any order.  {0, 2, 3} (valid data: one momentum per potential, no duplicates; the
   gaussian94 READER cannot take it back, g94_ecp_noncontiguous_stmt) is written completely; duplicates, a fused momentum
   and a negative electron count as well *)
Definition g94f_ecp_anyorder_stmt : Prop :=
  g94lib_write_all [] (ecp1 [pot1 0; pot1 3; pot1 2]) =
    inr (String.concat nl1 [""; "NA     0"; "NA-ECP     3     10";
                            "f potential"; "  1"; "2      1.0                    0.5";
                            "s-f potential"; "  1"; "2      1.0                    0.5";
                            "d-f potential"; "  1"; "2      1.0                    0.5"; ""]) /\
  xtron_write_all [] [(11%Z, ((-3)%Z, [pot1 2; mkGpot "scalar_ecp" [0%Z; 1%Z] [(-2)%Z] ["1.0"] []; pot1 2]))] =
    inr (String.concat nl1 [""; "NA     0"; "NA-ECP     2     -3";
                            "d potential"; "  1"; "2      1.0                    0.5";
                            "sp-d potential"; "  1"; "-2     1.0";
                            "d potential"; "  1"; "2      1.0                    0.5"; ""]).

(* the momenta that have no letter, no momentum, no potential (max() of nothing is a ValueError in this part of the writer;
   in the Python functions sort.sort_basis, called before, raises IndexError for an empty list of potentials already) *)
Definition g94f_ecp_am_bound_stmt : Prop :=
  (exists t, psi4_write_all [] (ecp1 [pot1 25]) = inr t) /\
  psi4_write_all [] (ecp1 [pot1 26]) = inl EIndex /\
  g94lib_write_all [] (ecp1 [mkGpot "scalar_ecp" [] [2%Z] ["1.0"] [["0.5"]]]) = inl EIndex /\
  xtron_write_all [] (ecp1 []) = inl EValue.

(* `length (p_coef p) <= 1`: two rows of coefficients are VALID for the schema and for the validator; all three writers
   stop with an IndexError (point_places = [0, 9, 32] has no fourth entry) - nothing is lost silently, nothing is written *)
Definition g94f_ecp_coef_rows_stmt : Prop :=
  let ecps := ecp1 [mkGpot "scalar_ecp" [0%Z] [2%Z] ["1.0"] [["0.5"]; ["0.25"]]] in
  g94lib_write_all [] ecps = inl EIndex /\ xtron_write_all [] ecps = inl EIndex /\ psi4_write_all [] ecps = inl EIndex.

(* the list lengths: zip() cuts every column to the shortest one.  Fewer r exponents than numbers: 3.0 and 0.25 are LOST
   without an error; fewer numbers than r exponents: the second r exponent 7 is lost *)
Definition g94f_ecp_lengths_stmt : Prop :=
  g94lib_write_all [] (ecp1 [mkGpot "scalar_ecp" [0%Z] [2%Z] ["1.0"; "3.0"] [["0.5"; "0.25"]]]) =
    inr (String.concat nl1 [""; "NA     0"; "NA-ECP     0     10"; "s potential"; "  1"; "2      1.0                    0.5"; ""]) /\
  g94lib_write_all [] (ecp1 [mkGpot "scalar_ecp" [0%Z] [2%Z; 7%Z] ["1.0"] [["0.5"]]]) =
    inr (String.concat nl1 [""; "NA     0"; "NA-ECP     0     10"; "s potential"; "  2"; "2      1.0                    0.5"; ""]).

(* `Forall floating` in the ECP: a number without a decimal point stops the writer - also when it sits in the part of a
   column that zip() would cut off, because the padding is computed for whole columns first *)
Definition g94f_ecp_floating_stmt : Prop :=
  g94lib_write_all [] (ecp1 [mkGpot "scalar_ecp" [0%Z] [2%Z] ["10"] [["0.5"]]]) = inl EValue /\
  xtron_write_all [] (ecp1 [mkGpot "scalar_ecp" [0%Z] [2%Z] ["1.0"] [["5"]]]) = inl EValue /\
  psi4_write_all [] (ecp1 [mkGpot "scalar_ecp" [0%Z] [2%Z] ["1.0"; "30"] [["0.5"; "0.25"]]]) = inl EValue.

(* ---------- concrete instances from the store; the texts are the return values of the Python functions ---------- *)
(* lanl2dz, elements [1, 11], role orbital, after uncontract_general / uncontract_spdf(1) / sort_basis *)
Definition fexA_els : list (Z * list sshell) :=
 [((1)%Z, [mkShell "gto" "valence" [(0)%Z] ["19.2384000"; "2.8987000"; "0.6535000"] [["0.0328280"; "0.2312040"; "0.8172260"]];
   mkShell "gto" "valence" [(0)%Z] ["0.1776000"] [["1.0000000"]]]);
 ((11)%Z, [mkShell "gto" "valence" [(0)%Z] ["0.4972000"; "0.0560000"] [["-0.2753574"; "1.0989969"]];
   mkShell "gto" "valence" [(0)%Z] ["0.0221000"] [["1.0000000"]];
   mkShell "gto" "valence" [(1)%Z] ["0.6697000"; "0.0636000"] [["-0.0683845"; "1.0140550"]];
   mkShell "gto" "valence" [(1)%Z] ["0.0204000"] [["1.0000000"]]])].
Definition fexA_ecps : list (Z * gecp) :=
 [((11)%Z, ((10)%Z, [mkGpot "scalar_ecp" [(2)%Z] [(1)%Z; (2)%Z; (2)%Z; (2)%Z; (2)%Z] ["175.5502590"; "35.0516791"; "7.9060270"; "2.3365719"; "0.7799867"] [["-10.0000000"; "-47.4902024"; "-17.2283007"; "-6.0637782"; "-0.7299393"]];
   mkGpot "scalar_ecp" [(0)%Z] [(0)%Z; (1)%Z; (2)%Z; (2)%Z; (2)%Z] ["243.3605846"; "41.5764759"; "13.2649167"; "3.6797165"; "0.9764209"] [["3.0000000"; "36.2847626"; "72.9304880"; "23.8401151"; "6.0123861"]];
   mkGpot "scalar_ecp" [(1)%Z] [(0)%Z; (1)%Z; (2)%Z; (2)%Z; (2)%Z; (2)%Z] ["1257.2650682"; "189.6248810"; "54.5247759"; "13.7449955"; "3.6813579"; "0.9461106"] [["5.0000000"; "117.4495683"; "423.3986704"; "109.3247297"; "31.3701656"; "7.1241813"]]]))].
(* write_g94lib(get_basis('lanl2dz', elements=[1, 11])), byte for byte *)
Definition fexA_g94lib : string :=
  String.concat nl1
   ["-H     0";
    "S    3   1.00";
    "     19.2384000              0.0328280";
    "      2.8987000              0.2312040";
    "      0.6535000              0.8172260";
    "S    1   1.00";
    "      0.1776000              1.0000000";
    "****";
    "-Na     0";
    "S    2   1.00";
    "      0.4972000             -0.2753574";
    "      0.0560000              1.0989969";
    "S    1   1.00";
    "      0.0221000              1.0000000";
    "P    2   1.00";
    "      0.6697000             -0.0683845";
    "      0.0636000              1.0140550";
    "P    1   1.00";
    "      0.0204000              1.0000000";
    "****";
    "";
    "NA     0";
    "NA-ECP     2     10";
    "d potential";
    "  5";
    "1    175.5502590            -10.0000000";
    "2     35.0516791            -47.4902024";
    "2      7.9060270            -17.2283007";
    "2      2.3365719             -6.0637782";
    "2      0.7799867             -0.7299393";
    "s-d potential";
    "  5";
    "0    243.3605846              3.0000000";
    "1     41.5764759             36.2847626";
    "2     13.2649167             72.9304880";
    "2      3.6797165             23.8401151";
    "2      0.9764209              6.0123861";
    "p-d potential";
    "  6";
    "0   1257.2650682              5.0000000";
    "1    189.6248810            117.4495683";
    "2     54.5247759            423.3986704";
    "2     13.7449955            109.3247297";
    "2      3.6813579             31.3701656";
    "2      0.9461106              7.1241813";
    ""].
(* write_xtron(get_basis('lanl2dz', elements=[1, 11])), byte for byte *)
Definition fexA_xtron : string :=
  String.concat nl1
   ["H     0";
    "S    3   1.00";
    "     19.2384000              0.0328280";
    "      2.8987000              0.2312040";
    "      0.6535000              0.8172260";
    "S    1   1.00";
    "      0.1776000              1.0000000";
    "****";
    "Na     0";
    "S    2   1.00";
    "      0.4972000             -0.2753574";
    "      0.0560000              1.0989969";
    "S    1   1.00";
    "      0.0221000              1.0000000";
    "P    2   1.00";
    "      0.6697000             -0.0683845";
    "      0.0636000              1.0140550";
    "P    1   1.00";
    "      0.0204000              1.0000000";
    "****";
    "";
    "NA     0";
    "NA-ECP     2     10";
    "d potential";
    "  5";
    "1    175.5502590            -10.0000000";
    "2     35.0516791            -47.4902024";
    "2      7.9060270            -17.2283007";
    "2      2.3365719             -6.0637782";
    "2      0.7799867             -0.7299393";
    "s-d potential";
    "  5";
    "0    243.3605846              3.0000000";
    "1     41.5764759             36.2847626";
    "2     13.2649167             72.9304880";
    "2      3.6797165             23.8401151";
    "2      0.9764209              6.0123861";
    "p-d potential";
    "  6";
    "0   1257.2650682              5.0000000";
    "1    189.6248810            117.4495683";
    "2     54.5247759            423.3986704";
    "2     13.7449955            109.3247297";
    "2      3.6813579             31.3701656";
    "2      0.9461106              7.1241813";
    ""].
(* write_psi4(get_basis('lanl2dz', elements=[1, 11])), byte for byte *)
Definition fexA_psi4 : string :=
  String.concat nl1
   ["****";
    "H     0";
    "S    3   1.00";
    "     19.2384000              0.0328280";
    "      2.8987000              0.2312040";
    "      0.6535000              0.8172260";
    "S    1   1.00";
    "      0.1776000              1.0000000";
    "****";
    "Na     0";
    "S    2   1.00";
    "      0.4972000             -0.2753574";
    "      0.0560000              1.0989969";
    "S    1   1.00";
    "      0.0221000              1.0000000";
    "P    2   1.00";
    "      0.6697000             -0.0683845";
    "      0.0636000              1.0140550";
    "P    1   1.00";
    "      0.0204000              1.0000000";
    "****";
    "";
    "NA     0";
    "NA-ECP     2     10";
    "d potential";
    "  5";
    "1    175.5502590            -10.0000000";
    "2     35.0516791            -47.4902024";
    "2      7.9060270            -17.2283007";
    "2      2.3365719             -6.0637782";
    "2      0.7799867             -0.7299393";
    "s-d potential";
    "  5";
    "0    243.3605846              3.0000000";
    "1     41.5764759             36.2847626";
    "2     13.2649167             72.9304880";
    "2      3.6797165             23.8401151";
    "2      0.9764209              6.0123861";
    "p-d potential";
    "  6";
    "0   1257.2650682              5.0000000";
    "1    189.6248810            117.4495683";
    "2     54.5247759            423.3986704";
    "2     13.7449955            109.3247297";
    "2      3.6813579             31.3701656";
    "2      0.9461106              7.1241813";
    ""].
(* 6-31g*, elements [6], role orbital, after uncontract_general / uncontract_spdf(1) / sort_basis *)
Definition fexB_els : list (Z * list sshell) :=
 [((6)%Z, [mkShell "gto" "valence" [(0)%Z] ["0.3047524880E+04"; "0.4573695180E+03"; "0.1039486850E+03"; "0.2921015530E+02"; "0.9286662960E+01"; "0.3163926960E+01"] [["0.1834737132E-02"; "0.1403732281E-01"; "0.6884262226E-01"; "0.2321844432E+00"; "0.4679413484E+00"; "0.3623119853E+00"]];
   mkShell "gto" "valence" [(0)%Z; (1)%Z] ["0.7868272350E+01"; "0.1881288540E+01"; "0.5442492580E+00"] [["-0.1193324198E+00"; "-0.1608541517E+00"; "0.1143456438E+01"]; ["0.6899906659E-01"; "0.3164239610E+00"; "0.7443082909E+00"]];
   mkShell "gto" "valence" [(0)%Z; (1)%Z] ["0.1687144782E+00"] [["0.1000000000E+01"]; ["0.1000000000E+01"]];
   mkShell "gto_cartesian" "valence" [(2)%Z] ["0.8000000000E+00"] [["1.0000000"]]])].
Definition fexB_ecps : list (Z * gecp) :=
 [].
(* write_xtron(get_basis('6-31g*', elements=[6])), byte for byte *)
Definition fexB_xtron : string :=
  String.concat nl1
   ["C     0";
    "S    6   1.00";
    "      0.3047524880D+04       0.1834737132D-02";
    "      0.4573695180D+03       0.1403732281D-01";
    "      0.1039486850D+03       0.6884262226D-01";
    "      0.2921015530D+02       0.2321844432D+00";
    "      0.9286662960D+01       0.4679413484D+00";
    "      0.3163926960D+01       0.3623119853D+00";
    "SP   3   1.00";
    "      0.7868272350D+01      -0.1193324198D+00       0.6899906659D-01";
    "      0.1881288540D+01      -0.1608541517D+00       0.3164239610D+00";
    "      0.5442492580D+00       0.1143456438D+01       0.7443082909D+00";
    "SP   1   1.00";
    "      0.1687144782D+00       0.1000000000D+01       0.1000000000D+01";
    "D    1   1.00 c";
    "      0.8000000000D+00       1.0000000";
    "****";
    ""].
(* cc-pv6z-rifit, elements [5], role rifit, after uncontract_general / uncontract_spdf(1) / sort_basis *)
Definition fexC_els : list (Z * list sshell) :=
 [((5)%Z, [mkShell "gto" "" [(0)%Z] ["390.176"] [["1.0000000"]];
   mkShell "gto" "" [(0)%Z] ["92.3387"] [["1.0000000"]];
   mkShell "gto" "" [(0)%Z] ["32.8233"] [["1.0000000"]];
   mkShell "gto" "" [(0)%Z] ["12.6709"] [["1.0000000"]];
   mkShell "gto" "" [(0)%Z] ["6.40395"] [["1.0000000"]];
   mkShell "gto" "" [(0)%Z] ["3.5315"] [["1.0000000"]];
   mkShell "gto" "" [(0)%Z] ["1.75266"] [["1.0000000"]];
   mkShell "gto" "" [(0)%Z] ["0.90504"] [["1.0000000"]];
   mkShell "gto" "" [(0)%Z] ["0.489542"] [["1.0000000"]];
   mkShell "gto" "" [(0)%Z] ["0.282331"] [["1.0000000"]];
   mkShell "gto" "" [(0)%Z] ["0.158266"] [["1.0000000"]];
   mkShell "gto" "" [(0)%Z] ["0.0899536"] [["1.0000000"]];
   mkShell "gto" "" [(1)%Z] ["62.7667"] [["1.0000000"]];
   mkShell "gto" "" [(1)%Z] ["18.3889"] [["1.0000000"]];
   mkShell "gto" "" [(1)%Z] ["6.97539"] [["1.0000000"]];
   mkShell "gto" "" [(1)%Z] ["2.81522"] [["1.0000000"]];
   mkShell "gto" "" [(1)%Z] ["1.64949"] [["1.0000000"]];
   mkShell "gto" "" [(1)%Z] ["0.993205"] [["1.0000000"]];
   mkShell "gto" "" [(1)%Z] ["0.607027"] [["1.0000000"]];
   mkShell "gto" "" [(1)%Z] ["0.362547"] [["1.0000000"]];
   mkShell "gto" "" [(1)%Z] ["0.188652"] [["1.0000000"]];
   mkShell "gto" "" [(1)%Z] ["0.112936"] [["1.0000000"]];
   mkShell "gto_spherical" "" [(2)%Z] ["10.2882"] [["1.0000000"]];
   mkShell "gto_spherical" "" [(2)%Z] ["3.69938"] [["1.0000000"]];
   mkShell "gto_spherical" "" [(2)%Z] ["2.37801"] [["1.0000000"]];
   mkShell "gto_spherical" "" [(2)%Z] ["1.52817"] [["1.0000000"]];
   mkShell "gto_spherical" "" [(2)%Z] ["0.811515"] [["1.0000000"]];
   mkShell "gto_spherical" "" [(2)%Z] ["0.41418"] [["1.0000000"]];
   mkShell "gto_spherical" "" [(2)%Z] ["0.219562"] [["1.0000000"]];
   mkShell "gto_spherical" "" [(2)%Z] ["0.121978"] [["1.0000000"]];
   mkShell "gto_spherical" "" [(3)%Z] ["6.7962"] [["1.0000000"]];
   mkShell "gto_spherical" "" [(3)%Z] ["2.82862"] [["1.0000000"]];
   mkShell "gto_spherical" "" [(3)%Z] ["1.92999"] [["1.0000000"]];
   mkShell "gto_spherical" "" [(3)%Z] ["1.02453"] [["1.0000000"]];
   mkShell "gto_spherical" "" [(3)%Z] ["0.554579"] [["1.0000000"]];
   mkShell "gto_spherical" "" [(3)%Z] ["0.314816"] [["1.0000000"]];
   mkShell "gto_spherical" "" [(3)%Z] ["0.181999"] [["1.0000000"]];
   mkShell "gto_spherical" "" [(4)%Z] ["5.3497"] [["1.0000000"]];
   mkShell "gto_spherical" "" [(4)%Z] ["2.30181"] [["1.0000000"]];
   mkShell "gto_spherical" "" [(4)%Z] ["1.63414"] [["1.0000000"]];
   mkShell "gto_spherical" "" [(4)%Z] ["0.97649"] [["1.0000000"]];
   mkShell "gto_spherical" "" [(4)%Z] ["0.555067"] [["1.0000000"]];
   mkShell "gto_spherical" "" [(4)%Z] ["0.27742"] [["1.0000000"]];
   mkShell "gto_spherical" "" [(5)%Z] ["2.76736"] [["1.0000000"]];
   mkShell "gto_spherical" "" [(5)%Z] ["1.57294"] [["1.0000000"]];
   mkShell "gto_spherical" "" [(5)%Z] ["0.861123"] [["1.0000000"]];
   mkShell "gto_spherical" "" [(5)%Z] ["0.572423"] [["1.0000000"]];
   mkShell "gto_spherical" "" [(6)%Z] ["1.91549"] [["1.0000000"]];
   mkShell "gto_spherical" "" [(6)%Z] ["1.1061"] [["1.0000000"]];
   mkShell "gto_spherical" "" [(6)%Z] ["0.718853"] [["1.0000000"]];
   mkShell "gto_spherical" "" [(7)%Z] ["1.28955"] [["1.0000000"]]])].
Definition fexC_ecps : list (Z * gecp) :=
 [].
(* write_psi4(get_basis('cc-pv6z-rifit', elements=[5])), byte for byte *)
Definition fexC_psi4 : string :=
  String.concat nl1
   ["****";
    "B     0";
    "S    1   1.00";
    "    390.176                  1.0000000";
    "S    1   1.00";
    "     92.3387                 1.0000000";
    "S    1   1.00";
    "     32.8233                 1.0000000";
    "S    1   1.00";
    "     12.6709                 1.0000000";
    "S    1   1.00";
    "      6.40395                1.0000000";
    "S    1   1.00";
    "      3.5315                 1.0000000";
    "S    1   1.00";
    "      1.75266                1.0000000";
    "S    1   1.00";
    "      0.90504                1.0000000";
    "S    1   1.00";
    "      0.489542               1.0000000";
    "S    1   1.00";
    "      0.282331               1.0000000";
    "S    1   1.00";
    "      0.158266               1.0000000";
    "S    1   1.00";
    "      0.0899536              1.0000000";
    "P    1   1.00";
    "     62.7667                 1.0000000";
    "P    1   1.00";
    "     18.3889                 1.0000000";
    "P    1   1.00";
    "      6.97539                1.0000000";
    "P    1   1.00";
    "      2.81522                1.0000000";
    "P    1   1.00";
    "      1.64949                1.0000000";
    "P    1   1.00";
    "      0.993205               1.0000000";
    "P    1   1.00";
    "      0.607027               1.0000000";
    "P    1   1.00";
    "      0.362547               1.0000000";
    "P    1   1.00";
    "      0.188652               1.0000000";
    "P    1   1.00";
    "      0.112936               1.0000000";
    "D    1   1.00";
    "     10.2882                 1.0000000";
    "D    1   1.00";
    "      3.69938                1.0000000";
    "D    1   1.00";
    "      2.37801                1.0000000";
    "D    1   1.00";
    "      1.52817                1.0000000";
    "D    1   1.00";
    "      0.811515               1.0000000";
    "D    1   1.00";
    "      0.41418                1.0000000";
    "D    1   1.00";
    "      0.219562               1.0000000";
    "D    1   1.00";
    "      0.121978               1.0000000";
    "F    1   1.00";
    "      6.7962                 1.0000000";
    "F    1   1.00";
    "      2.82862                1.0000000";
    "F    1   1.00";
    "      1.92999                1.0000000";
    "F    1   1.00";
    "      1.02453                1.0000000";
    "F    1   1.00";
    "      0.554579               1.0000000";
    "F    1   1.00";
    "      0.314816               1.0000000";
    "F    1   1.00";
    "      0.181999               1.0000000";
    "G    1   1.00";
    "      5.3497                 1.0000000";
    "G    1   1.00";
    "      2.30181                1.0000000";
    "G    1   1.00";
    "      1.63414                1.0000000";
    "G    1   1.00";
    "      0.97649                1.0000000";
    "G    1   1.00";
    "      0.555067               1.0000000";
    "G    1   1.00";
    "      0.27742                1.0000000";
    "H    1   1.00";
    "      2.76736                1.0000000";
    "H    1   1.00";
    "      1.57294                1.0000000";
    "H    1   1.00";
    "      0.861123               1.0000000";
    "H    1   1.00";
    "      0.572423               1.0000000";
    "I    1   1.00";
    "      1.91549                1.0000000";
    "I    1   1.00";
    "      1.1061                 1.0000000";
    "I    1   1.00";
    "      0.718853               1.0000000";
    "L=7  1   1.00";
    "      1.28955                1.0000000";
    "****";
    ""].

(* A: lanl2dz for H and Na (an ECP), all three writers.  B: 6-31G* for C, write_xtron: the cartesian d shell gets its ` c`.
   C: cc-pV6Z-RIFIT for B, write_psi4: the k shells are `L=7`.  The inputs are well-formed, every text is exactly what the
   Python function returns. *)
Definition g94f_example_stmt : Prop :=
  g94f_ok fexA_els /\ g94f_ecp_ok fexA_ecps /\
  g94lib_write_all fexA_els fexA_ecps = inr fexA_g94lib /\
  xtron_write_all fexA_els fexA_ecps = inr fexA_xtron /\
  psi4_write_all fexA_els fexA_ecps = inr fexA_psi4 /\
  g94f_ok fexB_els /\ xtron_write_all fexB_els fexB_ecps = inr fexB_xtron /\
  g94f_ok fexC_els /\ psi4_write_all fexC_els fexC_ecps = inr fexC_psi4.
