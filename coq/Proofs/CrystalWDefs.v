(* Statements about the Crystal writer (write_crystal; the format has NO reader, so everything is about the written text).
   Definitions only; the proofs are in Proofs/CrystalWSpec.v. *)
From BSE Require Import Model.Val Model.Text Model.Basis Model.Manip Model.Matrix Model.Lut Model.Elements Model.Nwchem
                        Model.NwchemEcp Model.CrystalW Proofs.MatrixDefs Proofs.NwchemDefs.

(* ---------- well-formed input of the writer (what is left after uncontract_general / uncontract_spdf(1) / sort_basis) ---------- *)
(* `floating s` (Proofs/NwchemDefs.v): s matches helpers.floating_re entirely; this implies: non-empty, no white space, a
   decimal point, ASCII *)
Definition crystal_shell_ok (s : sshell) : Prop :=
  (* ONE angular momentum (any: it is printed as the number l + 1, or 0 for s; no table of letters is involved), or the fused
     sp shell [0, 1] - every other fused shell is a RuntimeError (uncontract_spdf(basis, 1) leaves no other) *)
  ((exists l, am s = [l]) \/ am s = [0; 1]%Z) /\
  (* every column of coefficients has one coefficient per primitive (zip() would cut the table to the shortest column) *)
  Forall (fun c => List.length c = List.length (exps s)) (coefs s) /\
  Forall floating (exps s) /\ Forall (Forall floating) (coefs s).
(* no condition on the number of primitives or of columns: an empty table prints nothing and loses nothing *)

Definition crystal_pot_ok (p : epot) : Prop :=
  (* the five projectors s p d f g of the INPUT block: a potential with another momentum list is NOT printed, and a first
     momentum above 4 is a RuntimeError *)
  (exists a, p_am p = [a] /\ (0 <= a <= 4)%Z) /\
  (* ONE row of coefficients (only term['coefficients'][0] is printed), as long as the lists of exponents *)
  (exists c0, p_coef p = [c0] /\ List.length c0 = List.length (p_gexp p)) /\
  List.length (p_rexp p) = List.length (p_gexp p) /\
  Forall floating (p_gexp p) /\ Forall (Forall floating) (p_coef p).

Definition crystal_el_ok (e : Z * (option (list sshell) * option (Z * list epot))) : Prop :=
  (* FINDING: an element with Z >= 99 is left out of the text without any message (crystal_high_z_stmt); the element table
     is not consulted, the atomic number is printed as it is *)
  (1 <= fst e <= 98)%Z /\
  (* FINDING: the key 'electron_shells' must be there - an ECP-only element (def2-ECP) is a KeyError (crystal_ecp_only_stmt) *)
  (exists shs, fst (snd e) = Some shs /\ Forall crystal_shell_ok shs) /\
  match snd (snd e) with
  | None => True
  | Some (nelec, pots) => pots <> [] /\ Forall crystal_pot_ok pots     (* max() of an empty list is a ValueError *)
  end.

Definition crystal_ok (els : list (Z * (option (list sshell) * option (Z * list epot)))) : Prop := Forall crystal_el_ok els.
(* NO condition on the keys being distinct, NO condition `els <> []` (the text is `99 0`), an element may have no shell *)

(* ---------- the numbers of the input ---------- *)
Definition crystal_number_of (els : list (Z * (option (list sshell) * option (Z * list epot)))) (x : string) : Prop :=
  exists e shs s, In e els /\ fst (snd e) = Some shs /\ In s shs /\ (In x (exps s) \/ exists c, In c (coefs s) /\ In x c).
Definition crystal_ecp_number_of (els : list (Z * (option (list sshell) * option (Z * list epot)))) (x : string) : Prop :=
  exists e nelec pots p, In e els /\ snd (snd e) = Some (nelec, pots) /\ In p pots /\
                         (In x (p_gexp p) \/ exists c, In c (p_coef p) /\ In x c).
Definition crystal_ecp_rexp_of (els : list (Z * (option (list sshell) * option (Z * list epot)))) (n : Z) : Prop :=
  exists e nelec pots p, In e els /\ snd (snd e) = Some (nelec, pots) /\ In p pots /\ In n (p_rexp p).

(* ---------- statements ---------- *)
(* the writer does not fail on well-formed input *)
Definition crystal_write_total_stmt : Prop :=
  forall els, crystal_ok els -> exists t, crystal_write_all els = inr t.

(* C04, electron part.  This version of write_crystal does NOT round: every exponent and every coefficient of the (normalised)
   input is a white-space delimited token of some line of the text with ALL its characters, only the exponent marker converted
   as printing.write_matrix(convert_exp=True) does it: e / E -> D (Model.Matrix.d_convert; a Fortran d / D stays) *)
Definition crystal_no_number_lost_stmt : Prop :=
  forall els t, crystal_ok els -> crystal_write_all els = inr t ->
    forall x, crystal_number_of els x -> exists line, In line (splitlines t) /\ In (d_convert x) (tokens_acc line "").

(* C04, ECP part.  Every gaussian exponent and every coefficient is a token of some line UNCHANGED (the INPUT block is
   written with str.format, not with write_matrix: NO marker conversion here), the decimal form of every r exponent is a
   token.  The number of core electrons itself is NOT printed: what is printed is NAT = Z + 200 (first token of the element
   line) and the effective charge Z - ecp_electrons (first token of the line after INPUT); both are tokens of some line. *)
Definition crystal_ecp_no_number_lost_stmt : Prop :=
  forall els t, crystal_ok els -> crystal_write_all els = inr t ->
    (forall x, crystal_ecp_number_of els x -> exists line, In line (splitlines t) /\ In x (tokens_acc line "")) /\
    (forall n, crystal_ecp_rexp_of els n -> exists line, In line (splitlines t) /\ In (Z_to_string n) (tokens_acc line "")) /\
    (forall e nelec pots, In e els -> snd (snd e) = Some (nelec, pots) ->
       (exists line r, In line (splitlines t) /\ tokens_acc line "" = Z_to_string (fst e + 200) :: r) /\
       (exists line r, In line (splitlines t) /\ tokens_acc line "" = Z_to_string (fst e - nelec) :: "0" :: r)).

(* ---------- findings and the conditions of crystal_ok that cannot be dropped ---------- *)
Definition cw_s : sshell := mkShell "gto" "" [0%Z] ["1.0"] [["1.0"]].
Definition cw_pot (a : Z) : epot := mkEpot "scalar_ecp" [a] [2%Z] ["1.0"] [["2.0"]].

(* KNOWN FINDING.  `if nat >= 99: continue` (the `raise` is commented out): whatever the data of the elements with Z >= 99 are
   - even data on which every other element would raise -, the text is that of the other elements; with nothing but such
   elements it is the bare terminator `99 0`.  No error, no message. *)
Definition crystal_high_z_stmt : Prop :=
  (forall els, Forall (fun e => (99 <= fst e)%Z) els -> crystal_write_all els = inr ("99 0" +++ nl1)) /\
  (forall lo hi, Forall (fun e => (99 <= fst e)%Z) hi -> crystal_write_all (lo ++ hi) = crystal_write_all lo) /\
  crystal_write_all [(98%Z, (Some [cw_s], None)); (99%Z, (Some [cw_s], None)); (100%Z, (None, Some (60%Z, [cw_pot 5])))] =
    inr (String.concat nl1 ["98 1"; "0 0 1 0 1.0"; "      1.0                    1.0"; "99 0"; ""]).

(* FINDING.  An element with an ECP and without electron shells (valid data: def2-ECP) is a KeyError *)
Definition crystal_ecp_only_stmt : Prop :=
  crystal_write_all [(37%Z, (None, Some (28%Z, [cw_pot 0])))] = inl EKey.

(* a projector above g is refused with a RuntimeError (the h projectors of def2-ECP / Stuttgart RSC for the lanthanides) *)
Definition crystal_h_projector_stmt : Prop :=
  crystal_write_all [(58%Z, (Some [cw_s], Some (28%Z, [cw_pot 5; cw_pot 0])))] = inl ERuntime.

(* the electron count is not a token (28 below), the r exponents, exponents and coefficients are; the ECP lines keep their E, the
   electron lines get a D; a second row of coefficients (7.0 8.0) is lost silently *)
Definition crystal_ecp_text_stmt : Prop :=
  crystal_write_all
    [(37%Z, (Some [mkShell "gto" "" [0%Z] ["1.0E+00"] [["0.5e+00"]]],
             Some (28%Z, [mkEpot "scalar_ecp" [0%Z] [2%Z] ["1.5"] [["2.5"]];
                          mkEpot "scalar_ecp" [1%Z] [2; 1]%Z ["1.0E+00"; "3.0"] [["2.0E+00"; "4.0"]; ["7.0"; "8.0"]]])))] =
    inr (String.concat nl1 ["237 1"; "INPUT"; "9 0 1 2 0 0 0"; "1.5 2.5 2"; "1.0E+00 2.0E+00 2"; "3.0 4.0 1"; "0 0 1 0 1.0";
                            "      1.0D+00                0.5D+00"; "99 0"; ""]).

(* shells: fused shells other than sp, and no momentum at all, are a RuntimeError; sp is shell type 1, l = 7 is type 8 *)
Definition crystal_shell_types_stmt : Prop :=
  crystal_write_all [(1%Z, (Some [mkShell "gto" "" [0; 1; 2]%Z ["1.0"] [["1.0"]; ["1.0"]; ["1.0"]]], None))] = inl ERuntime /\
  crystal_write_all [(1%Z, (Some [mkShell "gto" "" [1; 2]%Z ["1.0"] [["1.0"]; ["1.0"]]], None))] = inl ERuntime /\
  crystal_write_all [(1%Z, (Some [mkShell "gto" "" [] ["1.0"] [["1.0"]]], None))] = inl ERuntime /\
  crystal_write_all [(1%Z, (Some [mkShell "gto" "" [0; 1]%Z ["1.0"] [["1.0"]; ["2.0"]]; mkShell "gto" "" [7%Z] ["1.0"] [["1.0"]]], None))] =
    inr (String.concat nl1 ["1 2"; "0 1 1 0 1.0"; "      1.0                    1.0                    2.0"; "0 8 1 0 1.0";
                            "      1.0                    1.0"; "99 0"; ""]).

(* potentials: none at all is a ValueError, a missing r exponent an IndexError, surplus r exponents / coefficients are
   lost silently, a potential whose momentum list is not one of [0] .. [4] is skipped silently *)
Definition crystal_pots_stmt : Prop :=
  crystal_write_all [(37%Z, (Some [cw_s], Some (28%Z, [])))] = inl EValue /\
  crystal_write_all [(37%Z, (Some [cw_s], Some (28%Z, [mkEpot "scalar_ecp" [0%Z] [2%Z] ["1.0"; "2.0"] [["2.0"; "3.0"]]])))] = inl EIndex /\
  crystal_write_all [(37%Z, (Some [cw_s], Some (28%Z, [mkEpot "scalar_ecp" [0%Z] [2; 3; 4]%Z ["1.0"; "2.0"] [["2.0"; "3.0"; "9.0"]]])))] =
    inr (String.concat nl1 ["237 1"; "INPUT"; "9 0 2 0 0 0 0"; "1.0 2.0 2"; "2.0 3.0 3"; "0 0 1 0 1.0";
                            "      1.0                    1.0"; "99 0"; ""]) /\
  crystal_write_all [(37%Z, (Some [cw_s], Some (28%Z, [cw_pot 0; mkEpot "scalar_ecp" [1; 2]%Z [2%Z] ["5.0"] [["6.0"]]])))] =
    inr (String.concat nl1 ["237 1"; "INPUT"; "9 0 1 0 0 0 0"; "1.0 2.0 2"; "0 0 1 0 1.0";
                            "      1.0                    1.0"; "99 0"; ""]).

(* numbers: no decimal point is a ValueError (_find_point); the ECP numbers are not checked at all *)
Definition crystal_floating_stmt : Prop :=
  crystal_write_all [(1%Z, (Some [mkShell "gto" "" [0%Z] ["1"] [["1.0"]]], None))] = inl EValue.

(* what is NOT needed: no element, an element without shells, a negative effective charge *)
Definition crystal_empty_stmt : Prop :=
  crystal_write_all [] = inr ("99 0" +++ nl1) /\
  crystal_write_all [(37%Z, (Some [], Some (40%Z, [cw_pot 0])))] =
    inr (String.concat nl1 ["237 0"; "INPUT"; "-3 0 1 0 0 0 0"; "1.0 2.0 2"; "99 0"; ""]).

(* ---------- a concrete instance: LANL2DZ for Na and H as write_crystal sees it (after uncontract_general, uncontract_spdf(1)
   and sort_basis); the expected text is what get_basis('lanl2dz', elements=[11,1], fmt='crystal', header=False) returns ---------- *)
Definition crystal_ex_els : list (Z * (option (list sshell) * option (Z * list epot))) :=
  [((1)%Z, ((Some [(mkShell "gto" "valence" [(0)%Z] ["19.2384000"; "2.8987000"; "0.6535000"] [["0.0328280"; "0.2312040"; "0.8172260"]]);
      (mkShell "gto" "valence" [(0)%Z] ["0.1776000"] [["1.0000000"]])]),
      None));
   ((11)%Z, ((Some [(mkShell "gto" "valence" [(0)%Z] ["0.4972000"; "0.0560000"] [["-0.2753574"; "1.0989969"]]);
      (mkShell "gto" "valence" [(0)%Z] ["0.0221000"] [["1.0000000"]]);
      (mkShell "gto" "valence" [(1)%Z] ["0.6697000"; "0.0636000"] [["-0.0683845"; "1.0140550"]]);
      (mkShell "gto" "valence" [(1)%Z] ["0.0204000"] [["1.0000000"]])]),
      (Some ((10)%Z, [(mkEpot "scalar_ecp" [(2)%Z] [(1)%Z; (2)%Z; (2)%Z; (2)%Z; (2)%Z] ["175.5502590"; "35.0516791"; "7.9060270"; "2.3365719"; "0.7799867"] [["-10.0000000"; "-47.4902024"; "-17.2283007"; "-6.0637782"; "-0.7299393"]]);
      (mkEpot "scalar_ecp" [(0)%Z] [(0)%Z; (1)%Z; (2)%Z; (2)%Z; (2)%Z] ["243.3605846"; "41.5764759"; "13.2649167"; "3.6797165"; "0.9764209"] [["3.0000000"; "36.2847626"; "72.9304880"; "23.8401151"; "6.0123861"]]);
      (mkEpot "scalar_ecp" [(1)%Z] [(0)%Z; (1)%Z; (2)%Z; (2)%Z; (2)%Z; (2)%Z] ["1257.2650682"; "189.6248810"; "54.5247759"; "13.7449955"; "3.6813579"; "0.9461106"] [["5.0000000"; "117.4495683"; "423.3986704"; "109.3247297"; "31.3701656"; "7.1241813"]])]))))].
Definition crystal_ex_text : string :=
  String.concat nl1
   ["1 2";
    "0 0 3 0 1.0";
    "     19.2384000              0.0328280";
    "      2.8987000              0.2312040";
    "      0.6535000              0.8172260";
    "0 0 1 0 1.0";
    "      0.1776000              1.0000000";
    "211 4";
    "INPUT";
    "1 0 5 6 5 0 0";
    "243.3605846 3.0000000 0";
    "41.5764759 36.2847626 1";
    "13.2649167 72.9304880 2";
    "3.6797165 23.8401151 2";
    "0.9764209 6.0123861 2";
    "1257.2650682 5.0000000 0";
    "189.6248810 117.4495683 1";
    "54.5247759 423.3986704 2";
    "13.7449955 109.3247297 2";
    "3.6813579 31.3701656 2";
    "0.9461106 7.1241813 2";
    "175.5502590 -10.0000000 1";
    "35.0516791 -47.4902024 2";
    "7.9060270 -17.2283007 2";
    "2.3365719 -6.0637782 2";
    "0.7799867 -0.7299393 2";
    "0 0 2 0 1.0";
    "      0.4972000             -0.2753574";
    "      0.0560000              1.0989969";
    "0 0 1 0 1.0";
    "      0.0221000              1.0000000";
    "0 2 2 0 1.0";
    "      0.6697000             -0.0683845";
    "      0.0636000              1.0140550";
    "0 2 1 0 1.0";
    "      0.0204000              1.0000000";
    "99 0";
    ""].

Definition crystal_example_stmt : Prop :=
  crystal_ok crystal_ex_els /\ crystal_write_all crystal_ex_els = inr crystal_ex_text.
