(* Statements for C12. Definitions only. *)
From Coq Require Import Sorting.Permutation Sorting.Sorted.
From BSE Require Import Model.Val Model.Num Model.Basis Model.Manip Model.ManipS Model.Sort Model.Augment Gen.GenConsts.

(* value order on exact decimals *)
Definition dlt (a b : Z * Z) : Prop := dec_compare a b = Lt.
Definition dpos (a : Z * Z) : Prop := (0 < fst a)%Z.

(* fractions num/den with den > 0 *)
Definition flt (a b : Z * Z) : Prop := (fst a * snd b < fst b * snd a)%Z.
Definition fpos_den (a : Z * Z) : Prop := (0 < snd a)%Z.

(* sorted((float(x), idx)): a permutation of the enumerated exponents, ascending by value then index *)
Definition sorted_exponents_spec_stmt : Prop :=
  forall xs se, sorted_exponents xs = inr se ->
    (exists e, enum_vals 0 xs = inr e /\ Permutation se e) /\
    StronglySorted (fun p q => dec_compare (fst p) (fst q) = Lt \/ (dec_compare (fst p) (fst q) = Eq /\ snd p < snd q)) se.

(* _free_primitives: the rows in which some single-entry contraction has its non-zero entry *)
Definition free_primitives_spec_stmt : Prop :=
  forall cs k, Forall (fun c => List.length c = List.length (hd [] cs)) cs ->
    (In k (free_primitives cs) <->
     exists c x, In c cs /\ is_single_column is0_s c = true /\ nth_error c k = Some x /\ is0_s x = false).

(* the new exponents x (x/y)^i: denominators positive; diffuse side (0 < x < y): strictly below x and decreasing in i;
   steep side (x > y > 0): strictly above x and increasing in i *)
Definition aug_value_den_stmt : Prop :=
  forall x y i, dpos x -> dpos y -> fpos_den (aug_value x y i) /\ (0 < fst (aug_value x y i))%Z.
Definition aug_outside_diffuse_stmt : Prop :=
  forall x y i, dpos x -> dpos y -> dlt x y ->
    flt (aug_value x y (S i)) (aug_value x y i) /\ flt (aug_value x y (S i)) (frac_of x).
Definition aug_outside_steep_stmt : Prop :=
  forall x y i, dpos x -> dpos y -> dlt y x ->
    flt (aug_value x y i) (aug_value x y (S i)) /\ flt (frac_of x) (aug_value x y (S i)).
Definition aug_value_zero_stmt : Prop :=
  forall x y, dpos x -> dpos y -> ~ flt (aug_value x y 0) (frac_of x) /\ ~ flt (frac_of x) (aug_value x y 0).

(* one general-contracted shell: nothing unless it has two primitives and the two outermost are free; otherwise exactly nadd
   single-primitive shells with the shell's momentum, type and region, exponents x(x/y)^i, i = 1..nadd *)
Definition augment_shell_spec_stmt : Prop :=
  forall nadd (steep : bool) s out, augment_shell nadd steep s = inr out ->
    out = (@nil newshell) \/
    (exists se rv ri nv ni rest,
        sorted_exponents (exps s) = inr se /\ (if steep then rev se else se) = (rv, ri) :: (nv, ni) :: rest /\
        dec_compare rv nv <> Eq /\ In ri (free_primitives (coefs s)) /\ In ni (free_primitives (coefs s)) /\
        out = map (fun i => {| ns_ftype := ftype s; ns_region := region s; ns_am := am s; ns_exp := aug_value rv nv i |}) (seq 1 nadd)).
Definition augment_shell_count_stmt : Prop :=
  forall nadd steep s out, augment_shell nadd steep s = inr out -> List.length out = 0 \/ List.length out = nadd.
Definition augment_equal_outer_refused_stmt : Prop :=
  forall nadd (steep : bool) s se rv ri nv ni rest,
    sorted_exponents (exps s) = inr se -> (if steep then rev se else se) = (rv, ri) :: (nv, ni) :: rest ->
    dec_compare rv nv = Eq -> augment_shell nadd steep s = inl ERuntime.

(* ---- truhlar ---- *)
(* remove_primitive: that primitive goes, every other exponent and coefficient stays in place, emptied contractions go *)
Definition remove_primitive_spec_stmt : Prop :=
  forall s i, exps (remove_primitive s i) = remove_nth i (exps s) /\ am (remove_primitive s i) = am s /\
    (forall g, In g (coefs (remove_primitive s i)) <->
       exists g0, In g0 (coefs s) /\ g = remove_nth i g0 /\ existsb (fun c => negb (is0_s c)) g = true).

(* per element: a shell is either untouched, or loses exactly its most diffuse primitive (the first of the value-sorted
   exponents); which shells lose one is decided by the momentum alone: the n highest momenta of the element *)
Definition element_remove_diffuse_spec_stmt : Prop :=
  forall shs n out mx, element_remove_diffuse shs n = inr out -> max_am_shells shs = inr mx ->
    let k := match n with None => (mx + 1)%Z | Some k => k end in
    Forall2 (fun s o =>
               exists l, am s = [l] /\
                 if andb (l <=? mx)%Z (andb (mx - k <? l)%Z (0 <=? l)%Z)
                 then exists se v i rest, sorted_exponents (exps s) = inr se /\ se = (v, i) :: rest /\ o = remove_primitive s i
                 else o = s) shs out.

Definition truhlar_refuses_stmt : Prop :=
  forall month b off g mx, month_offset month = inr off -> s_make_general false b = inr g -> basis_max_am g = inr mx ->
    (Z.of_nat off > mx)%Z -> truhlar_calendarize month b = inl ERuntime.
Definition truhlar_unknown_month_stmt : Prop :=
  forall month b, index_of_month (lower month) truhlar_months 0 = None -> truhlar_calendarize month b = inl ERuntime.
Definition month_offsets_stmt : Prop :=
  map (fun m => month_offset m) ["jul"; "JUN"; "may"; "apr"; "mar"; "feb"; "jan"] =
  [inr 0; inr 1; inr 2; inr 3; inr 4; inr 5; inr 6].
