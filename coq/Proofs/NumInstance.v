(* The decimal-string carrier satisfies carrier_ok. *)
From BSE Require Import Model.Val Model.Num Gen.GenConsts Proofs.FSDefs Proofs.NumDefs.

Local Open Scope Z_scope.

(* equality of m1*10^e1 and m2*10^e2 seen from any common lower exponent k *)
Definition deq (k : Z) (a b : Z * Z) : Prop :=
  fst a * 10 ^ (snd a - k) = fst b * 10 ^ (snd b - k).

Lemma pow10_pos : forall n, 0 <= n -> 0 < 10 ^ n.
Proof. intros n Hn. apply Z.pow_pos_nonneg; lia. Qed.

Lemma deq_shift : forall k k' a b, k' <= k -> k <= snd a -> k <= snd b ->
  (deq k a b <-> deq k' a b).
Proof.
  intros k k' [m1 e1] [m2 e2] Hk Ha Hb. unfold deq. cbn [fst snd] in *.
  replace (e1 - k') with ((e1 - k) + (k - k')) by lia.
  replace (e2 - k') with ((e2 - k) + (k - k')) by lia.
  rewrite !Z.pow_add_r by lia.
  rewrite !Z.mul_assoc.
  assert (Hp : 0 < 10 ^ (k - k')) by (apply pow10_pos; lia).
  split.
  - intros H. rewrite H. reflexivity.
  - intros H. apply Z.mul_cancel_r in H; [exact H | lia].
Qed.

Lemma dec_compare_eq : forall a b, dec_compare a b = Eq <-> deq (Z.min (snd a) (snd b)) a b.
Proof.
  intros [m1 e1] [m2 e2]. unfold dec_compare, deq, pow10. cbn [fst snd].
  apply Z.compare_eq_iff.
Qed.

Lemma dec_compare_eq_k : forall k a b, k <= snd a -> k <= snd b ->
  (dec_compare a b = Eq <-> deq k a b).
Proof.
  intros k a b Ha Hb. rewrite dec_compare_eq. apply deq_shift; lia.
Qed.

Lemma dec_refl : forall a, dec_compare a a = Eq.
Proof. intros a. apply dec_compare_eq. reflexivity. Qed.

Lemma dec_sym : forall a b, dec_compare a b = Eq -> dec_compare b a = Eq.
Proof.
  intros a b H. apply dec_compare_eq in H. apply dec_compare_eq.
  rewrite Z.min_comm. unfold deq in *. symmetry. exact H.
Qed.

Lemma dec_trans : forall a b c, dec_compare a b = Eq -> dec_compare b c = Eq -> dec_compare a c = Eq.
Proof.
  intros a b c H1 H2.
  set (k := Z.min (snd a) (Z.min (snd b) (snd c))).
  apply (dec_compare_eq_k k) in H1; [| unfold k; lia | unfold k; lia].
  apply (dec_compare_eq_k k) in H2; [| unfold k; lia | unfold k; lia].
  apply (dec_compare_eq_k k); [unfold k; lia | unfold k; lia |].
  unfold deq in *. congruence.
Qed.

Lemma dec_eq_zero : forall a b, dec_compare a b = Eq -> (fst a =? 0) = (fst b =? 0).
Proof.
  intros [m1 e1] [m2 e2] H. apply dec_compare_eq in H. unfold deq in H. cbn [fst snd] in *.
  assert (H1 : 0 < 10 ^ (e1 - Z.min e1 e2)) by (apply pow10_pos; lia).
  assert (H2 : 0 < 10 ^ (e2 - Z.min e1 e2)) by (apply pow10_pos; lia).
  remember (10 ^ (e1 - Z.min e1 e2)) as p1. remember (10 ^ (e2 - Z.min e1 e2)) as p2.
  destruct (Z.eqb_spec m1 0) as [E1 | E1]; destruct (Z.eqb_spec m2 0) as [E2 | E2]; try reflexivity; exfalso.
  - subst m1. rewrite Z.mul_0_l in H. symmetry in H. apply Z.mul_eq_0 in H. lia.
  - subst m2. rewrite Z.mul_0_l in H. apply Z.mul_eq_0 in H. lia.
Qed.

Lemma same_s_refl : forall a, same_s a a = true.
Proof.
  intros a. unfold same_s. destruct (parse_num a) as [x |].
  - rewrite dec_refl. reflexivity.
  - apply String.eqb_refl.
Qed.

Lemma same_s_sym : forall a b, same_s a b = true -> same_s b a = true.
Proof.
  intros a b. unfold same_s.
  destruct (parse_num a) as [x |] eqn:Ea; destruct (parse_num b) as [y |] eqn:Eb;
    try (rewrite String.eqb_sym; auto; fail).
  destruct (dec_compare x y) eqn:E; try discriminate. intros _.
  rewrite (dec_sym _ _ E). reflexivity.
Qed.

Lemma same_s_trans : forall a b c, same_s a b = true -> same_s b c = true -> same_s a c = true.
Proof.
  intros a b c. unfold same_s.
  destruct (parse_num a) as [x |] eqn:Ea; destruct (parse_num b) as [y |] eqn:Eb;
    destruct (parse_num c) as [z |] eqn:Ec; intros H1 H2;
    try (apply String.eqb_eq in H1; subst; congruence);
    try (apply String.eqb_eq in H2; subst; congruence).
  destruct (dec_compare x y) eqn:E1; try discriminate.
  destruct (dec_compare y z) eqn:E2; try discriminate.
  rewrite (dec_trans _ _ _ E1 E2). reflexivity.
Qed.

Lemma is0_same_s : forall a b, same_s a b = true -> is0_s a = is0_s b.
Proof.
  intros a b. unfold same_s, is0_s.
  destruct (parse_num a) as [x |] eqn:Ea; destruct (parse_num b) as [y |] eqn:Eb; intros H;
    try (apply String.eqb_eq in H; subst; congruence).
  destruct (dec_compare x y) eqn:E; try discriminate.
  apply dec_eq_zero in E. destruct x, y. exact E.
Qed.

Lemma num_instance : num_instance_stmt.
Proof.
  unfold num_instance_stmt. constructor.
  - exact same_s_refl.
  - exact same_s_sym.
  - exact same_s_trans.
  - exact is0_same_s.
  - intros a b H. apply String.eqb_eq. exact H.
  - vm_compute. reflexivity.
  - vm_compute. reflexivity.
  - vm_compute. reflexivity.
Qed.

Print Assumptions num_instance.
