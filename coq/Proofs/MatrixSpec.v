(* C03 (layer a) / C04: proofs of the statements of Proofs/MatrixDefs.v. *)
From BSE Require Import Model.Val Model.Manip Model.Text Model.Matrix Proofs.MatrixDefs Proofs.HeaderSpec Proofs.PruneFS.

(* ------------------------------------------------------------------ *)
(* generic string facts                                                *)
(* ------------------------------------------------------------------ *)
Ltac all_chars c := destruct c as [[] [] [] [] [] [] [] []].

Lemma sall_app : forall p a b, sall p (a +++ b) = andb (sall p a) (sall p b).
Proof. induction a as [|x a IH]; intros b; cbn [String.append sall]; [reflexivity | now rewrite IH, andb_assoc]. Qed.

Lemma sany_app : forall p a b, sany p (a +++ b) = orb (sany p a) (sany p b).
Proof. induction a as [|x a IH]; intros b; cbn [String.append sany]; [reflexivity | now rewrite IH, orb_assoc]. Qed.

Lemma sall_impl : forall (p q : ascii -> bool) s, (forall c, p c = true -> q c = true) -> sall p s = true -> sall q s = true.
Proof.
  intros p q s Hpq; induction s as [|c s IH]; cbn [sall]; [reflexivity|].
  intros H. apply andb_true_iff in H. destruct H as [H1 H2]. now rewrite (Hpq _ H1), IH.
Qed.

Lemma sall_sany_false : forall (p q : ascii -> bool) s, (forall c, p c = true -> q c = false) -> sall p s = true -> sany q s = false.
Proof.
  intros p q s Hpq; induction s as [|c s IH]; cbn [sall sany]; [reflexivity|].
  intros H. apply andb_true_iff in H. destruct H as [H1 H2]. now rewrite (Hpq _ H1), IH.
Qed.

Lemma sany_false_sall : forall (q : ascii -> bool) s, sany q s = false -> sall (fun c => negb (q c)) s = true.
Proof.
  intros q s; induction s as [|c s IH]; cbn [sall sany]; [reflexivity|].
  intros H. apply orb_false_iff in H. destruct H as [H1 H2]. now rewrite H1, IH.
Qed.

Lemma sall_smap : forall p f s, sall p (smap f s) = sall (fun c => p (f c)) s.
Proof. induction s as [|c s IH]; cbn [smap sall]; [reflexivity | now rewrite IH]. Qed.

Lemma smap_app : forall f a b, smap f (a +++ b) = smap f a +++ smap f b.
Proof. induction a as [|x a IH]; intros b; cbn [String.append smap]; [reflexivity | now rewrite IH]. Qed.

Lemma smap_srev : forall f s, smap f (srev s) = srev (smap f s).
Proof.
  induction s as [|c s IH]; [reflexivity|].
  cbn [smap]. rewrite !srev_cons, smap_app, IH. reflexivity.
Qed.

Lemma smap_length : forall f s, String.length (smap f s) = String.length s.
Proof. induction s as [|c s IH]; cbn [smap String.length]; [reflexivity | now rewrite IH]. Qed.

Lemma smap_smap : forall f g s, smap f (smap g s) = smap (fun c => f (g c)) s.
Proof. induction s as [|c s IH]; cbn [smap]; [reflexivity | now rewrite IH]. Qed.

(* ------------------------------------------------------------------ *)
(* the two exponent-marker maps                                        *)
(* ------------------------------------------------------------------ *)
Definition dconv_c (c : ascii) : ascii := if orb (Ascii.eqb c "e") (Ascii.eqb c "E") then "D"%char else c.
Definition repl_c (c : ascii) : ascii := if Ascii.eqb c "D" then "E"%char else if Ascii.eqb c "d" then "e"%char else c.
Definition norm_c (conv : bool) (c : ascii) : ascii := repl_c (if conv then dconv_c c else c).
Definition isexp (c : ascii) : bool := orb (orb (Ascii.eqb c "d") (Ascii.eqb c "D")) (orb (Ascii.eqb c "e") (Ascii.eqb c "E")).
(* the characters an is_floating string is made of *)
Definition fchar (c : ascii) : bool :=
  orb (is_digit c) (orb (orb (Ascii.eqb c "-") (Ascii.eqb c "+")) (orb (Ascii.eqb c ".") (isexp c))).
Definition keepc (c : ascii) : Prop :=
  is_digit c = true \/ Ascii.eqb c "." = true \/ Ascii.eqb c "-" = true \/ Ascii.eqb c "+" = true.

Lemma norm_smap : forall conv s, norm conv s = smap (norm_c conv) s.
Proof.
  intros conv s. unfold norm, replace_d, d_convert, norm_c. destruct conv.
  - rewrite smap_smap. reflexivity.
  - reflexivity.
Qed.

Lemma norm_c_keep : forall conv c, keepc c -> norm_c conv c = c.
Proof.
  intros conv c H. destruct conv; all_chars c; try reflexivity; exfalso;
    destruct H as [H|[H|[H|H]]]; discriminate H.
Qed.

Lemma nth_char_smap : forall f s i, nth_char i (smap f s) = option_map f (nth_char i s).
Proof.
  induction s as [|c s IH]; intros i; destruct i as [|i]; cbn [smap nth_char option_map]; try reflexivity.
  apply IH.
Qed.

Lemma norm_keeps_digits : norm_keeps_digits_stmt.
Proof.
  intros conv s. rewrite norm_smap. split; [apply smap_length|].
  intros i c Hn Hk. rewrite nth_char_smap, Hn. cbn [option_map]. f_equal. apply norm_c_keep. exact Hk.
Qed.

(* ------------------------------------------------------------------ *)
(* is_floating                                                         *)
(* ------------------------------------------------------------------ *)
Definition fl_tail (t : string) : bool :=
  match skip_digits t with
  | EmptyString => true
  | String c r => if isexp c
                  then match skip_sign r with
                       | String c2 r2 => andb (is_digit c2) (match skip_digits r2 with EmptyString => true | _ => false end)
                       | EmptyString => false
                       end
                  else false
  end.

Lemma is_floating_unfold : forall s,
  is_floating s = match skip_digits (skip_sign s) with
                  | String c t => if Ascii.eqb c "." then fl_tail t else false
                  | EmptyString => false
                  end.
Proof.
  intros s. unfold is_floating, fl_tail, isexp. destruct (skip_digits (skip_sign s)) as [|c t]; [reflexivity|].
  all_chars c; reflexivity.
Qed.

Lemma sall_skip_digits : forall p s, (forall c, is_digit c = true -> p c = true) ->
  sall p (skip_digits s) = true -> sall p s = true.
Proof.
  intros p s Hp; induction s as [|c s IH]; cbn [skip_digits sall]; [reflexivity|].
  destruct (is_digit c) eqn:Ed; [|trivial].
  intros H. now rewrite (Hp _ Ed), IH.
Qed.

Lemma sall_skip_sign : forall p s, p "-"%char = true -> p "+"%char = true ->
  sall p (skip_sign s) = true -> sall p s = true.
Proof.
  intros p s Hm Hpl. destruct s as [|c s]; cbn [skip_sign sall]; [reflexivity|].
  destruct (Ascii.eqb_spec c "-") as [->|N1]; cbn [orb]; [intros H; now rewrite Hm, H|].
  destruct (Ascii.eqb_spec c "+") as [->|N2]; [intros H; now rewrite Hpl, H | trivial].
Qed.

Lemma sany_skip_digits : forall p s, sany p (skip_digits s) = true -> sany p s = true.
Proof.
  intros p s; induction s as [|c s IH]; cbn [skip_digits sany]; [trivial|].
  destruct (is_digit c); [|trivial]. intros H. rewrite (IH H). apply orb_true_r.
Qed.

Lemma sany_skip_sign : forall p s, sany p (skip_sign s) = true -> sany p s = true.
Proof.
  intros p s. destruct s as [|c s]; cbn [skip_sign sany]; [trivial|].
  destruct (orb (Ascii.eqb c "-") (Ascii.eqb c "+")); [|trivial]. intros H. rewrite H. apply orb_true_r.
Qed.

Lemma fchar_digit : forall c, is_digit c = true -> fchar c = true.
Proof. intros c H. unfold fchar. now rewrite H. Qed.

Lemma fchar_exp : forall c, isexp c = true -> fchar c = true.
Proof. intros c H. unfold fchar. rewrite H. now rewrite !orb_true_r. Qed.

Lemma fl_tail_chars : forall t, fl_tail t = true -> sall fchar t = true.
Proof.
  intros t H. unfold fl_tail in H. apply (sall_skip_digits fchar t fchar_digit).
  destruct (skip_digits t) as [|c r]; [reflexivity|].
  destruct (isexp c) eqn:Ee; [|discriminate]. cbn [sall]. rewrite (fchar_exp _ Ee). cbn [andb].
  apply sall_skip_sign; [reflexivity | reflexivity |].
  destruct (skip_sign r) as [|c2 r2]; [discriminate|].
  apply andb_true_iff in H. destruct H as [H1 H2]. cbn [sall]. rewrite (fchar_digit _ H1). cbn [andb].
  apply (sall_skip_digits fchar r2 fchar_digit).
  destruct (skip_digits r2); [reflexivity | discriminate].
Qed.

Lemma floating_chars : forall s, is_floating s = true -> sall fchar s = true.
Proof.
  intros s H. rewrite is_floating_unfold in H.
  apply sall_skip_sign; [reflexivity | reflexivity |].
  apply (sall_skip_digits fchar _ fchar_digit).
  destruct (skip_digits (skip_sign s)) as [|c t]; [discriminate|].
  destruct (Ascii.eqb_spec c ".") as [->|N]; [|discriminate].
  cbn [sall]. change (fchar ".") with true. cbn [andb]. apply fl_tail_chars. exact H.
Qed.

Lemma fchar_not_space : forall c, fchar c = true -> is_space c = false.
Proof. intros c H. all_chars c; try reflexivity; discriminate H. Qed.

Lemma fchar_ascii : forall c, fchar c = true -> Nat.ltb (nat_of_ascii c) 128 = true.
Proof. intros c H. all_chars c; try reflexivity; discriminate H. Qed.

Lemma floating_is_cell : floating_is_cell_stmt.
Proof.
  intros s H. cbn [cell_ok]. split; [|split].
  - intros ->. discriminate H.
  - apply (sall_sany_false fchar); [exact fchar_not_space | now apply floating_chars].
  - rewrite is_floating_unfold in H. apply sany_skip_sign, sany_skip_digits.
    destruct (skip_digits (skip_sign s)) as [|c t]; [discriminate|].
    destruct (Ascii.eqb_spec c ".") as [->|N]; [reflexivity | discriminate].
Qed.

Lemma floating_ascii : forall s, is_floating s = true -> sall (fun c => Nat.ltb (nat_of_ascii c) 128) s = true.
Proof. intros s H. apply (sall_impl fchar); [exact fchar_ascii | now apply floating_chars]. Qed.

(* the marker maps keep is_floating *)
Section FloatMap.
  Variable f : ascii -> ascii.
  Hypothesis f_digit : forall c, is_digit (f c) = is_digit c.
  Hypothesis f_minus : forall c, Ascii.eqb (f c) "-" = Ascii.eqb c "-".
  Hypothesis f_plus : forall c, Ascii.eqb (f c) "+" = Ascii.eqb c "+".
  Hypothesis f_point : forall c, Ascii.eqb (f c) "." = Ascii.eqb c ".".
  Hypothesis f_exp : forall c, isexp (f c) = isexp c.

  Lemma skip_digits_smap : forall s, skip_digits (smap f s) = smap f (skip_digits s).
  Proof.
    induction s as [|c s IH]; [reflexivity|]. cbn [smap skip_digits]. rewrite f_digit.
    destruct (is_digit c); [exact IH | reflexivity].
  Qed.
  Lemma skip_sign_smap : forall s, skip_sign (smap f s) = smap f (skip_sign s).
  Proof.
    intros [|c s]; [reflexivity|]. cbn [smap skip_sign]. rewrite f_minus, f_plus.
    destruct (orb (Ascii.eqb c "-") (Ascii.eqb c "+")); reflexivity.
  Qed.
  Lemma fl_tail_smap : forall t, fl_tail (smap f t) = fl_tail t.
  Proof.
    intros t. unfold fl_tail. rewrite skip_digits_smap.
    destruct (skip_digits t) as [|c r]; [reflexivity|]. cbn [smap]. rewrite f_exp.
    destruct (isexp c); [|reflexivity]. rewrite skip_sign_smap.
    destruct (skip_sign r) as [|c2 r2]; [reflexivity|]. cbn [smap]. rewrite f_digit, skip_digits_smap.
    destruct (skip_digits r2); reflexivity.
  Qed.
  Lemma is_floating_smap : forall s, is_floating (smap f s) = is_floating s.
  Proof.
    intros s. rewrite !is_floating_unfold, skip_sign_smap, skip_digits_smap.
    destruct (skip_digits (skip_sign s)) as [|c t]; [reflexivity|]. cbn [smap]. rewrite f_point, fl_tail_smap. reflexivity.
  Qed.
End FloatMap.

Lemma is_floating_norm : forall conv s, is_floating (norm conv s) = is_floating s.
Proof.
  intros conv s. rewrite norm_smap. apply is_floating_smap; intros c; destruct conv; all_chars c; reflexivity.
Qed.

(* ------------------------------------------------------------------ *)
(* str(int): digits with an optional minus sign                        *)
(* ------------------------------------------------------------------ *)
Lemma digit_char_fchar : forall k, k < 10 -> is_digit (digit_char k) = true.
Proof. intros k H. do 10 (destruct k as [|k]; [reflexivity|]). lia. Qed.

Lemma pdf_chars : forall p, (forall k, k < 10 -> p (digit_char k) = true) ->
  forall f n acc, sall p acc = true -> sall p (pos_digits_fuel f n acc) = true.
Proof.
  intros p Hp; induction f as [|f IH]; intros n acc Ha; cbn [pos_digits_fuel]; [exact Ha|].
  assert (Hd : p (digit_char (N.to_nat (N.modulo n 10))) = true).
  { apply Hp. pose proof (N.mod_lt n 10). lia. }
  destruct (N.eqb (N.div n 10) 0).
  - cbn [sall]. now rewrite Hd, Ha.
  - apply IH. cbn [sall]. now rewrite Hd, Ha.
Qed.

Lemma pdf_ne : forall f n acc, acc <> "" -> pos_digits_fuel f n acc <> "".
Proof.
  induction f as [|f IH]; intros n acc Ha; cbn [pos_digits_fuel]; [exact Ha|].
  destruct (N.eqb (N.div n 10) 0); [discriminate | apply IH; discriminate].
Qed.

Lemma N_to_string_ne : forall n, N_to_string n <> "".
Proof.
  intros n. unfold N_to_string. cbn [pos_digits_fuel].
  destruct (N.eqb (N.div n 10) 0); [discriminate | apply pdf_ne; discriminate].
Qed.

Lemma Z_to_string_chars : forall z, sall fchar (Z_to_string z) = true.
Proof.
  assert (Hd : forall k, k < 10 -> fchar (digit_char k) = true) by (intros k Hk; apply fchar_digit, digit_char_fchar, Hk).
  intros [|p|p]; unfold Z_to_string, N_to_string; [reflexivity | now apply pdf_chars |].
  cbn [sall]. change (fchar "-") with true. cbn [andb]. now apply pdf_chars.
Qed.

Lemma Z_to_string_ne : forall z, Z_to_string z <> "".
Proof. intros [|p|p]; unfold Z_to_string; [discriminate | apply N_to_string_ne | discriminate]. Qed.

(* what the tokeniser needs from a cell *)
Definition tok_ok (w : string) : Prop := w <> "" /\ sany is_space w = false.

Lemma cell_ok_tok : forall c, cell_ok c -> tok_ok (cell_str c).
Proof.
  intros [z|s] H; cbn [cell_str].
  - split; [apply Z_to_string_ne|]. apply (sall_sany_false fchar); [exact fchar_not_space | apply Z_to_string_chars].
  - destruct H as [H1 [H2 _]]. split; assumption.
Qed.

(* ------------------------------------------------------------------ *)
(* the tokeniser                                                       *)
(* ------------------------------------------------------------------ *)
Lemma tokens_word : forall w rest cur, sany is_space w = false ->
  tokens_acc (w +++ rest) cur = tokens_acc rest (srev w +++ cur).
Proof.
  induction w as [|c w IH]; intros rest cur H; [reflexivity|].
  cbn [sany] in H. apply orb_false_iff in H. destruct H as [Hc Hw].
  cbn [String.append tokens_acc]. rewrite Hc, (IH _ _ Hw), srev_cons, sapp_assoc. reflexivity.
Qed.

Lemma tokens_sp : forall n rest, tokens_acc (sp n +++ rest) "" = tokens_acc rest "".
Proof. induction n as [|n IH]; intros rest; [reflexivity|]. cbn [sp String.append tokens_acc] in *. exact (IH rest). Qed.

Lemma tokens_sp_word : forall n w, tok_ok w -> tokens_acc (sp n +++ w) "" = [w].
Proof.
  intros n w [Hne Hs]. rewrite tokens_sp. rewrite <- (sapp_nil_r w) at 1. rewrite (tokens_word _ _ _ Hs), sapp_nil_r.
  cbn [tokens_acc]. destruct (srev w) as [|a r] eqn:E.
  - exfalso. apply Hne. rewrite <- (srev_involutive w), E. reflexivity.
  - rewrite <- E, srev_involutive. reflexivity.
Qed.

(* appending "at least one blank, then a word" adds exactly that word *)
Lemma tokens_snoc : forall n w, tok_ok w -> forall line cur,
  tokens_acc (line +++ sp (S n) +++ w) cur = tokens_acc line cur ++ [w].
Proof.
  intros n w Hw; induction line as [|c t IH]; intros cur.
  - change ("" +++ sp (S n) +++ w) with (String " " (sp n +++ w)). cbn [tokens_acc].
    change (is_space " ") with true. cbv iota. rewrite (tokens_sp_word n w Hw).
    destruct cur; reflexivity.
  - cbn [String.append tokens_acc]. destruct (is_space c).
    + destruct cur; rewrite IH; reflexivity.
    + apply IH.
Qed.

Lemma write_row_tokens_gen : forall cells pps first line out,
  Forall cell_ok cells -> (first = true -> line = "") ->
  write_row cells pps first line = inr out ->
  tokens_acc out "" = tokens_acc line "" ++ map cell_str cells.
Proof.
  induction cells as [|c cells IH]; intros pps first line out Hok Hfirst H.
  - cbn in H. inversion H; subst. cbn [map]. now rewrite app_nil_r.
  - inversion Hok as [|? ? Hc Hcs]; subst.
    cbn [write_row] in H. destruct pps as [|pp ppt]; [discriminate|].
    unfold bind in H. destruct (find_point c) as [e|fp]; [discriminate|].
    apply IH in H; [|exact Hcs|discriminate].
    rewrite H. cbn [map]. change (cell_str c :: map cell_str cells) with ([cell_str c] ++ map cell_str cells).
    rewrite app_assoc. f_equal.
    pose proof (cell_ok_tok c Hc) as Hw.
    destruct first.
    + rewrite (Hfirst eq_refl). cbn [String.append tokens_acc app]. apply tokens_sp_word. exact Hw.
    + remember (Nat.max (Z.to_nat (Z.max (pp - 1 - Z.of_nat fp) 0) - String.length line) 1) as g eqn:Eg.
      destruct g as [|g]; [lia|]. apply tokens_snoc. exact Hw.
Qed.

Lemma write_row_tokens : write_row_tokens_stmt.
Proof.
  intros cells pps line Hok _ H. apply (write_row_tokens_gen cells pps true "" line Hok) in H; [exact H | reflexivity].
Qed.

(* ------------------------------------------------------------------ *)
(* transpose: elementwise properties and row lengths                   *)
(* ------------------------------------------------------------------ *)
Lemma zipcons_Forall : forall (A : Type) (P : A -> Prop) (r : list A) t,
  Forall P r -> Forall (Forall P) t -> Forall (Forall P) (zipcons r t).
Proof.
  intros A P; induction r as [|x r IH]; intros [|row t] Hr Ht; cbn [zipcons]; try constructor.
  - inversion Hr; inversion Ht; subst. constructor; assumption.
  - inversion Hr; inversion Ht; subst. apply IH; assumption.
Qed.

Lemma transpose_Forall : forall (A : Type) (P : A -> Prop) (M : list (list A)),
  Forall (Forall P) M -> Forall (Forall P) (transpose M).
Proof.
  intros A P; induction M as [|r M IH]; intros H; [constructor|].
  inversion H as [|? ? Hr HM]; subst. destruct M as [|r2 M].
  - cbn [transpose]. clear -Hr. induction Hr as [|x r Hx Hr IH]; cbn [map]; constructor; [repeat constructor; exact Hx | exact IH].
  - change (transpose (r :: r2 :: M)) with (zipcons r (transpose (r2 :: M))).
    apply zipcons_Forall; [exact Hr | apply IH; exact HM].
Qed.

Lemma zipcons_rowlen : forall (A : Type) m (r : list A) t,
  Forall (fun row => List.length row = m) t -> Forall (fun row => List.length row = S m) (zipcons r t).
Proof.
  intros A m; induction r as [|x r IH]; intros [|row t] Ht; cbn [zipcons]; try constructor.
  - inversion Ht; subst. reflexivity.
  - inversion Ht; subst. apply IH; assumption.
Qed.

Lemma transpose_rowlen : forall (A : Type) (M : list (list A)),
  Forall (fun row => List.length row = List.length M) (transpose M).
Proof.
  intros A; induction M as [|r M IH]; [constructor|]. destruct M as [|r2 M].
  - cbn [transpose]. clear. induction r as [|x r IH]; cbn [map]; constructor; [reflexivity | exact IH].
  - change (transpose (r :: r2 :: M)) with (zipcons r (transpose (r2 :: M))).
    apply zipcons_rowlen. exact IH.
Qed.

(* ------------------------------------------------------------------ *)
(* totality                                                            *)
(* ------------------------------------------------------------------ *)
Lemma index_char_some : forall s i, sany (Ascii.eqb ".") s = true -> exists j, index_char "." s i = Some j.
Proof.
  induction s as [|a s IH]; intros i H; [discriminate|].
  cbn [sany] in H. cbn [index_char]. rewrite (Ascii.eqb_sym a "."). destruct (Ascii.eqb "." a).
  - eexists; reflexivity.
  - apply IH. exact H.
Qed.

Lemma find_point_ok : forall c, cell_ok c -> exists fp, find_point c = inr fp.
Proof.
  intros [z|s] H; cbn [find_point]; [eexists; reflexivity|].
  destruct H as [_ [_ H]]. destruct (index_char_some s 0 H) as [j ->]. eexists; reflexivity.
Qed.

Lemma write_row_total : forall cells pps first line,
  Forall cell_ok cells -> List.length cells <= List.length pps -> exists out, write_row cells pps first line = inr out.
Proof.
  induction cells as [|c cells IH]; intros pps first line Hok Hl; [eexists; reflexivity|].
  inversion Hok as [|? ? Hc Hcs]; subst. destruct pps as [|pp ppt]; [cbn in Hl; lia|].
  cbn [write_row]. destruct (find_point_ok c Hc) as [fp ->]. unfold bind. apply IH; [exact Hcs | cbn in Hl; lia].
Qed.

Lemma mapM_total : forall (A B : Type) (f : A -> res B) l,
  Forall (fun a => exists b, f a = inr b) l -> exists r, mapM f l = inr r.
Proof.
  intros A B f; induction l as [|a l IH]; intros H; [eexists; reflexivity|].
  inversion H as [|? ? [b Hb] Hl]; subst. destruct (IH Hl) as [r Hr].
  cbn [mapM]. unfold bind. rewrite Hb, Hr. eexists; reflexivity.
Qed.

Lemma write_matrix_total : write_matrix_total_stmt.
Proof.
  intros mat pps n conv _ Hok Hl. unfold write_matrix, transpose_cells.
  destruct (mapM_total _ _ (fun row => write_row row pps true "") (transpose mat)) as [rows Hrows].
  - pose proof (transpose_Forall _ _ mat Hok) as H1. pose proof (transpose_rowlen _ mat) as H2.
    rewrite Forall_forall in *. intros row Hin. apply write_row_total; [apply H1, Hin|]. rewrite (H2 _ Hin). exact Hl.
  - rewrite Hrows. unfold bind, ok. eexists; reflexivity.
Qed.

(* ------------------------------------------------------------------ *)
(* splitlines on lines that contain no line boundary                   *)
(* ------------------------------------------------------------------ *)
(* bytes that cannot start a line boundary *)
Definition nobd (c : ascii) : bool :=
  negb (orb (beq c 13) (orb (beq c 10) (orb (beq c 11) (orb (beq c 12) (orb (beq c 28) (orb (beq c 29) (orb (beq c 30)
       (orb (beq c 194) (beq c 226))))))))).
Definition ascii7 (c : ascii) : bool := Nat.ltb (nat_of_ascii c) 128.

Lemma nobd_boundary : forall c t, nobd c = true -> boundary_len (String c t) = 0.
Proof.
  intros c t H. unfold nobd in H. apply negb_true_iff in H.
  repeat (apply orb_false_iff in H; let E := fresh "E" in destruct H as [E H]).
  unfold boundary_len. rewrite E, E0, E1, E2, E3, E4, E5, E6, H. reflexivity.
Qed.

Lemma nobd_of_ascii : forall c, is_space c = false -> ascii7 c = true -> nobd c = true.
Proof. intros c H1 H2. all_chars c; try reflexivity; try discriminate H1; discriminate H2. Qed.

Lemma spl_line : forall l rest cur b, sall nobd l = true ->
  spl false (l +++ String (byte 10) rest) cur 0 b = srev (srev l +++ cur) :: spl false rest "" 0 "".
Proof.
  induction l as [|c l IH]; intros rest cur b H.
  - cbn [String.append spl]. assert (E : boundary_len (String (byte 10) rest) = 1) by reflexivity.
    rewrite E. reflexivity.
  - cbn [sall] in H. apply andb_true_iff in H. destruct H as [Hc Hl].
    cbn [String.append spl]. rewrite (nobd_boundary c _ Hc), (IH rest (String c cur) "" Hl), srev_cons, sapp_assoc.
    reflexivity.
Qed.

Lemma splitlines_rows : forall rows, Forall (fun r => sall nobd r = true) rows ->
  splitlines (String.concat "" (map (fun r => r +++ nl1) rows)) = rows.
Proof.
  unfold splitlines. induction rows as [|r rows IH]; intros H; [reflexivity|].
  inversion H as [|? ? Hr Hrs]; subst. cbn [map]. rewrite concat_cons. unfold nl1 at 1. rewrite sapp_assoc.
  cbn [String.append]. rewrite (spl_line r _ "" "" Hr), sapp_nil_r, srev_involutive, (IH Hrs). reflexivity.
Qed.

Lemma smap_lines : forall f rows, f (byte 10) = byte 10 ->
  smap f (String.concat "" (map (fun r => r +++ nl1) rows)) = String.concat "" (map (fun r => r +++ nl1) (map (smap f) rows)).
Proof.
  intros f rows Hf; induction rows as [|r rows IH]; [reflexivity|].
  cbn [map]. rewrite !concat_cons, smap_app, smap_app, IH. unfold nl1. cbn [smap]. rewrite Hf. reflexivity.
Qed.

(* ------------------------------------------------------------------ *)
(* the characters of a printed row                                     *)
(* ------------------------------------------------------------------ *)
Lemma sall_sp : forall p n, p " "%char = true -> sall p (sp n) = true.
Proof.
  intros p n H; induction n as [|n IH]; [reflexivity|].
  change (sp (S n)) with (String " " (sp n)). cbn [sall]. now rewrite H, IH.
Qed.

Lemma write_row_chars : forall p, p " "%char = true -> forall cells pps first line out,
  Forall (fun c => sall p (cell_str c) = true) cells -> sall p line = true ->
  write_row cells pps first line = inr out -> sall p out = true.
Proof.
  intros p Hsp; induction cells as [|c cells IH]; intros pps first line out Hc Hl H.
  - cbn in H. inversion H; subst. exact Hl.
  - inversion Hc as [|? ? Hc1 Hcs]; subst. cbn [write_row] in H. destruct pps as [|pp ppt]; [discriminate|].
    unfold bind in H. destruct (find_point c) as [e|fp]; [discriminate|].
    apply IH in H; [exact H | exact Hcs |]. rewrite !sall_app, Hl, Hc1, (sall_sp p _ Hsp). reflexivity.
Qed.

Definition cell_ascii (c : cell) : Prop := sall (fun ch => Nat.ltb (nat_of_ascii ch) 128) (cell_str c) = true.

Lemma sall_and : forall (p q r : ascii -> bool) s, (forall c, p c = true -> q c = true -> r c = true) ->
  sall p s = true -> sall q s = true -> sall r s = true.
Proof.
  intros p q r s Hpqr; induction s as [|c s IH]; cbn [sall]; [reflexivity|].
  intros H1 H2. apply andb_true_iff in H1. apply andb_true_iff in H2. destruct H1 as [A1 A2]. destruct H2 as [B1 B2].
  now rewrite (Hpqr _ A1 B1), IH.
Qed.

Lemma cell_nobd : forall c, cell_ok c -> cell_ascii c -> sall nobd (cell_str c) = true.
Proof.
  intros c Hok Ha. destruct (cell_ok_tok c Hok) as [_ Hs]. apply sany_false_sall in Hs.
  apply (sall_and (fun ch => negb (is_space ch)) ascii7 nobd); [|exact Hs|exact Ha].
  intros ch H1 H2. apply nobd_of_ascii; [now apply negb_true_iff | exact H2].
Qed.

Lemma Forall2_Forall_r : forall (A B : Type) (R : A -> B -> Prop) (P : A -> Prop) (Q : B -> Prop) l r,
  (forall a b, P a -> R a b -> Q b) -> Forall P l -> Forall2 R l r -> Forall Q r.
Proof.
  intros A B R P Q l r H HP F2; induction F2 as [|a b l r Hab F2 IH]; [constructor|].
  inversion HP; subst. constructor; [eapply H; eassumption | apply IH; assumption].
Qed.

Lemma Forall_and : forall (A : Type) (P Q : A -> Prop) l, Forall P l -> Forall Q l -> Forall (fun x => P x /\ Q x) l.
Proof. intros A P Q l HP HQ. rewrite Forall_forall in *. intros x Hx. split; [apply HP | apply HQ]; exact Hx. Qed.

Definition conv_text (conv : bool) (s : string) : string := if conv then d_convert s else s.

Lemma nobd_dconv : forall c, nobd c = true -> nobd (dconv_c c) = true.
Proof. intros c H. all_chars c; try reflexivity; discriminate H. Qed.

(* the shape of what write_matrix prints *)
Lemma write_matrix_lines : forall mat pps conv text,
  Forall (Forall cell_ok) mat -> Forall (Forall cell_ascii) mat ->
  write_matrix mat pps conv = inr text ->
  exists rows, Forall2 (fun row line => write_row row pps true "" = inr line) (transpose mat) rows /\
               splitlines text = map (conv_text conv) rows.
Proof.
  intros mat pps conv text Hok Hasc H. unfold write_matrix, transpose_cells in H.
  destruct (mapM (fun row => write_row row pps true "") (transpose mat)) as [e|rows] eqn:Em; [discriminate|].
  unfold bind, ok in H. inversion H; subst; clear H.
  pose proof (mapM_Forall2 _ _ _ _ _ Em) as F2. exists rows. split; [exact F2|].
  assert (Hrows : Forall (fun r => sall nobd r = true) rows).
  { pose proof (Forall_and _ _ _ _ (transpose_Forall _ _ mat Hok) (transpose_Forall _ _ mat Hasc)) as HT.
    refine (Forall2_Forall_r _ _ _ _ _ _ _ _ HT F2). intros row line [H1 H2] Hw. cbv beta in Hw.
    apply (write_row_chars nobd eq_refl row pps true "" line); [|reflexivity|exact Hw].
    rewrite Forall_forall in *. intros c Hc. apply cell_nobd; [apply H1 | apply H2]; exact Hc. }
  destruct conv; cbn [conv_text].
  - unfold d_convert. rewrite smap_lines by reflexivity. rewrite splitlines_rows; [reflexivity|].
    rewrite Forall_forall in *. intros r Hr. apply in_map_iff in Hr. destruct Hr as [r0 [<- Hr0]].
    rewrite sall_smap. apply (sall_impl nobd); [exact nobd_dconv | apply Hrows, Hr0].
  - rewrite splitlines_rows by exact Hrows. rewrite map_id. reflexivity.
Qed.

Lemma Forall2_impl_l : forall (A B : Type) (R R' : A -> B -> Prop) (P : A -> Prop) l r,
  (forall a b, P a -> R a b -> R' a b) -> Forall P l -> Forall2 R l r -> Forall2 R' l r.
Proof.
  intros A B R R' P l r H HP F2; induction F2 as [|a b l r Hab F2 IH]; [constructor|].
  inversion HP; subst. constructor; [apply H; assumption | apply IH; assumption].
Qed.

Lemma Forall2_map_eq : forall (A B C : Type) (f : A -> C) (g : B -> C) l r,
  Forall2 (fun a b => g b = f a) l r -> map g r = map f l.
Proof. intros A B C f g l r F2; induction F2 as [|a b l r Hab F2 IH]; cbn [map]; [reflexivity | now rewrite Hab, IH]. Qed.

(* write_matrix_tokens_stmt is false as written: a cell may contain one of the multi-byte line boundaries
   (U+0085 = C2 85, U+2028/9 = E2 80 A8/A9), which are not white space for cell_ok but split the line. *)
Definition wmt_bad : string := String "." (String (byte 194) (String (byte 133) "")).
Lemma write_matrix_tokens_counterexample : ~ write_matrix_tokens_stmt.
Proof.
  intros H. specialize (H [[CStr wmt_bad]] [0%Z] 1 (wmt_bad +++ nl1)).
  assert (Hr : rectangular [[CStr wmt_bad]] 1) by (split; [discriminate | repeat constructor]).
  assert (Hok : Forall (Forall cell_ok) [[CStr wmt_bad]]).
  { constructor; [|constructor]. constructor; [|constructor]. cbn [cell_ok]. repeat split. discriminate. }
  specialize (H Hr Hok (le_n _) eq_refl). vm_compute in H. discriminate H.
Qed.

Lemma write_matrix_tokens_partial :
  forall mat pps n text, rectangular mat n -> Forall (Forall cell_ok) mat ->
    Forall (Forall (fun c => sall (fun ch => Nat.ltb (nat_of_ascii ch) 128) (cell_str c) = true)) mat ->
    List.length mat <= List.length pps ->
    write_matrix mat pps false = inr text ->
    map (fun l => tokens_acc l "") (splitlines text) = map (map cell_str) (transpose_cells mat).
Proof.
  intros mat pps n text _ Hok Hasc _ H.
  destruct (write_matrix_lines mat pps false text Hok Hasc H) as [rows [F2 ->]].
  cbn [conv_text]. rewrite map_id. unfold transpose_cells.
  apply Forall2_map_eq.
  refine (Forall2_impl_l _ _ _ _ _ _ _ _ (transpose_Forall _ _ mat Hok) F2).
  intros row line Hrow Hw. cbv beta in Hw. exact (write_row_tokens_gen row pps true "" line Hrow (fun _ => eq_refl) Hw).
Qed.

(* ------------------------------------------------------------------ *)
(* reader side: strip, replace_d and the tokeniser                     *)
(* ------------------------------------------------------------------ *)
Lemma tokens_smap : forall f, (forall c, is_space (f c) = is_space c) ->
  forall s cur, tokens_acc (smap f s) (smap f cur) = map (smap f) (tokens_acc s cur).
Proof.
  intros f Hf; induction s as [|c s IH]; intros cur.
  - cbn [smap tokens_acc]. destruct cur as [|a cur]; [reflexivity|].
    cbn [smap map]. change (String (f a) (smap f cur)) with (smap f (String a cur)). rewrite <- smap_srev. reflexivity.
  - cbn [smap tokens_acc]. rewrite Hf. destruct (is_space c).
    + destruct cur as [|a cur]; [exact (IH "")|].
      cbn [smap map]. change (String (f a) (smap f cur)) with (smap f (String a cur)). rewrite <- smap_srev.
      f_equal. exact (IH "").
    + exact (IH (String c cur)).
Qed.

Lemma tokens_lstrip : forall s, tokens_acc (lstrip_ws s) "" = tokens_acc s "".
Proof.
  induction s as [|c s IH]; [reflexivity|]. cbn [lstrip_ws]. destruct (is_space c) eqn:E; [|reflexivity].
  cbn [tokens_acc]. rewrite E. exact IH.
Qed.

Lemma tokens_trail : forall c, is_space c = true -> forall s cur, tokens_acc (s +++ String c "") cur = tokens_acc s cur.
Proof.
  intros c Hc; induction s as [|a s IH]; intros cur.
  - cbn [String.append tokens_acc]. rewrite Hc. destruct cur; reflexivity.
  - cbn [String.append tokens_acc]. destruct (is_space a); [destruct cur; now rewrite IH | apply IH].
Qed.

Lemma tokens_rstrip : forall x, tokens_acc (srev (lstrip_ws x)) "" = tokens_acc (srev x) "".
Proof.
  induction x as [|c x IH]; [reflexivity|]. cbn [lstrip_ws]. destruct (is_space c) eqn:E; [|reflexivity].
  rewrite srev_cons, (tokens_trail c E). exact IH.
Qed.

Lemma tokens_strip : forall s, tokens_acc (strip_ws s) "" = tokens_acc s "".
Proof. intros s. unfold strip_ws. rewrite tokens_rstrip, srev_involutive. apply tokens_lstrip. Qed.

Lemma repl_c_space : forall c, is_space (repl_c c) = is_space c.
Proof. intros c. all_chars c; reflexivity. Qed.
Lemma dconv_c_space : forall c, is_space (dconv_c c) = is_space c.
Proof. intros c. all_chars c; reflexivity. Qed.

Lemma tokens_read : forall conv line,
  tokens_acc (replace_d (strip_ws (conv_text conv line))) "" = map (norm conv) (tokens_acc line "").
Proof.
  intros conv line. unfold replace_d. fold repl_c.
  rewrite (tokens_smap repl_c repl_c_space _ ""), tokens_strip.
  destruct conv; cbn [conv_text].
  - unfold d_convert. fold dconv_c. rewrite (tokens_smap dconv_c dconv_c_space _ ""), map_map. reflexivity.
  - reflexivity.
Qed.

(* the per-line function of parse_primitive_matrix *)
Definition pline (l : string) : res (string * list string) :=
  match split_ws (replace_d (strip_ws l)) with
  | e :: c => if negb (is_floating e) then fail ERuntime else
              if negb (forallb is_floating c) then fail ERuntime else ok (e, c)
  | [] => fail EIndex
  end.

Lemma pline_row : forall conv line e c,
  tokens_acc line "" = e :: c -> is_floating e = true -> Forall (fun s => is_floating s = true) c ->
  pline (conv_text conv line) = inr (norm conv e, map (norm conv) c).
Proof.
  intros conv line e c Ht He Hc. unfold pline, split_ws. rewrite tokens_read, Ht. cbn [map].
  rewrite is_floating_norm, He. cbn [negb].
  assert (Hf : forallb is_floating (map (norm conv) c) = true).
  { apply forallb_forall. intros x Hx. apply in_map_iff in Hx. destruct Hx as [y [<- Hy]].
    rewrite is_floating_norm. rewrite Forall_forall in Hc. apply Hc, Hy. }
  rewrite Hf. reflexivity.
Qed.

Lemma parse_rows : forall conv exps T rows,
  List.length exps = List.length T ->
  Forall (fun s => is_floating s = true) exps -> Forall (Forall (fun s => is_floating s = true)) T ->
  Forall2 (fun srow line => tokens_acc line "" = srow) (zipcons exps T) rows ->
  mapM pline (map (conv_text conv) rows) = inr (combine (map (norm conv) exps) (map (map (norm conv)) T)).
Proof.
  intros conv; induction exps as [|e exps IH]; intros [|c T] rows Hl He HT F2; cbn in Hl; try discriminate.
  - cbn [zipcons] in F2. inversion F2; subst. reflexivity.
  - cbn [zipcons] in F2. inversion F2 as [|? line ? rows' Hline F2']; subst.
    inversion He; inversion HT; subst.
    cbn [map mapM combine]. rewrite (pline_row conv line e c Hline) by assumption.
    unfold bind. rewrite (IH T rows') by (assumption || lia). reflexivity.
Qed.

Lemma map_fst_combine : forall (A B : Type) (a : list A) (b : list B), List.length a = List.length b -> map fst (combine a b) = a.
Proof. intros A B; induction a as [|x a IH]; intros [|y b] H; cbn in *; try discriminate; [reflexivity | now rewrite IH by lia]. Qed.
Lemma map_snd_combine : forall (A B : Type) (a : list A) (b : list B), List.length a = List.length b -> map snd (combine a b) = b.
Proof. intros A B; induction a as [|x a IH]; intros [|y b] H; cbn in *; try discriminate; [reflexivity | now rewrite IH by lia]. Qed.

(* ------------------------------------------------------------------ *)
(* transpose: map and involution                                       *)
(* ------------------------------------------------------------------ *)
Lemma zipcons_map : forall (A B : Type) (f : A -> B) r t, zipcons (map f r) (map (map f) t) = map (map f) (zipcons r t).
Proof. intros A B f; induction r as [|x r IH]; intros [|row t]; cbn [map zipcons]; try reflexivity. now rewrite IH. Qed.

Lemma transpose_map : forall (A B : Type) (f : A -> B) M, transpose (map (map f) M) = map (map f) (transpose M).
Proof.
  intros A B f; induction M as [|r M IH]; [reflexivity|]. destruct M as [|r2 M].
  - cbn [map transpose]. rewrite !map_map. reflexivity.
  - change (transpose (r :: r2 :: M)) with (zipcons r (transpose (r2 :: M))).
    change (transpose (map (map f) (r :: r2 :: M))) with (zipcons (map f r) (transpose (map (map f) (r2 :: M)))).
    rewrite IH. apply zipcons_map.
Qed.

Lemma transpose_involutive : forall (A : Type) (d : A) k (M : list (list A)),
  k <> 0 -> M <> [] -> Forall (fun r => List.length r = k) M -> transpose (transpose M) = M.
Proof.
  intros A d k M Hk Hne HF.
  destruct (transpose_spec A d k M Hne HF) as [Tl Tn].
  assert (TF : Forall (fun r => List.length r = List.length M) (transpose M)) by apply transpose_rowlen.
  assert (Tne : transpose M <> []) by (intros E; rewrite E in Tl; cbn in Tl; lia).
  destruct (transpose_spec A d (List.length M) (transpose M) Tne TF) as [TTl TTn].
  apply nth_ext with (d := []) (d' := []); [exact TTl|].
  intros j Hj. rewrite TTl in Hj. rewrite (TTn j Hj). symmetry. apply (transpose_col A d k M j HF Hj).
Qed.

(* ------------------------------------------------------------------ *)
(* round trip                                                          *)
(* ------------------------------------------------------------------ *)
Lemma parse_primitive_matrix_unfold : forall lines,
  parse_primitive_matrix lines =
  (do rows <- mapM pline lines;
   let coefs := map snd rows in
   match coefs with
   | [] => fail ERuntime
   | c0 :: _ =>
     if existsb (fun c => orb (Nat.eqb (List.length c) 0) (negb (Nat.eqb (List.length c) (List.length c0)))) coefs then fail ERuntime
     else ok (map fst rows, @transpose string coefs)
   end).
Proof. reflexivity. Qed.

Lemma floats_cells : forall l, Forall (fun s => is_floating s = true) l ->
  Forall cell_ok (map CStr l) /\ Forall cell_ascii (map CStr l).
Proof.
  intros l H. rewrite !Forall_forall in *. split; intros c Hc; apply in_map_iff in Hc; destruct Hc as [s [<- Hs]].
  - apply floating_is_cell, H, Hs.
  - apply floating_ascii, H, Hs.
Qed.

Lemma Forall2_map_l : forall (A B C : Type) (f : A -> B) (R : B -> C -> Prop) l r,
  Forall2 R (map f l) r -> Forall2 (fun a b => R (f a) b) l r.
Proof.
  intros A B C f R; induction l as [|a l IH]; intros r H; cbn [map] in H; inversion H; subst; constructor; [assumption | now apply IH].
Qed.

Lemma existsb_false : forall (A : Type) (p : A -> bool) l, (forall x, In x l -> p x = false) -> existsb p l = false.
Proof.
  intros A p; induction l as [|a l IH]; intros H; [reflexivity|]. cbn [existsb].
  rewrite (H a (or_introl eq_refl)), IH; [reflexivity | intros x Hx; apply H; right; exact Hx].
Qed.

Lemma matrix_roundtrip : matrix_roundtrip_stmt.
Proof.
  intros exps coefs pps conv text n Hn Hle Hcne HcF He Hc Hpp H.
  (* the printed cells are fine *)
  assert (Hcells : Forall (Forall cell_ok) (map CStr exps :: map (map CStr) coefs) /\
                   Forall (Forall cell_ascii) (map CStr exps :: map (map CStr) coefs)).
  { destruct (floats_cells exps He) as [A1 A2]. split; (constructor; [assumption|]);
      rewrite Forall_forall in *; intros col Hcol; apply in_map_iff in Hcol; destruct Hcol as [c [<- Hin]];
      apply floats_cells, Hc, Hin. }
  destruct Hcells as [Hok Hasc].
  destruct (write_matrix_lines _ pps conv text Hok Hasc H) as [rows [F2 Hs]].
  rewrite Hs. clear H Hs Hok Hasc.
  change (map CStr exps :: map (map CStr) coefs) with (map (map CStr) (exps :: coefs)) in F2.
  rewrite transpose_map in F2. apply Forall2_map_l in F2.
  assert (HTf : Forall (Forall (fun s => is_floating s = true)) (transpose (exps :: coefs))).
  { apply transpose_Forall. constructor; assumption. }
  assert (F2' : Forall2 (fun srow line => tokens_acc line "" = srow) (transpose (exps :: coefs)) rows).
  { refine (Forall2_impl_l _ _ _ _ _ _ _ _ HTf F2). intros srow line Hsrow Hw. cbv beta in Hw.
    destruct (floats_cells srow Hsrow) as [Hrow _].
    apply (write_row_tokens_gen _ pps true "" line Hrow (fun _ => eq_refl)) in Hw.
    rewrite Hw. cbn [tokens_acc app]. rewrite map_map. cbn [cell_str]. apply map_id. }
  clear F2.
  destruct (transpose_spec string "" n coefs Hcne HcF) as [Tl _].
  assert (HT : Forall (Forall (fun s => is_floating s = true)) (transpose coefs)) by (apply transpose_Forall; exact Hc).
  assert (Ez : transpose (exps :: coefs) = zipcons exps (transpose coefs)).
  { destruct coefs as [|c0 coefs']; [congruence | reflexivity]. }
  rewrite Ez in F2'.
  rewrite parse_primitive_matrix_unfold.
  rewrite (parse_rows conv exps (transpose coefs) rows) by (assumption || congruence).
  unfold bind. cbv zeta.
  rewrite map_snd_combine, map_fst_combine by (rewrite !map_length; congruence).
  assert (Hlen : Forall (fun c => List.length c = List.length coefs) (map (map (norm conv)) (transpose coefs))).
  { pose proof (transpose_rowlen _ coefs) as R. rewrite Forall_forall in *. intros c Hin.
    apply in_map_iff in Hin. destruct Hin as [t [<- Ht]]. rewrite map_length. apply R, Ht. }
  assert (Hm : List.length coefs <> 0) by (destruct coefs; [congruence | cbn; lia]).
  rewrite <- transpose_map. rewrite <- transpose_map in Hlen.
  rewrite (transpose_involutive string "" n (map (map (norm conv)) coefs)).
  - destruct (transpose (map (map (norm conv)) coefs)) as [|c0 C] eqn:EC.
    + exfalso. rewrite transpose_map in EC. apply (f_equal (@List.length _)) in EC. rewrite map_length in EC. cbn in EC. lia.
    + rewrite existsb_false; [reflexivity|].
      intros c Hin. rewrite Forall_forall in Hlen. rewrite (Hlen c Hin), (Hlen c0 (or_introl eq_refl)).
      rewrite Nat.eqb_refl. cbn [negb orb]. rewrite orb_false_r. apply Nat.eqb_neq. exact Hm.
  - exact Hn.
  - destruct coefs; [congruence | discriminate].
  - rewrite Forall_forall in *. intros c Hin. apply in_map_iff in Hin. destruct Hin as [t [<- Ht]].
    rewrite map_length. apply HcF, Ht.
Qed.

Print Assumptions floating_is_cell.
Print Assumptions write_row_tokens.
Print Assumptions norm_keeps_digits.
Print Assumptions write_matrix_total.
Print Assumptions write_matrix_tokens_counterexample.
Print Assumptions write_matrix_tokens_partial.
Print Assumptions matrix_roundtrip.
