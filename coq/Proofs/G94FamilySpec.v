(* Proofs of the statements of Proofs/G94FamilyDefs.v: write_g94lib, write_xtron and write_psi4 are total on well-formed
   input and every number of the input is a token of some line of the text.
   Sections 1 - 4 are generic (lines, tokens, printed matrices, one ECP block) and are reused by Proofs/QchemSpec.v. *)
From BSE Require Import Model.Val Model.Text Model.Num Model.Basis Model.Manip Model.Matrix Gen.GenLut Model.Lut
                        Model.Elements Model.Sort Model.Nwchem Model.G94 Model.G94Ecp Model.G94Family Proofs.MatrixDefs
                        Proofs.NwchemDefs Proofs.G94Defs Proofs.G94EcpDefs Proofs.G94FamilyDefs Proofs.C20Finite.
From BSE Require Proofs.ElementsSpec.
From Coq Require Import NArith Nnat Znat Permutation.
From BSE Require Import Proofs.HeaderSpec Proofs.PruneFS Proofs.MatrixSpec Proofs.NwchemSpec Proofs.G94Spec Proofs.G94EcpSpec.

(* ================================================================== *)
(* 1. texts made of good lines, and the tokens on them                 *)
(* ================================================================== *)
(* every word of W is a token of some line of L *)
Definition toks_in (W : string -> Prop) (L : list string) : Prop :=
  forall w, W w -> exists line, In line L /\ In w (tokens_acc line "").
(* r is the text whose lines are L (none of them contains a line boundary) *)
Definition wr (r : res string) (L : list string) : Prop := r = inr (unlines L) /\ Forall good_line L.

Lemma toks_in_incl : forall (W : string -> Prop) L L', incl L L' -> toks_in W L -> toks_in W L'.
Proof. intros W L L' Hi H w Hw. destruct (H w Hw) as [line [Hl Ht]]. exists line. split; [apply Hi, Hl | exact Ht]. Qed.

Lemma toks_in_weaken : forall (W W' : string -> Prop) L, (forall w, W' w -> W w) -> toks_in W L -> toks_in W' L.
Proof. intros W W' L Hi H w Hw. apply H, Hi, Hw. Qed.

Lemma Forall_app_intro : forall (A : Type) (P : A -> Prop) l1 l2, Forall P l1 -> Forall P l2 -> Forall P (l1 ++ l2).
Proof. intros A P l1 l2 H1 H2. apply Forall_app. split; assumption. Qed.

(* a loop `for x in l: s += f(x)` all of whose iterations print good lines *)
Lemma mapM_wr : forall (A : Type) (f : A -> res string) (W : A -> string -> Prop) (l : list A),
  (forall x, In x l -> exists L, wr (f x) L /\ toks_in (W x) L) ->
  exists parts L, mapM f l = inr parts /\ String.concat "" parts = unlines L /\ Forall good_line L /\
                  forall x, In x l -> toks_in (W x) L.
Proof.
  intros A f W; induction l as [|a l IH]; intros H.
  - exists [], []. repeat split; [constructor | intros x []].
  - destruct (H a (or_introl eq_refl)) as [La [[Ea Ga] Ta]].
    destruct IH as [parts [L [Em [Ec [G T]]]]]; [intros x Hx; apply H; now right|].
    exists (unlines La :: parts), (La ++ L). cbn [mapM]. rewrite Ea, Em. unfold bind, ok.
    split; [reflexivity|]. split; [rewrite concat_cons, Ec, unlines_app; reflexivity|].
    split; [apply Forall_app_intro; assumption|].
    intros x [<-|Hx].
    + apply (toks_in_incl _ La); [apply incl_appl, incl_refl | exact Ta].
    + apply (toks_in_incl _ L); [apply incl_appr, incl_refl | apply T, Hx].
Qed.

Lemma wr_text : forall r L t, wr r L -> r = inr t -> splitlines t = L.
Proof. intros r L t [E G] Et. rewrite E in Et. inversion Et; subst. apply splitlines_unlines, G. Qed.

(* ================================================================== *)
(* 2. printing.write_matrix(..., convert_exp=True)                      *)
(* ================================================================== *)
Lemma precheck_ok : forall mat pps, Forall (Forall cell_ok) mat -> List.length mat <= List.length pps ->
  matrix_precheck mat pps = inr tt.
Proof.
  induction mat as [|c mat IH]; intros pps H Hl; [reflexivity|].
  destruct pps as [|pp pps]; [cbn in Hl; lia|]. inversion H as [|? ? Hc Hm]; subst.
  cbn [matrix_precheck]. destruct (mapM_find_point c Hc) as [l El]. rewrite El. unfold bind.
  apply IH; [exact Hm | cbn in Hl; lia].
Qed.

(* the printed rows *)
Definition wrows (mat : list (list cell)) (pps : list Z) : list string :=
  match mapM (fun row => write_row row pps true "") (transpose mat) with
  | inr rows => map d_convert rows
  | inl _ => []
  end.

Lemma wm_facts : forall mat pps,
  Forall (Forall cell_ok) mat -> Forall (Forall cell_ascii) mat -> List.length mat <= List.length pps ->
  write_matrix mat pps true = inr (unlines (wrows mat pps)) /\ Forall good_line (wrows mat pps) /\
  Forall2 (fun row line => tokens_acc line "" = map (fun c => d_convert (cell_str c)) row) (transpose mat) (wrows mat pps).
Proof.
  intros mat pps Hok Hasc Hl.
  pose proof (transpose_Forall _ _ mat Hok) as HT. pose proof (transpose_Forall _ _ mat Hasc) as HTa.
  pose proof (transpose_rowlen _ mat) as HTl.
  assert (Htot : exists rows, mapM (fun row => write_row row pps true "") (transpose mat) = inr rows).
  { apply MatrixSpec.mapM_total. rewrite Forall_forall in *. intros row Hrow.
    apply write_row_total; [apply HT, Hrow | rewrite (HTl row Hrow); exact Hl]. }
  destruct Htot as [rows Em]. pose proof (mapM_Forall2 _ _ _ _ _ Em) as F2.
  assert (Hrows : Forall (fun r => sall nobd r = true) rows).
  { pose proof (Forall_and _ _ _ _ HT HTa) as HTT.
    refine (Forall2_Forall_r _ _ _ _ _ _ _ _ HTT F2). intros row line [H1 H2] Hw. cbv beta in Hw.
    apply (write_row_chars nobd eq_refl row pps true "" line); [|reflexivity|exact Hw].
    rewrite Forall_forall in *. intros c Hc. apply cell_nobd; [apply H1 | apply H2]; exact Hc. }
  unfold wrows. rewrite Em. split; [|split].
  - unfold write_matrix, transpose_cells. rewrite Em. unfold bind, ok. f_equal.
    unfold d_convert at 1. rewrite smap_lines by reflexivity. reflexivity.
  - rewrite Forall_forall in *. intros r Hr. apply in_map_iff in Hr. destruct Hr as [r0 [<- Hr0]].
    unfold good_line, d_convert. rewrite sall_smap. apply (sall_impl nobd); [exact nobd_dconv | apply Hrows, Hr0].
  - assert (F2' : Forall2 (fun row line => tokens_acc (d_convert line) "" = map (fun c => d_convert (cell_str c)) row)
                          (transpose mat) rows).
    { refine (Forall2_impl_l _ _ _ _ _ _ _ _ HT F2). intros a b Ha Hw. cbv beta in Hw.
      rewrite tokens_dconv, (write_row_tokens_gen a pps true "" b Ha (fun _ => eq_refl) Hw).
      cbn [tokens_acc app]. now rewrite map_map. }
    apply (Forall2_map_r_impl _ _ _ _ _ _ _ _ F2'). intros a b H. exact H.
Qed.

Lemma transpose_has_cell : forall (M : list (list cell)) k c x,
  Forall (fun r => List.length r = k) M -> In c M -> In x c -> exists row, In row (transpose M) /\ In x row.
Proof.
  intros M k c x HF Hc Hx.
  assert (Hne : M <> []) by (intros E; rewrite E in Hc; destruct Hc).
  destruct (transpose_spec cell (CInt 0) k M Hne HF) as [Tl Tn].
  destruct (In_nth c x (CInt 0) Hx) as [i [Hi Ei]].
  assert (Hck : List.length c = k) by (rewrite Forall_forall in HF; apply HF, Hc).
  exists (nth i (transpose M) []). split; [apply nth_In; lia|].
  rewrite Tn by lia. apply in_map_iff. exists c. split; [exact Ei | exact Hc].
Qed.

(* every cell of a rectangular matrix is a token of some printed row *)
Lemma wm_tokens : forall mat pps k,
  Forall (Forall cell_ok) mat -> Forall (Forall cell_ascii) mat -> List.length mat <= List.length pps ->
  Forall (fun col => List.length col = k) mat ->
  forall col c, In col mat -> In c col ->
    exists line, In line (wrows mat pps) /\ In (d_convert (cell_str c)) (tokens_acc line "").
Proof.
  intros mat pps k Hok Hasc Hl Hk col c Hcol Hc.
  destruct (wm_facts mat pps Hok Hasc Hl) as [_ [_ F2]].
  destruct (transpose_has_cell mat k col c Hk Hcol Hc) as [row [Hrow Hcr]].
  destruct (Forall2_In_l _ _ _ _ _ row F2 Hrow) as [line [Hline Htok]].
  exists line. split; [exact Hline|]. rewrite Htok. apply (in_map (fun c0 => d_convert (cell_str c0))), Hcr.
Qed.

Lemma floats_cols : forall cols, Forall (Forall floating) cols ->
  Forall (Forall cell_ok) (map (map CStr) cols) /\ Forall (Forall cell_ascii) (map (map CStr) cols).
Proof.
  intros cols H. rewrite !Forall_forall in *.
  split; intros col Hcol; apply in_map_iff in Hcol; destruct Hcol as [c [<- Hin]]; apply floats_cells, H, Hin.
Qed.

Lemma ints_cells : forall l, Forall cell_ok (map CInt l) /\ Forall cell_ascii (map CInt l).
Proof.
  intros l. rewrite !Forall_forall. split; intros c Hc; apply in_map_iff in Hc; destruct Hc as [z [<- _]]; [exact I|].
  unfold cell_ascii. cbn [cell_str]. apply (sall_impl fchar); [exact fchar_ascii | apply Z_to_string_chars].
Qed.

(* ================================================================== *)
(* 3. one electron shell                                               *)
(* ================================================================== *)
(* the numbers of a shell, as they are printed *)
Definition shell_words (s : sshell) (w : string) : Prop :=
  exists x, (In x (exps s) \/ exists c, In c (coefs s) /\ In x c) /\ w = d_convert x.

(* the matrix of a shell: g94f_shell_mat s with its point places *)
Definition spps (s : sshell) : list Z := nw_point_places (S (List.length (coefs s))).

Lemma shell_mat_facts : forall s, g94f_shell_ok s ->
  matrix_precheck (g94f_shell_mat s) (spps s) = inr tt /\
  write_matrix (g94f_shell_mat s) (spps s) true = inr (unlines (wrows (g94f_shell_mat s) (spps s))) /\
  Forall good_line (wrows (g94f_shell_mat s) (spps s)) /\
  toks_in (shell_words s) (wrows (g94f_shell_mat s) (spps s)).
Proof.
  intros s [_ [HcF [He Hc]]].
  destruct (floats_cells (exps s) He) as [A1 A2]. destruct (floats_cols (coefs s) Hc) as [B1 B2].
  assert (Hok : Forall (Forall cell_ok) (g94f_shell_mat s)) by (constructor; assumption).
  assert (Hasc : Forall (Forall cell_ascii) (g94f_shell_mat s)) by (constructor; assumption).
  assert (Hl : List.length (g94f_shell_mat s) <= List.length (spps s)).
  { unfold spps, g94f_shell_mat. rewrite pps_length. cbn [List.length]. rewrite map_length. lia. }
  assert (Hk : Forall (fun col => List.length col = List.length (exps s)) (g94f_shell_mat s)).
  { unfold g94f_shell_mat. constructor; [apply map_length|]. rewrite Forall_forall in *. intros col Hcol.
    apply in_map_iff in Hcol. destruct Hcol as [c [<- Hin]]. rewrite map_length. apply HcF, Hin. }
  destruct (wm_facts _ _ Hok Hasc Hl) as [Hw [Hg _]].
  split; [apply precheck_ok; assumption|]. split; [exact Hw|]. split; [exact Hg|].
  intros w [x [Hx ->]].
  assert (Hcell : exists col, In col (g94f_shell_mat s) /\ In (CStr x) col).
  { destruct Hx as [Hx|[c [Hc' Hx]]].
    - exists (map CStr (exps s)). split; [now left | apply in_map, Hx].
    - exists (map CStr c). split; [right; apply in_map, Hc' | apply in_map, Hx]. }
  destruct Hcell as [col [Hcol Hin]].
  exact (wm_tokens _ _ _ Hok Hasc Hl Hk col (CStr x) Hcol Hin).
Qed.

(* the letters of lut.amint_to_char(am, hij=True) *)
Lemma amint_alpha : forall a, am_ok94 a ->
  exists ch, amint_to_char a true false = inr ch /\ sall is_alpha ch = true /\ sall is_alpha (upper ch) = true.
Proof.
  intros a Ha. assert (G : exists ch, amint_chars amchar_map_hij a = inr ch /\ sall is_alpha ch = true).
  { induction a as [|l a IH]; [exists ""; split; reflexivity|].
    inversion Ha as [|? ? Hl Ha']; subst. destruct (IH Ha') as [r [E1 E2]].
    destruct (am_letter94 l Hl) as [c [Ec [Hc _]]].
    exists (String c r). cbn [amint_chars]. assert (En : (l <? 0)%Z = false) by lia. rewrite En, Ec, E1.
    split; [reflexivity|]. cbn [sall]. now rewrite Hc, E2. }
  destruct G as [ch [E1 E2]]. exists ch. split; [exact E1|]. split; [exact E2|].
  clear - E2. induction ch as [|c ch IH]; [reflexivity|]. cbn [sall] in E2. apply andb_true_iff in E2. destruct E2 as [H1 H2].
  unfold upper in *. cbn [smap sall]. now rewrite (alpha_upper c H1), (IH H2).
Qed.

Lemma alpha_good : forall w, sall is_alpha w = true -> sall nobd w = true.
Proof. intros w H. exact (sall_impl is_alpha nobd _ alpha_nobd H). Qed.

(* the first word of the shell line: the letters in upper case, or `L=<l>` *)
Definition sh_amchar (psi4_am : bool) (s : sshell) (uch : string) : string :=
  match am s with
  | [l] => if andb psi4_am (7 <=? l)%Z then "L=" +++ Z_to_string l else uch
  | _ => uch
  end.

Lemma sh_amchar_good : forall p s uch, sall nobd uch = true -> sall nobd (sh_amchar p s uch) = true.
Proof.
  intros p s uch H. unfold sh_amchar. destruct (am s) as [|l [|l2 t]]; try exact H.
  destruct (andb p (7 <=? l)%Z); [|exact H]. rewrite sall_app. pose proof (Zs_good l) as G. unfold good_line in G.
  now rewrite G.
Qed.

Lemma shell_wr : forall h p s, g94f_shell_ok s ->
  exists L, wr (g94f_write_shell h p s) L /\ toks_in (shell_words s) L.
Proof.
  intros h p s Hs. destruct (shell_mat_facts s Hs) as [Hpre [Hw [Hg Ht]]]. destruct Hs as [Ha _].
  destruct (amint_alpha (am s) Ha) as [ch [E [_ Hu]]].
  set (harm := if andb h (String.eqb (ftype s) "gto_cartesian") then " c" else "").
  set (hdrl := pad4 (sh_amchar p s (upper ch)) +++ " " +++ nat_str (List.length (exps s)) +++ "   1.00" +++ harm).
  exists (hdrl :: wrows (g94f_shell_mat s) (spps s)). split; [split|].
  - unfold g94f_write_shell. rewrite E. unfold bind at 1. fold (spps s). rewrite Hpre. unfold bind at 1.
    unfold g94_write_shell. rewrite E. unfold bind at 1. fold (g94f_shell_mat s). fold (spps s). rewrite Hw.
    unfold bind, ok. f_equal. rewrite unlines_cons. unfold hdrl, harm, sh_amchar. rewrite !sapp_assoc. reflexivity.
  - constructor; [|exact Hg]. unfold hdrl, good_line, pad4. rewrite !sall_app.
    rewrite (sh_amchar_good p s _ (alpha_good _ Hu)), sall_nobd_sp, (nat_str_nobd _).
    unfold harm. destruct (andb h (String.eqb (ftype s) "gto_cartesian")); reflexivity.
  - apply (toks_in_incl _ (wrows (g94f_shell_mat s) (spps s))); [apply incl_tl, incl_refl | exact Ht].
Qed.

(* ================================================================== *)
(* 4. one ECP block (Model.G94Ecp.g94_write_ecp_element), any momenta   *)
(* ================================================================== *)
Definition pot_words (p : gpot) (w : string) : Prop :=
  (exists x, (In x (p_gexp p) \/ exists c, In c (p_coef p) /\ In x c) /\ w = d_convert x) \/
  (exists n, In n (p_rexp p) /\ w = Zs n).

Lemma pot_mat_facts : forall p, g94f_pot_ok p ->
  matrix_precheck (pmat p) ecp_point_places = inr tt /\
  write_matrix (pmat p) ecp_point_places true = inr (unlines (wrows (pmat p) ecp_point_places)) /\
  Forall good_line (wrows (pmat p) ecp_point_places) /\
  toks_in (pot_words p) (wrows (pmat p) ecp_point_places).
Proof.
  intros p [_ [_ [Hg [HcF [Hc1 [Fg Fc]]]]]].
  destruct (ints_cells (p_rexp p)) as [I1 I2]. destruct (floats_cells (p_gexp p) Fg) as [A1 A2].
  destruct (floats_cols (p_coef p) Fc) as [B1 B2].
  assert (Hok : Forall (Forall cell_ok) (pmat p)) by (constructor; [|constructor]; assumption).
  assert (Hasc : Forall (Forall cell_ascii) (pmat p)) by (constructor; [|constructor]; assumption).
  assert (Hl : List.length (pmat p) <= List.length ecp_point_places).
  { unfold pmat. cbn [List.length ecp_point_places]. rewrite map_length. lia. }
  assert (Hk : Forall (fun col => List.length col = List.length (p_rexp p)) (pmat p)).
  { unfold pmat. constructor; [apply map_length|]. constructor; [rewrite map_length; exact Hg|].
    rewrite Forall_forall in *. intros col Hcol.
    apply in_map_iff in Hcol. destruct Hcol as [c [<- Hin]]. rewrite map_length. apply HcF, Hin. }
  destruct (wm_facts _ _ Hok Hasc Hl) as [Hw [Hgood _]].
  split; [apply precheck_ok; assumption|]. split; [exact Hw|]. split; [exact Hgood|].
  intros w Hw'.
  assert (Hcell : exists col c, In col (pmat p) /\ In c col /\ w = d_convert (cell_str c)).
  { destruct Hw' as [[x [Hx ->]]|[n [Hn ->]]].
    - destruct Hx as [Hx|[c [Hc' Hx]]].
      + exists (map CStr (p_gexp p)), (CStr x). split; [right; now left|]. split; [apply in_map, Hx | reflexivity].
      + exists (map CStr c), (CStr x). split; [right; right; apply in_map, Hc'|]. split; [apply in_map, Hx | reflexivity].
    - exists (map CInt (p_rexp p)), (CInt n). split; [now left|]. split; [apply in_map, Hn|].
      cbn [cell_str]. now rewrite Zs_dconv. }
  destruct Hcell as [col [c [Hcol [Hin ->]]]].
  exact (wm_tokens _ _ _ Hok Hasc Hl Hk col c Hcol Hin).
Qed.

Lemma pot_wr : forall L0 mc p, g94f_pot_ok p -> sall is_alpha mc = true ->
  exists L, wr (g94_write_pot L0 mc p) L /\ toks_in (pot_words p) L.
Proof.
  intros L0 mc p Hp Hmc. destruct (pot_mat_facts p Hp) as [Hpre [Hw [Hg Ht]]]. destruct Hp as [Hne [Ha _]].
  destruct (amint_alpha (p_am p) Ha) as [ch [E [Hch _]]].
  destruct (p_am p) as [|a0 arest] eqn:Eam; [congruence|].
  set (title := if Z.eqb a0 L0 then ch +++ " potential" else ch +++ "-" +++ mc +++ " potential").
  exists (title :: count_line p :: wrows (pmat p) ecp_point_places). split; [split|].
  - unfold g94_write_pot, am_first. rewrite Eam, E. unfold bind at 1 2. unfold ok at 1.
    fold (pmat p). rewrite Hpre, Hw. unfold bind, ok. f_equal. rewrite !unlines_cons. unfold title, count_line.
    destruct (a0 =? L0)%Z; rewrite !sapp_assoc; reflexivity.
  - constructor; [|constructor; [|exact Hg]].
    + unfold title, good_line. destruct (a0 =? L0)%Z; rewrite !sall_app, ?(alpha_good _ Hch), ?(alpha_good _ Hmc); reflexivity.
    + unfold count_line, good_line. rewrite sall_app, (nat_str_nobd _). reflexivity.
  - apply (toks_in_incl _ (wrows (pmat p) ecp_point_places)); [do 2 apply incl_tl; apply incl_refl | exact Ht].
Qed.

(* max() of the first momenta stays in the range of the letters *)
Lemma fold_max_range : forall l init (lo hi : Z), (lo <= init < hi)%Z -> Forall (fun x => (lo <= x < hi)%Z) l ->
  (lo <= fold_left Z.max l init < hi)%Z.
Proof.
  induction l as [|x l IH]; intros init lo hi Hi H; [exact Hi|]. inversion H; subst. cbn [fold_left]. apply IH; [lia | assumption].
Qed.
Lemma zmax_range : forall l (lo hi : Z), l <> [] -> Forall (fun x => (lo <= x < hi)%Z) l -> (lo <= zmax l < hi)%Z.
Proof.
  intros l lo hi Hne H. destruct l as [|x l]; [congruence|]. unfold zmax. cbn [hd]. inversion H; subst.
  apply fold_max_range; [assumption | exact H].
Qed.

(* the numbers of an ECP block *)
Definition ecp_el_words (zp : Z * gecp) (w : string) : Prop :=
  (exists p, In p (snd (snd zp)) /\ pot_words p w) \/ w = Zs (fst (snd zp)).

Definition g94f_ecp_el_ok (zp : Z * gecp) : Prop :=
  (1 <= fst zp <= 120)%Z /\ snd (snd zp) <> [] /\ Forall g94f_pot_ok (snd (snd zp)).

Lemma ecp_element_wr : forall zp, g94f_ecp_el_ok zp ->
  exists L, wr (g94_write_ecp_element zp) L /\ toks_in (ecp_el_words zp) L.
Proof.
  intros [z [n pots]] [Hz [Hne Hp]]. cbn [fst snd] in *.
  destruct (usym_facts z Hz) as [Es _].
  assert (Hf : mapM am_first pots = inr (map pam pots)).
  { apply mapM_map_ok. intros p Hin. rewrite Forall_forall in Hp. destruct (Hp p Hin) as [Hn _].
    unfold am_first, pam. destruct (p_am p); [congruence | reflexivity]. }
  assert (Hfne : map pam pots <> []) by (destruct pots; [congruence | discriminate]).
  assert (Hfr : Forall (fun x => (0 <= x < 26)%Z) (map pam pots)).
  { rewrite Forall_forall in *. intros x Hx. apply in_map_iff in Hx. destruct Hx as [p [<- Hin]].
    destruct (Hp p Hin) as [Hn [Ha _]]. unfold pam. destruct (p_am p) as [|a t]; [congruence|]. inversion Ha; subst. assumption. }
  pose proof (zmax_range _ _ _ Hfne Hfr) as HL. set (L0 := zmax (map pam pots)) in *.
  destruct (amint_alpha [L0]) as [mc [Emc [Hmc _]]]; [constructor; [exact HL | constructor]|].
  destruct (mapM_wr _ (g94_write_pot L0 mc) pot_words (g94_ecp_order pots)) as [parts [L [Em [Ec [G T]]]]].
  { intros p Hin. apply pot_wr; [|exact Hmc]. rewrite Forall_forall in Hp. apply Hp.
    apply (Permutation_in _ (ecp_order_perm pots)), Hin. }
  exists (ecp_hdr1 z :: ecp_hdr2 z L0 n :: L). split; [split|].
  - unfold g94_write_ecp_element. rewrite Es. unfold bind at 1. rewrite Hf. unfold bind at 1.
    assert (Hm : forall X : res string, match map pam pots with [] => fail EValue | _ :: _ => X end = X)
      by (intros X; destruct (map pam pots); [congruence | reflexivity]).
    rewrite Hm. fold L0. rewrite Emc. unfold bind at 1.
    rewrite Em. unfold bind, ok. f_equal. rewrite Ec, !unlines_cons. unfold ecp_hdr1, ecp_hdr2, usym. rewrite Es.
    rewrite !sapp_assoc. reflexivity.
  - constructor; [|constructor; [|exact G]].
    + unfold ecp_hdr1, good_line. rewrite sall_app. pose proof (usym_good _ Hz) as G1. unfold good_line in G1. now rewrite G1.
    + unfold ecp_hdr2, good_line. rewrite !sall_app. pose proof (usym_good _ Hz) as G1.
      pose proof (Zs_good L0) as G2. pose proof (Zs_good n) as G3. unfold good_line in *. now rewrite G1, G2, G3.
  - intros w [[p [Hin Hw]] | ->].
    + assert (Hin' : In p (g94_ecp_order pots)) by (apply (Permutation_in _ (Permutation_sym (ecp_order_perm pots))), Hin).
      destruct (T p Hin' w Hw) as [line [Hl Ht]]. exists line. split; [right; right; exact Hl | exact Ht].
    + exists (ecp_hdr2 z L0 n). split; [right; now left | apply tokens_hdr2_last].
Qed.

(* the numbers of all ECP blocks *)
Definition ecps_words (ecps : list (Z * gecp)) (w : string) : Prop := exists zp, In zp ecps /\ ecp_el_words zp w.

(* ================================================================== *)
(* 5. the whole text of _write_g94_common                              *)
(* ================================================================== *)
Lemma g94f_ecp_ok_els : forall ecps, g94f_ecp_ok ecps -> forall zp, In zp ecps -> g94f_ecp_el_ok zp.
Proof. intros ecps H zp Hin. unfold g94f_ecp_ok in H. rewrite Forall_forall in H. exact (H zp Hin). Qed.

Lemma ecp_part_wr : forall ecps, g94f_ecp_ok ecps ->
  exists L, wr (g94_write_ecp ecps) L /\ toks_in (ecps_words ecps) L.
Proof.
  intros ecps H. destruct ecps as [|zp0 ecps0] eqn:Ee.
  - exists []. split; [split; [reflexivity | constructor]|]. intros w [zp [[] _]].
  - rewrite <- Ee in *. destruct (mapM_wr _ g94_write_ecp_element ecp_el_words ecps) as [parts [L [Em [Ec [G T]]]]].
    { intros zp Hin. apply ecp_element_wr, (g94f_ecp_ok_els ecps H zp Hin). }
    exists ("" :: L). split; [split|].
    + unfold g94_write_ecp. rewrite Ee at 1. rewrite Em. unfold bind, ok. f_equal. rewrite Ec, unlines_cons. reflexivity.
    + constructor; [reflexivity | exact G].
    + intros w [zp [Hin Hw]]. destruct (T zp Hin w Hw) as [line [Hl Ht]]. exists line. split; [now right | exact Ht].
Qed.

(* the numbers of an element, of all elements *)
Definition el_words (zs : Z * list sshell) (w : string) : Prop := exists s, In s (snd zs) /\ shell_words s w.
Definition els_words (els : list (Z * list sshell)) (w : string) : Prop := exists zs, In zs els /\ el_words zs w.

Lemma element_wr : forall h p sl zs, (1 <= fst zs <= 120)%Z -> Forall g94f_shell_ok (snd zs) ->
  exists L, wr (g94f_write_element h p sl zs) L /\ toks_in (el_words zs) L.
Proof.
  intros h p sl [z shs] Hz Hshs. cbn [fst snd] in *. destruct (sym_facts94 z Hz) as [Es [_ [Hs _]]].
  destruct (mapM_wr _ (g94f_write_shell h p) shell_words shs) as [parts [L [Em [Ec [G T]]]]].
  { intros s Hin. apply shell_wr. rewrite Forall_forall in Hshs. apply Hshs, Hin. }
  set (l1 := (if sl then "-" else "") +++ symz z +++ "     0").
  exists (l1 :: L ++ ["****"]). split; [split|].
  - unfold g94f_write_element. rewrite Es. unfold bind at 1. rewrite Em. unfold bind, ok. f_equal.
    rewrite Ec, unlines_cons, unlines_app. unfold l1. cbn [unlines map String.concat]. rewrite !sapp_assoc. reflexivity.
  - constructor; [|apply Forall_app_intro; [exact G | constructor; [reflexivity | constructor]]].
    unfold l1, good_line. rewrite !sall_app, (alpha_good _ Hs). destruct sl; reflexivity.
  - intros w [s [Hin Hw]]. destruct (T s Hin w Hw) as [line [Hl Ht]]. exists line.
    split; [right; apply in_or_app; now left | exact Ht].
Qed.

Lemma electron_part_wr : forall h p sl els, g94f_ok els ->
  exists L, wr (g94f_write_electron h p sl els) L /\ toks_in (els_words els) L.
Proof.
  intros h p sl els H. unfold g94f_ok in H. rewrite Forall_forall in H.
  destruct (mapM_wr _ (g94f_write_element h p sl) el_words els) as [parts [L [Em [Ec [G T]]]]].
  { intros zs Hin. destruct (H zs Hin) as [Hz Hs]. apply element_wr; assumption. }
  exists L. split; [split; [|exact G]|].
  - unfold g94f_write_electron. rewrite Em. unfold bind, ok. now rewrite Ec.
  - intros w [zs [Hin Hw]]. exact (T zs Hin w Hw).
Qed.

Lemma common_wr : forall h p sl els ecps, g94f_ok els -> g94f_ecp_ok ecps ->
  exists L, wr (g94f_write_common h p sl els ecps) L /\ toks_in (els_words els) L /\ toks_in (ecps_words ecps) L.
Proof.
  intros h p sl els ecps H1 H2.
  destruct (electron_part_wr h p sl els H1) as [La [[Ea Ga] Ta]]. destruct (ecp_part_wr ecps H2) as [Lb [[Eb Gb] Tb]].
  exists (La ++ Lb). split; [split|split].
  - unfold g94f_write_common. rewrite Ea, Eb. unfold bind, ok. now rewrite unlines_app.
  - apply Forall_app_intro; assumption.
  - apply (toks_in_incl _ La); [apply incl_appl, incl_refl | exact Ta].
  - apply (toks_in_incl _ Lb); [apply incl_appr, incl_refl | exact Tb].
Qed.

(* the words of the statements *)
Lemma number_is_word : forall els x, nw_number_of els x -> els_words els (d_convert x).
Proof. intros els x [zs [s [Hzs [Hs Hx]]]]. exists zs. split; [exact Hzs|]. exists s. split; [exact Hs|]. exists x. split; [exact Hx | reflexivity]. Qed.
Lemma ecp_number_is_word : forall ecps x, ecp_number_of ecps x -> ecps_words ecps (d_convert x).
Proof.
  intros ecps x [zp [p [Hzp [Hp Hx]]]]. exists zp. split; [exact Hzp|]. left. exists p. split; [exact Hp|]. left. exists x.
  split; [exact Hx | reflexivity].
Qed.
Lemma ecp_int_is_word : forall ecps n, ecp_int_of ecps n -> ecps_words ecps (Zs n).
Proof.
  intros ecps n [zp [Hzp [->|[p [Hp Hn]]]]]; exists zp; (split; [exact Hzp|]); [now right|].
  left. exists p. split; [exact Hp|]. right. exists n. split; [exact Hn | reflexivity].
Qed.

(* what the three statements need from a text with known lines *)
Lemma lines_conclusions : forall r L t els ecps, wr r L -> r = inr t -> toks_in (els_words els) L -> toks_in (ecps_words ecps) L ->
  (forall x, nw_number_of els x -> num_token t (d_convert x)) /\
  (forall x, ecp_number_of ecps x -> num_token t (d_convert x)) /\
  (forall n, ecp_int_of ecps n -> num_token t (Zs n)).
Proof.
  intros r L t els ecps Hwr Et T1 T2. unfold num_token. rewrite (wr_text r L t Hwr Et). repeat split.
  - intros x Hx. apply T1, number_is_word, Hx.
  - intros x Hx. apply T2, ecp_number_is_word, Hx.
  - intros n Hn. apply T2, ecp_int_is_word, Hn.
Qed.

(* ---------- any flags ---------- *)
Lemma g94f_write_total : g94f_write_total_stmt.
Proof. intros h p sl els ecps H1 H2. destruct (common_wr h p sl els ecps H1 H2) as [L [[E _] _]]. eexists. exact E. Qed.

Lemma g94f_no_number_lost : g94f_no_number_lost_stmt.
Proof.
  intros h p sl els ecps t H1 H2 E. destruct (common_wr h p sl els ecps H1 H2) as [L [Hwr [T1 T2]]].
  exact (proj1 (lines_conclusions _ L t els ecps Hwr E T1 T2)).
Qed.

Lemma g94f_ecp_no_number_lost : g94f_ecp_no_number_lost_stmt.
Proof.
  intros h p sl els ecps t H1 H2 E. destruct (common_wr h p sl els ecps H1 H2) as [L [Hwr [T1 T2]]].
  exact (proj2 (lines_conclusions _ L t els ecps Hwr E T1 T2)).
Qed.

(* ---------- write_g94lib, write_xtron ---------- *)
Lemma g94lib_write_total : g94lib_write_total_stmt.
Proof. intros els ecps. apply g94f_write_total. Qed.
Lemma g94lib_no_number_lost : g94lib_no_number_lost_stmt.
Proof. intros els ecps t. apply g94f_no_number_lost. Qed.
Lemma g94lib_ecp_no_number_lost : g94lib_ecp_no_number_lost_stmt.
Proof. intros els ecps t. apply g94f_ecp_no_number_lost. Qed.

Lemma xtron_write_total : xtron_write_total_stmt.
Proof. intros els ecps. apply g94f_write_total. Qed.
Lemma xtron_no_number_lost : xtron_no_number_lost_stmt.
Proof. intros els ecps t. apply g94f_no_number_lost. Qed.
Lemma xtron_ecp_no_number_lost : xtron_ecp_no_number_lost_stmt.
Proof. intros els ecps t. apply g94f_ecp_no_number_lost. Qed.

(* ---------- write_psi4: one more line in front ---------- *)
Lemma psi4_wr : forall els ecps, g94f_ok els -> g94f_ecp_ok ecps ->
  exists L, wr (psi4_write_all els ecps) L /\ toks_in (els_words els) L /\ toks_in (ecps_words ecps) L.
Proof.
  intros els ecps H1 H2. destruct (common_wr false true false els ecps H1 H2) as [L [[E G] [T1 T2]]].
  exists ("****" :: L). split; [split|split].
  - unfold psi4_write_all. rewrite E. unfold bind, ok. now rewrite unlines_cons.
  - constructor; [reflexivity | exact G].
  - apply (toks_in_incl _ L); [apply incl_tl, incl_refl | exact T1].
  - apply (toks_in_incl _ L); [apply incl_tl, incl_refl | exact T2].
Qed.

Lemma psi4_write_total : psi4_write_total_stmt.
Proof. intros els ecps H1 H2. destruct (psi4_wr els ecps H1 H2) as [L [[E _] _]]. eexists. exact E. Qed.
Lemma psi4_no_number_lost : psi4_no_number_lost_stmt.
Proof.
  intros els ecps t H1 H2 E. destruct (psi4_wr els ecps H1 H2) as [L [Hwr [T1 T2]]].
  exact (proj1 (lines_conclusions _ L t els ecps Hwr E T1 T2)).
Qed.
Lemma psi4_ecp_no_number_lost : psi4_ecp_no_number_lost_stmt.
Proof.
  intros els ecps t H1 H2 E. destruct (psi4_wr els ecps H1 H2) as [L [Hwr [T1 T2]]].
  exact (proj2 (lines_conclusions _ L t els ecps Hwr E T1 T2)).
Qed.

(* ================================================================== *)
(* 6. the conditions, the examples                                     *)
(* ================================================================== *)
Lemma has_token_spec : has_token_spec_stmt.
Proof.
  intros t x. unfold has_token, num_token. rewrite existsb_exists. split.
  - intros [line [Hl Ht]]. apply existsb_exists in Ht. destruct Ht as [w [Hw E]]. apply String.eqb_eq in E. subst w.
    exists line. split; assumption.
  - intros [line [Hl Ht]]. exists line. split; [exact Hl|]. apply existsb_exists. exists x. split; [exact Ht | apply String.eqb_refl].
Qed.

(* boolean forms of the well-formedness predicates, for closed inputs *)
Definition in26 (l : Z) : bool := andb (0 <=? l)%Z (l <? 26)%Z.
Definition g94f_shell_okb (s : sshell) : bool :=
  forallb in26 (am s) && forallb (fun c => Nat.eqb (List.length c) (List.length (exps s))) (coefs s) &&
  forallb is_floating (exps s) && forallb (forallb is_floating) (coefs s).
Definition g94f_okb (els : list (Z * list sshell)) : bool :=
  forallb (fun zs => (1 <=? fst zs)%Z && (fst zs <=? 120)%Z && forallb g94f_shell_okb (snd zs)) els.
Definition g94f_pot_okb (p : gpot) : bool :=
  negb (Nat.eqb (List.length (p_am p)) 0) && forallb in26 (p_am p) &&
  Nat.eqb (List.length (p_gexp p)) (List.length (p_rexp p)) &&
  forallb (fun c => Nat.eqb (List.length c) (List.length (p_rexp p))) (p_coef p) &&
  Nat.leb (List.length (p_coef p)) 1 && forallb is_floating (p_gexp p) && forallb (forallb is_floating) (p_coef p).
Definition g94f_ecp_okb (ecps : list (Z * gecp)) : bool :=
  forallb (fun zp => (1 <=? fst zp)%Z && (fst zp <=? 120)%Z && negb (Nat.eqb (List.length (snd (snd zp))) 0) &&
                     forallb g94f_pot_okb (snd (snd zp))) ecps.

Lemma forallb_Forall : forall (A : Type) (f : A -> bool) (P : A -> Prop) l,
  (forall x, f x = true -> P x) -> forallb f l = true -> Forall P l.
Proof.
  intros A f P l H Hf. rewrite forallb_forall in Hf. rewrite Forall_forall. intros x Hx. apply H, Hf, Hx.
Qed.

Lemma in26_spec : forall l, in26 l = true -> (0 <= l < 26)%Z.
Proof. intros l H. unfold in26 in H. apply andb_true_iff in H. lia. Qed.

Lemma g94f_shell_okb_spec : forall s, g94f_shell_okb s = true -> g94f_shell_ok s.
Proof.
  intros s H. unfold g94f_shell_okb in H. rewrite !andb_true_iff in H. destruct H as [[[H1 H2] H3] H4].
  split; [exact (forallb_Forall _ _ _ _ in26_spec H1)|]. split.
  { apply (forallb_Forall _ _ _ _ (fun c E => proj1 (Nat.eqb_eq _ _) E) H2). }
  split; [exact (forallb_Forall _ _ _ _ (fun x E => E) H3)|].
  apply (forallb_Forall _ _ _ (coefs s) (fun c E => forallb_Forall _ _ floating c (fun x E' => E') E) H4).
Qed.

Lemma g94f_okb_spec : forall els, g94f_okb els = true -> g94f_ok els.
Proof.
  intros els H. unfold g94f_okb in H. unfold g94f_ok. refine (forallb_Forall _ _ _ _ _ H).
  intros zs E. cbv beta in E. rewrite !andb_true_iff in E. destruct E as [[E1 E2] E3]. split; [lia|].
  exact (forallb_Forall _ _ _ _ g94f_shell_okb_spec E3).
Qed.

Lemma g94f_pot_okb_spec : forall p, g94f_pot_okb p = true -> g94f_pot_ok p.
Proof.
  intros p H. unfold g94f_pot_okb in H. rewrite !andb_true_iff in H. destruct H as [[[[[[H1 H2] H3] H4] H5] H6] H7].
  split; [intros E; rewrite E in H1; discriminate H1|]. split; [exact (forallb_Forall _ _ _ _ in26_spec H2)|].
  split; [now apply Nat.eqb_eq|]. split.
  { apply (forallb_Forall _ _ _ _ (fun c E => proj1 (Nat.eqb_eq _ _) E) H4). }
  split; [now apply Nat.leb_le|]. split; [exact (forallb_Forall _ _ _ _ (fun x E => E) H6)|].
  apply (forallb_Forall _ _ _ (p_coef p) (fun c E => forallb_Forall _ _ floating c (fun x E' => E') E) H7).
Qed.

Lemma g94f_ecp_okb_spec : forall ecps, g94f_ecp_okb ecps = true -> g94f_ecp_ok ecps.
Proof.
  intros ecps H. unfold g94f_ecp_okb in H. unfold g94f_ecp_ok. refine (forallb_Forall _ _ _ _ _ H).
  intros zp E. cbv beta in E. rewrite !andb_true_iff in E. destruct E as [[[E1 E2] E3] E4]. split; [lia|]. split.
  - intros E0. rewrite E0 in E3. discriminate E3.
  - exact (forallb_Forall _ _ _ _ g94f_pot_okb_spec E4).
Qed.

Lemma g94f_empty : g94f_empty_stmt.
Proof. repeat split; vm_compute; reflexivity. Qed.

Lemma g94f_flags : g94f_flags_stmt.
Proof. repeat split; vm_compute; reflexivity. Qed.

Lemma g94f_am_bound : g94f_am_bound_stmt.
Proof. repeat split; vm_compute; reflexivity. Qed.

Lemma g94f_ragged : g94f_ragged_stmt.
Proof.
  cbv zeta. split; [vm_compute; reflexivity|]. split; [|split; eexists; vm_compute; reflexivity].
  intros t [E|[E|E]]; vm_compute in E; inversion E; subst; vm_compute; reflexivity.
Qed.

Lemma g94f_floating : g94f_floating_stmt.
Proof. repeat split; vm_compute; reflexivity. Qed.

Lemma g94f_elements : g94f_elements_stmt.
Proof. split; [|split; [|split]]; try (vm_compute; reflexivity). eexists. vm_compute. reflexivity. Qed.

Lemma g94f_degenerate : g94f_degenerate_stmt.
Proof. vm_compute. reflexivity. Qed.

Lemma g94f_ecp_anyorder : g94f_ecp_anyorder_stmt.
Proof. split; vm_compute; reflexivity. Qed.

Lemma g94f_ecp_am_bound : g94f_ecp_am_bound_stmt.
Proof. split; [eexists; vm_compute; reflexivity|]. repeat split; vm_compute; reflexivity. Qed.

Lemma g94f_ecp_coef_rows : g94f_ecp_coef_rows_stmt.
Proof. repeat split; vm_compute; reflexivity. Qed.

Lemma g94f_ecp_lengths : g94f_ecp_lengths_stmt.
Proof. split; vm_compute; reflexivity. Qed.

Lemma g94f_ecp_floating : g94f_ecp_floating_stmt.
Proof. repeat split; vm_compute; reflexivity. Qed.

Example g94f_example : g94f_example_stmt.
Proof.
  split; [apply g94f_okb_spec; vm_compute; reflexivity|]. split; [apply g94f_ecp_okb_spec; vm_compute; reflexivity|].
  split; [vm_compute; reflexivity|]. split; [vm_compute; reflexivity|]. split; [vm_compute; reflexivity|].
  split; [apply g94f_okb_spec; vm_compute; reflexivity|]. split; [vm_compute; reflexivity|].
  split; [apply g94f_okb_spec; vm_compute; reflexivity|]. vm_compute; reflexivity.
Qed.

Print Assumptions g94f_write_total.
Print Assumptions g94f_no_number_lost.
Print Assumptions g94f_ecp_no_number_lost.
Print Assumptions g94lib_write_total.
Print Assumptions g94lib_no_number_lost.
Print Assumptions g94lib_ecp_no_number_lost.
Print Assumptions xtron_write_total.
Print Assumptions xtron_no_number_lost.
Print Assumptions xtron_ecp_no_number_lost.
Print Assumptions psi4_write_total.
Print Assumptions psi4_no_number_lost.
Print Assumptions psi4_ecp_no_number_lost.
Print Assumptions has_token_spec.
Print Assumptions g94f_empty.
Print Assumptions g94f_flags.
Print Assumptions g94f_am_bound.
Print Assumptions g94f_ragged.
Print Assumptions g94f_floating.
Print Assumptions g94f_elements.
Print Assumptions g94f_degenerate.
Print Assumptions g94f_ecp_anyorder.
Print Assumptions g94f_ecp_am_bound.
Print Assumptions g94f_ecp_coef_rows.
Print Assumptions g94f_ecp_lengths.
Print Assumptions g94f_ecp_floating.
Print Assumptions g94f_example.
