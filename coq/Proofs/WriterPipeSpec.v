(* C04: every sequence of re-contracting normalisation steps of a writer keeps the function set.  Statements in
   Proofs/WriterPipeDefs.v.

   The invariant carried along the step list is NOT wf_basis + basis_fused_low 0: `uncontract_spdf n` with a negative n
   (the step list of wsteps_FS_stmt is arbitrary) turns a fused shell without a member <= n into a "dead" shell
   (am = [], coefs = [], exps <> []), which is not well-formed.  The invariant used is the weaker `wfd` of PipelineFS.v
   (every shell well-formed or dead): dead shells hold no contracted function, are passed on unchanged by uncontract_spdf,
   are dropped by uncontract_general, and make prune_basis / make_general raise.  With this invariant the hypothesis
   basis_fused_low 0 of the statements is not needed at all. *)
From Coq Require Import Permutation.
From BSE Require Import Model.Val Model.Num Model.Basis Model.Manip Model.ManipS Model.Memo Model.Header Model.WriterPipe
     Gen.GenWriters Gen.GenConsts.
From BSE Require Import Proofs.FSDefs Proofs.NumDefs Proofs.NumInstance Proofs.PruneFS Proofs.GeneralFS Proofs.PipelineFS
     Proofs.WriterPipeDefs.

(* ====================================================================================================== *)
(* carrier-independent: uncontract_spdf, uncontract_general and make_general on well-formed-or-dead shells  *)
(* ====================================================================================================== *)
Section Wfd.
  Variable N : Type.
  Variable is0 : N -> bool.
  Variable same : N -> N -> bool.
  Variable eqN : N -> N -> bool.
  Variables zero_lit one_lit ozero_lit : N.
  Hypothesis Hc : carrier_ok is0 same eqN zero_lit one_lit ozero_lit.

  Notation shell := (shell N).
  Notation wfd := (wfd N is0).
  Notation dead := (dead N).

  Lemma unc_spdf_perm_wfd : forall m (shs news out : list shell),
      Forall wfd shs -> unc_spdf_shells m shs news = inr out ->
      Permutation (shells_cfuns out) (shells_cfuns (news ++ shs)).
  Proof.
    intros m; induction shs as [|s t IH]; intros news out Hs H; cbn [unc_spdf_shells] in H.
    - inversion H; subst. rewrite app_nil_r. apply Permutation_refl.
    - inversion Hs as [|? ? Hs1 Hst]; subst.
      destruct (Nat.ltb 1 (length (am s))) eqn:El.
      + apply Nat.ltb_lt in El.
        assert (Hwf : wf_shell is0 s).
        { destruct Hs1 as [Hw|[Ha _]]; [exact Hw|]. rewrite Ha in El. cbn in El. lia. }
        assert (Hlen : length (am s) = length (coefs s)).
        { destruct Hwf as [_ [_ [Ha|[_ Ha]]]]; lia. }
        destruct (GeneralFS.split_fused_spec m s (coefs s) (am s) [] [] [] Hlen)
          as [ka [kc [out' [Hsp [Hlk [Hp _]]]]]].
        rewrite Hsp in H. cbn [bind app] in H. fold (kept_head s ka kc) in H.
        apply (IH _ _ Hst) in H.
        eapply Permutation_trans; [exact H|].
        rewrite !shells_cfuns_app, shells_cfuns_cons.
        rewrite kept_head_cfuns by exact Hlk. rewrite (shell_cfuns_fused s El).
        rewrite <- !app_assoc.
        eapply Permutation_trans; [apply Permutation_app_swap_app|].
        apply Permutation_app_head. rewrite !app_assoc. apply Permutation_app_tail. exact Hp.
      + apply (IH _ _ Hst) in H. rewrite <- app_assoc in H. exact H.
  Qed.

  Lemma unc_spdf_FS_wfd : forall m (shs out : list shell),
      Forall wfd shs -> unc_spdf_shells m shs [] = inr out -> FSeq is0 same out shs /\ Forall wfd out.
  Proof.
    intros m shs out Hs H. split.
    - apply FSeq_of_cfuns_perm. apply (unc_spdf_perm_wfd m shs [] out Hs H).
    - apply (unc_spdf_wfd N is0 m shs [] out Hs (Forall_nil _) H).
  Qed.

  Lemma unc_gen_shell_dead : forall s : shell, dead s -> unc_gen_shell s = [].
  Proof.
    intros s [Ha [Hcs _]]. unfold unc_gen_shell. rewrite Ha, Hcs. reflexivity.
  Qed.

  Lemma unc_gen_shells_wfd : forall shs : list shell, Forall wfd shs -> wf_shells is0 (unc_gen_shells shs).
  Proof.
    intros shs H. unfold unc_gen_shells, wf_shells.
    induction H as [|s t Hs _ IH]; cbn [flat_map]; [constructor|].
    apply Forall_app; split; [|exact IH].
    destruct Hs as [Hw|Hd]; [apply unc_gen_shell_wf; exact Hw | rewrite (unc_gen_shell_dead s Hd); constructor].
  Qed.

  Lemma unc_gen_FS_wfd : forall shs : list shell,
      Forall wfd shs -> FSeq is0 same (unc_gen_shells shs) shs /\ wf_shells is0 (unc_gen_shells shs).
  Proof.
    intros shs H. split; [|apply unc_gen_shells_wfd; exact H].
    apply FSeq_of_cfuns_perm. rewrite (unc_gen_shells_cfuns shs). apply Permutation_refl.
  Qed.

  Lemma wf_not_dead : forall shs : list shell, wf_shells is0 shs -> Exists dead shs -> False.
  Proof.
    intros shs Hw Hd. apply Exists_exists in Hd. destruct Hd as [s [Hs [Ha _]]].
    unfold wf_shells in Hw. rewrite Forall_forall in Hw. apply (wf_am_ne N is0 s (Hw s Hs) Ha).
  Qed.

  (* a dead shell among the input of make_general_shells leaves a dead shell in its output
     (the second half of PipelineFS.mg_shells_wfd, which only states the disjunction) *)
  Lemma mg_shells_dead : forall shs gs : list shell,
      Forall wfd shs -> Exists dead shs -> make_general_shells zero_lit shs = inr gs -> Exists dead gs.
  Proof.
    intros shs gs H Hd Hm.
    apply Exists_exists in Hd. destruct Hd as [s0 [Hs0 [Ha0 [Hc0 Hx0]]]].
    unfold make_general_shells in Hm.
    destruct (mapM (general_shell zero_lit shs) (sorted_am shs)) as [e|gens] eqn:Em; cbn in Hm; [discriminate|].
    inversion Hm; subst gs; clear Hm.
    apply GeneralFS.mapM_Forall2 in Em.
    assert (Hin : In [] (sorted_am shs)).
    { apply sorted_am_in. exists s0. split; [exact Hs0|]. split; [|exact Ha0].
      unfold single. rewrite Ha0. reflexivity. }
    destruct (GeneralFS.Forall2_in_l _ Em Hin) as [g [Hg Hgs]].
    apply Exists_exists. exists g. split; [apply in_or_app; right; exact Hg|].
    unfold general_shell in Hgs.
    match type of Hgs with context [gen_coefs ?z ?a ?l ?n ?c ?f] =>
      destruct (gen_coefs z a l n c f) as [e|r] eqn:Er end; cbn in Hgs; [discriminate|].
    inversion Hgs; subst g; clear Hgs. unfold PipelineFS.dead; cbn [am coefs exps].
    split; [reflexivity|]. split.
    - destruct (snd r) as [|c' l] eqn:Esr; [reflexivity|]. exfalso.
      destruct (@gen_coefs_sound N zero_lit _ _ _ _ _ _ Er c') as [s [c [pre [post [Hs [Ha [Hcs _]]]]]]];
        [rewrite Esr; left; reflexivity|].
      rewrite Forall_forall in H. destruct (H s Hs) as [Hw|[_ [Hcs0 _]]].
      + apply (wf_am_ne N is0 s Hw Ha).
      + rewrite Hcs0 in Hcs. exact Hcs.
    - destruct (exps s0) as [|x xs] eqn:Ex; [congruence|]. intro E.
      assert (Hx : In x (flat_map (fun s => if am_eqb (am s) [] then exps s else []) shs)).
      { apply in_flat_map. exists s0. split; [exact Hs0|]. rewrite Ha0. cbn. rewrite Ex. left; reflexivity. }
      rewrite E in Hx. exact Hx.
  Qed.

  Lemma mg_shells_FS_wfd : forall shs gs : list shell,
      Forall wfd shs -> make_general_shells zero_lit shs = inr gs ->
      (Exists dead gs \/ FSeq is0 same gs shs) /\ (wf_shells is0 gs \/ Exists dead gs).
  Proof.
    intros shs gs H Hm. destruct (wfd_split N is0 shs H) as [Hw|Hd].
    - destruct (make_general_shells_FS Hc Hw Hm) as [H1 H2]. split; [right; exact H1 | left; exact H2].
    - pose proof (mg_shells_dead shs gs H Hd Hm) as Hdg. split; [left; exact Hdg | right; exact Hdg].
  Qed.
End Wfd.

(* ====================================================================================================== *)
(* the decimal-string instance: the four operations with the weak invariant                                *)
(* ====================================================================================================== *)
Notation FSeq_s := (FSeq is0_s same_s).
Notation dead_s := (dead string).

Definition KPs : prune_shells_FS_stmt is0_s same_s String.eqb :=
  PruneFS.prune_shells_FS string is0_s same_s String.eqb _ _ _ K.

Lemma S_us : forall m (b b' : sbasis),
    bForall (Forall wfd_s) b -> s_uncontract_spdf m b = inr b' ->
    basis_FSeq is0_s same_s b' b /\ bForall (Forall wfd_s) b'.
Proof.
  intros m b b' Hw H. unfold s_uncontract_spdf, uncontract_spdf in H.
  apply (@lift_M string (Forall wfd_s) (Forall wfd_s) FSeq_s (fun shs => unc_spdf_shells m shs [])) with (b := b);
    [|exact Hw|exact H].
  intros shs out Hs Ho. apply (unc_spdf_FS_wfd string is0_s same_s m shs out Hs Ho).
Qed.

Lemma S_prune : forall b b' : sbasis,
    bForall (Forall wfd_s) b -> s_prune_basis b = inr b' ->
    basis_FSeq is0_s same_s b' b /\ wf_basis is0_s b'.
Proof.
  intros b b' Hw H. unfold s_prune_basis, prune_basis in H.
  apply (@lift_M string (Forall wfd_s) (wf_shells is0_s) FSeq_s (prune_shells is0_s same_s String.eqb)) with (b := b);
    [|exact Hw|exact H].
  intros shs out Hs Ho.
  apply (KPs shs out (prune_shells_wfd string is0_s same_s String.eqb shs out Hs Ho) Ho).
Qed.

Lemma S_ug : forall b b' : sbasis,
    bForall (Forall wfd_s) b -> s_uncontract_general b = inr b' ->
    basis_FSeq is0_s same_s b' b /\ wf_basis is0_s b'.
Proof.
  intros b b' Hw H. unfold s_uncontract_general, uncontract_general in H.
  destruct (@lift_pure string (Forall wfd_s) (wf_shells is0_s) FSeq_s (@unc_gen_shells string)) with (b := b)
    as [H1 H2].
  - intros shs Hs. apply (unc_gen_FS_wfd string is0_s same_s shs Hs).
  - exact Hw.
  - destruct (@GeneralFS.prune_basis_FS string is0_s same_s String.eqb KPs _ b' H2 H) as [H3 H4].
    split; [|exact H4]. eapply basis_FSeq_trans; eassumption.
Qed.

Lemma S_mg : forall skip (b b' : sbasis),
    bForall (Forall wfd_s) b -> s_make_general skip b = inr b' ->
    basis_FSeq is0_s same_s b' b /\ wf_basis is0_s b'.
Proof.
  intros skip b b' Hw H. unfold s_make_general, make_general in H.
  apply bind_inr in H. destruct H as [b1 [E1 H]].
  apply bind_inr in H. destruct H as [b2 [E2 H]].
  assert (H1 : basis_FSeq is0_s same_s b1 b /\ bForall (Forall wfd_s) b1).
  { destruct skip.
    - inversion E1; subst b1. split; [apply basis_FSeq_refl|exact Hw].
    - apply (S_us 0 b b1 Hw E1). }
  destruct H1 as [HF1 Hw1].
  destruct (@lift_M string (Forall wfd_s) (fun gs => wf_shells is0_s gs \/ Exists dead_s gs)
              (fun gs shs => Exists dead_s gs \/ FSeq_s gs shs) (make_general_shells lit_make_general_zero))
    with (b := b1) (b' := b2) as [HR2 Hw2]; [|exact Hw1|exact E2|].
  { intros shs gs Hs Ho. apply (mg_shells_FS_wfd string is0_s same_s String.eqb _ _ _ K shs gs Hs Ho). }
  unfold prune_basis in H.
  destruct (@lift_M string (fun gs => wf_shells is0_s gs \/ Exists dead_s gs) (wf_shells is0_s)
              (fun out gs => FSeq_s out gs /\ wf_shells is0_s gs) (prune_shells is0_s same_s String.eqb))
    with (b := b2) (b' := b') as [HR3 Hw3]; [|exact Hw2|exact H|].
  { intros shs out [Hs|Hd] Ho; [|exfalso; apply (prune_shells_dead string is0_s same_s String.eqb shs out Hd Ho)].
    destruct (KPs shs out Hs Ho) as [P1 P2]. split; [split; [exact P1|exact Hs] | exact P2]. }
  split; [|exact Hw3].
  assert (HF : basis_FSeq is0_s same_s b' b1).
  { apply (basis_rel_comp string (fun out gs => FSeq_s out gs /\ wf_shells is0_s gs)
             (fun gs shs => Exists dead_s gs \/ FSeq_s gs shs) FSeq_s) with (b2 := b2); [|exact HR3|exact HR2].
    intros a0 b0 c0 [Hab Hwb] [Hd|Hbc]; [exfalso; apply (wf_not_dead string is0_s b0 Hwb Hd)|].
    eapply FSeq_trans; eassumption. }
  eapply basis_FSeq_trans; eassumption.
Qed.

Lemma wf_basis_wfd : forall b : sbasis, wf_basis is0_s b -> bForall (Forall wfd_s) b.
Proof.
  intros b Hw. eapply bForall_impl; [|exact Hw]. intros shs Hs. apply wf_wfd; exact Hs.
Qed.

(* ====================================================================================================== *)
(* decoding one step                                                                                       *)
(* ====================================================================================================== *)
Section Steps.
  Local Opaque s_prune_basis s_uncontract_spdf s_uncontract_general s_uncontract_segmented s_make_general
        s_optimize_general.

  Lemma run_wstep_cases : forall st b, recontracting st = true ->
      run_wstep st b = ok b \/
      run_wstep st b = s_uncontract_general b \/
      (exists n, run_wstep st b = s_uncontract_spdf n b) \/
      (exists skip, run_wstep st b = s_make_general skip b) \/
      run_wstep st b = s_prune_basis b.
  Proof.
    intros [[[m op] args] kw] b H.
    unfold recontracting, step_mod, step_op in H. cbn [fst snd] in H.
    cbv beta iota delta [run_wstep].
    destruct (String.eqb m "sort") eqn:E1; [left; reflexivity|].
    destruct (String.eqb op "uncontract_general") eqn:E2; [right; left; reflexivity|].
    destruct (String.eqb op "uncontract_spdf") eqn:E3.
    { right; right; left. destruct args as [|[bb|n] r]; eexists; reflexivity. }
    destruct (String.eqb op "make_general") eqn:E4.
    { right; right; right; left. destruct args as [|[sk|n] r]; eexists; reflexivity. }
    cbn [orb] in H.
    destruct (String.eqb op "optimize_general") eqn:E5.
    { apply String.eqb_eq in E5. subst op. discriminate H. }
    rewrite H. right; right; right; right. reflexivity.
  Qed.
End Steps.

Definition JW (b0 b1 : sbasis) : Prop := bForall (Forall wfd_s) b1 /\ basis_FSeq is0_s same_s b1 b0.

Lemma wstep_JW : forall st b0 b1 b2, recontracting st = true -> JW b0 b1 -> run_wstep st b1 = inr b2 -> JW b0 b2.
Proof.
  intros st b0 b1 b2 Hr [Hw HF] H.
  destruct (run_wstep_cases st b1 Hr) as [E|[E|[[n E]|[[skip E]|E]]]]; rewrite E in H.
  - inversion H; subst b2. split; assumption.
  - destruct (S_ug b1 b2 Hw H) as [H1 H2].
    split; [apply wf_basis_wfd; exact H2 | eapply basis_FSeq_trans; eassumption].
  - destruct (S_us n b1 b2 Hw H) as [H1 H2].
    split; [exact H2 | eapply basis_FSeq_trans; eassumption].
  - destruct (S_mg skip b1 b2 Hw H) as [H1 H2].
    split; [apply wf_basis_wfd; exact H2 | eapply basis_FSeq_trans; eassumption].
  - destruct (S_prune b1 b2 Hw H) as [H1 H2].
    split; [apply wf_basis_wfd; exact H2 | eapply basis_FSeq_trans; eassumption].
Qed.

Lemma wsteps_JW : forall sts b0 b1 b2, forallb recontracting sts = true -> JW b0 b1 ->
    run_wsteps sts b1 = inr b2 -> JW b0 b2.
Proof.
  induction sts as [|st t IH]; intros b0 b1 b2 Hr HJ H; cbn [run_wsteps] in H.
  - inversion H; subst b2. exact HJ.
  - cbn [forallb] in Hr. apply andb_true_iff in Hr. destruct Hr as [Hr1 Hr2].
    apply bind_inr in H. destruct H as [bm [E1 H]].
    apply (IH b0 bm b2 Hr2 (wstep_JW st b0 b1 bm Hr1 HJ E1) H).
Qed.

(* ====================================================================================================== *)
(* the statements                                                                                          *)
(* ====================================================================================================== *)
Lemma wsteps_FS : wsteps_FS_stmt.
Proof.
  intros sts b b' Hr Hwf _ H.
  assert (J0 : JW b b) by (split; [apply wf_basis_wfd; exact Hwf | apply basis_FSeq_refl]).
  apply (wsteps_JW sts b b b' Hr J0 H).
Qed.

Lemma recontracting_writers : recontracting_writers_stmt.
Proof. vm_compute. reflexivity. Qed.

Lemma writer_expected_complete : writer_expected_complete_stmt.
Proof.
  intros fmt w fts b b' _ Hr _ Hwf Hlow H. apply (wsteps_FS (w_pipeline w) b b' Hr Hwf Hlow H).
Qed.

Lemma gate_rejects : gate_rejects_stmt.
Proof.
  intros fmt w fts b t v Ha Hv Hin Hm. unfold writer_expected. rewrite Ha.
  assert (Hg : gate w fts = false).
  { unfold gate. rewrite Hv. destruct (forallb (fun t0 => mem_str t0 v) fts) eqn:E; [|reflexivity].
    rewrite forallb_forall in E. specialize (E t Hin). cbn beta in E. congruence. }
  rewrite Hg. reflexivity.
Qed.

Lemma unknown_format_rejected : unknown_format_rejected_stmt.
Proof. intros fmt fts b Ha. unfold writer_expected. rewrite Ha. reflexivity. Qed.

Print Assumptions wsteps_FS.
Print Assumptions recontracting_writers.
Print Assumptions writer_expected_complete.
Print Assumptions gate_rejects.
Print Assumptions unknown_format_rejected.
