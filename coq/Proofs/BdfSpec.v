(* Proofs of the statements of Proofs/BdfDefs.v: write_bdf is total on well-formed input and every number of the input is
   a token of some line of the text, for every element. *)
From BSE Require Import Model.Val Model.Text Model.Basis Model.Manip Model.Matrix Gen.GenLut Model.Lut Model.Elements
                        Model.Nwchem Model.NwchemEcp Model.Bdf Proofs.MatrixDefs Proofs.NwchemDefs Proofs.JaguarDefs
                        Proofs.BdfDefs.
From BSE Require Import Proofs.HeaderSpec Proofs.PruneFS Proofs.MatrixSpec Proofs.NwchemSpec Proofs.NwchemEcpSpec
                        Proofs.JagfamLib.
Require Import Coq.Sorting.Permutation Coq.Sorting.Sorted.

(* ================================================================== *)
(* 1. the order of the elements                                        *)
(* ================================================================== *)
Lemma bdf_insert_in : forall z x l, In x (bdf_insert z l) <-> x = z \/ In x l.
Proof.
  intros z x; induction l as [|y l IH]; cbn [bdf_insert].
  - cbn. intuition.
  - destruct (Z.ltb_spec z y) as [Hlt|Hge].
    + cbn [In]. intuition.
    + destruct (Z.eqb_spec z y) as [->|Hne].
      * cbn [In]. intuition.
      * cbn [In]. rewrite IH. intuition.
Qed.

Lemma bdf_insert_sorted : forall z l, StronglySorted Z.lt l -> StronglySorted Z.lt (bdf_insert z l).
Proof.
  intros z; induction l as [|y l IH]; intros H; cbn [bdf_insert].
  - constructor; constructor.
  - inversion H as [|? ? Hs Hy]; subst. destruct (Z.ltb_spec z y) as [Hlt|Hge].
    + constructor; [exact H|]. constructor; [exact Hlt|]. rewrite Forall_forall in *. intros x Hx. specialize (Hy x Hx). lia.
    + destruct (Z.eqb_spec z y) as [->|Hne]; [exact H|].
      constructor; [apply IH, Hs|]. rewrite Forall_forall in *. intros x Hx. apply bdf_insert_in in Hx.
      destruct Hx as [->|Hx]; [lia | apply Hy, Hx].
Qed.

Lemma bdf_all_elements_facts : bdf_all_elements_stmt.
Proof.
  intros els ecps. unfold bdf_all_elements. split.
  - intros z. rewrite <- in_app_iff. generalize (map fst els ++ map fst ecps) as l. intros l.
    induction l as [|y l IH]; cbn [fold_right]; [cbn; intuition|]. rewrite bdf_insert_in, IH. cbn [In]. intuition.
  - generalize (map fst els ++ map fst ecps) as l. intros l.
    induction l as [|y l IH]; cbn [fold_right]; [constructor | apply bdf_insert_sorted, IH].
Qed.

(* ================================================================== *)
(* 2. one shell                                                        *)
(* ================================================================== *)
Lemma bdf_pps_length : forall n, List.length (bdf_point_places n) = n.
Proof. intros n. unfold bdf_point_places. rewrite map_length. apply zrange_length. Qed.

Lemma coef_mat_cells : forall (n : nat) coefs, Forall (fun c => List.length c = n) coefs -> Forall (Forall floating) coefs ->
  Forall (Forall cell_ok) (map (map CStr) coefs) /\ Forall (Forall cell_ascii) (map (map CStr) coefs) /\
  Forall (fun col => List.length col = n) (map (map CStr) coefs).
Proof.
  intros n coefs Hl Hc. destruct (float_cols coefs Hc) as [A B]. split; [exact A|]. split; [exact B|].
  rewrite Forall_forall in *. intros col Hcol. apply in_map_iff in Hcol. destruct Hcol as [c [<- Hin]]. rewrite map_length. apply Hl, Hin.
Qed.

Lemma bdf_shell_total : forall s, bdf_shell_ok s -> exists t, bdf_write_shell s = inr t.
Proof.
  intros s [_ [Ha [Hl [He Hc]]]]. destruct (amchar_total_hik _ Ha) as [ch Ech].
  destruct (shell_mat_total (exps s) [] [14%Z] false He (Forall_nil _) (Forall_nil _)) as [L1 [m1 Em1]]; [cbn; lia|].
  destruct (coef_mat_cells (List.length (exps s)) (coefs s) Hl Hc) as [A [_ C]].
  assert (Hlen : List.length (map (map CStr) (coefs s)) <= List.length (bdf_point_places (List.length (coefs s))))
    by (rewrite bdf_pps_length, map_length; lia).
  pose proof (leftpad_total _ _ Hlen A) as L2.
  destruct (wm_total _ _ false _ A C Hlen) as [m2 Em2].
  unfold bdf_write_shell. rewrite Ech. unfold bind. change [map CStr (exps s)] with (shell_mat (exps s) []).
  rewrite L1, Em1, L2, Em2. eexists. reflexivity.
Qed.

Lemma bdf_shell_toks : forall s t, bdf_shell_ok s -> bdf_write_shell s = inr t ->
  nl_ended t /\ forall x, shell_number (exps s) (coefs s) x -> has_tok t x.
Proof.
  intros s t [_ [Ha [Hl [He Hc]]]] H. unfold bdf_write_shell, bind in H.
  change [map CStr (exps s)] with (shell_mat (exps s) []) in H.
  destruct (amint_to_char (am s) false false) as [e|ch]; [discriminate|].
  destruct (leftpad_check (shell_mat (exps s) []) _) as [e|u1]; [discriminate|].
  destruct (write_matrix (shell_mat (exps s) []) _ false) as [e|m1] eqn:Em1; [discriminate|].
  destruct (leftpad_check (map (map CStr) (coefs s)) _) as [e|u2]; [discriminate|].
  destruct (write_matrix (map (map CStr) (coefs s)) _ false) as [e|m2] eqn:Em2; [discriminate|]. apply ok_inj in H; subst t.
  set (hdr := upper ch +++ "    " +++ bdf_rjust 3 (nat_str (List.length (exps s))) +++ "    " +++ nat_str (List.length (coefs s))).
  assert (E : upper ch +++ "    " +++ bdf_rjust 3 (nat_str (List.length (exps s))) +++ "    " +++ nat_str (List.length (coefs s)) +++
              nl1 +++ m1 +++ m2 = hdr +++ nl1 +++ m1 +++ m2) by (unfold hdr; now rewrite !sapp_assoc).
  rewrite E. clear E.
  pose proof (wm_nl_ended _ _ _ _ Em1) as N1. pose proof (wm_nl_ended _ _ _ _ Em2) as N2.
  destruct (coef_mat_cells (List.length (exps s)) (coefs s) Hl Hc) as [A [B C]].
  split; [apply nl_ended_line_then, nl_ended_app; assumption|].
  intros x [Hx|[c [Hcin Hx]]]; apply has_tok_after_line.
  - apply has_tok_l; [exact N1|]. apply (shell_mat_tok _ _ _ false m1 He (Forall_nil _) (Forall_nil _) Em1 x). now left.
  - apply has_tok_r; [exact N1|].
    apply (wm_cell_tok _ _ false _ _ A B C Em2 (map CStr c) (CStr x)); [apply in_map, Hcin | apply in_map, Hx].
Qed.

(* ================================================================== *)
(* 3. one potential, the ECP of one element                            *)
(* ================================================================== *)
Lemma bdf_pot_shape : forall p, bdf_pot_ok p -> pot_shape p.
Proof. intros p [_ [_ H]]. exact H. Qed.

Lemma bdf_pot_total : forall p, bdf_pot_ok p -> exists t, bdf_write_pot p = inr t.
Proof.
  intros p Hp. pose proof (bdf_pot_shape p Hp) as Hs. destruct Hp as [_ [Ha _]].
  destruct (amchar_total_hij _ Ha) as [ch Ech].
  destruct (ecp_cols_total p bdf_ecp_point_places true Hs eq_refl) as [L [m Em]].
  unfold bdf_write_pot. rewrite Ech. unfold bind. rewrite L, Em. eexists. reflexivity.
Qed.

Lemma bdf_pot_toks : forall p t, bdf_pot_ok p -> bdf_write_pot p = inr t -> nl_ended t /\ pot_toks t p.
Proof.
  intros p t Hp H. pose proof (bdf_pot_shape p Hp) as Hs. unfold bdf_write_pot, bind in H.
  destruct (amint_to_char (p_am p) true false) as [e|ch]; [discriminate|].
  destruct (leftpad_check _ _) as [e|u]; [discriminate|].
  destruct (write_matrix _ _ true) as [e|m] eqn:Em; [discriminate|]. apply ok_inj in H; subst t.
  destruct (ecp_cols_tok p _ true m Hs Em) as [T1 T2].
  assert (E : upper ch +++ " potential  " +++ nat_str (List.length (p_rexp p)) +++ nl1 +++ m =
              (upper ch +++ " potential  " +++ nat_str (List.length (p_rexp p))) +++ nl1 +++ m) by (now rewrite !sapp_assoc).
  rewrite E. split; [apply nl_ended_line_then, (wm_nl_ended _ _ _ _ Em)|]. split.
  - intros x Hx. apply has_tok_after_line, (T1 x Hx).
  - intros n Hn. apply has_tok_after_line, T2, Hn.
Qed.

Lemma bdf_pots_am_ne : forall pots, Forall bdf_pot_ok pots -> Forall (fun p => p_am p <> []) pots.
Proof. intros pots H. rewrite Forall_forall in *. intros p Hp. apply (H p Hp). Qed.

Lemma bdf_ecp_total : forall sym nelec pots, pots <> [] -> Forall bdf_pot_ok pots ->
  exists t, bdf_write_ecp sym (nelec, pots) = inr t.
Proof.
  intros sym nelec pots Hne Hok. destruct (ecp_max_am_facts pots Hne (bdf_pots_am_ne pots Hok)) as [mx [Emx _]].
  destruct (ecp_order_total pots Hne) as [l El]. pose proof (ecp_order_perm pots l El) as P.
  destruct (mapM_total_in _ _ bdf_write_pot l) as [body Eb].
  { intros q Hq. apply bdf_pot_total. rewrite Forall_forall in Hok. apply Hok. apply (Permutation_in _ (Permutation_sym P) Hq). }
  unfold bdf_write_ecp. rewrite Emx. unfold bind. rewrite El, Eb. eexists. reflexivity.
Qed.

Lemma bdf_ecp_toks : forall sym nelec pots t, sall nobd sym = true -> tok_ok sym -> Forall bdf_pot_ok pots ->
  bdf_write_ecp sym (nelec, pots) = inr t ->
  nl_ended t /\ has_tok t (Z_to_string nelec) /\ forall p, In p pots -> pot_toks t p.
Proof.
  intros sym nelec pots t Hsym Hsymt Hok H. unfold bdf_write_ecp, bind in H.
  destruct (ecp_max_am pots) as [e|mx]; [discriminate|].
  destruct (ecp_order pots) as [e|l] eqn:El; [discriminate|]. pose proof (ecp_order_perm pots l El) as P.
  destruct (mapM bdf_write_pot l) as [e|body] eqn:Eb; [discriminate|]. apply ok_inj in H; subst t.
  assert (Hl : forall q, In q l -> bdf_pot_ok q).
  { intros q Hq. rewrite Forall_forall in Hok. apply Hok, (Permutation_in _ (Permutation_sym P) Hq). }
  assert (Hbody : Forall nl_ended body).
  { apply (mapM_all _ _ _ _ _ _ Eb). intros q b Hq Hb. apply (bdf_pot_toks q b (Hl q Hq) Hb). }
  set (line := (sym +++ sp 5 +++ Z_to_string nelec) +++ sp 5 +++ Z_to_string mx).
  assert (E : "ECP" +++ nl1 +++ sym +++ "     " +++ Z_to_string nelec +++ "     " +++ Z_to_string mx +++ nl1 +++ String.concat "" body =
              "ECP" +++ nl1 +++ line +++ nl1 +++ String.concat "" body).
  { unfold line. change (sp 5) with "     ". now rewrite !sapp_assoc. }
  rewrite E. clear E. split; [|split].
  - apply nl_ended_line_then, nl_ended_line_then, nl_ended_concat, Hbody.
  - apply has_tok_after_line, has_tok_in_line.
    + unfold line. rewrite !sall_app, Hsym, !Zstr_nobd. reflexivity.
    + unfold line. rewrite (tokens_snoc 4 _ (Zstr_tok mx)). apply in_or_app. left. apply last_tok, Zstr_tok.
  - intros p Hp. apply (Permutation_in _ P) in Hp. destruct (mapM_In _ _ _ _ _ p Eb Hp) as [b [Hb Hin]].
    destruct (bdf_pot_toks p b (Hl p Hp) Hb) as [_ [T1 T2]]. split.
    + intros x Hx. apply has_tok_after_line, has_tok_after_line, (has_tok_concat body b); [exact Hbody | exact Hin | apply T1, Hx].
    + intros n Hn. apply has_tok_after_line, has_tok_after_line, (has_tok_concat body b); [exact Hbody | exact Hin | apply T2, Hn].
Qed.

(* ================================================================== *)
(* 4. the shells of one element                                        *)
(* ================================================================== *)
Lemma bdf_max_am_total : forall shs, shs <> [] -> Forall bdf_shell_ok shs -> exists mx, bdf_max_am shs = inr mx.
Proof.
  intros shs Hne Hok. unfold bdf_max_am.
  rewrite (mapM_map_ok _ _ _ (fun s => zmax (am s)) shs).
  - unfold bind. destruct shs; [congruence|]. eexists. reflexivity.
  - intros s Hs. rewrite Forall_forall in Hok. destruct (Hok s Hs) as [Ha _]. destruct (am s); [congruence | reflexivity].
Qed.

Lemma bdf_shells_total : forall sym z shs, shs <> [] -> Forall bdf_shell_ok shs -> exists t, bdf_write_shells sym z shs = inr t.
Proof.
  intros sym z shs Hne Hok. destruct (bdf_max_am_total shs Hne Hok) as [mx Emx].
  destruct (mapM_total_in _ _ bdf_write_shell shs) as [body Eb].
  { intros s Hs. apply bdf_shell_total. rewrite Forall_forall in Hok. apply Hok, Hs. }
  unfold bdf_write_shells. rewrite Emx. unfold bind. rewrite Eb. eexists. reflexivity.
Qed.

Lemma bdf_shells_toks : forall sym z shs t, Forall bdf_shell_ok shs -> bdf_write_shells sym z shs = inr t ->
  nl_ended t /\ forall s x, In s shs -> shell_number (exps s) (coefs s) x -> has_tok t x.
Proof.
  intros sym z shs t Hok H. unfold bdf_write_shells, bind in H.
  destruct (bdf_max_am shs) as [e|mx]; [discriminate|].
  destruct (mapM bdf_write_shell shs) as [e|body] eqn:Eb; [discriminate|]. apply ok_inj in H; subst t.
  rewrite Forall_forall in Hok.
  assert (Hbody : Forall nl_ended body).
  { apply (mapM_all _ _ _ _ _ _ Eb). intros s b Hs Hb. apply (bdf_shell_toks s b (Hok s Hs) Hb). }
  assert (E : sym +++ bdf_rjust 7 (Z_to_string z) +++ "   " +++ Z_to_string mx +++ nl1 +++ String.concat "" body =
              (sym +++ bdf_rjust 7 (Z_to_string z) +++ "   " +++ Z_to_string mx) +++ nl1 +++ String.concat "" body)
    by (now rewrite !sapp_assoc).
  rewrite E. split; [apply nl_ended_line_then, nl_ended_concat, Hbody|].
  intros s x Hs Hx. destruct (mapM_In _ _ _ _ _ s Eb Hs) as [b [Hb Hbin]].
  apply has_tok_after_line, (has_tok_concat body b); [exact Hbody | exact Hbin | apply (bdf_shell_toks s b (Hok s Hs) Hb), Hx].
Qed.

(* ================================================================== *)
(* 5. one element, the whole text                                      *)
(* ================================================================== *)
Definition bdf_el_ok (zs : Z * list sshell) : Prop := (1 <= fst zs <= 120)%Z /\ snd zs <> [] /\ Forall bdf_shell_ok (snd zs).
Definition bdf_ecp_el_ok (e : Z * (Z * list epot)) : Prop :=
  (1 <= fst e <= 120)%Z /\ snd (snd e) <> [] /\ Forall bdf_pot_ok (snd (snd e)).

Lemma bdf_element_total : forall els ecps z, Forall bdf_el_ok els -> Forall bdf_ecp_el_ok ecps -> (1 <= z <= 120)%Z ->
  exists t, bdf_write_element els ecps z = inr t.
Proof.
  intros els ecps z Hels Hecps Hz. destruct (sym120 z Hz) as [Es _]. unfold bdf_write_element. rewrite Es. unfold bind.
  assert (A : exists a, match assocZ z els with Some shs => bdf_write_shells (symz z) z shs | None => ok "" end = inr a).
  { destruct (assocZ z els) as [shs|] eqn:Ea; [|eexists; reflexivity]. apply assocZ_In in Ea. rewrite Forall_forall in Hels.
    destruct (Hels _ Ea) as [_ [Hne Hok]]. apply bdf_shells_total; assumption. }
  assert (B : exists b, match assocZ z ecps with Some e => bdf_write_ecp (symz z) e | None => ok "" end = inr b).
  { destruct (assocZ z ecps) as [[nelec pots]|] eqn:Ea; [|eexists; reflexivity]. apply assocZ_In in Ea. rewrite Forall_forall in Hecps.
    destruct (Hecps _ Ea) as [_ [Hne Hok]]. apply bdf_ecp_total; assumption. }
  destruct A as [a ->]. destruct B as [b ->]. eexists. reflexivity.
Qed.

Lemma bdf_element_toks : forall els ecps z t, Forall bdf_el_ok els -> Forall bdf_ecp_el_ok ecps -> (1 <= z <= 120)%Z ->
  bdf_write_element els ecps z = inr t ->
  nl_ended t /\
  (forall shs, assocZ z els = Some shs -> forall s x, In s shs -> shell_number (exps s) (coefs s) x -> has_tok t x) /\
  (forall nelec pots, assocZ z ecps = Some (nelec, pots) ->
     has_tok t (Z_to_string nelec) /\ forall p, In p pots -> pot_toks t p).
Proof.
  intros els ecps z t Hels Hecps Hz H. destruct (sym120 z Hz) as [Es [Hnb Htok]].
  unfold bdf_write_element, bind in H. rewrite Es in H.
  destruct (match assocZ z els with Some shs => bdf_write_shells (symz z) z shs | None => ok "" end) as [e|a] eqn:Ea; [discriminate|].
  destruct (match assocZ z ecps with Some e => bdf_write_ecp (symz z) e | None => ok "" end) as [e|b] eqn:Eb; [discriminate|].
  apply ok_inj in H; subst t.
  assert (A : nl_ended a /\ forall shs, assocZ z els = Some shs -> forall s x, In s shs -> shell_number (exps s) (coefs s) x -> has_tok a x).
  { destruct (assocZ z els) as [shs|] eqn:Eas.
    - pose proof (assocZ_In _ _ _ _ Eas) as Hin. rewrite Forall_forall in Hels. destruct (Hels _ Hin) as [_ [_ Hok]]. cbn [snd] in Hok.
      destruct (bdf_shells_toks _ _ _ _ Hok Ea) as [N T]. split; [exact N|]. intros shs' E. inversion E; subst shs'. exact T.
    - apply ok_inj in Ea; subst a. split; [apply nl_ended_nil | intros shs E; discriminate E]. }
  assert (B : nl_ended b /\ forall nelec pots, assocZ z ecps = Some (nelec, pots) ->
                has_tok b (Z_to_string nelec) /\ forall p, In p pots -> pot_toks b p).
  { destruct (assocZ z ecps) as [[nelec pots]|] eqn:Eas.
    - pose proof (assocZ_In _ _ _ _ Eas) as Hin. rewrite Forall_forall in Hecps. destruct (Hecps _ Hin) as [_ [_ Hok]]. cbn [snd] in Hok.
      destruct (bdf_ecp_toks _ _ _ _ Hnb Htok Hok Eb) as [N T]. split; [exact N|]. intros n' p' E. inversion E; subst n' p'. exact T.
    - apply ok_inj in Eb; subst b. split; [apply nl_ended_nil | intros n' p' E; discriminate E]. }
  destruct A as [Na Ta]. destruct B as [Nb Tb]. split; [|split].
  - apply nl_ended_line_then, nl_ended_app; assumption.
  - intros shs E s x Hs Hx. apply has_tok_after_line, has_tok_l; [exact Na | apply (Ta shs E s x Hs Hx)].
  - intros nelec pots E. destruct (Tb nelec pots E) as [T1 T2]. split.
    + apply has_tok_after_line, has_tok_r; assumption.
    + intros p Hp. destruct (T2 p Hp) as [U1 U2]. split.
      * intros x Hx. apply has_tok_after_line, has_tok_r; [exact Na | apply U1, Hx].
      * intros n Hn. apply has_tok_after_line, has_tok_r; [exact Na | apply U2, Hn].
Qed.

Lemma bdf_ok_parts : forall els ecps, bdf_ok els ecps ->
  NoDup (map fst els) /\ NoDup (map fst ecps) /\ Forall bdf_el_ok els /\ Forall bdf_ecp_el_ok ecps.
Proof. intros els ecps H. exact H. Qed.

Lemma bdf_keys_range : forall els ecps z, Forall bdf_el_ok els -> Forall bdf_ecp_el_ok ecps ->
  In z (bdf_all_elements els ecps) -> (1 <= z <= 120)%Z.
Proof.
  intros els ecps z Hels Hecps Hz. apply (proj1 (bdf_all_elements_facts els ecps)) in Hz. rewrite Forall_forall in *.
  destruct Hz as [Hz|Hz]; apply in_map_iff in Hz; destruct Hz as [e [<- He]]; [apply (Hels e He) | apply (Hecps e He)].
Qed.

Lemma bdf_write_total : bdf_write_total_stmt.
Proof.
  intros els ecps H. destruct (bdf_ok_parts els ecps H) as [_ [_ [Hels Hecps]]].
  destruct (mapM_total_in _ _ (bdf_write_element els ecps) (bdf_all_elements els ecps)) as [parts Ep].
  { intros z Hz. apply bdf_element_total; [exact Hels | exact Hecps | apply (bdf_keys_range els ecps z Hels Hecps Hz)]. }
  unfold bdf_write_all. rewrite Ep. eexists. reflexivity.
Qed.

(* what the text is made of *)
Lemma bdf_all_parts : forall els ecps t, bdf_ok els ecps -> bdf_write_all els ecps = inr t ->
  exists parts, t = String.concat "" parts +++ "****" +++ nl1 /\ Forall nl_ended parts /\
    forall z, In z (map fst els) \/ In z (map fst ecps) ->
      exists b, In b parts /\ (1 <= z <= 120)%Z /\ bdf_write_element els ecps z = inr b.
Proof.
  intros els ecps t H Ht. destruct (bdf_ok_parts els ecps H) as [_ [_ [Hels Hecps]]].
  unfold bdf_write_all, bind in Ht.
  destruct (mapM (bdf_write_element els ecps) (bdf_all_elements els ecps)) as [e|parts] eqn:Ep; [discriminate|].
  apply ok_inj in Ht; subst t. exists parts. split; [reflexivity|]. split.
  - apply (mapM_all _ _ _ _ _ _ Ep). intros z b Hz Hb.
    apply (bdf_element_toks els ecps z b Hels Hecps (bdf_keys_range els ecps z Hels Hecps Hz) Hb).
  - intros z Hz. apply (proj1 (bdf_all_elements_facts els ecps)) in Hz.
    destruct (mapM_In _ _ _ _ _ z Ep Hz) as [b [Hb Hbin]]. exists b. split; [exact Hbin|]. split; [|exact Hb].
    apply (bdf_keys_range els ecps z Hels Hecps Hz).
Qed.

Lemma bdf_no_number_lost : bdf_no_number_lost_stmt.
Proof.
  intros els ecps t H Ht x [[z shs] [s [Hzs [Hs Hx]]]]. cbn [snd] in Hs.
  destruct (bdf_ok_parts els ecps H) as [Hnd [_ [Hels Hecps]]].
  destruct (bdf_all_parts els ecps t H Ht) as [parts [-> [Hnl Hparts]]].
  destruct (Hparts z) as [b [Hbin [Hz Hb]]]; [left; apply (in_map fst) in Hzs; exact Hzs|].
  destruct (bdf_element_toks els ecps z b Hels Hecps Hz Hb) as [_ [T _]].
  apply has_tok_l; [apply nl_ended_concat, Hnl|].
  apply (has_tok_concat parts b); [exact Hnl | exact Hbin|].
  exact (T shs (assocZ_NoDup _ _ _ _ Hnd Hzs) s x Hs Hx).
Qed.

Lemma bdf_ecp_no_number_lost : bdf_ecp_no_number_lost_stmt.
Proof.
  intros els ecps t H Ht.
  destruct (bdf_ok_parts els ecps H) as [_ [Hnd [Hels Hecps]]].
  destruct (bdf_all_parts els ecps t H Ht) as [parts [-> [Hnl Hparts]]].
  assert (Hkey : forall z nelec pots, In (z, (nelec, pots)) ecps ->
            has_tok (String.concat "" parts +++ "****" +++ nl1) (Z_to_string nelec) /\
            forall p, In p pots -> pot_toks (String.concat "" parts +++ "****" +++ nl1) p).
  { intros z nelec pots Hin. destruct (Hparts z) as [b [Hbin [Hz Hb]]]; [right; apply (in_map fst) in Hin; exact Hin|].
    destruct (bdf_element_toks els ecps z b Hels Hecps Hz Hb) as [_ [_ T]].
    destruct (T nelec pots (assocZ_NoDup _ _ _ _ Hnd Hin)) as [T1 T2].
    pose proof (nl_ended_concat parts Hnl) as Hc. split.
    - apply has_tok_l; [exact Hc|]. apply (has_tok_concat parts b); assumption.
    - intros p Hp. destruct (T2 p Hp) as [U1 U2]. split.
      + intros x Hx. apply has_tok_l; [exact Hc|]. apply (has_tok_concat parts b); [exact Hnl | exact Hbin | apply U1, Hx].
      + intros n Hn. apply has_tok_l; [exact Hc|]. apply (has_tok_concat parts b); [exact Hnl | exact Hbin | apply U2, Hn]. }
  split.
  - intros x [[z [nelec pots]] [p [He [Hp Hx]]]]. cbn [snd] in Hp.
    destruct (Hkey z nelec pots He) as [_ T]. apply (T p Hp). exact Hx.
  - intros n [[z [nelec pots]] [He Hn]]. cbn [fst snd] in Hn. destruct (Hkey z nelec pots He) as [T1 T2].
    destruct Hn as [->|[p [Hp Hn]]]; [exact T1 | apply (T2 p Hp), Hn].
Qed.

(* ================================================================== *)
(* 6. the conditions of bdf_ok, the store instance                     *)
(* ================================================================== *)
Lemma bdf_mixed : bdf_mixed_stmt.
Proof. repeat split; vm_compute; reflexivity. Qed.
Lemma bdf_am : bdf_am_stmt.
Proof. repeat split; vm_compute; reflexivity. Qed.
Lemma bdf_lengths : bdf_lengths_stmt.
Proof. repeat split; vm_compute; reflexivity. Qed.
Lemma bdf_ecp_coef_columns : bdf_ecp_coef_columns_stmt.
Proof. repeat split; vm_compute; reflexivity. Qed.
Lemma bdf_floating : bdf_floating_stmt.
Proof. repeat split; vm_compute; reflexivity. Qed.
Lemma bdf_elements : bdf_elements_stmt.
Proof. repeat split; vm_compute; reflexivity. Qed.

Ltac floats := repeat (constructor; try (vm_compute; reflexivity)).

Lemma bdf_example : bdf_example_stmt.
Proof.
  split; [|vm_compute; reflexivity].
  split; [|split; [|split]].
  - repeat constructor; cbn; intuition; discriminate.
  - repeat constructor. cbn. intros [].
  - repeat (constructor; [split; [cbn; lia|]; split; [discriminate|]|]);
      repeat (constructor; [repeat split; floats; cbn; try lia; try discriminate|]); constructor.
  - constructor; [|constructor]. cbn [fst snd]. split; [lia|]. split; [discriminate|].
    repeat (constructor; [repeat split; floats; cbn; try lia; try discriminate|]). constructor.
Qed.

Print Assumptions bdf_write_total.
Print Assumptions bdf_all_elements_facts.
Print Assumptions bdf_no_number_lost.
Print Assumptions bdf_ecp_no_number_lost.
Print Assumptions bdf_mixed.
Print Assumptions bdf_am.
Print Assumptions bdf_lengths.
Print Assumptions bdf_ecp_coef_columns.
Print Assumptions bdf_floating.
Print Assumptions bdf_elements.
Print Assumptions bdf_example.
