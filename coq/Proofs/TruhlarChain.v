(* "successive months form a descending chain": whatever the calendar truncation removes from an element for k
   months before jul, it removes in exactly the same way for every k' >= k months; the later month only removes
   more.  Any number of shells; built on AugmentSpec.element_remove_diffuse_spec. *)
From Coq Require Import Lia ZArith.
From BSE Require Import Model.Val Model.Num Model.Basis Model.Manip Model.Augment Proofs.AugmentDefs.
From BSE Require Proofs.AugmentSpec.

Lemma Forall2_nth {A B} (R : A -> B -> Prop) : forall l l', Forall2 R l l' ->
  forall i x y, nth_error l i = Some x -> nth_error l' i = Some y -> R x y.
Proof.
  induction 1 as [|a b l l' Hab HF IH]; intros i x y Hx Hy.
  - destruct i; discriminate Hx.
  - destruct i as [|i]; cbn [nth_error] in Hx, Hy.
    + injection Hx as <-. injection Hy as <-. exact Hab.
    + exact (IH i x y Hx Hy).
Qed.

Lemma F2_length {A B} (R : A -> B -> Prop) : forall l l', Forall2 R l l' -> List.length l' = List.length l.
Proof. induction 1 as [|a b l l' _ _ IH]; cbn [List.length]; [reflexivity | rewrite IH; reflexivity]. Qed.

Definition truhlar_chain_stmt : Prop :=
  forall shs k k' o1 o2, (k <= k')%Z ->
    element_remove_diffuse shs (Some k) = inr o1 -> element_remove_diffuse shs (Some k') = inr o2 ->
    List.length o1 = List.length shs /\ List.length o2 = List.length shs /\
    forall i s a b, nth_error shs i = Some s -> nth_error o1 i = Some a -> nth_error o2 i = Some b ->
      (a = s \/ a = b) /\ (b = s \/ exists j, b = remove_primitive s j).

Lemma truhlar_chain : truhlar_chain_stmt.
Proof.
  intros shs k k' o1 o2 Hk H1 H2.
  destruct (max_am_shells shs) as [e|mx] eqn:Emx.
  { unfold element_remove_diffuse in H1. rewrite Emx in H1. discriminate H1. }
  pose proof (AugmentSpec.element_remove_diffuse_spec shs (Some k) o1 mx H1 Emx) as F1.
  pose proof (AugmentSpec.element_remove_diffuse_spec shs (Some k') o2 mx H2 Emx) as F2.
  cbv zeta in F1, F2.
  split; [exact (F2_length _ _ _ F1)|]. split; [exact (F2_length _ _ _ F2)|].
  intros i s a b Hs Ha Hb.
  destruct (Forall2_nth _ _ _ F1 i s a Hs Ha) as [l [Hl R1]].
  destruct (Forall2_nth _ _ _ F2 i s b Hs Hb) as [l' [Hl' R2]].
  rewrite Hl in Hl'. injection Hl' as <-.
  destruct ((l <=? mx)%Z && ((mx - k <? l)%Z && (0 <=? l)%Z)) eqn:C1.
  - assert (C2 : ((l <=? mx)%Z && ((mx - k' <? l)%Z && (0 <=? l)%Z)) = true).
    { apply Bool.andb_true_iff in C1. destruct C1 as [A B]. apply Bool.andb_true_iff in B. destruct B as [B C].
      rewrite A, C. apply Z.ltb_lt in B. assert (D : (mx - k' <? l)%Z = true) by (apply Z.ltb_lt; lia).
      rewrite D. reflexivity. }
    rewrite C2 in R2.
    destruct R1 as [se [v [j [rest [S1 [-> ->]]]]]].
    destruct R2 as [se' [v' [j' [rest' [S2 [-> ->]]]]]].
    rewrite S1 in S2. injection S2 as _ <- _.
    split; [right; reflexivity | right; exists j; reflexivity].
  - subst a. split; [left; reflexivity|].
    destruct ((l <=? mx)%Z && ((mx - k' <? l)%Z && (0 <=? l)%Z)).
    + destruct R2 as [se' [v' [j' [rest' [_ [_ ->]]]]]]. right. exists j'. reflexivity.
    + left. exact R2.
Qed.

(* the same chain with 'all' (what H and He get) as the top element: nremove = None counts as max_am + 1 *)
Definition kval (mx : Z) (n : option Z) : Z := match n with None => (mx + 1)%Z | Some k => k end.
Definition truhlar_chain_all_stmt : Prop :=
  forall shs n1 n2 o1 o2,
    (forall mx, max_am_shells shs = inr mx -> (kval mx n1 <= kval mx n2)%Z) ->
    element_remove_diffuse shs n1 = inr o1 -> element_remove_diffuse shs n2 = inr o2 ->
    forall i s a b, nth_error shs i = Some s -> nth_error o1 i = Some a -> nth_error o2 i = Some b ->
      (a = s \/ a = b) /\ (b = s \/ exists j, b = remove_primitive s j).

Lemma truhlar_chain_all : truhlar_chain_all_stmt.
Proof.
  intros shs n1 n2 o1 o2 Hk H1 H2.
  destruct (max_am_shells shs) as [e|mx] eqn:Emx.
  { unfold element_remove_diffuse in H1. rewrite Emx in H1. discriminate H1. }
  specialize (Hk mx eq_refl). unfold kval in Hk.
  pose proof (AugmentSpec.element_remove_diffuse_spec shs n1 o1 mx H1 Emx) as F1.
  pose proof (AugmentSpec.element_remove_diffuse_spec shs n2 o2 mx H2 Emx) as F2.
  cbv zeta in F1, F2.
  set (k := match n1 with None => (mx + 1)%Z | Some k => k end) in *.
  set (k' := match n2 with None => (mx + 1)%Z | Some k => k end) in *.
  intros i s a b Hs Ha Hb.
  destruct (Forall2_nth _ _ _ F1 i s a Hs Ha) as [l [Hl R1]].
  destruct (Forall2_nth _ _ _ F2 i s b Hs Hb) as [l' [Hl' R2]].
  rewrite Hl in Hl'. injection Hl' as <-.
  destruct ((l <=? mx)%Z && ((mx - k <? l)%Z && (0 <=? l)%Z)) eqn:C1.
  - assert (C2 : ((l <=? mx)%Z && ((mx - k' <? l)%Z && (0 <=? l)%Z)) = true).
    { apply Bool.andb_true_iff in C1. destruct C1 as [A B]. apply Bool.andb_true_iff in B. destruct B as [B C].
      rewrite A, C. apply Z.ltb_lt in B. assert (D : (mx - k' <? l)%Z = true) by (apply Z.ltb_lt; lia).
      rewrite D. reflexivity. }
    rewrite C2 in R2.
    destruct R1 as [se [v [j [rest [S1 [-> ->]]]]]].
    destruct R2 as [se' [v' [j' [rest' [S2 [-> ->]]]]]].
    rewrite S1 in S2. injection S2 as _ <- _.
    split; [right; reflexivity | right; exists j; reflexivity].
  - subst a. split; [left; reflexivity|].
    destruct ((l <=? mx)%Z && ((mx - k' <? l)%Z && (0 <=? l)%Z)).
    + destruct R2 as [se' [v' [j' [rest' [_ [_ ->]]]]]]. right. exists j'. reflexivity.
    + left. exact R2.
Qed.
