(* Statements for C17. Definitions only. *)
From BSE Require Import Model.Val Model.Basis Model.Memo Model.Elements Model.Compose Model.Index Model.Validator Model.AddBasis.

Definition element_rel (subdir file_base version : string) : string := path_join subdir (file_base +++ "." +++ version +++ ".element.json").
Definition table_rel (file_base version : string) : string := file_base +++ "." +++ version +++ ".table.json".
Definition meta_rel (file_base : string) : string := file_base +++ ".metadata.json".
Definition comp_rel (subdir file_base version : string) : string := path_join subdir (file_base +++ "." +++ version +++ ".json").

(* nothing that was there is changed or removed (the index file aside) *)
Definition add_from_components_monotone_stmt : Prop :=
  forall d comps subdir fb name family role desc version revdesc today d',
    add_from_components d comps subdir fb name family role desc version revdesc today = inr d' ->
    forall p v, p <> "METADATA.json" -> assoc p d = Some v -> assoc p d' = Some v.
(* the only new paths are the element file, the table file, the metadata file and the index *)
Definition add_from_components_new_files_stmt : Prop :=
  forall d comps subdir fb name family role desc version revdesc today d',
    add_from_components d comps subdir fb name family role desc version revdesc today = inr d' ->
    forall p, assoc p d = None -> assoc p d' <> None ->
      In p [element_rel subdir fb version; table_rel fb version; meta_rel fb; "METADATA.json"].
(* after a successful addition the index file is what regenerating it from the directory gives *)
Definition add_from_components_index_stmt : Prop :=
  forall d comps subdir fb name family role desc version revdesc today d',
    add_from_components d comps subdir fb name family role desc version revdesc today = inr d' ->
    exists idx, assoc "METADATA.json" d' = Some idx /\ create_metadata (remove_file d' "METADATA.json") = inr idx.
(* an existing element or table file is never overwritten: the addition is refused *)
Definition add_from_components_no_overwrite_stmt : Prop :=
  forall d comps subdir fb name family role desc version revdesc today,
    (exists_path d (element_rel subdir fb version) = true \/ exists_path d (table_rel fb version) = true) ->
    exists e, add_from_components d comps subdir fb name family role desc version revdesc today = inl e.
(* a name already registered for another basis is refused before anything is written *)
Definition add_from_components_name_clash_stmt : Prop :=
  forall d comps subdir fb name family role desc version revdesc today m e bn rp,
    assoc "METADATA.json" d = Some (VDict m) -> assoc (transform_basis_name name) m = Some e ->
    entry_str "basename" e = inr bn -> entry_str "relpath" e = inr rp -> (bn <> fb \/ rp <> "") ->
    exists err, add_from_components d comps subdir fb name family role desc version revdesc today = inl err.

(* the same for add_basis_from_dict: the component file is the only further new path *)
Definition add_basis_from_dict_monotone_stmt : Prop :=
  forall d bs subdir fb name family role desc version revdesc src today refs d',
    add_basis_from_dict d bs subdir fb name family role desc version revdesc src today refs = inr d' ->
    forall p v, p <> "METADATA.json" -> assoc p d = Some v -> assoc p d' = Some v.
Definition add_basis_from_dict_new_files_stmt : Prop :=
  forall d bs subdir fb name family role desc version revdesc src today refs d',
    add_basis_from_dict d bs subdir fb name family role desc version revdesc src today refs = inr d' ->
    forall p, assoc p d = None -> assoc p d' <> None ->
      In p [comp_rel subdir fb version; element_rel subdir fb version; table_rel fb version; meta_rel fb; "METADATA.json"].
Definition add_basis_from_dict_index_stmt : Prop :=
  forall d bs subdir fb name family role desc version revdesc src today refs d',
    add_basis_from_dict d bs subdir fb name family role desc version revdesc src today refs = inr d' ->
    exists idx, assoc "METADATA.json" d' = Some idx /\ create_metadata (remove_file d' "METADATA.json") = inr idx.
Definition add_basis_from_dict_no_overwrite_stmt : Prop :=
  forall d bs subdir fb name family role desc version revdesc src today refs,
    exists_path d (comp_rel subdir fb version) = true ->
    exists e, add_basis_from_dict d bs subdir fb name family role desc version revdesc src today refs = inl e.
(* what is stored in the component file is the supplied data with description, data source and the references set *)
Definition add_basis_from_dict_stores_stmt : Prop :=
  forall d bs subdir fb name family role desc version revdesc src today refs d',
    add_basis_from_dict d bs subdir fb name family role desc version revdesc src today refs = inr d' ->
    exists top els els',
      bs = VDict top /\ (do e <- vfield "elements" bs; vdict e) = inr els /\ set_refs els refs = inr els' /\
      assoc (comp_rel subdir fb version) d' =
        Some (VDict (assoc_set "elements" (VDict els') (assoc_set "data_source" (VStr src) (assoc_set "description" (VStr desc) top)))) /\
      validate_data "component" (VDict (assoc_set "elements" (VDict els') (assoc_set "data_source" (VStr src) (assoc_set "description" (VStr desc) top)))) = inr tt.

(* any sequence of additions (a failed one leaves the directory as it was): monotone over the whole history *)
Inductive add_op :=
| AddDict (bs : val) (subdir fb name family role desc version revdesc src today : string) (refs : refs_arg)
| AddComps (comps : list string) (subdir fb name family role desc version revdesc today : string).
Definition apply_op (d : datadir) (o : add_op) : datadir :=
  match o with
  | AddDict bs subdir fb name family role desc version revdesc src today refs =>
    match add_basis_from_dict d bs subdir fb name family role desc version revdesc src today refs with inr d' => d' | inl _ => d end
  | AddComps comps subdir fb name family role desc version revdesc today =>
    match add_from_components d comps subdir fb name family role desc version revdesc today with inr d' => d' | inl _ => d end
  end.
Definition add_sequence_monotone_stmt : Prop :=
  forall ops d p v, p <> "METADATA.json" -> assoc p d = Some v -> assoc p (fold_left apply_op ops d) = Some v.
