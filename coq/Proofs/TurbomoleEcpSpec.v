(* Proofs of the statements of Proofs/TurbomoleEcpDefs.v: the Turbomole file ($basis section and $ecp section) written by
   write_turbomole is read back by read_turbomole exactly (up to the exponent marker, the region, the function type and the
   ecp_type) when some element has electron shells and no ECP momentum exceeds 6; otherwise it is not (the two findings). *)
From BSE Require Import Model.Val Model.Text Model.Basis Model.Manip Model.Matrix Gen.GenLut Model.Lut Model.Elements
                        Model.Nwchem Model.NwchemEcp Model.Turbomole Model.TurbomoleEcp
                        Proofs.MatrixDefs Proofs.NwchemDefs Proofs.NwchemEcpDefs Proofs.TurbomoleDefs Proofs.TurbomoleEcpDefs
                        Proofs.C20Finite.
From BSE Require Proofs.ElementsSpec.
From BSE Require Import Proofs.HeaderSpec Proofs.PruneFS Proofs.MatrixSpec Proofs.NwchemSpec Proofs.NwchemEcpSpec Proofs.TurbomoleSpec.
Require Import Coq.Sorting.Permutation Coq.Sorting.Sorted Coq.ZArith.ZArith Coq.micromega.Lia.

(* ================================================================== *)
(* 1. the letters: lut._amchar_map_hij (writer) against _amchar_map_hik (reader) *)
(* ================================================================== *)
Definition hij_of (a : list Z) : string := match amint_to_char a true false with inr c => c | inl _ => "" end.

Definition hij_check (l : Z) : bool :=
  match amint_to_char [l] true false with
  | inr (String c EmptyString) =>
    is_lower c && match amchar_to_int (String c EmptyString) false with
                  | inr [l'] => Z.eqb l' l
                  | _ => false
                  end
  | _ => false
  end.
(* the two maps agree on 0..6 ... *)
Lemma hij_sweep : forallb hij_check (zrange 0 7) = true.
Proof. vm_compute. reflexivity. Qed.
(* ... and nowhere else in the range of the writer's map *)
Lemma hij_sweep_rest : forallb (fun l => negb (hij_check l)) (zrange 7 19) = true.
Proof. vm_compute. reflexivity. Qed.

Lemma hij_facts : forall l, (0 <= l < 7)%Z ->
  exists c, amint_to_char [l] true false = inr (String c "") /\ is_lower c = true /\
            amchar_to_int (String c "") false = inr [l].
Proof.
  intros l Hl. assert (Hin : In l (zrange 0 7)) by (apply zrange_In; lia).
  pose proof (proj1 (forallb_forall _ _) hij_sweep l Hin) as H. unfold hij_check in H.
  destruct (amint_to_char [l] true false) as [e|[|c [|c2 s]]]; try discriminate H.
  exists c. apply andb_true_iff in H. destruct H as [H1 H2]. split; [reflexivity|]. split; [exact H1|].
  destruct (amchar_to_int (String c "") false) as [e|[|l' [|l2 r]]]; try discriminate H2.
  apply Z.eqb_eq in H2. now subst.
Qed.

Lemma lower_facts : forall c, is_lower c = true ->
  is_alpha c = true /\ is_space c = false /\ nobd c = true /\ Ascii.eqb c "#" = false /\ Ascii.eqb c "$" = false /\
  Ascii.eqb c "*" = false /\ Ascii.eqb c "-" = false.
Proof. intros c H. all_chars c; try (repeat split; reflexivity); discriminate H. Qed.

(* ================================================================== *)
(* 2. well-formedness: what it gives                                    *)
(* ================================================================== *)
Lemma tmecp_pot_ecp_ok : forall p, tmecp_pot_ok p -> ecp_pot_ok p /\ (0 <= pot_l p < 7)%Z.
Proof.
  intros p [[l [E Hl]] [H2 [H3 [H4 [H5 H6]]]]]. split.
  - split; [exists l; split; [exact E | lia]|]. repeat split; assumption.
  - unfold pot_l. rewrite E. exact Hl.
Qed.

Lemma tmecp_pots_ecp_ok : forall pots, Forall tmecp_pot_ok pots -> Forall ecp_pot_ok pots.
Proof. intros pots H. rewrite Forall_forall in *. intros p Hp. apply tmecp_pot_ecp_ok, H, Hp. Qed.

Lemma tmecp_order : tmecp_order_stmt.
Proof. intros pots Hne Hok Hnd. apply nw_ecp_order; [exact Hne | apply tmecp_pots_ecp_ok, Hok | exact Hnd]. Qed.

(* the name of the ECP element lines *)
Lemma name_ecp_ok : forall bsname, sall tm_name_char bsname = true -> tm_name_ok (bsname +++ "-ecp").
Proof.
  intros bsname H. split.
  - rewrite sall_app, H. reflexivity.
  - rewrite sall_app. change (sall is_space "-ecp") with false. apply andb_false_r.
Qed.

(* ================================================================== *)
(* 3. the table of one potential: coefficient, r exponent, gaussian exponent *)
(* ================================================================== *)
Definition tcellrow (t : Z * string * string) : list cell := let '(x, y, z) := t in [CStr z; CInt x; CStr y].
Definition ttokrow (t : Z * string * string) : list string := let '(x, y, z) := t in [z; Z_to_string x; y].
Definition treadrow (t : Z * string * string) : string * string * string :=
  let '(x, y, z) := t in (Z_to_string x, norm true y, norm true z).

Lemma transpose_ttrip : forall r g c,
  transpose [map CStr c; map CInt r; map CStr g] = map tcellrow (trip r g c).
Proof.
  induction r as [|x r IH]; intros g c.
  - destruct c; reflexivity.
  - destruct g as [|y g]; [destruct c; reflexivity|]. destruct c as [|z c]; [reflexivity|].
    specialize (IH g c). cbn [transpose map zipcons trip tcellrow] in *. rewrite IH. reflexivity.
Qed.

Definition trow (row : list cell) : string :=
  match write_row row tmecp_point_places true "" with inr l => l | inl _ => "" end.

Lemma tcellrow_ok : forall t, trip_ok t -> Forall cell_ok (tcellrow t) /\ Forall cell_ascii (tcellrow t).
Proof.
  intros [[x y] z] [Hy Hz]. cbn [fst snd] in *. unfold tcellrow. split.
  - constructor; [apply floating_is_cell, Hz|]. constructor; [exact I|]. constructor; [apply floating_is_cell, Hy | constructor].
  - constructor; [apply floating_ascii, Hz|]. constructor; [|constructor; [apply floating_ascii, Hy | constructor]].
    unfold cell_ascii. cbn [cell_str]. apply (sall_impl intc); [exact intc_ascii | apply Z_to_string_intc].
Qed.

Lemma trow_facts : forall t, trip_ok t ->
  write_row (tcellrow t) tmecp_point_places true "" = inr (trow (tcellrow t)) /\
  good_line (trow (tcellrow t)) /\ tokens_acc (trow (tcellrow t)) "" = ttokrow t.
Proof.
  intros t Ht. destruct (tcellrow_ok t Ht) as [Hok Hasc].
  destruct (write_row_total (tcellrow t) tmecp_point_places true "" Hok) as [line Hl].
  { destruct t as [[x y] z]. cbn. lia. }
  unfold trow. rewrite Hl. split; [reflexivity|]. split.
  - apply (write_row_chars nobd eq_refl (tcellrow t) tmecp_point_places true "" line); [|reflexivity|exact Hl].
    rewrite Forall_forall in *. intros c Hc. apply cell_nobd; [apply Hok | apply Hasc]; exact Hc.
  - rewrite (write_row_tokens_gen _ _ _ _ _ Hok (fun _ => eq_refl) Hl). destruct t as [[x y] z]. reflexivity.
Qed.

(* the printed row (exponent marker converted) and what is left of it after strip() *)
Definition tline (t : Z * string * string) : string := d_convert (trow (tcellrow t)).
Definition tp (t : Z * string * string) : string := strip_ws (tline t).

Lemma intc_norm : forall c, intc c = true -> norm_c true c = c.
Proof. intros c H. all_chars c; try reflexivity; discriminate H. Qed.
Lemma norm_true_int : forall z, norm true (Z_to_string z) = Z_to_string z.
Proof. intros z. rewrite norm_smap. apply (smap_id_on intc); [exact intc_norm | apply Z_to_string_intc]. Qed.
Lemma intc_dconv : forall c, intc c = true -> dconv_c c = c.
Proof. intros c H. all_chars c; try reflexivity; discriminate H. Qed.
Lemma dconv_int : forall z, d_convert (Z_to_string z) = Z_to_string z.
Proof. intros z. unfold d_convert. fold dconv_c. apply (smap_id_on intc); [exact intc_dconv | apply Z_to_string_intc]. Qed.

Lemma tline_tokens : forall t, trip_ok t -> tokens_acc (tline t) "" = map d_convert (ttokrow t).
Proof. intros t Ht. destruct (trow_facts t Ht) as [_ [_ E]]. unfold tline. now rewrite tokens_dconv, E. Qed.

(* the first character of a printed row: that of a floating-point number *)
Lemma tp_facts : forall t, trip_ok t ->
  body_ok (tp t) /\ el_cond (tp t) = inr false /\ str_prefix "*" (tp t) = false /\ starts_alpha (tp t) = inr false.
Proof.
  intros t Ht. pose proof (tline_tokens t Ht) as Htok. destruct t as [[x y] z]. destruct Ht as [Hy Hz]. cbn [fst snd] in *.
  cbn [ttokrow map] in Htok.
  destruct (tokens_first _ _ _ Htok) as [c [t' [y' [E [El Hc]]]]].
  destruct (strip_first _ c y' El Hc) as [r Er].
  assert (Hf : is_floating (String c t') = true) by (rewrite <- E, dconv_floating; exact Hz).
  destruct (floating_first3 c t' Hf) as [Hna [Hh [Hdl Hst]]].
  unfold tp. split; [|split; [|split]].
  - split; [apply strip_idem|]. rewrite Er. exists c, r. repeat split; assumption.
  - rewrite Er. unfold el_cond. now rewrite (not_alpha_not_element c r Hna).
  - rewrite Er. apply not_star, Hst.
  - rewrite Er. cbn [starts_alpha]. now rewrite Hna.
Qed.

(* the per-line function of parse_ecp_table_crg *)
Definition teline (l : string) : res (string * string * string) :=
  match split_ws (replace_d (strip_ws l)) with
  | [c; a; b] => ok (a, b, c)
  | _ => fail ERuntime
  end.

Lemma parse_ecp_table_crg_unfold : forall lines,
  parse_ecp_table_crg lines =
  (do rows <- mapM teline lines;
   let r := map (fun x => fst (fst x)) rows in
   let g := map (fun x => snd (fst x)) rows in
   let c := map snd rows in
   if negb (forallb is_integer r) then fail ERuntime else
   if negb (forallb is_floating g) then fail ERuntime else
   if negb (forallb is_floating c) then fail ERuntime else
   ok (map to_int r, g, [c])).
Proof. reflexivity. Qed.

Lemma teline_row : forall t, trip_ok t -> teline (tp t) = inr (treadrow t).
Proof.
  intros t Ht. destruct (trow_facts t Ht) as [_ [_ Htok]].
  unfold teline, split_ws, tp, tline. rewrite strip_idem.
  pose proof (tokens_read true (trow (tcellrow t))) as H. cbn [conv_text] in H.
  rewrite H, Htok. destruct t as [[x y] z]. cbn [ttokrow map treadrow]. rewrite norm_true_int. reflexivity.
Qed.

(* what the reader makes of the printed table *)
Lemma ttable_read : forall r g c, List.length g = List.length r -> List.length c = List.length r ->
  Forall floating g -> Forall floating c ->
  parse_ecp_table_crg (map tp (trip r g c)) = inr (r, map (norm true) g, [map (norm true) c]).
Proof.
  intros r g c Hg Hc Fg Fc. unfold floating in *.
  assert (Hts : forall t, In t (trip r g c) -> trip_ok t).
  { intros [[x y] z] Hin. destruct (trip_in _ _ _ _ _ _ Hin) as [_ [Hy Hz]]. rewrite Forall_forall in Fg, Fc.
    split; cbn [fst snd]; [apply Fg, Hy | apply Fc, Hz]. }
  rewrite parse_ecp_table_crg_unfold.
  rewrite (mapM_map_ext _ _ _ teline tp (fun t => teline (tp t))) by reflexivity.
  rewrite (mapM_map_ok _ _ _ treadrow (trip r g c)) by (intros t Hin; apply teline_row, Hts, Hin).
  unfold bind. cbv zeta. destruct (trip_proj r g c Hg Hc) as [P1 [P2 P3]].
  assert (E1 : map (fun x => fst (fst x)) (map treadrow (trip r g c)) = map Z_to_string r).
  { transitivity (map Z_to_string (map (fun t => fst (fst t)) (trip r g c))); [|now rewrite P1].
    rewrite !map_map. apply map_ext. intros [[x y] z]. reflexivity. }
  assert (E2 : map (fun x => snd (fst x)) (map treadrow (trip r g c)) = map (norm true) g).
  { transitivity (map (norm true) (map (fun t => snd (fst t)) (trip r g c))); [|now rewrite P2].
    rewrite !map_map. apply map_ext. intros [[x y] z]. reflexivity. }
  assert (E3 : map snd (map treadrow (trip r g c)) = map (norm true) c).
  { transitivity (map (norm true) (map snd (trip r g c))); [|now rewrite P3].
    rewrite !map_map. apply map_ext. intros [[x y] z]. reflexivity. }
  rewrite E1, E2, E3.
  rewrite (forallb_true _ is_integer (map Z_to_string r)).
  2:{ intros s Hs. apply in_map_iff in Hs. destruct Hs as [z [<- _]]. apply Z_to_string_int. }
  rewrite (forallb_true _ is_floating (map (norm true) g)).
  2:{ intros s Hs. apply in_map_iff in Hs. destruct Hs as [y [<- Hy]]. rewrite is_floating_norm.
      rewrite Forall_forall in Fg. apply Fg, Hy. }
  rewrite (forallb_true _ is_floating (map (norm true) c)).
  2:{ intros s Hs. apply in_map_iff in Hs. destruct Hs as [y [<- Hy]]. rewrite is_floating_norm.
      rewrite Forall_forall in Fc. apply Fc, Hy. }
  cbn [negb]. rewrite map_map. rewrite (map_ext _ (fun z => z) (fun z => proj2 (Z_to_string_int z))), map_id. reflexivity.
Qed.

(* ================================================================== *)
(* 4. the lines the writer prints                                      *)
(* ================================================================== *)
Definition thead (mx : Z) (p : epot) : string :=
  if Z.eqb (pot_l p) mx then hij_of (p_am p) else hij_of (p_am p) +++ "-" +++ hij_of [mx].
Definition tprows (p : epot) : list string := map tline (ptrip p).
Definition tpot_lines (mx : Z) (p : epot) : list string := thead mx p :: tprows p.
Definition info_p (n mx : Z) : string := "ncore = " +++ Z_to_string n +++ "   lmax = " +++ Z_to_string mx.
Definition info_line (n mx : Z) : string := "  " +++ info_p n mx.
Definition tecp_el_lines (bsname : string) (e : Z * (Z * list epot)) : list string :=
  el_line (bsname +++ "-ecp") (fst e) :: "*" :: info_line (fst (snd e)) (el_mx e) ::
  flat_map (tpot_lines (el_mx e)) (ecp_written_order (snd (snd e))) ++ ["*"].
Definition tecp_part (bsname : string) (ecps : list (Z * (Z * list epot))) : list string :=
  match ecps with [] => [] | _ => "$ecp" :: "*" :: flat_map (tecp_el_lines bsname) ecps end.
Definition tfile_lines (role bsname : string) (els : list (Z * list sshell)) (ecps : list (Z * (Z * list epot))) : list string :=
  tm_section_keyword role :: "*" :: flat_map (tel_lines bsname) els ++ tecp_part bsname ecps ++ ["$end"].

(* what an element of the ECP part gives: the potentials are fine, so is the highest momentum *)
Lemma tmecp_el_facts : forall z n pots, tmecp_el_ok (z, (n, pots)) ->
  (1 <= z <= 120)%Z /\ (0 <= n)%Z /\ pots <> [] /\ Forall ecp_pot_ok pots /\ NoDup (map pot_l pots) /\
  (0 <= zmax (map pot_l pots) < 7)%Z /\
  ecp_order pots = inr (ecp_written_order pots) /\ Forall tmecp_pot_ok (ecp_written_order pots) /\
  Permutation pots (ecp_written_order pots).
Proof.
  intros z n pots [Hz [Hn [Hne [Hok Hnd]]]]. pose proof (tmecp_pots_ecp_ok pots Hok) as Hok'.
  destruct (written_order_ok pots Hne Hok' Hnd) as [Eo [_ Hperm]].
  repeat (split; [assumption|]). split; [|split; [exact Eo|split; [apply (Permutation_Forall Hperm), Hok | exact Hperm]]].
  assert (Hls : map pot_l pots <> []) by (destruct pots; [congruence | discriminate]).
  destruct (zmax_facts _ Hls) as [Zin _]. apply in_map_iff in Zin. destruct Zin as [p [<- Hp]].
  rewrite Forall_forall in Hok. apply tmecp_pot_ecp_ok, Hok, Hp.
Qed.

Lemma tpot_am_facts : forall p, tmecp_pot_ok p ->
  exists c, hij_of (p_am p) = String c "" /\ is_lower c = true /\
            amint_to_char (p_am p) true false = inr (String c "") /\ am_first p = inr (pot_l p) /\
            amchar_to_int (String c "") false = inr (p_am p).
Proof.
  intros p [[l [E Hl]] _]. destruct (hij_facts l Hl) as [c [E1 [Hc E2]]]. exists c.
  unfold hij_of, am_first, pot_l. rewrite E, E1. repeat split; assumption.
Qed.

Lemma mx_facts : forall mx, (0 <= mx < 7)%Z ->
  exists m, hij_of [mx] = String m "" /\ is_lower m = true /\ amint_to_char [mx] true false = inr (String m "") /\
            amchar_to_int (String m "") false = inr [mx].
Proof.
  intros mx H. destruct (hij_facts mx H) as [m [E1 [Hm E2]]]. exists m. unfold hij_of. rewrite E1. repeat split; assumption.
Qed.

Lemma tmecp_cols_eq : forall p, ecp_pot_ok p ->
  tmecp_cols p = [map CStr (pcoef p); map CInt (p_rexp p); map CStr (p_gexp p)].
Proof. intros p Hp. destruct (pot_facts p Hp) as [_ [Ec _]]. unfold tmecp_cols. rewrite Ec. reflexivity. Qed.

Lemma twrite_pot_lines : forall mx p, tmecp_pot_ok p ->
  tmecp_write_pot mx (hij_of [mx]) p = inr (unlines (tpot_lines mx p)).
Proof.
  intros mx p Hp. destruct (tmecp_pot_ecp_ok p Hp) as [Hp' _].
  destruct (pot_facts p Hp') as [_ [_ [Hg [Hc [Fg [Fc [Hts _]]]]]]].
  destruct (tpot_am_facts p Hp) as [c [Eh [_ [A1 [A2 _]]]]].
  unfold tmecp_write_pot. rewrite A1, A2. unfold bind. rewrite (tmecp_cols_eq p Hp').
  assert (Hleft : leftpad_check [map CStr (pcoef p); map CInt (p_rexp p); map CStr (p_gexp p)] tmecp_point_places = inr tt).
  { unfold tmecp_point_places. cbn [leftpad_check].
    destruct (mapM_find_point (map CStr (pcoef p))) as [l1 ->]; [apply floats_cells, Fc|].
    destruct (mapM_find_point (map CInt (p_rexp p))) as [l2 ->].
    { rewrite Forall_forall. intros x Hx. apply in_map_iff in Hx. destruct Hx as [y [<- _]]. exact I. }
    destruct (mapM_find_point (map CStr (p_gexp p))) as [l3 ->]; [apply floats_cells, Fg|]. reflexivity. }
  rewrite Hleft.
  assert (Hw : write_matrix [map CStr (pcoef p); map CInt (p_rexp p); map CStr (p_gexp p)] tmecp_point_places true
               = inr (unlines (tprows p))).
  { unfold write_matrix, transpose_cells. rewrite transpose_ttrip. fold (ptrip p).
    rewrite (mapM_map_ok _ _ _ trow (map tcellrow (ptrip p))).
    - unfold bind, ok. fold (unlines (map trow (map tcellrow (ptrip p)))). rewrite dconv_lines.
      unfold tprows, tline. rewrite !map_map. reflexivity.
    - intros row Hrow. apply in_map_iff in Hrow. destruct Hrow as [t [<- Ht]]. apply trow_facts, Hts, Ht. }
  rewrite Hw. unfold ok, tpot_lines, thead. rewrite unlines_cons, Eh.
  destruct (Z.eqb (pot_l p) mx); rewrite ?sapp_assoc; reflexivity.
Qed.

Lemma twrite_ecp_element_lines : forall bsname e, tmecp_el_ok e ->
  tmecp_write_ecp_element bsname e = inr (unlines (tecp_el_lines bsname e)).
Proof.
  intros bsname [z [n pots]] He. destruct (tmecp_el_facts z n pots He) as [Hz [Hn [Hne [Hok [Hnd [Hmx [Eo [Hoo _]]]]]]]].
  destruct (symlo_facts z Hz) as [Es _]. destruct (mx_facts _ Hmx) as [m [Em [_ [Am _]]]].
  unfold tmecp_write_ecp_element. rewrite Es. unfold bind. rewrite (max_am_ok pots Hne Hok), Am, Eo.
  rewrite <- Em.
  rewrite (mapM_map_ok _ _ _ (fun p => unlines (tpot_lines (zmax (map pot_l pots)) p))).
  - unfold ok, tecp_el_lines, el_mx, info_line, info_p, el_line. cbn [fst snd].
    rewrite !unlines_cons, unlines_app, unlines_flat_map, !unlines_cons, !sapp_assoc. reflexivity.
  - intros p Hp. apply twrite_pot_lines. rewrite Forall_forall in Hoo. apply Hoo, Hp.
Qed.

Lemma twrite_ecp_lines : forall bsname ecps, Forall tmecp_el_ok ecps ->
  tmecp_write_ecp bsname ecps = inr (unlines (tecp_part bsname ecps)).
Proof.
  intros bsname ecps Hel. unfold tmecp_write_ecp, tecp_part. destruct ecps as [|e0 ecps0]; [reflexivity|].
  rewrite (mapM_map_ok _ _ _ (fun e => unlines (tecp_el_lines bsname e))).
  - unfold bind, ok. rewrite !unlines_cons, unlines_flat_map. reflexivity.
  - intros e Hin. apply twrite_ecp_element_lines. rewrite Forall_forall in Hel. apply Hel, Hin.
Qed.

Lemma twrite_lines : forall role bsname els ecps, Forall tel_ok els -> Forall tmecp_el_ok ecps ->
  tmecp_write role bsname els ecps = inr (unlines (tfile_lines role bsname els ecps)).
Proof.
  intros role bsname els ecps Hel Hecp. unfold tmecp_write.
  rewrite (mapM_map_ok _ _ (tm_write_element bsname) (fun zs => unlines (tel_lines bsname zs))).
  - unfold bind. rewrite (twrite_ecp_lines bsname ecps Hecp). unfold ok, tfile_lines.
    rewrite !unlines_cons, !unlines_app, unlines_flat_map, !unlines_cons, ?sapp_assoc. reflexivity.
  - intros zs Hin. apply tm_write_element_lines. rewrite Forall_forall in Hel. apply Hel, Hin.
Qed.

Lemma tmecp_no_ecp : tmecp_no_ecp_stmt.
Proof.
  intros role bsname els. unfold tmecp_write, tm_write_electron.
  destruct (mapM (tm_write_element bsname) els) as [e|parts]; reflexivity.
Qed.

(* ---- every line is a complete line for splitlines ---- *)
Lemma name_chars_nobd : forall bsname, sall tm_name_char bsname = true -> sall nobd bsname = true.
Proof. intros bsname H. exact (sall_impl _ nobd _ name_char_nobd H). Qed.

Lemma int_good : forall z, good_line (Z_to_string z).
Proof. intros z. exact (sall_impl intc nobd _ intc_nobd (Z_to_string_intc z)). Qed.

Lemma tel_lines_good : forall bsname els, sall tm_name_char bsname = true -> Forall tel_ok els ->
  Forall good_line (flat_map (tel_lines bsname) els).
Proof.
  intros bsname els Hn Hel. rewrite Forall_forall in *. intros l Hin. apply in_flat_map in Hin. destruct Hin as [[z shs] [Hzs Hl]].
  destruct (Hel _ Hzs) as [Hz [_ Hshs]]. cbn [fst snd] in *. unfold tel_lines in Hl. cbn [fst snd] in Hl.
  destruct Hl as [<-|[<-|Hl]]; [| reflexivity |].
  - destruct (symlo_facts z Hz) as [_ [_ [Ha _]]]. unfold el_line, good_line.
    rewrite !sall_app, (sall_impl is_alpha nobd _ alpha_nobd Ha), (name_chars_nobd _ Hn). reflexivity.
  - apply in_app_or in Hl. destruct Hl as [Hl|[<-|[]]]; [|reflexivity].
    unfold tel_body in Hl. apply in_flat_map in Hl. destruct Hl as [s [Hs Hl]]. rewrite Forall_forall in Hshs.
    specialize (Hshs s Hs). destruct Hl as [<-|Hl]; [apply hdr_line_good, Hshs|].
    destruct (crows_facts s Hshs) as [_ [Hg _]]. rewrite Forall_forall in Hg. apply Hg, Hl.
Qed.

Lemma thead_shape : forall mx p, tmecp_pot_ok p -> (0 <= mx < 7)%Z ->
  exists c m, is_lower c = true /\ is_lower m = true /\
    thead mx p = (if Z.eqb (pot_l p) mx then String c "" else String c (String "-" (String m ""))) /\
    amchar_to_int (String c "") false = inr (p_am p) /\ amchar_to_int (String m "") false = inr [mx].
Proof.
  intros mx p Hp Hmx. destruct (tpot_am_facts p Hp) as [c [Eh [Hc [_ [_ Eb]]]]]. destruct (mx_facts mx Hmx) as [m [Em [Hm [_ Ebm]]]].
  exists c, m. unfold thead. rewrite Eh, Em. repeat split; assumption.
Qed.

Lemma thead_good : forall mx p, tmecp_pot_ok p -> (0 <= mx < 7)%Z -> good_line (thead mx p).
Proof.
  intros mx p Hp Hmx. destruct (thead_shape mx p Hp Hmx) as [c [m [Hc [Hm [E _]]]]]. rewrite E.
  destruct (lower_facts c Hc) as [_ [_ [Nc _]]]. destruct (lower_facts m Hm) as [_ [_ [Nm _]]].
  unfold good_line. destruct (Z.eqb (pot_l p) mx); cbn [sall]; rewrite ?Nc, ?Nm; reflexivity.
Qed.

Lemma ptrip_ok : forall p, tmecp_pot_ok p -> (forall t, In t (ptrip p) -> trip_ok t) /\ ptrip p <> [].
Proof. intros p Hp. destruct (tmecp_pot_ecp_ok p Hp) as [Hp' _]. destruct (pot_facts p Hp') as [_ [_ [_ [_ [_ [_ H]]]]]]. exact H. Qed.

Lemma tline_good : forall t, trip_ok t -> good_line (tline t).
Proof. intros t Ht. destruct (trow_facts t Ht) as [_ [G _]]. apply dconv_good, G. Qed.

Lemma tecp_el_lines_good : forall bsname e, sall tm_name_char bsname = true -> tmecp_el_ok e ->
  Forall good_line (tecp_el_lines bsname e).
Proof.
  intros bsname [z [n pots]] Hn He. destruct (tmecp_el_facts z n pots He) as [Hz [_ [_ [_ [_ [Hmx [_ [Hoo _]]]]]]]].
  unfold tecp_el_lines, el_mx. cbn [fst snd].
  constructor; [apply el_line_good; [apply name_ecp_ok, Hn | exact Hz]|]. constructor; [reflexivity|].
  constructor.
  - unfold info_line, info_p, good_line. rewrite !sall_app, (int_good n), (int_good (zmax (map pot_l pots))). reflexivity.
  - apply Forall_app. split; [|repeat constructor]. rewrite Forall_forall in *. intros l Hl. apply in_flat_map in Hl.
    destruct Hl as [p [Hp Hl]]. destruct Hl as [<-|Hl]; [apply thead_good; [apply Hoo, Hp | exact Hmx]|].
    unfold tprows in Hl. apply in_map_iff in Hl. destruct Hl as [t [<- Ht]]. apply tline_good, (ptrip_ok p (Hoo p Hp)), Ht.
Qed.

Lemma tfile_lines_good : forall role bsname els ecps, sall tm_name_char bsname = true -> Forall tel_ok els ->
  Forall tmecp_el_ok ecps -> Forall good_line (tfile_lines role bsname els ecps).
Proof.
  intros role bsname els ecps Hn Hel Hecp. unfold tfile_lines. constructor; [kw_split role; reflexivity|].
  constructor; [reflexivity|]. apply Forall_app. split; [apply tel_lines_good; assumption|].
  apply Forall_app. split; [|repeat constructor]. unfold tecp_part. destruct ecps as [|e0 ecps0]; [constructor|].
  constructor; [reflexivity|]. constructor; [reflexivity|]. remember (e0 :: ecps0) as ecps.
  rewrite Forall_forall in *. intros l Hl. apply in_flat_map in Hl. destruct Hl as [e [He Hl]].
  pose proof (tecp_el_lines_good bsname e Hn (Hecp e He)) as G. rewrite Forall_forall in G. apply G, Hl.
Qed.

Lemma tmecp_ok_parts : forall role bsname els ecps, tmecp_ok role bsname els ecps ->
  tm_name_ok bsname /\ sall tm_name_char bsname = true /\ Forall tel_ok els /\ Forall tmecp_el_ok ecps /\ NoDup (map fst ecps).
Proof.
  intros role bsname els ecps [Htm [Hnd Hecp]]. pose proof (tm_ok_els _ _ _ Htm) as Hel. destruct Htm as [Hn _].
  split; [exact Hn|]. split; [apply Hn|]. repeat split; assumption.
Qed.

(* ---------- tmecp_write_total ---------- *)
Lemma tmecp_write_total : tmecp_write_total_stmt.
Proof.
  intros role bsname els ecps H. destruct (tmecp_ok_parts _ _ _ _ H) as [_ [_ [Hel [Hecp _]]]].
  eexists. apply twrite_lines; assumption.
Qed.

Lemma tmecp_written_lines : forall role bsname els ecps t, tmecp_ok role bsname els ecps ->
  tmecp_write role bsname els ecps = inr t -> splitlines t = tfile_lines role bsname els ecps.
Proof.
  intros role bsname els ecps t H E. destruct (tmecp_ok_parts _ _ _ _ H) as [_ [Hn [Hel [Hecp _]]]].
  rewrite (twrite_lines role bsname els ecps Hel Hecp) in E. inversion E; subst.
  apply splitlines_unlines, tfile_lines_good; assumption.
Qed.

(* ================================================================== *)
(* 5. the lines after strip(): what each regex says about them         *)
(* ================================================================== *)
Definition tpot_blk (mx : Z) (p : epot) : list string := thead mx p :: map tp (ptrip p).
Definition tecp_blk (bsname : string) (e : Z * (Z * list epot)) : list string :=
  el_p (bsname +++ "-ecp") (fst e) :: "*" :: info_p (fst (snd e)) (el_mx e) ::
  flat_map (tpot_blk (el_mx e)) (ecp_written_order (snd (snd e))).
Definition ecp_mid (bsname : string) (ecps : list (Z * (Z * list epot))) : list string :=
  "*" :: flat_map (fun e => tecp_blk bsname e ++ ["*"]) ecps.
Definition tecp_spart (bsname : string) (ecps : list (Z * (Z * list epot))) : list string :=
  match ecps with [] => [] | _ => "$ecp" :: ecp_mid bsname ecps end.
Definition tfile_stripped (role bsname : string) (els : list (Z * list sshell)) (ecps : list (Z * (Z * list epot))) : list string :=
  tm_section_keyword role :: mid_lines bsname els ++ tecp_spart bsname ecps ++ ["$end"].

(* a line the tokeniser takes for one word is left alone by strip() *)
Lemma strip_tok : forall w, tok_ok w -> strip_ws w = w.
Proof.
  intros w Hw. unfold strip_ws. rewrite <- (sapp_nil_r w) at 1. rewrite (lstrip_word w "" Hw), sapp_nil_r.
  rewrite <- (sapp_nil_r (srev w)). rewrite (lstrip_word (srev w) "" (tok_ok_srev w Hw)), sapp_nil_r. apply srev_involutive.
Qed.

(* ---- the letter line of a potential ---- *)
Lemma thead_facts : forall mx p, tmecp_pot_ok p -> (0 <= mx < 7)%Z ->
  strip_ws (thead mx p) = thead mx p /\ body_ok (thead mx p) /\ el_cond (thead mx p) = inr false /\
  str_prefix "*" (thead mx p) = false /\ starts_alpha (thead mx p) = inr true.
Proof.
  intros mx p Hp Hmx. destruct (thead_shape mx p Hp Hmx) as [c [m [Hc [Hm [E _]]]]]. rewrite E.
  destruct (lower_facts c Hc) as [Ac [Sc [_ [Hh [Hd [Hs _]]]]]]. destruct (lower_facts m Hm) as [Am [Sm _]].
  assert (Hst : forall X, strip_ws (String c X) = String c X -> body_ok (String c X)).
  { intros X HX. split; [exact HX|]. exists c, X. repeat split; assumption. }
  destruct (Z.eqb (pot_l p) mx).
  - assert (Ht : tok_ok (String c "")) by (split; [discriminate|]; cbn [sany]; now rewrite Sc).
    split; [apply strip_tok, Ht|]. split; [apply Hst, strip_tok, Ht|]. split.
    + unfold el_cond, is_element_line, match_element_line. cbn [span_alpha]. rewrite Ac. reflexivity.
    + split; [apply not_star, Hs | cbn [starts_alpha]; now rewrite Ac].
  - assert (Ht : tok_ok (String c (String "-" (String m "")))).
    { split; [discriminate|]. cbn [sany]. rewrite Sc, Sm. reflexivity. }
    split; [apply strip_tok, Ht|]. split; [apply Hst, strip_tok, Ht|]. split.
    + unfold el_cond, is_element_line, match_element_line. cbn [span_alpha]. rewrite Ac.
      change (is_alpha "-") with false. cbv iota. reflexivity.
    + split; [apply not_star, Hs | cbn [starts_alpha]; now rewrite Ac].
Qed.

(* ---- the `ncore = N   lmax = L` line ---- *)
Lemma info_strip : forall n mx, strip_ws (info_line n mx) = info_p n mx /\ strip_ws (info_p n mx) = info_p n mx.
Proof.
  intros n mx.
  assert (E : strip_ws (info_p n mx) = info_p n mx).
  { unfold info_p.
    replace ("ncore = " +++ Z_to_string n +++ "   lmax = " +++ Z_to_string mx)
      with ("ncore" +++ (" = " +++ Z_to_string n +++ "   lmax = ") +++ Z_to_string mx) by (rewrite !sapp_assoc; reflexivity).
    apply strip_words; [split; [discriminate | reflexivity] | apply int_tok]. }
  split; [|exact E]. unfold info_line.
  change ("  " +++ info_p n mx) with (String " " (String " " (info_p n mx))). now rewrite !strip_blank_head.
Qed.

Lemma span_digits_all : forall a, sall is_digit a = true -> span_digits a = (a, "").
Proof.
  induction a as [|c a IH]; intros H; [reflexivity|]. cbn [sall] in H. apply andb_true_iff in H. destruct H as [Hc Ha].
  cbn [span_digits]. rewrite Hc, (IH Ha). reflexivity.
Qed.

Lemma decimal_tok : forall ds, decimal ds -> tok_ok ds.
Proof.
  intros ds [Hne Hd]. split; [exact Hne|]. apply (sall_sany_false is_digit); [|exact Hd]. intros c Hc. apply (digit_facts c Hc).
Qed.

Lemma match_ecp_info_ok : forall N M, decimal N -> decimal M ->
  match_ecp_info ("ncore = " +++ N +++ "   lmax = " +++ M) = Some (N, M).
Proof.
  intros N M HN HM. pose proof HN as [HNne HNd]. pose proof HM as [HMne HMd].
  unfold match_ecp_info.
  change (strip_prefix_ci "ncore" ("ncore = " +++ N +++ "   lmax = " +++ M)) with (Some (" = " +++ N +++ "   lmax = " +++ M)).
  cbv iota.
  change (lstrip_ws (" = " +++ N +++ "   lmax = " +++ M)) with (String "=" (" " +++ N +++ "   lmax = " +++ M)). cbv iota.
  change (lstrip_ws (" " +++ N +++ "   lmax = " +++ M)) with (lstrip_ws (N +++ "   lmax = " +++ M)).
  rewrite (lstrip_word N _ (decimal_tok N HN)).
  change (N +++ "   lmax = " +++ M) with (N +++ String " " ("  lmax = " +++ M)).
  rewrite (span_digits_word_sp N _ HNd).
  destruct N as [|n0 N']; [congruence|].
  change (is_space " ") with true. cbv iota.
  change (lstrip_ws (String " " ("  lmax = " +++ M))) with ("lmax = " +++ M).
  change (strip_prefix_ci "lmax" ("lmax = " +++ M)) with (Some (" = " +++ M)). cbv iota.
  change (lstrip_ws (" = " +++ M)) with (String "=" (" " +++ M)). cbv iota.
  change (lstrip_ws (" " +++ M)) with (lstrip_ws M).
  rewrite <- (sapp_nil_r M) at 1. rewrite (lstrip_word M "" (decimal_tok M HM)), sapp_nil_r, (span_digits_all M HMd).
  destruct M as [|m0 M']; [congruence|]. reflexivity.
Qed.

Lemma info_p_facts : forall n mx, (0 <= n)%Z -> (0 <= mx)%Z ->
  body_ok (info_p n mx) /\ el_cond (info_p n mx) = inr false /\ str_prefix "*" (info_p n mx) = false /\
  match_ecp_info (info_p n mx) = Some (Z_to_string n, Z_to_string mx).
Proof.
  intros n mx Hn Hmx. destruct (info_strip n mx) as [_ E].
  split; [|split; [reflexivity|split; [reflexivity|]]].
  - split; [exact E|]. exists "n"%char. eexists. unfold info_p. split; [reflexivity|]. split; reflexivity.
  - unfold info_p. apply match_ecp_info_ok; apply nonneg_string; assumption.
Qed.

(* ---- one potential block ---- *)
Definition pot_cond (x : string) : res bool := starts_alpha x.

Lemma tpot_blk_facts : forall mx p, tmecp_pot_ok p -> (0 <= mx < 7)%Z ->
  block_shape starts_alpha (tpot_blk mx p) /\ 2 <= List.length (tpot_blk mx p) /\
  Forall (fun l => body_ok l /\ el_cond l = inr false /\ str_prefix "*" l = false) (tpot_blk mx p).
Proof.
  intros mx p Hp Hmx. destruct (thead_facts mx p Hp Hmx) as [_ [Hb [He [Hs Ha]]]]. destruct (ptrip_ok p Hp) as [Hts Hne].
  unfold tpot_blk. split; [|split].
  - exists (thead mx p), (map tp (ptrip p)). split; [reflexivity|]. split; [exact Ha|].
    rewrite Forall_forall. intros l Hl. apply in_map_iff in Hl. destruct Hl as [t [<- Ht]]. apply tp_facts, Hts, Ht.
  - cbn [List.length]. rewrite map_length. destruct (ptrip p); [congruence | cbn; lia].
  - constructor; [split; [exact Hb | split; [exact He | exact Hs]]|]. rewrite Forall_forall. intros l Hl. apply in_map_iff in Hl.
    destruct Hl as [t [<- Ht]]. destruct (tp_facts t (Hts t Ht)) as [H1 [H2 [H3 _]]]. split; [exact H1 | split; [exact H2 | exact H3]].
Qed.

Lemma strip_tpot_lines : forall mx p, tmecp_pot_ok p -> (0 <= mx < 7)%Z -> map strip_ws (tpot_lines mx p) = tpot_blk mx p.
Proof.
  intros mx p Hp Hmx. destruct (thead_facts mx p Hp Hmx) as [E _]. unfold tpot_lines, tpot_blk, tprows. cbn [map].
  rewrite E, map_map. reflexivity.
Qed.

(* ---- one element block ---- *)
Lemma tecp_blk_inner : forall e, tmecp_el_ok e ->
  Forall (fun l => body_ok l /\ el_cond l = inr false /\ str_prefix "*" l = false)
         (info_p (fst (snd e)) (el_mx e) :: flat_map (tpot_blk (el_mx e)) (ecp_written_order (snd (snd e)))).
Proof.
  intros [z [n pots]] He. destruct (tmecp_el_facts z n pots He) as [_ [Hn [_ [_ [_ [Hmx [_ [Hoo _]]]]]]]].
  unfold el_mx. cbn [fst snd]. constructor.
  - destruct (info_p_facts n (zmax (map pot_l pots)) Hn ltac:(lia)) as [H1 [H2 [H3 _]]]. split; [exact H1 | split; [exact H2 | exact H3]].
  - rewrite Forall_forall in *. intros l Hl. apply in_flat_map in Hl. destruct Hl as [p [Hp Hl]].
    destruct (tpot_blk_facts _ p (Hoo p Hp) Hmx) as [_ [_ F]]. rewrite Forall_forall in F. apply F, Hl.
Qed.

Lemma star_body : body_ok "*".
Proof. split; [reflexivity|]. exists "*"%char, "". repeat split. Qed.

Lemma tecp_blk_facts : forall bsname e, sall tm_name_char bsname = true -> tmecp_el_ok e ->
  block_shape el_cond (tecp_blk bsname e) /\ Forall body_ok (tecp_blk bsname e) /\
  tmecp_check_element_block ("*" :: tecp_blk bsname e) = inr tt.
Proof.
  intros bsname e Hn He. pose proof (tecp_blk_inner e He) as Hin.
  destruct e as [z [n pots]]. pose proof He as [Hz _]. cbn [fst snd] in *.
  destruct (el_p_facts (bsname +++ "-ecp") z (name_ecp_ok bsname Hn) Hz) as [Hb [Hel _]].
  unfold tecp_blk. cbn [fst snd]. split; [|split].
  - eexists _, _. split; [reflexivity|]. split; [unfold el_cond; now rewrite Hel|].
    constructor; [reflexivity|]. rewrite Forall_forall in *. intros l Hl. apply (Hin l Hl).
  - constructor; [exact Hb|]. constructor; [exact star_body|]. rewrite Forall_forall in *. intros l Hl. apply (Hin l Hl).
  - unfold tmecp_check_element_block. cbn [String.eqb Ascii.eqb Bool.eqb negb].
    rewrite existsb_false; [reflexivity|]. rewrite Forall_forall in Hin. intros l Hl. apply (Hin l Hl).
Qed.

Lemma strip_tecp_el_lines : forall bsname e, tmecp_el_ok e ->
  map strip_ws (tecp_el_lines bsname e) = tecp_blk bsname e ++ ["*"].
Proof.
  intros bsname [z [n pots]] He. destruct (tmecp_el_facts z n pots He) as [_ [_ [_ [_ [_ [Hmx [_ [Hoo _]]]]]]]].
  unfold tecp_el_lines, tecp_blk, el_p, el_mx. cbn [fst snd map]. destruct (info_strip n (zmax (map pot_l pots))) as [-> _].
  rewrite map_app, map_flat_map. cbn [map app]. do 3 f_equal. f_equal.
  apply flat_map_ext_in. intros p Hp. apply strip_tpot_lines; [|exact Hmx]. rewrite Forall_forall in Hoo. apply Hoo, Hp.
Qed.

Lemma ecp_mid_body : forall bsname ecps, sall tm_name_char bsname = true -> Forall tmecp_el_ok ecps ->
  Forall body_ok (ecp_mid bsname ecps).
Proof.
  intros bsname ecps Hn Hecp. unfold ecp_mid. constructor; [exact star_body|]. rewrite Forall_forall in *. intros l Hl.
  apply in_flat_map in Hl. destruct Hl as [e [He Hl]]. destruct (tecp_blk_facts bsname e Hn (Hecp e He)) as [_ [Hb _]].
  apply in_app_or in Hl. destruct Hl as [Hl|[<-|[]]]; [|exact star_body]. rewrite Forall_forall in Hb. apply Hb, Hl.
Qed.

Lemma strip_tecp_part : forall bsname ecps, Forall tmecp_el_ok ecps -> map strip_ws (tecp_part bsname ecps) = tecp_spart bsname ecps.
Proof.
  intros bsname ecps Hecp. unfold tecp_part, tecp_spart, ecp_mid. destruct ecps as [|e0 ecps0]; [reflexivity|].
  remember (e0 :: ecps0) as ecps. cbn [map]. rewrite map_flat_map. do 2 f_equal.
  apply flat_map_ext_in. intros e He. apply strip_tecp_el_lines. rewrite Forall_forall in Hecp. apply Hecp, He.
Qed.

Lemma strip_tfile_lines : forall role bsname els ecps, Forall tel_ok els -> Forall tmecp_el_ok ecps ->
  map strip_ws (tfile_lines role bsname els ecps) = tfile_stripped role bsname els ecps.
Proof.
  intros role bsname els ecps Hel Hecp. unfold tfile_lines, tfile_stripped, mid_lines. cbn [map].
  rewrite !map_app, map_flat_map, (strip_tecp_part bsname ecps Hecp). cbn [map app].
  f_equal; [kw_split role; reflexivity|]. f_equal. f_equal.
  apply flat_map_ext_in. intros zs Hin. apply strip_tel_lines. rewrite Forall_forall in Hel. apply Hel, Hin.
Qed.

(* ================================================================== *)
(* 6. the potentials of one element                                    *)
(* ================================================================== *)
Lemma tmecp_expected_pot_eq : forall p, tmecp_pot_ok p ->
  mkEpot "scalar_ecp" (p_am p) (p_rexp p) (map (norm true) (p_gexp p)) [map (norm true) (pcoef p)] = tmecp_expected_pot p.
Proof.
  intros p Hp. destruct (tmecp_pot_ecp_ok p Hp) as [Hp' _]. destruct (pot_facts p Hp') as [_ [Ec _]].
  unfold tmecp_expected_pot. rewrite Ec. reflexivity.
Qed.

Lemma tpot_table : forall p, tmecp_pot_ok p ->
  parse_ecp_table_crg (map tp (ptrip p)) = inr (p_rexp p, map (norm true) (p_gexp p), [map (norm true) (pcoef p)]).
Proof.
  intros p Hp. destruct (tmecp_pot_ecp_ok p Hp) as [Hp' _]. destruct (pot_facts p Hp') as [_ [_ [Hg [Hc [Fg [Fc _]]]]]].
  apply ttable_read; assumption.
Qed.

Lemma tparse_pots_ok : forall mx pots found acc, (0 <= mx < 7)%Z -> Forall tmecp_pot_ok pots -> NoDup (map pot_l pots) ->
  (found = true -> Forall (fun p => pot_l p <> mx) pots) ->
  tmecp_parse_pots mx (map (tpot_blk mx) pots) found acc = inr (acc ++ map tmecp_expected_pot pots).
Proof.
  intros mx; induction pots as [|p pots IH]; intros found acc Hmx Hok Hnd Hf.
  - cbn [map tmecp_parse_pots]. now rewrite app_nil_r.
  - inversion Hok as [|? ? Hp Hok']; subst. cbn [map] in Hnd. inversion Hnd as [|? ? Hnotin Hnd']; subst.
    destruct (thead_shape mx p Hp Hmx) as [c [m [Hc [Hm [E [Ec Em]]]]]].
    destruct (tmecp_pot_ecp_ok p Hp) as [Hp' _]. destruct (pot_ok_single p Hp') as [Hsing _]. unfold single_am in Hsing.
    cbn [map tmecp_parse_pots]. unfold tpot_blk at 1. rewrite E.
    destruct (Z.eqb (pot_l p) mx) eqn:Eq.
    + cbn [match_pot_am]. rewrite Hc, Ec. unfold bind at 1.
      destruct found.
      { exfalso. apply Z.eqb_eq in Eq. specialize (Hf eq_refl). inversion Hf as [|? ? H1 _]; subst. apply H1; reflexivity. }
      pose proof Hsing as Hs2. destruct (p_am p) as [|a0 arest] eqn:Eam; [discriminate Hs2|]. injection Hs2 as -> ->.
      rewrite Eq. cbn [negb]. unfold bind at 1, ok at 1. rewrite <- Eam.
      rewrite (tpot_table p Hp). unfold bind at 1. rewrite (tmecp_expected_pot_eq p Hp).
      rewrite (IH true _ Hmx Hok' Hnd').
      * rewrite <- app_assoc. reflexivity.
      * intros _. apply Z.eqb_eq in Eq. rewrite Forall_forall. intros q Hq Eqq. apply Hnotin. rewrite Eq, <- Eqq. apply in_map, Hq.
    + cbn [match_pot_am]. rewrite Hc, Hm. cbn [andb]. rewrite Ec. unfold bind at 1. rewrite Em. unfold bind at 1. unfold bind at 1.
      rewrite Z.eqb_refl. cbn [negb]. unfold ok at 1.
      rewrite (tpot_table p Hp). unfold bind at 1. rewrite (tmecp_expected_pot_eq p Hp).
      rewrite (IH found _ Hmx Hok' Hnd').
      * rewrite <- app_assoc. reflexivity.
      * intros Hfound. specialize (Hf Hfound). inversion Hf; assumption.
Qed.

Definition texp_el (e : Z * (Z * list epot)) : Z * (Z * list epot) :=
  (fst e, (fst (snd e), map tmecp_expected_pot (ecp_written_order (snd (snd e))))).

Lemma tparse_ecp_element : forall bsname e pm, sall tm_name_char bsname = true -> tmecp_el_ok e -> ~ In (fst e) (map fst pm) ->
  tmecp_parse_ecp_potential_lines (firstn 1 (skipn 1 ("*" :: tecp_blk bsname e)) ++ skipn 3 ("*" :: tecp_blk bsname e)) pm
    = inr (pm ++ [texp_el e]).
Proof.
  intros bsname [z [n pots]] pm Hname He Hd. cbn [fst] in Hd.
  destruct (tmecp_el_facts z n pots He) as [Hz [Hn [Hne [Hok [Hnd [Hmx [_ [Hoo Hperm]]]]]]]].
  destruct (el_p_facts (bsname +++ "-ecp") z (name_ecp_ok bsname Hname) Hz) as [_ [_ Hp]].
  destruct (symlo_facts z Hz) as [_ [_ [_ [_ Hback]]]].
  destruct (info_p_facts n (zmax (map pot_l pots)) Hn ltac:(lia)) as [_ [_ [_ Hinfo]]].
  destruct (nonneg_string n Hn) as [_ Vn]. destruct (nonneg_string (zmax (map pot_l pots)) ltac:(lia)) as [_ Vm].
  unfold tecp_blk, texp_el, el_mx. cbn [fst snd skipn firstn app].
  unfold tmecp_parse_ecp_potential_lines. rewrite Hp. unfold bind at 1. rewrite Hback. unfold bind at 1.
  rewrite (not_in_existsb z _ Hd), Hinfo, Vn, Vm. cbv zeta.
  rewrite flat_map_concat_map, partition_blocks2.
  - unfold bind at 1. rewrite (tparse_pots_ok _ _ false [] Hmx Hoo); [reflexivity | | discriminate].
    apply (Permutation_NoDup (Permutation_map pot_l Hperm)), Hnd.
  - rewrite Forall_forall in *. intros b Hb. apply in_map_iff in Hb. destruct Hb as [p [<- Hpin]].
    destruct (tpot_blk_facts _ p (Hoo p Hpin) Hmx) as [H1 [H2 _]]. split; assumption.
Qed.

Lemma texpected_keys : forall ecps, map fst (tmecp_ecp_expected ecps) = map fst ecps.
Proof. intros ecps. unfold tmecp_ecp_expected. rewrite map_map. reflexivity. Qed.

Lemma tparse_ecp_blocks : forall bsname ecps pm, sall tm_name_char bsname = true -> Forall tmecp_el_ok ecps ->
  NoDup (map fst ecps) -> (forall z, In z (map fst ecps) -> ~ In z (map fst pm)) ->
  tmecp_parse_ecp_element_blocks (map (fun e => "*" :: tecp_blk bsname e) ecps) pm = inr (pm ++ tmecp_ecp_expected ecps).
Proof.
  intros bsname; induction ecps as [|e ecps IH]; intros pm Hn Hel Hnd Hdis.
  - cbn. now rewrite app_nil_r.
  - inversion Hel as [|? ? H1 H2]; subst. cbn [map] in Hnd. inversion Hnd as [|? ? Hnotin Hnd']; subst.
    cbn [map tmecp_parse_ecp_element_blocks].
    rewrite (tparse_ecp_element bsname e pm Hn H1); [|apply Hdis; now left]. unfold bind.
    rewrite IH; [| exact Hn | exact H2 | exact Hnd' |].
    + unfold tmecp_ecp_expected, texp_el. cbn [map]. rewrite <- app_assoc. reflexivity.
    + intros z Hz. rewrite map_app, in_app_iff. unfold texp_el. cbn [map fst In]. intros [Hin|[Heq|[]]].
      * apply (Hdis z); [now right | exact Hin].
      * subst z. apply Hnotin, Hz.
Qed.

(* ================================================================== *)
(* 7. the ECP section and the electron section, as sections             *)
(* ================================================================== *)
(* partition_lines(..., before=1) with the default min_size=1 *)
Lemma partition_before1_min1 : forall cond x bs, cond x = inr false -> bs <> [] ->
  Forall (block_shape cond) bs ->
  partition_lines_before (flat_map (cons x) bs) cond 1 1 = inr (map (cons x) bs).
Proof.
  intros cond x bs Hx Hne Hsh. unfold partition_lines_before.
  rewrite (flat_shift x bs Hne). change (x :: concat (TurbomoleSpec.shift x bs)) with ([x] ++ concat (TurbomoleSpec.shift x bs)).
  rewrite (part_skip cond true [x] _ [] []) by (constructor; [exact Hx | constructor]).
  rewrite (part_blocks cond _ _ _ (shift_shape cond x bs Hx Hsh)). cbn [app flush]. unfold bind.
  pose proof (shift_ne x bs Hne) as Hs. pose proof (steal_shift x bs [] Hne) as Est. cbn [app] in Est.
  destruct (TurbomoleSpec.shift x bs) as [|s0 S]; [congruence|]. cbn [List.length Nat.eqb negb]. rewrite Est.
  rewrite existsb_false; [reflexivity|].
  intros b Hb. apply in_map_iff in Hb. destruct Hb as [b0 [<- Hb0]]. reflexivity.
Qed.

Lemma ecp_mid_as_blocks : forall bsname ecps,
  ecp_mid bsname ecps = flat_map (cons "*") (map (tecp_blk bsname) ecps) ++ ["*"].
Proof.
  intros bsname ecps. unfold ecp_mid. rewrite (flat_map_sep _ _ "*" (tecp_blk bsname) ecps), flat_map_map. reflexivity.
Qed.

Lemma prune_dollar_mid : forall k M, (exists r, k = String "$" r) -> Forall body_ok M ->
  prune_lines (k :: M ++ ["$end"]) "$" true true = M /\ prune_lines (k :: M) "$" true true = M.
Proof.
  intros k M [r ->] H.
  assert (Eid : map strip_ws M = M).
  { apply map_id_in. rewrite Forall_forall in *. intros l Hl. apply (H l Hl). }
  assert (EM : prune_lines M "$" true true = M).
  { rewrite pr_keep; [exact Eid | reflexivity |]. rewrite Eid. rewrite Forall_forall in *. intros l Hl. apply body_head_dollar, H, Hl. }
  assert (E1 : prune_lines [String "$" r] "$" true true = []).
  { rewrite pr_unfold by reflexivity. cbn [map]. destruct (strip_ws_head "$" r eq_refl) as [Z ->]. reflexivity. }
  split.
  - change (String "$" r :: M ++ ["$end"]) with ([String "$" r] ++ M ++ ["$end"]). rewrite !pr_app by reflexivity.
    rewrite E1, EM. change (prune_lines ["$end"] "$" true true) with (@nil string). now rewrite app_nil_r.
  - change (String "$" r :: M) with ([String "$" r] ++ M). rewrite pr_app by reflexivity. now rewrite E1, EM.
Qed.

(* _parse_ecp_lines on the stripped section *)
Lemma tparse_ecp_section : forall bsname ecps, sall tm_name_char bsname = true -> ecps <> [] -> NoDup (map fst ecps) ->
  Forall tmecp_el_ok ecps ->
  tmecp_parse_ecp_lines ("$ecp" :: ecp_mid bsname ecps ++ ["$end"]) [] = inr (tmecp_ecp_expected ecps).
Proof.
  intros bsname ecps Hn Hne Hnd Hel. unfold tmecp_parse_ecp_lines.
  destruct (prune_dollar_mid "$ecp" (ecp_mid bsname ecps) ltac:(eexists; reflexivity) (ecp_mid_body bsname ecps Hn Hel)) as [-> _].
  rewrite ecp_mid_as_blocks, rev_unit. cbn [String.eqb Ascii.eqb Bool.eqb negb]. rewrite rev_involutive. fold el_cond.
  rewrite (partition_before1_min1 el_cond "*" (map (tecp_blk bsname) ecps)).
  - unfold bind at 1. rewrite map_map.
    rewrite (mapM_map_ok _ _ tmecp_check_element_block (fun _ => tt)).
    + unfold bind at 1. rewrite (tparse_ecp_blocks bsname ecps [] Hn Hel Hnd); [reflexivity|]. intros z _ [].
    + intros b Hb. apply in_map_iff in Hb. destruct Hb as [e [<- He]]. rewrite Forall_forall in Hel.
      apply (tecp_blk_facts bsname e Hn (Hel e He)).
  - reflexivity.
  - destruct ecps; [congruence | discriminate].
  - rewrite Forall_forall in *. intros b Hb. apply in_map_iff in Hb. destruct Hb as [e [<- He]].
    apply (tecp_blk_facts bsname e Hn (Hel e He)).
Qed.

(* _parse_electron_lines on the stripped '$basis' section when an '$ecp' section follows (no '$end' line in it) *)
Lemma parse_electron_section2 : forall role bsname els, tm_ok role bsname els ->
  tm_parse_electron_lines (tm_section_keyword role :: mid_lines bsname els) [] = inr (tm_expected els).
Proof.
  intros role bsname els H. pose proof (tm_ok_els _ _ _ H) as Hel. destruct H as [Hn [Hne [Hnd _]]].
  destruct (kw_facts role) as [_ [Hk _]]. cbv zeta in Hk.
  unfold tm_parse_electron_lines.
  destruct (prune_dollar_mid _ (mid_lines bsname els) Hk (mid_body_ok bsname els Hn Hel)) as [_ ->].
  rewrite mid_as_blocks, rev_unit.
  cbn [String.eqb Ascii.eqb Bool.eqb negb]. rewrite rev_involutive. fold el_cond.
  rewrite (partition_before1 el_cond "*" (map (tblock bsname) els)).
  - unfold bind at 1. rewrite map_map.
    rewrite (mapM_map_ok _ _ tm_check_element_block (fun _ => tt)).
    + unfold bind at 1. rewrite (element_blocks_ok bsname els [] Hn Hel Hnd); [reflexivity|]. intros z _ [].
    + intros b Hb. apply in_map_iff in Hb. destruct Hb as [zs [<- Hzs]]. rewrite Forall_forall in Hel.
      apply (tblock_facts bsname zs Hn (Hel zs Hzs)).
  - reflexivity.
  - destruct els; [congruence | discriminate].
  - rewrite Forall_forall in *. intros b Hb. apply in_map_iff in Hb. destruct Hb as [zs [<- Hzs]].
    apply (tblock_facts bsname zs Hn (Hel zs Hzs)).
  - rewrite Forall_forall in *. intros b Hb. apply in_map_iff in Hb. destruct Hb as [zs [<- Hzs]].
    apply (tblock_facts bsname zs Hn (Hel zs Hzs)).
Qed.

(* a '$basis' section without elements: the reader fails *)
Lemma parse_electron_section_empty : forall role,
  tm_parse_electron_lines (tm_section_keyword role :: mid_lines "" []) [] = inl ERuntime.
Proof. intros role. kw_split role; reflexivity. Qed.

(* ================================================================== *)
(* 8. the whole file                                                   *)
(* ================================================================== *)
Lemma tprune_hash : forall role bsname els ecps, sall tm_name_char bsname = true -> Forall tel_ok els ->
  Forall tmecp_el_ok ecps -> Forall body_ok (mid_lines bsname els) ->
  prune_lines (tfile_lines role bsname els ecps) "#" true true = tfile_stripped role bsname els ecps.
Proof.
  intros role bsname els ecps Hn Hel Hecp Hmid.
  rewrite pr_keep; [apply strip_tfile_lines; assumption | reflexivity |].
  rewrite (strip_tfile_lines role bsname els ecps Hel Hecp). unfold tfile_stripped. constructor.
  - kw_split role; (exists "$"%char; eexists; split; reflexivity).
  - apply Forall_app. split; [rewrite Forall_forall in *; intros l Hl; apply body_head_hash, Hmid, Hl|].
    apply Forall_app. split; [|constructor; [|constructor]; exists "$"%char, "end"; split; reflexivity].
    unfold tecp_spart. destruct ecps as [|e0 ecps0]; [constructor|]. remember (e0 :: ecps0) as ecps.
    constructor; [exists "$"%char, "ecp"; split; reflexivity|].
    pose proof (ecp_mid_body bsname ecps Hn Hecp) as Hem. rewrite Forall_forall in *. intros l Hl. apply body_head_hash, Hem, Hl.
Qed.

Lemma tpartition_sections : forall role bsname els ecps, sall tm_name_char bsname = true -> Forall tmecp_el_ok ecps ->
  Forall body_ok (mid_lines bsname els) -> ecps <> [] ->
  partition_lines (tfile_stripped role bsname els ecps) sec_cond true 1 1 2 =
    inr [tm_section_keyword role :: mid_lines bsname els; "$ecp" :: ecp_mid bsname ecps ++ ["$end"]].
Proof.
  intros role bsname els ecps Hn Hecp Hmid Hne. destruct (kw_facts role) as [Hk _]. cbv zeta in Hk.
  pose proof (ecp_mid_body bsname ecps Hn Hecp) as Hem.
  unfold partition_lines, tfile_stripped, tecp_spart. destruct ecps as [|e0 ecps0]; [congruence|]. remember (e0 :: ecps0) as ecps.
  rewrite (part_go_match sec_cond true _ _ [] [] Hk). cbn [flush].
  rewrite (part_skip sec_cond true (mid_lines bsname els) _ [tm_section_keyword role] []).
  2:{ rewrite Forall_forall in *. intros l Hl. apply body_not_sec, Hmid, Hl. }
  change (("$ecp" :: ecp_mid bsname ecps) ++ ["$end"]) with ("$ecp" :: (ecp_mid bsname ecps ++ ["$end"])).
  rewrite (part_go_match sec_cond true "$ecp" _ _ _ eq_refl).
  rewrite part_skip_all.
  2:{ apply Forall_app. split; [|constructor; [reflexivity | constructor]].
      rewrite Forall_forall in *. intros l Hl. apply body_not_sec, Hem, Hl. }
  cbn [flush app]. unfold bind. reflexivity.
Qed.

Lemma tm_expected_keys : forall els, map fst (tm_expected els) = map fst els.
Proof. intros els. unfold tm_expected. rewrite map_map. reflexivity. Qed.

Lemma rev_last_end : forall k M, rev (k :: M ++ ["$end"]) = "$end" :: rev (k :: M).
Proof. intros k M. change (k :: M ++ ["$end"]) with ((k :: M) ++ ["$end"]). apply rev_unit. Qed.

(* both sections *)
Lemma tread_parts_both : forall role bsname els ecps, tmecp_ok role bsname els ecps -> ecps <> [] ->
  tmecp_read_parts (tfile_lines role bsname els ecps) = inr (tmecp_all_order els ecps, tm_expected els, tmecp_ecp_expected ecps).
Proof.
  intros role bsname els ecps H Hne. destruct (tmecp_ok_parts _ _ _ _ H) as [Hname [Hn [Hel [Hecp Hnd]]]]. destruct H as [Htm _].
  pose proof (mid_body_ok bsname els Hname Hel) as Hmid.
  destruct (kw_facts role) as [_ [[r Er] [Hnotecp [Hsec Hall]]]].
  unfold tmecp_read_parts. rewrite (tprune_hash role bsname els ecps Hn Hel Hecp Hmid). fold sec_cond.
  rewrite (tpartition_sections role bsname els ecps Hn Hecp Hmid Hne).
  assert (Es : tmecp_sections [tm_section_keyword role :: mid_lines bsname els; "$ecp" :: ecp_mid bsname ecps ++ ["$end"]] ([], [], [])
               = inr (tmecp_all_order els ecps, tm_expected els, tmecp_ecp_expected ecps)).
  { cbn [tmecp_sections]. unfold mid_lines at 1. rewrite Hall. fold (mid_lines bsname els).
    rewrite Hnotecp, Hsec, (parse_electron_section2 role bsname els Htm). unfold bind at 1.
    unfold ecp_mid at 1. cbn [forallb str_prefix Ascii.eqb Bool.eqb andb]. fold (ecp_mid bsname ecps).
    change (String.eqb (lower "$ecp") "$ecp") with true. cbv iota.
    rewrite (tparse_ecp_section bsname ecps Hn Hne Hnd Hecp). unfold bind, ok.
    rewrite add_keys_nil, tm_expected_keys, texpected_keys. reflexivity. }
  unfold bind at 2. rewrite Es. unfold tfile_stripped. rewrite app_assoc, rev_last_end, Er. reflexivity.
Qed.

(* no ECP: the file of Proofs/TurbomoleSpec.v *)
Lemma tread_parts_noecp : forall role bsname els, tm_ok role bsname els ->
  tmecp_read_parts (tfile_lines role bsname els []) = inr (tmecp_all_order els [], tm_expected els, []).
Proof.
  intros role bsname els H. pose proof (tm_ok_els _ _ _ H) as Hel. pose proof H as [Hn _].
  destruct (kw_facts role) as [_ [[r Er] [Hnotecp [Hsec Hall]]]].
  change (tfile_lines role bsname els []) with (tall_lines role bsname els).
  unfold tmecp_read_parts. rewrite (prune_hash role bsname els Hn Hel). fold sec_cond.
  rewrite (partition_sections role bsname els Hn Hel).
  assert (Es : tmecp_sections [stripped_lines role bsname els] ([], [], []) = inr (tmecp_all_order els [], tm_expected els, [])).
  { pose proof (TurbomoleSpec.parse_electron_section role bsname els H) as Hp.
    assert (Ef : forallb (str_prefix "$") (stripped_lines role bsname els) = false) by (unfold stripped_lines, mid_lines; apply Hall).
    cbn [tmecp_sections]. rewrite Ef.
    remember (stripped_lines role bsname els) as S eqn:ES. destruct S as [|first T0]; [unfold stripped_lines in ES; discriminate ES|].
    assert (E1 : first = tm_section_keyword role) by (unfold stripped_lines in ES; now inversion ES).
    rewrite Hp, E1, Hnotecp, Hsec. unfold bind, ok.
    rewrite add_keys_nil, tm_expected_keys. unfold tmecp_all_order. cbn [map filter]. rewrite app_nil_r. reflexivity. }
  unfold bind at 2. rewrite Es. unfold stripped_lines. rewrite rev_last_end, Er. reflexivity.
Qed.

Lemma tread_parts : forall role bsname els ecps, tmecp_ok role bsname els ecps ->
  tmecp_read_parts (tfile_lines role bsname els ecps) = inr (tmecp_all_order els ecps, tm_expected els, tmecp_ecp_expected ecps).
Proof.
  intros role bsname els ecps H. destruct ecps as [|e0 ecps0].
  - destruct H as [Htm _]. exact (tread_parts_noecp role bsname els Htm).
  - apply tread_parts_both; [exact H | discriminate].
Qed.

(* ---------- the round trips ---------- *)
Lemma tmecp_roundtrip_parts : tmecp_roundtrip_parts_stmt.
Proof.
  intros role bsname els ecps t H E. rewrite (tmecp_written_lines role bsname els ecps t H E). apply tread_parts, H.
Qed.

Lemma tmecp_roundtrip_exact : tmecp_roundtrip_stmt.
Proof.
  intros role bsname els ecps H. destruct (tmecp_write_total role bsname els ecps H) as [t Et].
  unfold tmecp_roundtrip. rewrite Et. unfold bind at 1. unfold tmecp_read.
  rewrite (tmecp_roundtrip_parts role bsname els ecps t H Et). reflexivity.
Qed.

Lemma tmecp_roundtrip_ecp_exact : tmecp_roundtrip_ecp_stmt.
Proof.
  intros role bsname els ecps H. destruct (tmecp_write_total role bsname els ecps H) as [t Et].
  unfold tmecp_roundtrip_ecp. rewrite Et. unfold bind at 1.
  rewrite (tmecp_roundtrip_parts role bsname els ecps t H Et). reflexivity.
Qed.

(* ---------- FINDING 2: no electron shells ---------- *)
Lemma tmecp_ecp_only : tmecp_ecp_only_stmt.
Proof.
  intros role bsname ecps Hn Hne Hnd Hecp.
  assert (Hel : Forall tel_ok []) by constructor.
  assert (Hmid : Forall body_ok (mid_lines bsname [])) by (constructor; [exact star_body | constructor]).
  pose proof (twrite_lines role bsname [] ecps Hel Hecp) as Ew.
  split; [eexists; exact Ew|].
  unfold tmecp_roundtrip. rewrite Ew. unfold bind at 1.
  rewrite (splitlines_unlines _ (tfile_lines_good role bsname [] ecps Hn Hel Hecp)).
  destruct (kw_facts role) as [_ [[r Er] [Hnotecp [Hsec Hall]]]].
  unfold tmecp_read, tmecp_read_parts. rewrite (tprune_hash role bsname [] ecps Hn Hel Hecp Hmid). fold sec_cond.
  rewrite (tpartition_sections role bsname [] ecps Hn Hecp Hmid Hne).
  assert (Es : tmecp_sections [tm_section_keyword role :: mid_lines bsname []; "$ecp" :: ecp_mid bsname ecps ++ ["$end"]] ([], [], [])
               = inl ERuntime).
  { cbn [tmecp_sections]. change (mid_lines bsname []) with ["*"]. rewrite Hall, Hnotecp, Hsec.
    change ["*"] with (mid_lines "" []). rewrite parse_electron_section_empty. reflexivity. }
  unfold bind at 3. rewrite Es. unfold tfile_stripped. rewrite app_assoc, rev_last_end, Er. reflexivity.
Qed.

(* ================================================================== *)
(* 9. no number is lost                                                *)
(* ================================================================== *)
Lemma tokens_in_mid : forall w a b cur, tok_ok w -> In w (tokens_acc (a +++ String " " (w +++ String " " b)) cur).
Proof.
  intros w a b cur [Hne Hs]. revert cur. induction a as [|c a IH]; intros cur.
  - assert (E : tokens_acc (w +++ String " " b) "" = w :: tokens_acc b "").
    { rewrite (tokens_word w _ "" Hs), sapp_nil_r. cbn [tokens_acc]. change (is_space " ") with true. cbv iota.
      destruct (srev w) as [|c0 r0] eqn:Er; [exfalso; exact (srev_ne w Hne Er)|]. rewrite <- Er, srev_involutive. reflexivity. }
    cbn [String.append tokens_acc]. change (is_space " ") with true. cbv iota.
    destruct cur; rewrite E; [now left | right; now left].
  - cbn [String.append tokens_acc]. destruct (is_space c); [destruct cur; [apply IH | right; apply IH] | apply IH].
Qed.

Lemma info_line_tokens : forall n mx, In (Z_to_string n) (tokens_acc (info_line n mx) "").
Proof.
  intros n mx. unfold info_line, info_p.
  change ("  " +++ "ncore = " +++ Z_to_string n +++ "   lmax = " +++ Z_to_string mx)
    with ("  ncore =" +++ String " " (Z_to_string n +++ String " " ("  lmax = " +++ Z_to_string mx))).
  apply tokens_in_mid, int_tok.
Qed.

Lemma tmecp_no_number_lost : tmecp_no_number_lost_stmt.
Proof.
  intros role bsname els ecps t H E x Hx. rewrite (tmecp_written_lines role bsname els ecps t H E).
  destruct (tmecp_ok_parts _ _ _ _ H) as [Hname [Hn [Hel [Hecp Hnd]]]]. destruct H as [Htm _].
  destruct Hx as [Hx|Hx].
  - (* a number of the electron part: the line is one of the lines of tm_write_electron *)
    destruct (tm_write_total role bsname els Htm) as [t' Et'].
    destruct (tm_no_number_lost role bsname els t' Htm Et' x Hx) as [line [Hl Htok]].
    rewrite (tm_written_lines role bsname els t' Htm Et') in Hl. exists line. split; [|exact Htok].
    unfold tall_lines in Hl. unfold tfile_lines. destruct Hl as [<-|[<-|Hl]]; [now left | right; now left |].
    right. right. apply in_app_or in Hl. apply in_or_app. destruct Hl as [Hl|Hl]; [now left|].
    right. apply in_or_app. right. exact Hl.
  - destruct Hx as [e [He Hx]]. rewrite Forall_forall in Hecp. pose proof (Hecp e He) as Hok.
    destruct e as [z [n pots]]. cbn [fst snd] in Hx.
    assert (Hsub : forall line, In line (tecp_el_lines bsname (z, (n, pots))) -> In line (tfile_lines role bsname els ecps)).
    { intros line Hl. unfold tfile_lines. right. right. apply in_or_app. right. apply in_or_app. left.
      unfold tecp_part. destruct ecps as [|e0 ecps0]; [destruct He|]. right. right. apply in_flat_map. eexists. split; [exact He | exact Hl]. }
    destruct (tmecp_el_facts z n pots Hok) as [_ [_ [_ [_ [_ [_ [_ [Hoo Hperm]]]]]]]].
    destruct Hx as [->|[p [Hp Hx]]].
    + exists (info_line n (el_mx (z, (n, pots)))). split; [apply Hsub; right; right; now left|].
      rewrite dconv_int. apply info_line_tokens.
    + pose proof (Permutation_in _ Hperm Hp) as Hpo. rewrite Forall_forall in Hoo. pose proof (Hoo p Hpo) as Hpp.
      destruct (tmecp_pot_ecp_ok p Hpp) as [Hpp' _].
      destruct (pot_facts p Hpp') as [_ [Ec [Hg [Hc [_ [_ [Hts _]]]]]]].
      destruct (trip_proj _ _ _ Hg Hc) as [P1 [P2 P3]]. fold (ptrip p) in P1, P2, P3.
      assert (Ht : exists tr, In tr (ptrip p) /\ In x (ttokrow tr)).
      { destruct Hx as [Hx|[[c [Hcin Hx]]|[r [Hr ->]]]].
        - rewrite <- P2 in Hx. apply in_map_iff in Hx. destruct Hx as [[[a b] c] [<- Hin]]. eexists. split; [exact Hin|]. right. right. now left.
        - rewrite Ec in Hcin. destruct Hcin as [<-|[]]. rewrite <- P3 in Hx. apply in_map_iff in Hx.
          destruct Hx as [[[a b] c] [<- Hin]]. eexists. split; [exact Hin|]. now left.
        - rewrite <- P1 in Hr. apply in_map_iff in Hr. destruct Hr as [[[a b] c] [<- Hin]]. eexists. split; [exact Hin|]. right. now left. }
      destruct Ht as [tr [Htr Hxt]]. exists (tline tr). split.
      * apply Hsub. unfold tecp_el_lines. cbn [fst snd]. right. right. right. apply in_or_app. left. apply in_flat_map. exists p.
        split; [exact Hpo|]. unfold tpot_lines, tprows. right. apply in_map, Htr.
      * rewrite (tline_tokens tr (Hts tr Htr)). apply in_map, Hxt.
Qed.

(* ================================================================== *)
(* 10. the hypotheses that cannot be dropped, and a concrete instance   *)
(* ================================================================== *)
Lemma tmecp_literal_number_counterexample : tmecp_literal_number_counterexample_stmt.
Proof. eexists. split; vm_compute; reflexivity. Qed.

Lemma tmecp_am7 : tmecp_am7_stmt.
Proof. split; vm_compute; reflexivity. Qed.
Lemma tmecp_am8 : tmecp_am8_stmt.
Proof. repeat split; vm_compute; reflexivity. Qed.

Lemma tm_h_ok : tm_shell_ok tm_h.
Proof. unfold tm_h. shell_ok_tac. Qed.

Lemma els0_ok : forall role, tm_ok role "n" tmecp_els0.
Proof.
  intros role. split; [split; reflexivity|]. split; [discriminate|]. split; [repeat constructor; intros []|].
  constructor; [|constructor]. cbn [fst snd]. split; [lia|]. split; [discriminate|]. constructor; [exact tm_h_ok | constructor].
Qed.

Lemma tgap_pot_ok : forall l, tmecp_pot_ok (gap_pot l) <-> (0 <= l < 7)%Z.
Proof.
  intros l. split.
  - intros [[l' [E R]] _]. cbn in E. injection E as ->. exact R.
  - intros R. split; [exists l; split; [reflexivity | exact R]|]. split; [discriminate|]. split; [reflexivity|].
    split; [exists ["1.0"]; split; reflexivity|]. split; repeat constructor.
Qed.

Lemma tgap_ok_iff : forall ls,
  tmecp_ok "orbital" "n" tmecp_els0 (gap_ecp ls) <-> (ls <> [] /\ Forall (fun l => 0 <= l < 7)%Z ls /\ NoDup ls).
Proof.
  intros ls. unfold gap_ecp. split.
  - intros [_ [_ Hel]]. inversion Hel as [|? ? H1 _]; subst. destruct H1 as [_ [_ [Hne [Hok Hnd]]]].
    rewrite gap_pots_l in Hnd. split; [intros ->; apply Hne; reflexivity|]. split; [|assumption].
    rewrite Forall_forall in *. intros l Hl. apply tgap_pot_ok, Hok, in_map, Hl.
  - intros [Hne [Hr Hnd]]. split; [apply els0_ok|]. split; [repeat constructor; intros []|].
    constructor; [|constructor]. unfold tmecp_el_ok. rewrite gap_pots_l. split; [lia|]. split; [lia|].
    split; [destruct ls; [congruence | discriminate]|]. split; [|assumption].
    rewrite Forall_forall in *. intros p Hp. apply in_map_iff in Hp. destruct Hp as [l [<- Hl]]. apply tgap_pot_ok, Hr, Hl.
Qed.

Lemma tmecp_hij_range : tmecp_hij_range_stmt.
Proof.
  split; [vm_compute; reflexivity|]. split; [vm_compute; reflexivity|]. split; [vm_compute; reflexivity|].
  split; [vm_compute; reflexivity | exact tgap_ok_iff].
Qed.

Lemma tmecp_ecp_only_example : tmecp_ecp_only_example_stmt.
Proof. split; vm_compute; reflexivity. Qed.

Ltac nodup_tac := repeat constructor; cbn [In]; intros HH; repeat (destruct HH as [HH|HH]; [discriminate HH|]); exact HH.

Lemma tmecp_ecp_other_element : tmecp_ecp_other_element_stmt.
Proof.
  split; [|vm_compute; reflexivity]. apply tgap_ok_iff. split; [discriminate|]. split; [repeat constructor; lia | nodup_tac].
Qed.

Lemma tmecp_gap_ok : tmecp_gap_ok_stmt.
Proof.
  split; [|split; [vm_compute; reflexivity | split; [|vm_compute; reflexivity]]].
  - apply tgap_ok_iff. split; [discriminate|]. split; [repeat constructor; lia | nodup_tac].
  - apply tgap_ok_iff. split; [discriminate|]. split; [repeat constructor; lia | nodup_tac].
Qed.

Lemma tmecp_dup : tmecp_dup_stmt.
Proof. split; vm_compute; reflexivity. Qed.
Lemma tmecp_nopot : tmecp_nopot_stmt.
Proof. vm_compute. reflexivity. Qed.
Lemma tmecp_noterm : tmecp_noterm_stmt.
Proof. vm_compute. reflexivity. Qed.
Lemma tmecp_negelec : tmecp_negelec_stmt.
Proof. vm_compute. reflexivity. Qed.
Lemma tmecp_twocols : tmecp_twocols_stmt.
Proof. vm_compute. reflexivity. Qed.
Lemma tmecp_zerocols : tmecp_zerocols_stmt.
Proof. vm_compute. reflexivity. Qed.
Lemma tmecp_twoam : tmecp_twoam_stmt.
Proof. vm_compute. reflexivity. Qed.
Lemma tmecp_dup_element : tmecp_dup_element_stmt.
Proof. vm_compute. reflexivity. Qed.
Lemma tmecp_z121 : tmecp_z121_stmt.
Proof. vm_compute. reflexivity. Qed.
Lemma tmecp_nopoint : tmecp_nopoint_stmt.
Proof. vm_compute. reflexivity. Qed.
Lemma tmecp_noname : tmecp_noname_stmt.
Proof. vm_compute. reflexivity. Qed.

Ltac tpot_ok_tac :=
  split; [eexists; split; [reflexivity | lia]|]; split; [discriminate|]; split; [reflexivity|];
  split; [eexists; split; reflexivity|]; split; repeat constructor.

Example tmecp_example : tmecp_example_stmt.
Proof.
  split; [|split; [|split]]; try (vm_compute; reflexivity).
  split; [|split].
  - unfold tm_ok, txe_els. split; [split; reflexivity|]. split; [discriminate|]. split; [cbn [map fst]; nodup_tac|].
    repeat (constructor; [cbn [fst snd]; split; [lia|]; split; [discriminate|]|]); [| |constructor].
    + repeat (constructor; [shell_ok_tac|]). constructor.
    + repeat (constructor; [shell_ok_tac|]). constructor.
  - cbn [map fst txe_ecps]. nodup_tac.
  - unfold txe_ecps. constructor; [|constructor]. unfold tmecp_el_ok. split; [lia|]. split; [lia|]. split; [discriminate|]. split.
    + constructor; [tpot_ok_tac|]. constructor; [tpot_ok_tac|]. constructor; [tpot_ok_tac|]. constructor.
    + cbn. nodup_tac.
Qed.

Print Assumptions tmecp_no_ecp.
Print Assumptions tmecp_order.
Print Assumptions tmecp_write_total.
Print Assumptions tmecp_roundtrip_exact.
Print Assumptions tmecp_roundtrip_parts.
Print Assumptions tmecp_roundtrip_ecp_exact.
Print Assumptions tmecp_no_number_lost.
Print Assumptions tmecp_literal_number_counterexample.
Print Assumptions tmecp_am7.
Print Assumptions tmecp_am8.
Print Assumptions tmecp_hij_range.
Print Assumptions tmecp_ecp_only.
Print Assumptions tmecp_ecp_only_example.
Print Assumptions tmecp_ecp_other_element.
Print Assumptions tmecp_gap_ok.
Print Assumptions tmecp_dup.
Print Assumptions tmecp_nopot.
Print Assumptions tmecp_noterm.
Print Assumptions tmecp_negelec.
Print Assumptions tmecp_twocols.
Print Assumptions tmecp_zerocols.
Print Assumptions tmecp_twoam.
Print Assumptions tmecp_dup_element.
Print Assumptions tmecp_z121.
Print Assumptions tmecp_nopoint.
Print Assumptions tmecp_noname.
Print Assumptions tmecp_example.
