(* Statements about the ECP section of the Turbomole writer / reader pair and about the whole file ($basis section + $ecp
   section): what write_turbomole prints, read_turbomole reads back.  Definitions only; the proofs are in
   Proofs/TurbomoleEcpSpec.v.  The electron section alone is Proofs/TurbomoleDefs.v / TurbomoleSpec.v. *)
From BSE Require Import Model.Val Model.Text Model.Basis Model.Manip Model.Matrix Model.Lut Model.Elements Model.Nwchem
                        Model.NwchemEcp Model.Turbomole Model.TurbomoleEcp
                        Proofs.MatrixDefs Proofs.NwchemDefs Proofs.NwchemEcpDefs Proofs.TurbomoleDefs.
Require Import Coq.Sorting.Permutation Coq.Sorting.Sorted.

(* ---------- well-formed input of the ECP part of the writer ---------- *)
(* (pot_l p = am[0], ecp_written_order, gap_pot: Proofs/NwchemEcpDefs.v) *)
Definition tmecp_pot_ok (p : epot) : Prop :=
  (* exactly one angular momentum, and one of s p d f g h i (0..6).  THIS IS THE FINDING: the writer takes the letter from
     lut._amchar_map_hij ('spdfghijkl...', 26 letters), the reader looks it up in lut._amchar_map_hik ('spdfghikl...', 25
     letters); the two strings agree on the first seven letters only *)
  (exists l, p_am p = [l] /\ (0 <= l < 7)%Z) /\
  (* at least one term (a potential without terms leaves a one-line block: partition_lines(..., min_size=2)) *)
  p_rexp p <> [] /\
  (* r exponents (integers), gaussian exponents and coefficients: one of each per term; exactly one coefficient column
     (the writer has three point places for [*coefficients, rexponents, gexponents]; parse_ecp_table wants three tokens) *)
  List.length (p_gexp p) = List.length (p_rexp p) /\
  (exists c, p_coef p = [c] /\ List.length c = List.length (p_rexp p)) /\
  (* the numbers are strings matching helpers.floating_re *)
  Forall floating (p_gexp p) /\ Forall (Forall floating) (p_coef p).

(* one element of the ECP part: (Z, (ecp_electrons, ecp_potentials)).  Nothing is required of the set of momenta (`lmax`
   is written as a number: 0, 1, 3 is fine, and so is a single potential of momentum 2 - contrast ecp_top_ok of NWChem). *)
Definition tmecp_el_ok (e : Z * (Z * list epot)) : Prop :=
  let '(z, (nelec, pots)) := e in
  (* lut's element table, lower-case symbols *)
  (1 <= z <= 120)%Z /\
  (* 'ecp_electrons': ecp_info_re wants \d+ *)
  (0 <= nelec)%Z /\
  (* at least one potential (max() of the writer; sort_basis pops from the list even earlier) *)
  pots <> [] /\ Forall tmecp_pot_ok pots /\
  (* momenta pairwise distinct (two potentials with the highest momentum: "Found multiple potentials with single AM") *)
  NoDup (map pot_l pots).

(* the whole dictionary as the writer sees it: role, name, the electron view and the ECP view of basis['elements'].
   tm_ok (Proofs/TurbomoleDefs.v) is the condition of the electron part; it contains tm_name_ok bsname and els <> [].
   THE SECOND FINDING is in `els <> []`: '$basis' and '*' are written even when no element has electron shells, and the
   reader refuses a '$basis' section without elements - a basis with ECPs only (def2-ecp, lanl2dz ecp, ... in the store)
   cannot be read back (tmecp_ecp_only_stmt).  The ECP part needs nothing more of the name: `name-ecp` is never blank.
   ecps = [] is allowed (no '$ecp' section at all). *)
Definition tmecp_ok (role bsname : string) (els : list (Z * list sshell)) (ecps : list (Z * (Z * list epot))) : Prop :=
  tm_ok role bsname els /\
  (* dictionary keys *)
  NoDup (map fst ecps) /\
  Forall tmecp_el_ok ecps.

(* ---------- what comes back ---------- *)
(* numbers: same normalisation as in matrix_roundtrip_stmt with conv = true (the writer turns e/E into D, the reader D into
   E; every digit, sign and point is kept); r exponents and momentum come back as they are; ecp_type is not in the file,
   the reader says 'scalar_ecp' *)
Definition tmecp_expected_pot (p : epot) : epot :=
  mkEpot "scalar_ecp" (p_am p) (p_rexp p) (map (norm true) (p_gexp p)) (map (map (norm true)) (p_coef p)).

(* the potentials in the written order (sorted by momentum, then the highest moved to the front; nw_ecp_order_stmt of
   Proofs/NwchemEcpDefs.v says what this order is), with the electron count *)
Definition tmecp_ecp_expected (ecps : list (Z * (Z * list epot))) : tmecp_map :=
  map (fun e => (fst e, (fst (snd e), map tmecp_expected_pot (ecp_written_order (snd (snd e)))))) ecps.

(* the keys: those of the electron part, then the new ones of the ECP part *)
Definition tmecp_all_order (els : list (Z * list sshell)) (ecps : list (Z * (Z * list epot))) : list Z :=
  map fst els ++ filter (fun z => negb (existsb (Z.eqb z) (map fst els))) (map fst ecps).

(* per element what each part gives; the electron part as in tm_expected (region dropped, function type as
   function_type_from_am(am, 'gto', 'spherical') assigns it, numbers normalised) *)
Definition tmecp_expected (els : list (Z * list sshell)) (ecps : list (Z * (Z * list epot))) : list (Z * nw_el) :=
  tmecp_assemble (tmecp_all_order els ecps, tm_expected els, tmecp_ecp_expected ecps).

(* ---------- statements ---------- *)
(* without ECPs the text is the one of Model/Turbomole.v (no hypothesis at all) *)
Definition tmecp_no_ecp_stmt : Prop :=
  forall role bsname els, tmecp_write role bsname els [] = tm_write_electron role bsname els.

(* the order of the potentials in the file: the one with the highest momentum first, then the others by increasing momentum *)
Definition tmecp_order_stmt : Prop :=
  forall pots, pots <> [] -> Forall tmecp_pot_ok pots -> NoDup (map pot_l pots) ->
    exists top rest, ecp_written_order pots = top :: rest /\ Permutation pots (top :: rest) /\
                     pot_l top = zmax (map pot_l pots) /\
                     StronglySorted (fun a b => (pot_l a < pot_l b)%Z) rest.

(* the writer does not fail on well-formed input *)
Definition tmecp_write_total_stmt : Prop :=
  forall role bsname els ecps, tmecp_ok role bsname els ecps -> exists t, tmecp_write role bsname els ecps = inr t.

(* reading back what was written gives the same elements in order; per element the same shells (as tm_expected), the same
   electron count and the potentials in the written order with the same momenta, r exponents and numbers *)
Definition tmecp_roundtrip_stmt : Prop :=
  forall role bsname els ecps, tmecp_ok role bsname els ecps ->
    tmecp_roundtrip role bsname els ecps = inr (tmecp_expected els ecps).
(* the same, component by component: key order, electron part, ECP part *)
Definition tmecp_roundtrip_parts_stmt : Prop :=
  forall role bsname els ecps t, tmecp_ok role bsname els ecps -> tmecp_write role bsname els ecps = inr t ->
    tmecp_read_parts (splitlines t) = inr (tmecp_all_order els ecps, tm_expected els, tmecp_ecp_expected ecps).
Definition tmecp_roundtrip_ecp_stmt : Prop :=
  forall role bsname els ecps, tmecp_ok role bsname els ecps ->
    tmecp_roundtrip_ecp role bsname els ecps = inr (tmecp_ecp_expected ecps).

(* C04 direction: every number of the input - exponents and coefficients of the shells (tm_number_of), gaussian
   exponents, coefficients, r exponents and electron counts in decimal of the ECPs (nw_ecp_number_of) - is a white-space
   delimited token of some line of the written text, with the exponent marker as the writer prints it (convert_exp=True:
   e/E -> D, nothing else; the decimal integers contain no e).  Nothing is left out (no zero coefficient is dropped). *)
Definition tmecp_no_number_lost_stmt : Prop :=
  forall role bsname els ecps t, tmecp_ok role bsname els ecps -> tmecp_write role bsname els ecps = inr t ->
    forall x, tm_number_of els x \/ nw_ecp_number_of ecps x ->
      exists line, In line (splitlines t) /\ In (d_convert x) (tokens_acc line "").

(* ---------- instances used below ---------- *)
Definition tmecp_els0 : list (Z * list sshell) := [(1%Z, [tm_h])].
(* Na with 10 core electrons and one potential gap_pot l = (l; 1.0 r^2 exp(-1.0 r^2)) per momentum of ls *)
Definition tmecp_rt (ls : list Z) : res (list (Z * nw_el)) := tmecp_roundtrip "orbital" "n" tmecp_els0 (gap_ecp ls).
Definition tmecp_rd (ls : list Z) : list (Z * nw_el) :=
  [(1%Z, mkNwEl [tm_h] None []); (11%Z, mkNwEl [] (Some 10%Z) (map gap_pot ls))].

(* (the literal string is in general NOT there: 1.755e+02 is printed as 1.755D+02) *)
Definition tmecp_literal_number_counterexample_stmt : Prop :=
  exists t, tmecp_write "orbital" "n" tmecp_els0 [(11%Z, (10%Z, [mkEpot "scalar_ecp" [0%Z] [2%Z] ["1.755e+02"] [["1.0"]]]))] = inr t /\
            forallb (fun line => negb (existsb (String.eqb "1.755e+02") (tokens_acc line ""))) (splitlines t) = true.

(* ---------- FINDING 1: momenta 7 and higher (valid basis data) ---------- *)
(* a potential of momentum 7 is written as `j` (hij), which the reader does not know (hik): KeyError.  Everything else
   about this input is well-formed. *)
Definition tmecp_am7_stmt : Prop :=
  tmecp_write "orbital" "n" tmecp_els0 (gap_ecp [7%Z]) =
    inr (String.concat nl1 ["$basis"; "*"; "h n"; "*"; "    1   s"; "      1.0                    1.0"; "*";
                            "$ecp"; "*"; "na n-ecp"; "*"; "  ncore = 10   lmax = 7"; "j"; "       1.0            2       1.0"; "*";
                            "$end"; ""]) /\
  tmecp_rt [7%Z] = inl EKey.
(* momentum 8 is written as `k`, which the reader takes for 7: "Potential with single AM 7 is not the same as lmax = 8" *)
Definition tmecp_am8_stmt : Prop :=
  tmecp_rt [8%Z] = inl ERuntime /\ tmecp_rt [0; 8]%Z = inl ERuntime /\ tmecp_rt [0; 7; 8]%Z = inl ERuntime.
(* the whole range of lut's table: 0..6 come back, 7 is a KeyError, 8..25 a RuntimeError, 26 has no letter (writer) *)
Definition tmecp_hij_range_stmt : Prop :=
  map (fun l => tmecp_rt [l]) (zrange 0 7) = map (fun l => inr (tmecp_rd [l])) (zrange 0 7) /\
  tmecp_rt [7%Z] = inl EKey /\
  map (fun l => tmecp_rt [l]) (zrange 8 18) = map (fun _ => inl ERuntime) (zrange 8 18) /\
  tmecp_write "orbital" "n" tmecp_els0 (gap_ecp [26%Z]) = inl EIndex /\
  (forall ls, tmecp_ok "orbital" "n" tmecp_els0 (gap_ecp ls) <-> (ls <> [] /\ Forall (fun l => 0 <= l < 7)%Z ls /\ NoDup ls)).

(* ---------- FINDING 2: a basis without electron shells (valid basis data; in the store e.g. def2-ecp) ---------- *)
(* whatever the (well-formed) ECP part is: '$basis', '*', '$ecp', ... is written, and the reader fails in the '$basis'
   section ("Cannot partition lines with before = 1: have 0 blocks") *)
Definition tmecp_ecp_only_stmt : Prop :=
  forall role bsname ecps, sall tm_name_char bsname = true -> ecps <> [] -> NoDup (map fst ecps) -> Forall tmecp_el_ok ecps ->
    (exists t, tmecp_write role bsname [] ecps = inr t) /\
    tmecp_roundtrip role bsname [] ecps = inl ERuntime.
Definition tmecp_ecp_only_example_stmt : Prop :=
  tmecp_write "orbital" "n" [] (gap_ecp [0%Z]) =
    inr (String.concat nl1 ["$basis"; "*"; "$ecp"; "*"; "na n-ecp"; "*"; "  ncore = 10   lmax = 0"; "s";
                            "       1.0            2       1.0"; "*"; "$end"; ""]) /\
  tmecp_roundtrip "orbital" "n" [] (gap_ecp [0%Z]) = inl ERuntime.
(* the ECP keys may well belong to an element without electron shells, as long as some element has shells *)
Definition tmecp_ecp_other_element_stmt : Prop :=
  tmecp_ok "orbital" "n" tmecp_els0 (gap_ecp [1; 0]%Z) /\ tmecp_rt [1; 0]%Z = inr (tmecp_rd [1; 0]%Z).

(* ---------- what is NOT needed, unlike NWChem (the file says `lmax = L`) ---------- *)
(* momenta 0, 1, 3 (2 missing below the top) and a single potential of momentum 2 come back unchanged *)
Definition tmecp_gap_ok_stmt : Prop :=
  tmecp_ok "orbital" "n" tmecp_els0 (gap_ecp [0; 1; 3]%Z) /\ tmecp_rt [0; 1; 3]%Z = inr (tmecp_rd [3; 0; 1]%Z) /\
  tmecp_ok "orbital" "n" tmecp_els0 (gap_ecp [2%Z]) /\ tmecp_rt [2%Z] = inr (tmecp_rd [2%Z]).

(* ---------- the other hypotheses cannot be dropped ---------- *)
(* two potentials of the highest momentum: both are written with a single letter, the reader refuses the second one;
   two potentials of a lower momentum survive (the hypothesis is there because the data model wants distinct momenta) *)
Definition tmecp_dup_stmt : Prop :=
  tmecp_rt [1; 0; 1]%Z = inl ERuntime /\ tmecp_rt [0; 1; 0]%Z = inr (tmecp_rd [1; 0; 0]%Z).
(* no potential (writer: max() of an empty list), a potential without terms (reader: one-line block), a negative electron
   count (reader: ecp_info_re), two coefficient columns (writer: point_place[3]), no coefficient column (reader: two tokens),
   two momenta in one potential (written as `sp`, which ecp_pot_am_re does not match) *)
Definition tmecp_nopot_stmt : Prop := tmecp_roundtrip "orbital" "n" tmecp_els0 [(11%Z, (10%Z, []))] = inl EValue.
Definition tmecp_noterm_stmt : Prop :=
  tmecp_roundtrip "orbital" "n" tmecp_els0 [(11%Z, (10%Z, [gap_pot 1%Z; mkEpot "scalar_ecp" [0%Z] [] [] [[]]]))] = inl ERuntime.
Definition tmecp_negelec_stmt : Prop :=
  tmecp_roundtrip "orbital" "n" tmecp_els0 [(11%Z, ((-1)%Z, [gap_pot 0%Z]))] = inl ERuntime.
Definition tmecp_twocols_stmt : Prop :=
  tmecp_roundtrip "orbital" "n" tmecp_els0 [(11%Z, (10%Z, [mkEpot "scalar_ecp" [0%Z] [2%Z] ["1.0"] [["1.0"]; ["2.0"]]]))] = inl EIndex.
Definition tmecp_zerocols_stmt : Prop :=
  tmecp_roundtrip "orbital" "n" tmecp_els0 [(11%Z, (10%Z, [mkEpot "scalar_ecp" [0%Z] [2%Z] ["1.0"] []]))] = inl ERuntime.
Definition tmecp_twoam_stmt : Prop :=
  tmecp_roundtrip "orbital" "n" tmecp_els0 [(11%Z, (10%Z, [mkEpot "scalar_ecp" [0%Z; 1%Z] [2%Z] ["1.0"] [["1.0"]]]))] = inl ERuntime.
(* the same atomic number twice in the ECP view (not possible in a Python dict), atomic number 121, a number without point *)
Definition tmecp_dup_element_stmt : Prop :=
  tmecp_roundtrip "orbital" "n" tmecp_els0 [(11%Z, (10%Z, [gap_pot 0%Z])); (11%Z, (10%Z, [gap_pot 0%Z]))] = inl ERuntime.
Definition tmecp_z121_stmt : Prop := tmecp_write "orbital" "n" tmecp_els0 [(121%Z, (10%Z, [gap_pot 0%Z]))] = inl EKey.
Definition tmecp_nopoint_stmt : Prop :=
  tmecp_write "orbital" "n" tmecp_els0 [(11%Z, (10%Z, [mkEpot "scalar_ecp" [0%Z] [2%Z] ["1"] [["1.0"]]]))] = inl EValue.
(* the name: with an electron part it must not be blank (tm_name_ok; tm_roundtrip_noname_stmt), and that is all *)
Definition tmecp_noname_stmt : Prop := tmecp_roundtrip "orbital" "" tmecp_els0 (gap_ecp [0%Z]) = inl ERuntime.

(* ---------- a concrete instance from the store: LANL2DZ for H (electron shells only) and Na (electron shells and ECP) as
   write_turbomole sees it after its normalisation calls (general contractions split); txe_text is, byte for byte,
   basis_set_exchange.get_basis('lanl2dz', elements=[1, 11], fmt='turbomole', header=False) ---------- *)
Definition txe_1_0 : sshell := mkShell "gto" "valence" [(0)%Z] ["19.2384000"; "2.8987000"; "0.6535000"] [["0.0328280"; "0.2312040"; "0.8172260"]].
Definition txe_1_1 : sshell := mkShell "gto" "valence" [(0)%Z] ["0.1776000"] [["1.0000000"]].
Definition txe_11_0 : sshell := mkShell "gto" "valence" [(0)%Z] ["0.4972000"; "0.0560000"] [["-0.2753574"; "1.0989969"]].
Definition txe_11_1 : sshell := mkShell "gto" "valence" [(0)%Z] ["0.0221000"] [["1.0000000"]].
Definition txe_11_2 : sshell := mkShell "gto" "valence" [(1)%Z] ["0.6697000"; "0.0636000"] [["-0.0683845"; "1.0140550"]].
Definition txe_11_3 : sshell := mkShell "gto" "valence" [(1)%Z] ["0.0204000"] [["1.0000000"]].
Definition txe_pot_11_0 : epot := mkEpot "scalar_ecp" [(2)%Z] [(1)%Z; (2)%Z; (2)%Z; (2)%Z; (2)%Z] ["175.5502590"; "35.0516791"; "7.9060270"; "2.3365719"; "0.7799867"] [["-10.0000000"; "-47.4902024"; "-17.2283007"; "-6.0637782"; "-0.7299393"]].
Definition txe_pot_11_1 : epot := mkEpot "scalar_ecp" [(0)%Z] [(0)%Z; (1)%Z; (2)%Z; (2)%Z; (2)%Z] ["243.3605846"; "41.5764759"; "13.2649167"; "3.6797165"; "0.9764209"] [["3.0000000"; "36.2847626"; "72.9304880"; "23.8401151"; "6.0123861"]].
Definition txe_pot_11_2 : epot := mkEpot "scalar_ecp" [(1)%Z] [(0)%Z; (1)%Z; (2)%Z; (2)%Z; (2)%Z; (2)%Z] ["1257.2650682"; "189.6248810"; "54.5247759"; "13.7449955"; "3.6813579"; "0.9461106"] [["5.0000000"; "117.4495683"; "423.3986704"; "109.3247297"; "31.3701656"; "7.1241813"]].
Definition txe_els : list (Z * list sshell) := [(1%Z, [txe_1_0; txe_1_1]); (11%Z, [txe_11_0; txe_11_1; txe_11_2; txe_11_3])].
Definition txe_ecps : list (Z * (Z * list epot)) := [(11%Z, (10%Z, [txe_pot_11_0; txe_pot_11_1; txe_pot_11_2]))].

Definition txe_text : string :=
  String.concat nl1
   ["$basis";
    "*";
    "h LANL2DZ";
    "*";
    "    3   s";
    "     19.2384000              0.0328280";
    "      2.8987000              0.2312040";
    "      0.6535000              0.8172260";
    "    1   s";
    "      0.1776000              1.0000000";
    "*";
    "na LANL2DZ";
    "*";
    "    2   s";
    "      0.4972000             -0.2753574";
    "      0.0560000              1.0989969";
    "    1   s";
    "      0.0221000              1.0000000";
    "    2   p";
    "      0.6697000             -0.0683845";
    "      0.0636000              1.0140550";
    "    1   p";
    "      0.0204000              1.0000000";
    "*";
    "$ecp";
    "*";
    "na LANL2DZ-ecp";
    "*";
    "  ncore = 10   lmax = 2";
    "d";
    "     -10.0000000      1     175.5502590";
    "     -47.4902024      2      35.0516791";
    "     -17.2283007      2       7.9060270";
    "      -6.0637782      2       2.3365719";
    "      -0.7299393      2       0.7799867";
    "s-d";
    "       3.0000000      0     243.3605846";
    "      36.2847626      1      41.5764759";
    "      72.9304880      2      13.2649167";
    "      23.8401151      2       3.6797165";
    "       6.0123861      2       0.9764209";
    "p-d";
    "       5.0000000      0    1257.2650682";
    "     117.4495683      1     189.6248810";
    "     423.3986704      2      54.5247759";
    "     109.3247297      2      13.7449955";
    "      31.3701656      2       3.6813579";
    "       7.1241813      2       0.9461106";
    "*";
    "$end";
    ""].

(* what read_turbomole returns for txe_text: H with its shells only, Na with shells, 10 electrons and the three potentials
   in file order (d, s, p), every number unchanged (the electron shells lose their region) *)
Definition txe_unregion (s : sshell) : sshell := mkShell "gto" "" (am s) (exps s) (coefs s).
Definition txe_read : list (Z * nw_el) :=
  [(1%Z, mkNwEl (map txe_unregion [txe_1_0; txe_1_1]) None []);
   (11%Z, mkNwEl (map txe_unregion [txe_11_0; txe_11_1; txe_11_2; txe_11_3]) (Some 10%Z)
                 [txe_pot_11_0; txe_pot_11_1; txe_pot_11_2])].

Definition tmecp_example_stmt : Prop :=
  tmecp_ok "orbital" "LANL2DZ" txe_els txe_ecps /\
  tmecp_write "orbital" "LANL2DZ" txe_els txe_ecps = inr txe_text /\
  tmecp_expected txe_els txe_ecps = txe_read /\
  tmecp_roundtrip "orbital" "LANL2DZ" txe_els txe_ecps = inr txe_read.
