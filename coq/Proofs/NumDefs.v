(* Statement: the decimal-string carrier satisfies the hypotheses of the parametric theorems. *)
From BSE Require Import Model.Val Model.Num Gen.GenConsts Proofs.FSDefs.

Definition num_instance_stmt : Prop :=
  carrier_ok is0_s same_s String.eqb lit_make_general_zero lit_unc_seg_one lit_optimize_zero.
