(* Index generation (create_metadata) meets its declarative specification.  Proofs only; statements in IndexMetaDefs.v. *)
From BSE Require Import Model.Val Model.Elements Model.Compose Model.Index Gen.GenApi
  Proofs.ComposeDefs Proofs.ComposeSpec Proofs.IndexMetaDefs.
From Coq Require Import Sorted Permutation.

(* ====================================================================== *)
(* list / association-list helpers                                         *)
(* ====================================================================== *)
Lemma assoc_none_notin : forall V k (d : list (string * V)), assoc k d = None -> ~ In k (map fst d).
Proof.
  induction d as [|[k' v'] t IH]; cbn; intros H; [tauto|].
  destruct (String.eqb k k') eqn:E; [discriminate|]. apply String.eqb_neq in E.
  intros [Hk|Hk]; [congruence|]. exact (IH H Hk).
Qed.

Lemma NoDup_app_disjoint : forall A (l1 l2 : list A) x, NoDup (l1 ++ l2) -> In x l1 -> In x l2 -> False.
Proof.
  induction l1 as [|a l1 IH]; intros l2 x Hnd H1 H2; [destruct H1|].
  cbn in Hnd. inversion Hnd as [|? ? Hni Hnd']; subst. destruct H1 as [->|H1].
  - apply Hni. apply in_or_app. right; assumption.
  - eapply IH; eauto.
Qed.

Lemma NoDup_app_parts : forall A (l1 l2 : list A), NoDup (l1 ++ l2) -> NoDup l1 /\ NoDup l2.
Proof.
  induction l1 as [|a l1 IH]; intros l2 H; cbn in H; [split; [constructor|assumption]|].
  inversion H as [|? ? Hni Hnd]; subst. destruct (IH _ Hnd) as [H1 H2]. split; [|assumption].
  constructor; [|assumption]. intros Hin. apply Hni. apply in_or_app. left; assumption.
Qed.

Lemma NoDup_fst_inj : forall A B (l : list (A * B)) k v1 v2,
  NoDup (map fst l) -> In (k, v1) l -> In (k, v2) l -> v1 = v2.
Proof.
  induction l as [|[a b] l IH]; intros k v1 v2 Hnd H1 H2; [destruct H1|].
  cbn in Hnd. inversion Hnd as [|? ? Hni Hnd']; subst.
  destruct H1 as [H1|H1], H2 as [H2|H2].
  - congruence.
  - inversion H1; subst. exfalso. apply Hni. apply (in_map fst) in H2. exact H2.
  - inversion H2; subst. exfalso. apply Hni. apply (in_map fst) in H1. exact H1.
  - eapply IH; eauto.
Qed.

Lemma mapM_ok_map : forall A B (g : A -> B) l, mapM (fun a => ok (g a)) l = inr (map g l).
Proof. induction l as [|a l IH]; cbn; [reflexivity|]. rewrite IH. reflexivity. Qed.

Lemma StronglySorted_map : forall A B (R : B -> B -> Prop) (f : A -> B) l,
  StronglySorted (fun p q => R (f p) (f q)) l -> StronglySorted R (map f l).
Proof.
  induction 1 as [|a l Hs IH Hf]; cbn; constructor; [assumption|].
  apply Forall_forall. intros b Hb. apply in_map_iff in Hb. destruct Hb as (p & <- & Hp).
  rewrite Forall_forall in Hf. apply Hf; assumption.
Qed.

(* ====================================================================== *)
(* the string order                                                        *)
(* ====================================================================== *)
Lemma str_ltb_asym : forall a b, str_ltb a b = true -> str_ltb b a = false.
Proof.
  intros a b H. destruct (str_ltb b a) eqn:E; [|reflexivity].
  pose proof (str_ltb_trans _ _ _ H E) as Hc. rewrite str_ltb_irrefl in Hc. discriminate.
Qed.

(* x <= y, as "not y < x" *)
Definition key_le (a b : string) : Prop := str_ltb b a = false.

Lemma key_lt_le_trans : forall a b c, str_ltb a b = true -> key_le b c -> key_le a c.
Proof.
  unfold key_le. intros a b c Hab Hbc. destruct (str_ltb c a) eqn:E; [|reflexivity].
  rewrite (str_ltb_trans _ _ _ E Hab) in Hbc. discriminate.
Qed.

Lemma key_le_neq_lt : forall a b, key_le a b -> a <> b -> key_lt a b.
Proof.
  unfold key_le, key_lt. intros a b Hle Hne. destruct (str_ltb a b) eqn:E; [reflexivity|].
  exfalso. apply Hne. apply str_ltb_total; assumption.
Qed.

(* ====================================================================== *)
(* insert_kv / sort_items: permutation and sortedness                      *)
(* ====================================================================== *)
Lemma insert_kv_perm : forall V (x : string * V) l, Permutation (insert_kv x l) (x :: l).
Proof.
  induction l as [|y t IH]; cbn [insert_kv]; [apply Permutation_refl|].
  destruct (str_ltb (fst x) (fst y)); [apply Permutation_refl|].
  eapply perm_trans; [apply perm_skip; exact IH|apply perm_swap].
Qed.

Lemma fold_insert_kv_perm : forall V (l acc : list (string * V)),
  Permutation (fold_left (fun acc x => insert_kv x acc) l acc) (l ++ acc).
Proof.
  induction l as [|x l IH]; intros acc; cbn [fold_left app]; [apply Permutation_refl|].
  eapply perm_trans; [apply IH|].
  eapply perm_trans; [apply Permutation_app_head; apply insert_kv_perm|].
  apply Permutation_sym. apply Permutation_middle.
Qed.

Lemma sort_items_perm : forall V (l : list (string * V)), Permutation (sort_items l) l.
Proof.
  intros V l. unfold sort_items. eapply perm_trans; [apply fold_insert_kv_perm|]. rewrite app_nil_r. apply Permutation_refl.
Qed.

Definition pair_le {V} (p q : string * V) : Prop := key_le (fst p) (fst q).

Lemma insert_kv_sorted : forall V (x : string * V) l,
  StronglySorted pair_le l -> StronglySorted pair_le (insert_kv x l).
Proof.
  induction l as [|y t IH]; intros Hs; cbn [insert_kv].
  - constructor; constructor.
  - inversion Hs as [|? ? Hs' Hf]; subst.
    destruct (str_ltb (fst x) (fst y)) eqn:Exy.
    + constructor; [assumption|]. constructor.
      * unfold pair_le, key_le. apply str_ltb_asym; assumption.
      * eapply Forall_impl; [|exact Hf]. intros z Hz. unfold pair_le in *. eapply key_lt_le_trans; eauto.
    + constructor; [apply IH; assumption|].
      apply Forall_forall. intros z Hz.
      apply (Permutation_in _ (insert_kv_perm _ x t)) in Hz. destruct Hz as [<-|Hz].
      * exact Exy.
      * rewrite Forall_forall in Hf. apply Hf; assumption.
Qed.

Lemma sort_items_sorted_le : forall V (l : list (string * V)), StronglySorted pair_le (sort_items l).
Proof.
  intros V l. unfold sort_items.
  assert (G : forall acc, StronglySorted pair_le acc ->
                StronglySorted pair_le (fold_left (fun acc x => insert_kv x acc) l acc)).
  { induction l as [|x l IH]; intros acc Hacc; cbn [fold_left]; [assumption|]. apply IH. apply insert_kv_sorted; assumption. }
  apply G. constructor.
Qed.

Lemma sorted_le_nodup_lt : forall l, StronglySorted key_le l -> NoDup l -> StronglySorted key_lt l.
Proof.
  induction 1 as [|a l Hs IH Hf]; intros Hnd; [constructor|].
  inversion Hnd as [|? ? Hni Hnd']; subst. constructor; [apply IH; assumption|].
  apply Forall_forall. intros b Hb. rewrite Forall_forall in Hf.
  apply key_le_neq_lt; [apply Hf; assumption|]. intros ->. contradiction.
Qed.

Lemma sort_items_keys : forall V (l : list (string * V)),
  NoDup (map fst l) -> NoDup (map fst (sort_items l)) /\ keys_sorted (map fst (sort_items l)).
Proof.
  intros V l Hnd.
  assert (Hnd' : NoDup (map fst (sort_items l))).
  { eapply Permutation_NoDup; [|exact Hnd]. apply Permutation_map. apply Permutation_sym. apply sort_items_perm. }
  split; [exact Hnd'|]. unfold keys_sorted. apply sorted_le_nodup_lt; [|exact Hnd'].
  apply StronglySorted_map. exact (sort_items_sorted_le _ l).
Qed.

Lemma sort_items_In : forall V (l : list (string * V)) x, In x (sort_items l) <-> In x l.
Proof.
  intros V l x. split; intros H.
  - eapply Permutation_in; [apply sort_items_perm|exact H].
  - eapply Permutation_in; [apply Permutation_sym; apply sort_items_perm|exact H].
Qed.

(* ====================================================================== *)
(* (f) ver_max                                                             *)
(* ====================================================================== *)
Lemma ver_ltb_irrefl : forall a, ver_ltb a a = false.
Proof.
  intros a. unfold ver_ltb. destruct (isdecimal a); [apply Z.ltb_irrefl|apply str_ltb_irrefl].
Qed.

Lemma ver_ltb_trans : forall a b c, ver_ltb a b = true -> ver_ltb b c = true -> ver_ltb a c = true.
Proof.
  intros a b c. unfold ver_ltb.
  destruct (isdecimal a), (isdecimal b), (isdecimal c); try congruence.
  - intros H1 H2. apply Z.ltb_lt in H1, H2. apply Z.ltb_lt. lia.
  - apply str_ltb_trans.
Qed.

Lemma fold_ver_max : forall t x m,
  fold_left (fun m y => if ver_ltb m y then y else m) t x = m ->
  (forall z, ver_ltb x z = false -> ver_ltb m z = false) /\
  (m = x \/ In m t) /\
  (forall y, In y t -> ver_ltb m y = false).
Proof.
  induction t as [|y t IH]; intros x m H; cbn [fold_left] in H.
  - subst m. split; [auto|]. split; [left; reflexivity|]. intros y [].
  - destruct (IH _ _ H) as (Hmono & Hin & Hmax).
    destruct (ver_ltb x y) eqn:Exy.
    + split; [|split].
      * intros z Hz. apply Hmono. destruct (ver_ltb y z) eqn:Eyz; [|reflexivity].
        rewrite (ver_ltb_trans _ _ _ Exy Eyz) in Hz. discriminate.
      * right. destruct Hin as [->|Hin]; [left; reflexivity|right; assumption].
      * intros z [<-|Hz]; [apply Hmono; apply ver_ltb_irrefl|apply Hmax; assumption].
    + split; [|split].
      * exact Hmono.
      * destruct Hin as [->|Hin]; [left; reflexivity|right; right; assumption].
      * intros z [<-|Hz]; [apply Hmono; assumption|apply Hmax; assumption].
Qed.

Lemma ver_max_spec : ver_max_spec_stmt.
Proof.
  split; [|reflexivity].
  intros [|x t] m H; cbn [ver_max] in H; [discriminate|]. apply ok_inj in H.
  destruct (fold_ver_max _ _ _ H) as (Hmono & Hin & Hmax). split.
  - destruct Hin as [->|Hin]; [left; reflexivity|right; assumption].
  - intros z [<-|Hz]; [apply Hmono; apply ver_ltb_irrefl|apply Hmax; assumption].
Qed.

(* ====================================================================== *)
(* add_entries / collect_meta                                              *)
(* ====================================================================== *)
Lemma add_entries_inv : forall es acc acc', add_entries acc es = inr acc' ->
  acc' = acc ++ es /\ (NoDup (map fst acc) -> NoDup (map fst acc')).
Proof.
  induction es as [|[k v] t IH]; intros acc acc' H; cbn [add_entries] in H.
  - apply ok_inj in H; subst acc'. rewrite app_nil_r. auto.
  - destruct (assoc k acc) eqn:Ea; [discriminate|].
    destruct (IH _ _ H) as (-> & Hnd). split.
    + rewrite <- app_assoc. reflexivity.
    + intros Hacc. apply Hnd. rewrite map_app. cbn [map fst].
      eapply Permutation_NoDup; [apply Permutation_cons_append|].
      constructor; [apply assoc_none_notin; assumption|assumption].
Qed.

Definition file_entries (d : datadir) (f : string) (es : list (string * val)) : Prop := one_meta d f = inr es.

Lemma collect_meta_inv : forall d files acc m, collect_meta d files acc = inr m ->
  exists ess, Forall2 (file_entries d) files ess /\ m = acc ++ concat ess /\
              (NoDup (map fst acc) -> NoDup (map fst m)).
Proof.
  induction files as [|f t IH]; intros acc m H; cbn [collect_meta] in H.
  - apply ok_inj in H; subst m. exists []. split; [constructor|]. cbn. rewrite app_nil_r. auto.
  - inv_bind H. rename x into es, E into Hes. inv_bind H. rename x into acc', E into Hadd.
    destruct (add_entries_inv _ _ _ Hadd) as (-> & Hnd1).
    destruct (IH _ _ H) as (ess & HF & -> & Hnd2).
    exists (es :: ess). split; [constructor; assumption|]. split.
    + cbn [concat]. rewrite app_assoc. reflexivity.
    + intros Hacc. auto.
Qed.

Lemma create_metadata_inv : forall d m, create_metadata d = inr (VDict m) ->
  exists ess, Forall2 (file_entries d) (meta_files d) ess /\ m = sort_items (concat ess) /\
              NoDup (map fst (concat ess)).
Proof.
  intros d m H. unfold create_metadata in H. inv_bind H. apply ok_inj in H. inversion H; subst m.
  destruct (collect_meta_inv _ _ _ _ E) as (ess & HF & -> & Hnd). exists ess. cbn [app] in *.
  split; [assumption|]. split; [reflexivity|]. apply Hnd. constructor.
Qed.

Lemma F2_in_l : forall A B (R : A -> B -> Prop) l l' a,
  Forall2 R l l' -> In a l -> exists b, In b l' /\ R a b.
Proof.
  induction 1 as [|x y l l' Hxy HF IH]; intros Hin; [destruct Hin|].
  destruct Hin as [->|Hin]; [exists y; split; [left; reflexivity|assumption]|].
  destruct (IH Hin) as [b [Hb HR]]. exists b; split; [right|]; assumption.
Qed.

Lemma create_metadata_keys : create_metadata_keys_stmt.
Proof.
  intros d m H. destruct (create_metadata_inv _ _ H) as (ess & HF & -> & Hnd).
  apply sort_items_keys. exact Hnd.
Qed.

Lemma create_metadata_sound : create_metadata_sound_stmt.
Proof.
  intros d m k e H Hin. destruct (create_metadata_inv _ _ H) as (ess & HF & -> & Hnd).
  apply (proj1 (sort_items_In _ _ _)) in Hin. apply (proj1 (in_concat _ _)) in Hin. destruct Hin as (es & Hes & Hke).
  destruct (F2_in_r _ _ _ _ _ _ HF Hes) as (f & Hf & Hfe). exists f, es. auto.
Qed.

Lemma create_metadata_complete : create_metadata_complete_stmt.
Proof.
  intros d m H f Hf. destruct (create_metadata_inv _ _ H) as (ess & HF & -> & Hnd).
  destruct (F2_in_l _ _ _ _ _ _ HF Hf) as (es & Hes & Hfe). exists es. split; [exact Hfe|].
  intros k e Hke. apply sort_items_In. apply in_concat. exists es. auto.
Qed.

Lemma concat_key_unique : forall d files ess, Forall2 (file_entries d) files ess ->
  NoDup (map fst (concat ess)) ->
  forall f1 f2 es1 es2 k e1 e2,
    In f1 files -> In f2 files -> one_meta d f1 = inr es1 -> one_meta d f2 = inr es2 ->
    In (k, e1) es1 -> In (k, e2) es2 -> f1 = f2 /\ e1 = e2.
Proof.
  induction 1 as [|f es files ess Hfe HF IH]; intros Hnd f1 f2 es1 es2 k e1 e2 H1 H2 O1 O2 I1 I2; [destruct H1|].
  cbn [concat] in Hnd. rewrite map_app in Hnd. unfold file_entries in Hfe.
  assert (Hrest : forall f' es' e', In f' files -> one_meta d f' = inr es' -> In (k, e') es' ->
                                    In k (map fst (concat ess))).
  { intros f' es' e' Hf' Ho' Hi'. destruct (F2_in_l _ _ _ _ _ _ HF Hf') as (b & Hb & Hfb). unfold file_entries in Hfb.
    rewrite Ho' in Hfb. inversion Hfb; subst b. apply in_map_iff. exists (k, e'). split; [reflexivity|].
    apply in_concat. exists es'. auto. }
  destruct H1 as [<-|H1], H2 as [<-|H2].
  - split; [reflexivity|]. rewrite O1 in O2. inversion O2; subst es2.
    rewrite O1 in Hfe. inversion Hfe; subst es.
    eapply NoDup_fst_inj; [exact (proj1 (NoDup_app_parts _ _ _ Hnd))|exact I1|exact I2].
  - exfalso. rewrite O1 in Hfe. inversion Hfe; subst es.
    eapply NoDup_app_disjoint; [exact Hnd| |eapply Hrest; eauto].
    apply in_map_iff. exists (k, e1). auto.
  - exfalso. rewrite O2 in Hfe. inversion Hfe; subst es.
    eapply NoDup_app_disjoint; [exact Hnd| |eapply Hrest; eauto].
    apply in_map_iff. exists (k, e2). auto.
  - eapply IH; eauto. exact (proj2 (NoDup_app_parts _ _ _ Hnd)).
Qed.

Lemma create_metadata_key_unique : create_metadata_key_unique_stmt.
Proof.
  intros d m H. destruct (create_metadata_inv _ _ H) as (ess & HF & -> & Hnd).
  intros. eapply concat_key_unique; eauto.
Qed.

Lemma create_metadata_dict : create_metadata_dict_stmt.
Proof.
  intros d v H. unfold create_metadata in H. inv_bind H. apply ok_inj in H. subst v. eauto.
Qed.

(* ====================================================================== *)
(* fold_left assoc_set                                                     *)
(* ====================================================================== *)
Lemma assoc_set_In_inv : forall V k (v : V) d p, In p (assoc_set k v d) -> p = (k, v) \/ In p d.
Proof.
  induction d as [|[k' v'] t IH]; cbn [assoc_set]; intros p H.
  - destruct H as [<-|[]]. left; reflexivity.
  - destruct (String.eqb k k').
    + destruct H as [<-|H]; [left; reflexivity|right; right; assumption].
    + destruct H as [<-|H]; [right; left; reflexivity|]. destruct (IH _ H); [left; assumption|right; right; assumption].
Qed.

Lemma assoc_set_key_new : forall V k (v : V) d, In k (map fst (assoc_set k v d)).
Proof.
  induction d as [|[k' v'] t IH]; cbn [assoc_set]; [left; reflexivity|].
  destruct (String.eqb k k'); cbn [map fst In]; [left; reflexivity|right; exact IH].
Qed.

Lemma assoc_set_key_old : forall V k (v : V) d x, In x (map fst d) -> In x (map fst (assoc_set k v d)).
Proof.
  induction d as [|[k' v'] t IH]; cbn [assoc_set]; intros x H; [destruct H|].
  destruct (String.eqb k k') eqn:E; cbn [map fst In] in *.
  - apply String.eqb_eq in E; subst k'. exact H.
  - destruct H as [H|H]; [left; assumption|right; apply IH; assumption].
Qed.

Lemma assoc_set_nodup : forall V k (v : V) d, NoDup (map fst d) -> NoDup (map fst (assoc_set k v d)).
Proof.
  induction d as [|[k' v'] t IH]; cbn [assoc_set]; intros H.
  - cbn. constructor; [intros []|constructor].
  - cbn [map fst] in H. inversion H as [|? ? Hni Hnd]; subst.
    destruct (String.eqb k k') eqn:E; cbn [map fst].
    + apply String.eqb_eq in E; subst k'. constructor; assumption.
    + constructor; [|apply IH; assumption]. intros Hin. apply assoc_set_keys_in in Hin.
      destruct Hin as [->|Hin]; [rewrite String.eqb_refl in E; discriminate|contradiction].
Qed.

Section FoldAssocSet.
  Variables (X V : Type) (kf : X -> string) (vf : X -> V).
  Let step := fun (acc : list (string * V)) (v : X) => assoc_set (kf v) (vf v) acc.

  Lemma fold_assoc_set_In : forall vers acc p, In p (fold_left step vers acc) ->
    In p acc \/ exists v, In v vers /\ p = (kf v, vf v).
  Proof.
    induction vers as [|v vers IH]; intros acc p H; cbn [fold_left] in H; [left; assumption|].
    destruct (IH _ _ H) as [Hp|(w & Hw & Hp)].
    - unfold step in Hp. apply assoc_set_In_inv in Hp. destruct Hp as [->|Hp]; [|left; assumption].
      right. exists v. split; [left; reflexivity|reflexivity].
    - right. exists w. split; [right; assumption|assumption].
  Qed.

  Lemma fold_assoc_set_keys : forall vers acc k,
    In k (map fst acc) \/ (exists v, In v vers /\ kf v = k) -> In k (map fst (fold_left step vers acc)).
  Proof.
    induction vers as [|v vers IH]; intros acc k H; cbn [fold_left].
    - destruct H as [H|(w & [] & _)]. assumption.
    - apply IH. destruct H as [H|(w & [<-|Hw] & Hk)].
      + left. unfold step. apply assoc_set_key_old; assumption.
      + left. subst k. unfold step. apply assoc_set_key_new.
      + right. exists w. auto.
  Qed.

  Lemma fold_assoc_set_nodup : forall vers acc, NoDup (map fst acc) -> NoDup (map fst (fold_left step vers acc)).
  Proof.
    induction vers as [|v vers IH]; intros acc H; cbn [fold_left]; [assumption|].
    apply IH. unfold step. apply assoc_set_nodup; assumption.
  Qed.
End FoldAssocSet.

(* ====================================================================== *)
(* one_meta                                                                *)
(* ====================================================================== *)
Definition ver_row (d : datadir) (tf : string) : res (string * val * val * val) :=
  match split_on "." (basename tf) with
  | [_; ver; _; _] =>
    do bs <- compose_table_basis d tf;
    do els <- (do e <- vfield "elements" bs; vdict e);
    do defined <- sort_keys_int (map fst els);
    do ft <- vfield "function_types" bs;
    do rd <- vfield "revision_description" bs;
    do rdate <- vfield "revision_date" bs;
    ok (ver, ft, bs, VDict [("file_relpath", VStr tf); ("revdesc", rd); ("revdate", rdate); ("elements", VStrs defined)])
  | _ => fail EValue
  end.

Definition these_of (d : datadir) (f : string) : list string :=
  filter (fun x => andb (String.eqb (dirname x) (dirname f)) (str_prefix (meta_stem f +++ ".") (basename x)))
         (table_files d).

Definition vinfo_of (vers : list (string * val * val * val)) : list (string * val) :=
  sort_items (fold_left (fun acc v => assoc_set (fst (fst (fst v))) (snd v) acc) vers []).

Definition entry_of (f : string) (names : list string) (description : val) (latest : string)
  (tags family role ft0 aux : val) (vi : list (string * val)) (nm : string) : string * val :=
  (transform_basis_name nm,
   VDict [("display_name", VStr nm);
          ("other_names", VStrs (remove_first nm names));
          ("description", description); ("latest_version", VStr latest); ("tags", tags);
          ("basename", VStr (meta_stem f));
          ("relpath", VStr (dirname f)); ("family", family); ("role", role);
          ("function_types", ft0); ("auxiliaries", aux); ("versions", VDict vi)]).

Lemma one_meta_inv : forall d f es, one_meta d f = inr es ->
  exists md vers names description latest tags family role ft0 aux,
    read_json_basis d f = inr md /\
    mapM (ver_row d) (these_of d f) = inr vers /\
    ver_max (map fst (vinfo_of vers)) = inr latest /\
    vfield "names" md = inr (VStrs names) /\
    es = map (entry_of f names description latest tags family role ft0 aux (vinfo_of vers)) names.
Proof.
  intros d f es H. unfold one_meta in H.
  inv_bind H. rename x into md, E into Hmd. cbv zeta in H.
  inv_bind H. rename x into vers, E into Hvers.
  change (mapM (ver_row d) (these_of d f) = inr vers) in Hvers.
  destruct vers as [|[[[v0 ft0] bs0] info0] rest] eqn:Evers; [discriminate|]. rewrite <- Evers in *.
  match type of H with context [forallb ?p ?l] => destruct (forallb p l) end; [|discriminate].
  inv_bind H. rename x into latest, E into Hlatest.
  inv_bind H. rename x into description. inv_bind H. rename x into tags. inv_bind H. rename x into family.
  inv_bind H. rename x into role. inv_bind H. rename x into aux. inv_bind H. rename x into names, E4 into Hnames.
  exists md, vers, names, description, latest, tags, family, role, ft0, aux.
  split; [exact Hmd|]. split; [exact Hvers|]. split; [exact Hlatest|]. split.
  - inv_bind Hnames. rename x into n, E4 into Hn. inv_bind Hnames. rename x into l, E4 into Hl.
    apply vlist_inr in Hl; subst n. apply mapM_vstr in Hnames; subst l. exact Hn.
  - rewrite mapM_ok_map in H. inversion H. reflexivity.
Qed.

Lemma ver_row_inv : forall d tf ver ft bs info, ver_row d tf = inr (ver, ft, bs, info) ->
  (exists a b c, split_on "." (basename tf) = [a; ver; b; c]) /\
  vfield "file_relpath" info = inr (VStr tf).
Proof.
  intros d tf ver ft bs info H. unfold ver_row in H.
  destruct (split_on "." (basename tf)) as [|a [|v [|b [|c [|x r]]]]]; try discriminate.
  do 6 inv_bind H. inversion H; subst. split; [eauto|reflexivity].
Qed.

Lemma vinfo_of_keys : forall vers, NoDup (map fst (vinfo_of vers)) /\ keys_sorted (map fst (vinfo_of vers)).
Proof.
  intros vers. unfold vinfo_of. apply sort_items_keys.
  apply (fold_assoc_set_nodup _ _ (fun v : string * val * val * val => fst (fst (fst v))) (fun v => snd v)).
  constructor.
Qed.

Lemma these_of_In : forall d f tf, In tf (these_of d f) <->
  In tf (table_files d) /\ dirname tf = dirname f /\ str_prefix (meta_stem f +++ ".") (basename tf) = true.
Proof.
  intros d f tf. unfold these_of. rewrite filter_In, andb_true_iff, String.eqb_eq. tauto.
Qed.

Lemma vinfo_of_sound : forall d f vers ver info,
  mapM (ver_row d) (these_of d f) = inr vers -> In (ver, info) (vinfo_of vers) ->
  exists tf, vfield "file_relpath" info = inr (VStr tf) /\ version_table d f tf ver.
Proof.
  intros d f vers ver info Hvers Hin. unfold vinfo_of in Hin.
  apply (proj1 (sort_items_In _ _ _)) in Hin.
  apply (fold_assoc_set_In _ _ (fun v : string * val * val * val => fst (fst (fst v))) (fun v => snd v)) in Hin.
  destruct Hin as [[]|(v & Hv & Hp)].
  destruct (mapM_in_out _ _ _ _ _ _ Hvers Hv) as (tf & Htf & Hrow).
  destruct v as [[[ver' ft] bs] info']. cbn [fst snd] in Hp. inversion Hp; subst ver' info'.
  destruct (ver_row_inv _ _ _ _ _ _ Hrow) as (Hsplit & Hrel).
  exists tf. split; [exact Hrel|]. apply these_of_In in Htf. destruct Htf as (H1 & H2 & H3).
  unfold version_table. auto.
Qed.

Lemma vinfo_of_complete : forall d f vers tf ver,
  mapM (ver_row d) (these_of d f) = inr vers -> version_table d f tf ver -> In ver (map fst (vinfo_of vers)).
Proof.
  intros d f vers tf ver Hvers (H1 & H2 & H3 & a & b & c & Hsplit).
  assert (Htf : In tf (these_of d f)) by (apply these_of_In; auto).
  destruct (mapM_ok_each _ _ _ _ _ _ Hvers Htf) as (v & Hrow & Hv).
  destruct v as [[[ver' ft] bs] info'].
  destruct (ver_row_inv _ _ _ _ _ _ Hrow) as ((a' & b' & c' & Hsplit') & _).
  rewrite Hsplit in Hsplit'. inversion Hsplit'; subst ver'.
  assert (Hk : In ver (map fst (fold_left (fun acc v => assoc_set (fst (fst (fst v))) (snd v) acc) vers []))).
  { apply (fold_assoc_set_keys _ _ (fun v : string * val * val * val => fst (fst (fst v))) (fun v => snd v)).
    right. exists (ver, ft, bs, info'). split; [exact Hv|reflexivity]. }
  apply in_map_iff in Hk. destruct Hk as (p & Hp & Hin). apply in_map_iff. exists p. split; [exact Hp|].
  unfold vinfo_of. apply sort_items_In. exact Hin.
Qed.

Lemma one_meta_entry : one_meta_entry_stmt.
Proof.
  intros d f es k e H Hin.
  destruct (one_meta_inv _ _ _ H) as (md & vers & names & description & latest & tags & family & role & ft0 & aux &
                                    Hmd & Hvers & Hlatest & Hnames & ->).
  apply in_map_iff in Hin. destruct Hin as (nm & Hnm & Hin). unfold entry_of in Hnm. inversion Hnm; subst k e.
  destruct (vinfo_of_keys vers) as (Hnd & Hsorted).
  exists md, names, nm, latest, (vinfo_of vers).
  split; [exact Hmd|]. split; [exact Hnames|]. split; [exact Hin|]. split; [reflexivity|].
  split; [reflexivity|]. split; [reflexivity|]. split; [reflexivity|]. split; [reflexivity|].
  split; [reflexivity|]. split; [reflexivity|]. split; [exact Hlatest|]. split; [exact Hnd|]. split; [exact Hsorted|].
  split.
  - intros ver info Hvi. eapply vinfo_of_sound; eauto.
  - intros tf ver Hvt. eapply vinfo_of_complete; eauto.
Qed.

Lemma one_meta_names : one_meta_names_stmt.
Proof.
  intros d f es H.
  destruct (one_meta_inv _ _ _ H) as (md & vers & names & description & latest & tags & family & role & ft0 & aux &
                                    Hmd & Hvers & Hlatest & Hnames & ->).
  exists md, names. split; [exact Hmd|]. split; [exact Hnames|]. rewrite map_map. reflexivity.
Qed.

Lemma one_meta_aliases : one_meta_aliases_stmt.
Proof.
  intros d f es k1 e1 k2 e2 fld H H1 H2 Hfld.
  destruct (one_meta_inv _ _ _ H) as (md & vers & names & description & latest & tags & family & role & ft0 & aux &
                                    Hmd & Hvers & Hlatest & Hnames & ->).
  apply in_map_iff in H1, H2. destruct H1 as (n1 & Hn1 & _), H2 as (n2 & Hn2 & _).
  unfold entry_of in Hn1, Hn2. inversion Hn1; subst k1 e1. inversion Hn2; subst k2 e2.
  unfold shared_fields in Hfld. cbn [In] in Hfld.
  repeat (destruct Hfld as [<-|Hfld]; [eexists; split; reflexivity|]). destruct Hfld.
Qed.

Print Assumptions create_metadata_keys.
Print Assumptions create_metadata_sound.
Print Assumptions create_metadata_complete.
Print Assumptions create_metadata_key_unique.
Print Assumptions create_metadata_dict.
Print Assumptions one_meta_entry.
Print Assumptions one_meta_names.
Print Assumptions one_meta_aliases.
Print Assumptions ver_max_spec.
