(* Statements for C03 (layer a) and C04: what write_matrix prints can be tokenised back, digit for digit. Definitions only. *)
From BSE Require Import Model.Val Model.Manip Model.Text Model.Matrix.

Definition cell_ok (c : cell) : Prop :=
  match c with
  | CInt _ => True
  | CStr s => s <> "" /\ sany is_space s = false /\ sany (Ascii.eqb ".") s = true
  end.
Definition rectangular (mat : list (list cell)) (n : nat) : Prop := mat <> [] /\ Forall (fun col => List.length col = n) mat.

(* is_floating strings are printable cells: non-empty, without white space, with a decimal point *)
Definition floating_is_cell_stmt : Prop := forall s, is_floating s = true -> cell_ok (CStr s).

(* every cell of a row comes out as exactly one white-space delimited token, in order, and there are no other tokens *)
Definition write_row_tokens_stmt : Prop :=
  forall cells pps line, Forall cell_ok cells -> List.length cells <= List.length pps ->
    write_row cells pps true "" = inr line -> tokens_acc line "" = map cell_str cells.

(* the whole matrix: one line per primitive, the tokens of line i are row i of the matrix (columns in order) *)
Definition write_matrix_tokens_stmt : Prop :=
  forall mat pps n text, rectangular mat n -> Forall (Forall cell_ok) mat -> List.length mat <= List.length pps ->
    write_matrix mat pps false = inr text ->
    map (fun l => tokens_acc l "") (splitlines text) = map (map cell_str) (transpose_cells mat).
Definition write_matrix_total_stmt : Prop :=
  forall mat pps n conv, rectangular mat n -> Forall (Forall cell_ok) mat -> List.length mat <= List.length pps ->
    exists text, write_matrix mat pps conv = inr text.

(* the reader's numeric-table parser recovers every digit of what the writer's matrix printer wrote; only the exponent
   marker is normalised (e/E -> D by the writer when asked, d/D -> e/E by the reader) *)
Definition norm (conv : bool) (s : string) : string := replace_d (if conv then d_convert s else s).
Definition matrix_roundtrip_stmt : Prop :=
  forall exps coefs pps conv text n,
    n <> 0 -> List.length exps = n -> coefs <> [] -> Forall (fun c => List.length c = n) coefs ->
    Forall (fun s => is_floating s = true) exps -> Forall (Forall (fun s => is_floating s = true)) coefs ->
    S (List.length coefs) <= List.length pps ->
    write_matrix (map CStr exps :: map (map CStr) coefs) pps conv = inr text ->
    parse_primitive_matrix (splitlines text) = inr (map (norm conv) exps, map (map (norm conv)) coefs).
(* the normalisation changes nothing but the exponent marker: every digit, sign and decimal point stays where it is *)
Fixpoint nth_char (n : nat) (s : string) : option ascii :=
  match s with EmptyString => None | String c t => match n with O => Some c | S k => nth_char k t end end.
Definition norm_keeps_digits_stmt : Prop :=
  forall conv s, String.length (norm conv s) = String.length s /\
    forall i c, nth_char i s = Some c ->
      (is_digit c = true \/ Ascii.eqb c "." = true \/ Ascii.eqb c "-" = true \/ Ascii.eqb c "+" = true) ->
      nth_char i (norm conv s) = Some c.
