(* Statements for C19: comparison and difference tools agree with exact equality of the data. Definitions only. *)
From Coq Require Import Sorting.Permutation.
From BSE Require Import Model.Val Model.Num Model.Basis Model.Manip Model.Sort Model.Memo Model.Compose Model.Validator Model.Compare.

Definition parses (s : string) : Prop := exists x, parse_num s = Some x.

(* zero tolerance: a vector comparison is True exactly when the lengths agree and the entries are pairwise equal BY SIGNED
   VALUE (same_s = exact decimal equality) *)
Definition compare_vector_zero_tol_stmt : Prop :=
  forall a b, Forall parses a -> Forall parses b ->
    (compare_vector 0 1 a b = inr true <-> Forall2 (fun x y => same_s x y = true) a b).
Definition compare_vector_total_stmt : Prop :=
  forall tn td a b, Forall parses a -> Forall parses b -> exists r, compare_vector tn td a b = inr r.
(* in particular a sign flip of a non-zero entry is a difference *)
Definition sign_flip_differs_stmt : Prop :=
  forall pre post x, parses x -> is0_s x = false -> Forall parses pre -> Forall parses post ->
    compare_vector 0 1 (pre ++ x :: post) (pre ++ (String "-" x) :: post) = inr false \/
    ~ parses (String "-" x).

(* with a tolerance tn/td >= 0: True exactly when every pair of entries is equal, or both are non-zero and
   |a - b| <= (tn/td) * min(|a|, |b|) *)
Definition within (tn td : Z) (x y : string) : Prop :=
  exists a b, parse_num x = Some a /\ parse_num y = Some b /\
    let '(A, B) := common a b in
    A = B \/ (A <> 0 /\ B <> 0 /\ Z.abs (A - B) * td <= tn * Z.min (Z.abs A) (Z.abs B))%Z.
Definition compare_vector_tol_stmt : Prop :=
  forall tn td a b, (0 <= tn)%Z -> (0 < td)%Z -> Forall parses a -> Forall parses b ->
    (compare_vector tn td a b = inr true <-> Forall2 (within tn td) a b).

(* shells: same momenta and, after the canonical sort, the same table of (exponent, coefficients...) rows by signed value *)
Definition shell_ok (s : cshellT) : Prop :=
  Forall parses (exps (fst s)) /\ Forall (Forall parses) (coefs (fst s)) /\
  Forall (fun c => List.length c = List.length (exps (fst s))) (coefs (fst s)).
Definition rows_equal (r1 r2 : list (list string)) : Prop := Forall2 (Forall2 (fun x y => same_s x y = true)) r1 r2.
Definition compare_shells_zero_tol_stmt : Prop :=
  forall s1 s2, shell_ok s1 -> shell_ok s2 ->
    (compare_electron_shells 0 1 false s1 s2 = inr true <->
     am (fst s1) = am (fst s2) /\ rows_equal (shell_rows (sorted_of s1)) (shell_rows (sorted_of s2))).

(* the generic subset / equality machinery, for any total comparison *)
Definition is_subset_spec_stmt : Prop :=
  forall (A : Type) (cmp : A -> A -> res bool) (sub sup : list A),
    (forall x y, exists r, cmp x y = inr r) ->
    (is_subset cmp sub sup = inr true <-> forall x, In x sub -> exists y, In y sup /\ cmp x y = inr true).
(* with an equivalence that holds no two equivalent members in either list, mutual subset + equal length is a bijection *)
Definition shells_equal_perm_stmt : Prop :=
  forall (A : Type) (cmp : A -> A -> res bool) (a b : list A),
    (forall x y, exists r, cmp x y = inr r) ->
    (forall x, cmp x x = inr true) ->
    (forall x y, cmp x y = inr true -> cmp y x = inr true) ->
    (forall x y z, cmp x y = inr true -> cmp y z = inr true -> cmp x z = inr true) ->
    (forall i j x y, nth_error a i = Some x -> nth_error a j = Some y -> i <> j -> cmp x y = inr false) ->
    (forall i j x y, nth_error b i = Some x -> nth_error b j = Some y -> i <> j -> cmp x y = inr false) ->
    ((List.length a = List.length b /\ is_subset cmp a b = inr true /\ is_subset cmp b a = inr true) <->
     exists b', Permutation b b' /\ Forall2 (fun x y => cmp x y = inr true) a b').

(* subtract: exactly the left shells that no right shell equals, in order *)
Definition subtract_spec_stmt : Prop :=
  forall s1 s2 out, subtract_electron_shells s1 s2 = inr out ->
    forall x, In x out <-> (In x s1 /\ forall y, In y s2 -> compare_electron_shells 0 1 false x y = inr false).
Definition subtract_sublist_stmt : Prop :=
  forall s1 s2 out, subtract_electron_shells s1 s2 = inr out ->
    exists keep : list bool, List.length keep = List.length s1 /\
      out = map fst (filter (fun p => snd p) (combine s1 keep)).
