(* Proofs of the statements of Proofs/GamessUsEcpDefs.v (ECP part and whole file of the GAMESS-US writer / reader pair):
   the whole file written by write_gamess_us is read back by read_gamess_us exactly as gus_all_expected says
   (gus_all_roundtrip, gus_all_roundtrip_parts), the writer is total and loses no number (gus_all_write_total,
   gus_all_no_number_lost); then the findings, the counterexamples and the store instance, by computation. *)
From BSE Require Import Model.Val Model.Text Model.Num Model.Basis Model.Manip Model.Matrix Gen.GenLut Model.Lut Model.Elements
                        Model.Nwchem Model.NwchemEcp Model.G94 Model.GamessUs Model.GamessUsEcp
                        Proofs.MatrixDefs Proofs.NwchemDefs Proofs.NwchemEcpDefs Proofs.G94Defs Proofs.GamessUsDefs
                        Proofs.GamessUsEcpDefs Proofs.C20Finite.
From Coq Require Import NArith Nnat Znat Lia Permutation.
From BSE Require Import Proofs.HeaderSpec Proofs.PruneFS Proofs.MatrixSpec Proofs.NwchemSpec Proofs.NwchemEcpSpec
                        Proofs.TurbomoleSpec Proofs.TurbomoleEcpSpec Proofs.G94Spec Proofs.G94EcpSpec Proofs.GamessUsSpec.

(* ================================================================== *)
(* 1. finite facts: the letters of the potentials                      *)
(* ================================================================== *)
(* the letter of the potential itself: lut.amint_to_char(am, hij=False), read back by amchar_to_int(hij=False) *)
Definition pletter (l : Z) : ascii :=
  match amint_to_char [l] false false with inr (String c EmptyString) => c | _ => "?"%char end.
(* the letter of the highest momentum: lut.amint_to_char([max_ecp_am], hij=True); the reader does not use it *)
Definition mletter (l : Z) : ascii :=
  match amint_to_char [l] true false with inr (String c EmptyString) => c | _ => "?"%char end.

Lemma pletter_facts : forall l, (0 <= l < 25)%Z ->
  amint_to_char [l] false false = inr (String (pletter l) "") /\ is_alpha (pletter l) = true /\
  amchar_to_int (String (pletter l) "") false = inr [l] /\
  amint_to_char [l] true false = inr (String (mletter l) "") /\ is_alpha (mletter l) = true.
Proof.
  intros l Hl. assert (Hin : In l (zrange 0 25)) by (apply zrange_In; lia). revert Hin. clear Hl.
  cbn [zrange Z.add]. cbn [In]. intros H.
  repeat (destruct H as [H|H]; [subst l; vm_compute; repeat split; reflexivity|]). destruct H.
Qed.

(* a one-digit r exponent *)
Lemma digit_string : forall x, (0 <= x <= 9)%Z ->
  exists d, Z_to_string x = String d "" /\ is_digit d = true /\ digits_val (String d "") 0 = x.
Proof.
  intros x Hx. assert (H : (x = 0 \/ x = 1 \/ x = 2 \/ x = 3 \/ x = 4 \/ x = 5 \/ x = 6 \/ x = 7 \/ x = 8 \/ x = 9)%Z) by lia.
  repeat (destruct H as [H|H]; [subst x; eexists; repeat split; reflexivity|]). subst x. eexists; repeat split; reflexivity.
Qed.

(* ================================================================== *)
(* 2. well-formedness: what it gives; the order of the potentials       *)
(* ================================================================== *)
Definition gpc (p : epot) : list string := hd [] (p_coef p).

Lemma gus_pot_parts : forall p, gus_pot_ok p ->
  p_am p = [pot_l p] /\ (0 <= pot_l p < 25)%Z /\ Forall (fun r => (0 <= r <= 9)%Z) (p_rexp p) /\
  List.length (p_gexp p) = List.length (p_rexp p) /\ p_coef p = [gpc p] /\ List.length (gpc p) = List.length (p_rexp p) /\
  Forall floating (gpc p) /\ Forall (fun x => parse_num x <> None) (gpc p) /\ Forall floating (p_gexp p).
Proof.
  intros p [[l [Ea Hl]] [Hr [Hg [[c [Ec [Hc [Fc Pc]]]] Fg]]]]. unfold pot_l, gpc. rewrite Ea, Ec. cbn [hd].
  repeat split; try assumption; lia.
Qed.

Lemma gus_order_ok : forall pots, pots <> [] ->
  ecp_order pots = inr (ecp_written_order pots) /\ Permutation pots (ecp_written_order pots).
Proof.
  intros pots Hne. pose proof (sorted_perm pots) as Hperm.
  unfold ecp_written_order, ecp_order, ecp_rotate. destruct (rev (ecp_sorted pots)) as [|x r] eqn:Er.
  - exfalso. apply Hne. apply Permutation_sym in Hperm. apply Permutation_nil.
    assert (E : ecp_sorted pots = []) by (rewrite <- (rev_involutive (ecp_sorted pots)), Er; reflexivity).
    rewrite E in Hperm. exact Hperm.
  - assert (Es : ecp_sorted pots = rev r ++ [x]) by (rewrite <- (rev_involutive (ecp_sorted pots)), Er; reflexivity).
    rewrite Es in Hperm. split; [reflexivity|]. unfold ok.
    eapply Permutation_trans; [exact Hperm|]. apply Permutation_sym, Permutation_cons_append.
Qed.

Lemma gus_max_am_ok : forall pots, pots <> [] -> Forall gus_pot_ok pots ->
  ecp_max_am pots = inr (zmax (map pot_l pots)) /\ (0 <= zmax (map pot_l pots) < 25)%Z.
Proof.
  intros pots Hne Hok. split.
  - unfold ecp_max_am. rewrite (mapM_map_ok _ _ am_first pot_l pots).
    + unfold bind. destruct pots; [congruence | reflexivity].
    + intros p Hp. rewrite Forall_forall in Hok. destruct (gus_pot_parts p (Hok p Hp)) as [Ea _].
      unfold am_first. rewrite Ea. reflexivity.
  - assert (Hls : map pot_l pots <> []) by (destruct pots; [congruence | discriminate]).
    destruct (zmax_facts (map pot_l pots) Hls) as [Zin _]. apply in_map_iff in Zin. destruct Zin as [p [<- Hp]].
    rewrite Forall_forall in Hok. apply (gus_pot_parts p (Hok p Hp)).
Qed.

Lemma gus_el_parts : forall e, gus_ecp_el_ok e ->
  (1 <= fst e <= 120)%Z /\ (0 <= fst (snd e))%Z /\ snd (snd e) <> [] /\ Forall gus_pot_ok (snd (snd e)) /\
  Forall gus_pot_ok (ecp_written_order (snd (snd e))).
Proof.
  intros [z [n pots]] [Hz [Hn [Hne Hok]]]. cbn [fst snd]. repeat split; try assumption; try lia.
  destruct (gus_order_ok pots Hne) as [_ P]. apply (Permutation_Forall P), Hok.
Qed.

(* ================================================================== *)
(* 3. the lines the writer prints                                      *)
(* ================================================================== *)
Definition gptrip (p : epot) : list (Z * string * string) := trip (p_rexp p) (p_gexp p) (gpc p).
Definition gerow (t : Z * string * string) : string :=
  match write_row (tcellrow t) gus_ecp_point_places true "" with inr l => l | inl _ => "" end.
Definition gerows (p : epot) : list string := map gerow (gptrip p).
Definition gtk (mx : Z) (p : epot) : string :=
  String (pletter (pot_l p)) (String "-" (if Z.eqb (pot_l p) mx then "ul" else String (mletter mx) "")).
Definition gtitle (mx : Z) (p : epot) : string :=
  pad5 (nat_str (List.length (p_rexp p))) +++
  String " " ("-----" +++ String " " (gtk mx p +++ String " " ("potential" +++ String " " "-----"))).
Definition gpot_lines (mx : Z) (p : epot) : list string := gtitle mx p :: gerows p.
Definition gehdr (z n mx : Z) : string := usym z +++ "-ECP GEN    " +++ Z_to_string n +++ "    " +++ Z_to_string mx.
Definition gecp_el_lines (e : Z * (Z * list epot)) : list string :=
  gehdr (fst e) (fst (snd e)) (el_mx e) :: flat_map (gpot_lines (el_mx e)) (ecp_written_order (snd (snd e))).
(* the ECP part of the file, behind the `$END` of the electron part (which has no newline of its own) *)
Definition gecp_tail (ecps : list (Z * (Z * list epot))) : list string :=
  "" :: "$ECP" :: flat_map gecp_el_lines ecps ++ ["$END"].
Definition gall_lines (els : list (Z * list sshell)) (ecps : list (Z * (Z * list epot))) : list string :=
  match els, ecps with
  | [], [] => []
  | _, [] => glines els
  | [], _ => "" :: gecp_tail ecps
  | _, _ => glines els ++ gecp_tail ecps
  end.

Lemma gerow_facts : forall t, trip_ok t ->
  write_row (tcellrow t) gus_ecp_point_places true "" = inr (gerow t) /\ good_line (gerow t) /\
  tokens_acc (gerow t) "" = ttokrow t.
Proof.
  intros t Ht. destruct (tcellrow_ok t Ht) as [Hok Hasc].
  destruct (write_row_total (tcellrow t) gus_ecp_point_places true "" Hok) as [line Hl].
  { destruct t as [[x y] z]. cbn. lia. }
  unfold gerow. rewrite Hl. split; [reflexivity|]. split.
  - apply (write_row_chars nobd eq_refl (tcellrow t) gus_ecp_point_places true "" line); [|reflexivity|exact Hl].
    rewrite Forall_forall in *. intros c Hc. apply cell_nobd; [apply Hok | apply Hasc]; exact Hc.
  - rewrite (write_row_tokens_gen _ _ _ _ _ Hok (fun _ => eq_refl) Hl). destruct t as [[x y] z]. reflexivity.
Qed.

Lemma gptrip_ok : forall p, gus_pot_ok p -> Forall trip_ok (gptrip p).
Proof.
  intros p Hp. destruct (gus_pot_parts p Hp) as [_ [_ [_ [_ [_ [_ [Fc [_ Fg]]]]]]]]. apply trip_all_ok; assumption.
Qed.

Lemma gus_ecp_cols_eq : forall p, gus_pot_ok p ->
  gus_ecp_cols p = [map CStr (gpc p); map CInt (p_rexp p); map CStr (p_gexp p)].
Proof. intros p Hp. destruct (gus_pot_parts p Hp) as [_ [_ [_ [_ [Ec _]]]]]. unfold gus_ecp_cols. rewrite Ec. reflexivity. Qed.

Lemma write_matrix_gus_ecp : forall p, gus_pot_ok p ->
  leftpad_check (gus_ecp_cols p) gus_ecp_point_places = inr tt /\
  write_matrix (gus_ecp_cols p) gus_ecp_point_places false = inr (unlines (gerows p)).
Proof.
  intros p Hp. pose proof (gptrip_ok p Hp) as Ht. rewrite (gus_ecp_cols_eq p Hp).
  destruct (gus_pot_parts p Hp) as [_ [_ [_ [_ [_ [_ [Fc [_ Fg]]]]]]]]. unfold floating in *. split.
  - unfold gus_ecp_point_places. cbn [leftpad_check].
    destruct (mapM_find_point (map CStr (gpc p))) as [l1 ->]; [apply floats_cells, Fc|].
    destruct (mapM_find_point (map CInt (p_rexp p))) as [l2 ->].
    { rewrite Forall_forall. intros c Hc. apply in_map_iff in Hc. destruct Hc as [x [<- _]]. exact I. }
    destruct (mapM_find_point (map CStr (p_gexp p))) as [l3 ->]; [apply floats_cells, Fg|].
    reflexivity.
  - unfold write_matrix, transpose_cells. rewrite transpose_ttrip. fold (gptrip p).
    rewrite (mapM_map_ok2 _ _ _ (fun row => write_row row gus_ecp_point_places true "") tcellrow gerow (gptrip p)).
    + reflexivity.
    + intros t Hin. rewrite Forall_forall in Ht. apply (gerow_facts t (Ht t Hin)).
Qed.

Lemma write_pot_lines_gus : forall mx p, gus_pot_ok p ->
  gus_write_pot mx (String (mletter mx) "") p = inr (unlines (gpot_lines mx p)).
Proof.
  intros mx p Hp. destruct (write_matrix_gus_ecp p Hp) as [Hl Hw]. destruct (gus_pot_parts p Hp) as [Ea [Hr _]].
  destruct (pletter_facts (pot_l p) Hr) as [E _].
  unfold gus_write_pot, am_first. rewrite Ea, E, Hl, Hw. unfold bind, ok.
  unfold gpot_lines, gtitle, gtk. rewrite unlines_cons. destruct (Z.eqb (pot_l p) mx); rewrite !sapp_assoc; reflexivity.
Qed.

Lemma write_ecp_element_lines_gus : forall e, gus_ecp_el_ok e -> gus_write_ecp_element e = inr (unlines (gecp_el_lines e)).
Proof.
  intros e He. destruct (gus_el_parts e He) as [Hz [Hn [Hne [Hok Hoo]]]]. destruct e as [z [n pots]]. cbn [fst snd] in *.
  destruct (usym_facts z Hz) as [Es _]. destruct (gus_order_ok pots Hne) as [Eo _].
  destruct (gus_max_am_ok pots Hne Hok) as [Em Hm]. destruct (pletter_facts _ Hm) as [_ [_ [_ [Emx _]]]].
  unfold gus_write_ecp_element. rewrite Es. unfold bind at 1. rewrite Em. unfold bind at 1. rewrite Emx. unfold bind at 1.
  rewrite Eo. unfold bind at 1.
  rewrite (mapM_map_ok _ _ _ (fun p => unlines (gpot_lines (zmax (map pot_l pots)) p))).
  - unfold bind, ok, gecp_el_lines, el_mx, gehdr, usym. cbn [fst snd]. rewrite Es.
    rewrite unlines_cons, unlines_flat_map, !sapp_assoc. reflexivity.
  - intros p Hp. apply write_pot_lines_gus. rewrite Forall_forall in Hoo. apply Hoo, Hp.
Qed.

Definition gecp_text (ecps : list (Z * (Z * list epot))) : string :=
  match ecps with [] => "" | _ => unlines ("" :: gecp_tail ecps) end.

Lemma write_ecp_lines_gus : forall ecps, gus_ecp_ok ecps -> gus_write_ecp ecps = inr (gecp_text ecps).
Proof.
  intros ecps [_ Hel]. unfold gus_write_ecp, gecp_text. destruct ecps as [|e0 ecps0]; [reflexivity|].
  rewrite (mapM_map_ok _ _ gus_write_ecp_element (fun e => unlines (gecp_el_lines e))).
  - unfold bind, ok, gecp_tail. rewrite !unlines_cons, unlines_app, unlines_flat_map. reflexivity.
  - intros e Hin. apply write_ecp_element_lines_gus. rewrite Forall_forall in Hel. apply Hel, Hin.
Qed.

Lemma write_all_text_gus : forall els ecps, gus_wf els -> gus_ecp_ok ecps ->
  gus_write_all els ecps = inr (gtext els +++ gecp_text ecps).
Proof.
  intros els ecps H1 H2. unfold gus_write_all. rewrite (write_electron_lines_gus els H1), (write_ecp_lines_gus ecps H2). reflexivity.
Qed.

Lemma gus_all_write_total : gus_all_write_total_stmt.
Proof. intros els ecps H1 H2. eexists. apply write_all_text_gus; assumption. Qed.

(* ---- every line is a complete line for splitlines ---- *)
Lemma usym_nobd : forall z, (1 <= z <= 120)%Z -> sall nobd (usym z) = true.
Proof. intros z Hz. destruct (usym_facts z Hz) as [_ [_ [Hs _]]]. exact (sall_impl is_alpha nobd _ alpha_nobd Hs). Qed.

Lemma sp_nobd : forall k, sall nobd (sp k) = true.
Proof. induction k as [|k IH]; [reflexivity|]. rewrite sp_succ. cbn [sall]. rewrite IH. reflexivity. Qed.

Lemma gtitle_good : forall mx p, gus_pot_ok p -> (0 <= mx < 25)%Z -> good_line (gtitle mx p).
Proof.
  intros mx p Hp Hm. destruct (gus_pot_parts p Hp) as [_ [Hr _]].
  destruct (pletter_facts _ Hr) as [_ [A1 _]]. destruct (pletter_facts _ Hm) as [_ [_ [_ [_ A2]]]].
  unfold gtitle, gtk, pad5, good_line. rewrite !sall_app. cbn [sall String.append]. rewrite !sall_app. cbn [sall].
  rewrite (sall_impl is_digit nobd _ digit_is_nobd (nat_str_digits _)), sp_nobd, (alpha_nobd _ A1).
  destruct (Z.eqb (pot_l p) mx); cbn [sall]; [reflexivity|]. rewrite (alpha_nobd _ A2). reflexivity.
Qed.

Lemma gehdr_good : forall z n mx, (1 <= z <= 120)%Z -> good_line (gehdr z n mx).
Proof.
  intros z n mx Hz. unfold gehdr, good_line. rewrite !sall_app, (usym_nobd z Hz).
  rewrite !(sall_impl intc nobd _ intc_nobd (Z_to_string_intc _)). reflexivity.
Qed.

Lemma gecp_el_lines_good : forall e, gus_ecp_el_ok e -> Forall good_line (gecp_el_lines e).
Proof.
  intros e He. destruct (gus_el_parts e He) as [Hz [Hn [Hne [Hok Hoo]]]]. destruct e as [z [n pots]]. cbn [fst snd] in *.
  destruct (gus_max_am_ok pots Hne Hok) as [_ Hm].
  unfold gecp_el_lines, el_mx. cbn [fst snd]. constructor; [apply gehdr_good, Hz|].
  rewrite Forall_forall in *. intros l Hl. apply in_flat_map in Hl. destruct Hl as [p [Hp Hl]].
  destruct Hl as [<-|Hl]; [apply gtitle_good; [apply Hoo, Hp | exact Hm]|].
  unfold gerows in Hl. apply in_map_iff in Hl. destruct Hl as [t [<- Ht]].
  pose proof (gptrip_ok p (Hoo p Hp)) as Hall. rewrite Forall_forall in Hall. apply gerow_facts, Hall, Ht.
Qed.

Lemma gecp_tail_good : forall ecps, gus_ecp_ok ecps -> Forall good_line (gecp_tail ecps).
Proof.
  intros ecps [_ Hel]. unfold gecp_tail. repeat (constructor; [reflexivity|]).
  apply Forall_app. split; [|repeat constructor].
  rewrite Forall_forall in *. intros l Hl. apply in_flat_map in Hl. destruct Hl as [e [He Hl]].
  pose proof (gecp_el_lines_good e (Hel e He)) as G. rewrite Forall_forall in G. apply G, Hl.
Qed.

Lemma gecp_text_ne : forall ecps, ecps <> [] -> gecp_text ecps = unlines ("" :: gecp_tail ecps).
Proof. intros [|e ecps] H; [congruence | reflexivity]. Qed.
Lemma gtext_ne : forall els, els <> [] -> gtext els = unlines (gbody els) +++ "$END".
Proof. intros [|e els] H; [congruence | reflexivity]. Qed.
Lemma gall_lines_ecp : forall ecps, ecps <> [] -> gall_lines [] ecps = "" :: gecp_tail ecps.
Proof. intros [|e ecps] H; [congruence | reflexivity]. Qed.
Lemma gall_lines_both : forall els ecps, els <> [] -> ecps <> [] -> gall_lines els ecps = glines els ++ gecp_tail ecps.
Proof. intros [|zs els] [|e ecps] H1 H2; try congruence. reflexivity. Qed.
Lemma gall_lines_el : forall els, gall_lines els [] = match els with [] => [] | _ => glines els end.
Proof. intros [|zs els]; reflexivity. Qed.

Lemma written_all_lines_gus : forall els ecps, gus_wf els -> gus_ecp_ok ecps ->
  splitlines (gtext els +++ gecp_text ecps) = gall_lines els ecps.
Proof.
  intros els ecps H1 H2. pose proof (gecp_tail_good ecps H2) as G.
  destruct ecps as [|e ecps].
  - unfold gecp_text. rewrite sapp_nil_r. destruct els as [|zs els]; [reflexivity|].
    apply (written_lines_gus _ H1). discriminate.
  - assert (HE : e :: ecps <> []) by discriminate. revert HE G. generalize (e :: ecps) as E. intros E HE G.
    rewrite (gecp_text_ne E HE). destruct els as [|zs els].
    + rewrite (gall_lines_ecp E HE). cbn [gtext String.append].
      apply splitlines_unlines. constructor; [reflexivity | exact G].
    + assert (HL : zs :: els <> []) by discriminate. revert HL H1. generalize (zs :: els) as L. intros L HL H1.
      rewrite (gall_lines_both L E HL HE), (gtext_ne L HL). unfold glines.
      assert (ET : (unlines (gbody L) +++ "$END") +++ unlines ("" :: gecp_tail E) = unlines ((gbody L ++ ["$END"]) ++ gecp_tail E)).
      { rewrite !unlines_app, (unlines_cons "" (gecp_tail E)). change (unlines ["$END"]) with ("$END" +++ nl1).
        rewrite !sapp_assoc. reflexivity. }
      rewrite ET.
      apply splitlines_unlines. apply Forall_app. split; [|exact G]. apply Forall_app. split; [apply gbody_good, H1 | repeat constructor].
Qed.

(* ================================================================== *)
(* 4. the kinds of lines of the ECP part                               *)
(* ================================================================== *)
(* a line that begins with a digit, a sign or the point: a title line, a printed row *)
Definition nhead (l : string) : Prop :=
  exists c r, l = String c r /\ is_alpha c = false /\ is_space c = false /\ sany (Ascii.eqb c) sk = false.

Lemma nhead_facts : forall l, nhead l ->
  head_not_in sk l /\ match_element_block l = None /\ match_ecp_block l = None.
Proof.
  intros l [c [r [-> [Ha [Hs Hk]]]]]. split; [|split].
  - exists c, r. split; [reflexivity | exact Hk].
  - unfold match_element_block. rewrite (lstrip_head c r Hs). cbn [span_alpha]. rewrite Ha. reflexivity.
  - unfold match_ecp_block. rewrite (lstrip_head c r Hs). cbn [span_alpha]. rewrite Ha. reflexivity.
Qed.

Lemma floating_first_gus : forall c t, is_floating (String c t) = true ->
  is_alpha c = false /\ is_space c = false /\ sany (Ascii.eqb c) sk = false.
Proof. intros c t H. all_chars c; try (repeat split; reflexivity); exfalso; cbn in H; discriminate H. Qed.
Lemma digit_first_gus : forall c, is_digit c = true ->
  is_alpha c = false /\ is_space c = false /\ sany (Ascii.eqb c) sk = false.
Proof. intros c H. all_chars c; try (repeat split; reflexivity); discriminate H. Qed.

Lemma gerow_nhead : forall t, trip_ok t -> nhead (strip_ws (gerow t)).
Proof.
  intros t Ht. destruct (gerow_facts t Ht) as [_ [_ Htok]]. destruct t as [[x y] z]. destruct Ht as [_ Hz]. cbn [fst snd] in Hz.
  cbn [ttokrow] in Htok.
  destruct (tokens_first _ _ _ Htok) as [c [t' [y' [E [El Hc]]]]].
  destruct (strip_first _ c y' El Hc) as [r Er]. rewrite E in Hz.
  exists c, r. split; [exact Er | apply (floating_first_gus c t' Hz)].
Qed.

(* ---- the title line ---- *)
Lemma tokens_word_sp_g : forall w c r, tok_ok w -> is_space c = true ->
  tokens_acc (w +++ String c r) "" = w :: tokens_acc r "".
Proof.
  intros w c r [Hne Hs] Hc. rewrite (tokens_word w _ "" Hs), sapp_nil_r. cbn [tokens_acc]. rewrite Hc.
  destruct (srev w) as [|a x] eqn:E.
  - exfalso. apply Hne. rewrite <- (srev_involutive w), E. reflexivity.
  - rewrite <- E, srev_involutive. reflexivity.
Qed.

Lemma gtk_tok : forall mx p, gus_pot_ok p -> (0 <= mx < 25)%Z -> tok_ok (gtk mx p).
Proof.
  intros mx p Hp Hm. destruct (gus_pot_parts p Hp) as [_ [Hr _]].
  destruct (pletter_facts _ Hr) as [_ [A1 _]]. destruct (pletter_facts _ Hm) as [_ [_ [_ [_ A2]]]].
  unfold gtk. split; [discriminate|]. cbn [sany]. rewrite (alpha_not_space _ A1).
  destruct (Z.eqb (pot_l p) mx); cbn [sany]; [reflexivity|]. rewrite (alpha_not_space _ A2). reflexivity.
Qed.

Lemma gtitle_tokens : forall mx p, gus_pot_ok p -> (0 <= mx < 25)%Z ->
  tokens_acc (gtitle mx p) "" = [nat_str (List.length (p_rexp p)); "-----"; gtk mx p; "potential"; "-----"].
Proof.
  intros mx p Hp Hm. unfold gtitle, pad5. rewrite sapp_assoc, sp_comm.
  rewrite (tokens_word_sp_g _ " " _ (nat_str_tok _) eq_refl), tokens_sp.
  rewrite (tokens_word_sp_g "-----" " " _ ltac:(split; [discriminate | reflexivity]) eq_refl).
  rewrite (tokens_word_sp_g _ " " _ (gtk_tok mx p Hp Hm) eq_refl). reflexivity.
Qed.

Lemma gtitle_facts : forall mx p, gus_pot_ok p -> (0 <= mx < 25)%Z ->
  strip_ws (gtitle mx p) = gtitle mx p /\ nhead (gtitle mx p) /\
  match_ecp_shell (gtitle mx p) = Some (nat_str (List.length (p_rexp p)), pletter (pot_l p)).
Proof.
  intros mx p Hp Hm. destruct (gus_pot_parts p Hp) as [_ [Hr _]].
  destruct (pletter_facts _ Hr) as [_ [A1 _]]. destruct (pletter_facts _ Hm) as [_ [_ [_ [_ A2]]]].
  set (n := List.length (p_rexp p)).
  assert (E : gtitle mx p = nat_str n +++ (sp (5 - String.length (nat_str n)) +++ " ----- " +++ gtk mx p +++ " potential ") +++ "-----").
  { unfold gtitle, pad5. fold n. rewrite !sapp_assoc. reflexivity. }
  split; [|split].
  - rewrite E. apply strip_words; [apply nat_str_tok | split; [discriminate | reflexivity]].
  - rewrite E. pose proof (nat_str_digits n) as Hd. pose proof (nat_str_ne n) as Hne.
    destruct (nat_str n) as [|c r]; [congruence|]. cbn [sall] in Hd. apply andb_true_iff in Hd. destruct Hd as [Hc _].
    eexists c, _. split; [reflexivity | apply digit_first_gus, Hc].
  - unfold match_ecp_shell. rewrite (gtitle_tokens mx p Hp Hm). fold n. unfold gtk.
    destruct (decimal_is_integer (nat_str n) (conj (nat_str_ne n) (nat_str_digits n))) as [_ [_ Hdec]]. rewrite Hdec, A1.
    destruct (Z.eqb (pot_l p) mx); cbn; [reflexivity|]. rewrite A2. reflexivity.
Qed.

(* ---- the header line of an element ---- *)
Lemma span_digit_word_sp : forall a r, sall is_digit a = true -> span_digit (a +++ String " " r) = (a, String " " r).
Proof.
  induction a as [|c a IH]; intros r H; [reflexivity|].
  cbn [sall] in H. apply andb_true_iff in H. destruct H as [Hc Ha]. cbn [String.append span_digit]. rewrite Hc, (IH r Ha). reflexivity.
Qed.

Lemma gehdr_facts : forall z n mx, (1 <= z <= 120)%Z -> (0 <= n)%Z -> (0 <= mx)%Z ->
  head_not_in sk (gehdr z n mx) /\ strip_ws (gehdr z n mx) = gehdr z n mx /\
  match_element_block (gehdr z n mx) = None /\ match_shell_block (gehdr z n mx) = None /\
  match_ecp_block (gehdr z n mx) = Some (usym z, Z_to_string n, Z_to_string mx).
Proof.
  intros z n mx Hz Hn Hm. destruct (usym_facts z Hz) as [_ [Hne [Ha _]]]. pose proof (usym_tok z Hz) as Htok.
  destruct (usym_head z Hz) as [c [u [Eu Hc]]].
  destruct (nonneg_string n Hn) as [[Hn1 Hn2] _]. destruct (nonneg_string mx Hm) as [[Hm1 Hm2] _].
  assert (Hl : lstrip_ws (gehdr z n mx) = gehdr z n mx) by (apply lstrip_word, Htok).
  assert (Hsp : span_alpha (gehdr z n mx) = (usym z, "-ECP GEN    " +++ Z_to_string n +++ "    " +++ Z_to_string mx)).
  { unfold gehdr. apply (span_alpha_word_c (usym z) "-"%char _ Ha eq_refl). }
  split; [|split; [|split; [|split]]].
  - unfold gehdr. rewrite Eu. eexists c, _. split; [reflexivity | apply alpha_not_sk, Hc].
  - assert (E : gehdr z n mx = usym z +++ ("-ECP GEN    " +++ Z_to_string n +++ "    ") +++ Z_to_string mx)
      by (unfold gehdr; rewrite !sapp_assoc; reflexivity).
    rewrite E. apply strip_words; [exact Htok | apply int_tok].
  - unfold match_element_block. rewrite Hl, Hsp. rewrite Eu. reflexivity.
  - unfold match_shell_block. rewrite Hl. unfold gehdr. rewrite Eu. cbn [String.append].
    destruct (sany (Ascii.eqb c) gus_shell_letters); [|reflexivity].
    destruct u as [|c2 u]; [reflexivity|].
    rewrite Eu in Ha. cbn [sall] in Ha. apply andb_true_iff in Ha. destruct Ha as [_ Ha]. apply andb_true_iff in Ha.
    destruct Ha as [Hc2 _]. cbn [String.append]. rewrite (alpha_not_space _ Hc2). reflexivity.
  - unfold match_ecp_block. rewrite Hl, Hsp. rewrite Eu at 1.
    change (str_prefix "-ECP GEN" ("-ECP GEN    " +++ Z_to_string n +++ "    " +++ Z_to_string mx)) with true. cbv iota.
    change (drop_chars 8 ("-ECP GEN    " +++ Z_to_string n +++ "    " +++ Z_to_string mx))
      with (String " " (sp 3 +++ Z_to_string n +++ String " " (sp 3 +++ Z_to_string mx))).
    change (is_space " ") with true. cbv iota.
    change (String " " (sp 3 +++ Z_to_string n +++ String " " (sp 3 +++ Z_to_string mx)))
      with (sp 4 +++ Z_to_string n +++ String " " (sp 3 +++ Z_to_string mx)).
    rewrite lstrip_sp, (lstrip_word _ _ (int_tok n)), (span_digit_word_sp _ _ Hn2).
    destruct (Z_to_string n) as [|d1 r1] eqn:En; [congruence|]. change (is_space " ") with true. cbv iota.
    change (String " " (sp 3 +++ Z_to_string mx)) with (sp 4 +++ Z_to_string mx).
    rewrite lstrip_sp, (lstrip_tok _ (int_tok mx)), (span_digit_all _ Hm2).
    destruct (Z_to_string mx) as [|d2 r2] eqn:Em; [congruence|]. reflexivity.
Qed.

(* ================================================================== *)
(* 5. prune_lines on the written lines                                 *)
(* ================================================================== *)
Definition gpblk (mx : Z) (p : epot) : list string := gtitle mx p :: map strip_ws (gerows p).
Definition gesec (e : Z * (Z * list epot)) : list string :=
  gehdr (fst e) (fst (snd e)) (el_mx e) :: flat_map (gpblk (el_mx e)) (ecp_written_order (snd (snd e))).

Lemma el_mx_range : forall e, gus_ecp_el_ok e -> (0 <= el_mx e < 25)%Z.
Proof.
  intros e He. destruct (gus_el_parts e He) as [_ [_ [Hne [Hok _]]]]. unfold el_mx. apply (gus_max_am_ok _ Hne Hok).
Qed.

Lemma gpblk_lines : forall mx p l, gus_pot_ok p -> (0 <= mx < 25)%Z -> In l (gpblk mx p) -> nhead l.
Proof.
  intros mx p l Hp Hm [<-|Hin]; [apply (gtitle_facts mx p Hp Hm)|].
  unfold gerows in Hin. rewrite map_map in Hin. apply in_map_iff in Hin. destruct Hin as [t [<- Ht]].
  pose proof (gptrip_ok p Hp) as Hall. rewrite Forall_forall in Hall. apply gerow_nhead, Hall, Ht.
Qed.

Lemma gesec_tail_lines : forall e l, gus_ecp_el_ok e ->
  In l (flat_map (gpblk (el_mx e)) (ecp_written_order (snd (snd e)))) -> nhead l.
Proof.
  intros e l He Hin. pose proof (el_mx_range e He) as Hm. destruct (gus_el_parts e He) as [_ [_ [_ [_ Hoo]]]].
  apply in_flat_map in Hin. destruct Hin as [p [Hp Hl]]. rewrite Forall_forall in Hoo.
  apply (gpblk_lines _ p l (Hoo p Hp) Hm Hl).
Qed.

Lemma stripped_ecp_el : forall e, gus_ecp_el_ok e -> map strip_ws (gecp_el_lines e) = gesec e.
Proof.
  intros e He. pose proof (el_mx_range e He) as Hm. destruct (gus_el_parts e He) as [Hz [Hn [_ [_ Hoo]]]].
  unfold gecp_el_lines, gesec. cbn [map].
  destruct (gehdr_facts _ _ _ Hz Hn (proj1 Hm)) as [_ [-> _]]. f_equal.
  rewrite map_flat_map. apply flat_map_ext_in. intros p Hp. unfold gpot_lines, gpblk. cbn [map].
  rewrite Forall_forall in Hoo. destruct (gtitle_facts (el_mx e) p (Hoo p Hp) Hm) as [-> _]. reflexivity.
Qed.

Lemma gesec_heads : forall e, gus_ecp_el_ok e -> Forall (head_not_in sk) (gesec e).
Proof.
  intros e He. pose proof (el_mx_range e He) as Hm. destruct (gus_el_parts e He) as [Hz [Hn _]].
  unfold gesec. constructor; [apply (gehdr_facts _ _ _ Hz Hn (proj1 Hm))|].
  rewrite Forall_forall. intros l Hl. apply (nhead_facts l (gesec_tail_lines e l He Hl)).
Qed.

Lemma pr_ecp_el : forall e, gus_ecp_el_ok e -> pr (gecp_el_lines e) = gesec e.
Proof.
  intros e He. unfold pr. rewrite (pr_keep sk _ sk_ne); rewrite (stripped_ecp_el e He); [reflexivity | apply gesec_heads, He].
Qed.

Lemma pruned_all_lines_gus : forall els ecps, gus_wf els -> gus_ecp_ok ecps -> els <> [] ->
  gus_prune (gall_lines els ecps) = concat (map gsec els) ++ flat_map gesec ecps.
Proof.
  intros els ecps H1 [_ Hel] Hne. destruct ecps as [|e ecps].
  - rewrite gall_lines_el. destruct els as [|zs els]; [congruence|]. cbn [flat_map]. rewrite app_nil_r.
    apply pruned_lines_gus, H1.
  - rewrite (gall_lines_both els (e :: ecps) Hne ltac:(discriminate)). revert Hel. generalize (e :: ecps) as E. intros E Hel.
    change (gus_prune (glines els ++ gecp_tail E)) with (pr (glines els ++ gecp_tail E)).
    unfold pr. rewrite (pr_app sk _ _ sk_ne). fold (pr (glines els)). change (pr (glines els)) with (gus_prune (glines els)).
    rewrite (pruned_lines_gus els H1). f_equal. unfold gecp_tail.
    change ("" :: "$ECP" :: flat_map gecp_el_lines E ++ ["$END"]) with ([""; "$ECP"] ++ flat_map gecp_el_lines E ++ ["$END"]).
    rewrite !(pr_app sk _ _ sk_ne).
    change (prune_lines [""; "$ECP"] sk true true) with (@nil string).
    change (prune_lines ["$END"] sk true true) with (@nil string).
    cbn [app]. rewrite app_nil_r. fold (pr (flat_map gecp_el_lines E)). rewrite pr_flat_map.
    apply flat_map_ext_in. intros e0 Hin. apply pr_ecp_el. rewrite Forall_forall in Hel. apply Hel, Hin.
Qed.

(* ================================================================== *)
(* 6. the two partitions                                               *)
(* ================================================================== *)
Definition ecp_cond (x : string) : res bool := ok (is_ecp_block_line x).

Lemma gesec_not_el : forall ecps, Forall gus_ecp_el_ok ecps -> Forall (fun l => el_cond l = inr false) (flat_map gesec ecps).
Proof.
  intros ecps Hel. rewrite Forall_forall in *. intros l Hl. apply in_flat_map in Hl. destruct Hl as [e [He Hl]].
  pose proof (Hel e He) as Hok. destruct (gus_el_parts e Hok) as [Hz [Hn _]]. pose proof (el_mx_range e Hok) as Hm.
  unfold el_cond. unfold gesec in Hl. destruct Hl as [<-|Hl].
  - destruct (gehdr_facts _ _ _ Hz Hn (proj1 Hm)) as [_ [_ [-> _]]]. reflexivity.
  - destruct (nhead_facts l (gesec_tail_lines e l Hok Hl)) as [_ [-> _]]. reflexivity.
Qed.

Lemma gesec_shape : forall e, gus_ecp_el_ok e -> block_shape ecp_cond (gesec e).
Proof.
  intros e He. destruct (gus_el_parts e He) as [Hz [Hn _]]. pose proof (el_mx_range e He) as Hm.
  eexists _, _. split; [reflexivity|]. split.
  - unfold ecp_cond, is_ecp_block_line. destruct (gehdr_facts _ _ _ Hz Hn (proj1 Hm)) as [_ [_ [_ [_ ->]]]]. reflexivity.
  - rewrite Forall_forall. intros l Hl. unfold ecp_cond, is_ecp_block_line.
    destruct (nhead_facts l (gesec_tail_lines e l He Hl)) as [_ [_ ->]]. reflexivity.
Qed.

Lemma gsec_not_ecp : forall els, Forall el_wf els -> Forall (fun l => ecp_cond l = inr false) (concat (map gsec els)).
Proof.
  intros els H. pose proof (no_ecp_lines els H) as E. rewrite Forall_forall. intros l Hl. unfold ecp_cond, ok. f_equal.
  destruct (is_ecp_block_line l) eqn:El; [|reflexivity].
  assert (X : existsb is_ecp_block_line (concat (map gsec els)) = true) by (apply existsb_exists; exists l; split; assumption).
  congruence.
Qed.

Lemma concat_snoc_tail : forall (A : Type) (l : list (list A)) b T, concat (l ++ [b]) ++ T = concat (l ++ [b ++ T]).
Proof. intros A l b T. rewrite !concat_app. cbn [concat]. rewrite !app_nil_r, app_assoc. reflexivity. Qed.

(* the partition at the element names: the ECP part is the tail of the last element block *)
Lemma partition_el_tail : forall els0 zl T, Forall el_wf els0 -> el_wf zl -> Forall (fun l => el_cond l = inr false) T ->
  partition_lines (concat (map gsec (els0 ++ [zl])) ++ T) el_cond true 1 0 0 = inr (map gsec els0 ++ [gsec zl ++ T]).
Proof.
  intros els0 zl T H0 Hl HT. rewrite map_app. cbn [map]. rewrite concat_snoc_tail.
  unfold partition_lines. rewrite (part_blocks el_cond (map gsec els0 ++ [gsec zl ++ T]) [] []).
  - cbn [flush app]. unfold bind. rewrite existsb_false; [reflexivity|].
    intros b Hb. apply Nat.ltb_ge. apply in_app_or in Hb. destruct Hb as [Hb|[<-|[]]].
    + apply in_map_iff in Hb. destruct Hb as [zs [<- _]]. unfold gsec. cbn [List.length]. lia.
    + unfold gsec. cbn [app List.length]. lia.
  - apply Forall_app. split.
    + rewrite Forall_forall in *. intros b Hb. apply in_map_iff in Hb. destruct Hb as [zs [<- Hzs]]. apply (gsec_shape zs (H0 zs Hzs)).
    + constructor; [|constructor]. destruct (GamessUsSpec.gsec_shape zl Hl) as [h [r [E [Hh Hr]]]].
      exists h, (r ++ T). split; [rewrite E; reflexivity|]. split; [exact Hh | apply Forall_app; split; assumption].
Qed.

Lemma partition_ecp_lead : forall E bs, E <> [] -> Forall (fun l => ecp_cond l = inr false) E ->
  Forall (block_shape ecp_cond) bs -> partition_lines (E ++ concat bs) ecp_cond true 1 0 0 = inr (E :: bs).
Proof.
  intros E bs Hne HE Hbs. unfold partition_lines. rewrite (part_skip ecp_cond true E (concat bs) [] [] HE). cbn [app].
  rewrite (part_blocks ecp_cond bs E [] Hbs). unfold bind.
  assert (Ef : flush E [] ++ bs = E :: bs) by (destruct E; [congruence | reflexivity]). rewrite Ef.
  rewrite existsb_false; [reflexivity|]. intros b [<-|Hb]; apply Nat.ltb_ge.
  - destruct E; [congruence | cbn [List.length]; lia].
  - rewrite Forall_forall in Hbs. destruct (Hbs b Hb) as [h [r [-> _]]]. cbn [List.length]. lia.
Qed.

(* ================================================================== *)
(* 7. the terms, the potentials, the ECP blocks                        *)
(* ================================================================== *)
Definition nzt (t : Z * string * string) : bool := negb (is0_s (snd t)).
Definition swap3 (t : Z * string * string) : string * Z * string := (snd t, fst (fst t), snd (fst t)).

Lemma read_terms_rows : forall n R G C rest, List.length R = n -> List.length G = n -> List.length C = n ->
  Forall (fun r => (0 <= r <= 9)%Z) R -> Forall floating G -> Forall floating C -> Forall (fun x => parse_num x <> None) C ->
  gus_read_terms n (map strip_ws (map gerow (trip R G C)) ++ rest) =
    inr (map swap3 (filter nzt (combine (combine R G) C)), rest).
Proof.
  induction n as [|n IH]; intros R G C rest HR HG HC HrR HfG HfC HpC.
  - destruct R; [|discriminate]. reflexivity.
  - destruct R as [|x R]; [discriminate|]. destruct G as [|g G]; [discriminate|]. destruct C as [|c C]; [discriminate|].
    inversion HrR as [|? ? Hx HrR']; subst. inversion HfG as [|? ? Hg HfG']; subst. inversion HfC as [|? ? Hc HfC']; subst.
    inversion HpC as [|? ? Hp HpC']; subst.
    cbn [trip map app gus_read_terms].
    assert (Ht : trip_ok (x, g, c)) by (split; assumption).
    destruct (gerow_facts _ Ht) as [_ [_ Htok]].
    unfold match_ecp_entry. rewrite tokens_strip, Htok. cbn [ttokrow].
    destruct (digit_string x Hx) as [d [Ed [Hd Hval]]]. rewrite Ed.
    unfold floating in Hg, Hc. rewrite Hc, Hd, Hg. cbn [andb].
    destruct (parse_num c) as [v|] eqn:Ev; [|congruence].
    rewrite (IH R G C rest ltac:(cbn in HR; lia) ltac:(cbn in HG; lia) ltac:(cbn in HC; lia) HrR' HfG' HfC' HpC').
    unfold bind, ok. cbn [fst snd combine filter]. rewrite Hval.
    unfold nzt at 2. cbn [snd]. unfold is0_s. rewrite Ev. destruct v as [m ex]. unfold dec_nonzero. cbn [fst].
    destruct (Z.eqb m 0); reflexivity.
Qed.

Lemma parse_pots_blocks : forall mx pots fuel, Forall gus_pot_ok pots -> (0 <= mx < 25)%Z ->
  List.length (flat_map (gpblk mx) pots) <= fuel ->
  gus_parse_pots fuel (flat_map (gpblk mx) pots) = inr (map gus_expected_pot pots).
Proof.
  intros mx. induction pots as [|p pots IH]; intros fuel H Hm Hf.
  - destruct fuel; reflexivity.
  - inversion H as [|? ? Hp Hps]; subst. cbn [flat_map] in *. unfold gpblk at 1 in Hf. unfold gpblk at 1.
    cbn [app List.length] in Hf. rewrite app_length in Hf. destruct fuel as [|f]; [lia|].
    cbn [app gus_parse_pots map].
    destruct (gus_pot_parts p Hp) as [Ea [Hr [HrR [HlG [Ec [HlC [HfC [HpC HfG]]]]]]]].
    destruct (pletter_facts _ Hr) as [_ [_ [Eam _]]].
    destruct (gtitle_facts mx p Hp Hm) as [_ [_ ->]]. rewrite Eam. unfold bind at 1.
    rewrite nat_str_val, Nat2Z.id.
    pose proof (read_terms_rows (List.length (p_rexp p)) (p_rexp p) (p_gexp p) (gpc p) (flat_map (gpblk mx) pots)
                                eq_refl HlG HlC HrR HfG HfC HpC) as Hrd.
    unfold gerows, gptrip. rewrite Hrd. unfold bind at 1. cbn [fst snd].
    rewrite (IH f Hps Hm ltac:(lia)). unfold bind, ok. f_equal. f_equal.
    unfold gus_expected_pot, gus_kept_terms. fold (gpc p). fold nzt. rewrite Ea, !map_map. reflexivity.
Qed.

Lemma parse_ecp_section_gus : forall e d, gus_ecp_el_ok e -> ~ In (fst e) (map fst d) ->
  gus_parse_ecp_lines (gesec e) d =
    inr (d ++ [(fst e, (fst (snd e), map gus_expected_pot (ecp_written_order (snd (snd e)))))]).
Proof.
  intros e d He Hd. destruct (gus_el_parts e He) as [Hz [Hn [_ [_ Hoo]]]]. pose proof (el_mx_range e He) as Hm.
  destruct (usym_facts _ Hz) as [_ [_ [_ [_ Hback]]]].
  destruct (gehdr_facts _ _ (el_mx e) Hz Hn (proj1 Hm)) as [_ [_ [_ [_ Hb]]]].
  destruct (nonneg_string _ Hn) as [_ Hv].
  unfold gus_parse_ecp_lines, gesec. rewrite Hb, Hback. unfold bind at 1.
  rewrite (existsb_Zeqb_false _ _ Hd), (parse_pots_blocks _ _ _ Hoo Hm (le_n _)). unfold bind, ok. rewrite Hv. reflexivity.
Qed.

Lemma ecp_sections_parse_gus : forall ecps d, Forall gus_ecp_el_ok ecps -> NoDup (map fst ecps) ->
  (forall z, In z (map fst ecps) -> ~ In z (map fst d)) ->
  gus_ecp_blocks (map gesec ecps) d = inr (d ++ gus_ecp_expected ecps).
Proof.
  induction ecps as [|e ecps IH]; intros d Hel Hnd Hdis.
  - cbn. now rewrite app_nil_r.
  - inversion Hel as [|? ? H1 H2]; subst. cbn [map] in Hnd. inversion Hnd as [|? ? Hnotin Hnd']; subst.
    cbn [map gus_ecp_blocks]. rewrite (parse_ecp_section_gus e d H1); [|apply Hdis; now left]. unfold bind.
    rewrite IH; [| exact H2 | exact Hnd' |].
    + unfold gus_ecp_expected. cbn [map]. rewrite <- app_assoc. reflexivity.
    + intros z Hz. rewrite map_app, in_app_iff. cbn [map In fst]. intros [Hin|[Heq|[]]].
      * apply (Hdis z); [now right | exact Hin].
      * subst z. apply Hnotin, Hz.
Qed.

Lemma ecp_lead_block : forall E d, Forall (fun l => ecp_cond l = inr false) E -> gus_parse_ecp_lines E d = inr d.
Proof.
  intros [|l E] d H; [reflexivity|]. inversion H as [|? ? Hl _]; subst. unfold ecp_cond, ok, is_ecp_block_line in Hl.
  cbn [gus_parse_ecp_lines]. destruct (match_ecp_block l); [discriminate Hl | reflexivity].
Qed.

Lemma element_blocks_app : forall a b d,
  gus_element_blocks (a ++ b) d = (do d' <- gus_element_blocks a d; gus_element_blocks b d').
Proof.
  induction a as [|x a IH]; intros b d; [reflexivity|]. cbn [app gus_element_blocks]. unfold bind in *.
  destruct (gus_parse_electron_lines x d) as [e|d1]; [reflexivity | apply IH].
Qed.

Lemma ecp_tail_no_shell : forall ecps, Forall gus_ecp_el_ok ecps -> no_shell_head (flat_map gesec ecps).
Proof.
  intros [|e ecps] H; [exact I|]. inversion H as [|? ? He _]; subst. cbn [flat_map]. unfold gesec at 1. cbn [app no_shell_head].
  destruct (gus_el_parts e He) as [Hz [Hn _]]. pose proof (el_mx_range e He) as Hm.
  apply (gehdr_facts _ _ _ Hz Hn (proj1 Hm)).
Qed.

(* ================================================================== *)
(* 8. the round trip                                                   *)
(* ================================================================== *)
Lemma read_pruned_gus : forall els ecps L, gus_wf els -> gus_ecp_ok ecps -> els <> [] ->
  gus_prune L = concat (map gsec els) ++ flat_map gesec ecps ->
  gus_read_all_parts L = inr (gus_back els, gus_ecp_expected ecps).
Proof.
  intros els ecps L H1 [Hnd2 Hel2] Hne HL. pose proof (gus_wf_els els H1) as Hel. destruct H1 as [Hnd _].
  unfold gus_read_all_parts. rewrite HL.
  change (fun x : string => ok (is_ecp_block_line x)) with ecp_cond.
  (* the ECP partition and the ECP blocks *)
  assert (HP : (do ecp_blocks <- partition_lines (concat (map gsec els) ++ flat_map gesec ecps) ecp_cond true 1 0 0;
                do pm <- gus_ecp_blocks ecp_blocks []; ok pm) = inr (gus_ecp_expected ecps)).
  { rewrite flat_map_concat_map. rewrite partition_ecp_lead.
    - unfold bind at 1. cbn [gus_ecp_blocks]. rewrite (ecp_lead_block _ [] (gsec_not_ecp els Hel)). unfold bind.
      rewrite (ecp_sections_parse_gus ecps [] Hel2 Hnd2); [reflexivity | intros z _ []].
    - destruct els as [|zs els']; [congruence|]. cbn [map concat]. unfold gsec at 1. discriminate.
    - apply gsec_not_ecp, Hel.
    - rewrite Forall_forall in *. intros b Hb. apply in_map_iff in Hb. destruct Hb as [e [<- He]]. apply gesec_shape, Hel2, He. }
  (* the element partition and the element blocks *)
  assert (HE : gus_read_electron_blocks (concat (map gsec els) ++ flat_map gesec ecps) = inr (gus_back els)).
  { destruct (exists_last Hne) as [els0 [zl E]]. subst els.
    apply Forall_app in Hel. destruct Hel as [Hel0 Hzl]. inversion Hzl as [|? ? Hzl' _]; subst.
    unfold gus_read_electron_blocks. fold el_cond.
    rewrite (partition_el_tail els0 zl _ Hel0 Hzl' (gesec_not_el ecps Hel2)). unfold bind.
    rewrite element_blocks_app. rewrite map_app in Hnd. cbn [map] in Hnd.
    pose proof (NoDup_remove_1 _ _ _ Hnd) as Hnd0. rewrite app_nil_r in Hnd0.
    rewrite (sections_parse_gus els0 [] Hel0 Hnd0); [|intros z _ []]. unfold bind. cbn [app gus_element_blocks].
    rewrite (parse_section_gus_tail zl _ _ Hzl' (ecp_tail_no_shell ecps Hel2)).
    - unfold bind. unfold gus_back. rewrite map_app. reflexivity.
    - pose proof (NoDup_remove_2 _ _ _ Hnd) as Hn. rewrite app_nil_r in Hn. unfold gus_back. rewrite map_map. cbn [fst]. exact Hn. }
  rewrite HE. unfold bind in HP |- *.
  destruct (partition_lines _ ecp_cond true 1 0 0) as [e|bl]; [discriminate HP|].
  destruct (gus_ecp_blocks bl []) as [e|pm]; [discriminate HP|]. inversion HP; subst. reflexivity.
Qed.

Lemma read_all_parts_lines_gus : forall els ecps, gus_ok els -> gus_ecp_ok ecps -> els <> [] ->
  gus_read_all_parts (gall_lines els ecps) = inr (gus_expected els, gus_ecp_expected ecps).
Proof.
  intros els ecps H1 H2 Hne. pose proof (gus_ok_wf els H1) as Hwf. rewrite <- (gus_back_expected els H1).
  apply read_pruned_gus; try assumption. apply pruned_all_lines_gus; assumption.
Qed.

Lemma gus_all_roundtrip_parts : gus_all_roundtrip_parts_stmt.
Proof.
  intros els ecps t [H1 [H2 H3]] E. pose proof (gus_ok_wf els H1) as Hwf.
  rewrite (write_all_text_gus els ecps Hwf H2) in E. inversion E; subst t. rewrite (written_all_lines_gus els ecps Hwf H2).
  destruct els as [|zs els].
  - rewrite (H3 eq_refl). reflexivity.
  - apply read_all_parts_lines_gus; [exact H1 | exact H2 | discriminate].
Qed.

Lemma gus_all_roundtrip : gus_all_roundtrip_stmt.
Proof.
  intros els ecps H. pose proof H as [H1 [H2 _]]. pose proof (gus_ok_wf els H1) as Hwf.
  unfold gus_roundtrip_all. rewrite (write_all_text_gus els ecps Hwf H2). unfold bind at 1.
  unfold gus_read_all. rewrite (gus_all_roundtrip_parts els ecps _ H (write_all_text_gus els ecps Hwf H2)). reflexivity.
Qed.

(* ================================================================== *)
(* 9. no number is lost                                                *)
(* ================================================================== *)
Lemma glines_in_all : forall els ecps l, els <> [] -> In l (glines els) -> In l (gall_lines els ecps).
Proof.
  intros els ecps l Hne Hl. destruct ecps as [|e ecps].
  - rewrite gall_lines_el. destruct els; [congruence | exact Hl].
  - rewrite (gall_lines_both els (e :: ecps) Hne ltac:(discriminate)). apply in_or_app. now left.
Qed.

Lemma ecp_el_lines_in_all : forall els ecps e l, In e ecps -> In l (gecp_el_lines e) -> In l (gall_lines els ecps).
Proof.
  intros els ecps e l He Hl.
  assert (Hne : ecps <> []) by (intros ->; destruct He).
  assert (Ht : In l (gecp_tail ecps)).
  { unfold gecp_tail. right. right. apply in_or_app. left. apply in_flat_map. exists e. split; assumption. }
  destruct els as [|zs els].
  - rewrite (gall_lines_ecp ecps Hne). now right.
  - rewrite (gall_lines_both (zs :: els) ecps ltac:(discriminate) Hne). apply in_or_app. now right.
Qed.

Lemma gehdr_tokens : forall z n mx, In (Z_to_string n) (tokens_acc (gehdr z n mx) "").
Proof.
  intros z n mx.
  assert (E : gehdr z n mx = ((usym z +++ "-ECP GEN") +++ sp 4 +++ Z_to_string n) +++ sp 4 +++ Z_to_string mx)
    by (unfold gehdr; rewrite !sapp_assoc; reflexivity).
  rewrite E, (tokens_snoc 3 _ (int_tok mx)), (tokens_snoc 3 _ (int_tok n)). apply in_or_app. left. apply in_or_app. right. now left.
Qed.

Lemma gus_all_no_number_lost : gus_all_no_number_lost_stmt.
Proof.
  intros els ecps t H1 H2 E x Hx.
  rewrite (write_all_text_gus els ecps H1 H2) in E. inversion E; subst t. rewrite (written_all_lines_gus els ecps H1 H2).
  destruct Hx as [Hx|[e [He Hx]]].
  - assert (Hne : els <> []) by (destruct Hx as [zs [_ [Hzs _]]]; intros ->; destruct Hzs).
    destruct (gus_no_number_lost els (gtext els) H1 (write_electron_lines_gus els H1) x Hx) as [line [Hl Ht]].
    rewrite (written_lines_gus els H1 Hne) in Hl. exists line. split; [apply glines_in_all; assumption | exact Ht].
  - destruct H2 as [_ Hel]. rewrite Forall_forall in Hel. pose proof (Hel e He) as Hok.
    destruct (gus_el_parts e Hok) as [_ [_ [Hne [Hpok _]]]]. destruct (gus_order_ok _ Hne) as [_ Hperm].
    destruct Hx as [->|[p [Hp Hx]]].
    + exists (gehdr (fst e) (fst (snd e)) (el_mx e)). split; [|apply gehdr_tokens].
      apply (ecp_el_lines_in_all els ecps e _ He). now left.
    + rewrite Forall_forall in Hpok. pose proof (Hpok p Hp) as Hpp.
      destruct (gus_pot_parts p Hpp) as [_ [_ [_ [Hg [Ec [Hc _]]]]]].
      destruct (trip_proj _ _ _ Hg Hc) as [P1 [P2 P3]]. fold (gptrip p) in P1, P2, P3.
      assert (Ht : exists tr, In tr (gptrip p) /\ In x (ttokrow tr)).
      { destruct Hx as [Hx|[[c [Hcin Hx]]|[r [Hr ->]]]].
        - rewrite <- P2 in Hx. apply in_map_iff in Hx. destruct Hx as [[[a b] c] [<- Hin]]. eexists. split; [exact Hin|]. cbn. tauto.
        - rewrite Ec in Hcin. destruct Hcin as [<-|[]]. rewrite <- P3 in Hx. apply in_map_iff in Hx.
          destruct Hx as [[[a b] c] [<- Hin]]. eexists. split; [exact Hin|]. cbn. tauto.
        - rewrite <- P1 in Hr. apply in_map_iff in Hr. destruct Hr as [[[a b] c] [<- Hin]]. eexists. split; [exact Hin|]. cbn. tauto. }
      destruct Ht as [tr [Htr Hxt]]. pose proof (gptrip_ok p Hpp) as Hall. rewrite Forall_forall in Hall.
      destruct (gerow_facts tr (Hall tr Htr)) as [_ [_ Htok]].
      exists (gerow tr). split; [|rewrite Htok; exact Hxt].
      apply (ecp_el_lines_in_all els ecps e _ He). unfold gecp_el_lines. right. apply in_flat_map. exists p.
      split; [apply (Permutation_in _ Hperm), Hp|]. unfold gpot_lines, gerows. right. apply in_map, Htr.
Qed.


(* ================================================================== *)
(* 10. the closed statements: findings, counterexamples, the store instance (by computation) *)
(* ================================================================== *)
Ltac nodup_z := repeat constructor; cbn; intros H; repeat (destruct H as [H|H]; [discriminate H|]); exact H.
Ltac floats := repeat constructor.
Ltac parses := repeat (constructor; [let H := fresh in intro H; vm_compute in H; discriminate H|]); constructor.
Ltac pot_ok :=
  split; [eexists; split; [reflexivity | lia]
         | split; [repeat (constructor; [lia|]); constructor
                  | split; [reflexivity
                           | split; [eexists; split; [reflexivity | split; [reflexivity | split; [floats | parses]]] | floats]]]].
Ltac ecp_el_ok := split; [lia | split; [lia | split; [discriminate | repeat (constructor; [pot_ok|]); constructor]]].
Ltac ecp_ok := split; [nodup_z | repeat (constructor; [ecp_el_ok|]); constructor].
Ltac el_ok := split; [nodup_z | repeat (constructor; [split; [cbn; lia | cbn [snd]; repeat (constructor; [wf_shell|]); constructor]|]); constructor].

Lemma gus_ecp_only : gus_ecp_only_stmt.
Proof. split; [ecp_ok | repeat split; vm_compute; reflexivity]. Qed.

Lemma gus_ecp_zero : gus_ecp_zero_stmt.
Proof.
  cbv zeta. split; [|split; vm_compute; reflexivity].
  split; [el_ok | split; [ecp_ok | discriminate]].
Qed.

Lemma gus_ecp_conditions : gus_ecp_conditions_stmt.
Proof. repeat split; vm_compute; reflexivity. Qed.

Lemma gus_ecp_reader : gus_ecp_reader_stmt.
Proof. repeat split; vm_compute; reflexivity. Qed.

Example gus_ecp_example : gus_ecp_example_stmt.
Proof.
  split; [|repeat split; vm_compute; reflexivity].
  split; [el_ok | split; [ecp_ok | discriminate]].
Qed.

Print Assumptions gus_all_write_total.
Print Assumptions gus_all_roundtrip_parts.
Print Assumptions gus_all_roundtrip.
Print Assumptions gus_all_no_number_lost.
Print Assumptions gus_ecp_only.
Print Assumptions gus_ecp_zero.
Print Assumptions gus_ecp_conditions.
Print Assumptions gus_ecp_reader.
Print Assumptions gus_ecp_example.
