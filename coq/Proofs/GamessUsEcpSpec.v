(* Proofs of the closed statements of Proofs/GamessUsEcpDefs.v (ECP part and whole file of the GAMESS-US writer / reader
   pair): the findings, the counterexamples and the store instance, all by computation on the executable model.
   The general statement gus_all_roundtrip_stmt is NOT proved here (see the header of Proofs/GamessUsEcpDefs.v). *)
From BSE Require Import Model.Val Model.Text Model.Num Model.Basis Model.Manip Model.Matrix Model.Lut Model.Elements
                        Model.Nwchem Model.NwchemEcp Model.G94 Model.GamessUs Model.GamessUsEcp
                        Proofs.MatrixDefs Proofs.NwchemDefs Proofs.NwchemEcpDefs Proofs.GamessUsDefs Proofs.GamessUsEcpDefs
                        Proofs.GamessUsSpec.

Ltac nodup_z := repeat constructor; cbn; intros H; repeat (destruct H as [H|H]; [discriminate H|]); exact H.
Ltac floats := repeat constructor.
Ltac parses := repeat (constructor; [let H := fresh in intro H; vm_compute in H; discriminate H|]); constructor.
Ltac pot_ok :=
  split; [eexists; split; [reflexivity | lia]
         | split; [repeat (constructor; [lia|]); constructor
                  | split; [reflexivity
                           | split; [eexists; split; [reflexivity | split; [reflexivity | split; [floats | parses]]] | floats]]]].
Ltac ecp_el_ok := split; [lia | split; [lia | split; [discriminate | repeat (constructor; [pot_ok|]); constructor]]].
Ltac ecp_ok := split; [nodup_z | repeat (constructor; [ecp_el_ok|]); constructor].
Ltac el_ok := split; [nodup_z | repeat (constructor; [split; [cbn; lia | cbn [snd]; repeat (constructor; [wf_shell|]); constructor]|]); constructor].

Lemma gus_ecp_only : gus_ecp_only_stmt.
Proof. split; [ecp_ok | repeat split; vm_compute; reflexivity]. Qed.

Lemma gus_ecp_zero : gus_ecp_zero_stmt.
Proof.
  cbv zeta. split; [|split; vm_compute; reflexivity].
  split; [el_ok | split; [ecp_ok | discriminate]].
Qed.

Lemma gus_ecp_conditions : gus_ecp_conditions_stmt.
Proof. repeat split; vm_compute; reflexivity. Qed.

Lemma gus_ecp_reader : gus_ecp_reader_stmt.
Proof. repeat split; vm_compute; reflexivity. Qed.

Example gus_ecp_example : gus_ecp_example_stmt.
Proof.
  split; [|repeat split; vm_compute; reflexivity].
  split; [el_ok | split; [ecp_ok | discriminate]].
Qed.

Print Assumptions gus_ecp_only.
Print Assumptions gus_ecp_zero.
Print Assumptions gus_ecp_conditions.
Print Assumptions gus_ecp_reader.
Print Assumptions gus_ecp_example.
