(* Statements for C06 (caching is invisible). Definitions only. *)
From BSE Require Import Model.Val Gen.GenMemo Model.Memo.

Definition sig_ok (s : sig) : Prop := NoDup (s_args s) /\ List.length (s_defaults s) <= List.length (s_args s).
Definition sig_okb (s : sig) : bool := nodup_strs (s_args s) && Nat.leb (List.length (s_defaults s)) (List.length (s_args s)).

(* keyword arguments come from a Python dict: no name twice *)
Definition kw_ok (kw : list (string * val)) : Prop := NoDup (map fst kw).

(* a key is only ever built for a call that Python's own binding rules accept, and it is the bound argument list *)
Definition make_key_sound_stmt : Prop :=
  forall s a kw k, sig_ok s -> kw_ok kw -> make_key s a kw = inr (Some k) -> bind_call s a kw = Some k.
(* every valid call gets its bound argument list as key: positional / keyword / default spellings of one binding share it *)
Definition make_key_complete_stmt : Prop :=
  forall s a kw vs, sig_ok s -> kw_ok kw -> bind_call s a kw = Some vs -> make_key s a kw = inr (Some vs).
(* when _make_key itself raises, the call is invalid and the error is the TypeError the function would raise too *)
Definition make_key_error_stmt : Prop :=
  forall s a kw e, sig_ok s -> kw_ok kw -> make_key s a kw = inl e -> bind_call s a kw = None /\ e = EType.

(* share / separate, as corollaries *)
Definition make_key_share_stmt : Prop :=
  forall s a1 kw1 a2 kw2 vs, sig_ok s -> kw_ok kw1 -> kw_ok kw2 ->
    bind_call s a1 kw1 = Some vs -> bind_call s a2 kw2 = Some vs -> make_key s a1 kw1 = make_key s a2 kw2.
Definition make_key_separate_stmt : Prop :=
  forall s a1 kw1 a2 kw2 v1 v2, sig_ok s -> kw_ok kw1 -> kw_ok kw2 ->
    bind_call s a1 kw1 = Some v1 -> bind_call s a2 kw2 = Some v2 -> v1 <> v2 -> make_key s a1 kw1 <> make_key s a2 kw2.

Section CacheStmts.
  Variable F : string -> list val -> res val.
  Variable sig_of : string -> sig.

  (* the cache only ever holds values of the underlying function *)
  Definition Inv (s : st) : Prop := forall f k v, In (f, k, v) (cache s) -> F f k = inr v.

  Definition calls_ok (ops : list op) : Prop :=
    Forall (fun o => match o with Call c => kw_ok (c_kw c) | _ => True end) ops.

  (* every call of every history returns exactly what the uncached function returns, whatever was called, toggled or
     mutated before *)
  Definition memo_transparent_stmt : Prop :=
    (forall f, sig_ok (sig_of f)) ->
    forall ops s0, Inv s0 -> calls_ok ops ->
      Forall (fun oo => match fst oo with
                        | Call c => snd oo = Some (uncached F sig_of c)
                        | _ => snd oo = None
                        end) (run F sig_of s0 ops).

  (* the same for every interleaving of the atomic steps of any number of threads, with toggles anywhere *)
  Definition memo_transparent_concurrent_stmt : Prop :=
    (forall f, sig_ok (sig_of f)) ->
    forall (calls : list call) (sch : list sched) s0,
      Inv s0 -> Forall (fun c => kw_ok (c_kw c)) calls ->
      let r := srun F sig_of (s0, map TStart calls) sch in
      Inv (fst r) /\
      forall i c x, nth_error (snd r) i = Some (TDone c x) -> nth_error calls i = Some c /\ x = uncached F sig_of c.
End CacheStmts.

(* the translated signatures are well formed (finite, re-proved against the source on every run) *)
Definition memoised_sigs_ok_stmt : Prop := forallb (fun p => sig_okb (snd p)) memoised = true.
