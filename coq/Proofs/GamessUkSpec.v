(* Proofs of the statements of Proofs/GamessUkDefs.v: the GAMESS-UK writer is total on well-formed input and every number
   of the input is a white-space delimited token of some line of the written text (guk_write_total, guk_no_number_lost,
   guk_ecp_no_number_lost); then the counterexamples, the observation that the ECP text is ambiguous, and the store
   instances, by computation.  The toolkit (matrices of cells, names, letters) is in Proofs/OrcaSpec.v. *)
From BSE Require Import Model.Val Model.Text Model.Num Model.Basis Model.Manip Model.Matrix Gen.GenLut Model.Lut
                        Model.Elements Model.Nwchem Model.NwchemEcp Model.G94 Model.GamessUk
                        Proofs.MatrixDefs Proofs.NwchemDefs Proofs.NwchemEcpDefs Proofs.GamessUkDefs Proofs.C20Finite.
From Coq Require Import NArith Nnat Znat Lia Permutation.
From BSE Require Import Proofs.HeaderSpec Proofs.PruneFS Proofs.MatrixSpec Proofs.NwchemSpec Proofs.NwchemEcpSpec
                        Proofs.GamessUsSpec Proofs.GamessUsEcpSpec Proofs.OrcaSpec.

(* ================================================================== *)
(* 1. the electron part                                                *)
(* ================================================================== *)
(* [coefficients[0], exponents, *coefficients[1:]] *)
Definition kcols (s : sshell) : list (list cell) :=
  match coefs s with
  | c0 :: ct => map CStr c0 :: map CStr (exps s) :: map (map CStr) ct
  | [] => []
  end.
Definition kpps (s : sshell) : list Z := guk_point_places (List.length (coefs s) + 2).
Definition khdr (sym : string) (s : sshell) : string := upper (amch true true (am s)) +++ "   " +++ sym.
Definition kshell_lines (sym : string) (s : sshell) : list string := khdr sym s :: wm_rows (kcols s) (kpps s).
Definition kel_lines (zs : Z * list sshell) : list string :=
  "" :: ("# " +++ upper (lname (fst zs))) :: flat_map (kshell_lines (nsym (fst zs))) (snd zs).
Definition kel_ok (zs : Z * list sshell) : Prop := (1 <= fst zs <= 120)%Z /\ Forall guk_shell_ok (snd zs).

Lemma kcols_ok : forall s, guk_shell_ok s ->
  cells_ok (kcols s) /\ List.length (kcols s) <= List.length (kpps s) /\
  Forall (fun r => List.length r = List.length (exps s)) (kcols s).
Proof.
  intros s [_ [Hne [HcF [He Hc]]]]. unfold kcols, kpps, guk_point_places. destruct (coefs s) as [|c0 ct]; [congruence|].
  inversion HcF as [|? ? Hc0 HctF]; subst. inversion Hc as [|? ? Hf0 Hft]; subst. split; [|split].
  - apply cells_ok_cons; [apply floats_cells, Hf0|]. apply cells_ok_cons; [apply floats_cells, He | apply cells_ok_floats, Hft].
  - cbn [List.length]. rewrite !map_length, zrange_length. lia.
  - constructor; [rewrite map_length; exact Hc0|]. constructor; [apply map_length|].
    rewrite Forall_forall in *. intros r Hr. apply in_map_iff in Hr. destruct Hr as [c [<- Hcin]]. rewrite map_length. apply HctF, Hcin.
Qed.

Lemma kshell_write : forall sym s, guk_shell_ok s -> good_line sym ->
  guk_write_shell sym s = inr (unlines (kshell_lines sym s)) /\ Forall good_line (kshell_lines sym s).
Proof.
  intros sym s Hs Gsym. destruct (kcols_ok s Hs) as [Hok [Hlen _]]. destruct (wm_write _ _ Hok Hlen) as [E1 E2].
  pose proof Hs as [Ha [Hne _]]. destruct (amch_facts true true (am s) Ha) as [Ea [_ [_ Gu]]]. split.
  - unfold guk_write_shell. rewrite Ea. unfold bind. unfold kshell_lines, khdr. unfold kcols, kpps in *.
    destruct (coefs s) as [|c0 ct]; [congruence|]. rewrite E1, E2. unfold ok. rewrite unlines_cons, !sapp_assoc. reflexivity.
  - constructor; [|apply wm_good; assumption]. unfold khdr. apply good_app; [exact Gu|]. apply good_app; [reflexivity | exact Gsym].
Qed.

Lemma kel_write : forall zs, kel_ok zs -> guk_write_element zs = inr (unlines (kel_lines zs)) /\ Forall good_line (kel_lines zs).
Proof.
  intros [z shs] [Hz Hshs]. cbn [fst snd] in *. destruct (el_facts z Hz) as [En [Es [_ [Gn [Gs _]]]]]. split.
  - unfold guk_write_element. rewrite En. unfold bind. rewrite Es.
    rewrite (mapM_map_ok _ _ (guk_write_shell (nsym z)) (fun s => unlines (kshell_lines (nsym z) s))).
    + unfold kel_lines, ok. cbn [fst snd]. rewrite !unlines_cons, unlines_flat_map, !sapp_assoc. reflexivity.
    + intros s Hin. apply kshell_write; [|exact Gs]. rewrite Forall_forall in Hshs. apply Hshs, Hin.
  - unfold kel_lines. cbn [fst snd]. constructor; [reflexivity|]. constructor; [apply good_app; [reflexivity | exact Gn]|].
    rewrite Forall_forall in *. intros l Hl. apply in_flat_map in Hl. destruct Hl as [s [Hs Hl]].
    destruct (kshell_write (nsym z) s (Hshs s Hs) Gs) as [_ G]. rewrite Forall_forall in G. apply G, Hl.
Qed.

Lemma kelectron_write : forall els, Forall kel_ok els ->
  guk_write_electron els = inr (unlines (flat_map kel_lines els)) /\ Forall good_line (flat_map kel_lines els).
Proof.
  intros els H. split.
  - unfold guk_write_electron. rewrite (mapM_map_ok _ _ guk_write_element (fun zs => unlines (kel_lines zs))).
    + unfold bind, ok. rewrite unlines_flat_map. reflexivity.
    + intros e He. apply kel_write. rewrite Forall_forall in H. apply H, He.
  - rewrite Forall_forall in *. intros l Hl. apply in_flat_map in Hl. destruct Hl as [e [He Hl]].
    destruct (kel_write e (H e He)) as [_ G]. rewrite Forall_forall in G. apply G, Hl.
Qed.

Lemma kshell_token : forall sym s x, guk_shell_ok s -> (In x (exps s) \/ exists c, In c (coefs s) /\ In x c) ->
  exists line, In line (kshell_lines sym s) /\ In x (tokens_acc line "").
Proof.
  intros sym s x Hs Hx. destruct (kcols_ok s Hs) as [Hok [Hlen HF]].
  assert (Hcol : exists l, In (map CStr l) (kcols s) /\ In x l).
  { unfold kcols. destruct Hs as [_ [Hne _]]. destruct (coefs s) as [|c0 ct]; [congruence|]. destruct Hx as [Hx|[c [Hc Hx]]].
    - exists (exps s). split; [right; now left | exact Hx].
    - exists c. split; [|exact Hx]. destruct Hc as [<-|Hc]; [now left | right; right; apply in_map, Hc]. }
  destruct Hcol as [l [Hl Hxl]].
  destruct (wm_token_str _ _ _ l x Hok Hlen HF Hl Hxl) as [line [Hline Htok]].
  exists line. split; [right; exact Hline | exact Htok].
Qed.

(* ================================================================== *)
(* 2. the ECP part                                                     *)
(* ================================================================== *)
Definition kmx (e : Z * (Z * list epot)) : Z := zmax (map pot_l (snd (snd e))).
Definition kpot_lines (p : epot) : list string := wm_rows (guk_ecp_cols p) guk_ecp_point_places.
Definition kecp_hdr (e : Z * (Z * list epot)) : string := "    " +++ Z_to_string (kmx e) +++ "     " +++ Z_to_string (fst (snd e)).
Definition kecp_lines (e : Z * (Z * list epot)) : list string :=
  ("CARDS " +++ upper (lsym (fst e))) :: kecp_hdr e :: flat_map kpot_lines (ecp_written_order (snd (snd e))) ++ [""].

Lemma guk_cols_ok : forall p, guk_pot_ok p ->
  cells_ok (guk_ecp_cols p) /\ List.length (guk_ecp_cols p) <= List.length guk_ecp_point_places /\
  Forall (fun r => List.length r = List.length (p_rexp p)) (guk_ecp_cols p).
Proof.
  intros p [_ [Hg [Hn [HcF [Hgf Hcf]]]]]. unfold guk_ecp_cols, guk_ecp_point_places. split; [|split].
  - apply cells_ok_cons; [apply cints_ok|]. apply cells_ok_app; [apply cells_ok_floats, Hcf|].
    apply cells_ok_cons; [apply floats_cells, Hgf | apply cells_ok_nil].
  - cbn [List.length]. rewrite app_length, map_length. cbn [List.length]. lia.
  - constructor; [apply map_length|]. apply Forall_app. split; [|constructor; [rewrite map_length; exact Hg | constructor]].
    rewrite Forall_forall in *. intros r Hr. apply in_map_iff in Hr. destruct Hr as [c [<- Hcin]]. rewrite map_length. apply HcF, Hcin.
Qed.

Lemma kpot_write : forall p, guk_pot_ok p -> guk_write_pot p = inr (unlines (kpot_lines p)) /\ Forall good_line (kpot_lines p).
Proof.
  intros p Hp. destruct (guk_cols_ok p Hp) as [Hok [Hlen _]]. destruct (wm_write _ _ Hok Hlen) as [E1 E2]. split.
  - unfold guk_write_pot. rewrite E1. unfold bind. exact E2.
  - apply wm_good; assumption.
Qed.

Lemma kecp_el_write : forall e, guk_ecp_el_ok e ->
  guk_write_ecp_element e = inr (unlines (kecp_lines e)) /\ Forall good_line (kecp_lines e).
Proof.
  intros [z [n pots]] [Hz [Hne Hp]]. cbn [fst snd] in *. destruct (el_facts z Hz) as [_ [_ [Es [_ [_ Gs]]]]].
  assert (Ham : Forall (fun p => p_am p <> []) pots) by (rewrite Forall_forall in *; intros p Hin; apply (Hp p Hin)).
  destruct (max_am_gen pots Hne Ham) as [Emx _].
  destruct (gus_order_ok pots Hne) as [Eo Hperm]. pose proof (Forall_perm _ _ _ _ Hperm Hp) as Hsp. split.
  - unfold guk_write_ecp_element. rewrite Es. unfold bind. rewrite Emx, Eo.
    rewrite (mapM_map_ok _ _ guk_write_pot (fun p => unlines (kpot_lines p))).
    + unfold kecp_lines, kecp_hdr, kmx, ok. cbn [fst snd].
      rewrite !unlines_cons, unlines_app, unlines_flat_map, !sapp_assoc. reflexivity.
    + intros p Hin. apply kpot_write. rewrite Forall_forall in Hsp. apply Hsp, Hin.
  - unfold kecp_lines, kecp_hdr. cbn [fst snd]. constructor; [apply good_app; [reflexivity | exact Gs]|].
    constructor.
    { apply good_app; [reflexivity|]. apply good_app; [apply Z_to_string_good|]. apply good_app; [reflexivity | apply Z_to_string_good]. }
    apply Forall_app. split; [|repeat constructor].
    rewrite Forall_forall in *. intros l Hl. apply in_flat_map in Hl. destruct Hl as [p [Hpin Hl]].
    destruct (kpot_write p (Hsp p Hpin)) as [_ G]. rewrite Forall_forall in G. apply G, Hl.
Qed.

Definition kecp_part (ecps : list (Z * (Z * list epot))) : list string :=
  match ecps with
  | [] => []
  | _ => "" :: "" :: "Effective Core Potentials" :: "---------------------------" :: flat_map kecp_lines ecps
  end.

Lemma kecp_write : forall ecps, Forall guk_ecp_el_ok ecps ->
  guk_write_ecp ecps = inr (unlines (kecp_part ecps)) /\ Forall good_line (kecp_part ecps).
Proof.
  intros ecps H. destruct ecps as [|e0 ecps0]; [split; [reflexivity | constructor]|]. set (L := e0 :: ecps0) in *. split.
  - assert (E : guk_write_ecp L =
                (do parts <- mapM guk_write_ecp_element L;
                 ok (nl1 +++ nl1 +++ "Effective Core Potentials" +++ nl1 +++ "---------------------------" +++ nl1 +++
                     String.concat "" parts))) by reflexivity.
    rewrite E. rewrite (mapM_map_ok _ _ guk_write_ecp_element (fun e => unlines (kecp_lines e))).
    + unfold bind, ok. change (kecp_part L) with ("" :: "" :: "Effective Core Potentials" :: "---------------------------" :: flat_map kecp_lines L).
      rewrite !unlines_cons, unlines_flat_map. reflexivity.
    + intros e He. apply kecp_el_write. rewrite Forall_forall in H. apply H, He.
  - change (kecp_part L) with ("" :: "" :: "Effective Core Potentials" :: "---------------------------" :: flat_map kecp_lines L).
    repeat (constructor; [reflexivity|]).
    rewrite Forall_forall in *. intros l Hl. apply in_flat_map in Hl. destruct Hl as [e [He Hl]].
    destruct (kecp_el_write e (H e He)) as [_ G]. rewrite Forall_forall in G. apply G, Hl.
Qed.

Lemma kecp_part_in : forall ecps e l, In e ecps -> In l (kecp_lines e) -> In l (kecp_part ecps).
Proof.
  intros ecps e l He Hl. destruct ecps as [|e0 ecps0]; [destruct He|]. cbn [kecp_part]. right. right. right. right.
  apply in_flat_map. exists e. split; assumption.
Qed.

(* ================================================================== *)
(* 3. the whole file                                                   *)
(* ================================================================== *)
Definition guk_lines (els : list (Z * list sshell)) (ecps : list (Z * (Z * list epot))) : list string :=
  flat_map kel_lines els ++ kecp_part ecps.

Lemma guk_text : forall els ecps, guk_ok els ecps ->
  guk_write_all els ecps = inr (unlines (guk_lines els ecps)) /\ Forall good_line (guk_lines els ecps).
Proof.
  intros els ecps [H1 H2]. destruct (kelectron_write els H1) as [Ee Ge]. destruct (kecp_write ecps H2) as [Ep Gp]. split.
  - unfold guk_write_all. rewrite Ee. unfold bind at 1. rewrite Ep. unfold bind, ok, guk_lines. rewrite unlines_app. reflexivity.
  - apply Forall_app. split; assumption.
Qed.

Lemma guk_written_lines : forall els ecps t, guk_ok els ecps -> guk_write_all els ecps = inr t ->
  splitlines t = guk_lines els ecps.
Proof.
  intros els ecps t H E. destruct (guk_text els ecps H) as [Et G]. rewrite Et in E. inversion E; subst t.
  apply splitlines_unlines, G.
Qed.

Lemma guk_write_total : guk_write_total_stmt.
Proof. intros els ecps H. eexists. apply (guk_text els ecps H). Qed.

Lemma guk_no_number_lost : guk_no_number_lost_stmt.
Proof.
  intros els ecps t H E x [zs [s [Hzs [Hs Hx]]]]. rewrite (guk_written_lines els ecps t H E).
  destruct H as [H1 _]. rewrite Forall_forall in H1. destruct (H1 zs Hzs) as [_ Hshs]. rewrite Forall_forall in Hshs.
  destruct (kshell_token (nsym (fst zs)) s x (Hshs s Hs) Hx) as [line [Hl Ht]].
  exists line. split; [|exact Ht]. unfold guk_lines. apply in_or_app. left. apply in_flat_map. exists zs. split; [exact Hzs|].
  unfold kel_lines. right. right. apply in_flat_map. exists s. split; assumption.
Qed.

Lemma kpot_token : forall p x, guk_pot_ok p ->
  (In x (p_gexp p) \/ (exists c, In c (p_coef p) /\ In x c) \/ exists r, In r (p_rexp p) /\ x = Z_to_string r) ->
  exists line, In line (kpot_lines p) /\ In x (tokens_acc line "").
Proof.
  intros p x Hp Hx. destruct (guk_cols_ok p Hp) as [Hok [Hlen HF]]. unfold kpot_lines.
  destruct Hx as [Hx|[[c [Hc Hx]]|[r [Hr ->]]]].
  - apply (wm_token_str _ _ _ (p_gexp p) x Hok Hlen HF); [|exact Hx]. unfold guk_ecp_cols. right. apply in_or_app. right. now left.
  - apply (wm_token_str _ _ _ c x Hok Hlen HF); [|exact Hx]. unfold guk_ecp_cols. right. apply in_or_app. left. apply in_map, Hc.
  - apply (wm_token_int _ _ _ (p_rexp p) r Hok Hlen HF); [|exact Hr]. unfold guk_ecp_cols. now left.
Qed.

Lemma guk_ecp_no_number_lost : guk_ecp_no_number_lost_stmt.
Proof.
  intros els ecps t H E x [e [He Hx]]. rewrite (guk_written_lines els ecps t H E).
  destruct H as [_ H2]. rewrite Forall_forall in H2. pose proof (H2 e He) as Hok.
  assert (Hl : exists line, In line (kecp_lines e) /\ In x (tokens_acc line "")).
  { destruct Hx as [->|[p [Hp Hx]]].
    - exists (kecp_hdr e). split; [right; now left|]. unfold kecp_hdr.
      change ("    " +++ Z_to_string (kmx e) +++ "     " +++ Z_to_string (fst (snd e)))
        with (("    " +++ Z_to_string (kmx e)) +++ sp 5 +++ Z_to_string (fst (snd e))).
      apply tokens_last_int.
    - destruct Hok as [_ [Hne Hpok]]. rewrite Forall_forall in Hpok.
      destruct (kpot_token p x (Hpok p Hp) Hx) as [line [Hline Htok]]. exists line. split; [|exact Htok].
      unfold kecp_lines. right. right. apply in_or_app. left. apply in_flat_map. exists p. split; [|exact Hline].
      destruct (gus_order_ok _ Hne) as [_ Hperm]. apply (Permutation_in _ Hperm), Hp. }
  destruct Hl as [line [Hline Htok]]. exists line. split; [|exact Htok].
  unfold guk_lines. apply in_or_app. right. exact (kecp_part_in ecps e line He Hline).
Qed.

(* ================================================================== *)
(* 4. the closed statements (by computation)                           *)
(* ================================================================== *)
Ltac kshell_ok := split; [zrange_ok | split; [discriminate | split; [repeat constructor | split; floats]]].
Ltac kpot_ok := split; [discriminate | split; [reflexivity | split; [cbn; lia | split; [repeat constructor | split; floats]]]].
Ltac kecp_el_ok := split; [cbn; lia | split; [discriminate | cbn [snd]; repeat (constructor; [kpot_ok|]); constructor]].
Ltac guk_ok_tac :=
  split; [repeat (constructor; [split; [cbn; lia | cbn [snd]; repeat (constructor; [kshell_ok|]); constructor]|]); constructor
         | repeat (constructor; [kecp_el_ok|]); constructor].

Lemma guk_conditions : guk_conditions_stmt.
Proof. repeat split; vm_compute; reflexivity. Qed.
Lemma guk_not_needed : guk_not_needed_stmt.
Proof. repeat split; vm_compute; reflexivity. Qed.
Lemma guk_ecp_conditions : guk_ecp_conditions_stmt.
Proof. repeat split; vm_compute; reflexivity. Qed.
Lemma guk_ecp_anything : guk_ecp_anything_stmt.
Proof. split; [guk_ok_tac | vm_compute; reflexivity]. Qed.
Lemma guk_ecp_ambiguous : guk_ecp_ambiguous_stmt.
Proof.
  split; [unfold guk_amb_a, guk_na; guk_ok_tac|]. split; [unfold guk_amb_b, guk_na; guk_ok_tac|].
  split; [discriminate|]. split; vm_compute; reflexivity.
Qed.
Lemma guk_two_ecps : guk_two_ecps_stmt.
Proof. vm_compute. reflexivity. Qed.
Lemma guk_example : guk_example_stmt.
Proof.
  split; [unfold guk_ex_els, guk_ex_ecps; guk_ok_tac|]. split; [vm_compute; reflexivity|].
  split; [unfold guk_sp_els, guk_sp_ecps; guk_ok_tac | vm_compute; reflexivity].
Qed.

Print Assumptions guk_write_total.
Print Assumptions guk_no_number_lost.
Print Assumptions guk_ecp_no_number_lost.
Print Assumptions guk_conditions.
Print Assumptions guk_not_needed.
Print Assumptions guk_ecp_conditions.
Print Assumptions guk_ecp_anything.
Print Assumptions guk_ecp_ambiguous.
Print Assumptions guk_two_ecps.
Print Assumptions guk_example.
