(* Proofs of the statements of Proofs/Cp2kEcpDefs.v: write_cp2k is total on well-formed input and loses no number, and
   whatever it writes for a basis with an ECP makes read_cp2k raise RuntimeError (cp2k_all_unreadable). *)
From BSE Require Import Model.Val Model.Text Model.Basis Model.Manip Model.Matrix Gen.GenLut Model.Lut Model.Elements
                        Model.Nwchem Model.NwchemEcp Model.G94 Model.GamessUs Model.Cp2k Model.Cp2kEcp
                        Proofs.MatrixDefs Proofs.NwchemDefs Proofs.NwchemEcpDefs Proofs.Cp2kDefs Proofs.Cp2kEcpDefs
                        Proofs.C20Finite.
From Coq Require Import NArith Nnat Znat Permutation.
From BSE Require Import Proofs.HeaderSpec Proofs.PruneFS Proofs.MatrixSpec Proofs.NwchemSpec Proofs.NwchemEcpSpec
                        Proofs.TurbomoleSpec Proofs.G94Spec Proofs.GamessUsSpec Proofs.Cp2kSpec.

(* ================================================================== *)
(* 1. the lines of the ECP section                                     *)
(* ================================================================== *)
Definition kpps : list Z := cp2k_ecp_point_places.
Definition krw (row : list cell) : string := match write_row row kpps true "" with inr l => l | inl _ => "" end.
Definition kprows (p : epot) : list string := map krw (map cellrow (ptrip p)).
Definition kpot_head (sym : string) (mx : Z) (p : epot) : string :=
  if Z.eqb (pot_l p) mx then sym +++ " ul" else sym +++ " " +++ upper (amch_of (p_am p)).
Definition kpot_lines (sym : string) (mx : Z) (p : epot) : list string := kpot_head sym mx p :: kprows p.
Definition kecp_el_lines (e : Z * (Z * list epot)) : list string :=
  nelec_line (ksym (fst e)) (fst (snd e)) ::
  flat_map (kpot_lines (ksym (fst e)) (el_mx e)) (ecp_written_order (snd (snd e))).
Definition kend (bsname : string) : string := "END " +++ cp2k_ecp_name bsname.
Definition kecp_lines (bsname : string) (ecps : list (Z * (Z * list epot))) : list string :=
  "" :: "" :: "## Effective core potentials" :: cp2k_ecp_name bsname :: flat_map kecp_el_lines ecps ++ [kend bsname].
Definition kecp_part (bsname : string) (ecps : list (Z * (Z * list epot))) : list string :=
  match ecps with [] => [] | _ => kecp_lines bsname ecps end.

Lemma krw_facts : forall t, trip_ok t ->
  write_row (cellrow t) kpps true "" = inr (krw (cellrow t)) /\
  good_line (krw (cellrow t)) /\ tokens_acc (krw (cellrow t)) "" = tokrow t.
Proof.
  intros t Ht. destruct (cellrow_ok t Ht) as [Hok Hasc].
  destruct (write_row_total (cellrow t) kpps true "" Hok) as [line Hl].
  { destruct t as [[x y] z]. cbn. lia. }
  unfold krw. rewrite Hl. split; [reflexivity|]. split.
  - apply (write_row_chars nobd eq_refl (cellrow t) kpps true "" line); [|reflexivity|exact Hl].
    rewrite Forall_forall in *. intros c Hc. apply cell_nobd; [apply Hok | apply Hasc]; exact Hc.
  - rewrite (write_row_tokens_gen _ _ _ _ _ Hok (fun _ => eq_refl) Hl). destruct t as [[x y] z]. reflexivity.
Qed.

Lemma kwrite_pot_lines : forall sym mx p, ecp_pot_ok p -> cp2k_write_pot sym mx p = inr (unlines (kpot_lines sym mx p)).
Proof.
  intros sym mx p Hp. destruct (pot_facts p Hp) as [Ecols [_ [Hg [Hc [Fg [Fc [Hts _]]]]]]].
  destruct (pot_am_facts p Hp) as [A1 [A2 _]].
  unfold cp2k_write_pot. rewrite A1, A2. unfold bind. rewrite Ecols.
  rewrite leftpad_ok.
  2:{ cbn. lia. }
  2:{ unfold floating in *. constructor; [|constructor; [apply floats_cells, Fg | constructor; [apply floats_cells, Fc | constructor]]].
      rewrite Forall_forall. intros c Hc'. apply in_map_iff in Hc'. destruct Hc' as [x [<- _]]. exact I. }
  assert (Hw : write_matrix [map CInt (p_rexp p); map CStr (p_gexp p); map CStr (pcoef p)] cp2k_ecp_point_places false
               = inr (unlines (kprows p))).
  { unfold write_matrix, transpose_cells. rewrite transpose_trip. fold (ptrip p).
    rewrite (mapM_map_ok _ _ _ krw (map cellrow (ptrip p))); [reflexivity|].
    intros row Hrow. apply in_map_iff in Hrow. destruct Hrow as [t [<- Ht]]. apply krw_facts, Hts, Ht. }
  rewrite Hw. unfold ok, kpot_lines, kpot_head. rewrite unlines_cons.
  destruct (Z.eqb (pot_l p) mx); rewrite !sapp_assoc; reflexivity.
Qed.

Lemma kwrite_ecp_element_lines : forall e, cp2k_ecp_el_ok e -> cp2k_write_ecp_element e = inr (unlines (kecp_el_lines e)).
Proof.
  intros [z [n pots]] [Hz [Hne [Hok Hnd]]]. destruct (kel_facts z Hz) as [Es _].
  destruct (written_order_ok pots Hne Hok Hnd) as [Eo [Hoo _]].
  unfold cp2k_write_ecp_element. rewrite Es. unfold bind. rewrite (max_am_ok pots Hne Hok), Eo.
  rewrite (mapM_map_ok _ _ _ (fun p => unlines (kpot_lines (ksym z) (zmax (map pot_l pots)) p))).
  - unfold ok, kecp_el_lines, el_mx, nelec_line. cbn [fst snd]. rewrite unlines_cons, unlines_flat_map, !sapp_assoc. reflexivity.
  - intros p Hp. apply kwrite_pot_lines. rewrite Forall_forall in Hoo. apply Hoo, Hp.
Qed.

Lemma kwrite_ecp_lines : forall bsname ecps, Forall cp2k_ecp_el_ok ecps ->
  cp2k_write_ecp bsname ecps = inr (unlines (kecp_part bsname ecps)).
Proof.
  intros bsname ecps Hel. unfold cp2k_write_ecp, kecp_part. destruct ecps as [|e0 ecps0]; [reflexivity|].
  rewrite (mapM_map_ok _ _ cp2k_write_ecp_element (fun e => unlines (kecp_el_lines e))).
  - unfold bind, ok, kecp_lines, kend. rewrite !unlines_cons, unlines_app, unlines_flat_map, unlines_cons, !sapp_assoc. reflexivity.
  - intros e Hin. apply kwrite_ecp_element_lines. rewrite Forall_forall in Hel. apply Hel, Hin.
Qed.

Lemma kwrite_all_lines : forall bsname els ecps, cp2k_all_ok bsname els ecps ->
  cp2k_write_all bsname els ecps = inr (unlines (kall bsname els ++ kecp_part bsname ecps)).
Proof.
  intros bsname els ecps [Hok [_ Hel]]. unfold cp2k_write_all.
  rewrite (write_electron_klines bsname els (cp2k_ok_els bsname els Hok)), (kwrite_ecp_lines bsname ecps Hel).
  unfold bind, ok. now rewrite unlines_app.
Qed.

Lemma cp2k_all_write_total : cp2k_all_write_total_stmt.
Proof. intros bsname els ecps H. eexists. apply kwrite_all_lines, H. Qed.

Lemma cp2k_all_noecp : cp2k_all_noecp_stmt.
Proof.
  intros bsname els H.
  assert (E : cp2k_write_all bsname els [] = cp2k_write_electron bsname els).
  { unfold cp2k_write_all. cbn [cp2k_write_ecp]. destruct (cp2k_write_electron bsname els) as [e|a]; [reflexivity|].
    unfold bind, ok. now rewrite sapp_nil_r. }
  split; [exact E|]. unfold cp2k_roundtrip_all. rewrite E. apply (cp2k_roundtrip_exact bsname els H).
Qed.

(* ---- every line is a complete line for splitlines ---- *)
Definition fsub (c : ascii) : ascii := if Ascii.eqb c " " then "_"%char else c.
Lemma ename_nobd : forall bsname, cp2k_name_ok bsname -> sall nobd (cp2k_ecp_name bsname) = true.
Proof.
  intros bsname Hn. destruct (name_facts_k bsname Hn) as [Hb _]. unfold cp2k_ecp_name. rewrite sall_app, sall_smap.
  rewrite (sall_impl nobd (fun c => nobd (if Ascii.eqb c " " then "_"%char else c)) bsname); [reflexivity| |exact Hb].
  intros c Hc. destruct (Ascii.eqb c " "); [reflexivity | exact Hc].
Qed.

Lemma ksym_nobd : forall z, (1 <= z <= 120)%Z -> sall nobd (ksym z) = true.
Proof. intros z Hz. destruct (kel_facts z Hz) as [_ [_ [_ [Hs _]]]]. exact (sall_impl is_alpha nobd _ alpha_nobd Hs). Qed.

Lemma kpot_lines_good : forall z mx p, (1 <= z <= 120)%Z -> ecp_pot_ok p -> Forall good_line (kpot_lines (ksym z) mx p).
Proof.
  intros z mx p Hz Hp. destruct (pot_facts p Hp) as [_ [_ [_ [_ [_ [_ [Hts _]]]]]]]. destruct (pot_am_facts p Hp) as [_ [_ [A2 _]]].
  unfold kpot_lines. constructor.
  - unfold kpot_head, good_line. destruct (Z.eqb (pot_l p) mx); rewrite !sall_app, (ksym_nobd z Hz).
    + reflexivity.
    + rewrite (sall_impl is_alpha nobd _ alpha_nobd A2). reflexivity.
  - unfold kprows. rewrite Forall_forall. intros l Hl. apply in_map_iff in Hl. destruct Hl as [row [<- Hrow]].
    apply in_map_iff in Hrow. destruct Hrow as [t [<- Ht]]. apply krw_facts, Hts, Ht.
Qed.

Lemma kecp_el_lines_good : forall e, cp2k_ecp_el_ok e -> Forall good_line (kecp_el_lines e).
Proof.
  intros [z [n pots]] [Hz [Hne [Hok Hnd]]]. destruct (written_order_ok pots Hne Hok Hnd) as [_ [Hoo _]].
  unfold kecp_el_lines. cbn [fst snd]. constructor.
  - unfold good_line, nelec_line. rewrite !sall_app, (ksym_nobd z Hz).
    rewrite (sall_impl intc nobd _ intc_nobd (Z_to_string_intc n)). reflexivity.
  - rewrite Forall_forall in *. intros l Hl. apply in_flat_map in Hl. destruct Hl as [p [Hp Hl]].
    pose proof (kpot_lines_good z (el_mx (z, (n, pots))) p Hz (Hoo p Hp)) as G. rewrite Forall_forall in G. apply G, Hl.
Qed.

Lemma kecp_part_good : forall bsname ecps, cp2k_name_ok bsname -> Forall cp2k_ecp_el_ok ecps ->
  Forall good_line (kecp_part bsname ecps).
Proof.
  intros bsname ecps Hn Hel. unfold kecp_part. destruct ecps as [|e0 ecps0]; [constructor|]. unfold kecp_lines.
  repeat (constructor; [reflexivity|]). constructor; [apply ename_nobd, Hn|].
  apply Forall_app. split.
  - rewrite Forall_forall in *. intros l Hl. apply in_flat_map in Hl. destruct Hl as [e [He Hl]].
    pose proof (kecp_el_lines_good e (Hel e He)) as G. rewrite Forall_forall in G. apply G, Hl.
  - constructor; [|constructor]. unfold good_line, kend. rewrite sall_app, (ename_nobd bsname Hn). reflexivity.
Qed.

Lemma kall_written_lines : forall bsname els ecps t, cp2k_all_ok bsname els ecps -> cp2k_write_all bsname els ecps = inr t ->
  splitlines t = kall bsname els ++ kecp_part bsname ecps.
Proof.
  intros bsname els ecps t H E. rewrite (kwrite_all_lines bsname els ecps H) in E. inversion E; subst.
  destruct H as [Hok [_ Hel]]. apply splitlines_unlines, Forall_app. split; [apply kall_good, Hok|].
  apply kecp_part_good; [apply Hok | exact Hel].
Qed.

(* ---------- cp2k_ecp_no_number_lost ---------- *)
Lemma cp2k_ecp_no_number_lost : cp2k_ecp_no_number_lost_stmt.
Proof.
  intros bsname els ecps t H E. rewrite (kall_written_lines bsname els ecps t H E). destruct H as [Hok [_ Hel]]. split.
  - intros x [e [He Hx]]. rewrite Forall_forall in Hel. pose proof (Hel e He) as Hek.
    destruct e as [z [n pots]]. cbn [fst snd] in Hx.
    assert (Hsub : forall line, In line (kecp_el_lines (z, (n, pots))) -> In line (kall bsname els ++ kecp_part bsname ecps)).
    { intros line Hl. apply in_or_app. right. unfold kecp_part. destruct ecps as [|e0 ecps0]; [destruct He|].
      unfold kecp_lines. do 4 right. apply in_or_app. left. apply in_flat_map. eexists. split; [exact He | exact Hl]. }
    destruct Hx as [->|[p [Hp Hx]]].
    + exists (nelec_line (ksym z) n). split; [apply Hsub; now left | apply nelec_tokens].
    + destruct Hek as [Hz [Hne [Hpok Hnd]]]. destruct (written_order_ok pots Hne Hpok Hnd) as [_ [_ Hperm]].
      rewrite Forall_forall in Hpok. pose proof (Hpok p Hp) as Hpp.
      destruct (pot_facts p Hpp) as [_ [Ec [Hg [Hc [_ [_ [Hts _]]]]]]].
      destruct (trip_proj _ _ _ Hg Hc) as [P1 [P2 P3]]. fold (ptrip p) in P1, P2, P3.
      assert (Ht : exists tr, In tr (ptrip p) /\ In x (tokrow tr)).
      { destruct Hx as [Hx|[[c [Hcin Hx]]|[r [Hr ->]]]].
        - rewrite <- P2 in Hx. apply in_map_iff in Hx. destruct Hx as [[[a b] c] [<- Hin]]. eexists. split; [exact Hin|]. right. now left.
        - rewrite Ec in Hcin. destruct Hcin as [<-|[]]. rewrite <- P3 in Hx. apply in_map_iff in Hx.
          destruct Hx as [[[a b] c] [<- Hin]]. eexists. split; [exact Hin|]. right. right. now left.
        - rewrite <- P1 in Hr. apply in_map_iff in Hr. destruct Hr as [[[a b] c] [<- Hin]]. eexists. split; [exact Hin|]. now left. }
      destruct Ht as [tr [Htr Hxt]]. exists (krw (cellrow tr)). destruct (krw_facts tr (Hts tr Htr)) as [_ [_ Htok]].
      split; [|rewrite Htok; exact Hxt].
      apply Hsub. unfold kecp_el_lines. cbn [fst snd]. right. apply in_flat_map. exists p.
      split; [apply (Permutation_in _ Hperm), Hp|]. unfold kpot_lines, kprows. right. apply in_map, in_map, Htr.
  - intros x Hx. destruct (cp2k_write_total bsname els Hok) as [t0 Et0].
    destruct (cp2k_no_number_lost bsname els t0 Hok Et0 x Hx) as [line [Hl Hx']].
    rewrite (kwritten_lines bsname els t0 Hok Et0) in Hl. exists line. split; [apply in_or_app; now left | exact Hx'].
Qed.

(* ================================================================== *)
(* 2. prune_lines on the ECP lines                                     *)
(* ================================================================== *)
Definition okc (c : ascii) : bool := negb (orb (Ascii.eqb c "!") (Ascii.eqb c "#")).

Lemma strip_head_l : forall l c r, strip_ws l = String c r -> exists y, lstrip_ws l = String c y.
Proof.
  intros l c r H. rewrite strip_rl in H. destruct (lstrip_shape l) as [E|[c0 [y [E Hc]]]].
  - rewrite E in H. discriminate H.
  - rewrite E in H. destruct (rstrip_head c0 y Hc) as [Z EZ]. rewrite EZ in H. inversion H; subst. exists y. exact E.
Qed.

Lemma lstrip_in : forall p l c y, lstrip_ws l = String c y -> sall p l = true -> p c = true.
Proof.
  intros p; induction l as [|a l IH]; intros c y H Hp; [discriminate H|].
  cbn [sall] in Hp. apply andb_true_iff in Hp. destruct Hp as [Ha Hl]. cbn [lstrip_ws] in H.
  destruct (is_space a); [apply (IH c y H Hl)|]. inversion H; subst. exact Ha.
Qed.

Lemma prune2_okc : forall l, sall okc l = true -> strip_ws l <> "" -> prune2 [l] = [strip_ws l].
Proof.
  intros l Hc Hne. destruct (strip_ws l) as [|c r] eqn:E; [congruence|].
  destruct (strip_head_l l c r E) as [y Ey]. pose proof (lstrip_in okc l c y Ey Hc) as Hok.
  unfold okc in Hok. apply negb_true_iff, orb_false_iff in Hok. destruct Hok as [H1 H2].
  apply (prune2_keep l c r E H1 H2).
Qed.

Definition eline (l : string) : Prop := sall okc l = true /\ strip_ws l <> "".

Lemma prune2_elines : forall L, Forall eline L -> prune2 L = map strip_ws L.
Proof.
  induction L as [|l L IH]; intros H; [reflexivity|]. inversion H as [|? ? [H1 H2] HL]; subst.
  rewrite prune2_cons, (prune2_okc l H1 H2), (IH HL). reflexivity.
Qed.

Lemma strip_nonblank : forall l t ts, tokens_acc l "" = t :: ts -> strip_ws l <> "".
Proof.
  intros l t ts H. destruct (tokens_first2 l t ts H) as [_ [_ [Hne _]]]. destruct (strip_tok_prefix l t ts H) as [rest E].
  rewrite E. destruct t; [congruence | discriminate].
Qed.

(* ---- characters ---- *)
Lemma fchar_okc : forall c, fchar c = true -> okc c = true.
Proof. intros c H. all_chars c; try reflexivity; discriminate H. Qed.
Lemma alpha_okc : forall c, is_alpha c = true -> okc c = true.
Proof. intros c H. all_chars c; try reflexivity; discriminate H. Qed.
Lemma namec_okc : forall c, orb (name_char c) (cp2k_sep_char c) = true -> okc (if Ascii.eqb c " " then "_"%char else c) = true.
Proof. intros c H. unfold name_char, cp2k_sep_char in H. all_chars c; try reflexivity; discriminate H. Qed.

Lemma ename_okc : forall bsname, cp2k_name_ok bsname -> sall okc (cp2k_ecp_name bsname) = true.
Proof.
  intros bsname [H1 _]. unfold cp2k_ecp_name. rewrite sall_app, sall_smap.
  rewrite (sall_impl _ (fun c => okc (if Ascii.eqb c " " then "_"%char else c)) bsname namec_okc H1). reflexivity.
Qed.

(* ---- words ---- *)
Lemma tokens_app_word : forall w, tok_ok w -> forall X cur, exists pre t, tokens_acc (X +++ w) cur = pre ++ [t +++ w].
Proof.
  intros w Hw; induction X as [|c X IH]; intros cur.
  - cbn [String.append]. destruct Hw as [Hne Hs].
    assert (E0 : tokens_acc w cur = tokens_acc "" (srev w +++ cur)).
    { rewrite <- (sapp_nil_r w) at 1. apply tokens_word, Hs. }
    rewrite E0. cbn [tokens_acc]. exists [], (srev cur). cbn [app].
    destruct (srev w +++ cur) as [|a x] eqn:E.
    + exfalso. apply Hne. rewrite <- (srev_involutive w). destruct (srev w); [reflexivity | discriminate E].
    + rewrite <- E, srev_app, srev_involutive. reflexivity.
  - cbn [String.append tokens_acc]. destruct (is_space c).
    + destruct cur as [|a cur]; [apply IH|]. destruct (IH "") as [pre [t E]]. rewrite E. exists (srev (String a cur) :: pre), t. reflexivity.
    + apply IH.
Qed.

Lemma skip_digits_split : forall w, exists d, w = d +++ skip_digits w /\ sall is_digit d = true.
Proof.
  induction w as [|c w IH]; [exists ""; split; reflexivity|]. cbn [skip_digits]. destruct (is_digit c) eqn:E.
  - destruct IH as [d [E1 E2]]. exists (String c d). cbn [String.append sall]. rewrite <- E1, E, E2. split; reflexivity.
  - exists "". split; reflexivity.
Qed.

Lemma digit_name_char : forall c, is_digit c = true -> name_char c = true.
Proof. intros c H. unfold name_char. rewrite H. now rewrite orb_true_r. Qed.

Lemma name_word_chars : forall w, name_word w = true -> sall name_char w = true /\ sany is_alpha w = true.
Proof.
  intros w H. unfold name_word in H. destruct (skip_digits_split w) as [d [E Hd]].
  destruct (skip_digits w) as [|c r]; [discriminate H|]. apply andb_true_iff in H. destruct H as [Hc Hr].
  rewrite E. split.
  - rewrite sall_app, (sall_impl is_digit name_char d digit_name_char Hd). cbn [sall]. rewrite Hr.
    unfold name_char. rewrite Hc. reflexivity.
  - clear E. induction d as [|x d IH]; [cbn [String.append sany]; now rewrite Hc|].
    cbn [sall] in Hd. apply andb_true_iff in Hd. cbn [String.append sany]. rewrite (IH (proj2 Hd)). apply orb_true_r.
Qed.

Lemma ecp_word_not_name : forall t, name_word (t +++ "_ECP") = false.
Proof.
  intros t. destruct (name_word (t +++ "_ECP")) eqn:E; [|reflexivity]. apply name_word_chars in E. destruct E as [E _].
  rewrite sall_app in E. apply andb_true_iff in E. destruct E as [_ E]. discriminate E.
Qed.

Lemma int_not_name : forall n, name_word (Z_to_string n) = false.
Proof.
  intros n. destruct (name_word (Z_to_string n)) eqn:E; [|reflexivity]. apply name_word_chars in E. destruct E as [_ E].
  rewrite (sall_sany_false intc is_alpha) in E; [discriminate E | intros c Hc; apply (intc_data c Hc) | apply Z_to_string_intc].
Qed.

Lemma floating_not_name : forall g, is_floating g = true -> name_word g = false.
Proof.
  intros g H. destruct (name_word g) eqn:E; [|reflexivity]. apply name_word_chars in E. destruct E as [E _].
  pose proof (floating_is_cell g H) as [_ [_ Hp]]. exfalso. clear H.
  induction g as [|c g IH]; [discriminate Hp|]. cbn [sall] in E. apply andb_true_iff in E. destruct E as [Ec Eg].
  cbn [sany] in Hp. destruct (Ascii.eqb_spec "."%char c) as [<-|Hne]; [discriminate Ec|]. cbn [orb] in Hp. exact (IH Eg Hp).
Qed.

Lemma alpha_name_word : forall w, w <> "" -> sall is_alpha w = true -> name_word w = true.
Proof.
  intros [|c w] Hne H; [congruence|]. cbn [sall] in H. apply andb_true_iff in H. destruct H as [Hc Hw].
  unfold name_word. cbn [skip_digits].
  assert (Hd : is_digit c = false) by (all_chars c; try reflexivity; discriminate Hc). rewrite Hd, Hc. cbn [andb].
  apply (sall_impl is_alpha name_char); [|exact Hw]. intros x Hx. unfold name_char. now rewrite Hx.
Qed.

Lemma forallb_last_false : forall (A : Type) (p : A -> bool) pre x, p x = false -> forallb p (pre ++ [x]) = false.
Proof. intros A p pre x H. rewrite forallb_app. cbn [forallb]. rewrite H. apply andb_false_r. Qed.

(* ---- the five kinds of lines ---- *)
Lemma ename_facts : forall bsname, cp2k_name_ok bsname ->
  eline (cp2k_ecp_name bsname) /\ kcond (strip_ws (cp2k_ecp_name bsname)) = inr false /\
  eline (kend bsname) /\ kcond (strip_ws (kend bsname)) = inr false.
Proof.
  intros bsname Hn. pose proof (ename_okc bsname Hn) as Hc.
  assert (Hw : tok_ok "_ECP") by (split; [discriminate | reflexivity]).
  destruct (tokens_app_word "_ECP" Hw (smap (fun c => if Ascii.eqb c " " then "_"%char else c) bsname) "") as [pre [t E]].
  fold (cp2k_ecp_name bsname) in E.
  assert (N1 : is_element_shell_line (strip_ws (cp2k_ecp_name bsname)) = false).
  { destruct pre as [|a pre].
    - apply (not_element_line _ (t +++ "_ECP") []); [rewrite tokens_strip; exact E | right; now left].
    - apply (not_element_line _ a (pre ++ [t +++ "_ECP"])); [rewrite tokens_strip; exact E|]. right. right.
      apply forallb_last_false, ecp_word_not_name. }
  assert (Tend : tok_ok "END") by (split; [discriminate | reflexivity]).
  assert (E2 : tokens_acc (kend bsname) "" = "END" :: pre ++ [t +++ "_ECP"]).
  { unfold kend. change ("END " +++ cp2k_ecp_name bsname) with ("END" +++ String " " (cp2k_ecp_name bsname)).
    rewrite (tokens_word_sp "END" " " _ Tend eq_refl), E. reflexivity. }
  split; [|split; [|split]].
  - split; [exact Hc|]. destruct pre; eapply strip_nonblank; exact E.
  - unfold kcond, ok. now rewrite N1.
  - split; [unfold kend; rewrite sall_app, Hc; reflexivity | eapply strip_nonblank; exact E2].
  - unfold kcond, ok. f_equal. apply (not_element_line _ "END" (pre ++ [t +++ "_ECP"])); [rewrite tokens_strip; exact E2|].
    right. right. apply forallb_last_false, ecp_word_not_name.
Qed.

Lemma nelec_facts : forall z n, (1 <= z <= 120)%Z ->
  eline (nelec_line (ksym z) n) /\ kcond (strip_ws (nelec_line (ksym z) n)) = inr false.
Proof.
  intros z n Hz. destruct (kel_facts z Hz) as [_ [_ [_ [Ha _]]]]. pose proof (ksym_tok z Hz) as Ht.
  assert (Tnel : tok_ok "nelec") by (split; [discriminate | reflexivity]).
  assert (E : tokens_acc (nelec_line (ksym z) n) "" = [ksym z; "nelec"; Z_to_string n]).
  { unfold nelec_line. change (ksym z +++ " nelec " +++ Z_to_string n) with (ksym z +++ String " " ("nelec" +++ String " " (Z_to_string n))).
    rewrite (tokens_word_sp _ " " _ Ht eq_refl), (tokens_word_sp "nelec" " " _ Tnel eq_refl).
    pose proof (tokens_sp_word 0 _ (int_tok n)) as E0. change (sp 0 +++ Z_to_string n) with (Z_to_string n) in E0. now rewrite E0. }
  split.
  - split; [|eapply strip_nonblank; exact E]. unfold nelec_line. rewrite !sall_app, (sall_impl is_alpha okc _ alpha_okc Ha).
    rewrite (sall_impl fchar okc _ fchar_okc (Z_to_string_chars n)). reflexivity.
  - unfold kcond, ok. f_equal. eapply not_element_line; [rewrite tokens_strip; exact E|]. right. right.
    cbn [forallb]. rewrite int_not_name. reflexivity.
Qed.

Lemma krw_line_facts : forall t, trip_ok t ->
  eline (krw (cellrow t)) /\ kcond (strip_ws (krw (cellrow t))) = inr false /\ match_nblocks (strip_ws (krw (cellrow t))) = None.
Proof.
  intros t Ht. destruct (krw_facts t Ht) as [Hw [_ Htok]]. destruct (cellrow_ok t Ht) as [Hok _].
  destruct t as [[x y] z]. destruct Ht as [Hy Hz]. cbn [fst snd] in Hy, Hz. cbn [tokrow] in Htok.
  split; [|split].
  - split; [|eapply strip_nonblank; exact Htok].
    apply (write_row_chars okc eq_refl (cellrow (x, y, z)) kpps true "" _); [|reflexivity|exact Hw].
    cbn [cellrow]. constructor; [cbn [cell_str]; apply (sall_impl fchar okc _ fchar_okc (Z_to_string_chars x))|].
    constructor; [cbn [cell_str]; apply (sall_impl fchar okc _ fchar_okc (floating_chars y Hy))|].
    constructor; [cbn [cell_str]; apply (sall_impl fchar okc _ fchar_okc (floating_chars z Hz)) | constructor].
  - unfold kcond, ok. f_equal. eapply not_element_line; [rewrite tokens_strip; exact Htok|]. right. right.
    cbn [forallb]. now rewrite (floating_not_name y Hy).
  - destruct (match_nblocks (strip_ws (krw (cellrow (x, y, z))))) as [n|] eqn:E; [|reflexivity]. exfalso.
    unfold match_nblocks in E. destruct (span_digit (lstrip_ws (strip_ws (krw (cellrow (x, y, z)))))) as [d r] eqn:Es.
    destruct d as [|c d]; [discriminate E|]. destruct (ws_only r) eqn:Ew; [|discriminate E].
    assert (Hsp : forall s a b, span_digit s = (a, b) -> s = a +++ b /\ sall is_digit a = true).
    { induction s as [|c0 s IH]; intros a b H; [inversion H; split; reflexivity|]. cbn [span_digit] in H.
      destruct (is_digit c0) eqn:Ed; [|inversion H; split; reflexivity].
      destruct (span_digit s) as [a0 b0]. inversion H; subst. destruct (IH a0 b eq_refl) as [I1 I2].
      split; [cbn [String.append]; now rewrite <- I1 | cbn [sall]; now rewrite Ed, I2]. }
    destruct (Hsp _ _ _ Es) as [S1 S2].
    assert (Ht3 : tokens_acc (String c d +++ r) "" = [Z_to_string x; y; z]).
    { rewrite <- S1, tokens_lstrip, tokens_strip. exact Htok. }
    assert (Hr : tokens_acc r "" = []).
    { apply spaces_no_tokens. unfold ws_only in Ew. clear - Ew. induction r as [|a r IH]; [reflexivity|].
      cbn [lstrip_ws] in Ew. cbn [sall]. destruct (is_space a); [apply IH, Ew | discriminate Ew]. }
    assert (Htk : tok_ok (String c d)).
    { split; [discriminate|]. apply (sall_sany_false is_digit); [intros a Ha; apply (digit_facts a Ha) | exact S2]. }
    destruct r as [|a r].
    + rewrite sapp_nil_r in Ht3. pose proof (tokens_sp_word 0 _ Htk) as E1. change (sp 0 +++ String c d) with (String c d) in E1.
      rewrite E1 in Ht3. discriminate Ht3.
    + assert (Ha : is_space a = true).
      { unfold ws_only in Ew. cbn [lstrip_ws] in Ew. destruct (is_space a); [reflexivity | discriminate Ew]. }
      rewrite (tokens_word_sp _ a r Htk Ha) in Ht3.
      assert (Hr' : tokens_acc r "" = []) by (cbn [tokens_acc] in Hr; now rewrite Ha in Hr).
      rewrite Hr' in Ht3. discriminate Ht3.
Qed.

Lemma khead_facts : forall z mx p, (1 <= z <= 120)%Z -> ecp_pot_ok p ->
  eline (kpot_head (ksym z) mx p) /\ match_element_shell (strip_ws (kpot_head (ksym z) mx p)) = Some (ksym z).
Proof.
  intros z mx p Hz Hp. destruct (kel_facts z Hz) as [_ [_ [Hne [Ha _]]]]. pose proof (ksym_tok z Hz) as Ht.
  destruct (pot_am_facts p Hp) as [_ [_ [A2 [A3 _]]]].
  assert (G : forall w, w <> "" -> sall is_alpha w = true ->
              eline (ksym z +++ " " +++ w) /\ match_element_shell (strip_ws (ksym z +++ " " +++ w)) = Some (ksym z)).
  { intros w Hwne Hw. pose proof (alpha_word_tok w Hwne Hw) as Hwt.
    assert (Es : strip_ws (ksym z +++ " " +++ w) = ksym z +++ String " " w).
    { pose proof (strip_words (ksym z) " " w Ht Hwt) as E. exact E. }
    pose proof (tokens_sp_word 0 _ Hwt) as E1. change (sp 0 +++ w) with w in E1.
    split.
    - split; [|rewrite Es; destruct (ksym z); [congruence | discriminate]].
      rewrite !sall_app, (sall_impl is_alpha okc _ alpha_okc Ha), (sall_impl is_alpha okc _ alpha_okc Hw). reflexivity.
    - rewrite Es. apply mes_ok; try assumption; try reflexivity; rewrite E1; [discriminate|].
      constructor; [apply alpha_name_word; assumption | constructor]. }
  unfold kpot_head. destruct (Z.eqb (pot_l p) mx); [apply (G "ul"); [discriminate | reflexivity] | apply (G _ A3 A2)].
Qed.

(* ================================================================== *)
(* 3. partition_lines on an arbitrary tail; sections with lines that are never looked at *)
(* ================================================================== *)
Lemma part_blocks_state : forall bs cur all, Forall (block_shape kcond) bs -> bs <> [] ->
  exists bs' bl, bs = bs' ++ [bl] /\
    forall X, part_go kcond true (concat bs ++ X) cur all = part_go kcond true X bl (flush cur all ++ bs').
Proof.
  induction bs as [|b t IH]; intros cur all H Hne; [congruence|].
  inversion H as [|? ? [h [r [-> [Hh Hr]]]] Ht]; subst.
  assert (Step : forall X, part_go kcond true (concat ((h :: r) :: t) ++ X) cur all =
                           part_go kcond true (concat t ++ X) (h :: r) (flush cur all)).
  { intros X. cbn [concat]. rewrite <- app_assoc. change ((h :: r) ++ concat t ++ X) with (h :: (r ++ concat t ++ X)).
    rewrite (part_go_match _ _ _ _ _ _ Hh), (part_skip _ _ _ _ _ _ Hr). reflexivity. }
  destruct t as [|b2 t].
  - exists [], (h :: r). split; [reflexivity|]. intros X. rewrite Step. cbn [concat app]. now rewrite app_nil_r.
  - destruct (IH (h :: r) (flush cur all) Ht) as [bs' [bl [E HX]]]; [discriminate|].
    exists ((h :: r) :: bs'), bl. split; [cbn [app]; now rewrite <- E|]. intros X. rewrite Step, HX.
    cbn [flush]. rewrite <- app_assoc. reflexivity.
Qed.

Lemma part_go_mono : forall L cur all, cur <> [] ->
  exists b more, part_go kcond true L cur all = inr (all ++ (cur ++ b) :: more).
Proof.
  induction L as [|l L IH]; intros cur all Hc.
  - exists [], []. cbn [part_go]. rewrite app_nil_r. destruct cur; [congruence | reflexivity].
  - cbn [part_go]. unfold kcond at 1, ok, bind. destruct (is_element_shell_line l).
    + destruct (IH [l] (match cur with [] => all | _ => all ++ [cur] end)) as [b [more E]]; [discriminate|].
      rewrite E. destruct cur as [|c0 cur]; [congruence|]. exists [], (([l] ++ b) :: more).
      rewrite <- app_assoc, app_nil_r. reflexivity.
    + destruct (IH (cur ++ [l]) all) as [b [more E]]; [destruct cur; discriminate|].
      rewrite E. exists (l :: b), more. rewrite <- app_assoc. reflexivity.
Qed.

Lemma sections_app : forall a b d, cp2k_sections (a ++ b) d = (do d' <- cp2k_sections a d; cp2k_sections b d').
Proof.
  induction a as [|x a IH]; intros b d; [reflexivity|]. cbn [app cp2k_sections].
  destruct (cp2k_read_shell x d) as [e|d1]; [reflexivity|]. unfold bind at 1 3. apply IH.
Qed.

Lemma read_blocks_junk : forall shs junk, Forall cp2k_shell_ok shs ->
  cp2k_read_blocks (List.length shs) (flat_map kbl shs ++ junk) = inr (flat_map cp2k_expected_shell shs).
Proof.
  induction shs as [|s shs IH]; intros junk H; [reflexivity|]. inversion H as [|? ? H1 H2]; subst.
  cbn [List.length flat_map]. rewrite <- app_assoc, (read_block s _ _ H1), (IH junk H2). reflexivity.
Qed.

Lemma read_section_junk : forall bsname zs junk d, cp2k_name_ok bsname -> kel_ok zs ->
  exists d', cp2k_read_shell (kblock bsname zs ++ junk) d = inr d'.
Proof.
  intros bsname [z shs] junk d Hn [Hz Hshs]. cbn [fst snd] in *. destruct (kel_facts z Hz) as [_ [_ [Hne [Ha [Hback _]]]]].
  unfold cp2k_read_shell, kblock. cbn [fst snd app]. rewrite (kel_match bsname z Hn Hz), (int_word_alpha _ Hne Ha), Hback.
  unfold bind at 1. rewrite match_nblocks_ok, nat_str_val, Nat2Z.id, (read_blocks_junk shs junk Hshs). eexists. reflexivity.
Qed.

Lemma sections_junk : forall bsname els junk d, cp2k_name_ok bsname -> Forall kel_ok els -> els <> [] ->
  exists bs' bl d', map (kblock bsname) els = bs' ++ [bl] /\ cp2k_sections (bs' ++ [bl ++ junk]) d = inr d'.
Proof.
  intros bsname; induction els as [|e els IH]; intros junk d Hn Hel Hne; [congruence|].
  inversion Hel as [|? ? H1 H2]; subst. destruct els as [|e2 els].
  - destruct (read_section_junk bsname e junk d Hn H1) as [d' E]. exists [], (kblock bsname e), d'.
    split; [reflexivity|]. cbn [app cp2k_sections]. rewrite E. reflexivity.
  - destruct (read_section_junk bsname e [] d Hn H1) as [d1 E1]. rewrite app_nil_r in E1.
    destruct (IH junk d1 Hn H2) as [bs' [bl [d' [E E']]]]; [discriminate|].
    exists (kblock bsname e :: bs'), bl, d'. split; [cbn [map app] in *; now rewrite <- E|].
    cbn [app cp2k_sections]. rewrite E1. exact E'.
Qed.

Lemma part_tail : forall cur all pre h row TAIL, Forall (fun l => kcond l = inr false) pre ->
  kcond h = inr true -> kcond row = inr false -> cur ++ pre <> [] ->
  exists B more, part_go kcond true (pre ++ h :: row :: TAIL) cur all = inr ((all ++ [cur ++ pre]) ++ (h :: row :: B) :: more).
Proof.
  intros cur all pre h row TAIL Hpre Hh Hrow Hne.
  rewrite (part_skip _ _ _ _ _ _ Hpre), (part_go_match _ _ _ _ _ _ Hh).
  assert (Ef : flush (cur ++ pre) all = all ++ [cur ++ pre]) by (destruct (cur ++ pre); [congruence | reflexivity]).
  rewrite Ef. change (row :: TAIL) with ([row] ++ TAIL).
  rewrite (part_skip kcond true [row] TAIL [h] _ (Forall_cons _ Hrow (Forall_nil _))).
  destruct (part_go_mono TAIL ([h] ++ [row]) (all ++ [cur ++ pre])) as [B [more E]]; [discriminate|].
  exists B, more. exact E.
Qed.

(* ================================================================== *)
(* 4. the whole file with an ECP section is never read back            *)
(* ================================================================== *)
Lemma kecp_elines : forall bsname ecps, cp2k_name_ok bsname -> Forall cp2k_ecp_el_ok ecps ->
  Forall eline (cp2k_ecp_name bsname :: flat_map kecp_el_lines ecps ++ [kend bsname]).
Proof.
  intros bsname ecps Hn Hel. destruct (ename_facts bsname Hn) as [F1 [_ [F3 _]]].
  constructor; [exact F1|]. apply Forall_app. split; [|constructor; [exact F3 | constructor]].
  rewrite Forall_forall in *. intros l Hl. apply in_flat_map in Hl. destruct Hl as [[z [n pots]] [He Hl]].
  destruct (Hel _ He) as [Hz [Hne [Hok Hnd]]]. destruct (written_order_ok pots Hne Hok Hnd) as [_ [Hoo _]].
  unfold kecp_el_lines in Hl. cbn [fst snd] in Hl. destruct Hl as [<-|Hl]; [apply nelec_facts, Hz|].
  apply in_flat_map in Hl. destruct Hl as [p [Hp Hl]]. rewrite Forall_forall in Hoo. specialize (Hoo p Hp).
  destruct Hl as [<-|Hl]; [apply khead_facts; assumption|].
  unfold kprows in Hl. apply in_map_iff in Hl. destruct Hl as [row [<- Hrow]]. apply in_map_iff in Hrow.
  destruct Hrow as [t [<- Ht]]. destruct (pot_facts p Hoo) as [_ [_ [_ [_ [_ [_ [Hts _]]]]]]]. apply krw_line_facts, Hts, Ht.
Qed.

Lemma cp2k_all_unreadable : cp2k_all_unreadable_stmt.
Proof.
  intros bsname els ecps H Hne. pose proof H as [Hok [_ Hel]]. pose proof (cp2k_ok_els bsname els Hok) as Hels.
  pose proof Hok as [Hn _].
  unfold cp2k_roundtrip_all. rewrite (kwrite_all_lines bsname els ecps H). unfold bind.
  rewrite splitlines_unlines.
  2:{ apply Forall_app. split; [apply kall_good, Hok | apply kecp_part_good; [exact Hn | exact Hel]]. }
  unfold cp2k_read_electron. fold (prune2 (kall bsname els ++ kecp_part bsname ecps)).
  rewrite prune2_app, (kpruned bsname els Hok).
  destruct ecps as [|[z [n pots]] ecps']; [congruence|]. unfold kecp_part, kecp_lines.
  rewrite (prune2_cons ""), prune2_blank, (prune2_cons ""), prune2_blank, (prune2_cons "## Effective core potentials").
  change "## Effective core potentials" with (String "#" "# Effective core potentials"). rewrite prune2_comment. cbn [app].
  rewrite (prune2_elines _ (kecp_elines bsname _ Hn Hel)).
  (* the first element with an ECP, its first potential, the first row of it *)
  inversion Hel as [|? ? Hel0 Hel']; subst. unfold cp2k_ecp_el_ok in Hel0. destruct Hel0 as [Hz [Hpne [Hpok Hnd]]].
  destruct (written_order_ok pots Hpne Hpok Hnd) as [_ [Hoo Hperm]].
  destruct (ecp_written_order pots) as [|top others] eqn:Eord.
  { apply Permutation_sym, Permutation_nil in Hperm. congruence. }
  inversion Hoo as [|? ? Htop _]; subst.
  destruct (pot_facts top Htop) as [_ [_ [_ [_ [_ [_ [Hts Htne]]]]]]].
  destruct (ptrip top) as [|t1 trest] eqn:Etr; [congruence|].
  destruct (ename_facts bsname Hn) as [_ [C1 _]]. destruct (nelec_facts z n Hz) as [_ C2].
  destruct (khead_facts z (el_mx (z, (n, pots))) top Hz Htop) as [_ C3].
  destruct (krw_line_facts t1 (Hts t1 (or_introl eq_refl))) as [_ [C4 C5]].
  set (ename' := strip_ws (cp2k_ecp_name bsname)) in *.
  set (nel' := strip_ws (nelec_line (ksym z) n)) in *.
  set (h' := strip_ws (kpot_head (ksym z) (el_mx (z, (n, pots))) top)) in *.
  set (row' := strip_ws (krw (cellrow t1))) in *.
  assert (Eshape : exists TAIL, map strip_ws (flat_map kecp_el_lines ((z, (n, pots)) :: ecps') ++ [kend bsname]) =
                                nel' :: h' :: row' :: TAIL).
  { cbn [flat_map]. unfold kecp_el_lines at 1. cbn [fst snd]. rewrite Eord. cbn [flat_map]. unfold kpot_lines at 1, kprows at 1.
    rewrite Etr. cbn [map app]. eexists. reflexivity. }
  destruct Eshape as [TAIL ET]. cbn [map]. fold ename'. rewrite ET. clear ET.
  assert (Hh : kcond h' = inr true) by (unfold kcond, is_element_shell_line; now rewrite C3).
  destruct (concat (map (kblock bsname) els) ++ ename' :: nel' :: h' :: row' :: TAIL) as [|x0 X0] eqn:EL.
  { exfalso. apply app_eq_nil in EL. destruct EL as [_ EL]. discriminate EL. }
  cbv iota. rewrite <- EL. clear EL x0 X0.
  change (fun x : string => ok (is_element_shell_line x)) with kcond.
  (* the first section of the ECP part: `Sym ul`, then a row of numbers *)
  assert (Hbad : forall B d, cp2k_read_shell (h' :: row' :: B) d = inl ERuntime).
  { intros B d. destruct (kel_facts z Hz) as [_ [_ [Hsne [Hsa [Hback _]]]]].
    unfold cp2k_read_shell. rewrite C3, (int_word_alpha _ Hsne Hsa), Hback. unfold bind. now rewrite C5. }
  assert (Hfin : forall A B more, (cp2k_sections A [] = inl ERuntime \/ exists d', cp2k_sections A [] = inr d') ->
            (do element_sections <-
               (do blocks <- inr (A ++ (h' :: row' :: B) :: more);
                if existsb (fun b => Nat.ltb (List.length b) 1) blocks then fail ERuntime else
                if andb (negb (Nat.eqb 0 0)) (Nat.ltb (List.length blocks) 0) then fail ERuntime else
                if andb (negb (Nat.eqb 0 0)) (Nat.ltb 0 (List.length blocks)) then fail ERuntime else ok blocks);
             cp2k_sections element_sections []) = inl ERuntime).
  { intros A B more HA. rewrite bind_inr. destruct (existsb _ _); [reflexivity|]. cbn [Nat.eqb negb andb]. rewrite bind_ok.
    rewrite sections_app. destruct HA as [->|[d' ->]]; [reflexivity|]. rewrite bind_inr. cbn [cp2k_sections]. now rewrite Hbad. }
  assert (Hpre : Forall (fun l => kcond l = inr false) [ename'; nel']) by (constructor; [exact C1 | constructor; [exact C2 | constructor]]).
  unfold partition_lines.
  change (ename' :: nel' :: h' :: row' :: TAIL) with ([ename'; nel'] ++ h' :: row' :: TAIL).
  destruct els as [|e0 els0].
  - cbn [map concat app]. change (ename' :: nel' :: h' :: row' :: TAIL) with ([ename'; nel'] ++ h' :: row' :: TAIL).
    destruct (part_tail [] [] [ename'; nel'] h' row' TAIL Hpre Hh C4) as [B [more E]]; [discriminate|].
    rewrite E. apply Hfin. left. cbn [app cp2k_sections]. unfold cp2k_read_shell.
    assert (Em : match_element_shell ename' = None).
    { unfold kcond, ok, is_element_shell_line in C1. destruct (match_element_shell ename'); [discriminate C1 | reflexivity]. }
    now rewrite Em.
  - assert (Hsh : Forall (block_shape kcond) (map (kblock bsname) (e0 :: els0))).
    { rewrite Forall_forall in *. intros b Hb. apply in_map_iff in Hb. destruct Hb as [zs [<- Hzs]].
      apply kblock_shape; [exact Hn | apply Hels, Hzs]. }
    destruct (part_blocks_state _ [] [] Hsh) as [bs' [bl [Ebs HX]]]; [discriminate|].
    rewrite HX. change (flush [] [] ++ bs') with bs'.
    destruct (sections_junk bsname (e0 :: els0) [ename'; nel'] [] Hn Hels) as [bs2 [bl2 [d' [Ebs2 Es2]]]]; [discriminate|].
    rewrite Ebs in Ebs2. apply app_inj_tail in Ebs2. destruct Ebs2 as [<- <-].
    destruct (part_tail bl bs' [ename'; nel'] h' row' TAIL Hpre Hh C4) as [B [more E]]; [destruct bl; discriminate|].
    rewrite E. apply Hfin. right. exists d'. exact Es2.
Qed.

(* ================================================================== *)
(* 5. the writer's own failures, a concrete instance                   *)
(* ================================================================== *)
Lemma cp2k_ecp_write_nopot : cp2k_ecp_write_nopot_stmt.
Proof. vm_compute. reflexivity. Qed.
Lemma cp2k_ecp_write_noam : cp2k_ecp_write_noam_stmt.
Proof. vm_compute. reflexivity. Qed.
Lemma cp2k_ecp_write_twocol : cp2k_ecp_write_twocol_stmt.
Proof. vm_compute. reflexivity. Qed.
Lemma cp2k_ecp_name_exact : cp2k_ecp_name_stmt.
Proof. vm_compute. reflexivity. Qed.

Example cp2k_all_example : cp2k_all_example_stmt.
Proof.
  split; [|repeat split; vm_compute; reflexivity].
  unfold cp2k_all_ok. split; [|split].
  - unfold cp2k_ok, cx_Na_els. split; [|split].
    + split; [reflexivity|]. split; [discriminate|]. repeat constructor.
    + repeat constructor. intros [].
    + repeat constructor; cbn; try lia; try discriminate; try reflexivity.
  - repeat constructor. intros [].
  - unfold cx_Na_ecps. constructor; [|constructor]. unfold cp2k_ecp_el_ok. split; [lia|]. split; [discriminate|]. split.
    + repeat constructor; cbn; try lia; try discriminate; try reflexivity;
        try (eexists; split; [reflexivity | try lia; try reflexivity]).
    + cbn [map pot_l cx_Na_d cx_Na_s_pot cx_Na_p_pot p_am hd].
      repeat constructor; cbn [In]; intros H; repeat (destruct H as [H|H]; [discriminate H|]); exact H.
Qed.

Print Assumptions cp2k_all_write_total.
Print Assumptions cp2k_all_noecp.
Print Assumptions cp2k_all_unreadable.
Print Assumptions cp2k_ecp_no_number_lost.
Print Assumptions cp2k_ecp_write_nopot.
Print Assumptions cp2k_ecp_write_noam.
Print Assumptions cp2k_ecp_write_twocol.
Print Assumptions cp2k_ecp_name_exact.
Print Assumptions cp2k_all_example.
