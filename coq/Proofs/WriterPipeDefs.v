(* Statements for C04: the prediction "numbers of the basis in the writer's contraction form" is the right one. Definitions only. *)
From BSE Require Import Model.Val Model.Num Model.Basis Model.Manip Model.ManipS Model.Memo Model.Header Model.WriterPipe Gen.GenWriters Gen.GenConsts.
From BSE Require Import Proofs.FSDefs.

Definition step_op (st : string * string * list warg * list (string * warg)) : string := snd (fst (fst st)).
Definition step_mod (st : string * string * list warg * list (string * warg)) : string := fst (fst (fst st)).

(* the normalisation steps that only re-contract (every writer except veloxchem uses only these) *)
Definition recontracting (st : string * string * list warg * list (string * warg)) : bool :=
  String.eqb (step_mod st) "sort" ||
  String.eqb (step_op st) "uncontract_general" || String.eqb (step_op st) "uncontract_spdf" ||
  String.eqb (step_op st) "make_general" || String.eqb (step_op st) "prune_basis".

(* any sequence of re-contracting steps keeps the function set and every other field of a well-formed basis *)
Definition wsteps_FS_stmt : Prop :=
  forall sts (b b' : sbasis), forallb recontracting sts = true ->
    wf_basis is0_s b -> basis_fused_low 0 b ->
    run_wsteps sts b = inr b' -> basis_FSeq is0_s same_s b' b.

(* which writers that covers (finite, over the translated table): all but veloxchem *)
Definition recontracting_writers_stmt : Prop :=
  map fst (filter (fun p => negb (forallb recontracting (w_pipeline (snd p)))) writer_map) = ["veloxchem"].

(* so for every such format the predicted numbers are those of a basis with the same function set: every exponent and every
   non-zero coefficient of every contracted function of the source is (by exact value) among the numbers of the predicted
   basis *)
Definition writer_expected_complete_stmt : Prop :=
  forall fmt w fts (b b' : sbasis), assoc (lower fmt) writer_map = Some w -> forallb recontracting (w_pipeline w) = true ->
    gate w fts = true -> wf_basis is0_s b -> basis_fused_low 0 b -> run_wsteps (w_pipeline w) b = inr b' ->
    basis_FSeq is0_s same_s b' b.

(* the function-type gate: a type outside the writer's valid set is refused *)
Definition gate_rejects_stmt : Prop :=
  forall fmt w fts b t v, assoc (lower fmt) writer_map = Some w -> w_valid w = Some v -> In t fts -> mem_str t v = false ->
    writer_expected fmt fts b = inl ERuntime.
Definition unknown_format_rejected_stmt : Prop :=
  forall fmt fts b, assoc (lower fmt) writer_map = None -> writer_expected fmt fts b = inl ERuntime.
