(* C15: the member list of a bundle (Model/Bundle.v). *)
From BSE Require Import Model.Val Model.Elements Model.Compose Model.Bundle.

Definition subdir_of (fmt reffmt : string) : string := "basis_set_bundle-" +++ fmt +++ "-" +++ reffmt.
Definition basis_path (subdir name ver ext : string) : string := path_join subdir (transform_basis_name name +++ "." +++ ver +++ ext).
Definition ref_path (subdir name ver refext : string) : string := path_join subdir (transform_basis_name name +++ "." +++ ver +++ ".ref" +++ refext).
Definition notes_path (subdir name : string) : string := path_join subdir (transform_basis_name name +++ ".notes").

Lemma bundle_readme_first fmt reffmt ext refext readme items fams :
  hd_error (bundle_members fmt reffmt ext refext readme items fams) = Some (path_join (subdir_of fmt reffmt) "README.txt", readme).
Proof. reflexivity. Qed.

(* the members contributed by one basis: for every version for which both outputs exist exactly the basis file and the
   reference file with those outputs, and a notes file exactly when the notes are non-empty; nothing else *)
Lemma item_members_spec subdir ext refext it m :
  In m (item_members subdir ext refext it) <->
  (exists ver a b, In (ver, (a, b)) (b_versions it) /\
                   (m = (basis_path subdir (b_name it) ver ext, a) \/ m = (ref_path subdir (b_name it) ver refext, b))) \/
  (b_notes it <> "" /\ m = (notes_path subdir (b_name it), b_notes it)).
Proof.
  unfold item_members. rewrite in_app_iff, in_flat_map. split.
  - intros [[[ver [a b]] [Hin Hm]]|Hn].
    + left. exists ver, a, b. split; [exact Hin|]. cbn in Hm. destruct Hm as [<-|[<-|[]]]; [left|right]; reflexivity.
    + right. destruct (b_notes it) eqn:E; cbn in Hn; [contradiction|]. destruct Hn as [<-|[]]. split; [discriminate|]. reflexivity.
  - intros [[ver [a [b [Hin Hm]]]]|[Hne Hm]].
    + left. exists (ver, (a, b)). split; [exact Hin|]. cbn. destruct Hm as [->| ->]; [left|right; left]; reflexivity.
    + right. destruct (b_notes it) eqn:E; [congruence|]. cbn. left. symmetry. exact Hm.
Qed.

Lemma item_members_count subdir ext refext it :
  List.length (item_members subdir ext refext it) =
  2 * List.length (b_versions it) + (if nonempty_str (b_notes it) then 1 else 0).
Proof.
  unfold item_members. rewrite app_length. f_equal.
  - induction (b_versions it) as [|v t IH]; [reflexivity|]. cbn [flat_map]. rewrite app_length, IH. cbn. lia.
  - destruct (nonempty_str (b_notes it)); reflexivity.
Qed.

(* the whole archive: README, then the members of every basis in index order, then one file per family with notes *)
Lemma bundle_members_spec fmt reffmt ext refext readme items fams m :
  In m (bundle_members fmt reffmt ext refext readme items fams) <->
  m = (path_join (subdir_of fmt reffmt) "README.txt", readme) \/
  (exists it, In it items /\ In m (item_members (subdir_of fmt reffmt) ext refext it)) \/
  (exists fam txt, In (fam, txt) fams /\ txt <> "" /\ m = (path_join (subdir_of fmt reffmt) (fam +++ ".family_notes"), txt)).
Proof.
  unfold bundle_members. fold (subdir_of fmt reffmt). cbn [In]. rewrite in_app_iff, !in_flat_map. split.
  - intros [<-|[[it [Hi Hm]]|[[fam txt] [Hf Hm]]]].
    + left. reflexivity.
    + right. left. exists it. auto.
    + right. right. exists fam, txt. cbn in Hm. destruct txt; cbn in Hm; [contradiction|]. destruct Hm as [<-|[]].
      split; [exact Hf|]. split; [discriminate|reflexivity].
  - intros [->|[[it [Hi Hm]]|[fam [txt [Hf [Hne ->]]]]]].
    + left. reflexivity.
    + right. left. exists it. auto.
    + right. right. exists (fam, txt). split; [exact Hf|]. destruct txt; [congruence|]. cbn. left. reflexivity.
Qed.

(* a basis none of whose versions can be expressed contributes no basis or reference file (it is absent, not truncated) *)
Lemma unexpressible_absent subdir ext refext it :
  b_versions it = [] -> b_notes it = "" -> item_members subdir ext refext it = [].
Proof. intros Hv Hn. unfold item_members. rewrite Hv, Hn. reflexivity. Qed.

(* index keys (lower case, no '/' or '*') are their own file names, and the file name maps back to the key *)
Lemma key_filename_roundtrip k :
  transform_basis_name k = k -> basis_name_from_filename (transform_basis_name k) = basis_name_from_filename k.
Proof. intros ->. reflexivity. Qed.
