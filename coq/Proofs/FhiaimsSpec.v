(* Proofs of the statements of Proofs/FhiaimsDefs.v: write_fhiaims is total on well-formed input; every exponent and every
   coefficient of a shell with other than one primitive is in the text; the coefficient of a one-primitive shell and the
   ECP data are not. *)
From BSE Require Import Model.Val Model.Text Model.Basis Model.Manip Model.Matrix Gen.GenLut Model.Lut Model.Elements
                        Model.Nwchem Model.NwchemEcp Model.Fhiaims Proofs.MatrixDefs Proofs.NwchemDefs Proofs.JaguarDefs
                        Proofs.FhiaimsDefs.
From BSE Require Import Proofs.HeaderSpec Proofs.PruneFS Proofs.MatrixSpec Proofs.NwchemSpec Proofs.NwchemEcpSpec
                        Proofs.JagfamLib.

(* ================================================================== *)
(* 1. one shell                                                        *)
(* ================================================================== *)
Lemma fhi_shell_total : forall s, fhi_shell_ok s -> exists t, fhi_write_shell s = inr t.
Proof.
  intros s [[l Ea] [Hl [He Hc]]].
  destruct (shell_mat_total (exps s) (coefs s) (nw_point_places (S (List.length (coefs s)))) false He Hc Hl) as [L [m Em]].
  { rewrite pps_length. lia. }
  unfold fhi_write_shell, fhi_shell_cols. fold (shell_mat (exps s) (coefs s)). rewrite Ea, L. unfold bind. rewrite Em.
  destruct (exps s) as [|e [|e2 r]]; eexists; reflexivity.
Qed.

Lemma nat_str_nobd : forall n, sall nobd (nat_str n) = true.
Proof.
  intros n. apply (sall_impl is_digit); [|apply G94Spec.nat_str_digits].
  intros c Hc. apply intc_nobd. unfold intc. now rewrite Hc.
Qed.

Lemma fhi_shell_toks : forall s t, fhi_shell_ok s -> fhi_write_shell s = inr t ->
  nl_ended t /\ (forall x, In x (exps s) -> has_tok t x) /\
  (List.length (exps s) <> 1 -> forall c x, In c (coefs s) -> In x c -> has_tok t x).
Proof.
  intros s t [[l Ea] [Hl [He Hc]]] H. unfold fhi_write_shell, fhi_shell_cols in H. fold (shell_mat (exps s) (coefs s)) in H.
  rewrite Ea in H.
  assert (Hmat : forall m, write_matrix (shell_mat (exps s) (coefs s)) (nw_point_places (S (List.length (coefs s)))) false = inr m ->
            let t := "gaussian " +++ Z_to_string l +++ " " +++ nat_str (List.length (exps s)) +++ nl1 +++ m in
            nl_ended t /\ (forall x, In x (exps s) -> has_tok t x) /\ (forall c x, In c (coefs s) -> In x c -> has_tok t x)).
  { intros m Em. cbv zeta.
    assert (E : "gaussian " +++ Z_to_string l +++ " " +++ nat_str (List.length (exps s)) +++ nl1 +++ m =
                ("gaussian " +++ Z_to_string l +++ " " +++ nat_str (List.length (exps s))) +++ nl1 +++ m) by (now rewrite !sapp_assoc).
    rewrite E. split; [apply nl_ended_line_then, (wm_nl_ended _ _ _ _ Em)|]. split.
    - intros x Hx. apply has_tok_after_line. apply (shell_mat_tok _ _ _ false m He Hc Hl Em x). now left.
    - intros c x Hcin Hx. apply has_tok_after_line. apply (shell_mat_tok _ _ _ false m He Hc Hl Em x). right. exists c. split; assumption. }
  destruct (exps s) as [|e [|e2 r]] eqn:Ee.
  - unfold bind in H. destruct (leftpad_check _ _) as [er|u]; [discriminate|].
    destruct (write_matrix _ _ false) as [er|m] eqn:Em; [discriminate|]. apply ok_inj in H; subst t.
    destruct (Hmat m eq_refl) as [A [B C]]. split; [exact A|]. split; [exact B | intros _; exact C].
  - apply ok_inj in H; subst t. inversion He as [|? ? Hfe _]; subst.
    set (pre := "gaussian " +++ Z_to_string l +++ " " +++ nat_str (List.length [e])).
    assert (E : "gaussian " +++ Z_to_string l +++ " " +++ nat_str (List.length [e]) +++ " " +++ e +++ nl1 =
                (pre +++ sp 1 +++ e) +++ nl1) by (unfold pre; change (sp 1) with " "; now rewrite !sapp_assoc).
    rewrite E. split; [apply nl_ended_line|]. split.
    + intros x [<-|[]]. apply has_tok_line.
      * unfold pre. rewrite !sall_app, Zstr_nobd, nat_str_nobd, (floating_nobd _ Hfe). reflexivity.
      * apply last_tok, floating_tok, Hfe.
    + intros C. exfalso. apply C. reflexivity.
  - unfold bind in H. destruct (leftpad_check _ _) as [er|u]; [discriminate|].
    destruct (write_matrix _ _ false) as [er|m] eqn:Em; [discriminate|]. apply ok_inj in H; subst t.
    destruct (Hmat m eq_refl) as [A [B C]]. split; [exact A|]. split; [exact B | intros _; exact C].
Qed.

(* ================================================================== *)
(* 2. one element, the whole text                                      *)
(* ================================================================== *)
Definition fhi_el_ok (zs : Z * list sshell) : Prop := (1 <= fst zs <= 120)%Z /\ Forall fhi_shell_ok (snd zs).

Lemma fhi_element_total : forall pure name zs, fhi_el_ok zs -> exists t, fhi_write_element pure name zs = inr t.
Proof.
  intros pure name [z shs] [Hz Hshs]. cbn [fst snd] in *. destruct (sym120 z Hz) as [Es _].
  destruct (mapM_total_in _ _ fhi_write_shell shs) as [body Eb].
  { intros s Hs. apply fhi_shell_total. rewrite Forall_forall in Hshs. apply Hshs, Hs. }
  unfold fhi_write_element. rewrite Es. unfold bind. rewrite Eb. eexists. reflexivity.
Qed.

Lemma fhi_element_toks : forall pure name z shs t, fhi_el_ok (z, shs) -> fhi_write_element pure name (z, shs) = inr t ->
  nl_ended t /\ forall s, In s shs ->
    (forall x, In x (exps s) -> has_tok t x) /\
    (List.length (exps s) <> 1 -> forall c x, In c (coefs s) -> In x c -> has_tok t x).
Proof.
  intros pure name z shs t [Hz Hshs] H. cbn [fst snd] in *. destruct (sym120 z Hz) as [Es _].
  unfold fhi_write_element, bind in H. rewrite Es in H.
  destruct (mapM fhi_write_shell shs) as [e|body] eqn:Eb; [discriminate|]. apply ok_inj in H; subst t.
  rewrite Forall_forall in Hshs.
  assert (Hbody : Forall nl_ended body).
  { apply (mapM_all _ _ _ _ _ _ Eb). intros s b Hs Hb. apply (fhi_shell_toks s b (Hshs s Hs) Hb). }
  assert (E : fhi_preamble pure +++ "# " +++ symz z +++ " " +++ name +++ nl1 +++ String.concat "" body =
              (fhi_preamble pure +++ "# " +++ symz z +++ " " +++ name) +++ nl1 +++ String.concat "" body) by (now rewrite !sapp_assoc).
  rewrite E. split; [apply nl_ended_line_then, nl_ended_concat, Hbody|].
  intros s Hs. destruct (mapM_In _ _ _ _ _ s Eb Hs) as [b [Hb Hbin]].
  destruct (fhi_shell_toks s b (Hshs s Hs) Hb) as [_ [T1 T2]]. split.
  - intros x Hx. apply has_tok_after_line, (has_tok_concat body b); [exact Hbody | exact Hbin | apply T1, Hx].
  - intros Hn c x Hc Hx. apply has_tok_after_line, (has_tok_concat body b); [exact Hbody | exact Hbin | apply (T2 Hn c x Hc Hx)].
Qed.

Lemma fhi_write_total : fhi_write_total_stmt.
Proof.
  intros name types els ecps H. unfold fhi_ok in H.
  destruct (mapM_total_in _ _ (fhi_write_element (fhi_pure types) name) els) as [parts Ep].
  { intros zs Hzs. rewrite Forall_forall in H. apply fhi_element_total, H, Hzs. }
  unfold fhi_write_all. rewrite Ep. eexists. reflexivity.
Qed.

Lemma fhi_no_number_lost_partial : fhi_no_number_lost_partial_stmt.
Proof.
  intros name types els ecps t H Ht x [[z shs] [s [Hzs [Hs Hx]]]]. cbn [snd] in Hs. unfold fhi_ok in H.
  unfold fhi_write_all, bind in Ht.
  destruct (mapM (fhi_write_element (fhi_pure types) name) els) as [e|parts] eqn:Ep; [discriminate|]. apply ok_inj in Ht; subst t.
  rewrite Forall_forall in H.
  assert (Hparts : Forall nl_ended parts).
  { apply (mapM_all _ _ _ _ _ _ Ep). intros [z' shs'] b Hin Hb. apply (fhi_element_toks _ _ z' shs' b (H _ Hin) Hb). }
  destruct (mapM_In _ _ _ _ _ (z, shs) Ep Hzs) as [b [Hb Hbin]].
  destruct (fhi_element_toks _ _ z shs b (H _ Hzs) Hb) as [_ T]. destruct (T s Hs) as [T1 T2].
  apply (has_tok_concat parts b); [exact Hparts | exact Hbin|].
  destruct Hx as [Hx|[Hn [c [Hc Hx]]]]; [apply T1, Hx | apply (T2 Hn c x Hc Hx)].
Qed.

(* ================================================================== *)
(* 3. what is left out                                                 *)
(* ================================================================== *)
Lemma fhi_no_number_lost_counterexample : fhi_no_number_lost_counterexample_stmt.
Proof.
  cbv zeta.
  assert (Hok : fhi_ok [(1%Z, [mkShell "gto" "" [0%Z] ["3.0"] [["0.5"]]])]).
  { constructor; [|constructor]. split; [cbn; lia|]. constructor; [|constructor].
    split; [exists 0%Z; reflexivity|]. repeat split; repeat constructor. }
  assert (Hnum : nw_number_of [(1%Z, [mkShell "gto" "" [0%Z] ["3.0"] [["0.5"]]])] "0.5").
  { eexists. eexists. split; [left; reflexivity|]. split; [left; reflexivity|]. right. exists ["0.5"]. split; now left. }
  split; [exact Hok|]. split; [exact Hnum|]. split; [vm_compute; reflexivity|]. split; [vm_compute; reflexivity|].
  intros Hstmt. destruct (Hstmt "X" ["gto"] _ [] _ Hok eq_refl "0.5" Hnum) as [line [Hl Ht]].
  vm_compute in Hl.
  repeat (destruct Hl as [<-|Hl]; [vm_compute in Ht; repeat (destruct Ht as [Ht|Ht]; [discriminate Ht|]); exact Ht|]).
  exact Hl.
Qed.

Lemma fhi_ecp_ignored : fhi_ecp_ignored_stmt.
Proof. intros name types els ecps ecps'. reflexivity. Qed.

Lemma fhi_ecp_lost : fhi_ecp_lost_stmt.
Proof.
  split; [intros name types ecps; reflexivity|].
  intros H. destruct (H "X" ["scalar_ecp"] [] [(37%Z, (28%Z, []))] "" (Forall_nil _) eq_refl) as [_ Hn].
  destruct (Hn 28%Z) as [line [Hl _]]; [|destruct Hl].
  eexists. split; [left; reflexivity|]. left. reflexivity.
Qed.

Lemma fhi_guard_facts : fhi_guard_stmt.
Proof.
  split.
  - intros name types els ecps Hin. unfold fhi_write_formatted, fhi_guard.
    assert (E : forallb (fun t => existsb (String.eqb t) fhi_valid_types) types = false).
    { induction types as [|t0 types IH]; [destruct Hin|]. cbn [forallb]. destruct Hin as [->|Hin]; [reflexivity|].
      rewrite (IH Hin). apply andb_false_r. }
    rewrite E. reflexivity.
  - intros name types els ecps Hv. unfold fhi_write_formatted, fhi_guard.
    assert (E : forallb (fun t => existsb (String.eqb t) fhi_valid_types) types = true).
    { apply forallb_forall. intros t Ht. rewrite Forall_forall in Hv. specialize (Hv t Ht). apply existsb_exists.
      exists t. split; [exact Hv | apply String.eqb_refl]. }
    rewrite E. reflexivity.
Qed.

(* ================================================================== *)
(* 4. the conditions of fhi_ok, the store instance                     *)
(* ================================================================== *)
Lemma fhi_am_facts : fhi_am_stmt.
Proof. repeat split; vm_compute; reflexivity. Qed.
Lemma fhi_lengths : fhi_lengths_stmt.
Proof. repeat split; vm_compute; reflexivity. Qed.
Lemma fhi_floating : fhi_floating_stmt.
Proof. repeat split; vm_compute; reflexivity. Qed.
Lemma fhi_elements : fhi_elements_stmt.
Proof. repeat split; vm_compute; reflexivity. Qed.

Ltac floats := repeat (constructor; try (vm_compute; reflexivity)).

Lemma fhi_example : fhi_example_stmt.
Proof.
  split; [|repeat split; vm_compute; reflexivity].
  repeat (constructor; [split; [cbn; lia|]|]);
    repeat (constructor; [split; [eexists; reflexivity|]; repeat split; floats|]); constructor.
Qed.

Print Assumptions fhi_write_total.
Print Assumptions fhi_no_number_lost_partial.
Print Assumptions fhi_no_number_lost_counterexample.
Print Assumptions fhi_ecp_ignored.
Print Assumptions fhi_ecp_lost.
Print Assumptions fhi_guard_facts.
Print Assumptions fhi_am_facts.
Print Assumptions fhi_lengths.
Print Assumptions fhi_floating.
Print Assumptions fhi_elements.
Print Assumptions fhi_example.
