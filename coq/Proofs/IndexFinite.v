(* Finite, data-level theorems over the shipped index (Gen/GenIndex.v = data/METADATA.json as it is now), by vm_compute. *)
From BSE Require Import Model.Val Model.Elements Model.Compose Model.Index Model.Memo Gen.GenApi Gen.GenIndex.

Definition has_key (k : string) : bool := match assoc k shipped_index with Some _ => true | None => false end.
Definition strs_eqb (a b : list string) : bool :=
  (fix go (a b : list string) : bool :=
     match a, b with [], [] => true | x :: a', y :: b' => andb (String.eqb x y) (go a' b') | _, _ => false end) a b.

(* the record shared by all aliases: everything except display name / other names *)
Definition same_record (a b : ientry) : bool :=
  String.eqb (i_basename a) (i_basename b) && String.eqb (i_relpath a) (i_relpath b) && String.eqb (i_family a) (i_family b)
  && String.eqb (i_role a) (i_role b) && strs_eqb (i_ftypes a) (i_ftypes b) && String.eqb (i_latest a) (i_latest b)
  && strs_eqb (map (fun v => fst (fst v)) (i_versions a)) (map (fun v => fst (fst v)) (i_versions b))
  && strs_eqb (map (fun v => snd (fst v)) (i_versions a)) (map (fun v => snd (fst v)) (i_versions b)).

Definition key_is_transform (kv : string * ientry) : bool := String.eqb (fst kv) (transform_basis_name (i_display (snd kv))).
Definition aliases_ok (kv : string * ientry) : bool :=
  forallb (fun o => match assoc (transform_basis_name o) shipped_index with
                    | Some e => same_record e (snd kv) && existsb (String.eqb (i_display (snd kv))) (i_others e)
                    | None => false
                    end) (i_others (snd kv)).
Definition aux_ok (kv : string * ientry) : bool :=
  forallb (fun ra => andb (is_role (fst ra)) (forallb (fun n => has_key (transform_basis_name n)) (snd ra))) (i_aux (snd kv)).
Definition ver_num (s : string) : Z := if isdecimal s then digits_val s 0 else (-1)%Z.
Definition latest_ok (kv : string * ientry) : bool :=
  let vs := map (fun v => fst (fst v)) (i_versions (snd kv)) in
  match vs with
  | [] => false
  | _ => existsb (String.eqb (i_latest (snd kv))) vs &&
         forallb (fun v => andb (isdecimal v) (ver_num v <=? ver_num (i_latest (snd kv)))%Z) vs
  end.
Definition paths_ok (kv : string * ientry) : bool :=
  forallb (fun v => String.eqb (snd (fst v))
                      (path_join (i_relpath (snd kv)) (i_basename (snd kv) +++ "." +++ fst (fst v) +++ ".table.json")))
          (i_versions (snd kv)).
Definition name_roundtrip_ok (kv : string * ientry) : bool :=
  String.eqb (basis_name_from_filename (transform_basis_name (i_display (snd kv)))) (lower (i_display (snd kv))).
Definition role_family_ok (kv : string * ientry) : bool :=
  is_role (i_role (snd kv)) && String.eqb (lower (i_family (snd kv))) (i_family (snd kv)).

Definition entry_checks (kv : string * ientry) : bool :=
  key_is_transform kv && aliases_ok kv && aux_ok kv && latest_ok kv && paths_ok kv && name_roundtrip_ok kv && role_family_ok kv.

Lemma shipped_index_sweep : forallb entry_checks shipped_index = true.
Proof. vm_compute. reflexivity. Qed.

Lemma shipped_entry_ok kv : In kv shipped_index -> entry_checks kv = true.
Proof. intros H. exact (proj1 (forallb_forall _ _) shipped_index_sweep kv H). Qed.

Lemma shipped_keys_distinct : nodup_strs (map fst shipped_index) = true.
Proof. vm_compute. reflexivity. Qed.

Lemma shipped_names_roundtrip :
  forall kv, In kv shipped_index ->
    basis_name_from_filename (transform_basis_name (i_display (snd kv))) = lower (i_display (snd kv)).
Proof.
  intros kv H. pose proof (shipped_entry_ok kv H) as E. unfold entry_checks in E.
  repeat rewrite andb_true_iff in E. destruct E as [[_ E] _]. now apply String.eqb_eq in E.
Qed.
